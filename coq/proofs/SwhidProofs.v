(* C08: printing then parsing a SWHID value returns it. *)
From Coq Require Import List NArith ZArith Bool Lia Arith.
From SWH.lib Require Import Bytes Dec Hex Utf8 Percent.
From SWH Require Import Generated.
From SWH.model Require Import Swhid.
From SWH.proofs Require Import SwhidTables SwhidLib PercentProofs.
Import ListNotations.
Open Scope N_scope.

(* ---------------------------------------------------------------- well-formed values *)
Definition wf_core_in (types : list text) (c : core) : Prop :=
  In (c_ty c) types /\ length (c_oid c) = 20%nat /\ wf_bytes (c_oid c) = true.
Definition wf_core := wf_core_in SWHID_TYPES.
Definition wf_ext := wf_core_in EXTENDED_SWHID_TYPES.

(* a line number the interpreter can print: non-negative, at most lim digits (lim = 0: no limit) *)
Definition line_ok (lim : N) (z : Z) : Prop :=
  (0 <= z)%Z /\ over_limit lim (length (dec_Z z)) = false.

Definition wf_q (lim : N) (v : qualified) : Prop :=
  In (q_ty v) SWHID_TYPES /\ length (q_oid v) = 20%nat /\ wf_bytes (q_oid v) = true /\
  (forall c, q_visit v = Some c -> wf_core c /\ c_ty c = S_snp) /\
  (forall c, q_anchor v = Some c -> wf_core c /\ In (c_ty c) DOC_ANCHOR_TYPES) /\
  (forall p, q_path v = Some p -> wf_bytes p = true) /\
  (forall a b, q_lines v = Some (a, b) -> line_ok lim a /\ forall b', b = Some b' -> line_ok lim b').

(* ---------------------------------------------------------------- characters *)
Definition clean (x : N) : bool := negb (is_space x) && negb (x =? 59).

Lemma clean_no_space : forall l, forallb clean l = true -> forallb (fun x => negb (is_space x)) l = true.
Proof. intros l H. eapply forallb_imp; [|exact H]. intros c Hc. unfold clean in Hc. apply andb_true_iff in Hc. tauto. Qed.
Lemma clean_no_semicolon : forall l, forallb clean l = true -> ~ In 59 l.
Proof. intros l H. eapply forallb_not_In; [exact H | reflexivity]. Qed.

Lemma lower_hex_clean : forall c, is_lower_hex c = true -> clean c = true /\ c <> 58 /\ c <> 61.
Proof.
  assert (H : forallb (fun c => implb (is_lower_hex c) (clean c && negb (c =? 58) && negb (c =? 61))) (below 128) = true)
    by (vm_compute; reflexivity).
  intros c Hc. assert (L : c < 128) by (unfold is_lower_hex in Hc; b2p Hc; lia).
  pose proof (forall_below _ 128 H c L) as X. cbv beta in X. rewrite Hc in X. cbn [implb] in X. b2p X. tauto.
Qed.

Lemma digit_clean : forall c, is_digit c = true -> clean c = true /\ c <> 45.
Proof.
  assert (H : forallb (fun c => implb (is_digit c) (clean c && negb (c =? 45))) (below 128) = true)
    by (vm_compute; reflexivity).
  intros c Hc. assert (L : c < 128) by (unfold is_digit in Hc; b2p Hc; lia).
  pose proof (forall_below _ 128 H c L) as X. cbv beta in X. rewrite Hc in X. cbn [implb] in X. b2p X. tauto.
Qed.

Lemma doc_ext_cases : forall (P : text -> Prop), Forall P DOC_EXT_TYPES -> forall t, In t DOC_EXT_TYPES -> P t.
Proof. intros P H t Ht. rewrite Forall_forall in H. apply H, Ht. Qed.

Lemma type_shape : forall t, In t DOC_EXT_TYPES ->
  length t = 3%nat /\ ~ In 58 t /\ forallb clean t = true.
Proof.
  apply doc_ext_cases. repeat constructor; try reflexivity; vm_compute; intuition discriminate.
Qed.

Lemma core_in_ext : forall t, In t DOC_CORE_TYPES -> In t DOC_EXT_TYPES.
Proof. apply subset_b_In, tbl_core_sub_ext. Qed.

Lemma hexlify_clean : forall b, wf_bytes b = true -> forallb clean (hexlify b) = true.
Proof.
  intros b H. eapply forallb_imp; [|apply hexlify_lower, H]. intros c Hc. apply lower_hex_clean, Hc.
Qed.

Lemma print_core_eq : forall c, print_core c = S_swh1 ++ c_ty c ++ [58] ++ hexlify (c_oid c).
Proof. intro c. unfold print_core. rewrite <- tbl_head. unfold re_head. rewrite <- !app_assoc. reflexivity. Qed.

Lemma print_core_clean : forall c, wf_core_in DOC_EXT_TYPES c -> forallb clean (print_core c) = true.
Proof.
  intros c [Ht [_ Hb]]. rewrite print_core_eq. rewrite !forallb_app.
  destruct (type_shape _ Ht) as [_ [_ Hc]]. rewrite Hc, (hexlify_clean _ Hb). reflexivity.
Qed.

(* ---------------------------------------------------------------- the regex on printed text *)
Definition tail_of (q : option text) : text := match q with None => [] | Some qs => 59 :: qs end.
Definition tail_ok (q : option text) : Prop :=
  match q with None => True | Some qs => qs <> [] /\ forallb (fun x => negb (is_space x)) qs = true end.

Lemma app_sep_unique : forall c (a b x y : text), ~ In c a -> ~ In c b -> a ++ c :: x = b ++ c :: y -> a = b /\ x = y.
Proof.
  intros c a b x y Ha Hb E. pose proof (cut_app c a x Ha) as H1. pose proof (cut_app c b y Hb) as H2.
  rewrite E in H1. rewrite H1 in H2. inversion H2. split; reflexivity.
Qed.

Lemma match_after_type_inv : forall t r1 ty h q, match_after_type t r1 = Some (ty, h, q) ->
  ty = t /\ r1 = t ++ [58] ++ h ++ tail_of q /\ length h = 40%nat /\ forallb is_lower_hex h = true /\ tail_ok q.
Proof.
  intros t r1 ty h q H. unfold match_after_type in H.
  destruct (strip_prefix (t ++ [58]) r1) as [r2|] eqn:Es; [|discriminate].
  apply strip_prefix_inv in Es. destruct (Nat.eqb (length (take 40 r2)) 40 && forallb is_lower_hex (take 40 r2)) eqn:C; [|discriminate].
  apply andb_true_iff in C. destruct C as [C1 C2]. apply Nat.eqb_eq in C1.
  assert (R : r2 = take 40 r2 ++ drop 40 r2) by (symmetry; apply firstn_skipn).
  destruct (drop 40 r2) as [|c qs] eqn:Ed.
  - inversion H; subst ty h q. repeat split; auto. rewrite Es, R at 1. rewrite <- app_assoc. reflexivity.
  - destruct ((c =? 59) && negb (is_nil qs) && forallb (fun x => negb (is_space x)) qs) eqn:C3; [|discriminate].
    inversion H; subst ty h q. apply andb_true_iff in C3. destruct C3 as [C3 C5]. apply andb_true_iff in C3.
    destruct C3 as [C3 C4]. apply N.eqb_eq in C3. subst c. apply negb_true_iff, is_nil_false in C4.
    repeat split; auto. rewrite Es, R at 1. rewrite <- app_assoc. reflexivity.
Qed.

Lemma match_after_type_build : forall t h q, length h = 40%nat -> forallb is_lower_hex h = true -> tail_ok q ->
  match_after_type t (t ++ [58] ++ h ++ tail_of q) = Some (t, h, q).
Proof.
  intros t h q Hl Hh Hq. unfold match_after_type.
  replace (t ++ [58] ++ h ++ tail_of q) with ((t ++ [58]) ++ h ++ tail_of q) by (rewrite <- app_assoc; reflexivity).
  rewrite strip_prefix_app.
  assert (T : take 40 (h ++ tail_of q) = h) by (rewrite <- Hl; apply take_app_length).
  assert (D : drop 40 (h ++ tail_of q) = tail_of q) by (rewrite <- Hl; apply drop_app_length).
  rewrite T, D, Hl, Hh. cbn [Nat.eqb andb]. destruct q as [qs|]; [|reflexivity].
  cbn [tail_of]. destruct Hq as [Hn Hw]. rewrite N.eqb_refl, Hw. apply is_nil_false in Hn. rewrite Hn. reflexivity.
Qed.

Lemma match_swhid_re_inv : forall s ty h q, match_swhid_re s = Some (ty, h, q) ->
  s = S_swh1 ++ ty ++ [58] ++ h ++ tail_of q /\ In ty DOC_EXT_TYPES /\ length h = 40%nat /\
  forallb is_lower_hex h = true /\ tail_ok q.
Proof.
  intros s ty h q H. unfold match_swhid_re in H. rewrite tbl_head, tbl_ext_types in H.
  destruct (strip_prefix S_swh1 s) as [r1|] eqn:Es; [|discriminate]. apply strip_prefix_inv in Es.
  apply first_some_inv in H. destruct H as [t [Ht Hm]]. apply match_after_type_inv in Hm.
  destruct Hm as [E [Hr [Hl [Hh Hq]]]]. subst ty. repeat split; auto. rewrite Es, Hr. reflexivity.
Qed.

Lemma match_swhid_re_build : forall ty h q, In ty DOC_EXT_TYPES -> length h = 40%nat ->
  forallb is_lower_hex h = true -> tail_ok q ->
  match_swhid_re (S_swh1 ++ ty ++ [58] ++ h ++ tail_of q) = Some (ty, h, q).
Proof.
  intros ty h q Ht Hl Hh Hq. unfold match_swhid_re. rewrite tbl_head, tbl_ext_types, strip_prefix_app.
  apply first_some_unique with (t := ty); [|exact Ht|apply match_after_type_build; assumption].
  intros x z Hx Hz. destruct z as [[ty' h'] q']. apply match_after_type_inv in Hz.
  destruct Hz as [_ [E _]]. cbn [app] in E.
  destruct (type_shape _ Ht) as [_ [N1 _]]. destruct (type_shape _ Hx) as [_ [N2 _]].
  symmetry in E. apply app_sep_unique in E; tauto.
Qed.

(* ---------------------------------------------------------------- qualifiers *)
Definition item (kv : text * text) : text := fst kv ++ 61 :: snd kv.
Definition render (kv : text * text) : text := 59 :: item kv.

Lemma parse_quals_build : forall d, (forall kv, In kv d -> ~ In 61 (fst kv)) -> parse_quals (map item d) = Ok d.
Proof.
  induction d as [|[k v] d IH]; intro H; [reflexivity|].
  cbn [map parse_quals]. unfold item at 1. cbn [fst snd]. rewrite cut_app by (apply (H (k, v)); left; reflexivity).
  rewrite IH by (intros kv Hkv; apply H; right; exact Hkv). reflexivity.
Qed.

Lemma parse_quals_inv : forall items d, parse_quals items = Ok d ->
  items = map item d /\ forall kv, In kv d -> ~ In 61 (fst kv).
Proof.
  induction items as [|q items IH]; intros d H.
  - inversion H. split; [reflexivity | intros kv []].
  - cbn [parse_quals] in H. destruct (cut 61 q) as [k [v|]] eqn:Ec; [|discriminate].
    destruct (parse_quals items) as [d'|e] eqn:Ep; [|discriminate]. cbn [bind] in H. inversion H; subst d.
    destruct (IH d' eq_refl) as [H1 H2]. apply cut_some_inv in Ec. destruct Ec as [Eq Hk]. split.
    + cbn [map]. unfold item at 1. cbn [fst snd]. rewrite Eq, H1. reflexivity.
    + intros kv [Hkv|Hkv]; [subst kv; exact Hk | apply H2, Hkv].
Qed.

Lemma parse_quals_err : forall items e, parse_quals items = Err e -> e = EValidation.
Proof.
  induction items as [|q items IH]; intros e H; [discriminate|].
  cbn [parse_quals] in H. destruct (cut 61 q) as [k [v|]]; [|congruence].
  destruct (parse_quals items) as [d'|e'] eqn:Ep; [discriminate|]. cbn [bind] in H. inversion H; subst. apply IH. reflexivity.
Qed.

Lemma flat_map_render : forall kv d, flat_map render (kv :: d) = 59 :: join 59 (map item (kv :: d)).
Proof.
  intros kv d. cbn [flat_map map join]. unfold render at 1. cbn [app]. f_equal. f_equal.
  induction d as [|x d IH]; [reflexivity|]. cbn [flat_map map]. rewrite IH. reflexivity.
Qed.

Definition entry_ok (kv : text * text) : Prop :=
  ~ In 61 (fst kv) /\ forallb clean (fst kv) = true /\ forallb clean (snd kv) = true.

Lemma item_clean : forall kv, entry_ok kv -> forallb clean (item kv) = true.
Proof. intros kv [_ [H1 H2]]. unfold item. rewrite forallb_app. cbn [forallb]. rewrite H1, H2. reflexivity. Qed.

Lemma unhex_hexlify_wf : forall b, wf_bytes b = true -> unhex (hexlify b) = Some b.
Proof. exact unhex_hexlify. Qed.

(* _parse_swhid on a printed identifier followed by rendered qualifiers *)
Lemma parse_swhid_build : forall c d, wf_core_in DOC_EXT_TYPES c -> (forall kv, In kv d -> entry_ok kv) ->
  parse_swhid (print_core c ++ flat_map render d) = Ok (c_ty c, c_oid c, d).
Proof.
  intros c d [Ht [Hl Hb]] Hd. rewrite print_core_eq.
  assert (HL : length (hexlify (c_oid c)) = 40%nat) by (rewrite hexlify_length, Hl; reflexivity).
  assert (HH : forallb is_lower_hex (hexlify (c_oid c)) = true) by (apply hexlify_lower, Hb).
  unfold parse_swhid. rewrite tbl_version_int, Z.eqb_refl.
  destruct d as [|kv d].
  - cbn [flat_map]. rewrite app_nil_r.
    pose proof (match_swhid_re_build (c_ty c) (hexlify (c_oid c)) None Ht HL HH I) as M.
    cbn [tail_of] in M. rewrite app_nil_r in M. rewrite <- ?app_assoc. rewrite M. cbn [bind].
    rewrite unhex_hexlify by exact Hb. reflexivity.
  - rewrite flat_map_render.
    assert (Q : tail_ok (Some (join 59 (map item (kv :: d))))).
    { split.
      - cbn [map join]. unfold item at 1. intro E. apply app_eq_nil in E. destruct E as [E _].
        apply app_eq_nil in E. destruct E as [_ E]. discriminate.
      - cbn [map join]. rewrite forallb_app. apply andb_true_iff. split.
        + apply clean_no_space, item_clean, Hd. left. reflexivity.
        + rewrite forallb_flat_map. apply forallb_forall. intros x Hx. apply in_map_iff in Hx.
          destruct Hx as [kv' [E Hkv']]. subst x. cbn [forallb].
          rewrite clean_no_space by (apply item_clean, Hd; right; exact Hkv'). reflexivity. }
    pose proof (match_swhid_re_build (c_ty c) (hexlify (c_oid c)) _ Ht HL HH Q) as M.
    cbn [tail_of] in M. rewrite <- ?app_assoc. cbn [app] in *. rewrite M.
    change (map item (kv :: d)) with (item kv :: map item d).
    rewrite split_on_join.
    + change (item kv :: map item d) with (map item (kv :: d)). rewrite parse_quals_build by (intros x Hx; apply Hd, Hx). cbn [bind].
      rewrite unhex_hexlify by exact Hb. reflexivity.
    + intros q Hq. change (item kv :: map item d) with (map item (kv :: d)) in Hq. apply in_map_iff in Hq.
      destruct Hq as [kv' [E Hkv']]. subst q. apply clean_no_semicolon, item_clean, Hd, Hkv'.
Qed.

(* ---------------------------------------------------------------- core / extended round trip *)
Lemma In_core_types_enum : forall t, In t SWHID_TYPES -> mem_bytes t (enum_values OBJECT_TYPES) = true.
Proof. intros t H. rewrite mem_core_enum. apply mem_bytes_In. rewrite <- tbl_core_types. exact H. Qed.
Lemma In_ext_types_enum : forall t, In t EXTENDED_SWHID_TYPES -> mem_bytes t (enum_values EXTENDED_OBJECT_TYPES) = true.
Proof. intros t H. rewrite mem_ext_enum. apply mem_bytes_In. rewrite <- tbl_ext_types. exact H. Qed.

Lemma wf_core_doc_ext : forall c, wf_core c -> wf_core_in DOC_EXT_TYPES c.
Proof.
  intros c [H1 H2]. split; [|exact H2]. apply core_in_ext. rewrite <- tbl_core_types. exact H1.
Qed.
Lemma wf_ext_doc_ext : forall c, wf_ext c -> wf_core_in DOC_EXT_TYPES c.
Proof. intros c [H1 H2]. split; [|exact H2]. rewrite <- tbl_ext_types. exact H1. Qed.

Lemma parse_simple_print : forall enum c, wf_core_in DOC_EXT_TYPES c -> mem_bytes (c_ty c) enum = true ->
  parse_simple enum (print_core c) = Ok c.
Proof.
  intros enum c W M. unfold parse_simple.
  pose proof (parse_swhid_build c [] W (fun kv H => match H with end)) as P.
  cbn [flat_map] in P. rewrite app_nil_r in P. rewrite P. cbn [bind is_nil negb].
  unfold mk_simple. rewrite M. destruct W as [_ [Hl _]]. rewrite Hl. cbn [negb Nat.eqb value_error_to_validation].
  destruct c; reflexivity.
Qed.

Theorem core_roundtrip : forall c, wf_core c -> parse_core (print_core c) = Ok c.
Proof.
  intros c W. apply parse_simple_print; [apply wf_core_doc_ext, W|]. apply In_core_types_enum. apply W.
Qed.

Theorem ext_roundtrip : forall c, wf_ext c -> parse_ext (print_core c) = Ok c.
Proof.
  intros c W. apply parse_simple_print; [apply wf_ext_doc_ext, W|]. apply In_ext_types_enum. apply W.
Qed.

(* ---------------------------------------------------------------- printing a qualified value *)
Definition opt_entry (k : text) (o : option text) : list (text * text) :=
  match o with Some t => [(k, t)] | None => [] end.
Definition entries (vo vv va vp vl : option text) : list (text * text) :=
  opt_entry K_origin vo ++ opt_entry K_visit vv ++ opt_entry K_anchor va ++ opt_entry K_path vp
  ++ opt_entry K_lines vl.

Lemma print_quals_entries : forall esc lim v vo vv va vp vl,
  qual_value esc lim v K_origin = Ok vo -> qual_value esc lim v K_visit = Ok vv ->
  qual_value esc lim v K_anchor = Ok va -> qual_value esc lim v K_path = Ok vp ->
  qual_value esc lim v K_lines = Ok vl ->
  print_quals esc lim v FIELD_KEYS = Ok (flat_map render (entries vo vv va vp vl)).
Proof.
  intros esc lim v vo vv va vp vl H1 H2 H3 H4 H5. unfold FIELD_KEYS. cbn [print_quals].
  rewrite H1, H2, H3, H4, H5. cbn [bind]. f_equal.
  destruct vo, vv, va, vp, vl; cbn [entries opt_entry app flat_map render item fst snd];
    rewrite <- ?app_assoc; cbn [app]; rewrite ?app_nil_r; reflexivity.
Qed.

Lemma print_quals_inv : forall esc lim v r, print_quals esc lim v FIELD_KEYS = Ok r ->
  exists vo vv va vp vl,
    qual_value esc lim v K_origin = Ok vo /\ qual_value esc lim v K_visit = Ok vv /\
    qual_value esc lim v K_anchor = Ok va /\ qual_value esc lim v K_path = Ok vp /\
    qual_value esc lim v K_lines = Ok vl /\ r = flat_map render (entries vo vv va vp vl).
Proof.
  intros esc lim v r H.
  destruct (qual_value esc lim v K_origin) as [vo|] eqn:E1; [|unfold FIELD_KEYS in H; cbn [print_quals] in H; rewrite E1 in H; discriminate].
  destruct (qual_value esc lim v K_visit) as [vv|] eqn:E2; [|unfold FIELD_KEYS in H; cbn [print_quals] in H; rewrite E1, E2 in H; discriminate].
  destruct (qual_value esc lim v K_anchor) as [va|] eqn:E3; [|unfold FIELD_KEYS in H; cbn [print_quals] in H; rewrite E1, E2, E3 in H; discriminate].
  destruct (qual_value esc lim v K_path) as [vp|] eqn:E4; [|unfold FIELD_KEYS in H; cbn [print_quals] in H; rewrite E1, E2, E3, E4 in H; discriminate].
  destruct (qual_value esc lim v K_lines) as [vl|] eqn:E5; [|unfold FIELD_KEYS in H; cbn [print_quals] in H; rewrite E1, E2, E3, E4, E5 in H; discriminate].
  rewrite (print_quals_entries esc lim v vo vv va vp vl E1 E2 E3 E4 E5) in H. inversion H.
  exists vo, vv, va, vp, vl. repeat split; reflexivity.
Qed.

Lemma dict_get_entries : forall vo vv va vp vl,
  let d := entries vo vv va vp vl in
  dict_get K_origin d = vo /\ dict_get K_visit d = vv /\ dict_get K_anchor d = va /\
  dict_get K_path d = vp /\ dict_get K_lines d = vl.
Proof. intros [?|] [?|] [?|] [?|] [?|]; repeat split; reflexivity. Qed.

Lemma entries_keys_known : forall vo vv va vp vl,
  existsb (fun kv : bytes * text => negb (mem_bytes (fst kv) SWHID_QUALIFIERS)) (entries vo vv va vp vl) = false /\
  existsb (fun kv : text * text => negb (mem_bytes (fst kv) FIELD_KEYS)) (entries vo vv va vp vl) = false.
Proof. intros [?|] [?|] [?|] [?|] [?|]; split; reflexivity. Qed.

Lemma entries_ok : forall vo vv va vp vl,
  (forall t, vo = Some t -> forallb clean t = true) -> (forall t, vv = Some t -> forallb clean t = true) ->
  (forall t, va = Some t -> forallb clean t = true) -> (forall t, vp = Some t -> forallb clean t = true) ->
  (forall t, vl = Some t -> forallb clean t = true) ->
  forall kv, In kv (entries vo vv va vp vl) -> entry_ok kv.
Proof.
  intros vo vv va vp vl H1 H2 H3 H4 H5 kv Hin. unfold entries in Hin. rewrite !in_app_iff in Hin.
  assert (K : forall k o, (forall t, o = Some t -> forallb clean t = true) ->
              (~ In 61 k /\ forallb clean k = true) -> In kv (opt_entry k o) -> entry_ok kv).
  { intros k o Ho [Hk1 Hk2] Hkv. destruct o as [t|]; [|destruct Hkv]. destruct Hkv as [E|[]]. subst kv.
    repeat split; cbn [fst snd]; auto. }
  destruct Hin as [Hin|[Hin|[Hin|[Hin|Hin]]]].
  - apply (K K_origin vo H1); [split; [vm_compute; intuition discriminate | reflexivity] | exact Hin].
  - apply (K K_visit vv H2); [split; [vm_compute; intuition discriminate | reflexivity] | exact Hin].
  - apply (K K_anchor va H3); [split; [vm_compute; intuition discriminate | reflexivity] | exact Hin].
  - apply (K K_path vp H4); [split; [vm_compute; intuition discriminate | reflexivity] | exact Hin].
  - apply (K K_lines vl H5); [split; [vm_compute; intuition discriminate | reflexivity] | exact Hin].
Qed.

(* ---------------------------------------------------------------- line numbers *)
Lemma dec_Z_nonneg : forall z, (0 <= z)%Z -> dec_Z z = dec_N (Z.to_N z) /\ Z.of_N (Z.to_N z) = z /\ Z.abs_N z = Z.to_N z.
Proof. intros [|p|p] H; [repeat split; reflexivity | repeat split; reflexivity | lia]. Qed.

Lemma str_int_ok : forall lim z, line_ok lim z -> str_int lim z = Ok (dec_Z z).
Proof.
  intros lim z [H1 H2]. unfold str_int. destruct (dec_Z_nonneg z H1) as [E [_ A]].
  rewrite A, <- E, H2. reflexivity.
Qed.

Lemma dec_N_clean : forall n, forallb clean (dec_N n) = true.
Proof. intro n. eapply forallb_imp; [|apply dec_N_digits]. intros c Hc. apply digit_clean, Hc. Qed.

Lemma dec_N_no_dash : forall n, ~ In 45 (dec_N n).
Proof. intro n. eapply forallb_not_In; [apply dec_N_digits | reflexivity]. Qed.

Lemma int_of_digits_dec : forall lim z, line_ok lim z -> int_of_digits lim (dec_Z z) = Ok z.
Proof.
  intros lim z [H1 H2]. unfold int_of_digits. rewrite H2. destruct (dec_Z_nonneg z H1) as [E [Z1 _]].
  rewrite E, parse_dec_N_dec_N, Z1. reflexivity.
Qed.

Lemma span_digits_dec : forall n r, match r with [] => True | x :: _ => is_digit x = false end ->
  span is_digit (dec_N n ++ r) = (dec_N n, r).
Proof. intros n r H. apply span_all; [apply dec_N_digits | exact H]. Qed.

Lemma print_parse_lines : forall lim a b, line_ok lim a -> (forall b', b = Some b' -> line_ok lim b') ->
  exists t, print_lines lim (a, b) = Ok t /\ forallb clean t = true /\ parse_lines lim t = Ok (a, b).
Proof.
  intros lim a b Ha Hb. destruct (dec_Z_nonneg a (proj1 Ha)) as [Ea _].
  destruct b as [b|].
  - specialize (Hb b eq_refl). destruct (dec_Z_nonneg b (proj1 Hb)) as [Eb _].
    exists (dec_Z a ++ [45] ++ dec_Z b). unfold print_lines. rewrite (str_int_ok _ _ Ha), (str_int_ok _ _ Hb).
    cbn [bind]. split; [reflexivity|]. split.
    + rewrite Ea, Eb, !forallb_app, !dec_N_clean. reflexivity.
    + unfold parse_lines, lines_re_match. cbn [app]. rewrite Ea at 1. rewrite span_digits_dec by reflexivity.
      pose proof (dec_N_nonempty (Z.to_N a)) as Na. apply is_nil_false in Na. rewrite Na. cbn [negb andb N.eqb].
      rewrite Eb at 1. rewrite <- (app_nil_r (dec_N (Z.to_N b))) at 1. rewrite span_digits_dec by exact I.
      pose proof (dec_N_nonempty (Z.to_N b)) as Nb. apply is_nil_false in Nb. rewrite Nb. cbn [negb andb is_nil].
      rewrite Ea at 1. rewrite cut_app by apply dec_N_no_dash.
      replace (memb 45 (dec_Z b)) with false by (symmetry; rewrite Eb; apply memb_false, dec_N_no_dash).
      rewrite <- Ea, (int_of_digits_dec _ _ Ha), (int_of_digits_dec _ _ Hb). reflexivity.
  - exists (dec_Z a). unfold print_lines. rewrite (str_int_ok _ _ Ha). split; [reflexivity|]. split.
    + rewrite Ea. apply dec_N_clean.
    + unfold parse_lines, lines_re_match. rewrite Ea at 1. rewrite <- (app_nil_r (dec_N (Z.to_N a))) at 1.
      rewrite span_digits_dec by exact I.
      pose proof (dec_N_nonempty (Z.to_N a)) as Na. apply is_nil_false in Na. rewrite Na. cbn [negb andb].
      rewrite Ea at 1. rewrite cut_none by apply dec_N_no_dash.
      rewrite <- Ea, (int_of_digits_dec _ _ Ha). reflexivity.
Qed.

(* ---------------------------------------------------------------- origin *)
Lemma print_origin_ok : forall o, print_origin esc_origin o = Ok (flat_map esc_char o).
Proof.
  intros [|c o]; [reflexivity|]. unfold print_origin. rewrite esc_origin_flat, unquote_esc_origin, beqb_refl. reflexivity.
Qed.

(* ---------------------------------------------------------------- the qualified round trip *)
Lemma qual_value_keys : forall esc lim v,
  qual_value esc lim v K_origin =
    match q_origin v with None => Ok None | Some o => bind (print_origin esc o) (fun t => Ok (Some t)) end /\
  qual_value esc lim v K_visit = Ok (option_map print_core (q_visit v)) /\
  qual_value esc lim v K_anchor = Ok (option_map print_core (q_anchor v)) /\
  qual_value esc lim v K_path = Ok (option_map quote_from_bytes (q_path v)) /\
  qual_value esc lim v K_lines =
    match q_lines v with None => Ok None | Some l => bind (print_lines lim l) (fun t => Ok (Some t)) end.
Proof. intros. repeat split; reflexivity. Qed.

Lemma dict_get_unquote_origin : forall d k,
  dict_get k (unquote_origin d) =
  if beqb K_origin k then option_map unquote (dict_get K_origin d) else dict_get k d.
Proof.
  intros d k. unfold unquote_origin. destruct (dict_get K_origin d) as [o|] eqn:E.
  - rewrite dict_get_app1. destruct (beqb K_origin k); reflexivity.
  - destruct (beqb K_origin k) eqn:B; [|reflexivity]. apply beqb_eq in B. subst k. exact E.
Qed.

Lemma keys_unquote_origin : forall (p : text -> bool) d, p K_origin = false ->
  existsb (fun kv => p (fst kv)) (unquote_origin d) = existsb (fun kv => p (fst kv)) d.
Proof.
  intros p d H. unfold unquote_origin. destruct (dict_get K_origin d); [|reflexivity].
  rewrite existsb_app. cbn [existsb fst]. rewrite H. rewrite !orb_false_r. reflexivity.
Qed.

Theorem qualified_roundtrip : forall lim v, wf_q lim v ->
  exists s, print_q lim v = Ok s /\ parse_q lim s = Ok v.
Proof.
  intros lim v W. destruct v as [ty oid o vi an pa li].
  destruct W as [Wt [Wl [Wb [Wv [Wa [Wp Wli]]]]]]. cbn [q_ty q_oid q_origin q_visit q_anchor q_path q_lines] in *.
  set (v := mkQ ty oid o vi an pa li).
  destruct (qual_value_keys esc_origin lim v) as [Q1 [Q2 [Q3 [Q4 Q5]]]]. cbn [v q_origin q_visit q_anchor q_path q_lines] in *.
  (* the five qualifier texts *)
  set (vo := option_map (flat_map esc_char) o).
  assert (E1 : qual_value esc_origin lim v K_origin = Ok vo).
  { rewrite Q1. destruct o as [o'|]; [|reflexivity]. rewrite print_origin_ok. reflexivity. }
  assert (E5 : exists vl, qual_value esc_origin lim v K_lines = Ok vl /\
                          (forall t, vl = Some t -> forallb clean t = true) /\
                          opt_conv (parse_lines lim) vl = Ok li).
  { rewrite Q5. destruct li as [[a b]|]; [|exists None; split; [reflexivity | split; [intros t E; discriminate | reflexivity]]].
    destruct (Wli a b eq_refl) as [Ha Hb]. destruct (print_parse_lines lim a b Ha Hb) as [t [P1 [P2 P3]]].
    exists (Some t). rewrite P1. repeat split.
    - intros t' E. inversion E; subst. exact P2.
    - cbn [opt_conv]. rewrite P3. reflexivity. }
  destruct E5 as [vl [E5 [C5 L5]]].
  set (vv := option_map print_core vi). set (va := option_map print_core an).
  set (vp := option_map quote_from_bytes pa).
  pose proof (print_quals_entries esc_origin lim v vo vv va vp vl E1 Q2 Q3 Q4 E5) as PQ.
  exists (print_core (mkCore ty oid) ++ flat_map render (entries vo vv va vp vl)). split.
  { unfold print_q, print_q_gen. rewrite tbl_print_order, PQ. reflexivity. }
  (* parsing it back *)
  assert (WC : wf_core_in DOC_EXT_TYPES (mkCore ty oid)).
  { apply wf_core_doc_ext. repeat split; assumption. }
  assert (EO : forall kv, In kv (entries vo vv va vp vl) -> entry_ok kv).
  { apply entries_ok.
    - intros t E. destruct o as [o'|]; [|discriminate]. inversion E. apply esc_origin_clean.
    - intros t E. destruct vi as [c|]; [|discriminate]. inversion E. apply print_core_clean, wf_core_doc_ext, (Wv c eq_refl).
    - intros t E. destruct an as [c|]; [|discriminate]. inversion E. apply print_core_clean, wf_core_doc_ext, (Wa c eq_refl).
    - intros t E. destruct pa as [p|]; [|discriminate]. inversion E.
      eapply forallb_imp; [|apply quote_qsafe, (Wp p eq_refl)]. intros c Hc. destruct (qsafe_props c Hc) as [_ [S [N _]]].
      unfold clean. rewrite S. apply N.eqb_neq in N. rewrite N. reflexivity.
    - exact C5. }
  unfold parse_q, parse_q_gen. rewrite (parse_swhid_build _ _ WC EO). cbn [bind c_ty c_oid].
  destruct (entries_keys_known vo vv va vp vl) as [K1 K2]. rewrite K1.
  unfold construct_q.
  rewrite (keys_unquote_origin (fun k => negb (mem_bytes k FIELD_KEYS))) by reflexivity. cbv beta. rewrite K2.
  rewrite (In_core_types_enum _ Wt). cbn [negb].
  rewrite !dict_get_unquote_origin.
  destruct (dict_get_entries vo vv va vp vl) as [D1 [D2 [D3 [D4 D5]]]]. rewrite D1, D2, D3, D4, D5.
  change (beqb K_origin K_visit) with false. change (beqb K_origin K_anchor) with false.
  change (beqb K_origin K_path) with false. change (beqb K_origin K_lines) with false.
  change (beqb K_origin K_origin) with true. cbv iota.
  assert (R2 : opt_conv parse_core vv = Ok vi).
  { destruct vi as [c|]; [|reflexivity]. cbn [vv option_map opt_conv]. rewrite core_roundtrip by apply (Wv c eq_refl). reflexivity. }
  assert (R3 : opt_conv parse_core va = Ok an).
  { destruct an as [c|]; [|reflexivity]. cbn [va option_map opt_conv]. rewrite core_roundtrip by apply (Wa c eq_refl). reflexivity. }
  assert (R4 : opt_conv parse_path vp = Ok pa).
  { destruct pa as [p|]; [|reflexivity]. cbn [vp option_map opt_conv]. unfold parse_path.
    rewrite unquote_to_bytes_quote by apply (Wp p eq_refl). reflexivity. }
  rewrite R2, R3, R4, L5. cbn [bind].
  assert (RO : option_map unquote vo = o).
  { destruct o as [o'|]; [|reflexivity]. cbn [vo option_map]. rewrite unquote_esc_origin. reflexivity. }
  rewrite RO. unfold mk_q. rewrite (In_core_types_enum _ Wt), Wl. cbn [negb Nat.eqb].
  replace (match vi with Some c => negb (beqb (c_ty c) TY_SNAPSHOT) | None => false end) with false.
  2:{ destruct vi as [c|]; [|reflexivity]. destruct (Wv c eq_refl) as [_ E]. rewrite E, tbl_snapshot, beqb_refl. reflexivity. }
  replace (match an with Some c => negb (mem_bytes (c_ty c) ANCHOR_TYPES) | None => false end) with false.
  2:{ destruct an as [c|]; [|reflexivity]. destruct (Wa c eq_refl) as [_ E]. rewrite tbl_anchor_types.
      apply mem_bytes_In in E. rewrite E. reflexivity. }
  reflexivity.
Qed.

(* ---------------------------------------------------------------- conversions *)
Theorem conversions : forall c, wf_core c ->
  to_extended c = Ok c /\
  exists q, to_qualified c = Ok q /\ q_oid q = c_oid c /\ q_ty q = c_ty c /\
            forall lim, print_q lim q = Ok (print_core c).
Proof.
  intros c W. destruct W as [Wt [Wl Wb]]. split.
  - unfold to_extended, mk_ext, mk_simple.
    assert (M : mem_bytes (c_ty c) (enum_values EXTENDED_OBJECT_TYPES) = true).
    { rewrite mem_ext_enum. apply mem_bytes_In, core_in_ext. rewrite <- tbl_core_types. exact Wt. }
    rewrite M, Wl. destruct c; reflexivity.
  - exists (mkQ (c_ty c) (c_oid c) None None None None None). split; [|split; [|split]]; try reflexivity.
    + unfold to_qualified, mk_q. rewrite (In_core_types_enum _ Wt), Wl. reflexivity.
    + intro lim. unfold print_q, print_q_gen. rewrite tbl_print_order. cbn. rewrite app_nil_r. destruct c; reflexivity.
Qed.

(* ---------------------------------------------------------------- the interpreter limit *)
(* with the digit limit set to 3, a value with the line number 1000 cannot be printed *)
Definition huge_line_witness : qualified :=
  mkQ S_cnt (repeat 0 20) None None None None (Some (1000%Z, None)).

Lemma huge_line_refuted :
  In (q_ty huge_line_witness) SWHID_TYPES /\ length (q_oid huge_line_witness) = 20%nat /\
  print_q 3 huge_line_witness = Err EValue /\
  exists s, print_q 4 huge_line_witness = Ok s /\ parse_q 4 s = Ok huge_line_witness.
Proof.
  split; [vm_compute; tauto|]. split; [reflexivity|]. split; [vm_compute; reflexivity|].
  exists (bs "swh:1:cnt:0000000000000000000000000000000000000000;lines=1000").
  split; vm_compute; reflexivity.
Qed.

(* non-vacuity *)
Lemma wf_q_satisfiable : wf_q 4300 ex_q /\ wf_core (mkCore S_dir ex_oid) /\ wf_ext (mkCore S_ori ex_oid).
Proof.
  split; [|split].
  - unfold wf_q, ex_q. cbn [q_ty q_oid q_visit q_anchor q_path q_lines].
    split; [vm_compute; tauto|]. split; [reflexivity|]. split; [reflexivity|].
    split. { intros c E. inversion E; subst. split; [|reflexivity]. repeat split; vm_compute; tauto. }
    split. { intros c E. inversion E; subst. split; [repeat split; vm_compute; tauto | vm_compute; tauto]. }
    split. { intros p E. inversion E; subst. reflexivity. }
    intros a b E. inversion E; subst. split.
    + split; [lia | reflexivity].
    + intros b' E'. inversion E'; subst. split; [lia | reflexivity].
  - repeat split; vm_compute; tauto.
  - repeat split; vm_compute; tauto.
Qed.
