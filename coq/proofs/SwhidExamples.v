(* Examples moved out of model/Swhid.v so that the model (and its extraction) still builds when a
   regenerated table makes one of them false; they are part of the proof cone of the properties. *)
From Coq Require Import List NArith ZArith Bool.
From SWH.lib Require Import Bytes Dec Hex Utf8 Percent.
From SWH Require Import Generated.
Import ListNotations.
Open Scope N_scope.
From SWH.model Require Import Swhid.

Example print_ex : print_q 4300 ex_q = Ok ex_q_text.
Proof. vm_compute. reflexivity. Qed.

Example parse_ex : parse_q 4300 ex_q_text = Ok ex_q.
Proof. vm_compute. reflexivity. Qed.

Example lang_ex : lang_q ex_q_text = true.
Proof. vm_compute. reflexivity. Qed.

Example parse_core_ex : parse_core (bs "swh:1:dir:" ++ ex_hex) = Ok (mkCore (bs "dir") ex_oid)
  /\ parse_core (bs "swh:1:ori:" ++ ex_hex) = Err EValidation
  /\ parse_ext (bs "swh:1:ori:" ++ ex_hex) = Ok (mkCore (bs "ori") ex_oid)
  /\ parse_core (bs "swh:1:dir:" ++ ex_hex ++ bs ";lines=1") = Err EValidation.
Proof. vm_compute. repeat split. Qed.

Example dup_ex : exists v, parse_q 4300 (bs "swh:1:cnt:" ++ ex_hex ++ bs ";lines=x;lines=3") = Ok v
                           /\ q_lines v = Some (3%Z, None).
Proof. eexists. vm_compute. split; reflexivity. Qed.

Example old_lines_ex : parse_lines_old 4300 (bs "+1") = Ok (1%Z, None)
                       /\ parse_lines 4300 (bs "+1") = Err EValidation.
Proof. vm_compute. split; reflexivity. Qed.
