(* Proofs about model/Codec.v (property C12), part 1: association lists, the
   induction principle of pyval, dictify, the constructor's dependence on its
   keyword arguments, and the schema-generic round trip. *)
From Coq Require Import List NArith ZArith Bool Lia.
From SWH.lib Require Import Bytes Dec Hex.
From SWH Require Import Generated.
From SWH.model Require Import Codec.
Import ListNotations.

(* ------------------------------------------------------------------ keys and association lists *)
Lemma is_key_str : forall k s, is_key k (VStr s) = beqb k s.
Proof. reflexivity. Qed.

Lemma dget_cons_str : forall k k' v d, dget k ((VStr k', v) :: d) = if beqb k k' then Some v else dget k d.
Proof. reflexivity. Qed.

Lemma dget_dset : forall k k' x d, dget k (dset k' x d) = if beqb k k' then Some x else dget k d.
Proof.
  intros k k' x d. induction d as [|[p v] r IH]; simpl.
  - reflexivity.
  - destruct (is_key k' p) eqn:E'; simpl.
    + destruct p; simpl in E'; try discriminate. apply beqb_eq in E'. subst s.
      cbn [dget is_key fst]. destruct (beqb k k'); reflexivity.
    + destruct (is_key k p) eqn:E.
      * destruct p; simpl in E, E'; try discriminate. apply beqb_eq in E. subst s.
        destruct (beqb k k') eqn:F; [|reflexivity]. apply beqb_eq in F. subst k'.
        rewrite beqb_refl in E'. discriminate.
      * exact IH.
Qed.

Lemma dget_dset_eq : forall k x d, dget k (dset k x d) = Some x.
Proof. intros. rewrite dget_dset, beqb_refl. reflexivity. Qed.

Lemma dget_dset_ne : forall k k' x d, beqb k k' = false -> dget k (dset k' x d) = dget k d.
Proof. intros k k' x d H. rewrite dget_dset, H. reflexivity. Qed.

Lemma dget_ddel : forall k k' d, dget k (ddel k' d) = if beqb k k' then None else dget k d.
Proof.
  intros k k' d. induction d as [|[p v] r IH]; simpl.
  - destruct (beqb k k'); reflexivity.
  - destruct (is_key k' p) eqn:E'; simpl.
    + destruct p; simpl in E'; try discriminate. apply beqb_eq in E'. subst s.
      rewrite IH. cbn [is_key]. destruct (beqb k k'); reflexivity.
    + destruct (is_key k p) eqn:E.
      * destruct p; simpl in E, E'; try discriminate. apply beqb_eq in E. subst s.
        destruct (beqb k k') eqn:F; [|reflexivity]. apply beqb_eq in F. subst k'.
        rewrite beqb_refl in E'. discriminate.
      * exact IH.
Qed.

Lemma dget_ddel_eq : forall k d, dget k (ddel k d) = None.
Proof. intros. rewrite dget_ddel, beqb_refl. reflexivity. Qed.

Lemma dget_ddel_ne : forall k k' d, beqb k k' = false -> dget k (ddel k' d) = dget k d.
Proof. intros k k' d H. rewrite dget_ddel, H. reflexivity. Qed.

Lemma ddel_absent : forall k d, dget k d = None -> ddel k d = d.
Proof.
  intros k d. induction d as [|[p v] r IH]; simpl; intro H; [reflexivity|].
  destruct (is_key k p); [discriminate|]. simpl. rewrite IH by exact H. reflexivity.
Qed.

Lemma dset_same : forall k v d, dget k d = Some v -> dset k v d = d.
Proof.
  intros k v d. induction d as [|[p x] r IH]; simpl; intro H; [discriminate|].
  destruct (is_key k p).
  - injection H as ->. reflexivity.
  - rewrite IH by exact H. reflexivity.
Qed.

(* keys_known through the dict commands *)
Lemma keys_known_ddel : forall s k d, keys_known s d = true -> keys_known s (ddel k d) = true.
Proof.
  intros s k d. unfold keys_known, ddel. rewrite !forallb_forall. intros H x Hx.
  apply filter_In in Hx. apply H. tauto.
Qed.

Lemma keys_known_dset : forall s k v d, mem_bytes k (map fname s) = true -> keys_known s d = true ->
  keys_known s (dset k v d) = true.
Proof.
  intros s k v d Hk. unfold keys_known. induction d as [|[p x] r IH]; simpl; intro H.
  - rewrite Hk. reflexivity.
  - apply andb_true_iff in H. destruct H as [H1 H2]. destruct (is_key k p); simpl.
    + rewrite H1, H2. reflexivity.
    + rewrite H1. simpl. apply IH. exact H2.
Qed.

Lemma keys_known_app : forall s a b, keys_known s (a ++ b) = keys_known s a && keys_known s b.
Proof. intros. unfold keys_known. apply forallb_app. Qed.

(* ------------------------------------------------------------------ induction over pyval *)
Section PyvalInd.
  Variable P : pyval -> Prop.
  Hypothesis HNone : P VNone.
  Hypothesis HBool : forall b, P (VBool b).
  Hypothesis HInt : forall z, P (VInt z).
  Hypothesis HBytes : forall b, P (VBytes b).
  Hypothesis HStr : forall s, P (VStr s).
  Hypothesis HDate : forall a b, P (VDate a b).
  Hypothesis HTuple : forall l, Forall P l -> P (VTuple l).
  Hypothesis HList : forall l, Forall P l -> P (VList l).
  Hypothesis HDict : forall l, Forall (fun kv => P (fst kv) /\ P (snd kv)) l -> P (VDict l).
  Hypothesis HIDict : forall l, Forall (fun kv => P (fst kv) /\ P (snd kv)) l -> P (VIDict l).
  Hypothesis HEnum : forall e s, P (VEnum e s).
  Hypothesis HSwhid : forall k t i, P (VSwhid k t i).
  Hypothesis HObj : forall c fs, Forall (fun nv => P (snd nv)) fs -> P (VObj c fs).

  Fixpoint pyval_ind' (v : pyval) : P v :=
    match v with
    | VNone => HNone
    | VBool b => HBool b
    | VInt z => HInt z
    | VBytes b => HBytes b
    | VStr s => HStr s
    | VDate a b => HDate a b
    | VTuple l => HTuple l ((fix go (l : list pyval) : Forall P l :=
                               match l with [] => Forall_nil _ | x :: r => Forall_cons _ (pyval_ind' x) (go r) end) l)
    | VList l => HList l ((fix go (l : list pyval) : Forall P l :=
                             match l with [] => Forall_nil _ | x :: r => Forall_cons _ (pyval_ind' x) (go r) end) l)
    | VDict l => HDict l ((fix go (l : dict) : Forall (fun kv => P (fst kv) /\ P (snd kv)) l :=
                             match l with
                             | [] => Forall_nil _
                             | kv :: r => Forall_cons _ (conj (pyval_ind' (fst kv)) (pyval_ind' (snd kv))) (go r)
                             end) l)
    | VIDict l => HIDict l ((fix go (l : dict) : Forall (fun kv => P (fst kv) /\ P (snd kv)) l :=
                               match l with
                               | [] => Forall_nil _
                               | kv :: r => Forall_cons _ (conj (pyval_ind' (fst kv)) (pyval_ind' (snd kv))) (go r)
                               end) l)
    | VEnum e s => HEnum e s
    | VSwhid k t i => HSwhid k t i
    | VObj c fs => HObj c fs ((fix go (l : fields) : Forall (fun nv => P (snd nv)) l :=
                                 match l with [] => Forall_nil _ | nv :: r => Forall_cons _ (pyval_ind' (snd nv)) (go r) end) fs)
    end.
End PyvalInd.

(* the list-shaped conjunctions inside [wf] as Forall *)
Lemma wf_all_fields : forall idf (fs : fields),
  (fix all (l : fields) : Prop := match l with [] => True | nv :: r => wf idf (snd nv) /\ all r end) fs
  <-> Forall (fun nv => wf idf (snd nv)) fs.
Proof.
  intros idf fs. induction fs as [|nv r IH]; split; intro H.
  - constructor. - exact I.
  - destruct H as [H1 H2]. constructor; [exact H1 | apply IH; exact H2].
  - inversion H; subst. split; [assumption | apply IH; assumption].
Qed.

Lemma wf_all_list : forall idf (l : list pyval),
  (fix all (l : list pyval) : Prop := match l with [] => True | x :: r => wf idf x /\ all r end) l
  <-> Forall (wf idf) l.
Proof.
  intros idf l. induction l as [|x r IH]; split; intro H.
  - constructor. - exact I.
  - destruct H as [H1 H2]. constructor; [exact H1 | apply IH; exact H2].
  - inversion H; subst. split; [assumption | apply IH; assumption].
Qed.

Lemma wf_all_dict : forall idf (l : dict),
  (fix all (l : dict) : Prop :=
     match l with [] => True | kv :: r => plain (fst kv) = true /\ wf idf (snd kv) /\ all r end) l
  <-> Forall (fun kv => plain (fst kv) = true /\ wf idf (snd kv)) l.
Proof.
  intros idf l. induction l as [|x r IH]; split; intro H.
  - constructor. - exact I.
  - destruct H as [H1 [H2 H3]]. constructor; [split; assumption | apply IH; exact H3].
  - inversion H as [|? ? [Ha Hb] Hr]; subst. split; [assumption | split; [assumption | apply IH; assumption]].
Qed.

Lemma wf_obj : forall idf c fs, wf idf (VObj c fs) <->
  map fst fs = names c /\ construct idf c (as_kwargs fs) = Ok (VObj c fs)
  /\ Forall2 (fun f nv => conforms (fty f) (snd nv)) (schema c) fs
  /\ Forall (fun nv => wf idf (snd nv)) fs.
Proof. intros. simpl. rewrite wf_all_fields. reflexivity. Qed.

(* ------------------------------------------------------------------ dictify *)
Section Dictify.
  Variable swhid_str : swhid_kind -> text -> bytes -> text.
  Notation dictify := (dictify swhid_str).

  Lemma dictify_obj : forall c fs,
    dictify (VObj c fs) = VDict (elide (elided c) (map (fun nv => (VStr (fst nv), dictify (snd nv))) fs)).
  Proof. reflexivity. Qed.

  Lemma is_none_dictify : forall v, is_none (dictify v) = is_none v.
  Proof. destruct v; reflexivity. Qed.

  Lemma dictify_none_inv : forall v, dictify v = VNone -> v = VNone.
  Proof. destruct v; simpl; intro H; try discriminate; reflexivity. Qed.

  (* plain values are left alone *)
  Lemma dictify_plain : forall v, plain v = true -> dictify v = v.
  Proof.
    induction v using pyval_ind'; simpl; intro Hp; try reflexivity; try discriminate.
    - f_equal. induction l as [|x r IHr]; [reflexivity|]. simpl in Hp. apply andb_true_iff in Hp.
      inversion H; subst. simpl. rewrite H2 by tauto. rewrite IHr by tauto. reflexivity.
    - f_equal. induction l as [|[k x] r IHr]; [reflexivity|]. simpl in Hp. apply andb_true_iff in Hp.
      destruct Hp as [Hkx Hr]. apply andb_true_iff in Hkx. inversion H as [|? ? [Hk Hx] Hrr]; subst. simpl in *.
      rewrite Hx by tauto. rewrite IHr by assumption. reflexivity.
  Qed.

  Lemma elide_nil : forall d, elide [] d = d.
  Proof.
    intro d. unfold elide. induction d as [|[k v] r IH]; [reflexivity|].
    cbn [filter]. rewrite IH. destruct k; reflexivity.
  Qed.

  Lemma elide_plain : forall ns d, forallb (fun kv => plain (fst kv) && plain (snd kv)) d = true ->
    forallb (fun kv => plain (fst kv) && plain (snd kv)) (elide ns d) = true.
  Proof.
    intros ns d. rewrite !forallb_forall. intros H x Hx. apply filter_In in Hx. apply H. tauto.
  Qed.

  (* C12_plain: the dictionary form of a well-formed value holds plain values only *)
  Lemma plain_dictify : forall idf v, wf idf v -> plain (dictify v) = true.
  Proof.
    intros idf. induction v using pyval_ind'; intro Hwf; try reflexivity.
    - (* tuple *) simpl. simpl in Hwf. apply wf_all_list in Hwf.
      induction l as [|x r IHr]; [reflexivity|]. inversion H; subst. inversion Hwf; subst. simpl.
      rewrite H2 by assumption. simpl. apply IHr; assumption.
    - (* list: dictify does not descend into lists *) simpl in *. exact Hwf.
    - (* dict *) simpl. simpl in Hwf. apply wf_all_dict in Hwf.
      induction l as [|[k x] r IHr]; [reflexivity|].
      inversion H as [|? ? [Hk Hx] Hr]; subst. inversion Hwf as [|? ? [Hpk Hwx] Hwr]; subst. simpl in *.
      rewrite Hpk, Hx by assumption. simpl. apply IHr; assumption.
    - (* ImmutableDict -> dict *) simpl. simpl in Hwf. apply wf_all_dict in Hwf.
      induction l as [|[k x] r IHr]; [reflexivity|].
      inversion H as [|? ? [Hk Hx] Hr]; subst. inversion Hwf as [|? ? [Hpk Hwx] Hwr]; subst. simpl in *.
      rewrite Hpk, Hx by assumption. simpl. apply IHr; assumption.
    - (* object *) apply wf_obj in Hwf. destruct Hwf as [_ [_ [_ Hall]]].
      rewrite dictify_obj. cbn [plain]. apply elide_plain.
      induction fs as [|[n x] r IHr]; [reflexivity|]. inversion H; subst. inversion Hall; subst. simpl in *.
      rewrite H2 by assumption. simpl. apply IHr; assumption.
  Qed.

  (* lookups in the dictionary of an object *)
  Fixpoint ffind (k : text) (fs : fields) : option pyval :=
    match fs with [] => None | (n, v) :: r => if beqb k n then Some v else ffind k r end.

  Lemma dget_map_absent : forall k (fs : fields), ffind k fs = None ->
    forall ns, dget k (elide ns (map (fun nv => (VStr (fst nv), dictify (snd nv))) fs)) = None.
  Proof.
    intros k fs. induction fs as [|[n v] r IH]; simpl; intros H ns; [reflexivity|].
    destruct (beqb k n) eqn:E; [discriminate|].
    unfold elide in *. simpl. destruct (negb (mem_bytes n ns && is_none (dictify v))); simpl; [rewrite E|]; apply IH; exact H.
  Qed.

  Lemma dget_to_dict : forall ns (fs : fields) k, bytes_nodup (map fst fs) = true ->
    dget k (elide ns (map (fun nv => (VStr (fst nv), dictify (snd nv))) fs)) =
    match ffind k fs with
    | Some v => if mem_bytes k ns && is_none v then None else Some (dictify v)
    | None => None
    end.
  Proof.
    intros ns fs k. induction fs as [|[n v] r IH]; simpl; intro Hnd; [reflexivity|].
    apply andb_true_iff in Hnd. destruct Hnd as [Hn Hr].
    destruct (beqb k n) eqn:E.
    - apply beqb_eq in E. subst n. unfold elide. simpl. rewrite is_none_dictify.
      destruct (mem_bytes k ns && is_none v) eqn:B; simpl.
      + apply dget_map_absent.
        clear -Hn. induction r as [|[n' v'] r IHr]; [reflexivity|]. simpl in *.
        apply negb_true_iff in Hn. apply orb_false_iff in Hn. destruct Hn as [H1 H2].
        rewrite H1. apply IHr. apply negb_true_iff. exact H2.
      + rewrite beqb_refl. reflexivity.
    - unfold elide in *. simpl. destruct (negb (mem_bytes n ns && is_none (dictify v))); simpl; [rewrite E|]; apply IH; exact Hr.
  Qed.

  Lemma keys_known_to_dict : forall s ns (fs : fields), map fst fs = map fname s ->
    keys_known s (elide ns (map (fun nv => (VStr (fst nv), dictify (snd nv))) fs)) = true.
  Proof.
    intros s ns fs H. unfold keys_known, elide. apply forallb_forall. intros [k v] Hin.
    apply filter_In in Hin. destruct Hin as [Hin _]. apply in_map_iff in Hin.
    destruct Hin as [[n x] [E Hin]]. injection E as <- <-. simpl.
    apply mem_bytes_In. rewrite <- H. apply in_map_iff. exists (n, x). split; [reflexivity | exact Hin].
  Qed.
End Dictify.

(* ------------------------------------------------------------------ the constructor only looks at its kwargs through dget *)
Lemma rmap_Forall2 : forall {A B} (f : A -> result B) l l',
  Forall2 (fun a b => f a = Ok b) l l' -> rmap f l = Ok l'.
Proof.
  intros A B f l l' H. induction H; simpl; [reflexivity|]. rewrite H, IHForall2. reflexivity.
Qed.

Lemma convert_Forall2 : forall s fs fs',
  Forall2 (fun f (p : (text * pyval) * (text * pyval)) =>
             fst (fst p) = fst (snd p) /\ apply_conv (fconv f) (snd (fst p)) = apply_conv (fconv f) (snd (snd p)))
          s (combine fs fs') ->
  length fs = length s -> length fs' = length s ->
  convert s fs = convert s fs'.
Proof.
  induction s as [|f s IH]; intros fs fs' H L1 L2.
  - destruct fs; destruct fs'; reflexivity.
  - destruct fs as [|[n v] fs]; [discriminate|]. destruct fs' as [|[n' v'] fs']; [discriminate|].
    simpl in H. inversion H as [|? ? ? ? [Hn Hc] Hr]; subst. simpl in Hn, Hc. subst n'. simpl.
    rewrite Hc. rewrite (IH fs fs') by (simpl in *; (assumption || lia)). reflexivity.
Qed.

Section Construct.
  Variable idf : cls -> fields -> result bytes.

  (* the constructor for an arbitrary schema / validator / post-init hook:
     [construct idf c] is the instance (schema c, validate c, post_init idf c) *)
  Definition construct_g (s : list field) (val : fields -> bool) (post : fields -> result fields)
             (mk : fields -> pyval) (kw : dict) : result pyval :=
    rbind (bind_args s kw) (fun fs0 =>
    rbind (convert s fs0) (fun fs1 =>
    if val fs1 then rbind (post fs1) (fun fs2 => Ok (mk fs2)) else Err ValueError)).

  Lemma construct_is_g : forall c kw,
    construct idf c kw = construct_g (schema c) (validate c) (post_init idf c) (VObj c) kw.
  Proof. reflexivity. Qed.

  (* two kwargs dictionaries that bind the same converted attribute values build the same object *)
  Lemma construct_g_same : forall s val post mk kw kw',
    rbind (bind_args s kw) (convert s) = rbind (bind_args s kw') (convert s) ->
    construct_g s val post mk kw = construct_g s val post mk kw'.
  Proof.
    intros s val post mk kw kw' H. unfold construct_g.
    destruct (bind_args s kw) as [a|e]; destruct (bind_args s kw') as [a'|e']; simpl in *.
    - rewrite H. reflexivity.
    - rewrite H. reflexivity.
    - rewrite <- H. reflexivity.
    - injection H as ->. reflexivity.
  Qed.

  Lemma bind_args_fields : forall s kw fs, keys_known s kw = true ->
    Forall2 (fun f nv => bind_field kw f = Ok nv) s fs -> bind_args s kw = Ok fs.
  Proof. intros s kw fs Hk H. unfold bind_args. rewrite Hk. apply rmap_Forall2. exact H. Qed.
End Construct.

(* kwargs built from an attribute list bind to that list *)
Lemma ffind_dget_as_kwargs : forall k fs, dget k (as_kwargs fs) = ffind k fs.
Proof.
  intros k fs. induction fs as [|[n v] r IH]; [reflexivity|]. simpl. rewrite IH. reflexivity.
Qed.

Lemma ffind_nodup_in : forall (fs : fields) n v, bytes_nodup (map fst fs) = true -> In (n, v) fs -> ffind n fs = Some v.
Proof.
  induction fs as [|[n' v'] r IH]; simpl; intros n v Hnd Hin; [contradiction|].
  apply andb_true_iff in Hnd. destruct Hnd as [Hn Hr]. destruct Hin as [E|Hin].
  - injection E as -> ->. rewrite beqb_refl. reflexivity.
  - destruct (beqb n n') eqn:E.
    + apply beqb_eq in E. subst n'. exfalso. apply negb_true_iff in Hn.
      assert (mem_bytes n (map fst r) = true) as Hm.
      { apply mem_bytes_In. apply in_map_iff. exists (n, v). split; [reflexivity | exact Hin]. }
      congruence.
    + apply IH; assumption.
Qed.

Lemma keys_known_as_kwargs : forall s fs, map fst fs = map fname s -> keys_known s (as_kwargs fs) = true.
Proof.
  intros s fs H. unfold keys_known, as_kwargs. apply forallb_forall. intros [k v] Hin.
  apply in_map_iff in Hin. destruct Hin as [[n x] [E Hin]]. injection E as <- <-. simpl.
  apply mem_bytes_In. rewrite <- H. apply in_map_iff. exists (n, x). split; [reflexivity | exact Hin].
Qed.

Lemma Forall2_bind_kwargs : forall (kw : dict) (s : list field) (fs : fields),
  map fst fs = map fname s ->
  (forall n v, In (n, v) fs -> dget n kw = Some v) ->
  Forall2 (fun f nv => bind_field kw f = Ok nv) s fs.
Proof.
  intros kw s. induction s as [|f s IH]; intros fs Hn Hg.
  - destruct fs; [constructor | discriminate].
  - destruct fs as [|[n v] fs]; [discriminate|]. simpl in Hn. injection Hn as Hn1 Hn2. constructor.
    + unfold bind_field. rewrite <- Hn1. rewrite (Hg n v) by (left; reflexivity). reflexivity.
    + apply IH; [exact Hn2|]. intros n' v' Hin. apply Hg. right. exact Hin.
Qed.

Lemma Forall2_bind_gen : forall (D : dict) (g : pyval -> pyval) (s : list field) (fs : fields),
  map fst fs = map fname s ->
  (forall f nv, In f s -> In nv fs -> fst nv = fname f -> bind_field D f = Ok (fst nv, g (snd nv))) ->
  Forall2 (fun f nv' => bind_field D f = Ok nv') s (map (fun nv => (fst nv, g (snd nv))) fs).
Proof.
  intros D g s. induction s as [|f s IH]; intros fs Hn G.
  - destruct fs; [constructor | discriminate].
  - destruct fs as [|nv fs]; [discriminate|]. simpl in Hn. injection Hn as Hn1 Hn2. simpl. constructor.
    + apply G; [left; reflexivity | left; reflexivity | exact Hn1].
    + apply IH; [exact Hn2|]. intros f0 nv0 Hf0 Hnv0 E. apply G; [right; exact Hf0 | right; exact Hnv0 | exact E].
Qed.

Lemma bind_args_as_kwargs : forall s fs, map fst fs = map fname s -> bytes_nodup (map fname s) = true ->
  bind_args s (as_kwargs fs) = Ok fs.
Proof.
  intros s fs Hn Hnd. apply bind_args_fields; [apply keys_known_as_kwargs; exact Hn|].
  apply Forall2_bind_kwargs; [exact Hn|]. intros n v Hin. rewrite ffind_dget_as_kwargs.
  apply ffind_nodup_in; [rewrite Hn; exact Hnd | exact Hin].
Qed.

(* ------------------------------------------------------------------ the schema-generic round trip *)
Section Generic.
  Variable swhid_str : swhid_kind -> text -> bytes -> text.
  Notation dictify := (dictify swhid_str).

  (* a schema is well formed when its names are distinct and every field that
     to_dict elides when None has the default None *)
  Definition wf_schema (s : list field) : Prop :=
    bytes_nodup (map fname s) = true /\ Forall (fun f => felide f = true -> fdefault f = Some VNone) s.

  (* the dictionary of the attribute list fs under schema s *)
  Definition to_dict_g (s : list field) (fs : fields) : dict :=
    elide (map fname (filter felide s)) (map (fun nv => (VStr (fst nv), dictify (snd nv))) fs).

  Lemma bind_to_dict_g : forall s fs, wf_schema s -> map fst fs = map fname s ->
    bind_args s (to_dict_g s fs) = Ok (map (fun nv => (fst nv, dictify (snd nv))) fs).
  Proof.
    intros s fs [Hnd Hel] Hn. apply bind_args_fields; [apply keys_known_to_dict; exact Hn|].
    assert (Hnd' : bytes_nodup (map fst fs) = true) by (rewrite Hn; exact Hnd).
    assert (G : forall f nv, In f s -> In nv fs -> fst nv = fname f ->
                bind_field (to_dict_g s fs) f = Ok (fst nv, dictify (snd nv))).
    { intros f [n v] Hf Hin Hfn. simpl in Hfn. subst n. unfold bind_field, to_dict_g.
      rewrite dget_to_dict by exact Hnd'. rewrite (ffind_nodup_in fs (fname f) v Hnd' Hin). simpl.
      destruct (mem_bytes (fname f) (map fname (filter felide s)) && is_none v) eqn:B; [|reflexivity].
      apply andb_true_iff in B. destruct B as [Hm Hv]. destruct v; try discriminate. simpl.
      apply mem_bytes_In in Hm. apply in_map_iff in Hm. destruct Hm as [f' [Efn Hf']].
      apply filter_In in Hf'. destruct Hf' as [Hf's Hel'].
      (* distinct names: f' = f *)
      assert (f' = f) as ->.
      { clear -Hnd Hf's Hf Efn. induction s as [|g s IH]; [contradiction|]. simpl in Hnd.
        apply andb_true_iff in Hnd. destruct Hnd as [Hg Hs]. apply negb_true_iff in Hg.
        destruct Hf's as [->|Hf's]; destruct Hf as [->|Hf]; try reflexivity.
        - exfalso. assert (mem_bytes (fname f') (map fname s) = true) as Hm.
          { apply mem_bytes_In. rewrite Efn. apply in_map. exact Hf. } congruence.
        - exfalso. assert (mem_bytes (fname f) (map fname s) = true) as Hm.
          { apply mem_bytes_In. rewrite <- Efn. apply in_map. exact Hf's. } congruence.
        - apply IH; assumption. }
      rewrite Forall_forall in Hel. rewrite (Hel f Hf Hel'). reflexivity. }
    apply Forall2_bind_gen; [exact Hn | exact G].
  Qed.

  (* C12_generic_roundtrip.  For every well-formed schema s, every validator
     and post-init hook, every attribute list fs named after s whose values
     survive dictify up to the field's converter: decoding the dictionary of fs
     with BaseModel.from_dict (cls( **d)) is the constructor applied to fs.  If
     fs is an object (a fixed point of its constructor) the object comes back. *)
  Theorem generic_roundtrip : forall s val post mk fs,
    wf_schema s -> map fst fs = map fname s ->
    Forall2 (fun f nv => apply_conv (fconv f) (dictify (snd nv)) = apply_conv (fconv f) (snd nv)) s fs ->
    construct_g s val post mk (to_dict_g s fs) = construct_g s val post mk (as_kwargs fs).
  Proof.
    intros s val post mk fs Hwf Hn Hc. apply construct_g_same.
    rewrite (bind_to_dict_g s fs Hwf Hn). rewrite bind_args_as_kwargs by (tauto || apply Hwf). simpl.
    apply convert_Forall2.
    - clear Hwf. revert fs Hn Hc. induction s as [|f s IH]; intros fs Hn Hc.
      + destruct fs; [constructor | discriminate].
      + destruct fs as [|[n v] fs]; [discriminate|]. simpl in *. injection Hn as Hn1 Hn2.
        inversion Hc; subst. constructor; [split; [reflexivity | assumption]|]. apply IH; assumption.
    - rewrite map_length. rewrite <- (map_length fst), Hn, map_length. reflexivity.
    - rewrite <- (map_length fst), Hn, map_length. reflexivity.
  Qed.
End Generic.
