(* Proofs for C16 about model/Time.v. *)
From Coq Require Import List NArith ZArith Bool Lia Arith.
From SWH.lib Require Import Bytes Dec DecPad.
From SWH Require Import Generated.
From SWH.model Require Import Time.
Import ListNotations.
Open Scope Z_scope.

(* ------------------------------------------------------------------ table side conditions *)
(* What the proofs need from the bounds read from the source: the accepted
   seconds fit in datetime's range (so astimezone / fromtimestamp cannot
   overflow on the UTC side) and the microsecond bounds are [0, 10^6). *)
Definition ts_tables_ok : bool :=
  (DT_MIN_US <=? TS_MIN_SECONDS * MILLION) && (TS_MAX_SECONDS * MILLION + 999999 <=? DT_MAX_US)
  && (TS_MIN_MICROSECONDS =? 0) && (TS_MAX_MICROSECONDS =? 999999) && (TS_MIN_SECONDS <=? TS_MAX_SECONDS).

Lemma table_side_conditions : ts_tables_ok = true.
Proof. vm_compute. reflexivity. Qed.

Lemma tables :
  DT_MIN_US <= TS_MIN_SECONDS * 1000000 /\ TS_MAX_SECONDS * 1000000 + 999999 <= DT_MAX_US /\
  TS_MIN_MICROSECONDS = 0 /\ TS_MAX_MICROSECONDS = 999999 /\ TS_MIN_SECONDS <= TS_MAX_SECONDS.
Proof.
  pose proof table_side_conditions as H. unfold ts_tables_ok in H.
  repeat (apply andb_true_iff in H; destruct H as [H ?]).
  change MILLION with 1000000 in *.
  repeat match goal with
         | X : (_ <=? _) = true |- _ => apply Z.leb_le in X
         | X : (_ =? _) = true |- _ => apply Z.eqb_eq in X
         end.
  repeat split; assumption.
Qed.

(* ------------------------------------------------------------------ Timestamp: range checking *)
Definition secs_in_range (z : Z) : Prop := TS_MIN_SECONDS <= z <= TS_MAX_SECONDS.
Definition us_in_range (z : Z) : Prop := TS_MIN_MICROSECONDS <= z <= TS_MAX_MICROSECONDS.

Lemma check_seconds_ok : forall z, secs_in_range z -> check_seconds (VInt z) = Ok z.
Proof.
  intros z [H1 H2]. unfold check_seconds.
  apply Z.leb_le in H1. apply Z.leb_le in H2. rewrite H1, H2. reflexivity.
Qed.

Lemma check_seconds_bad : forall z, ~ secs_in_range z -> check_seconds (VInt z) = Err ETimestampOverflow.
Proof.
  intros z H. unfold check_seconds, secs_in_range in *.
  destruct (Z.leb_spec TS_MIN_SECONDS z), (Z.leb_spec z TS_MAX_SECONDS); cbn [andb]; try reflexivity.
  exfalso. apply H. split; assumption.
Qed.

Lemma check_microseconds_ok : forall z, us_in_range z -> check_microseconds (VInt z) = Ok z.
Proof.
  intros z [H1 H2]. unfold check_microseconds.
  apply Z.leb_le in H1. apply Z.leb_le in H2. rewrite H1, H2. reflexivity.
Qed.

Lemma check_microseconds_bad : forall z, ~ us_in_range z -> check_microseconds (VInt z) = Err EValue.
Proof.
  intros z H. unfold check_microseconds, us_in_range in *.
  destruct (Z.leb_spec TS_MIN_MICROSECONDS z), (Z.leb_spec z TS_MAX_MICROSECONDS); cbn [andb]; try reflexivity.
  exfalso. apply H. split; assumption.
Qed.

Lemma mk_timestamp_ok : forall s us, secs_in_range s -> us_in_range us ->
  mk_timestamp (VInt s) (VInt us) = Ok (mkTs s us).
Proof.
  intros s us Hs Hu. unfold mk_timestamp. rewrite (check_seconds_ok s Hs). cbn [bind].
  rewrite (check_microseconds_ok us Hu). reflexivity.
Qed.

Lemma mk_timestamp_inv : forall s us t, mk_timestamp s us = Ok t ->
  exists zs zu, s = VInt zs /\ us = VInt zu /\ secs_in_range zs /\ us_in_range zu /\ t = mkTs zs zu.
Proof.
  intros s us t H. unfold mk_timestamp in H.
  destruct s as [zs| |]; cbn [check_seconds bind] in H; try discriminate.
  destruct (Z.leb_spec TS_MIN_SECONDS zs), (Z.leb_spec zs TS_MAX_SECONDS); cbn [andb bind] in H; try discriminate.
  destruct us as [zu| |]; cbn [check_microseconds bind] in H; try discriminate.
  destruct (Z.leb_spec TS_MIN_MICROSECONDS zu), (Z.leb_spec zu TS_MAX_MICROSECONDS); cbn [andb bind] in H; try discriminate.
  inversion H. exists zs, zu. unfold secs_in_range, us_in_range. repeat split; assumption.
Qed.

Definition ts_wf (t : timestamp) : Prop := secs_in_range (seconds t) /\ us_in_range (microseconds t).

Lemma mk_timestamp_wf : forall s us t, mk_timestamp s us = Ok t -> ts_wf t.
Proof.
  intros s us t H. destruct (mk_timestamp_inv s us t H) as [zs [zu [_ [_ [Hs [Hu ->]]]]]].
  split; assumption.
Qed.

(* ------------------------------------------------------------------ offsets *)
Lemma is_nil_app_false : forall (a b : bytes), (1 <= length a)%nat -> is_nil (a ++ b) = false.
Proof. intros [|x a] b H; [cbn in H; lia | reflexivity]. Qed.

Lemma int_max_ge2 : (2 <= INT_MAX_STR_DIGITS)%N.
Proof. vm_compute. discriminate. Qed.

Lemma py_int_digits_ok : forall l n, parse_dec_N l = Some n ->
  (N.of_nat (length l) <= INT_MAX_STR_DIGITS)%N -> py_int_digits l = Ok (Z.of_N n).
Proof.
  intros l n P L. unfold py_int_digits. rewrite P.
  destruct (N.ltb_spec INT_MAX_STR_DIGITS (N.of_nat (length l))); [lia | reflexivity].
Qed.

(* _parse_offset_bytes on  sign ++ hours-digits ++ two minute digits *)
Lemma parse_offset_hm : forall sgn H Mn h m,
  (sgn = PLUS \/ sgn = MINUS) ->
  forallb is_digit H = true -> forallb is_digit Mn = true ->
  (2 <= length H)%nat -> (N.of_nat (length H) <= INT_MAX_STR_DIGITS)%N -> length Mn = 2%nat ->
  parse_dec_N H = Some h -> parse_dec_N Mn = Some m ->
  parse_offset_bytes (sgn :: H ++ Mn) =
    let offset := (if N.eqb sgn PLUS then 1 else -1) * (Z.of_N h * 60 + Z.of_N m) in
    if (0 <=? Z.of_N m) && (Z.of_N m <=? 59) && (- (2 ^ 15) <=? offset) && (offset <? 2 ^ 15)
    then Ok offset else Ok 0.
Proof.
  intros sgn H Mn h m Hs DH DM LH LH' LM PH PM.
  unfold parse_offset_bytes.
  assert (Mod : offset_modelled (sgn :: H ++ Mn) = true).
  { unfold offset_modelled. rewrite forallb_app, DH, DM, (is_nil_app_false H Mn) by lia.
    destruct Hs as [-> | ->]; reflexivity. }
  rewrite Mod. cbn [negb].
  assert (Len : (length (sgn :: H ++ Mn) <=? 3)%nat = false).
  { apply Nat.leb_gt. cbn [length]. rewrite app_length. lia. }
  rewrite Len.
  assert (K : (length (H ++ Mn) - 2)%nat = length H) by (rewrite app_length; lia).
  rewrite K. fold (take (length H) (H ++ Mn)). fold (drop (length H) (H ++ Mn)).
  rewrite take_app_length, drop_app_length.
  rewrite (py_int_digits_ok H h PH LH'). cbn [bind].
  rewrite (py_int_digits_ok Mn m PM) by (rewrite LM; pose proof int_max_ge2; lia).
  cbn [bind]. reflexivity.
Qed.

Lemma abs_div_mod : forall off, let a := Z.abs off in
  0 <= a / 60 /\ 0 <= a mod 60 < 60 /\ a = 60 * (a / 60) + a mod 60.
Proof.
  intros off a. assert (0 <= a) by (unfold a; lia).
  pose proof (Z.div_pos a 60). pose proof (Z.mod_pos_bound a 60). pose proof (Z.div_mod a 60). lia.
Qed.

(* shape of the recorded bytes: sign, at least two hour digits, exactly two minute digits *)
Lemma offset_to_bytes_shape : forall off neg,
  let a := Z.abs off in
  let Hb := dec_pad 2 (Z.to_N (a / 60)) in
  let Mb := dec_pad 2 (Z.to_N (a mod 60)) in
  offset_to_bytes off neg = (if (off <? 0) || neg then MINUS else PLUS) :: Hb ++ Mb /\
  forallb is_digit Hb = true /\ forallb is_digit Mb = true /\ (2 <= length Hb)%nat /\ length Mb = 2%nat /\
  parse_dec_N Hb = Some (Z.to_N (a / 60)) /\ parse_dec_N Mb = Some (Z.to_N (a mod 60)).
Proof.
  intros off neg a Hb Mb. destruct (abs_div_mod off) as [H1 [H2 H3]]. fold a in H1, H2, H3.
  split; [reflexivity|]. split; [apply dec_pad_digits|]. split; [apply dec_pad_digits|].
  split; [apply dec_pad_length_ge|]. split.
  - apply dec_pad_length; [lia|]. change (10 ^ N.of_nat 2)%N with 100%N. lia.
  - split; apply parse_dec_N_dec_pad.
Qed.

Lemma hours_length : forall a, 0 <= a <= 32768 -> (N.of_nat (length (dec_pad 2 (Z.to_N (a / 60)))) <= INT_MAX_STR_DIGITS)%N.
Proof.
  intros a Ha. assert (0 <= a / 60 < 1000).
  { pose proof (Z.div_pos a 60). assert (a / 60 <= 32768 / 60) by (apply Z.div_le_mono; lia).
    change (32768 / 60) with 546 in *. lia. }
  assert (L : (length (dec_pad 2 (Z.to_N (a / 60))) <= 3)%nat).
  { unfold dec_pad. cbv zeta. rewrite app_length, repeat_length.
    assert ((length (dec_N (Z.to_N (a / 60))) <= 3)%nat).
    { apply dec_N_length_le; [lia|]. change (10 ^ N.of_nat 3)%N with 1000%N. lia. }
    lia. }
  assert (E : INT_MAX_STR_DIGITS = 4300%N) by reflexivity. rewrite E. lia.
Qed.

(* the numeric form round-trips through the recorded bytes *)
Lemma parse_offset_to_bytes : forall off neg, -32768 <= off <= 32767 -> (neg = true -> off <= 0) ->
  parse_offset_bytes (offset_to_bytes off neg) = Ok off.
Proof.
  intros off neg R N0.
  destruct (offset_to_bytes_shape off neg) as [E [DH [DM [LH [LM [PH PM]]]]]].
  destruct (abs_div_mod off) as [H1 [H2 H3]]. cbv zeta in *.
  rewrite E.
  rewrite (parse_offset_hm _ _ _ _ _
             (match (off <? 0) || neg as b return ((if b then MINUS else PLUS) = PLUS \/ (if b then MINUS else PLUS) = MINUS)
              with true => or_intror eq_refl | false => or_introl eq_refl end)
             DH DM LH (hours_length (Z.abs off) ltac:(lia)) LM PH PM).
  cbv zeta. rewrite !Z2N.id by lia.
  set (a := Z.abs off) in *.
  assert (Hsum : a / 60 * 60 + a mod 60 = a) by lia.
  rewrite Hsum.
  assert (Sg : (if N.eqb (if (off <? 0) || neg then MINUS else PLUS) PLUS then 1 else -1) * a = off).
  { destruct (Z.ltb_spec off 0) as [Hn|Hn]; cbn [orb].
    - change (N.eqb MINUS PLUS) with false. cbv iota. unfold a. lia.
    - destruct neg.
      + change (N.eqb MINUS PLUS) with false. cbv iota. specialize (N0 eq_refl). unfold a. lia.
      + change (N.eqb PLUS PLUS) with true. cbv iota. unfold a. lia. }
  rewrite Sg.
  assert (G : (0 <=? a mod 60) && (a mod 60 <=? 59) && (- (2 ^ 15) <=? off) && (off <? 2 ^ 15) = true).
  { change (2 ^ 15) with 32768.
    repeat (apply andb_true_iff; split); try apply Z.leb_le; try apply Z.ltb_lt; lia. }
  rewrite G. reflexivity.
Qed.

Lemma offset_to_bytes_modelled : forall off neg,
  exists sgn digits, offset_to_bytes off neg = sgn :: digits /\ (sgn = PLUS \/ sgn = MINUS) /\
    forallb is_digit digits = true /\ (4 <= length digits)%nat.
Proof.
  intros off neg. destruct (offset_to_bytes_shape off neg) as [E [DH [DM [LH [LM _]]]]]. cbv zeta in *.
  eexists _, _. split; [exact E|]. split.
  - destruct ((off <? 0) || neg); [right | left]; reflexivity.
  - rewrite forallb_app, DH, DM, app_length. split; [reflexivity | lia].
Qed.

(* "-0000" is produced only for negative UTC: for EVERY integer offset *)
Lemma offset_to_bytes_minus_zero : forall off neg,
  offset_to_bytes off neg = OB_MINUS0000 <-> off = 0 /\ neg = true.
Proof.
  intros off neg. split.
  - intro H. destruct (offset_to_bytes_shape off neg) as [E [DH [DM [LH [LM _]]]]].
    destruct (abs_div_mod off) as [H1 [H2 H3]]. cbv zeta in *.
    rewrite E in H. unfold OB_MINUS0000 in H. inversion H as [[Hsgn Hrest]].
    assert (V : dval (dec_pad 2 (Z.to_N (Z.abs off / 60)) ++ dec_pad 2 (Z.to_N (Z.abs off mod 60))) = 0%N).
    { rewrite Hrest. reflexivity. }
    rewrite dval_app, !dval_dec_pad, LM in V. change (10 ^ N.of_nat 2)%N with 100%N in V.
    assert (Z.to_N (Z.abs off / 60) = 0%N /\ Z.to_N (Z.abs off mod 60) = 0%N) as [Vh Vm] by lia.
    assert (off = 0) by lia. subst off. split; [reflexivity|].
    cbn [Z.ltb Z.compare orb] in Hsgn. destruct neg; [reflexivity | discriminate Hsgn].
  - intros [-> ->]. vm_compute. reflexivity.
Qed.

Lemma from_numeric_offset_bytes : forall t off neg x,
  from_numeric_offset t off neg = Ok x -> x = mkTstz t (offset_to_bytes off neg).
Proof.
  intros t off neg x H. unfold from_numeric_offset in H. cbv zeta in H.
  destruct (offset_minutes _) as [m|e]; cbn [bind] in H; [|discriminate].
  destruct (m =? off); [|discriminate]. inversion H. reflexivity.
Qed.

(* the timestamp plays no role in the outcome *)
Lemma from_numeric_offset_indep : forall t t0 off neg,
  from_numeric_offset t off neg =
    match from_numeric_offset t0 off neg with
    | Ok x => Ok (mkTstz t (offset_bytes x))
    | Err e => Err e
    end.
Proof.
  intros t t0 off neg. unfold from_numeric_offset, offset_minutes. cbv zeta. cbn [offset_bytes].
  destruct (parse_offset_bytes (offset_to_bytes off neg)) as [m|e]; cbn [bind]; [|reflexivity].
  destruct (m =? off); reflexivity.
Qed.

Theorem offset_roundtrip : forall t off neg, -32768 <= off <= 32767 -> (neg = true -> off <= 0) ->
  exists x, from_numeric_offset t off neg = Ok x /\ ts x = t /\
    offset_minutes x = Ok off /\
    (exists sgn digits, offset_bytes x = sgn :: digits /\ (sgn = PLUS \/ sgn = MINUS) /\
        forallb is_digit digits = true /\ (4 <= length digits)%nat) /\
    (offset_bytes x = OB_MINUS0000 <-> off = 0 /\ neg = true).
Proof.
  intros t off neg R N0. exists (mkTstz t (offset_to_bytes off neg)).
  pose proof (parse_offset_to_bytes off neg R N0) as P.
  unfold from_numeric_offset, offset_minutes. cbv zeta. cbn [offset_bytes ts]. rewrite P. cbn [bind].
  rewrite Z.eqb_refl. split; [reflexivity|]. split; [reflexivity|]. split; [reflexivity|]. split.
  - apply offset_to_bytes_modelled.
  - apply offset_to_bytes_minus_zero.
Qed.

(* negative_utc with a positive offset hits the assert *)
Theorem neg_flag_rejected : forall t off, 0 < off <= 32767 ->
  from_numeric_offset t off true = Err EAssertion.
Proof.
  intros t off R.
  destruct (offset_to_bytes_shape off true) as [E [DH [DM [LH [LM [PH PM]]]]]].
  destruct (abs_div_mod off) as [H1 [H2 H3]]. cbv zeta in *.
  unfold from_numeric_offset, offset_minutes. cbv zeta. cbn [offset_bytes]. rewrite E.
  rewrite orb_true_r.
  rewrite (parse_offset_hm MINUS _ _ _ _ (or_intror eq_refl) DH DM LH (hours_length (Z.abs off) ltac:(lia)) LM PH PM).
  cbv zeta. rewrite !Z2N.id by lia. change (N.eqb MINUS PLUS) with false. cbv iota.
  set (a := Z.abs off) in *.
  assert (Hsum : a / 60 * 60 + a mod 60 = a) by lia. rewrite Hsum.
  destruct ((0 <=? a mod 60) && (a mod 60 <=? 59) && (- (2 ^ 15) <=? -1 * a) && (-1 * a <? 2 ^ 15)); cbn [bind].
  - destruct (Z.eqb_spec (-1 * a) off) as [Q|Q]; [unfold a in Q; lia | reflexivity].
  - destruct (Z.eqb_spec 0 off) as [Q|Q]; [lia | reflexivity].
Qed.

Theorem minus_zero_iff : forall t off neg x, from_numeric_offset t off neg = Ok x ->
  (offset_bytes x = OB_MINUS0000 <-> off = 0 /\ neg = true).
Proof.
  intros t off neg x H. rewrite (from_numeric_offset_bytes _ _ _ _ H). cbn [offset_bytes].
  apply offset_to_bytes_minus_zero.
Qed.

(* ------------------------------------------------------------------ the kernel sweep *)
Lemma z_range_pos_In : forall p lo z, lo <= z < lo + Zpos p -> In z (z_range_pos p lo).
Proof.
  induction p as [q IH|q IH|]; intros lo z H; cbn [z_range_pos].
  - rewrite Pos2Z.inj_xI in H. apply in_or_app.
    destruct (Z_lt_ge_dec z (lo + Zpos q)) as [A|A]; [left; apply IH; lia|right].
    apply in_or_app. destruct (Z_lt_ge_dec z (lo + Zpos q + Zpos q)) as [B|B]; [left; apply IH; lia|right].
    left. lia.
  - rewrite Pos2Z.inj_xO in H. apply in_or_app.
    destruct (Z_lt_ge_dec z (lo + Zpos q)) as [A|A]; [left | right]; apply IH; lia.
  - left. lia.
Qed.

Lemma offset_grid_sweep : forallb offset_pair_ok (z_range (-32768) 65536) = true.
Proof. vm_cast_no_check (eq_refl true). Qed.

Lemma forallb_range : forall (f : Z -> bool) p lo, forallb f (z_range lo p) = true ->
  forall z, lo <= z < lo + Zpos p -> f z = true.
Proof.
  intros f p lo H z Hz. unfold z_range in H. rewrite forallb_forall in H. apply H.
  apply z_range_pos_In. exact Hz.
Qed.

Lemma offset_case_sweep : forall off neg, -32768 <= off <= 32767 -> offset_case_ok off neg = true.
Proof.
  intros off neg R.
  assert (Hr : -32768 <= off < -32768 + Zpos 65536) by lia.
  pose proof (forallb_range offset_pair_ok 65536%positive (-32768) offset_grid_sweep off Hr) as G.
  unfold offset_pair_ok in G. apply andb_true_iff in G. destruct G as [G1 G2]. destruct neg; assumption.
Qed.

Theorem offset_roundtrip_sweep : forall t off neg, -32768 <= off <= 32767 ->
  (neg = true /\ 0 < off -> from_numeric_offset t off neg = Err EAssertion) /\
  (~ (neg = true /\ 0 < off) ->
     exists x, from_numeric_offset t off neg = Ok x /\ ts x = t /\ offset_minutes x = Ok off /\
       (offset_bytes x = OB_MINUS0000 <-> off = 0 /\ neg = true) /\
       offset_modelled (offset_bytes x) = true /\ (5 <= length (offset_bytes x))%nat).
Proof.
  intros t off neg R. pose proof (offset_case_sweep off neg R) as C. unfold offset_case_ok in C.
  rewrite (from_numeric_offset_indep t (mkTs 0 0)).
  split.
  - intros [-> Hp]. apply Z.ltb_lt in Hp. rewrite Hp in C. cbn [andb] in C.
    destruct (from_numeric_offset (mkTs 0 0) off true) as [x|e]; [discriminate|].
    destruct e; try discriminate. reflexivity.
  - intro Hn.
    assert (Q : neg && (0 <? off) = false).
    { destruct neg; [|reflexivity]. cbn [andb]. apply Z.ltb_ge. destruct (Z_lt_ge_dec 0 off); [|lia].
      exfalso. apply Hn. split; [reflexivity | assumption]. }
    rewrite Q in C.
    destruct (from_numeric_offset (mkTs 0 0) off neg) as [x|e]; [|discriminate].
    repeat (apply andb_true_iff in C; destruct C as [C ?]).
    exists (mkTstz t (offset_bytes x)). unfold offset_minutes in *. cbn [offset_bytes ts].
    split; [reflexivity|]. split; [reflexivity|].
    destruct (parse_offset_bytes (offset_bytes x)) as [m|e]; [|discriminate].
    apply Z.eqb_eq in C. subst m. split; [reflexivity|]. split.
    + match goal with X : Bool.eqb _ _ = true |- _ => apply Bool.eqb_prop in X; rename X into B end.
      split.
      * intro E. rewrite E, beqb_refl in B. symmetry in B. apply andb_true_iff in B. destruct B as [B1 B2].
        apply Z.eqb_eq in B1. split; assumption.
      * intros [-> ->]. cbn [Z.eqb andb] in B. apply beqb_eq. exact B.
    + split; [assumption|]. apply Nat.leb_le. assumption.
Qed.

(* ------------------------------------------------------------------ aware datetimes *)
Lemma wall_ok_iff : forall w, wall_ok w = true <-> DT_MIN_US <= w <= DT_MAX_US.
Proof.
  intro w. unfold wall_ok. rewrite andb_true_iff, Z.leb_le, Z.leb_le. reflexivity.
Qed.

Lemma dt_valid_iff : forall d, dt_valid d = true <->
  -86400 < off_s d < 86400 /\ DT_MIN_US <= dt_local_us d <= DT_MAX_US.
Proof.
  intro d. unfold dt_valid. rewrite !andb_true_iff, !Z.ltb_lt, wall_ok_iff. tauto.
Qed.

Lemma minute_offset_16bit : forall o, -86400 < o < 86400 -> -32768 <= o / 60 <= 32767.
Proof.
  intros o H. pose proof (Z.div_mod o 60). pose proof (Z.mod_pos_bound o 60). lia.
Qed.

(* from_datetime on any valid aware datetime whose instant is in the accepted
   range: floor seconds, kept microseconds, floor-minute offset, never "-0000" *)
Lemma from_datetime_ok : forall e o,
  -86400 < o < 86400 -> secs_in_range (e / MILLION) ->
  let x := mkTstz (mkTs (e / MILLION) (e mod MILLION)) (offset_to_bytes (o / 60) false) in
  from_datetime (mkDt e o) = Ok x /\ offset_minutes x = Ok (o / 60).
Proof.
  intros e o Ho Hs x. destruct tables as [T1 [T2 [T3 [T4 T5]]]].
  unfold secs_in_range in Hs. change MILLION with 1000000 in *.
  pose proof (Z.div_mod e 1000000 ltac:(lia)) as DM. pose proof (Z.mod_pos_bound e 1000000 ltac:(lia)) as MB.
  unfold from_datetime. cbn [off_s epoch_us]. unfold astimezone_utc. cbn [epoch_us].
  assert (W : wall_ok e = true) by (apply wall_ok_iff; lia).
  rewrite W. cbn [bind]. unfold dt_microsecond, dt_local_us. cbn [epoch_us off_s].
  change MILLION with 1000000. rewrite Z.mul_0_l, Z.add_0_r.
  assert (U : us_in_range (e mod 1000000)) by (unfold us_in_range; lia).
  pose proof (minute_offset_16bit o Ho) as R16.
  pose proof (parse_offset_to_bytes (o / 60) false R16 ltac:(discriminate)) as P.
  assert (Fin : forall u', dt_timestamp_int u' = e / 1000000 ->
            bind (mk_timestamp (VInt (dt_timestamp_int u')) (VInt (e mod 1000000)))
                 (fun t => from_numeric_offset t (o / 60) false) = Ok x).
  { intros u' Hu'. rewrite Hu'. rewrite (mk_timestamp_ok _ _ Hs U). cbn [bind].
    unfold from_numeric_offset, offset_minutes. cbv zeta. cbn [offset_bytes]. rewrite P. cbn [bind].
    rewrite Z.eqb_refl. reflexivity. }
  split.
  - destruct (Z.eqb_spec (e mod 1000000) 0) as [Z0|NZ]; cbn [bind].
    + apply Fin. reflexivity.
    + unfold replace_microsecond. change MILLION with 1000000. cbn [Z.leb Z.ltb Z.compare andb bind].
      apply Fin. unfold dt_timestamp_int, dt_microsecond, dt_local_us. cbn [epoch_us off_s].
      change MILLION with 1000000. rewrite Z.mul_0_l, !Z.add_0_r.
      replace (e - e mod 1000000) with (e / 1000000 * 1000000) by lia.
      apply Z.div_mul. lia.
  - unfold offset_minutes, x. cbn [offset_bytes]. exact P.
Qed.

(* to_datetime of what from_datetime produced, for a whole-minute offset *)
Lemma to_datetime_back : forall e m ob,
  -1440 < m < 1440 -> secs_in_range (e / MILLION) ->
  DT_MIN_US <= e + m * 60 * MILLION <= DT_MAX_US ->
  parse_offset_bytes ob = Ok m ->
  to_datetime (mkTstz (mkTs (e / MILLION) (e mod MILLION)) ob) = Ok (mkDt e (m * 60)).
Proof.
  intros e m ob Hm Hs Hw P. destruct tables as [T1 [T2 [T3 [T4 T5]]]].
  unfold secs_in_range in Hs. change MILLION with 1000000 in *.
  pose proof (Z.div_mod e 1000000 ltac:(lia)) as DM. pose proof (Z.mod_pos_bound e 1000000 ltac:(lia)) as MB.
  unfold to_datetime, offset_minutes. cbn [offset_bytes ts seconds microseconds]. rewrite P. cbn [bind].
  assert (G : (-1440 <? m) && (m <? 1440) = true) by (apply andb_true_iff; split; apply Z.ltb_lt; lia).
  rewrite G. unfold fromtimestamp. change MILLION with 1000000.
  set (s := e / 1000000) in *. set (u := e mod 1000000) in *.
  assert (W1 : wall_ok (s * 1000000) = true) by (apply wall_ok_iff; lia).
  assert (W2 : wall_ok (s * 1000000 + m * 60 * 1000000) = true).
  { apply wall_ok_iff. unfold DT_MIN_US, DT_MAX_US in *. change MILLION with 1000000 in *. lia. }
  rewrite W1, W2. cbn [negb bind]. unfold replace_microsecond. change MILLION with 1000000.
  assert (G2 : (0 <=? u) && (u <? 1000000) = true) by (apply andb_true_iff; split; [apply Z.leb_le | apply Z.ltb_lt]; lia).
  rewrite G2. unfold dt_microsecond, dt_local_us. cbn [epoch_us off_s]. change MILLION with 1000000.
  replace (s * 1000000 + m * 60 * 1000000) with ((s + m * 60) * 1000000) by lia.
  rewrite Z.mod_mul by lia. f_equal. f_equal. lia.
Qed.

Theorem datetime_roundtrip : forall e m,
  let d := mkDt e (m * 60) in
  dt_valid d = true -> secs_in_range (e / MILLION) ->
  exists x, from_datetime d = Ok x /\
    seconds (ts x) = e / MILLION /\ microseconds (ts x) = e mod MILLION /\
    MILLION * seconds (ts x) <= e < MILLION * (seconds (ts x) + 1) /\
    0 <= microseconds (ts x) < MILLION /\
    e = MILLION * seconds (ts x) + microseconds (ts x) /\
    offset_minutes x = Ok m /\
    offset_bytes x <> OB_MINUS0000 /\
    to_datetime x = Ok d.
Proof.
  intros e m d V Hs. subst d. apply dt_valid_iff in V. cbn [off_s] in V. destruct V as [Vo Vw].
  unfold dt_local_us in Vw. cbn [epoch_us off_s] in Vw.
  destruct (from_datetime_ok e (m * 60) Vo Hs) as [F OM]. cbv zeta in F, OM.
  rewrite Z.div_mul in F, OM by lia.
  eexists. split; [exact F|]. cbn [ts seconds microseconds offset_bytes].
  change MILLION with 1000000 in *.
  pose proof (Z.div_mod e 1000000 ltac:(lia)) as DM. pose proof (Z.mod_pos_bound e 1000000 ltac:(lia)) as MB.
  split; [reflexivity|]. split; [reflexivity|]. split; [lia|]. split; [lia|]. split; [lia|].
  split; [exact OM|]. split.
  - intro E. apply offset_to_bytes_minus_zero in E. destruct E as [_ E]. discriminate E.
  - apply to_datetime_back; [lia | exact Hs | change MILLION with 1000000; lia | exact OM].
Qed.

(* any whole-second offset: the instant is never changed; the offset is floored to minutes *)
Theorem datetime_instant_kept : forall e o,
  let d := mkDt e o in
  dt_valid d = true -> secs_in_range (e / MILLION) ->
  exists x, from_datetime d = Ok x /\
    seconds (ts x) = e / MILLION /\ microseconds (ts x) = e mod MILLION /\
    offset_minutes x = Ok (o / 60) /\
    forall d', to_datetime x = Ok d' -> epoch_us d' = e /\ (-1440 < o / 60 -> off_s d' = o / 60 * 60).
Proof.
  intros e o d V Hs. subst d. apply dt_valid_iff in V. cbn [off_s] in V. destruct V as [Vo Vw].
  destruct (from_datetime_ok e o Vo Hs) as [F OM]. cbv zeta in F, OM.
  eexists. split; [exact F|]. cbn [ts seconds microseconds].
  split; [reflexivity|]. split; [reflexivity|]. split; [exact OM|].
  intros d' T. unfold to_datetime in T. rewrite OM in T. cbn [bind ts seconds microseconds] in T.
  assert (R : o / 60 < 1440).
  { pose proof (Z.div_mod o 60). pose proof (Z.mod_pos_bound o 60). lia. }
  set (tz := if (-1440 <? o / 60) && (o / 60 <? 1440) then o / 60 * 60 else 0) in T.
  assert (TZ : -1440 < o / 60 -> tz = o / 60 * 60).
  { intro L. unfold tz. apply Z.ltb_lt in L. apply Z.ltb_lt in R. rewrite L, R. reflexivity. }
  unfold fromtimestamp in T.
  destruct (wall_ok (e / MILLION * MILLION)); cbn [negb] in T; [|discriminate].
  destruct (wall_ok (e / MILLION * MILLION + tz * MILLION)); cbn [negb bind] in T; [|discriminate].
  unfold replace_microsecond in T.
  destruct ((0 <=? e mod MILLION) && (e mod MILLION <? MILLION)); [|discriminate].
  inversion T. cbn [epoch_us off_s]. unfold dt_microsecond, dt_local_us. cbn [epoch_us off_s].
  change MILLION with 1000000.
  replace (e / 1000000 * 1000000 + tz * 1000000) with ((e / 1000000 + tz) * 1000000) by lia.
  rewrite Z.mod_mul by lia.
  pose proof (Z.div_mod e 1000000 ltac:(lia)). split; [lia | exact TZ].
Qed.

(* from_iso8601: "-0000" exactly when the parsed zone is named "-00:00" *)
Theorem iso8601_minus_zero : forall e flag,
  let d := mkDt e 0 in
  dt_valid d = true -> secs_in_range (e / MILLION) ->
  exists x, from_iso8601_parsed d flag = Ok x /\
    seconds (ts x) = e / MILLION /\ microseconds (ts x) = e mod MILLION /\
    offset_minutes x = Ok 0 /\
    (offset_bytes x = OB_MINUS0000 <-> flag = true) /\
    (flag = false -> offset_bytes x = OB_PLUS0000).
Proof.
  intros e flag d V Hs. subst d. apply dt_valid_iff in V. cbn [off_s] in V. destruct V as [Vo Vw].
  destruct (from_datetime_ok e 0 Vo Hs) as [F OM]. cbv zeta in F, OM.
  change (0 / 60) with 0 in F, OM.
  change (offset_to_bytes 0 false) with OB_PLUS0000 in F, OM.
  unfold from_iso8601_parsed. rewrite F. cbn [bind offset_bytes ts].
  destruct flag.
  - change (beqb OB_PLUS0000 OB_PLUS0000) with true. cbv iota.
    eexists. split; [reflexivity|]. cbn [ts seconds microseconds offset_bytes].
    split; [reflexivity|]. split; [reflexivity|]. split; [reflexivity|]. split; [tauto | discriminate].
  - eexists. split; [reflexivity|]. cbn [ts seconds microseconds offset_bytes].
    split; [reflexivity|]. split; [reflexivity|]. split; [exact OM|]. split; [|reflexivity].
    split; [discriminate | discriminate].
Qed.

(* ------------------------------------------------------------------ verbatim offset bytes, from_dict *)
Lemma timestamp_of_repr_wf : forall r t, timestamp_of_repr r = Ok t -> ts_wf t.
Proof.
  intros r t H. unfold timestamp_of_repr in H.
  destruct r as [[s us|v|]|]; try discriminate; eapply mk_timestamp_wf; exact H.
Qed.

Theorem offset_verbatim : forall t ob offset neg x,
  from_dict (TRDict t (Some (Some ob)) offset neg) = Ok x ->
  offset_bytes x = ob /\ timestamp_of_repr t = Ok (ts x) /\
  author_date_part x = [SP] ++ format_date (ts x) ++ [SP] ++ ob.
Proof.
  intros t ob offset neg x H. cbn [from_dict] in H.
  destruct (timestamp_of_repr t) as [t'|e]; cbn [bind] in H; [|discriminate].
  inversion H. cbn [offset_bytes ts]. unfold author_date_part. cbn [offset_bytes ts].
  repeat split; reflexivity.
Qed.

(* a dict that carries BOTH the recorded bytes and the legacy numeric form: the bytes win - the outcome does not
   depend on "offset" / "negative_utc" at all, succeeds whenever the timestamp is acceptable, and the bytes are kept
   even when they are not the +HHMM spelling of that number; the numeric form is used only when no bytes are recorded *)
Theorem recorded_bytes_win :
  (forall t ob offset neg,
     from_dict (TRDict t (Some (Some ob)) offset neg) = from_dict (TRDict t (Some (Some ob)) None None)) /\
  (forall t ob offset neg t', timestamp_of_repr t = Ok t' ->
     from_dict (TRDict t (Some (Some ob)) offset neg) = Ok (mkTstz t' ob)) /\
  (forall t ob off neg x y,
     from_dict (TRDict t (Some (Some ob)) (Some (Some off)) neg) = Ok x ->
     from_dict (TRDict t None (Some (Some off)) neg) = Ok y ->
     offset_bytes x = ob /\ offset_bytes y = offset_to_bytes off (match neg with Some b => b | None => false end) /\
     ts x = ts y) /\
  (forall t off neg,
     from_dict (TRDict t None (Some (Some off)) neg) =
     bind (timestamp_of_repr t) (fun t' => from_numeric_offset t' off (match neg with Some b => b | None => false end))).
Proof.
  split; [reflexivity|]. split.
  { intros t ob offset neg t' E. cbn [from_dict]. rewrite E. reflexivity. }
  split; [|reflexivity].
  intros t ob off neg x y Hx Hy. cbn [from_dict] in Hx, Hy.
  destruct (timestamp_of_repr t) as [t'|e]; cbn [bind] in Hx, Hy; [|discriminate].
  inversion Hx. rewrite (from_numeric_offset_bytes _ _ _ _ Hy). cbn [offset_bytes ts]. repeat split; reflexivity.
Qed.

(* every entry point only ever yields in-range timestamps *)
Theorem from_dict_wf : forall r x, from_dict r = Ok x -> ts_wf (ts x).
Proof.
  intros r x H. destruct r as [t ob off neg|d| |v|]; cbn [from_dict] in H; try discriminate.
  - destruct (timestamp_of_repr t) as [t'|e] eqn:E; cbn [bind] in H; [|discriminate].
    destruct ob as [[b|]|]; try discriminate.
    + inversion H. cbn [ts]. eapply timestamp_of_repr_wf; exact E.
    + destruct off as [[off|]|]; try discriminate.
      rewrite (from_numeric_offset_bytes _ _ _ _ H). cbn [ts]. eapply timestamp_of_repr_wf; exact E.
  - unfold from_datetime in H.
    destruct (astimezone_utc d) as [u|e]; cbn [bind] in H; [|discriminate].
    destruct (if dt_microsecond u =? 0 then Ok u else replace_microsecond u 0) as [u'|e]; cbn [bind] in H; [|discriminate].
    destruct (mk_timestamp _ _) as [t'|e] eqn:E; cbn [bind] in H; [|discriminate].
    rewrite (from_numeric_offset_bytes _ _ _ _ H). cbn [ts]. eapply mk_timestamp_wf; exact E.
  - destruct (mk_timestamp v (VInt 0)) as [t'|e] eqn:E; cbn [bind] in H; [|discriminate].
    inversion H. cbn [ts]. eapply mk_timestamp_wf; exact E.
Qed.

Theorem range_rejected :
  (forall s us, secs_in_range s -> us_in_range us -> mk_timestamp (VInt s) (VInt us) = Ok (mkTs s us)) /\
  (forall s us, ~ secs_in_range s -> mk_timestamp (VInt s) us = Err ETimestampOverflow) /\
  (forall s us, secs_in_range s -> ~ us_in_range us -> mk_timestamp (VInt s) (VInt us) = Err EValue) /\
  (forall s us, (forall z, s <> VInt z) -> mk_timestamp s us = Err EAttributeType) /\
  (forall s us, secs_in_range s -> (forall z, us <> VInt z) -> mk_timestamp (VInt s) us = Err EAttributeType) /\
  (forall s us t, mk_timestamp s us = Ok t ->
     exists zs zu, s = VInt zs /\ us = VInt zu /\ secs_in_range zs /\ us_in_range zu /\ t = mkTs zs zu) /\
  (forall r x, from_dict r = Ok x -> secs_in_range (seconds (ts x)) /\ us_in_range (microseconds (ts x))) /\
  (forall z, us_in_range z <-> 0 <= z < 1000000).
Proof.
  split; [exact mk_timestamp_ok|]. split.
  { intros s us H. unfold mk_timestamp. rewrite (check_seconds_bad s H). reflexivity. }
  split.
  { intros s us Hs Hu. unfold mk_timestamp. rewrite (check_seconds_ok s Hs). cbn [bind].
    rewrite (check_microseconds_bad us Hu). reflexivity. }
  split.
  { intros s us H. destruct s as [z| |]; [exfalso; exact (H z eq_refl) | reflexivity | reflexivity]. }
  split.
  { intros s us Hs H. unfold mk_timestamp. rewrite (check_seconds_ok s Hs). cbn [bind].
    destruct us as [z| |]; [exfalso; exact (H z eq_refl) | reflexivity | reflexivity]. }
  split; [exact mk_timestamp_inv|]. split; [exact from_dict_wf|].
  intro z. destruct tables as [_ [_ [T3 [T4 _]]]]. unfold us_in_range. rewrite T3, T4. lia.
Qed.

(* ------------------------------------------------------------------ format_date *)
Lemma last_In : forall (l : bytes) d, l <> [] -> In (last l d) l.
Proof.
  induction l as [|x l IH]; intros d H; [congruence|].
  destruct l as [|y l']; [left; reflexivity|]. right.
  change (last (x :: y :: l') d) with (last (y :: l') d). apply IH. discriminate.
Qed.

Lemma last_app_r : forall (a b : bytes) d, b <> [] -> last (a ++ b) d = last b d.
Proof.
  induction a as [|x a IH]; intros b d H; [reflexivity|].
  cbn [List.app]. destruct (a ++ b) eqn:E.
  - apply app_eq_nil in E. destruct E as [_ E]. congruence.
  - rewrite <- E. change (last (x :: a ++ b) d) with (match a ++ b with [] => x | _ => last (a ++ b) d end).
    rewrite E. rewrite <- E. apply IH. exact H.
Qed.

Lemma dec_Z_nonempty : forall z, dec_Z z <> [].
Proof. intros [|p|p]; unfold dec_Z; try apply dec_N_nonempty. discriminate. Qed.

Lemma dot_not_in_dec_Z : forall z, ~ In DOT (dec_Z z).
Proof. intro z. apply dec_Z_no; [reflexivity | discriminate]. Qed.

Theorem format_date_exact : forall s us, 0 <= us < 1000000 ->
  let txt := format_date (mkTs s us) in
  parse_date txt = Some (s, us) /\
  (us = 0 -> txt = dec_Z s) /\
  (us <> 0 -> exists frac,
      txt = dec_Z s ++ [DOT] ++ frac /\ frac <> [] /\ forallb is_digit frac = true /\
      last frac 0%N <> ZERO /\
      length (dec_pad 6 (Z.to_N us)) = 6%nat /\
      exists k, frac ++ repeat ZERO k = dec_pad 6 (Z.to_N us)) /\
  last txt 0%N <> DOT.
Proof.
  intros s us Hu txt. unfold txt, format_date. cbn [microseconds seconds].
  destruct (Z.eqb_spec us 0) as [->|NZ].
  - (* whole second *)
    split; [|split; [reflexivity|split; [congruence|]]].
    + unfold parse_date. rewrite (cut_none DOT (dec_Z s) (dot_not_in_dec_Z s)).
      rewrite parse_dec_Z_dec_Z. reflexivity.
    + intro E. apply (dot_not_in_dec_Z s). rewrite <- E. apply last_In. apply dec_Z_nonempty.
  - (* fraction *)
    assert (Hpos : 0 < us) by lia.
    assert (F : fmt_06d us = dec_pad 6 (Z.to_N us)) by (destruct us; [lia | reflexivity | lia]).
    rewrite F. set (n := Z.to_N us). set (P := dec_pad 6 n).
    assert (Hn : (n <> 0)%N) by (unfold n; lia).
    assert (Hn6 : (n < 10 ^ N.of_nat 6)%N) by (change (10 ^ N.of_nat 6)%N with 1000000%N; unfold n; lia).
    assert (LP : length P = 6%nat) by (apply dec_pad_length; [lia | exact Hn6]).
    assert (DP : forallb is_digit P = true) by apply dec_pad_digits.
    assert (VP : dval P = n) by apply dval_dec_pad.
    assert (KP : rstrip0 P <> []).
    { intro E. apply rstrip0_nil_dval in E. rewrite VP in E. exact (Hn E). }
    assert (TXT : rstrip0 (dec_Z s ++ [DOT] ++ P) = dec_Z s ++ [DOT] ++ rstrip0 P).
    { rewrite !app_assoc. apply rstrip0_app_keep. exact KP. }
    rewrite TXT. set (frac := rstrip0 P) in *.
    assert (DF : forallb is_digit frac = true) by (apply rstrip0_digits; exact DP).
    assert (LF : (length frac <= 6)%nat) by (rewrite <- LP; apply rstrip0_length).
    split; [|split; [intro; congruence|split]].
    + unfold parse_date. cbn [List.app].
      rewrite (cut_app DOT (dec_Z s) frac (dot_not_in_dec_Z s)).
      rewrite parse_dec_Z_dec_Z, (parse_dec_N_dval frac KP DF).
      destruct (Nat.leb_spec (length frac) 6) as [_|Bad]; [|lia].
      f_equal. f_equal.
      pose proof (rstrip0_dval P) as RV. fold frac in RV. rewrite VP, LP in RV.
      unfold n in RV. apply (f_equal Z.of_N) in RV. rewrite Z2N.id in RV by lia.
      rewrite RV, N2Z.inj_mul, N2Z.inj_pow, nat_N_Z. reflexivity.
    + intros _. exists frac. split; [reflexivity|]. split; [exact KP|]. split; [exact DF|].
      split; [apply rstrip0_last; exact KP|]. split; [exact LP|].
      destruct (rstrip0_spec P) as [k E]. exists k. symmetry. exact E.
    + rewrite app_assoc, last_app_r by exact KP.
      intro E. pose proof (last_In frac 0%N KP) as I. rewrite E in I.
      rewrite forallb_forall in DF. specialize (DF DOT I). discriminate DF.
Qed.

(* ------------------------------------------------------------------ non-vacuity *)
Theorem satisfiable :
  (* a datetime before the epoch, with microseconds and a half-hour offset, meets the hypotheses of the round trip *)
  (let e := -1500000 in let m := 330 in
   dt_valid (mkDt e (m * 60)) = true /\ secs_in_range (e / MILLION) /\
   from_datetime (mkDt e (m * 60)) = Ok (mkTstz (mkTs (-2) 500000) [43; 48; 53; 51; 48]%N)) /\
  (* offsets in range, with and without the flag *)
  (-32768 <= -32768 <= 32767 /\ from_numeric_offset (mkTs 0 0) (-32768) true = Ok (mkTstz (mkTs 0 0) [45; 53; 52; 54; 48; 56]%N)) /\
  from_numeric_offset (mkTs 0 0) 0 true = Ok (mkTstz (mkTs 0 0) OB_MINUS0000) /\
  (* a date text with stripped zeros *)
  format_date (mkTs (-5) 120000) = [45; 53; 46; 49; 50]%N /\
  (* both ends of the accepted range are accepted, the neighbours are not *)
  secs_in_range TS_MIN_SECONDS /\ secs_in_range TS_MAX_SECONDS /\
  ~ secs_in_range (TS_MIN_SECONDS - 1) /\ ~ secs_in_range (TS_MAX_SECONDS + 1).
Proof.
  destruct tables as [_ [_ [_ [_ T5]]]].
  repeat split; try (vm_compute; reflexivity); try (vm_compute; discriminate); unfold secs_in_range; lia.
Qed.
