(* Cross-model consistency C15 x C08: the small SWHID printer of model/Meta.v
   (print_swhid / print_core / print_ext, used for the `target` line and the
   context lines of ExtID / RawExtrinsicMetadata manifests) against the full
   SWHID model of model/Swhid.v.

   Representations.  Meta prints BYTES (what `str(swhid).encode()` puts in the
   manifest), Swhid prints TEXT (a `list N` of code points).  Both are [list N];
   the relation is: the two lists are EQUAL, and every element is < 128, so
   the text's UTF-8 (and ASCII) encoding is that same list and decoding the
   bytes gives the text back.  Meta's cswhid/eswhid carry a type constructor,
   Swhid's [core] carries the type WORD: [to_core]/[ext_to_core] map one to the
   other through Meta's word tables (= SWHID_TYPES / EXTENDED_SWHID_TYPES,
   C15_keys_wf).

   Both models declare [result]/[Ok]/[Err], [parse_core], [parse_ext],
   [print_core]: Meta's are imported here, Swhid's are written qualified. *)
From Coq Require Import List NArith ZArith Bool.
From SWH.lib Require Import Bytes Dec Hex Utf8.
From SWH Require Import Generated.
From SWH.model Require Import Meta.
From SWH.model Require Swhid.
From SWH.proofs Require Import SwhidTables SwhidProofs.
From SWH.proofs Require MetaProofs.
Import ListNotations.
Open Scope N_scope.

(* a Meta SWHID value seen as a value of the C08 model *)
Definition to_core (s : cswhid) : Swhid.core := Swhid.mkCore (cty_word (cs_ty s)) (cs_id s).
Definition ext_to_core (s : eswhid) : Swhid.core := Swhid.mkCore (ety_word (es_ty s)) (es_id s).

(* ---- the printers are the same function ---- *)
Lemma print_swhid_is_print_core : forall w id, print_swhid w id = Swhid.print_core (Swhid.mkCore w id).
Proof.
  intros w id. unfold print_swhid, swhid_prefix, Swhid.print_core. cbn [Swhid.c_ty Swhid.c_oid].
  rewrite (proj1 tbl_seps). rewrite <- !app_assoc. reflexivity.
Qed.

Lemma print_core_agree : forall s, print_core s = Swhid.print_core (to_core s).
Proof. intro s. apply print_swhid_is_print_core. Qed.

Lemma print_ext_agree : forall s, print_ext s = Swhid.print_core (ext_to_core s).
Proof. intro s. apply print_swhid_is_print_core. Qed.

(* ---- the type words are those of the C08 tables ---- *)
Lemma cty_words_table : map cty_word all_cty = SWHID_TYPES.
Proof. vm_compute. reflexivity. Qed.
Lemma ety_words_table : map ety_word all_ety = EXTENDED_SWHID_TYPES.
Proof. vm_compute. reflexivity. Qed.
Lemma cty_word_in : forall t, In (cty_word t) SWHID_TYPES.
Proof. intro t. rewrite <- cty_words_table.
  apply in_map. destruct t; cbn; tauto. Qed.

Lemma ety_word_in : forall t, In (ety_word t) EXTENDED_SWHID_TYPES.
Proof. intro t. rewrite <- ety_words_table.
  apply in_map. destruct t as [[]| |]; cbn; tauto. Qed.

Lemma every_type_word_is_meta's :
  (forall w, In w SWHID_TYPES -> exists t, w = cty_word t) /\
  (forall w, In w EXTENDED_SWHID_TYPES -> exists t, w = ety_word t).
Proof.
  split; intros w Hw.
  - rewrite <- cty_words_table in Hw.
    apply in_map_iff in Hw. destruct Hw as [t [E _]]. exists t. symmetry. exact E.
  - rewrite <- ety_words_table in Hw.
    apply in_map_iff in Hw. destruct Hw as [t [E _]]. exists t. symmetry. exact E.
Qed.

(* ---- ASCII: bytes and text coincide through the codec ---- *)
Lemma hexdigit_ascii : forall n, n < 16 -> is_ascii (hexdigit n) = true.
Proof.
  intros n Hn. unfold is_ascii, hexdigit. destruct (n <? 10) eqn:E; apply N.ltb_lt.
  - apply N.ltb_lt in E. apply N.lt_trans with (48 + 10); [apply N.add_lt_mono_l; exact E | reflexivity].
  - apply N.lt_trans with (87 + 16); [apply N.add_lt_mono_l; exact Hn | reflexivity].
Qed.

Lemma hexlify_ascii : forall l, wf_bytes l = true -> forallb is_ascii (hexlify l) = true.
Proof.
  induction l as [|b l IH]; intro W; [reflexivity|].
  cbn [wf_bytes forallb] in W. apply andb_true_iff in W. destruct W as [Wb Wl].
  unfold wf_byte in Wb. apply N.ltb_lt in Wb.
  cbn [hexlify flat_map hex_byte app forallb].
  change (flat_map hex_byte l) with (hexlify l). rewrite (IH Wl).
  rewrite hexdigit_ascii, hexdigit_ascii; [reflexivity | |].
  - apply N.mod_lt. discriminate.
  - apply N.div_lt_upper_bound; [discriminate | exact Wb].
Qed.

Lemma ety_word_ascii : forall t, forallb is_ascii (ety_word t) = true.
Proof. intros [[]| |]; vm_compute; reflexivity. Qed.

Lemma print_ext_ascii : forall s, wf_bytes (es_id s) = true -> forallb is_ascii (print_ext s) = true.
Proof.
  intros s W. unfold print_ext. rewrite MetaProofs.print_swhid_eq.
  rewrite !forallb_app. cbn [forallb]. rewrite ety_word_ascii, (hexlify_ascii _ W). vm_compute. reflexivity.
Qed.

(* ---- main statement ---- *)
(* For every type (the five core ones through print_core, the seven extended
   ones through print_ext) and every id made of bytes:
   1. Meta's printed bytes ARE Swhid's printed text (equal lists);
   2. they are ASCII, so encoding the text (UTF-8 or ASCII) gives exactly the
      bytes, and decoding the bytes gives the text;
   and when the id is 20 bytes long (the SWHID constructor's condition):
   3. Swhid's from_string parsers accept the bytes Meta printed and return the
      same type word and id: parse_ext for every type, parse_core exactly for
      the core types (ori / emd are refused with ValidationError, as Meta's
      own parse_core answers None);
   4. Meta's independent reader agrees with Swhid's on them. *)
Theorem swhid_printer_is_C08s :
  (forall w id, print_swhid w id = Swhid.print_core (Swhid.mkCore w id)) /\
  (forall s : eswhid,
     print_ext s = Swhid.print_core (ext_to_core s) /\
     In (Swhid.c_ty (ext_to_core s)) EXTENDED_SWHID_TYPES /\
     (wf_bytes (es_id s) = true ->
        forallb is_ascii (print_ext s) = true /\
        utf8_encode (Swhid.print_core (ext_to_core s)) = Some (print_ext s) /\
        utf8_decode_replace (print_ext s) = Swhid.print_core (ext_to_core s)) /\
     (wf_bytes (es_id s) = true -> length (es_id s) = 20%nat ->
        Swhid.parse_ext (print_ext s) = Swhid.Ok (ext_to_core s) /\
        Swhid.parse_core (print_ext s)
          = (if tgt_is_core (es_ty s) then Swhid.Ok (ext_to_core s) else Swhid.Err Swhid.EValidation) /\
        parse_ext (print_ext s) = Some s)) /\
  (forall s : cswhid,
     print_core s = Swhid.print_core (to_core s) /\
     In (Swhid.c_ty (to_core s)) SWHID_TYPES /\
     (wf_bytes (cs_id s) = true ->
        forallb is_ascii (print_core s) = true /\
        utf8_encode (Swhid.print_core (to_core s)) = Some (print_core s) /\
        utf8_decode_replace (print_core s) = Swhid.print_core (to_core s)) /\
     (wf_bytes (cs_id s) = true -> length (cs_id s) = 20%nat ->
        Swhid.parse_core (print_core s) = Swhid.Ok (to_core s) /\
        Swhid.parse_ext (print_core s) = Swhid.Ok (to_core s) /\
        parse_core (print_core s) = Some s)).
Proof.
  assert (EXT : forall s : eswhid,
     print_ext s = Swhid.print_core (ext_to_core s) /\
     In (Swhid.c_ty (ext_to_core s)) EXTENDED_SWHID_TYPES /\
     (wf_bytes (es_id s) = true ->
        forallb is_ascii (print_ext s) = true /\
        utf8_encode (Swhid.print_core (ext_to_core s)) = Some (print_ext s) /\
        utf8_decode_replace (print_ext s) = Swhid.print_core (ext_to_core s)) /\
     (wf_bytes (es_id s) = true -> length (es_id s) = 20%nat ->
        Swhid.parse_ext (print_ext s) = Swhid.Ok (ext_to_core s) /\
        Swhid.parse_core (print_ext s)
          = (if tgt_is_core (es_ty s) then Swhid.Ok (ext_to_core s) else Swhid.Err Swhid.EValidation) /\
        parse_ext (print_ext s) = Some s)).
  { intro s. split; [apply print_ext_agree|]. split; [apply ety_word_in|]. split.
    - intro W. pose proof (print_ext_ascii s W) as A. split; [exact A|]. split.
      + rewrite <- print_ext_agree. apply utf8_encode_ascii. exact A.
      + rewrite <- print_ext_agree. apply utf8_decode_ascii. exact A.
    - intros W L.
      assert (WE : wf_ext (ext_to_core s)).
      { split; [apply ety_word_in|]. split; [exact L | exact W]. }
      split; [rewrite print_ext_agree; apply ext_roundtrip; exact WE|]. split.
      + rewrite print_ext_agree. destruct s as [[c| |] id]; cbn [tgt_is_core es_ty].
        * apply core_roundtrip. split; [apply (cty_word_in c)|]. split; [exact L | exact W].
        * unfold Swhid.parse_core, Swhid.parse_simple.
          pose proof (parse_swhid_build _ [] (wf_ext_doc_ext _ WE) (fun kv K => match K with end)) as P.
          cbn [flat_map] in P. rewrite app_nil_r in P. rewrite P. vm_compute. reflexivity.
        * unfold Swhid.parse_core, Swhid.parse_simple.
          pose proof (parse_swhid_build _ [] (wf_ext_doc_ext _ WE) (fun kv K => match K with end)) as P.
          cbn [flat_map] in P. rewrite app_nil_r in P. rewrite P. vm_compute. reflexivity.
      + apply MetaProofs.parse_ext_print. exact W. }
  split; [exact print_swhid_is_print_core|]. split; [exact EXT|].
  intro s. pose (e := {| es_ty := ECore (cs_ty s); es_id := cs_id s |}).
  destruct (EXT e) as [E1 [_ [E3 E4]]].
  change (print_ext e) with (print_core s) in *. change (ext_to_core e) with (to_core s) in *.
  change (es_id e) with (cs_id s) in *.
  split; [exact E1|]. split; [apply cty_word_in|]. split; [exact E3|].
  intros W L. destruct (E4 W L) as [P1 [P2 _]]. cbn [tgt_is_core es_ty e] in P2.
  split; [exact P2|]. split; [exact P1|]. apply MetaProofs.parse_core_print. exact W.
Qed.

(* non-vacuity: a 20-byte id, every type *)
Example printer_example :
  Swhid.parse_ext (print_ext {| es_ty := EEmd; es_id := Swhid.ex_oid |})
  = Swhid.Ok (Swhid.mkCore (bs "emd") Swhid.ex_oid)
  /\ print_core {| cs_ty := CDir; cs_id := Swhid.ex_oid |} = bs "swh:1:dir:" ++ Swhid.ex_hex.
Proof. vm_compute. split; reflexivity. Qed.
