(* Proofs about coq/model/Frozen.v (property C11), part 3: equality and
   hashing of resolved values. *)
From Coq Require Import List NArith Bool Arith Lia Permutation Sorted.
From SWH.lib Require Import Bytes Order StableSort.
From SWH Require Import Generated.
From SWH.model Require Import Frozen.
From SWH.proofs Require Import FrozenProofs.
Import ListNotations.
Local Open Scope nat_scope.

(* ------------------------------------------------------------------ *)
(* induction principle for the nested type rval *)
Section RvalInd.
  Variable P : rval -> Prop.
  Hypothesis HNone : P RNone.
  Hypothesis HAtom : forall a, P (RAtom a).
  Hypothesis HSeq : forall m l, Forall P l -> P (RSeq m l).
  Hypothesis HMap : forall m it, Forall (fun kv : atom * rval => P (snd kv)) it -> P (RMap m it).
  Hypothesis HObj : forall c fs, Forall P fs -> P (RObj c fs).
  Hypothesis HOut : P ROut.
  Hypothesis HBad : P RBad.

  Fixpoint rval_ind' (x : rval) : P x :=
    match x with
    | RNone => HNone
    | RAtom a => HAtom a
    | RSeq m l =>
        HSeq m l ((fix go (l : list rval) : Forall P l :=
                     match l with [] => Forall_nil _ | a :: r => Forall_cons a (rval_ind' a) (go r) end) l)
    | RMap m it =>
        HMap m it ((fix go (l : list (atom * rval)) : Forall (fun kv => P (snd kv)) l :=
                      match l with [] => Forall_nil _ | a :: r => Forall_cons a (rval_ind' (snd a)) (go r) end) it)
    | RObj c fs =>
        HObj c fs ((fix go (l : list rval) : Forall P l :=
                      match l with [] => Forall_nil _ | a :: r => Forall_cons a (rval_ind' a) (go r) end) fs)
    | ROut => HOut
    | RBad => HBad
    end.
End RvalInd.

(* ------------------------------------------------------------------ *)
(* small facts *)

Lemma nodupk_NoDup : forall l, nodupk l = true -> NoDup l.
Proof.
  induction l as [|k l IH]; intro H; [constructor|]. simpl in H. apply andb_true_iff in H.
  destruct H as [H1 H2]. constructor; [|auto]. intro Hin. apply mem_bytes_In in Hin.
  rewrite Hin in H1. discriminate.
Qed.

Lemma assoc_In : forall {A} k (l : list (atom * A)) v, assoc k l = Some v -> In (k, v) l.
Proof.
  induction l as [|[k' v'] l IH]; intros v H; simpl in H; [discriminate|].
  destruct (beqb k k') eqn:E.
  - apply beqb_eq in E. inversion H; subst. left. reflexivity.
  - right. auto.
Qed.

Lemma In_assoc : forall {A} (l : list (atom * A)) k v, NoDup (map fst l) -> In (k, v) l -> assoc k l = Some v.
Proof.
  induction l as [|[k' v'] l IH]; intros k v Hnd Hin; [contradiction|]. simpl in *.
  inversion Hnd as [|? ? Hni Hnd']; subst. destruct Hin as [E|Hin].
  - inversion E; subst. rewrite beqb_refl. reflexivity.
  - destruct (beqb k k') eqn:E.
    + apply beqb_eq in E. subst. exfalso. apply Hni. apply (in_map fst) in Hin. exact Hin.
    + auto.
Qed.

Lemma NoDup_fst_inj : forall {A} (l : list (atom * A)) x y,
  NoDup (map fst l) -> In x l -> In y l -> fst x = fst y -> x = y.
Proof.
  intros A l [k v] [k' v'] Hnd Hx Hy E. simpl in E. subst k'.
  pose proof (In_assoc l k v Hnd Hx) as A1. pose proof (In_assoc l k v' Hnd Hy) as A2. congruence.
Qed.

Lemma seq_opt_all : forall {A B} (F : A -> option B) l r,
  seq_opt (map F l) = Some r -> forall x, In x l -> exists y, F x = Some y /\ In y r.
Proof.
  induction l as [|a l IH]; intros r H x Hx; [contradiction|]. simpl in H.
  destruct (F a) as [b|] eqn:E; [|discriminate].
  destruct (seq_opt (map F l)) as [r'|] eqn:E2; [|discriminate]. inversion H; subst.
  destruct Hx as [Hx|Hx].
  - subst. exists b. split; [exact E | left; reflexivity].
  - destruct (IH r' eq_refl x Hx) as [y [Fy Hy]]. exists y. split; [exact Fy | right; exact Hy].
Qed.

Section Norm.
  Variable T : class_table.
  Definition NF (kv : atom * rval) : option (atom * rval) := option_map (pair (fst kv)) (norm T (snd kv)).

  Lemma NF_fst : forall kv p, NF kv = Some p -> fst p = fst kv.
  Proof. intros kv p H. unfold NF in H. destruct (norm T (snd kv)); [|discriminate]. inversion H. reflexivity. Qed.

  Lemma seq_NF_fst : forall it r, seq_opt (map NF it) = Some r -> map fst r = map fst it.
  Proof.
    induction it as [|a it IH]; intros r H; simpl in H; [inversion H; reflexivity|].
    destruct (NF a) as [b|] eqn:E; [|discriminate].
    destruct (seq_opt (map NF it)) as [r'|] eqn:E2; [|discriminate]. inversion H; subst. simpl.
    f_equal; [apply NF_fst; exact E | apply IH; reflexivity].
  Qed.

  Lemma kleb_antisym_on : forall (l : list (atom * rval)),
    NoDup (map fst l) ->
    forall x y, In x l -> In y l -> kleb x y = true -> kleb y x = true -> x = y.
  Proof.
    intros l Hnd x y Hx Hy H1 H2. apply (NoDup_fst_inj l x y Hnd Hx Hy).
    unfold kleb in *. apply bleb_antisym; assumption.
  Qed.

  Lemma kleb_total : forall x y : atom * rval, kleb x y = true \/ kleb y x = true.
  Proof. intros x y. unfold kleb. apply bleb_total. Qed.
  Lemma kleb_trans : forall x y z : atom * rval, kleb x y = true -> kleb y z = true -> kleb x z = true.
  Proof. intros x y z. unfold kleb. apply bleb_trans. Qed.

  (* two key-distinct item lists with the same elements sort to the same list *)
  Lemma sort_items_eq : forall (l l' : list (atom * rval)),
    NoDup (map fst l) -> NoDup (map fst l') -> length l' <= length l -> incl l l' ->
    sort kleb l = sort kleb l'.
  Proof.
    intros l l' Hnd Hnd' Hlen Hincl.
    assert (N1 : NoDup l) by (eapply NoDup_map_inv; exact Hnd).
    assert (N2 : NoDup l') by (eapply NoDup_map_inv; exact Hnd').
    apply (sort_perm_eq kleb kleb_total kleb_trans).
    - apply kleb_antisym_on. exact Hnd.
    - apply NoDup_Permutation; [exact N1 | exact N2|]. intro p. split; [apply Hincl|].
      apply (NoDup_length_incl N1 Hlen Hincl).
  Qed.

  Hypothesis coherent : eq_hash_coherent T = true.

  Lemma assoc_table_In : forall c rows, assoc c T = Some rows -> exists c', In (c', rows) T.
  Proof. intros c rows H. exists c. apply assoc_In. exact H. Qed.

  Lemma flags_coherent : forall c, flags_of T f_eq c = flags_of T f_hash c.
  Proof.
    intro c. unfold flags_of, class_fields. destruct (assoc c T) as [rows|] eqn:E; [|reflexivity].
    destruct (assoc_table_In _ _ E) as [c' Hin]. unfold eq_hash_coherent in coherent.
    rewrite forallb_forall in coherent. specialize (coherent _ Hin). simpl in coherent.
    rewrite forallb_forall in coherent. apply map_ext_in. intros r Hr.
    specialize (coherent r Hr). apply eqb_prop in coherent. exact coherent.
  Qed.

  (* equal values have the same hash key (when both are hashable) *)
  Definition EqNorm (x : rval) : Prop :=
    forall y nx ny, r_wf x = true -> r_wf y = true -> r_eqb T x y = true ->
                    norm T x = Some nx -> norm T y = Some ny -> nx = ny.

  Lemma eq_norm : forall x, EqNorm x.
  Proof.
    induction x as [|a|m l IH|m it IH|c fs IH| |] using rval_ind'; unfold EqNorm;
      intros y nx ny Wx Wy E Nx Ny.
    - destruct y; try discriminate. simpl in *. congruence.
    - destruct y; try discriminate. simpl in *. apply beqb_eq in E. congruence.
    - (* tuples *)
      destruct y as [| |m' l'| | | |]; try discriminate. simpl in E.
      apply andb_true_iff in E. destruct E as [Em E]. apply eqb_prop in Em. subst m'.
      destruct m; [discriminate|]. simpl in Nx, Ny.
      destruct (seq_opt (map (norm T) l)) as [nl|] eqn:N1; [|discriminate].
      destruct (seq_opt (map (norm T) l')) as [nl'|] eqn:N2; [|discriminate].
      inversion Nx; inversion Ny; subst. f_equal. simpl in Wx, Wy.
      clear Nx Ny. revert l' nl nl' Wx Wy E N1 N2.
      induction IH as [|a l Ha _ IHl]; intros l' nl nl' Wx Wy E N1 N2.
      + destruct l'; [|discriminate]. simpl in *. congruence.
      + destruct l' as [|b l']; [discriminate|]. simpl in *.
        apply andb_true_iff in E. destruct E as [E1 E2].
        apply andb_true_iff in Wx. destruct Wx as [Wa Wl].
        apply andb_true_iff in Wy. destruct Wy as [Wb Wl'].
        destruct (norm T a) as [na|] eqn:Na; [|discriminate].
        destruct (norm T b) as [nb|] eqn:Nb; [|discriminate].
        destruct (seq_opt (map (norm T) l)) as [r|] eqn:R1; [|discriminate].
        destruct (seq_opt (map (norm T) l')) as [r'|] eqn:R2; [|discriminate].
        inversion N1; inversion N2; subst. f_equal.
        * apply (Ha b na nb Wa Wb E1 Na Nb).
        * apply (IHl l' r r' Wl Wl' E2 eq_refl R2).
    - (* mappings *)
      destruct y as [| | |m' it'| | |]; try discriminate. simpl in E.
      apply andb_true_iff in E. destruct E as [El E]. apply Nat.eqb_eq in El.
      destruct m; [discriminate|]. destruct m'; [discriminate|]. simpl in Nx, Ny.
      fold NF in Nx, Ny.
      change (option_map (fun it' => RMap false (sort kleb it')) (seq_opt (map NF it)) = Some nx) in Nx.
      change (option_map (fun it' => RMap false (sort kleb it')) (seq_opt (map NF it')) = Some ny) in Ny.
      destruct (seq_opt (map NF it)) as [nit|] eqn:N1; [|discriminate].
      destruct (seq_opt (map NF it')) as [nit'|] eqn:N2; [|discriminate].
      inversion Nx; inversion Ny; subst. f_equal. simpl in Wx, Wy.
      apply andb_true_iff in Wx. destruct Wx as [Kx Wx].
      apply andb_true_iff in Wy. destruct Wy as [Ky Wy].
      apply nodupk_NoDup in Kx. apply nodupk_NoDup in Ky.
      (* the [go] loop: every item of it has an equal partner in it' *)
      assert (Hgo : forall kv, In kv it -> exists v', assoc (fst kv) it' = Some v' /\ r_eqb T (snd kv) v' = true).
      { clear -E. induction it as [|kv0 it IHit]; intros kv Hin; [contradiction|].
        apply andb_true_iff in E. destruct E as [E1 E2]. destruct Hin as [Hin|Hin].
        - subst. destruct (assoc (fst kv) it') as [v'|]; [|discriminate]. exists v'. auto.
        - apply IHit; assumption. }
      apply sort_items_eq.
      + rewrite (seq_NF_fst _ _ N1). exact Kx.
      + rewrite (seq_NF_fst _ _ N2). exact Ky.
      + rewrite (seq_opt_length _ _ N1), (seq_opt_length _ _ N2), !map_length. lia.
      + intros p Hp.
        destruct (seq_opt_In _ _ _ N1 p Hp) as [kv [Hkv Fkv]].
        destruct (Hgo kv Hkv) as [v' [Av' Ev']].
        pose proof (assoc_In _ _ _ Av') as Hin'.
        destruct (seq_opt_all _ _ _ N2 _ Hin') as [p' [Fp' Hp']].
        unfold NF in Fkv, Fp'. simpl in Fp'.
        destruct (norm T (snd kv)) as [nv|] eqn:Nv; [|discriminate].
        destruct (norm T v') as [nv'|] eqn:Nv'; [|discriminate].
        simpl in Fkv, Fp'. inversion Fkv; inversion Fp'; subst.
        rewrite Forall_forall in IH. rewrite forallb_forall in Wx, Wy.
        assert (nv = nv') as ->.
        { apply (IH kv Hkv v' nv nv'); auto. apply (Wy (fst kv, v')). exact Hin'. }
        exact Hp'.
    - (* instances *)
      destruct y as [| | | |c' fs'| |]; try discriminate. simpl in E.
      apply andb_true_iff in E. destruct E as [Ec E]. apply beqb_eq in Ec. subst c'.
      simpl in Nx, Ny. rewrite <- flags_coherent in Nx, Ny.
      match type of Nx with option_map _ (seq_opt ?a) = _ => destruct (seq_opt a) as [nl|] eqn:N1; [|discriminate] end.
      match type of Ny with option_map _ (seq_opt ?a) = _ => destruct (seq_opt a) as [nl'|] eqn:N2; [|discriminate] end.
      inversion Nx; inversion Ny; subst. f_equal. simpl in Wx, Wy. clear Nx Ny.
      generalize dependent (flags_of T f_eq c). intro fl.
      revert fs' nl nl' Wx Wy fl. induction IH as [|a l Ha _ IHl]; intros fs' nl nl' Wx Wy fl E N1 N2.
      + destruct fs'; [|discriminate]. simpl in *. congruence.
      + destruct fs' as [|b l']; [discriminate|]. simpl in *.
        apply andb_true_iff in E. destruct E as [E1 E2].
        apply andb_true_iff in Wx. destruct Wx as [Wa Wl].
        apply andb_true_iff in Wy. destruct Wy as [Wb Wl'].
        destruct (fst (next_flag fl)).
        * simpl in N1, N2.
          destruct (norm T a) as [na|] eqn:Na; [|discriminate].
          destruct (norm T b) as [nb|] eqn:Nb; [|discriminate].
          match type of N1 with match seq_opt ?a with _ => _ end = _ => destruct (seq_opt a) as [r|] eqn:R1; [|discriminate] end.
          match type of N2 with match seq_opt ?a with _ => _ end = _ => destruct (seq_opt a) as [r'|] eqn:R2; [|discriminate] end.
          inversion N1; inversion N2; subst. f_equal.
          -- apply (Ha b na nb Wa Wb E1 Na Nb).
          -- apply (IHl l' r r' Wl Wl' (snd (next_flag fl)) E2 R1 R2).
        * apply (IHl l' nl nl' Wl Wl' (snd (next_flag fl)) E2 N1 N2).
    - destruct y; discriminate.
    - destruct y; discriminate.
  Qed.

  (* reflexivity: a value equals itself (mapping keys distinct) *)
  Lemma r_eqb_refl : forall x, r_wf x = true -> r_eqb T x x = true.
  Proof.
    induction x as [|a|m l IH|m it IH|c fs IH| |] using rval_ind'; intro W; simpl in *; try reflexivity.
    - apply beqb_refl.
    - rewrite eqb_reflx. simpl. induction IH as [|a l Ha _ IHl]; [reflexivity|]. simpl in *.
      apply andb_true_iff in W. destruct W as [Wa Wl]. rewrite (Ha Wa). simpl. apply IHl. exact Wl.
    - rewrite Nat.eqb_refl. simpl. apply andb_true_iff in W. destruct W as [K W].
      apply nodupk_NoDup in K.
      assert (G : forall l, incl l it -> Forall (fun kv : atom * rval => r_wf (snd kv) = true -> r_eqb T (snd kv) (snd kv) = true) l ->
                  (fix go (it0 : list (atom * rval)) : bool :=
                     match it0 with
                     | [] => true
                     | kv :: r => match assoc (fst kv) it with Some v' => r_eqb T (snd kv) v' | None => false end && go r
                     end) l = true).
      { induction l as [|kv l IHl]; intros Hincl HF; [reflexivity|].
        inversion HF as [|? ? Hkv HF']; subst.
        assert (Hin : In kv it) by (apply Hincl; left; reflexivity).
        destruct kv as [k v]. simpl. rewrite (In_assoc it k v K Hin). simpl in Hkv.
        rewrite forallb_forall in W. rewrite (Hkv (W _ Hin)). simpl.
        apply IHl; [intros z Hz; apply Hincl; right; exact Hz | exact HF']. }
      apply G; [apply incl_refl | exact IH].
    - rewrite beqb_refl. simpl. generalize (flags_of T f_eq c). intro fl. revert fl.
      induction IH as [|a l Ha _ IHl]; intro fl; [reflexivity|]. simpl in *.
      apply andb_true_iff in W. destruct W as [Wa Wl]. rewrite (Ha Wa).
      destruct (fst (next_flag fl)); simpl; apply IHl; exact Wl.
  Qed.

  Lemma seq_opt_perm : forall {A B} (F : A -> option B) l l' r,
    Permutation l l' -> seq_opt (map F l) = Some r ->
    exists r', seq_opt (map F l') = Some r' /\ Permutation r r'.
  Proof.
    intros A B F l l' r Hp. revert r. induction Hp; intros r H.
    - exists r. split; [exact H|]. simpl in H. inversion H. constructor.
    - simpl in *. destruct (F x) as [b|]; [|discriminate].
      destruct (seq_opt (map F l)) as [r0|] eqn:E; [|discriminate]. inversion H; subst.
      destruct (IHHp r0 eq_refl) as [r' [E' P']]. rewrite E'. exists (b :: r'). split; [reflexivity | constructor; exact P'].
    - simpl in *. destruct (F y) as [b|]; [|discriminate]. destruct (F x) as [a|]; [|discriminate].
      destruct (seq_opt (map F l)) as [r0|]; [|discriminate]. inversion H; subst.
      exists (a :: b :: r0). split; [reflexivity | apply perm_swap].
    - destruct (IHHp1 r H) as [r1 [E1 P1]]. destruct (IHHp2 r1 E1) as [r2 [E2 P2]].
      exists r2. split; [exact E2 | eapply perm_trans; eauto].
  Qed.

  Lemma seq_opt_perm_none : forall {A B} (F : A -> option B) l l',
    Permutation l l' -> seq_opt (map F l) = None -> seq_opt (map F l') = None.
  Proof.
    intros A B F l l' Hp H. destruct (seq_opt (map F l')) as [r'|] eqn:E; [|reflexivity].
    destruct (seq_opt_perm F l' l r' (Permutation_sym Hp) E) as [r [E2 _]]. congruence.
  Qed.

  (* frozen mappings compare and hash independently of insertion order *)
  Lemma idict_order_free : forall items items',
    NoDup (map fst items) -> Permutation items items' ->
    forallb (fun kv => r_wf (snd kv)) items = true ->
    r_eqb T (RMap false items) (RMap false items') = true /\
    norm T (RMap false items) = norm T (RMap false items').
  Proof.
    intros items items' Hnd Hp W.
    assert (Hnd' : NoDup (map fst items')).
    { eapply Permutation_NoDup; [apply Permutation_map; exact Hp | exact Hnd]. }
    split.
    - simpl. rewrite (Permutation_length Hp), Nat.eqb_refl. simpl.
      assert (G : forall l, incl l items ->
                  (fix go (it0 : list (atom * rval)) : bool :=
                     match it0 with
                     | [] => true
                     | kv :: r => match assoc (fst kv) items' with Some v' => r_eqb T (snd kv) v' | None => false end && go r
                     end) l = true).
      { induction l as [|kv l IHl]; intro Hincl; [reflexivity|].
        assert (Hin : In kv items) by (apply Hincl; left; reflexivity).
        destruct kv as [k v]. simpl. rewrite (In_assoc items' k v Hnd' (Permutation_in _ Hp Hin)).
        rewrite forallb_forall in W. rewrite (r_eqb_refl v (W _ Hin)). simpl.
        apply IHl. intros z Hz. apply Hincl. right. exact Hz. }
      apply G. apply incl_refl.
    - simpl. fold NF.
      change (option_map (fun it' => RMap false (sort kleb it')) (seq_opt (map NF items)) =
              option_map (fun it' => RMap false (sort kleb it')) (seq_opt (map NF items'))).
      destruct (seq_opt (map NF items)) as [r|] eqn:E.
      + destruct (seq_opt_perm NF items items' r Hp E) as [r' [E' P']]. rewrite E'. simpl. f_equal. f_equal.
        apply (sort_perm_eq kleb kleb_total kleb_trans); [|exact P']. apply kleb_antisym_on. rewrite (seq_NF_fst _ _ E). exact Hnd.
      + rewrite (seq_opt_perm_none NF items items' Hp E). reflexivity.
  Qed.
End Norm.
