(* Side conditions on the tables regenerated from /repo (Generated.v) that the
   SWHID proofs rest on.  Each is a closed computation: if a source edit
   changes a table so that a condition fails, this file stops compiling and
   the property theorems are no longer established. *)
From Coq Require Import List NArith ZArith Bool.
From SWH.lib Require Import Bytes Dec Hex Utf8 Percent.
From SWH Require Import Generated.
From SWH.model Require Import Swhid.
Import ListNotations.
Open Scope N_scope.

Definition subset_b (a b : list text) : bool := forallb (fun t => mem_bytes t b) a.
Definition same_set_b (a b : list text) : bool := subset_b a b && subset_b b a.

Lemma subset_b_In : forall a b, subset_b a b = true -> forall t, In t a -> In t b.
Proof.
  intros a b H t Ht. unfold subset_b in H. rewrite forallb_forall in H.
  apply mem_bytes_In. apply H. exact Ht.
Qed.

Lemma same_set_mem : forall a b, same_set_b a b = true -> forall t, mem_bytes t a = mem_bytes t b.
Proof.
  intros a b H t. unfold same_set_b in H. apply andb_true_iff in H. destruct H as [H1 H2].
  destruct (mem_bytes t a) eqn:Ea; destruct (mem_bytes t b) eqn:Eb; try reflexivity.
  - apply mem_bytes_In in Ea. apply (subset_b_In _ _ H1) in Ea. apply mem_bytes_In in Ea. congruence.
  - apply mem_bytes_In in Eb. apply (subset_b_In _ _ H2) in Eb. apply mem_bytes_In in Eb. congruence.
Qed.

(* name of an attrs field table row *)
Definition field_name (r : list N * bool * bool * bool * bool) : list N := fst (fst (fst (fst r))).

(* separators, namespace, version: the regex starts with the literal "swh:1:" *)
Lemma tbl_seps : SWHID_SEP = [58] /\ SWHID_CTXT_SEP = [59].
Proof. vm_compute. split; reflexivity. Qed.
Lemma tbl_head : re_head = S_swh1.
Proof. vm_compute. reflexivity. Qed.
Lemma tbl_version_int : parse_dec_Z (dec_Z SWHID_VERSION) = Some SWHID_VERSION.
Proof. vm_compute. reflexivity. Qed.

(* the type alternation of the regex is the documented extended list; the two
   enums have exactly the documented values *)
Lemma tbl_ext_types : EXTENDED_SWHID_TYPES = DOC_EXT_TYPES.
Proof. vm_compute. reflexivity. Qed.
Lemma tbl_core_types : SWHID_TYPES = DOC_CORE_TYPES.
Proof. vm_compute. reflexivity. Qed.
Lemma tbl_core_enum : same_set_b (enum_values OBJECT_TYPES) DOC_CORE_TYPES = true.
Proof. vm_compute. reflexivity. Qed.
Lemma tbl_ext_enum : same_set_b (enum_values EXTENDED_OBJECT_TYPES) DOC_EXT_TYPES = true.
Proof. vm_compute. reflexivity. Qed.
Lemma tbl_snapshot : TY_SNAPSHOT = S_snp.
Proof. vm_compute. reflexivity. Qed.
Lemma tbl_anchor_types : ANCHOR_TYPES = DOC_ANCHOR_TYPES.
Proof. vm_compute. reflexivity. Qed.

(* qualifier keys: the known set, the keyword arguments the constructor
   understands, the printing order *)
Lemma tbl_field_keys : FIELD_KEYS = DOC_KEYS.
Proof. vm_compute. reflexivity. Qed.
Lemma tbl_qualifiers : same_set_b SWHID_QUALIFIERS DOC_KEYS = true.
Proof. vm_compute. reflexivity. Qed.
Lemma tbl_print_order : QUALIFIER_PRINT_ORDER = FIELD_KEYS.
Proof. vm_compute. reflexivity. Qed.
(* every accepted qualifier key is an attribute of QualifiedSWHID and none
   collides with the four base arguments (no TypeError from the ** call) *)
Lemma tbl_qualifier_fields :
  subset_b SWHID_QUALIFIERS (map field_name FIELDS_QualifiedSWHID) = true /\
  subset_b [bs "namespace"; bs "scheme_version"; bs "object_type"; bs "object_id"]
           (map field_name FIELDS_QualifiedSWHID) = true /\
  forallb (fun k => negb (mem_bytes k [bs "namespace"; bs "scheme_version"; bs "object_type"; bs "object_id"]))
          SWHID_QUALIFIERS = true.
Proof. vm_compute. repeat split; reflexivity. Qed.

(* shapes used by the parser proofs *)
Lemma tbl_types_shape :
  forallb (fun t => Nat.eqb (length t) 3 && negb (memb 58 t)) DOC_EXT_TYPES = true.
Proof. vm_compute. reflexivity. Qed.
Lemma tbl_core_sub_ext : subset_b DOC_CORE_TYPES DOC_EXT_TYPES = true.
Proof. vm_compute. reflexivity. Qed.
Lemma tbl_visit_anchor_sub_core :
  subset_b DOC_VISIT_TYPES DOC_CORE_TYPES = true /\ subset_b DOC_ANCHOR_TYPES DOC_CORE_TYPES = true.
Proof. vm_compute. split; reflexivity. Qed.

Lemma mem_core_enum : forall t, mem_bytes t (enum_values OBJECT_TYPES) = mem_bytes t DOC_CORE_TYPES.
Proof. apply same_set_mem, tbl_core_enum. Qed.
Lemma mem_ext_enum : forall t, mem_bytes t (enum_values EXTENDED_OBJECT_TYPES) = mem_bytes t DOC_EXT_TYPES.
Proof. apply same_set_mem, tbl_ext_enum. Qed.
Lemma mem_qualifiers : forall t, mem_bytes t SWHID_QUALIFIERS = mem_bytes t DOC_KEYS.
Proof. apply same_set_mem, tbl_qualifiers. Qed.
