(* update_hash (forced or not), compute_hash, entries, to_model: they
   preserve the invariant, never run out of fuel on a DAG, and return fresh
   values. *)
From Coq Require Import List NArith Bool Arith Lia.
From SWH.lib Require Import Bytes.
From SWH.model Require Import Merkle.
From SWH.proofs Require Import MerkleBase MerkleInv.
Import ListNotations.
Local Open Scope nat_scope.

(* a non-forced read: flags untouched, cached hashes only appear *)
Definition ngrow (x x' : node) : Prop :=
  nshape x x' /\ collected x' = collected x /\ (hashed x = true -> cached x' = cached x).
Definition grows (s s' : heap) := Forall2 ngrow s s'.
(* any hash operation: a node that is still collected was collected and kept its cached hash *)
Definition nkeep (x x' : node) : Prop :=
  nshape x x' /\ (collected x' = true -> collected x = true /\ cached x' = cached x).
Definition keepc (s s' : heap) := Forall2 nkeep s s'.

Lemma ngrow_refl : forall x, ngrow x x.
Proof. intro. split; [apply nshape_refl|]. auto. Qed.
Lemma ngrow_trans : forall x y z, ngrow x y -> ngrow y z -> ngrow x z.
Proof.
  intros x y z (S1 & C1 & H1) (S2 & C2 & H2). split; [eapply nshape_trans; eauto|]. split; [congruence|].
  intro Hx. specialize (H1 Hx). rewrite <- H1. apply H2. rewrite (hashed_cached _ _ H1). exact Hx.
Qed.
Lemma nkeep_refl : forall x, nkeep x x.
Proof. intro. split; [apply nshape_refl|]. auto. Qed.
Lemma nkeep_trans : forall x y z, nkeep x y -> nkeep y z -> nkeep x z.
Proof.
  intros x y z (S1 & H1) (S2 & H2). split; [eapply nshape_trans; eauto|].
  intro C. destruct (H2 C) as [C' E']. destruct (H1 C') as [C'' E'']. split; congruence.
Qed.
Lemma grows_refl : forall s, grows s s. Proof. intro. apply F2_refl, ngrow_refl. Qed.
Lemma grows_trans : forall a b c, grows a b -> grows b c -> grows a c.
Proof. intros. eapply F2_trans; eauto. apply ngrow_trans. Qed.
Lemma keepc_refl : forall s, keepc s s. Proof. intro. apply F2_refl, nkeep_refl. Qed.
Lemma keepc_trans : forall a b c, keepc a b -> keepc b c -> keepc a c.
Proof. intros. eapply F2_trans; eauto. apply nkeep_trans. Qed.
Lemma grows_shape : forall s s', grows s s' -> shape s s'.
Proof. intros s s' H. apply (F2_impl ngrow nshape); auto. intros x y H0. apply H0. Qed.
Lemma keepc_shape : forall s s', keepc s s' -> shape s s'.
Proof. intros s s' H. apply (F2_impl nkeep nshape); auto. intros x y H0. apply H0. Qed.
Lemma R_keepc : forall s s', R s s' -> keepc s s'.
Proof.
  intros s s' H. apply (F2_impl nrel nkeep); auto.
  intros x y (S & [[a b]|(a & b & _)] & _); split; auto; intro C; [split|]; congruence.
Qed.

Lemma F2_impl_nth : forall (P Q : node -> node -> Prop) s s',
  Forall2 P s s' ->
  (forall n x x', nth_error s n = Some x -> nth_error s' n = Some x' -> P x x' -> Q x x') ->
  Forall2 Q s s'.
Proof.
  intros P Q s s' H. induction H as [|a b s s' Hab H IH]; intro HQ; constructor.
  - apply (HQ 0 a b); auto.
  - apply IH. intros n x x' E E'. apply (HQ (S n)); auto.
Qed.

Lemma F2_upd_r : forall (P : node -> node -> Prop) s s3 n g,
  Forall2 P s s3 ->
  (forall x x3, nth_error s n = Some x -> nth_error s3 n = Some x3 -> P x x3 -> P x (g x3)) ->
  Forall2 P s (upd n g s3).
Proof.
  intros P s s3 n g H. revert n. induction H as [|a b s s3 Hab H IH]; intros [|n] Hg; simpl; try constructor; auto.
Qed.

Lemma grows_keep : forall s s', I4s s -> grows s s' -> I4s s' /\ keepc s s'.
Proof.
  intros s s' I G. split.
  - intros n x' E' C'. destruct (F2_nth_r _ _ _ _ _ G E') as (x & E & (_ & C & Hc)).
    assert (Hx : hashed x = true) by (eapply I; eauto; congruence).
    rewrite (hashed_cached _ _ (Hc Hx)). exact Hx.
  - apply (F2_impl_nth ngrow nkeep s s' G). intros n x x' E E' (S & C & Hc). split; auto.
    intro C'. split; [congruence|]. apply Hc. eapply I; eauto; congruence.
Qed.

Lemma hashed_at_grows : forall s s' k, grows s s' -> hashed_at s k -> hashed_at s' k.
Proof.
  intros s s' k G (y & E & H). destruct (F2_nth _ _ _ _ _ G E) as (y' & E' & (_ & _ & Hc)).
  exists y'. split; auto. rewrite (hashed_cached _ _ (Hc H)). exact H.
Qed.

Definition hashed_val (s : heap) (n : nat) (h : bytes) : Prop :=
  exists y, nth_error s n = Some y /\ cached y = Some h /\ hashed y = true.

Lemma hashed_val_grows : forall s s' k h, grows s s' -> hashed_val s k h -> hashed_val s' k h.
Proof.
  intros s s' k h G (y & E & C & H). destruct (F2_nth _ _ _ _ _ G E) as (y' & E' & (_ & _ & Hc)).
  exists y'. split; auto. specialize (Hc H). split; [congruence|]. rewrite (hashed_cached _ _ Hc). exact H.
Qed.

Lemma hashed_val_at : forall s k h, hashed_val s k h -> hashed_at s k.
Proof. intros s k h (y & E & _ & H). exists y. auto. Qed.

Section WithNH.
Variable NH : bytes -> list entry -> bytes.
Variable rank : nat -> nat.

Notation Inv0 := (Inv0 NH).
Notation Fresh := (Fresh NH).
Notation FreshKids := (FreshKids NH).

Lemma hashed_val_fresh : forall s k h, Inv0 s -> hashed_val s k h -> Fresh s k h.
Proof.
  intros s k h I (y & E & C & H). destruct (I1 NH s I k y E H) as (h' & C' & F & _). congruence.
Qed.

(* wf and back-links only depend on the shape *)
Lemma Inv0_shape : forall s s', Inv0 s -> shape s s' ->
  (forall n x, nth_error s' n = Some x -> hashed x = true ->
     exists h, cached x = Some h /\ Fresh s' n h /\ forall nm k, In (nm, k) (kids x) -> hashed_at s' k) ->
  (forall n x es, nth_error s' n = Some x -> mcache x = Some es ->
     FreshKids s' (kids x) es /\ forall nm k, In (nm, k) (kids x) -> hashed_at s' k) ->
  (forall n x es, nth_error s' n = Some x -> ecache x = Some es ->
     FreshKids s' (kids x) es /\ forall nm k, In (nm, k) (kids x) -> hashed_at s' k) ->
  Inv0 s'.
Proof.
  intros s s' I Sh A B C. pose proof (F2_len _ _ _ Sh) as Len. split; auto.
  - intros n x' nm k E' Hin. destruct (F2_nth_r _ _ _ _ _ Sh E') as (x & E & (_ & _ & K & _)).
    rewrite <- Len. rewrite K in Hin. eapply I_wfk; eauto.
  - eapply wfp_shape; eauto. apply (I_wfp NH s I).
  - intros p x' c y' E' Ec'.
    destruct (F2_nth_r _ _ _ _ _ Sh E') as (x & E & (_ & _ & K & _)).
    destruct (F2_nth_r _ _ _ _ _ Sh Ec') as (y & Ec & (_ & _ & _ & P)).
    rewrite K, P. eapply I2; eauto.
Qed.

(* a local update of the cache fields of one node *)
Lemma Inv0_upd : forall s n x g, Inv0 s -> nth_error s n = Some x -> nshape x (g x) ->
  (hashed x = true -> hashed (g x) = true) ->
  (hashed (g x) = true ->
     exists h, cached (g x) = Some h /\ Fresh s n h /\ forall nm k, In (nm, k) (kids x) -> hashed_at s k) ->
  (forall es, mcache (g x) = Some es ->
     FreshKids s (kids x) es /\ forall nm k, In (nm, k) (kids x) -> hashed_at s k) ->
  (forall es, ecache (g x) = Some es ->
     FreshKids s (kids x) es /\ forall nm k, In (nm, k) (kids x) -> hashed_at s k) ->
  Inv0 (upd n g s).
Proof.
  intros s n x g I E Sg Hm H1 H3m H3e.
  assert (Sh : shape s (upd n g s)).
  { apply F2_upd; [apply nshape_refl|]. intros y Ey. assert (y = x) by congruence. subst. exact Sg. }
  assert (HA : forall k, hashed_at s k -> hashed_at (upd n g s) k).
  { intros k (y & Ey & Hy). destruct (Nat.eq_dec k n) as [->|Nk].
    - assert (y = x) by congruence. subst. exists (g x). rewrite nth_upd_same, E. simpl. auto.
    - exists y. rewrite nth_upd_other; auto. }
  destruct (Fresh_shape NH _ _ Sh) as [FS FKS].
  destruct Sg as (_ & _ & Kg & _).
  apply (Inv0_shape s _ I Sh).
  - intros m y Ey Hy. rewrite nth_upd in Ey. destruct (Nat.eqb_spec m n) as [->|Nm].
    + rewrite E in Ey. simpl in Ey. inversion Ey; subst. destruct (H1 Hy) as (h & C & F & K).
      exists h. split; auto. split; auto. rewrite Kg. intros nm k Hin. apply HA. eapply K; eauto.
    + destruct (I1 NH s I m y Ey Hy) as (h & C & F & K). exists h. split; auto. split; auto.
      intros nm k Hin. apply HA. eapply K; eauto.
  - intros m y es Ey My. rewrite nth_upd in Ey. destruct (Nat.eqb_spec m n) as [->|Nm].
    + rewrite E in Ey. simpl in Ey. inversion Ey; subst. destruct (H3m es My) as [F K].
      rewrite Kg. split; auto. intros nm k Hin. apply HA. eapply K; eauto.
    + destruct (I3m NH s I m y es Ey My) as [F K]. split; auto. intros nm k Hin. apply HA. eapply K; eauto.
  - intros m y es Ey My. rewrite nth_upd in Ey. destruct (Nat.eqb_spec m n) as [->|Nm].
    + rewrite E in Ey. simpl in Ey. inversion Ey; subst. destruct (H3e es My) as [F K].
      rewrite Kg. split; auto. intros nm k Hin. apply HA. eapply K; eauto.
    + destruct (I3e NH s I m y es Ey My) as [F K]. split; auto. intros nm k Hin. apply HA. eapply K; eauto.
Qed.

(* specification of a (recursive) hash reader *)
Definition good (rd : nat -> heap -> res (heap * bytes)) (bnd : nat -> Prop) (force : bool) : Prop :=
  forall k s, Inv0 s -> ranked rank s -> k < length s -> bnd k ->
  exists s' h, rd k s = Ok (s', h) /\ Inv0 s' /\ shape s s' /\ (force = false -> grows s s') /\
               hashed_val s' k h /\ (I4s s -> I4s s' /\ keepc s s').

Lemma fold_upd_ok : forall rd bnd force, good rd bnd force ->
  forall l s, Inv0 s -> ranked rank s -> (forall k, In k l -> k < length s /\ bnd k) ->
  exists s', fold_res (fun k t => r <- rd k t ;; Ok (fst r)) l s = Ok s' /\ Inv0 s' /\ shape s s' /\
             (force = false -> grows s s') /\ (I4s s -> I4s s' /\ keepc s s').
Proof.
  intros rd bnd force G. induction l as [|k l IH]; intros s I Rk Hl; simpl.
  - exists s. split; auto. split; auto. split; [apply shape_refl|]. split; [intros; apply grows_refl|].
    intro I4. split; auto. apply keepc_refl.
  - destruct (Hl k (or_introl eq_refl)) as [Lk Bk].
    destruct (G k s I Rk Lk Bk) as (s1 & h & E1 & I1' & Sh1 & G1 & _ & K1).
    rewrite E1. simpl.
    destruct (IH s1 I1' (shape_ranked _ _ _ Sh1 Rk)) as (s2 & E2 & I2' & Sh2 & G2 & K2).
    { intros k' Hk'. rewrite <- (F2_len _ _ _ Sh1). apply Hl. right. exact Hk'. }
    exists s2. split; auto. split; auto. split; [eapply shape_trans; eauto|]. split.
    + intro F. eapply grows_trans; eauto.
    + intro I4. destruct (K1 I4) as [I41 Kp1]. destruct (K2 I41) as [I42 Kp2]. split; auto.
      eapply keepc_trans; eauto.
Qed.

Lemma read_kids_ok : forall rd bnd, good rd bnd false ->
  forall ks s, Inv0 s -> ranked rank s -> (forall nm k, In (nm, k) ks -> k < length s /\ bnd k) ->
  exists s' es, read_kids rd ks s = Ok (s', es) /\ Inv0 s' /\ grows s s' /\ FreshKids s' ks es /\
                forall nm k, In (nm, k) ks -> hashed_at s' k.
Proof.
  intros rd bnd G. induction ks as [|[name k] ks IH]; intros s I Rk Hl; simpl.
  - exists s, []. split; auto. split; auto. split; [apply grows_refl|]. split; [constructor|]. intros nm k [].
  - destruct (Hl name k (or_introl eq_refl)) as [Lk Bk].
    destruct (G k s I Rk Lk Bk) as (s1 & h & E1 & I1' & Sh1 & G1 & HV1 & _).
    specialize (G1 eq_refl). rewrite E1. simpl.
    destruct HV1 as (kd & Ekd & Ckd & Hkd). unfold get. rewrite Ekd. simpl.
    destruct (IH s1 I1' (shape_ranked _ _ _ Sh1 Rk)) as (s2 & es & E2 & I2' & G2 & FK2 & HK2).
    { intros nm k' Hk'. rewrite <- (F2_len _ _ _ Sh1). eapply Hl. right. exact Hk'. }
    rewrite E2. simpl. exists s2, ((name, data kd, h) :: es). split; auto. split; auto.
    split; [eapply grows_trans; eauto|].
    assert (HV2 : hashed_val s2 k h) by (eapply hashed_val_grows; eauto; exists kd; auto).
    split.
    + destruct HV2 as (kd2 & Ekd2 & Ckd2 & Hkd2).
      destruct (F2_nth _ _ _ _ _ G2 Ekd) as (kd2' & Ekd2' & ((_ & D & _) & _)).
      assert (kd2' = kd2) by congruence. subst. rewrite <- D. constructor; auto.
      eapply hashed_val_fresh; eauto. exists kd2; auto.
    + intros nm k' [Eq|Hin]; [inversion Eq; subst; eapply hashed_val_at; eauto | eapply HK2; eauto].
Qed.

Lemma compute_ok : forall rd bnd, good rd bnd false ->
  forall n s x, Inv0 s -> ranked rank s -> nth_error s n = Some x ->
  (forall nm k, In (nm, k) (kids x) -> bnd k) ->
  exists s' h, compute NH rd n s = Ok (s', h) /\ Inv0 s' /\ grows s s' /\ Fresh s' n h /\
               forall nm k, In (nm, k) (kids x) -> hashed_at s' k.
Proof.
  intros rd bnd G n s x I Rk E Hb. unfold compute, get. rewrite E. simpl.
  assert (Hl : forall nm k, In (nm, k) (kids x) -> k < length s /\ bnd k).
  { intros nm k Hin. split; [eapply I_wfk; eauto | eapply Hb; eauto]. }
  destruct (read_kids_ok rd bnd G (kids x) s I Rk Hl) as (s1 & es & E1 & I1' & G1 & FK1 & HK1).
  destruct (F2_nth _ _ _ _ _ G1 E) as (x1 & Ex1 & ((Kd1 & D1 & K1 & P1) & C1 & Hc1)).
  assert (GEN : exists s' h, (r <- read_kids rd (kids x) s ;; Ok (fst r, NH (data x) (snd r))) = Ok (s', h) /\
            Inv0 s' /\ grows s s' /\ Fresh s' n h /\ forall nm k, In (nm, k) (kids x) -> hashed_at s' k).
  { rewrite E1. simpl. exists s1, (NH (data x) es). split; auto. split; auto. split; auto. split; auto.
    rewrite <- D1. econstructor; eauto. rewrite K1. exact FK1. }
  destruct (kind x) eqn:Kx; try exact GEN.
  destruct (mcache x) as [mes|] eqn:Mx.
  - destruct (I3m NH s I n x mes E Mx) as [F K].
    exists s, (NH (data x) mes). split; auto. split; auto. split; [apply grows_refl|]. split; auto.
    econstructor; eauto.
  - rewrite E1. simpl. exists (upd n (set_mcache (Some es)) s1), (NH (data x) es).
    assert (Sg : nshape x1 (set_mcache (Some es) x1)) by (unfold nshape; simpl; auto).
    assert (I1'' : Inv0 (upd n (set_mcache (Some es)) s1)).
    { apply (Inv0_upd s1 n x1); auto.
      - intro Hx. destruct (I1 NH s1 I1' n x1 Ex1 Hx) as (h & C & F & K). exists h. auto.
      - simpl. intros es' Ees. inversion Ees; subst. rewrite K1. auto.
      - simpl. intros es' Ees. eapply I3e; eauto. }
    assert (G2 : grows s1 (upd n (set_mcache (Some es)) s1)).
    { apply F2_upd; [apply ngrow_refl|]. intros y Ey. split; auto. unfold nshape; simpl; auto. }
    assert (Sh2 : shape s1 (upd n (set_mcache (Some es)) s1)) by (apply grows_shape; auto).
    split; auto. split; auto. split; [eapply grows_trans; eauto|]. split.
    + apply (proj1 (Fresh_shape NH _ _ Sh2)). rewrite <- D1. econstructor; eauto. rewrite K1. exact FK1.
    + intros nm k Hin. eapply hashed_at_grows; eauto.
Qed.

Lemma update_hash_ok : forall fuel force,
  good (update_hash NH false fuel force) (fun k => rank k < fuel) force.
Proof.
  induction fuel as [|f IH]; intros force n s I Rk L B; [lia|].
  destruct (get_lt s n L) as [x E]. simpl. unfold get. rewrite E. simpl.
  assert (RET : forall h, cached x = Some h ->
     exists s' h0, Ok (s, h) = Ok (s', h0) /\ Inv0 s' /\ shape s s' /\ (false = false -> grows s s') /\
       hashed_val s' n h0 /\ (I4s s -> I4s s' /\ keepc s s')).
  { intros h C. exists s, h. split; auto. split; auto. split; [apply shape_refl|].
    split; [intros; apply grows_refl|]. split.
    - exists x. split; auto. split; auto. unfold hashed. rewrite C. reflexivity.
    - intro I4. split; auto. apply keepc_refl. }
  assert (KB : forall nm k, In (nm, k) (kids x) -> rank k < f).
  { intros nm k Hin. destruct Rk as [R1 _]. assert (rank k < rank n) by (apply R1; exists x, nm; auto). lia. }
  (* the recomputation, from a state s1 reached by (maybe) invalidating n *)
  assert (REC : forall s1, Inv0 s1 -> shape s s1 -> (force = false -> grows s s1 /\ hashed x = false) ->
     (I4s s -> I4s s1 /\ keepc s s1 /\ (force = true -> cleared s1 n)) ->
     exists s' h,
       (s2 <- fold_res (fun k t => r <- update_hash NH false f force k t ;; Ok (fst r)) (map snd (kids x)) s1 ;;
        r <- compute NH (update_hash NH false f false) n s2 ;;
        Ok (upd n (set_cached (store false (snd r))) (fst r), snd r)) = Ok (s', h) /\
       Inv0 s' /\ shape s s' /\ (force = false -> grows s s') /\ hashed_val s' n h /\
       (I4s s -> I4s s' /\ keepc s s')).
  { intros s1 I1' Sh1 G1 K1.
    pose proof (shape_ranked _ _ _ Sh1 Rk) as Rk1.
    destruct (fold_upd_ok _ _ force (IH force) (map snd (kids x)) s1 I1' Rk1) as (s2 & E2 & I2' & Sh2 & G2 & K2).
    { intros k Hk. apply in_map_iff in Hk. destruct Hk as ([nm k'] & Ek & Hin). simpl in Ek. subst k'.
      split; [|eapply KB; eauto]. rewrite <- (F2_len _ _ _ Sh1). eapply I_wfk; eauto. }
    rewrite E2. simpl.
    pose proof (shape_trans _ _ _ Sh1 Sh2) as Sh02.
    destruct (F2_nth _ _ _ _ _ Sh02 E) as (x2 & Ex2 & (Kd2 & D2 & Ks2 & P2)).
    destruct (compute_ok _ _ (IH false) n s2 x2 I2' (shape_ranked _ _ _ Sh2 Rk1) Ex2) as (s3 & h & E3 & I3' & G3 & F3 & HK3).
    { rewrite Ks2. exact KB. }
    rewrite E3. simpl.
    pose proof (grows_shape _ _ G3) as Sh3.
    destruct (F2_nth _ _ _ _ _ G3 Ex2) as (x3 & Ex3 & ((Kd3 & D3 & Ks3 & P3) & C3 & Hc3)).
    set (s4 := upd n (set_cached (Some h)) s3).
    assert (Hh : hashed (set_cached (Some h) x3) = true).
    { unfold hashed; simpl. reflexivity. }
    assert (Sg : nshape x3 (set_cached (Some h) x3)) by (unfold nshape; simpl; auto).
    assert (I4' : Inv0 s4).
    { apply (Inv0_upd s3 n x3); auto.
      - intros _. exists h. simpl. split; auto. split; auto. rewrite Ks3. exact HK3.
      - simpl. intros es Ees. eapply I3m; eauto.
      - simpl. intros es Ees. eapply I3e; eauto. }
    assert (Sh4 : shape s3 s4).
    { apply F2_upd; [apply nshape_refl|]. intros y Ey. assert (y = x3) by congruence. subst. exact Sg. }
    exists s4, h. split; auto. split; auto.
    split; [eapply shape_trans; [exact Sh02|]; eapply shape_trans; eauto|].
    split; [|split].
    - intro Fz. destruct (G1 Fz) as [G01 Hx]. specialize (G2 Fz).
      assert (G03 : grows s s3) by (eapply grows_trans; [exact G01|]; eapply grows_trans; eauto).
      apply F2_upd_r; auto. intros y y3 Ey Ey3 (Sy & Cy & Hy). assert (y = x) by congruence. subst.
      split; [|split].
      + eapply nshape_trans; eauto. unfold nshape; simpl; auto.
      + simpl. exact Cy.
      + intro Hx'. congruence.
    - exists (set_cached (Some h) x3). unfold s4. rewrite nth_upd_same, Ex3. simpl. auto.
    - intro I4. destruct (K1 I4) as (I41 & Kp1 & Cl1). destruct (K2 I41) as (I42 & Kp2).
      destruct (grows_keep _ _ I42 G3) as (I43 & Kp3).
      assert (Kp03 : keepc s s3) by (eapply keepc_trans; [exact Kp1|]; eapply keepc_trans; eauto).
      assert (Cx3 : collected x3 = false).
      { destruct force.
        - destruct (Cl1 eq_refl) as (y1 & Ey1 & Hy1 & _).
          assert (Kp13 : keepc s1 s3) by (eapply keepc_trans; eauto).
          destruct (F2_nth _ _ _ _ _ Kp13 Ey1) as (y3 & Ey3 & (_ & Ky)).
          assert (y3 = x3) by congruence. subst.
          destruct (collected x3) eqn:Cx; auto. destruct (Ky eq_refl) as [Cy1 _].
          pose proof (I41 n y1 Ey1 Cy1). congruence.
        - destruct (G1 eq_refl) as [_ Hx].
          destruct (F2_nth _ _ _ _ _ Kp03 E) as (y3 & Ey3 & (_ & Ky)).
          assert (y3 = x3) by congruence. subst.
          destruct (collected x3) eqn:Cx; auto. destruct (Ky eq_refl) as [Cy1 _].
          pose proof (I4 n x E Cy1). congruence. }
      split.
      + intros m y Ey Cy. unfold s4 in Ey. rewrite nth_upd in Ey. destruct (Nat.eqb_spec m n) as [->|Nm].
        * rewrite Ex3 in Ey. simpl in Ey. inversion Ey; subst. exact Hh.
        * eapply I43; eauto.
      + apply F2_upd_r; auto. intros y y3 Ey Ey3 (Sy & Ky). assert (y3 = x3) by congruence. subst.
        split; [eapply nshape_trans; eauto|]. simpl. intro Cy. congruence. }
  assert (NOFORCE : force = false -> hashed x = false ->
     exists s' h,
       (s1 <- (if force then inval n s else Ok s) ;;
        s2 <- fold_res (fun k t => r <- update_hash NH false f force k t ;; Ok (fst r)) (map snd (kids x)) s1 ;;
        r <- compute NH (update_hash NH false f false) n s2 ;;
        Ok (upd n (set_cached (store false (snd r))) (fst r), snd r)) = Ok (s', h) /\
       Inv0 s' /\ shape s s' /\ (force = false -> grows s s') /\ hashed_val s' n h /\
       (I4s s -> I4s s' /\ keepc s s')).
  { intros Fz Hx. subst force. simpl. apply (REC s); auto.
    - apply shape_refl.
    - intros _. split; auto. apply grows_refl.
    - intro I4. split; auto. split; [apply keepc_refl|]. discriminate. }
  assert (FORCE : force = true ->
     exists s' h,
       (s1 <- (if force then inval n s else Ok s) ;;
        s2 <- fold_res (fun k t => r <- update_hash NH false f force k t ;; Ok (fst r)) (map snd (kids x)) s1 ;;
        r <- compute NH (update_hash NH false f false) n s2 ;;
        Ok (upd n (set_cached (store false (snd r))) (fst r), snd r)) = Ok (s', h) /\
       Inv0 s' /\ shape s s' /\ (force = false -> grows s s') /\ hashed_val s' n h /\
       (I4s s -> I4s s' /\ keepc s s')).
  { intro Ft. destruct (inval_ok n s (I_wfp NH s I) L) as (s1 & E1 & RR1 & C1).
    rewrite Ft in *. rewrite E1. simpl. apply (REC s1).
    - eapply Inv0_RR; eauto.
    - apply R_shape. apply RR1.
    - discriminate.
    - intro I4. split; [eapply I4s_R; eauto; apply RR1|]. split; [apply R_keepc; apply RR1|]. auto. }
  destruct (cached x) as [h|] eqn:Cx; destruct force; auto;
    try (apply NOFORCE; auto; unfold hashed; rewrite Cx; reflexivity).
Qed.

End WithNH.

Section Top.
Variable NH : bytes -> list entry -> bytes.
Variable rank : nat -> nat.
Notation Inv0 := (Inv0 NH).

Lemma read_hash_good : good NH rank (read_hash NH false) (fun _ => True) false.
Proof.
  intros k s I Rk L _. unfold read_hash.
  apply (update_hash_ok NH rank (S (length s)) false k s I Rk L).
  destruct Rk as [_ B]. specialize (B k). lia.
Qed.

Lemma force_hash_good : good NH rank (force_hash NH false) (fun _ => True) true.
Proof.
  intros k s I Rk L _. unfold force_hash.
  apply (update_hash_ok NH rank (S (length s)) true k s I Rk L).
  destruct Rk as [_ B]. specialize (B k). lia.
Qed.

Lemma entries_ok : forall n s, Inv0 s -> ranked rank s -> n < length s ->
  (exists e, entries NH false n s = Err e /\ e <> EFuel /\ e <> EHandle) \/
  exists s' es x, entries NH false n s = Ok (s', es) /\ Inv0 s' /\ grows s s' /\
    nth_error s n = Some x /\ FreshKids NH s' (kids x) es.
Proof.
  intros n s I Rk L. destruct (get_lt s n L) as [x E]. unfold entries, get. rewrite E. simpl.
  destruct (kind x) eqn:Kx; try (left; eexists; split; [reflexivity|split; discriminate]).
  right. destruct (ecache x) as [ces|] eqn:Cx.
  - destruct (I3e NH s I n x ces E Cx) as [F K]. exists s, ces, x. split; auto. split; auto. split; [apply grows_refl|]. auto.
  - assert (Hl : forall nm k, In (nm, k) (kids x) -> k < length s /\ True).
    { intros nm k Hin. split; auto. eapply I_wfk; eauto. }
    destruct (read_kids_ok NH rank _ _ read_hash_good (kids x) s I Rk Hl) as (s1 & es & E1 & I1' & G1 & FK1 & HK1).
    rewrite E1. simpl.
    destruct (F2_nth _ _ _ _ _ G1 E) as (x1 & Ex1 & ((Kd1 & D1 & K1 & P1) & C1 & Hc1)).
    assert (G2 : grows s1 (upd n (set_ecache (Some es)) s1)).
    { apply F2_upd; [apply ngrow_refl|]. intros y Ey. split; auto. unfold nshape; simpl; auto. }
    exists (upd n (set_ecache (Some es)) s1), es, x. split; auto. split; [|split; [eapply grows_trans; eauto|split; auto]].
    + apply (Inv0_upd NH s1 n x1); auto.
      * unfold nshape; simpl; auto.
      * intro Hx. destruct (I1 NH s1 I1' n x1 Ex1 Hx) as (h & C & F & K). exists h. auto.
      * simpl. intros es' Ees. eapply I3m; eauto.
      * simpl. intros es' Ees. inversion Ees; subst. rewrite K1. auto.
    + apply (proj2 (Fresh_shape NH _ _ (grows_shape _ _ G2))). exact FK1.
Qed.

Lemma to_model_ok : forall n s, Inv0 s -> ranked rank s -> n < length s ->
  (exists e, to_model NH false n s = Err e /\ e <> EFuel /\ e <> EHandle) \/
  exists s' es x, to_model NH false n s = Ok (s', es) /\ Inv0 s' /\ grows s s' /\
    nth_error s n = Some x /\ FreshKids NH s' (kids x) es.
Proof.
  intros n s I Rk L. destruct (get_lt s n L) as [x E]. unfold to_model, get. rewrite E. simpl.
  destruct (kind x) eqn:Kx; try (left; eexists; split; [reflexivity|split; discriminate]).
  right. destruct (mcache x) as [ces|] eqn:Cx.
  - destruct (I3m NH s I n x ces E Cx) as [F K]. exists s, ces, x. split; auto. split; auto. split; [apply grows_refl|]. auto.
  - assert (Hl : forall nm k, In (nm, k) (kids x) -> k < length s /\ True).
    { intros nm k Hin. split; auto. eapply I_wfk; eauto. }
    destruct (read_kids_ok NH rank _ _ read_hash_good (kids x) s I Rk Hl) as (s1 & es & E1 & I1' & G1 & FK1 & HK1).
    rewrite E1. simpl.
    destruct (F2_nth _ _ _ _ _ G1 E) as (x1 & Ex1 & ((Kd1 & D1 & K1 & P1) & C1 & Hc1)).
    assert (G2 : grows s1 (upd n (set_mcache (Some es)) s1)).
    { apply F2_upd; [apply ngrow_refl|]. intros y Ey. split; auto. unfold nshape; simpl; auto. }
    exists (upd n (set_mcache (Some es)) s1), es, x. split; auto. split; [|split; [eapply grows_trans; eauto|split; auto]].
    + apply (Inv0_upd NH s1 n x1); auto.
      * unfold nshape; simpl; auto.
      * intro Hx. destruct (I1 NH s1 I1' n x1 Ex1 Hx) as (h & C & F & K). exists h. auto.
      * simpl. intros es' Ees. inversion Ees; subst. rewrite K1. auto.
      * simpl. intros es' Ees. eapply I3e; eauto.
    + apply (proj2 (Fresh_shape NH _ _ (grows_shape _ _ G2))). exact FK1.
Qed.

End Top.
