(* Examples moved out of model/Meta.v so that the model (and its extraction) still builds when a
   regenerated table makes one of them false; they are part of the proof cone of the properties. *)
From Coq Require Import List NArith ZArith Bool.
From SWH.lib Require Import Bytes Dec Hex GitHeader Headers CutLast.
From SWH Require Import Generated.
Import ListNotations.
Open Scope N_scope.
From SWH.model Require Import Meta.

Example ex_swhid_text :
  print_core {| cs_ty := CDir; cs_id := [1; 255] |} = bs "swh:1:dir:01ff".
Proof. vm_compute. reflexivity. Qed.

Example ex_normalize_before_epoch :
  normalize_date {| dt_us := (-1)%Z; dt_off := 19800000000%Z |} = {| dt_us := (-1000000)%Z; dt_off := 0%Z |}.
Proof. vm_compute. reflexivity. Qed.

Example ex_extid_manifest :
  extid_git_object {| x_type := bs "hg-nodeid"; x_extid := [97; 10; 98]; x_target := {| cs_ty := CRev; cs_id := [0] |};
                      x_version := 1%Z; x_payload_type := None; x_payload := None |}
  = Ok (bs "extid 68" ++ [0] ++ bs "extid_type hg-nodeid" ++ [10] ++ bs "extid_version 1" ++ [10]
        ++ bs "extid a" ++ [10; 32] ++ bs "b" ++ [10] ++ bs "target swh:1:rev:00" ++ [10]).
Proof. vm_compute. reflexivity. Qed.
