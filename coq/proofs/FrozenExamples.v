(* Examples moved out of model/Frozen.v so that the model (and its extraction) still builds when a
   regenerated table makes one of them false; they are part of the proof cone of the properties. *)
From Coq Require Import List NArith Bool Arith.
From SWH.lib Require Import Bytes Order StableSort.
From SWH Require Import Generated.
Import ListNotations.
From SWH.model Require Import Frozen.

Example ex_new_unchanged :
  match run_script ex_Hid ex_Hpy New 5%nat Ctor (bs "Snapshot") ex_store ex_args ex_muts [] with
  | Ok (o0, [(None, o1)], _, _) =>
      match o0, o1 with (r0, _, _, _, ok0), (r1, _, _, _, ok1) =>
        (r0, ok0, r1, ok1) =
        (RObj (bs "Snapshot") [RMap false [(Ak "k1", RAtom (Ak "v1"))]; RAtom [1%N; 1%N]], true,
         RObj (bs "Snapshot") [RMap false [(Ak "k1", RAtom (Ak "v1"))]; RAtom [1%N; 1%N]], true)
      end
  | _ => False
  end.
Proof. vm_compute. reflexivity. Qed.

Example ex_old_changed :
  match run_script ex_Hid ex_Hpy Old 5%nat Ctor (bs "Snapshot") ex_store ex_args ex_muts [] with
  | Ok (o0, [(None, o1)], _, _) =>
      match o0, o1 with (r0, _, _, _, ok0), (r1, _, _, _, ok1) =>
        (r0, ok0, r1, ok1) =
        (RObj (bs "Snapshot") [RMap false [(Ak "k1", RAtom (Ak "v1"))]; RAtom [1%N; 1%N]], true,
         RObj (bs "Snapshot") [RMap false [(Ak "k1", RAtom (Ak "v1")); (Ak "k2", RAtom (Ak "v2"))]; RAtom [1%N; 1%N]], false)
      end
  | _ => False
  end.
Proof. vm_compute. reflexivity. Qed.
