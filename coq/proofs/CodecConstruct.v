(* Proofs about model/Codec.v (property C12), part 4: what the constructor
   builds is well formed (a fixed point of itself), and the legacy
   extra-headers encoding at the level of dictionaries. *)
From Coq Require Import List NArith ZArith Bool Lia.
From SWH.lib Require Import Bytes Dec Hex.
From SWH Require Import Generated.
From SWH.model Require Import Codec.
From SWH.proofs Require Import CodecProofs CodecRoundtrip CodecLegacy.
Import ListNotations.

(* ------------------------------------------------------------------ attribute lists *)
Lemma fget_fset_ne : forall k k' v fs, beqb k k' = false -> fget k (fset k' v fs) = fget k fs.
Proof.
  intros k k' v fs H. induction fs as [|[n x] r IH]; [reflexivity|]. simpl.
  destruct (beqb k' n) eqn:E; simpl.
  - apply beqb_eq in E. subst n. rewrite H. reflexivity.
  - rewrite IH. reflexivity.
Qed.

Lemma fget_fset_eq : forall k v fs, mem_bytes k (map fst fs) = true -> fget k (fset k v fs) = v.
Proof.
  intros k v fs. induction fs as [|[n x] r IH]; simpl; intro H; [discriminate|].
  destruct (beqb k n) eqn:E; simpl; rewrite E; [reflexivity | apply IH; exact H].
Qed.

Lemma map_fst_fset : forall k v fs, map fst (fset k v fs) = map fst fs.
Proof.
  intros k v fs. induction fs as [|[n x] r IH]; [reflexivity|]. simpl.
  destruct (beqb k n); simpl; [reflexivity | rewrite IH; reflexivity].
Qed.

Lemma fset_fset_same : forall k v v' fs, fset k v (fset k v' fs) = fset k v fs.
Proof.
  intros k v v' fs. induction fs as [|[n x] r IH]; [reflexivity|]. simpl.
  destruct (beqb k n) eqn:E; simpl; rewrite E; [reflexivity | rewrite IH; reflexivity].
Qed.

Lemma fset_comm : forall k k' v v' fs, beqb k k' = false ->
  fset k v (fset k' v' fs) = fset k' v' (fset k v fs).
Proof.
  intros k k' v v' fs H. induction fs as [|[n x] r IH]; [reflexivity|]. simpl.
  destruct (beqb k' n) eqn:E'; destruct (beqb k n) eqn:E; simpl; rewrite ?E, ?E'; try reflexivity.
  - apply beqb_eq in E. apply beqb_eq in E'. subst. rewrite beqb_refl in H. discriminate.
  - rewrite IH. reflexivity.
Qed.

Lemma fset_get_same : forall k fs, fset k (fget k fs) fs = fs.
Proof.
  intros k fs. induction fs as [|[n x] r IH]; [reflexivity|]. simpl.
  destruct (beqb k n); [reflexivity | rewrite IH; reflexivity].
Qed.

Lemma fdel_fset : forall k v fs, fdel k (fset k v fs) = fdel k fs.
Proof.
  intros k v fs. unfold fdel. induction fs as [|[n x] r IH]; [reflexivity|]. simpl.
  destruct (beqb k n) eqn:E; simpl; rewrite E; simpl; [reflexivity | rewrite IH; reflexivity].
Qed.

(* a field-wise property of an attribute list aligned with its schema survives fset *)
Lemma Forall2_fset : forall (P : field -> text * pyval -> Prop) k v s fs,
  Forall2 P s fs -> map fst fs = map fname s ->
  (forall f, In f s -> fname f = k -> P f (k, v)) ->
  Forall2 P s (fset k v fs).
Proof.
  intros P k v s fs H. induction H as [|f [n x] s fs Hp Hr IH]; intros Hn Hk; [constructor|].
  simpl in Hn. injection Hn as Hn1 Hn2. simpl. destruct (beqb k n) eqn:E.
  - apply beqb_eq in E. constructor; [|exact Hr]. rewrite <- E. apply Hk; [left; reflexivity | congruence].
  - constructor; [exact Hp|]. apply IH; [exact Hn2|]. intros f0 Hf0. apply Hk. right. exact Hf0.
Qed.

Lemma Forall_fset : forall (P : text * pyval -> Prop) k v fs,
  Forall P fs -> P (k, v) -> Forall P (fset k v fs).
Proof.
  intros P k v fs H Hv. induction H as [|[n x] r Hp Hr IH]; [constructor|]. simpl.
  destruct (beqb k n) eqn:E.
  - apply beqb_eq in E. subst n. constructor; assumption.
  - constructor; assumption.
Qed.

(* typecheck as a field-wise property *)
Definition type_ok (f : field) (nv : text * pyval) : Prop :=
  fgeneric f = true -> has_type (fty f) (snd nv) = true.

Lemma typecheck_Forall2 : forall s fs, length fs = length s ->
  (typecheck s fs = true <-> Forall2 type_ok s fs).
Proof.
  induction s as [|f s IH]; intros fs L.
  - destruct fs; [|discriminate]. split; [constructor | reflexivity].
  - destruct fs as [|[n v] fs]; [discriminate|]. simpl in L. injection L as L. simpl. split.
    + intro H. apply andb_true_iff in H. destruct H as [H1 H2]. constructor.
      * unfold type_ok. simpl. intro G. rewrite G in H1. exact H1.
      * apply IH; assumption.
    + intro H. inversion H as [|? ? ? ? Hp Hr]; subst. apply andb_true_iff. split.
      * unfold type_ok in Hp. simpl in Hp. destruct (fgeneric f); [apply Hp; reflexivity | reflexivity].
      * apply IH; assumption.
Qed.

Lemma aligned_length : forall (s : list field) (fs : fields), map fst fs = map fname s -> length fs = length s.
Proof. intros s fs H. rewrite <- (map_length fst), H, map_length. reflexivity. Qed.

(* the custom validators do not read these attributes *)
Lemma custom_fset_id : forall c v fs, custom c (fset k_id v fs) = custom c fs.
Proof. intros c v fs. unfold custom. destruct c; rewrite ?fget_fset_ne by reflexivity; reflexivity. Qed.

Lemma custom_fset_metadata : forall v fs, custom cRevision (fset k_metadata v fs) = custom cRevision fs.
Proof. intros v fs. unfold custom. rewrite ?fget_fset_ne by reflexivity. reflexivity. Qed.

Lemma custom_fset_extra_headers : forall v fs, custom cRevision (fset k_extra_headers v fs) = custom cRevision fs.
Proof. intros v fs. unfold custom. rewrite ?fget_fset_ne by reflexivity. reflexivity. Qed.

(* validate after fset of an attribute the custom validators ignore *)
Lemma validate_fset : forall c k v fs, map fst fs = names c ->
  custom c (fset k v fs) = custom c fs ->
  (forall f, In f (schema c) -> fname f = k -> fgeneric f = true -> has_type (fty f) v = true) ->
  validate c fs = true -> validate c (fset k v fs) = true.
Proof.
  intros c k v fs Hn Hc Hty H. unfold validate in *. apply andb_true_iff in H. destruct H as [H1 H2].
  rewrite Hc, H2, andb_true_r.
  apply typecheck_Forall2; [rewrite <- (map_length fst), map_fst_fset, map_length; apply aligned_length; exact Hn|].
  apply Forall2_fset; [apply typecheck_Forall2; [apply aligned_length; exact Hn | exact H1] | exact Hn |].
  intros f Hf Hk G. simpl. apply Hty; assumption.
Qed.

(* the converse direction for one attribute: only its own type check can differ *)
Lemma validate_fset_back : forall c k v v' fs, map fst fs = names c ->
  (forall x, custom c (fset k x fs) = custom c fs) ->
  (forall f, In f (schema c) -> fname f = k -> fgeneric f = true -> has_type (fty f) v' = true) ->
  validate c (fset k v fs) = true -> validate c (fset k v' fs) = true.
Proof.
  intros c k v v' fs Hn Hc Hty H. rewrite <- (fset_fset_same k v' v fs).
  apply validate_fset; [rewrite map_fst_fset; exact Hn | | exact Hty | exact H].
  rewrite fset_fset_same, !Hc. reflexivity.
Qed.

(* ------------------------------------------------------------------ converters are idempotent *)
Lemma rmap_idem : forall {A} (f : A -> result A) l l',
  (forall x y, f x = Ok y -> f y = Ok y) -> rmap f l = Ok l' -> rmap f l' = Ok l'.
Proof.
  intros A f l. induction l as [|x r IH]; intros l' Hf H; simpl in H.
  - injection H as <-. reflexivity.
  - destruct (f x) as [y|e] eqn:E; [|discriminate]. destruct (rmap f r) as [ys|e] eqn:Er; [|discriminate].
    injection H as <-. simpl. rewrite (Hf x y E). rewrite (IH ys Hf eq_refl). reflexivity.
Qed.

Lemma pair_of_idem : forall x y, pair_of x = Ok y -> pair_of y = Ok y.
Proof.
  intros x y H. destruct x; simpl in H; try discriminate;
    repeat (match type of H with
            | match ?l with _ => _ end = _ => destruct l; try discriminate
            end);
    injection H as <-; reflexivity.
Qed.

Lemma tuplify_idem : forall v v', tuplify_extra_headers v = Ok v' -> tuplify_extra_headers v' = Ok v'.
Proof.
  intros v v' H. unfold tuplify_extra_headers in H.
  assert (G : forall L, rbind (rmap pair_of L) (fun l' => Ok (VTuple l')) = Ok v' -> tuplify_extra_headers v' = Ok v').
  { intros L HL. destruct (rmap pair_of L) as [l'|e] eqn:E; [|discriminate]. simpl in HL. injection HL as <-.
    simpl. rewrite (rmap_idem pair_of L l' pair_of_idem E). reflexivity. }
  destruct v; try discriminate; eapply G; exact H.
Qed.

Lemma conv_idem : forall c v v', apply_conv c v = Ok v' -> apply_conv c v' = Ok v'.
Proof.
  intros c v v' H. destruct c; simpl in *.
  - injection H as <-. reflexivity.
  - destruct v; injection H as <-; reflexivity.
  - apply tuplify_idem with v. exact H.
  - destruct v; try discriminate; try (injection H as <-; reflexivity).
    + destruct (parse_dec_Z b); [injection H as <-; reflexivity | discriminate].
    + destruct (parse_dec_Z s); [injection H as <-; reflexivity | discriminate].
  - destruct v; try discriminate. injection H as <-. f_equal. f_equal.
    assert (E : ((us - us mod 1000000) mod 1000000 = 0)%Z).
    { rewrite (Z.div_mod us 1000000) at 1 by lia.
      replace (1000000 * (us / 1000000) + us mod 1000000 - us mod 1000000)%Z with ((us / 1000000) * 1000000)%Z by lia.
      apply Z_mod_mult. }
    rewrite E. lia.
Qed.

Definition conv_fixed (f : field) (nv : text * pyval) : Prop := apply_conv (fconv f) (snd nv) = Ok (snd nv).

Lemma convert_spec : forall s fs0 fs1, convert s fs0 = Ok fs1 -> map fst fs0 = map fname s ->
  map fst fs1 = map fname s /\ Forall2 conv_fixed s fs1.
Proof.
  induction s as [|f s IH]; intros fs0 fs1 H Hn.
  - destruct fs0; [|discriminate]. simpl in H. injection H as <-. split; [reflexivity | constructor].
  - destruct fs0 as [|[n v] fs0]; [discriminate|]. simpl in Hn. injection Hn as Hn1 Hn2. simpl in H.
    destruct (apply_conv (fconv f) v) as [v'|e] eqn:E; [|discriminate].
    destruct (convert s fs0) as [r|e] eqn:Er; [|discriminate]. injection H as <-.
    destruct (IH fs0 r Er Hn2) as [I1 I2]. split.
    + simpl. rewrite Hn1, I1. reflexivity.
    + constructor; [|exact I2]. unfold conv_fixed. simpl. apply conv_idem with v. exact E.
Qed.

Lemma convert_fixed : forall s fs, Forall2 conv_fixed s fs -> convert s fs = Ok fs.
Proof.
  intros s fs H. induction H as [|f [n v] s fs Hp Hr IH]; [reflexivity|]. simpl.
  unfold conv_fixed in Hp. simpl in Hp. rewrite Hp, IH. reflexivity.
Qed.

Lemma bind_args_names : forall s kw fs0, bind_args s kw = Ok fs0 -> map fst fs0 = map fname s.
Proof.
  intros s kw fs0 H. unfold bind_args in H. destruct (keys_known s kw); [|discriminate].
  revert fs0 H. induction s as [|f s IH]; intros fs0 H; simpl in H.
  - injection H as <-. reflexivity.
  - destruct (bind_field kw f) as [nv|e] eqn:E; [|discriminate].
    destruct (rmap (bind_field kw) s) as [r|e] eqn:Er; [|discriminate]. injection H as <-.
    simpl. rewrite (IH r eq_refl). f_equal. unfold bind_field in E.
    destruct (dget (fname f) kw); [injection E as <-; reflexivity|].
    destruct (fdefault f); [injection E as <-; reflexivity | discriminate].
Qed.

(* the value of a generically validated attribute has its type *)
Lemma typecheck_fget : forall s fs f, map fst fs = map fname s -> bytes_nodup (map fname s) = true ->
  typecheck s fs = true -> In f s -> fgeneric f = true -> has_type (fty f) (fget (fname f) fs) = true.
Proof.
  induction s as [|g s IH]; intros fs f Hn Hnd Ht Hin Hg; [contradiction|].
  destruct fs as [|[n v] fs]; [discriminate|]. simpl in Hn. injection Hn as Hn1 Hn2. subst n.
  simpl in Hnd. apply andb_true_iff in Hnd. destruct Hnd as [Hg1 Hg2].
  simpl in Ht. apply andb_true_iff in Ht. destruct Ht as [Ht1 Ht2]. simpl.
  destruct Hin as [->|Hin].
  - rewrite beqb_refl. rewrite Hg in Ht1. exact Ht1.
  - destruct (beqb (fname f) (fname g)) eqn:E.
    + apply beqb_eq in E. exfalso. apply negb_true_iff in Hg1.
      assert (mem_bytes (fname g) (map fname s) = true) as Hm.
      { apply mem_bytes_In. rewrite <- E. apply in_map. exact Hin. } congruence.
    + apply IH; assumption.
Qed.

(* in every class the id attribute is declared as bytes *)
Lemma id_field_bytes : forall c f, In f (schema c) -> fname f = k_id -> fty f = TBytes.
Proof.
  intros c f Hin Hk.
  assert (B : forallb (fun f => if beqb (fname f) k_id then match fty f with TBytes => true | _ => false end else true)
                      (schema c) = true) by (destruct c; vm_compute; reflexivity).
  rewrite forallb_forall in B. specialize (B f Hin). rewrite Hk, beqb_refl in B.
  destruct (fty f); try discriminate. reflexivity.
Qed.

Lemma id_in_names : forall c, hashable c = true -> mem_bytes k_id (names c) = true.
Proof. intros c H. destruct c; try discriminate; vm_compute; reflexivity. Qed.

(* ------------------------------------------------------------------ __attrs_post_init__ *)
Definition idf_migration_invariant (idf : cls -> fields -> result bytes) : Prop :=
  forall fs md eh eh', fget k_metadata fs = VIDict md -> truthy (fget k_extra_headers fs) = false ->
    dget k_extra_headers md = Some eh -> tuplify_extra_headers eh = Ok eh' ->
    idf cRevision (fdel k_id (fset k_metadata (VIDict (ddel k_extra_headers md)) (fset k_extra_headers eh' fs)))
    = idf cRevision (fdel k_id fs).

Section PostInit.
  Variable idf : cls -> fields -> result bytes.
  Hypothesis idf_inv : idf_migration_invariant idf.

  Lemma fill_id_spec : forall c fs fs', fill_id idf c fs = Ok fs' ->
    (hashable c = false /\ fs' = fs) \/
    (hashable c = true /\ truthy (fget k_id fs) = true /\ fs' = fs) \/
    (hashable c = true /\ truthy (fget k_id fs) = false /\
     exists i, idf c (fdel k_id fs) = Ok i /\ fs' = fset k_id (VBytes i) fs).
  Proof.
    intros c fs fs' H. unfold fill_id in H. destruct (hashable c); [|left; injection H as <-; auto].
    right. destruct (truthy (fget k_id fs)); [left; injection H as <-; auto|].
    right. destruct (idf c (fdel k_id fs)) as [i|e]; [|discriminate]. simpl in H. injection H as <-.
    split; [reflexivity|]. split; [reflexivity|]. exists i. auto.
  Qed.

  Lemma migrate_spec : forall fs fs', migrate_extra_headers fs = Ok fs' ->
    fs' = fs \/
    exists md eh eh', fget k_metadata fs = VIDict md /\ md <> [] /\ truthy (fget k_extra_headers fs) = false /\
      dget k_extra_headers md = Some eh /\ tuplify_extra_headers eh = Ok eh' /\
      validate cRevision (fset k_extra_headers eh' fs) = true /\
      fs' = fset k_metadata (VIDict (ddel k_extra_headers md)) (fset k_extra_headers eh' fs).
  Proof.
    intros fs fs' H. unfold migrate_extra_headers in H.
    destruct (fget k_metadata fs) eqn:Em; try (left; injection H as <-; reflexivity).
    destruct l as [|kv l]; [left; injection H as <-; reflexivity|].
    destruct (truthy (fget k_extra_headers fs)) eqn:Et; [left; injection H as <-; reflexivity|]. cbn [negb] in H.
    destruct (dget k_extra_headers (kv :: l)) as [eh|] eqn:Ed; [|left; injection H as <-; reflexivity].
    destruct (tuplify_extra_headers eh) as [eh'|e] eqn:Eh; [|discriminate]. cbn [rbind] in H.
    destruct (validate cRevision (fset k_extra_headers eh' fs)) eqn:Ev; [|discriminate].
    injection H as <-. right. exists (kv :: l), eh, eh'. repeat split; auto. discriminate.
  Qed.

  (* the migrated attribute list is stable *)
  Lemma migrate_fixed : forall fs md eh', map fst fs = names cRevision ->
    migrate_extra_headers (fset k_metadata (VIDict (ddel k_extra_headers md)) (fset k_extra_headers eh' fs)) =
    Ok (fset k_metadata (VIDict (ddel k_extra_headers md)) (fset k_extra_headers eh' fs)).
  Proof.
    intros fs md eh' Hn. unfold migrate_extra_headers.
    rewrite fget_fset_eq by (rewrite map_fst_fset, Hn; reflexivity).
    destruct (ddel k_extra_headers md) as [|kv l] eqn:E; [reflexivity|].
    destruct (negb (truthy (fget k_extra_headers _))); [|reflexivity].
    rewrite <- E, dget_ddel_eq. reflexivity.
  Qed.
End PostInit.

(* the field of a given name is the one [find] returns *)
Lemma schema_field_unique : forall (s : list field) f k f0, bytes_nodup (map fname s) = true ->
  In f s -> fname f = k -> find (fun g => beqb (fname g) k) s = Some f0 -> f = f0.
Proof.
  induction s as [|g s IH]; intros f k f0 Hnd Hin Hk Hf; [contradiction|].
  simpl in Hnd. apply andb_true_iff in Hnd. destruct Hnd as [Hg Hs]. simpl in Hf.
  destruct (beqb (fname g) k) eqn:E.
  - injection Hf as <-. destruct Hin as [->|Hin]; [reflexivity|]. exfalso.
    apply beqb_eq in E. apply negb_true_iff in Hg.
    assert (mem_bytes (fname g) (map fname s) = true) as Hm.
    { apply mem_bytes_In. rewrite E, <- Hk. apply in_map. exact Hin. } congruence.
  - destruct Hin as [->|Hin]; [rewrite Hk, beqb_refl in E; discriminate|]. apply (IH f k f0); assumption.
Qed.

Lemma has_type_md_ddel : forall k md, has_type md_ty (VIDict md) = true -> has_type md_ty (VIDict (ddel k md)) = true.
Proof.
  intros k md H. cbn in *. rewrite forallb_forall in *. intros x Hx. apply H.
  unfold ddel in Hx. apply filter_In in Hx. tauto.
Qed.

Section ConstructFixed.
  Variable idf : cls -> fields -> result bytes.
  Hypothesis idf_inv : idf_migration_invariant idf.

  Definition stable (c : cls) (fs : fields) : Prop :=
    map fst fs = names c /\ Forall2 conv_fixed (schema c) fs /\ validate c fs = true.

  Lemma fill_props : forall c fs fs', fill_id idf c fs = Ok fs' -> stable c fs ->
    stable c fs' /\ fill_id idf c fs' = Ok fs'.
  Proof.
    intros c fs fs' H [Hn [Hcf Hv]]. destruct (fill_id_spec idf c fs fs' H) as [[Hh ->]|[[Hh [Ht ->]]|[Hh [Ht [i [Hi ->]]]]]].
    - split; [repeat split; assumption | exact H].
    - split; [repeat split; assumption | exact H].
    - assert (Hin : mem_bytes k_id (map fst fs) = true) by (rewrite Hn; apply id_in_names; exact Hh).
      split; [split; [|split]|].
      + rewrite map_fst_fset. exact Hn.
      + apply Forall2_fset; [exact Hcf | exact Hn |]. intros f Hf Hk. unfold conv_fixed. cbn [snd].
        assert (E : fconv f = CNone).
        { assert (B : forallb (fun f => if beqb (fname f) k_id then match fconv f with CNone => true | _ => false end else true)
                              (schema c) = true) by (destruct c; vm_compute; reflexivity).
          rewrite forallb_forall in B. specialize (B f Hf). rewrite Hk, beqb_refl in B.
          destruct (fconv f); try discriminate. reflexivity. }
        rewrite E. reflexivity.
      + apply validate_fset; [exact Hn | apply custom_fset_id | | exact Hv].
        intros f Hf Hk _. rewrite (id_field_bytes c f Hf Hk). reflexivity.
      + unfold fill_id. rewrite Hh. rewrite (fget_fset_eq k_id (VBytes i) fs Hin).
        destruct (truthy (VBytes i)); [reflexivity|]. rewrite fdel_fset, Hi. cbn [rbind].
        rewrite fset_fset_same. reflexivity.
  Qed.

  Lemma rev_field : forall f k f0, In f (schema cRevision) -> fname f = k ->
    find (fun g => beqb (fname g) k) (schema cRevision) = Some f0 -> f = f0.
  Proof. intros f k f0. apply schema_field_unique. apply (names_nodup cRevision). Qed.

  Lemma migrate_props : forall fs fs', migrate_extra_headers fs = Ok fs' -> stable cRevision fs ->
    fill_id idf cRevision fs = Ok fs ->
    stable cRevision fs' /\ migrate_extra_headers fs' = Ok fs' /\ fill_id idf cRevision fs' = Ok fs'.
  Proof.
    intros fs fs' H [Hn [Hcf Hv]] Hfill.
    destruct (migrate_spec fs fs' H) as [->|[md [eh [eh' [Hmd [Hne [Hnt [Hd [Htup [Hval ->]]]]]]]]]].
    - split; [repeat split; assumption | split; assumption].
    - assert (Hn1 : map fst (fset k_extra_headers eh' fs) = names cRevision) by (rewrite map_fst_fset; exact Hn).
      split; [split; [|split]|split].
      + rewrite !map_fst_fset. exact Hn.
      + apply Forall2_fset; [apply Forall2_fset; [exact Hcf | exact Hn |] | exact Hn1 |].
        * intros f Hf Hk. rewrite (rev_field f k_extra_headers _ Hf Hk eq_refl). unfold conv_fixed. cbn.
          apply tuplify_idem with eh. exact Htup.
        * intros f Hf Hk. rewrite (rev_field f k_metadata _ Hf Hk eq_refl). reflexivity.
      + apply validate_fset; [exact Hn1 | apply custom_fset_metadata | | exact Hval].
        intros f Hf Hk _. rewrite (rev_field f k_metadata _ Hf Hk eq_refl). cbn [fty].
        apply has_type_md_ddel. rewrite <- Hmd.
        unfold validate in Hv. apply andb_true_iff in Hv. destruct Hv as [Hv _].
        apply (typecheck_fget (schema cRevision) fs (mkField k_metadata md_ty (Some VNone) CFreeze true false));
          [exact Hn | apply (names_nodup cRevision) | exact Hv | vm_compute; tauto | reflexivity].
      + apply migrate_fixed. exact Hn.
      + unfold fill_id in *. cbn [hashable] in *. rewrite !fget_fset_ne by reflexivity.
        destruct (truthy (fget k_id fs)) eqn:Et; [reflexivity|].
        rewrite (idf_inv fs md eh eh' Hmd Hnt Hd Htup).
        destruct (idf cRevision (fdel k_id fs)) as [i|e]; [|discriminate]. cbn [rbind] in *.
        injection Hfill as Hfill. f_equal.
        rewrite (fset_comm k_id k_metadata) by reflexivity. rewrite (fset_comm k_id k_extra_headers) by reflexivity.
        rewrite Hfill. reflexivity.
  Qed.

  (* what the constructor returns is an attribute list named after the schema on
     which the constructor is the identity *)
  Theorem construct_fixed : forall c kw fs, construct idf c kw = Ok (VObj c fs) ->
    map fst fs = names c /\ construct idf c (as_kwargs fs) = Ok (VObj c fs).
  Proof.
    intros c kw fs H. unfold construct in H.
    destruct (bind_args (schema c) kw) as [fs0|e] eqn:Eb; [|discriminate]. cbn [rbind] in H.
    destruct (convert (schema c) fs0) as [fs1|e] eqn:Ec; [|discriminate]. cbn [rbind] in H.
    destruct (validate c fs1) eqn:Ev; [|discriminate].
    destruct (post_init idf c fs1) as [fs2|e] eqn:Ep; [|discriminate]. cbn [rbind] in H. injection H as <-.
    destruct (convert_spec _ _ _ Ec (bind_args_names _ _ _ Eb)) as [Hn1 Hcf1].
    assert (S1 : stable c fs1) by (repeat split; assumption).
    unfold post_init in Ep. destruct (fill_id idf c fs1) as [fsi|e] eqn:Ef; [|discriminate]. cbn [rbind] in Ep.
    destruct (fill_props c fs1 fsi Ef S1) as [Si Hfi].
    assert (G : stable c fs2 /\ post_init idf c fs2 = Ok fs2).
    { destruct c; try (injection Ep as <-; split; [exact Si | unfold post_init; rewrite Hfi; reflexivity]).
      destruct (migrate_props fsi fs2 Ep Si Hfi) as [S2 [Hm2 Hf2]].
      split; [exact S2 | unfold post_init; rewrite Hf2; cbn [rbind]; exact Hm2]. }
    destruct G as [[Hn2 [Hcf2 Hv2]] Hp2]. split; [exact Hn2|].
    unfold construct. rewrite (bind_args_as_kwargs (schema c) fs2 Hn2 (names_nodup c)). cbn [rbind].
    rewrite (convert_fixed _ _ Hcf2). cbn [rbind]. rewrite Hv2, Hp2. reflexivity.
  Qed.

  Lemma construct_shape : forall c kw o, construct idf c kw = Ok o -> exists fs, o = VObj c fs.
  Proof.
    intros c kw o H. unfold construct in H.
    destruct (bind_args (schema c) kw); [|discriminate]. cbn [rbind] in H.
    destruct (convert (schema c) a); [|discriminate]. cbn [rbind] in H.
    destruct (validate c a0); [|discriminate]. destruct (post_init idf c a0); [|discriminate].
    cbn [rbind] in H. injection H as <-. eauto.
  Qed.

  (* C12_constructor_output_wf.  The constructor establishes everything in wf
     except what it never checks: the types of the attribute values IN DEPTH
     (nested objects well formed themselves, metadata values plain, the
     unvalidated raw_manifest a byte string, get_data None). *)
  Theorem constructor_output_wf : forall c kw fs, construct idf c kw = Ok (VObj c fs) ->
    Forall2 (fun f nv => conforms (fty f) (snd nv)) (schema c) fs ->
    Forall (fun nv => wf idf (snd nv)) fs ->
    wf idf (VObj c fs).
  Proof.
    intros c kw fs H Hc Hw. destruct (construct_fixed c kw fs H) as [Hn Hf].
    apply wf_obj. repeat split; assumption.
  Qed.
End ConstructFixed.

(* ------------------------------------------------------------------ legacy extra headers: the constructor *)
Lemma dget_app : forall k (a b : dict), dget k (a ++ b) = match dget k a with Some v => Some v | None => dget k b end.
Proof.
  intros k a b. induction a as [|[p v] r IH]; [reflexivity|]. simpl. destruct (is_key k p); [reflexivity | exact IH].
Qed.

Lemma keys_known_dset_eq : forall s k v d, mem_bytes k (map fname s) = true ->
  keys_known s (dset k v d) = keys_known s d.
Proof.
  intros s k v d Hk. unfold keys_known. induction d as [|[p x] r IH]; simpl.
  - rewrite Hk. reflexivity.
  - destruct (is_key k p) eqn:E; simpl; [reflexivity | rewrite IH; reflexivity].
Qed.

Lemma ddel_dset_comm : forall k k' v d, beqb k k' = false -> ddel k (dset k' v d) = dset k' v (ddel k d).
Proof.
  intros k k' v d H. unfold ddel. induction d as [|[p x] r IH]; simpl.
  - rewrite H. reflexivity.
  - destruct (is_key k' p) eqn:E'; simpl.
    + destruct p; simpl in E'; try discriminate. apply beqb_eq in E'. subst s. simpl. rewrite H. simpl.
      rewrite beqb_refl. reflexivity.
    + destruct (is_key k p) eqn:E; simpl; [exact IH | rewrite E'; rewrite IH; reflexivity].
Qed.

Lemma beqb_sym_false : forall a b, beqb a b = false -> beqb b a = false.
Proof.
  intros a b H. destruct (beqb b a) eqn:E; [|reflexivity]. apply beqb_eq in E. subst. rewrite beqb_refl in H. discriminate.
Qed.

(* binding in a dictionary that differs at one key *)
Lemma bind_args_change : forall s KW KW' k v, bytes_nodup (map fname s) = true ->
  keys_known s KW' = keys_known s KW ->
  (forall k', beqb k' k = false -> dget k' KW' = dget k' KW) ->
  dget k KW' = Some v ->
  (forall f, In f s -> fname f = k -> exists v0, bind_field KW f = Ok (k, v0)) ->
  bind_args s KW' = match bind_args s KW with Ok fs0 => Ok (fset k v fs0) | Err e => Err e end.
Proof.
  intros s KW KW' k v Hnd Hk Hot Hv Hex. unfold bind_args. rewrite Hk. destruct (keys_known s KW); [|reflexivity].
  clear Hk. induction s as [|f s IH]; [reflexivity|].
  simpl in Hnd. apply andb_true_iff in Hnd. destruct Hnd as [Hf Hs]. cbn [rmap].
  destruct (beqb (fname f) k) eqn:E.
  - apply beqb_eq in E. destruct (Hex f (or_introl eq_refl) E) as [v0 H0]. rewrite H0.
    assert (B : bind_field KW' f = Ok (k, v)) by (unfold bind_field; rewrite E, Hv; reflexivity). rewrite B.
    assert (T : rmap (bind_field KW') s = rmap (bind_field KW) s).
    { assert (Hno : forall g, In g s -> beqb (fname g) k = false).
      { intros g Hg. destruct (beqb (fname g) k) eqn:Eg; [|reflexivity]. apply beqb_eq in Eg. exfalso.
        apply negb_true_iff in Hf. assert (mem_bytes (fname f) (map fname s) = true) as Hm.
        { apply mem_bytes_In. rewrite E, <- Eg. apply in_map. exact Hg. } congruence. }
      clear -Hno Hot. induction s as [|g s IHs]; [reflexivity|]. cbn [rmap].
      assert (Bg : bind_field KW' g = bind_field KW g).
      { unfold bind_field. rewrite (Hot (fname g) (Hno g (or_introl eq_refl))). reflexivity. }
      rewrite Bg, IHs; [reflexivity|]. intros g0 Hg0. apply Hno. right. exact Hg0. }
    rewrite T. destruct (rmap (bind_field KW) s); [|reflexivity]. cbn [fset]. rewrite beqb_refl. reflexivity.
  - assert (Bf : bind_field KW' f = bind_field KW f) by (unfold bind_field; rewrite (Hot (fname f) E); reflexivity).
    rewrite Bf. destruct (bind_field KW f) as [[n x]|e] eqn:Ebf; [|reflexivity].
    rewrite (IH Hs); [|intros g Hg; apply Hex; right; exact Hg].
    destruct (rmap (bind_field KW) s); [|reflexivity]. cbn [fset].
    assert (n = fname f) as ->.
    { unfold bind_field in Ebf. destruct (dget (fname f) KW); [injection Ebf as <- _; reflexivity|].
      destruct (fdefault f); [injection Ebf as <- _; reflexivity | discriminate]. }
    rewrite beqb_sym_false by exact E. reflexivity.
Qed.

Lemma bind_field_name : forall KW f nv, bind_field KW f = Ok nv -> fst nv = fname f.
Proof.
  intros KW f nv H. unfold bind_field in H. destruct (dget (fname f) KW); [injection H as <-; reflexivity|].
  destruct (fdefault f); [injection H as <-; reflexivity | discriminate].
Qed.

Lemma bind_args_fget : forall s KW fs0 f, bytes_nodup (map fname s) = true ->
  bind_args s KW = Ok fs0 -> In f s -> bind_field KW f = Ok (fname f, fget (fname f) fs0).
Proof.
  intros s KW fs0 f Hnd H Hin. unfold bind_args in H. destruct (keys_known s KW); [|discriminate].
  revert fs0 H. induction s as [|g s IH]; intros fs0 H; [contradiction|].
  simpl in Hnd. apply andb_true_iff in Hnd. destruct Hnd as [Hg Hs]. cbn [rmap] in H.
  destruct (bind_field KW g) as [[n x]|e] eqn:Eg; [|discriminate].
  destruct (rmap (bind_field KW) s) as [r|e] eqn:Er; [|discriminate]. injection H as <-.
  pose proof (bind_field_name KW g _ Eg) as Hn. simpl in Hn. subst n. cbn [fget].
  destruct Hin as [->|Hin].
  - rewrite beqb_refl. exact Eg.
  - destruct (beqb (fname f) (fname g)) eqn:E.
    + apply beqb_eq in E. exfalso. apply negb_true_iff in Hg.
      assert (mem_bytes (fname g) (map fname s) = true) as Hm.
      { apply mem_bytes_In. rewrite <- E. apply in_map. exact Hin. } congruence.
    + apply (IH Hs Hin r eq_refl).
Qed.

Lemma has_type_md_ddel_back : forall k md, has_type md_ty (VIDict (ddel k md)) = true -> has_type md_ty (VIDict md) = true.
Proof.
  intros k md H. cbn in *. rewrite forallb_forall in *. intros [p x] Hx.
  destruct (is_key k p) eqn:E.
  - destruct p; simpl in E; try discriminate. reflexivity.
  - apply H. unfold ddel. apply filter_In. split; [exact Hx | simpl; rewrite E; reflexivity].
Qed.

Ltac explicit_fields' Hn :=
  unfold names in Hn; cbn [schema map fname fld fldc opt] in Hn;
  repeat (match type of Hn with
          | map fst ?fs = _ :: _ =>
              destruct fs as [|[? ?] fs]; [discriminate Hn|]; cbn [map fst] in Hn; injection Hn as ? Hn; subst
          end);
  match type of Hn with map fst ?fs = [] => destruct fs; [|discriminate Hn] end; clear Hn.

Definition hdr_ty : ty := TTupleOf TPairBytes.

Section LegacyHeaders.
  Variable idf : cls -> fields -> result bytes.
  Hypothesis idf_inv : idf_migration_invariant idf.
  Notation s := (schema cRevision).

  (* validation does not see the difference between the two encodings *)
  Lemma validate_legacy_iff : forall F md eh', map fst F = names cRevision ->
    fget k_metadata F = VIDict md -> fget k_extra_headers F = VTuple [] -> has_type hdr_ty eh' = true ->
    validate cRevision (fset k_metadata (VIDict (ddel k_extra_headers md)) (fset k_extra_headers eh' F)) =
    validate cRevision F.
  Proof.
    intros F md eh' Hn Hmd Heh Hty.
    assert (Hn1 : map fst (fset k_extra_headers eh' F) = names cRevision) by (rewrite map_fst_fset; exact Hn).
    destruct (validate cRevision F) eqn:V.
    - apply validate_fset; [exact Hn1 | apply custom_fset_metadata | |].
      + intros f Hf Hk _. rewrite (rev_field f k_metadata _ Hf Hk eq_refl). cbn [fty].
        apply has_type_md_ddel. rewrite <- Hmd.
        unfold validate in V. apply andb_true_iff in V. destruct V as [V _].
        apply (typecheck_fget s F (mkField k_metadata md_ty (Some VNone) CFreeze true false));
          [exact Hn | apply (names_nodup cRevision) | exact V | vm_compute; tauto | reflexivity].
      + apply validate_fset; [exact Hn | apply custom_fset_extra_headers | | exact V].
        intros f Hf Hk _. rewrite (rev_field f k_extra_headers _ Hf Hk eq_refl). exact Hty.
    - destruct (validate cRevision (fset k_metadata _ _)) eqn:V'; [|reflexivity]. exfalso.
      assert (E : F = fset k_extra_headers (VTuple [])
                        (fset k_metadata (VIDict md)
                           (fset k_metadata (VIDict (ddel k_extra_headers md)) (fset k_extra_headers eh' F)))).
      { rewrite fset_fset_same. rewrite (fset_comm k_extra_headers k_metadata) by reflexivity.
        rewrite fset_fset_same. rewrite <- Heh, fset_get_same. rewrite <- Hmd, fset_get_same. reflexivity. }
      assert (V2 : validate cRevision F = true).
      { rewrite E. set (G := fset k_metadata (VIDict (ddel k_extra_headers md)) (fset k_extra_headers eh' F)) in *.
        assert (HnG : map fst G = names cRevision) by (unfold G; rewrite !map_fst_fset; exact Hn).
        apply validate_fset; [rewrite map_fst_fset; exact HnG | apply custom_fset_extra_headers | |].
        - intros f Hf Hk _. rewrite (rev_field f k_extra_headers _ Hf Hk eq_refl). reflexivity.
        - apply validate_fset; [exact HnG | apply custom_fset_metadata | | exact V'].
          intros f Hf Hk _. rewrite (rev_field f k_metadata _ Hf Hk eq_refl). cbn [fty].
          apply has_type_md_ddel_back with k_extra_headers.
          unfold validate in V'. apply andb_true_iff in V'. destruct V' as [V' _].
          pose proof (typecheck_fget s G (mkField k_metadata md_ty (Some VNone) CFreeze true false)
                        HnG (names_nodup cRevision) V') as T.
          cbn [fname fty] in T. unfold G in T. rewrite fget_fset_eq in T by (rewrite map_fst_fset, Hn; reflexivity).
          apply T; [vm_compute; tauto | reflexivity]. }
      congruence.
  Qed.

  (* post-init on the two attribute lists *)
  Lemma post_init_legacy : forall F md eh eh', map fst F = names cRevision ->
    fget k_metadata F = VIDict md -> fget k_extra_headers F = VTuple [] ->
    dget k_extra_headers md = Some eh -> tuplify_extra_headers eh = Ok eh' -> has_type hdr_ty eh' = true ->
    validate cRevision F = true ->
    post_init idf cRevision F =
    post_init idf cRevision (fset k_metadata (VIDict (ddel k_extra_headers md)) (fset k_extra_headers eh' F)).
  Proof.
    intros F md eh eh' Hn Hmd Heh Hd Htup Hty V.
    assert (Hne : md <> []) by (intros ->; discriminate Hd).
    assert (Hnt : truthy (fget k_extra_headers F) = false) by (rewrite Heh; reflexivity).
    (* the migration of a list G that still has the legacy shape *)
    assert (MIG : forall G, map fst G = names cRevision -> fget k_metadata G = VIDict md ->
                  fget k_extra_headers G = VTuple [] -> validate cRevision G = true ->
                  migrate_extra_headers G = Ok (fset k_metadata (VIDict (ddel k_extra_headers md)) (fset k_extra_headers eh' G))).
    { intros G HnG HmG HeG VG. unfold migrate_extra_headers. rewrite HmG. destruct md as [|kv l]; [congruence|].
      rewrite HeG. cbn [truthy negb]. rewrite Hd, Htup. cbn [rbind].
      assert (VG' : validate cRevision (fset k_extra_headers eh' G) = true).
      { apply validate_fset; [exact HnG | apply custom_fset_extra_headers | | exact VG].
        intros f Hf Hk _. rewrite (rev_field f k_extra_headers _ Hf Hk eq_refl). exact Hty. }
      rewrite VG'. reflexivity. }
    unfold post_init, fill_id. cbn [hashable]. rewrite !fget_fset_ne by reflexivity.
    destruct (truthy (fget k_id F)) eqn:Et; cbn [rbind].
    - rewrite (MIG F Hn Hmd Heh V). rewrite (migrate_fixed F md eh' Hn). reflexivity.
    - rewrite (idf_inv F md eh eh' Hmd Hnt Hd Htup).
      destruct (idf cRevision (fdel k_id F)) as [i|e]; [|reflexivity]. cbn [rbind].
      set (G := fset k_id (VBytes i) F).
      assert (HnG : map fst G = names cRevision) by (unfold G; rewrite map_fst_fset; exact Hn).
      rewrite (MIG G HnG); [| unfold G; rewrite fget_fset_ne by reflexivity; exact Hmd
                             | unfold G; rewrite fget_fset_ne by reflexivity; exact Heh |].
      + rewrite (fset_comm k_id k_metadata) by reflexivity. rewrite (fset_comm k_id k_extra_headers) by reflexivity.
        fold G. rewrite (migrate_fixed G md eh' HnG). reflexivity.
      + unfold G. apply validate_fset; [exact Hn | apply custom_fset_id | | exact V].
        intros f Hf Hk _. rewrite (id_field_bytes cRevision f Hf Hk). reflexivity.
  Qed.

  (* the constructor on two kwargs dictionaries that differ only in where the
     extra headers are: inside metadata (legacy) or as extra_headers (current) *)
  Theorem construct_legacy_headers : forall KW KW' md eh eh',
    keys_known s KW' = keys_known s KW ->
    (forall k, beqb k k_metadata = false -> beqb k k_extra_headers = false -> dget k KW' = dget k KW) ->
    dget k_metadata KW = Some (VDict md) -> dget k_metadata KW' = Some (VDict (ddel k_extra_headers md)) ->
    (dget k_extra_headers KW = None \/ exists x, dget k_extra_headers KW = Some x /\ tuplify_extra_headers x = Ok (VTuple [])) ->
    dget k_extra_headers KW' = Some eh ->
    dget k_extra_headers md = Some eh -> tuplify_extra_headers eh = Ok eh' -> has_type hdr_ty eh' = true ->
    construct idf cRevision KW = construct idf cRevision KW'.
  Proof.
    intros KW KW' md eh eh' Hk Hot Hmd Hmd' Htop Heh' Hd Htup Hty.
    set (KW1 := dset k_metadata (VDict (ddel k_extra_headers md)) KW).
    assert (B1 : bind_args s KW1 = match bind_args s KW with
                                   | Ok fs0 => Ok (fset k_metadata (VDict (ddel k_extra_headers md)) fs0) | Err e => Err e end).
    { apply bind_args_change; [apply (names_nodup cRevision) | apply keys_known_dset_eq; reflexivity
                              | intros k' Hk'; apply dget_dset_ne; exact Hk' | apply dget_dset_eq |].
      intros f Hf Hn. exists (VDict md). unfold bind_field. rewrite Hn, Hmd. reflexivity. }
    assert (B2 : bind_args s KW' = match bind_args s KW1 with
                                   | Ok fs0 => Ok (fset k_extra_headers eh fs0) | Err e => Err e end).
    { apply bind_args_change; [apply (names_nodup cRevision) | | | exact Heh' |].
      - rewrite Hk. unfold KW1. symmetry. apply keys_known_dset_eq. reflexivity.
      - intros k' Hk'. unfold KW1. rewrite dget_dset. destruct (beqb k' k_metadata) eqn:E.
        + apply beqb_eq in E. subst k'. exact Hmd'.
        + apply Hot; assumption.
      - intros f Hf Hn. rewrite (rev_field f k_extra_headers _ Hf Hn eq_refl). unfold bind_field, KW1. cbn [fname fdefault].
        rewrite dget_dset_ne by reflexivity. destruct Htop as [->|[x [-> _]]]; eauto. }
    unfold construct. rewrite B2, B1. destruct (bind_args s KW) as [fs0|e] eqn:Eb; [|reflexivity]. cbn [rbind].
    pose proof (bind_args_names _ _ _ Eb) as Hn0.
    pose proof (bind_args_fget s KW fs0 (mkField k_metadata md_ty (Some VNone) CFreeze true false)
                  (names_nodup cRevision) Eb) as Fmd.
    pose proof (bind_args_fget s KW fs0 (mkField k_extra_headers (TTupleOf TPairBytes) (Some (VTuple [])) CTuplifyHeaders true false)
                  (names_nodup cRevision) Eb) as Feh.
    explicit_fields' Hn0.
    assert (E7 : p7 = VDict md).
    { specialize (Fmd ltac:(vm_compute; tauto)). unfold bind_field in Fmd. cbn [fname] in Fmd. rewrite Hmd in Fmd.
      injection Fmd as Fmd. rewrite Fmd. reflexivity. }
    assert (E10 : tuplify_extra_headers p10 = Ok (VTuple [])).
    { specialize (Feh ltac:(vm_compute; tauto)). unfold bind_field in Feh. cbn [fname fdefault] in Feh.
      destruct Htop as [Ht|[x [Ht Hx]]]; rewrite Ht in Feh; injection Feh as Feh.
      - change (VTuple [] = p10) in Feh. rewrite <- Feh. reflexivity.
      - change (x = p10) in Feh. rewrite <- Feh. exact Hx. }
    subst p7.
    set (F := [(k_message, p); (k_author, p0); (k_committer, p1); (k_date, p2); (k_committer_date, p3); (k_type, p4);
               (k_directory, p5); (k_synthetic, p6); (k_metadata, VIDict md); (k_parents, p8); (k_id, p9);
               (k_extra_headers, VTuple []); (k_raw_manifest, p11)]).
    assert (C1 : convert s [(k_message, p); (k_author, p0); (k_committer, p1); (k_date, p2); (k_committer_date, p3);
                            (k_type, p4); (k_directory, p5); (k_synthetic, p6); (k_metadata, VDict md); (k_parents, p8);
                            (k_id, p9); (k_extra_headers, p10); (k_raw_manifest, p11)] = Ok F).
    { cbn [convert schema fld fldc opt fconv apply_conv]. rewrite E10. reflexivity. }
    assert (C2 : convert s (fset k_extra_headers eh (fset k_metadata (VDict (ddel k_extra_headers md))
                   [(k_message, p); (k_author, p0); (k_committer, p1); (k_date, p2); (k_committer_date, p3);
                    (k_type, p4); (k_directory, p5); (k_synthetic, p6); (k_metadata, VDict md); (k_parents, p8);
                    (k_id, p9); (k_extra_headers, p10); (k_raw_manifest, p11)]))
                 = Ok (fset k_metadata (VIDict (ddel k_extra_headers md)) (fset k_extra_headers eh' F))).
    { change (fset k_extra_headers eh (fset k_metadata (VDict (ddel k_extra_headers md)) _))
        with [(k_message, p); (k_author, p0); (k_committer, p1); (k_date, p2); (k_committer_date, p3);
              (k_type, p4); (k_directory, p5); (k_synthetic, p6); (k_metadata, VDict (ddel k_extra_headers md));
              (k_parents, p8); (k_id, p9); (k_extra_headers, eh); (k_raw_manifest, p11)].
      cbn [convert schema fld fldc opt fconv apply_conv]. rewrite Htup. reflexivity. }
    rewrite C1, C2. cbn [rbind].
    assert (HnF : map fst F = names cRevision) by reflexivity.
    rewrite (validate_legacy_iff F md eh' HnF eq_refl eq_refl Hty).
    destruct (validate cRevision F) eqn:V; [|reflexivity].
    rewrite (post_init_legacy F md eh eh' HnF eq_refl eq_refl Hd Htup Hty V). reflexivity.
  Qed.

  (* ---------------------------------------------------------------- the dictionaries *)
  Definition req (k : text) (d : dict) : result pyval := match dget k d with Some v => Ok v | None => Err KeyError end.
  Definition dec_opt (dec : pyval -> result pyval * pyval) (x : pyval) : result pyval :=
    if truthy x then fst (dec x) else Ok x.
  Definition rev_rest (d : dict) : dict :=
    ddel k_parents (ddel k_type (ddel k_committer (ddel k_author (ddel k_committer_date (ddel k_date d))))).

  (* Revision.from_dict in direct style: the six popped keys, then the constructor *)
  Definition rev_norm_g (r1 r2 r3 r4 r5 r6 : result pyval) (K : dict -> result pyval) : result pyval :=
    rbind r1 (fun x1 => rbind (dec_opt (fd_TimestampWithTimezone idf) x1) (fun date =>
    rbind r2 (fun x2 => rbind (dec_opt (fd_TimestampWithTimezone idf) x2) (fun cdate =>
    rbind r3 (fun x3 => rbind (dec_opt (fd_Person idf) x3) (fun author =>
    rbind r4 (fun x4 => rbind (dec_opt (fd_Person idf) x4) (fun committer =>
    rbind r5 (fun ty => rbind (enum_of ERevisionType ty) (fun e =>
    rbind r6 (fun ps => rbind (iter_values ps) (fun pl =>
    K [kw1 k_author author; kw1 k_committer committer; kw1 k_date date; kw1 k_committer_date cdate;
       kw1 k_type e; kw1 k_parents (VTuple pl)])))))))))))).

  Ltac norm_simpl :=
    repeat progress (mstep'; cbv beta iota; cbn [cur caller aliased fst snd rbind]; rewrite ?dget_ddel; eval_keys';
                     repeat match goal with H : dget ?k ?d = _ |- context [dget ?k ?d] => rewrite H end).
  Ltac norm_step d :=
    norm_simpl;
    match goal with
    | |- context [match dget ?k d with _ => _ end] => destruct (dget k d) eqn:?
    | |- context [if truthy ?x then _ else _] => destruct (truthy x) eqn:?
    | |- context [match fst (?dec ?x) with _ => _ end] => destruct (fst (dec x)) eqn:?
    | |- context [match enum_of ?e ?x with _ => _ end] => destruct (enum_of e x) eqn:?
    | |- context [match iter_values ?x with _ => _ end] => destruct (iter_values x) eqn:?
    end; norm_simpl; try reflexivity.

  Lemma fd_Revision_norm : forall d,
    fst (fd_Revision idf (VDict d)) =
    rev_norm_g (req k_date d) (req k_committer_date d) (req k_author d) (req k_committer d) (req k_type d)
               (req k_parents d) (fun ex => construct idf cRevision (ex ++ rev_rest d)).
  Proof.
    intro d. unfold fd_Revision. rewrite fst_on_dict. unfold rev_norm_g, req, dec_opt, pop_decode, rev_rest.
    repeat norm_step d.
  Qed.

  Definition rev_extras (author committer date cdate e : pyval) (pl : list pyval) : dict :=
    [kw1 k_author author; kw1 k_committer committer; kw1 k_date date; kw1 k_committer_date cdate;
     kw1 k_type e; kw1 k_parents (VTuple pl)].

  Lemma rev_norm_g_ext : forall r1 r2 r3 r4 r5 r6 K K',
    (forall a c dt cd e pl, K (rev_extras a c dt cd e pl) = K' (rev_extras a c dt cd e pl)) ->
    rev_norm_g r1 r2 r3 r4 r5 r6 K = rev_norm_g r1 r2 r3 r4 r5 r6 K'.
  Proof.
    intros r1 r2 r3 r4 r5 r6 K K' H. unfold rev_norm_g.
    repeat (match goal with |- rbind ?r _ = rbind ?r _ => destruct r; cbn [rbind]; [|reflexivity] end).
    apply H.
  Qed.

  Lemma dget_extras : forall k a c dt cd e pl R,
    beqb k k_author = false -> beqb k k_committer = false -> beqb k k_date = false ->
    beqb k k_committer_date = false -> beqb k k_type = false -> beqb k k_parents = false ->
    dget k (rev_extras a c dt cd e pl ++ R) = dget k R.
  Proof.
    intros k a c dt cd e pl R H1 H2 H3 H4 H5 H6. unfold rev_extras, kw1. cbn [app].
    rewrite !dget_cons_str, H1, H2, H3, H4, H5, H6. reflexivity.
  Qed.

  (* C12_legacy_extra_headers at the level of dictionaries.  d: a revision
     dictionary whose metadata dictionary md holds "extra_headers" -> eh (a
     sequence of pairs of byte strings), with no top-level extra_headers or an
     empty one.  d': the same with eh as top-level extra_headers and the key
     removed from metadata.  Both decode to the same result (same object, or the
     same error), whatever the other keys hold. *)
  Theorem legacy_extra_headers_dict : forall d md eh eh',
    dget k_metadata d = Some (VDict md) ->
    (dget k_extra_headers d = None \/
     exists x, dget k_extra_headers d = Some x /\ tuplify_extra_headers x = Ok (VTuple [])) ->
    dget k_extra_headers md = Some eh -> tuplify_extra_headers eh = Ok eh' -> has_type hdr_ty eh' = true ->
    fst (fd_Revision idf (VDict d)) =
    fst (fd_Revision idf (VDict (dset k_extra_headers eh (dset k_metadata (VDict (ddel k_extra_headers md)) d)))).
  Proof.
    intros d md eh eh' Hmd Htop Hd Htup Hty. rewrite !fd_Revision_norm.
    set (d' := dset k_extra_headers eh (dset k_metadata (VDict (ddel k_extra_headers md)) d)).
    assert (R : forall k, beqb k k_metadata = false -> beqb k k_extra_headers = false -> req k d' = req k d).
    { intros k H1 H2. unfold req, d'. rewrite !dget_dset, H1, H2. reflexivity. }
    rewrite !R by reflexivity. apply rev_norm_g_ext. intros a c dt cd e pl.
    assert (RR : rev_rest d' = dset k_extra_headers eh (dset k_metadata (VDict (ddel k_extra_headers md)) (rev_rest d))).
    { unfold rev_rest, d'. rewrite !ddel_dset_comm by reflexivity. reflexivity. }
    rewrite RR.
    assert (G : forall k, beqb k k_date = false -> beqb k k_committer_date = false -> beqb k k_author = false ->
                beqb k k_committer = false -> beqb k k_type = false -> beqb k k_parents = false ->
                dget k (rev_rest d) = dget k d).
    { intros k H1 H2 H3 H4 H5 H6. unfold rev_rest. rewrite !dget_ddel, H1, H2, H3, H4, H5, H6. reflexivity. }
    apply (construct_legacy_headers _ _ md eh eh').
    - rewrite !keys_known_app, !keys_known_dset_eq by reflexivity. reflexivity.
    - intros k H1 H2. rewrite !dget_app, !dget_dset, H1, H2. reflexivity.
    - rewrite dget_extras by reflexivity. rewrite G by reflexivity. exact Hmd.
    - rewrite dget_extras by reflexivity. rewrite dget_dset_ne by reflexivity. apply dget_dset_eq.
    - rewrite dget_extras by reflexivity. rewrite G by reflexivity. exact Htop.
    - rewrite dget_extras by reflexivity. apply dget_dset_eq.
    - exact Hd.
    - exact Htup.
    - exact Hty.
  Qed.
End LegacyHeaders.

(* ------------------------------------------------------------------ the statements of Props/C12.v (part 2) *)
(* the constant oracle of the examples is invariant under the migration: the
   hypothesis on idf is satisfiable *)
Lemma idf_c_invariant : idf_migration_invariant idf_c.
Proof. intros fs md eh eh' _ _ _ _. reflexivity. Qed.

(* round trip for what the constructor returns *)
Theorem roundtrip_constructed : forall idf swhid_str swhid_parse dateparse,
  swhid_contract swhid_str swhid_parse -> idf_migration_invariant idf ->
  forall c kw fs, construct idf c kw = Ok (VObj c fs) ->
  Forall2 (fun f nv => conforms (fty f) (snd nv)) (schema c) fs ->
  Forall (fun nv => wf idf (snd nv)) fs ->
  from_dict idf swhid_str swhid_parse dateparse c (to_dict swhid_str (VObj c fs)) =
  (Ok (VObj c fs), to_dict swhid_str (VObj c fs)).
Proof.
  intros idf ss sp dp Hc Hi c kw fs H Hty Hw. apply roundtrip_all_c; [exact Hc|].
  apply (constructor_output_wf idf Hi c kw fs H Hty Hw).
Qed.

(* without the in-depth typing of the attribute values the constructor's output
   need not be well formed: the Directory with a Person as raw_manifest *)
Theorem constructor_output_wf_needs_typing :
  exists c kw fs, construct idf_c c kw = Ok (VObj c fs) /\ ~ wf idf_c (VObj c fs).
Proof.
  destruct roundtrip_refuted_untyped_raw_manifest as [fs [H1 H2]].
  exists cDirectory, (as_kwargs fs), fs. split; [exact H1|]. intro Hw. apply H2.
  change (fst (from_dict idf_c swhid_str_c swhid_parse_c dateparse_none cDirectory
                 (to_dict swhid_str_c (VObj cDirectory fs))) = Ok (VObj cDirectory fs)).
  rewrite (roundtrip_all_c idf_c swhid_str_c swhid_parse_c dateparse_none swhid_contract_c cDirectory fs Hw).
  reflexivity.
Qed.

(* ------------------------------------------------------------------ typing of the ARGUMENTS is enough *)
Lemma Forall2_fget : forall (P : field -> text * pyval -> Prop) s fs f,
  Forall2 P s fs -> map fst fs = map fname s -> bytes_nodup (map fname s) = true -> In f s ->
  P f (fname f, fget (fname f) fs).
Proof.
  intros P s fs f H. induction H as [|g [n v] s fs Hp Hr IH]; intros Hn Hnd Hin; [contradiction|].
  simpl in Hn. injection Hn as Hn1 Hn2. subst n. simpl in Hnd. apply andb_true_iff in Hnd. destruct Hnd as [Hg Hs].
  cbn [fget]. destruct Hin as [->|Hin].
  - rewrite beqb_refl. exact Hp.
  - destruct (beqb (fname f) (fname g)) eqn:E.
    + apply beqb_eq in E. exfalso. apply negb_true_iff in Hg.
      assert (mem_bytes (fname g) (map fname s) = true) as Hm.
      { apply mem_bytes_In. rewrite <- E. apply in_map. exact Hin. } congruence.
    + apply IH; assumption.
Qed.

Lemma Forall_fget : forall (P : pyval -> Prop) (fs : fields) k, Forall (fun nv => P (snd nv)) fs ->
  mem_bytes k (map fst fs) = true -> P (fget k fs).
Proof.
  intros P fs k H. induction H as [|[n v] r Hp Hr IH]; simpl; intro Hm; [discriminate|].
  destruct (beqb k n); [exact Hp | apply IH; exact Hm].
Qed.

Lemma hdr_conforms : forall v, has_type hdr_ty v = true -> conforms hdr_ty v.
Proof.
  intros v H. destruct v; try discriminate. exists l. split; [reflexivity|]. cbn in H.
  induction l as [|x r IH]; [constructor|]. cbn in H. apply andb_true_iff in H. destruct H as [H1 H2].
  constructor; [exact H1 | apply IH; exact H2].
Qed.

Lemma hdr_wf : forall idf v, has_type hdr_ty v = true -> wf idf v.
Proof.
  intros idf v H. destruct v; try discriminate. cbn in H. cbn [wf]. apply wf_all_list.
  induction l as [|x r IH]; [constructor|]. cbn in H. apply andb_true_iff in H. destruct H as [H1 H2].
  constructor; [|apply IH; exact H2].
  destruct x; try discriminate. destruct l as [|a [|b [|c l]]]; try discriminate; try (destruct a; discriminate).
  - destruct a; try discriminate. destruct b; try discriminate. cbn. auto.
  - destruct a; try discriminate. destruct b; discriminate.
Qed.

Lemma md_conforms_ddel : forall k md, conforms md_ty (VIDict md) -> conforms md_ty (VIDict (ddel k md)).
Proof.
  intros k md [H|[l [E Hl]]]; [discriminate|]. injection E as <-. right. exists (ddel k md). split; [reflexivity|].
  unfold ddel. rewrite Forall_forall in *. intros x Hx. apply filter_In in Hx. apply Hl. tauto.
Qed.

Lemma md_wf_ddel : forall idf k md, wf idf (VIDict md) -> wf idf (VIDict (ddel k md)).
Proof.
  intros idf k md H. cbn [wf] in *. apply wf_all_dict in H. apply wf_all_dict.
  unfold ddel. rewrite Forall_forall in *. intros x Hx. apply filter_In in Hx. apply H. tauto.
Qed.

Section ArgsTyped.
  Variable idf : cls -> fields -> result bytes.
  Hypothesis idf_inv : idf_migration_invariant idf.

  Definition typed_in_depth (c : cls) (fs : fields) : Prop :=
    Forall2 (fun f nv => conforms (fty f) (snd nv)) (schema c) fs /\ Forall (fun nv => wf idf (snd nv)) fs.

  (* the arguments, once bound and converted, have their declared types in depth *)
  Definition args_typed (c : cls) (kw : dict) : Prop :=
    forall fs0 fs1, bind_args (schema c) kw = Ok fs0 -> convert (schema c) fs0 = Ok fs1 -> typed_in_depth c fs1.

  Lemma typed_fill : forall c fs fs', fill_id idf c fs = Ok fs' -> map fst fs = names c ->
    typed_in_depth c fs -> typed_in_depth c fs'.
  Proof.
    intros c fs fs' H Hn [T1 T2]. destruct (fill_id_spec idf c fs fs' H) as [[_ ->]|[[_ [_ ->]]|[_ [_ [i [_ ->]]]]]];
      try (split; assumption).
    split.
    - apply Forall2_fset; [exact T1 | exact Hn |]. intros f Hf Hk. cbn [snd]. rewrite (id_field_bytes c f Hf Hk). reflexivity.
    - apply Forall_fset; [exact T2 | exact I].
  Qed.

  Lemma typed_migrate : forall fs fs', migrate_extra_headers fs = Ok fs' -> map fst fs = names cRevision ->
    typed_in_depth cRevision fs -> typed_in_depth cRevision fs'.
  Proof.
    intros fs fs' H Hn [T1 T2].
    destruct (migrate_spec fs fs' H) as [->|[md [eh [eh' [Hmd [Hne [Hnt [Hd [Htup [Hval ->]]]]]]]]]]; [split; assumption|].
    assert (Hn1 : map fst (fset k_extra_headers eh' fs) = names cRevision) by (rewrite map_fst_fset; exact Hn).
    assert (Hty : has_type hdr_ty eh' = true).
    { unfold validate in Hval. apply andb_true_iff in Hval. destruct Hval as [Hv _].
      pose proof (typecheck_fget (schema cRevision) _
                    (mkField k_extra_headers (TTupleOf TPairBytes) (Some (VTuple [])) CTuplifyHeaders true false)
                    Hn1 (names_nodup cRevision) Hv) as T.
      cbn [fname fty] in T.
      assert (Hm : mem_bytes k_extra_headers (map fst fs) = true) by (rewrite Hn; reflexivity).
      rewrite (fget_fset_eq k_extra_headers eh' fs Hm) in T.
      apply T; [vm_compute; tauto | reflexivity]. }
    assert (Cmd : conforms md_ty (VIDict md)).
    { rewrite <- Hmd.
      apply (Forall2_fget (fun f nv => conforms (fty f) (snd nv)) (schema cRevision) fs
               (mkField k_metadata md_ty (Some VNone) CFreeze true false) T1 Hn (names_nodup cRevision)).
      vm_compute; tauto. }
    assert (Wmd : wf idf (VIDict md)).
    { rewrite <- Hmd. apply (Forall_fget (wf idf) fs k_metadata T2). rewrite Hn. reflexivity. }
    split.
    - apply Forall2_fset; [apply Forall2_fset; [exact T1 | exact Hn |] | exact Hn1 |].
      + intros f Hf Hk. rewrite (rev_field f k_extra_headers _ Hf Hk eq_refl). cbn [fty snd]. apply hdr_conforms. exact Hty.
      + intros f Hf Hk. rewrite (rev_field f k_metadata _ Hf Hk eq_refl). cbn [fty snd]. apply md_conforms_ddel. exact Cmd.
    - apply Forall_fset; [apply Forall_fset; [exact T2|] |].
      + cbn [snd]. apply hdr_wf. exact Hty.
      + cbn [snd]. apply md_wf_ddel. exact Wmd.
  Qed.

  (* C12_constructor_output_wf, argument form: for every class and every
     argument list whose bound and converted values are typed in depth, what the
     constructor returns is well formed *)
  Theorem constructor_output_wf_args : forall c kw fs, args_typed c kw ->
    construct idf c kw = Ok (VObj c fs) -> wf idf (VObj c fs).
  Proof.
    intros c kw fs Ha H. pose proof H as H0. unfold construct in H.
    destruct (bind_args (schema c) kw) as [fs0|e] eqn:Eb; [|discriminate]. cbn [rbind] in H.
    destruct (convert (schema c) fs0) as [fs1|e] eqn:Ec; [|discriminate]. cbn [rbind] in H.
    destruct (validate c fs1) eqn:Ev; [|discriminate].
    destruct (post_init idf c fs1) as [fs2|e] eqn:Ep; [|discriminate]. cbn [rbind] in H. injection H as <-.
    destruct (convert_spec _ _ _ Ec (bind_args_names _ _ _ Eb)) as [Hn1 Hcf1].
    pose proof (Ha fs0 fs1 Eb Ec) as T1.
    unfold post_init in Ep. destruct (fill_id idf c fs1) as [fsi|e] eqn:Ef; [|discriminate]. cbn [rbind] in Ep.
    pose proof (typed_fill c fs1 fsi Ef Hn1 T1) as Ti.
    assert (S1 : stable c fs1) by (repeat split; assumption).
    destruct (fill_props idf c fs1 fsi Ef S1) as [[Hni _] _].
    assert (T2 : typed_in_depth c fs2).
    { destruct c; try (injection Ep as <-; exact Ti). apply (typed_migrate fsi fs2 Ep Hni Ti). }
    destruct T2 as [A B]. apply (constructor_output_wf idf idf_inv c kw fs2 H0 A B).
  Qed.
End ArgsTyped.

Theorem roundtrip_constructed_args : forall idf swhid_str swhid_parse dateparse,
  swhid_contract swhid_str swhid_parse -> idf_migration_invariant idf ->
  forall c kw fs, args_typed idf c kw -> construct idf c kw = Ok (VObj c fs) ->
  from_dict idf swhid_str swhid_parse dateparse c (to_dict swhid_str (VObj c fs)) =
  (Ok (VObj c fs), to_dict swhid_str (VObj c fs)).
Proof.
  intros idf ss sp dp Hc Hi c kw fs Ha H. apply roundtrip_all_c; [exact Hc|].
  apply (constructor_output_wf_args idf Hi c kw fs Ha H).
Qed.
