(* C01 - proofs about model/Hashutil.v *)
From Coq Require Import List NArith Bool Arith Lia.
From SWH.lib Require Import Bytes Dec GitHeader Hex Sha1.
From SWH Require Import Generated.
From SWH.model Require Import Hashutil.
From SWH.proofs Require Import HashutilExamples.
Import ListNotations.
Open Scope N_scope.

(* ------------------------------------------------------------------ side conditions on the regenerated tables *)
Lemma block_size_positive : 0 < HASH_BLOCK_SIZE.
Proof. vm_compute. reflexivity. Qed.

Lemma blob_is_git_type : mem_bytes BLOB GIT_OBJECT_TYPES = true.
Proof. vm_compute. reflexivity. Qed.

Lemma default_names_ok : forall n, names_ok DEFAULT_ALGORITHMS (Some n) = true.
Proof. intro n. vm_compute. reflexivity. Qed.

Lemma names5_ok : forall n, names_ok NAMES5 (Some n) = true.
Proof. intro n. vm_compute. reflexivity. Qed.

Lemma default_is_four : forallb (fun k => mem_bytes k FOUR) DEFAULT_ALGORITHMS = true
                        /\ forallb (fun k => mem_bytes k DEFAULT_ALGORITHMS && negb (beqb k LENGTH)) FOUR = true.
Proof. vm_compute. split; reflexivity. Qed.

(* ------------------------------------------------------------------ association lists *)
Lemma beqb_true : forall a b, beqb a b = true -> a = b.
Proof. intros a b E. apply beqb_eq. exact E. Qed.

Lemma beqb_sym : forall a b, beqb a b = beqb b a.
Proof.
  intros a b. destruct (beqb a b) eqn:E1, (beqb b a) eqn:E2; try reflexivity.
  - apply beqb_true in E1. subst. rewrite beqb_refl in E2. discriminate.
  - apply beqb_true in E2. subst. rewrite beqb_refl in E1. discriminate.
Qed.

Lemma lookup_set_key : forall a b v l, lookup a (set_key b v l) = if beqb a b then Some v else lookup a l.
Proof.
  intros a b v l. induction l as [|[k w] t IH]; cbn [set_key lookup].
  - reflexivity.
  - destruct (beqb b k) eqn:Ebk; cbn [lookup].
    + apply beqb_true in Ebk. subst k. destruct (beqb a b); reflexivity.
    + destruct (beqb a k) eqn:Eak.
      * destruct (beqb a b) eqn:Eab; [|reflexivity].
        apply beqb_true in Eak. apply beqb_true in Eab. subst. rewrite beqb_refl in Ebk. discriminate.
      * exact IH.
Qed.

Lemma lookup_map : forall (f : bytes -> bytes -> bytes) a l,
  lookup a (map (fun kv => (fst kv, f (fst kv) (snd kv))) l) = option_map (f a) (lookup a l).
Proof.
  intros f a l. induction l as [|[k w] t IH]; cbn [map lookup fst snd]; [reflexivity|].
  destruct (beqb a k) eqn:E; [|exact IH]. apply beqb_true in E. subst. reflexivity.
Qed.

Lemma lookup_In : forall k v l, In (k, v) l -> lookup k l <> None.
Proof.
  intros k v l. induction l as [|[k' w] t IH]; cbn [In lookup]; [tauto|].
  intros [E|Hin].
  - inversion E; subst. rewrite beqb_refl. discriminate.
  - destruct (beqb k k'); [discriminate | auto].
Qed.

Lemma mem_bytes_cons : forall k a l, mem_bytes k (a :: l) = beqb k a || mem_bytes k l.
Proof. reflexivity. Qed.

(* ------------------------------------------------------------------ _new_hash, __init__ *)
Lemma new_hash_ok : forall a length f, new_hash a length = Ok f -> f = prefix a length.
Proof.
  intros a length f. unfold new_hash, prefix, git_object_header.
  destruct (negb (mem_bytes a ALGORITHMS)); [discriminate|].
  destruct (ends_with GIT_SUFFIX a).
  - destruct length as [n|]; [|discriminate]. rewrite blob_is_git_type. congruence.
  - congruence.
Qed.

Lemma new_hash_err : forall a length e, new_hash a length = Err e -> e = ValueError.
Proof.
  intros a length e. unfold new_hash, git_object_header.
  destruct (negb (mem_bytes a ALGORITHMS)); [congruence|].
  destruct (ends_with GIT_SUFFIX a); [|discriminate].
  destruct length as [n|]; [|congruence]. rewrite blob_is_git_type. discriminate.
Qed.

Lemma new_hash_ok_iff : forall a length,
  (exists f, new_hash a length = Ok f) <->
  (mem_bytes a ALGORITHMS && (negb (ends_with GIT_SUFFIX a) || match length with Some _ => true | None => false end)) = true.
Proof.
  intros a length. unfold new_hash, git_object_header. rewrite blob_is_git_type.
  destruct (mem_bytes a ALGORITHMS); cbn [negb andb].
  - destruct (ends_with GIT_SUFFIX a); cbn [negb orb].
    + destruct length as [n|]; split; intro X; try discriminate; eauto. destruct X as [f X]. discriminate.
    + split; eauto.
  - split; [intros [f X]; discriminate | discriminate].
Qed.

Lemma init_cell_gen : forall names length c0 c,
  init_cell names length c0 = Ok c ->
  (forall a, lookup a (fed c) = if requested names a then Some (prefix a length) else lookup a (fed c0))
  /\ track c = (track c0 || mem_bytes LENGTH names)
  /\ len c = (if mem_bytes LENGTH names then 0 else len c0).
Proof.
  induction names as [|x rest IH]; intros length c0 c Hinit; cbn [init_cell] in Hinit.
  - inversion Hinit; subst. cbn [mem_bytes existsb]. rewrite orb_false_r. repeat split.
  - destruct (beqb x LENGTH) eqn:ExL.
    + apply beqb_true in ExL. subst x.
      destruct (IH _ _ _ Hinit) as (Hf & Ht & Hl). cbn [fed track len] in *.
      rewrite mem_bytes_cons, beqb_refl. cbn [orb]. repeat split.
      * intro a. rewrite Hf. unfold requested. rewrite mem_bytes_cons.
        destruct (beqb a LENGTH) eqn:EaL; cbn [orb negb]; [|reflexivity].
        rewrite !andb_false_r. reflexivity.
      * rewrite Ht. cbn [orb]. symmetry. apply orb_true_r.
      * rewrite Hl. destruct (mem_bytes LENGTH rest); reflexivity.
    + destruct (new_hash x length) as [f|e] eqn:Enh; [|discriminate].
      apply new_hash_ok in Enh. subst f.
      destruct (IH _ _ _ Hinit) as (Hf & Ht & Hl). cbn [fed track len] in *.
      rewrite mem_bytes_cons. rewrite (beqb_sym LENGTH x), ExL. cbn [orb]. repeat split; [|exact Ht|exact Hl].
      intro a. rewrite Hf. unfold requested. rewrite mem_bytes_cons, lookup_set_key.
      destruct (mem_bytes a rest && negb (beqb a LENGTH)) eqn:Er.
      * apply andb_true_iff in Er. destruct Er as [E1 E2]. rewrite E1, E2, orb_true_r. reflexivity.
      * destruct (beqb a x) eqn:Eax; cbn [orb].
        -- apply beqb_true in Eax. subst a. rewrite ExL. reflexivity.
        -- rewrite Er. reflexivity.
Qed.

Lemma init_cell_spec : forall names length c,
  init_cell names length empty_cell = Ok c -> cell_spec names length [] c.
Proof.
  intros names length c Hinit. destruct (init_cell_gen _ _ _ _ Hinit) as (Hf & Ht & Hl).
  cbn [empty_cell fed track len lookup] in *. unfold cell_spec. repeat split.
  - intro a. rewrite Hf, app_nil_r. reflexivity.
  - exact Ht.
  - rewrite Hl. destruct (mem_bytes LENGTH names); reflexivity.
Qed.

Lemma init_cell_err : forall names length c0 e, init_cell names length c0 = Err e -> e = ValueError.
Proof.
  induction names as [|x rest IH]; intros length c0 e Hinit; cbn [init_cell] in Hinit; [discriminate|].
  destruct (beqb x LENGTH); [eauto|].
  destruct (new_hash x length) as [f|e'] eqn:Enh; [eauto|].
  inversion Hinit; subst. eapply new_hash_err; eauto.
Qed.

Lemma init_cell_ok_iff : forall names length c0,
  (exists c, init_cell names length c0 = Ok c) <-> names_ok names length = true.
Proof.
  induction names as [|x rest IH]; intros length c0; cbn [init_cell names_ok forallb].
  - split; eauto.
  - fold (names_ok rest length). destruct (beqb x LENGTH) eqn:ExL; cbn [orb andb].
    + apply IH.
    + destruct (new_hash x length) as [f|e] eqn:Enh.
      * assert (X : exists f, new_hash x length = Ok f) by eauto.
        apply new_hash_ok_iff in X. rewrite X. cbn [andb]. apply IH.
      * split; [intros [c X]; discriminate|]. intro X. apply andb_true_iff in X. destruct X as [X _].
        apply new_hash_ok_iff in X. destruct X as [f X]. congruence.
Qed.

(* ------------------------------------------------------------------ update, digest *)
Lemma cell_update_spec : forall names length d c ch,
  cell_spec names length d c -> cell_spec names length (d ++ ch) (cell_update c ch).
Proof.
  intros names length d c ch (Hf & Ht & Hl). unfold cell_spec, cell_update. cbn [fed track len]. repeat split.
  - intro a. rewrite (lookup_map (fun _ v => v ++ ch)), Hf.
    destruct (requested names a); cbn [option_map]; [|reflexivity]. rewrite app_assoc. reflexivity.
  - exact Ht.
  - rewrite Ht, Hl. destruct (mem_bytes LENGTH names); [|reflexivity]. rewrite lenN_app. reflexivity.
Qed.

Lemma fold_update_spec : forall chunks names length d c,
  cell_spec names length d c -> cell_spec names length (d ++ concat chunks) (fold_left cell_update chunks c).
Proof.
  induction chunks as [|ch rest IH]; intros names length d c Hc; cbn [fold_left concat].
  - rewrite app_nil_r. exact Hc.
  - rewrite app_assoc. apply IH. apply cell_update_spec. exact Hc.
Qed.

Lemma cell_digest_spec : forall H names length d c,
  cell_spec names length d c -> digest_spec H names length d (cell_digest H c).
Proof.
  intros H names length d c (Hf & Ht & Hl). unfold digest_spec, cell_digest. cbn [fst snd]. split.
  - intro a. rewrite (lookup_map (fun k v => H (base_algo k) v)), Hf.
    destruct (requested names a); reflexivity.
  - rewrite Ht, Hl. destruct (mem_bytes LENGTH names); reflexivity.
Qed.

(* two objects in the same abstract state have the same entries, hence digests *)
Lemma digest_spec_lookup_eq : forall H names1 names2 length d d1 d2 a,
  digest_spec H names1 length d d1 -> digest_spec H names2 length d d2 ->
  requested names1 a = true -> requested names2 a = true ->
  lookup a (fst d1) = lookup a (fst d2) /\ lookup a (fst d1) = Some (H (base_algo a) (prefix a length ++ d)).
Proof.
  intros H n1 n2 length d d1 d2 a [H1 _] [H2 _] R1 R2. rewrite H1, H2, R1, R2. split; reflexivity.
Qed.

(* ------------------------------------------------------------------ C01_chunking *)
Lemma mh_chunked_spec : forall names length chunks c,
  mh_chunked names length chunks = Ok c -> cell_spec names length (concat chunks) c.
Proof.
  intros names length chunks c. unfold mh_chunked.
  destruct (init_cell names length empty_cell) as [c0|e] eqn:Hinit; [|discriminate].
  intro X. inversion X; subst. apply (fold_update_spec chunks names length [] c0).
  apply init_cell_spec. exact Hinit.
Qed.

(* store lemmas *)
Lemma nth_error_set_nth_eq : forall (A : Type) (l : list A) n x y,
  nth_error l n = Some y -> nth_error (set_nth n x l) n = Some x.
Proof.
  induction l as [|z t IH]; intros [|n] x y Hn; cbn in *; try discriminate; [reflexivity|]. eapply IH; eauto.
Qed.

Lemma nth_error_set_nth_neq : forall (A : Type) (l : list A) n k x, n <> k -> nth_error (set_nth n x l) k = nth_error l k.
Proof.
  induction l as [|z t IH]; intros [|n] [|k] x Hne; cbn; try reflexivity; try congruence.
  apply IH. congruence.
Qed.

Lemma length_set_nth : forall (A : Type) (l : list A) n x, length (set_nth n x l) = length l.
Proof. induction l as [|z t IH]; intros [|n] x; cbn; try reflexivity. rewrite IH. reflexivity. Qed.

Lemma nth_error_snoc_last : forall (A : Type) (l : list A) x, nth_error (l ++ [x]) (length l) = Some x.
Proof. intros. rewrite nth_error_app2 by lia. rewrite Nat.sub_diag. reflexivity. Qed.

Lemma nth_error_snoc_old : forall (A : Type) (l : list A) x k, (k < length l)%nat -> nth_error (l ++ [x]) k = nth_error l k.
Proof. intros. apply nth_error_app1. assumption. Qed.

Lemma mh_update_all_spec : forall chunks st h c,
  nth_error st h = Some c ->
  exists st', mh_update_all st h chunks = Some st'
    /\ nth_error st' h = Some (fold_left cell_update chunks c)
    /\ (forall k, k <> h -> nth_error st' k = nth_error st k)
    /\ length st' = length st.
Proof.
  induction chunks as [|ch rest IH]; intros st h c Hh; cbn [mh_update_all fold_left].
  - exists st. repeat split; auto.
  - unfold mh_update. rewrite Hh.
    destruct (IH (set_nth h (cell_update c ch) st) h (cell_update c ch)) as (st' & E1 & E2 & E3 & E4).
    + eapply nth_error_set_nth_eq; eauto.
    + exists st'. repeat split; auto.
      * intros k Hk. rewrite E3 by exact Hk. apply nth_error_set_nth_neq. congruence.
      * rewrite E4. apply length_set_nth.
Qed.

Theorem chunking : forall (st : store) names length st0 h chunks,
  mh_new st names length = Ok (st0, h) ->
  exists st1 c,
    mh_update_all st0 h chunks = Some st1 /\ nth_error st1 h = Some c
    /\ cell_spec names length (concat chunks) c
    /\ (forall H, exists d, mh_digest H st1 h = Some d /\ digest_spec H names length (concat chunks) d)
    /\ (forall k, k <> h -> nth_error st1 k = nth_error st k).
Proof.
  intros st names length st0 h chunks Hnew. unfold mh_new in Hnew.
  destruct (init_cell names length empty_cell) as [c0|e] eqn:Hinit; [|discriminate].
  inversion Hnew; subst st0 h. clear Hnew.
  destruct (mh_update_all_spec chunks (st ++ [c0]) (List.length st) c0 (nth_error_snoc_last _ st c0))
    as (st1 & E1 & E2 & E3 & E4).
  assert (Hspec : cell_spec names length (concat chunks) (fold_left cell_update chunks c0)).
  { apply (fold_update_spec chunks names length [] c0). apply init_cell_spec. exact Hinit. }
  exists st1, (fold_left cell_update chunks c0). repeat split; auto.
  - apply Hspec.
  - apply Hspec.
  - apply Hspec.
  - intro H. exists (cell_digest H (fold_left cell_update chunks c0)). split.
    + unfold mh_digest. rewrite E2. reflexivity.
    + apply cell_digest_spec. exact Hspec.
  - intros k Hk. rewrite E3 by exact Hk.
    destruct (Nat.lt_ge_cases k (List.length st)) as [Hlt|Hge].
    + apply nth_error_snoc_old. exact Hlt.
    + assert (Hn : nth_error st k = None) by (apply nth_error_None; lia). rewrite Hn.
      apply nth_error_None. rewrite app_length. cbn. lia.
Qed.

(* the digests depend on the concatenation of the chunks only *)
Corollary chunking_digest : forall H names length chunks1 chunks2 c1 c2,
  concat chunks1 = concat chunks2 ->
  mh_chunked names length chunks1 = Ok c1 -> mh_chunked names length chunks2 = Ok c2 ->
  forall a, lookup a (fst (cell_digest H c1)) = lookup a (fst (cell_digest H c2))
            /\ snd (cell_digest H c1) = snd (cell_digest H c2).
Proof.
  intros H names length ch1 ch2 c1 c2 E H1 H2 a.
  apply mh_chunked_spec in H1. apply mh_chunked_spec in H2. rewrite E in H1.
  destruct (cell_digest_spec H _ _ _ _ H1) as [A1 B1]. destruct (cell_digest_spec H _ _ _ _ H2) as [A2 B2].
  rewrite A1, A2, B1, B2. split; reflexivity.
Qed.

(* ------------------------------------------------------------------ C01_from_file_total *)
Lemma nonempty_concat_length : forall (rs : list bytes),
  Forall (fun r => r <> []) rs -> (length rs <= length (concat rs))%nat.
Proof.
  induction rs as [|r rs IH]; intro HF; cbn [concat length]; [lia|].
  inversion HF as [|? ? Hr HF']; subst. rewrite app_length. specialize (IH HF').
  destruct r; [congruence|]. cbn [length]. lia.
Qed.

Lemma read_loop_ok : forall rs tail fuel c,
  Forall (fun r => r <> []) rs -> (length rs < fuel)%nat ->
  read_loop fuel c (rs ++ [] :: tail) = Ok (fold_left cell_update rs c).
Proof.
  induction rs as [|r rs IH]; intros tail fuel c HF Hfuel.
  - destruct fuel; [cbn in Hfuel; lia|]. reflexivity.
  - destruct fuel; [cbn in Hfuel; lia|]. inversion HF as [|? ? Hr HF']; subst.
    destruct r as [|b r]; [congruence|]. cbn [app read_loop fold_left].
    apply IH; [exact HF' | cbn [length] in Hfuel; lia].
Qed.

Theorem from_file_total : forall block names length data reads c0,
  init_cell names length empty_cell = Ok c0 ->
  reader_contract block data reads ->
  exists c, from_file_reads names length (S (List.length data)) reads = Ok c /\ cell_spec names length data c.
Proof.
  intros block names length data reads c0 Hinit (rs & tail & Er & Ec & HF).
  assert (HF' : Forall (fun r : bytes => r <> []) rs).
  { eapply Forall_impl; [|exact HF]. intros r [X _]. exact X. }
  exists (fold_left cell_update rs c0). split.
  - unfold from_file_reads. rewrite Hinit, Er. apply read_loop_ok; [exact HF'|].
    pose proof (nonempty_concat_length rs HF'). rewrite Ec in *. apply le_n_S. assumption.
  - rewrite <- Ec. apply (fold_update_spec rs names length [] c0). apply init_cell_spec. exact Hinit.
Qed.

Lemma file_reads_nat_contract : forall fuel blk remaining sched,
  (0 < blk)%nat -> (length remaining < fuel)%nat ->
  exists rs, file_reads_nat fuel blk remaining sched = rs ++ [[]]
             /\ concat rs = remaining
             /\ Forall (fun r => r <> [] /\ (length r <= blk)%nat) rs.
Proof.
  induction fuel as [|fuel IH]; intros blk remaining sched Hblk Hlen; [lia|].
  cbn [file_reads_nat].
  set (want := match sched with [] => blk | k :: _ => Nat.min (S k) blk end).
  assert (Hwant : (0 < want <= blk)%nat) by (subst want; destruct sched; lia).
  destruct (firstn want remaining) as [|b chunk] eqn:Efirst.
  - exists []. repeat split; [|constructor].
    destruct remaining as [|x r]; [reflexivity|]. destruct want; [lia|]. cbn in Efirst. discriminate.
  - destruct (IH blk (skipn want remaining) (tl sched) Hblk) as (rs & E1 & E2 & E3).
    + rewrite skipn_length.
      assert (Hne : (0 < length remaining)%nat).
      { destruct remaining; [rewrite firstn_nil in Efirst; discriminate | cbn; lia]. }
      lia.
    + exists ((b :: chunk) :: rs). repeat split.
      * rewrite E1. reflexivity.
      * cbn [concat]. rewrite E2, <- Efirst. apply firstn_skipn.
      * constructor; [|exact E3]. split; [discriminate|]. rewrite <- Efirst, firstn_length. lia.
Qed.

(* a file-like object honours the reader contract, provided the block size is positive *)
Theorem file_reads_contract : forall block data sched,
  0 < block -> reader_contract block data (file_reads block data sched).
Proof.
  intros block data sched Hblock. unfold file_reads.
  destruct (file_reads_nat_contract (S (length data)) (N.to_nat block) data sched) as (rs & E1 & E2 & E3); [lia|lia|].
  exists rs, []. repeat split; auto.
  eapply Forall_impl; [|exact E3]. intros r [X Y]. split; [exact X|]. rewrite lenN_length. lia.
Qed.

Theorem from_file_obj_total : forall block names length data sched c0,
  0 < block -> init_cell names length empty_cell = Ok c0 ->
  exists c, from_file_obj block names length data sched = Ok c /\ cell_spec names length data c.
Proof.
  intros block names length data sched c0 Hblock Hinit. unfold from_file_obj.
  eapply from_file_total; [exact Hinit|]. apply file_reads_contract. exact Hblock.
Qed.

Lemma from_file_obj_inv : forall block names length data sched c,
  0 < block -> from_file_obj block names length data sched = Ok c -> cell_spec names length data c.
Proof.
  intros block names length data sched c Hblock Hc.
  destruct (init_cell names length empty_cell) as [c0|e] eqn:Hinit.
  - destruct (from_file_obj_total block names length data sched c0 Hblock Hinit) as (c' & E & S). congruence.
  - unfold from_file_obj, from_file_reads in Hc. rewrite Hinit in Hc. discriminate.
Qed.

(* the side condition is needed: with a zero block size nothing is read *)
Lemma block_zero_reads_nothing : forall data sched, file_reads 0 data sched = [[]].
Proof. intros data sched. unfold file_reads. cbn. destruct sched; reflexivity. Qed.

(* ------------------------------------------------------------------ C01_subsets *)
Theorem subsets : forall H names length data sched,
  (names_ok names length = true ->
   exists c, mh_from_file names length data sched = Ok c /\ digest_spec H names length data (cell_digest H c))
  /\ (names_ok names length = false -> mh_from_file names length data sched = Err ValueError).
Proof.
  intros H names length data sched. split; intro Hok.
  - apply init_cell_ok_iff with (c0 := empty_cell) in Hok. destruct Hok as [c0 Hinit].
    destruct (from_file_obj_total HASH_BLOCK_SIZE names length data sched c0 block_size_positive Hinit) as (c & E & S).
    exists c. split; [exact E|]. apply cell_digest_spec. exact S.
  - unfold mh_from_file, from_file_obj, from_file_reads.
    destruct (init_cell names length empty_cell) as [c0|e] eqn:Hinit.
    + assert (X : names_ok names length = true) by (apply (init_cell_ok_iff names length empty_cell); eauto). congruence.
    + apply init_cell_err in Hinit. subst. reflexivity.
Qed.

(* a requested digest does not depend on what else is requested (nor on the
   chunking or the reader), and the tracked length is the number of bytes *)
Corollary subsets_independent : forall H names1 names2 length data sched1 sched2 c1 c2 a,
  mh_from_file names1 length data sched1 = Ok c1 -> mh_from_file names2 length data sched2 = Ok c2 ->
  requested names1 a = true -> requested names2 a = true ->
  lookup a (fst (cell_digest H c1)) = lookup a (fst (cell_digest H c2))
  /\ lookup a (fst (cell_digest H c1)) = Some (H (base_algo a) (prefix a length ++ data)).
Proof.
  intros H n1 n2 length data s1 s2 c1 c2 a E1 E2 R1 R2.
  apply (from_file_obj_inv _ _ _ _ _ _ block_size_positive) in E1.
  apply (from_file_obj_inv _ _ _ _ _ _ block_size_positive) in E2.
  eapply digest_spec_lookup_eq; eauto using cell_digest_spec.
Qed.

(* ------------------------------------------------------------------ C01_copy_independent *)
Lemma cell_copy_id : forall c, cell_copy c = c.
Proof.
  intros [f t l]. unfold cell_copy. cbn [fed track len]. f_equal.
  induction f as [|[k v] f IH]; cbn; [reflexivity|]. rewrite IH. reflexivity.
Qed.

Theorem copy_independent : forall (st : store) h c,
  nth_error st h = Some c ->
  exists st' h',
    mh_copy st h = Some (st', Some h')
    /\ h' <> h /\ nth_error st h' = None                          (* a fresh handle *)
    /\ (forall k, k <> h' -> nth_error st' k = nth_error st k)    (* nothing else changes *)
    /\ nth_error st' h' = Some c                                  (* the copy is in the same state *)
    /\ (forall H, mh_digest H st' h' = mh_digest H st h)
    /\ (forall chunks, exists st1,                                (* feeding the copy ... *)
          mh_update_all st' h' chunks = Some st1
          /\ (forall H, mh_digest H st1 h = mh_digest H st h)     (* ... leaves the original alone *)
          /\ nth_error st1 h' = Some (fold_left cell_update chunks c))
    /\ (forall chunks, exists st1,                                (* feeding the original ... *)
          mh_update_all st' h chunks = Some st1
          /\ (forall H, mh_digest H st1 h' = mh_digest H st h)    (* ... leaves the copy alone *)
          /\ nth_error st1 h = Some (fold_left cell_update chunks c)).
Proof.
  intros st h c Hh.
  assert (Hlt : (h < length st)%nat) by (apply nth_error_Some; congruence).
  exists (st ++ [c]), (length st).
  assert (Hold : forall k, k <> length st -> nth_error (st ++ [c]) k = nth_error st k).
  { intros k Hk. destruct (Nat.lt_ge_cases k (length st)) as [Hl|Hg].
    - apply nth_error_snoc_old. exact Hl.
    - assert (Hn : nth_error st k = None) by (apply nth_error_None; lia). rewrite Hn.
      apply nth_error_None. rewrite app_length. cbn. lia. }
  repeat split.
  - unfold mh_copy, mh_copy_with, from_state_new. rewrite Hh, cell_copy_id. reflexivity.
  - lia.
  - apply nth_error_None. lia.
  - exact Hold.
  - apply nth_error_snoc_last.
  - intro H. unfold mh_digest. rewrite nth_error_snoc_last, Hh. reflexivity.
  - intro chunks.
    destruct (mh_update_all_spec chunks (st ++ [c]) (length st) c (nth_error_snoc_last _ st c)) as (st1 & E1 & E2 & E3 & E4).
    exists st1. repeat split; auto.
    intro H. unfold mh_digest. rewrite E3 by lia. rewrite Hold by lia. reflexivity.
  - intro chunks.
    assert (Hh' : nth_error (st ++ [c]) h = Some c) by (rewrite Hold by lia; exact Hh).
    destruct (mh_update_all_spec chunks (st ++ [c]) h c Hh') as (st1 & E1 & E2 & E3 & E4).
    exists st1. repeat split; auto.
    intro H. unfold mh_digest. rewrite E3 by lia. rewrite nth_error_snoc_last, Hh. reflexivity.
Qed.

(* the code before the fix: copy() allocates the object and returns None *)
Theorem copy_refuted_old :
  exists (st : store) h c, nth_error st h = Some c /\ exists st', mh_copy_old st h = Some (st', None).
Proof. exists [empty_cell], 0%nat, empty_cell. split; [reflexivity|]. eexists. vm_compute. reflexivity. Qed.

Theorem copy_old_never_returns : forall st h st' r, mh_copy_old st h = Some (st', r) -> r = None.
Proof.
  intros st h st' r. unfold mh_copy_old, mh_copy_with, from_state_old.
  destruct (nth_error st h); [|discriminate]. intro X. inversion X. reflexivity.
Qed.

(* ------------------------------------------------------------------ C01_routes_agree *)
Lemma blob_manifest_git_object : forall d, blob_manifest d = git_object BLOB d.
Proof. intro d. unfold blob_manifest, git_object, git_header. rewrite <- !app_assoc. reflexivity. Qed.

Lemma prefix_git : forall n, prefix SHA1_GIT (Some n) = git_header BLOB n.
Proof. intro n. unfold prefix. replace (ends_with GIT_SUFFIX SHA1_GIT) with true by (vm_compute; reflexivity). reflexivity. Qed.

Lemma prefix_plain : forall a length, ends_with GIT_SUFFIX a = false -> prefix a length = [].
Proof. intros a length E. unfold prefix. rewrite E. reflexivity. Qed.

Lemma digest_spec_default : forall H names n data d,
  (forall a, In a FOUR -> requested names a = true) ->
  digest_spec H names (Some (lenN data)) data d ->
  content_of_dict KeyError (fst d) n = Ok (mkContent (H SHA1 data) (H SHA1 (blob_manifest data)) (H SHA256 data) (H BLAKE2S256 data) n)
  /\ content_of_dict TypeError (fst d) n = Ok (mkContent (H SHA1 data) (H SHA1 (blob_manifest data)) (H SHA256 data) (H BLAKE2S256 data) n).
Proof.
  intros H names n data d Hreq [Hl _].
  unfold content_of_dict. rewrite !Hl.
  rewrite !Hreq by (cbn; tauto).
  rewrite prefix_git.
  rewrite !prefix_plain by (vm_compute; reflexivity).
  replace (base_algo SHA1) with SHA1 by (vm_compute; reflexivity).
  replace (base_algo SHA1_GIT) with SHA1 by (vm_compute; reflexivity).
  replace (base_algo SHA256) with SHA256 by (vm_compute; reflexivity).
  replace (base_algo BLAKE2S256) with BLAKE2S256 by (vm_compute; reflexivity).
  rewrite blob_manifest_git_object. unfold git_object. cbn [app]. split; reflexivity.
Qed.

Lemma requested_default : forall a, In a FOUR -> requested DEFAULT_ALGORITHMS a = true.
Proof.
  intros a Hin. destruct default_is_four as [_ X]. rewrite forallb_forall in X. apply X in Hin. exact Hin.
Qed.

Lemma requested_names5 : forall a, In a FOUR -> requested NAMES5 a = true.
Proof.
  intros a Hin. pose proof (requested_default a Hin) as R. unfold requested, NAMES5 in *.
  rewrite mem_bytes_cons. apply andb_true_iff in R. destruct R as [R1 R2]. rewrite R1, R2, orb_true_r. reflexivity.
Qed.

Lemma keys_default : forall H names length data c,
  cell_spec names length data c -> (forall k, requested names k = true -> mem_bytes k FOUR = true) ->
  forallb (fun kv => mem_bytes (fst kv) FOUR) (fst (cell_digest H c)) = true.
Proof.
  intros H names length data c [Hf _] Hfour. apply forallb_forall. intros [k v] Hin. cbn [fst].
  unfold cell_digest in Hin. cbn [fst] in Hin. apply in_map_iff in Hin. destruct Hin as ([k' v'] & E & Hin).
  cbn [fst snd] in E. inversion E; subst. apply lookup_In in Hin. rewrite Hf in Hin.
  destruct (requested names k) eqn:R; [auto | congruence].
Qed.

Lemma default_keys_four : forall k, requested DEFAULT_ALGORITHMS k = true -> mem_bytes k FOUR = true.
Proof.
  intros k R. unfold requested in R. apply andb_true_iff in R. destruct R as [R _].
  apply mem_bytes_In in R. destruct default_is_four as [X _]. rewrite forallb_forall in X. apply X. exact R.
Qed.

Lemma mh_from_data_default : forall data,
  exists c, mh_from_data DEFAULT_ALGORITHMS data = Ok c /\ cell_spec DEFAULT_ALGORITHMS (Some (lenN data)) data c.
Proof.
  intro data. pose proof (default_names_ok (lenN data)) as Hok.
  apply init_cell_ok_iff with (c0 := empty_cell) in Hok. destruct Hok as [c0 Hinit].
  apply (from_file_obj_total HASH_BLOCK_SIZE _ _ data [] c0 block_size_positive Hinit).
Qed.

Section Routes.
  Variable H : bytes -> bytes -> bytes.

  Lemma mh_route_default : forall names data r,
    names_ok names (Some (lenN data)) = true ->
    (forall a, In a FOUR -> requested names a = true) -> mem_bytes LENGTH names = true ->
    (forall c, r = Ok c -> cell_spec names (Some (lenN data)) data c) ->
    forall c, r = Ok c -> content_of_digest (cell_digest H c) = Some (expected H data).
  Proof.
    intros names data r Hok Hreq Hlen Hspec c Hr. specialize (Hspec c Hr).
    pose proof (cell_digest_spec H _ _ _ _ Hspec) as Hd. unfold content_of_digest.
    destruct Hd as [Hd1 Hd2]. rewrite Hd2, Hlen.
    destruct (digest_spec_default H names (lenN data) data (cell_digest H c) Hreq (conj Hd1 Hd2)) as [E _].
    rewrite E. reflexivity.
  Qed.

  Lemma default_digest_ok : forall data,
    exists d c, default_digest H data = Ok d /\ d = fst (cell_digest H c)
                /\ cell_spec DEFAULT_ALGORITHMS (Some (lenN data)) data c.
  Proof.
    intro data. destruct (mh_from_data_default data) as (c & E & S).
    exists (fst (cell_digest H c)), c. unfold default_digest. rewrite E. auto.
  Qed.

  Lemma model_hash_data_ok : forall data, model_hash_data H data = Ok (expected H data).
  Proof.
    intro data. destruct (default_digest_ok data) as (d & c & E & Ed & S). unfold model_hash_data. rewrite E. subst d.
    rewrite (keys_default H _ _ _ _ S default_keys_four).
    apply (digest_spec_default H DEFAULT_ALGORITHMS (lenN data) data (cell_digest H c) requested_default).
    apply cell_digest_spec. exact S.
  Qed.

  Lemma disk_from_bytes_ok : forall data, disk_from_bytes H data = Ok (expected H data).
  Proof.
    intro data. destruct (default_digest_ok data) as (d & c & E & Ed & S). unfold disk_from_bytes. rewrite E. subst d.
    apply (digest_spec_default H DEFAULT_ALGORITHMS (lenN data) data (cell_digest H c) requested_default).
    apply cell_digest_spec. exact S.
  Qed.

  Lemma disk_from_file_reg_ok : forall data sched maxlen,
    disk_from_file H (FReg data sched) maxlen =
    Ok (expected H data, match maxlen with Some m => m <? lenN data | None => false end).
  Proof.
    intros data sched maxlen. cbn [disk_from_file].
    pose proof (default_names_ok (lenN data)) as Hok.
    apply init_cell_ok_iff with (c0 := empty_cell) in Hok. destruct Hok as [c0 Hinit].
    destruct (from_file_obj_total HASH_BLOCK_SIZE _ _ data sched c0 block_size_positive Hinit) as (c & E & S).
    unfold mh_from_path, mh_from_file. rewrite E.
    destruct (digest_spec_default H DEFAULT_ALGORITHMS (lenN data) data (cell_digest H c) requested_default
                (cell_digest_spec H _ _ _ _ S)) as [X _].
    rewrite X. reflexivity.
  Qed.

  Lemma hash_git_data_blob : forall data, hash_git_data H data BLOB SHA1 = Ok (H SHA1 (blob_manifest data)).
  Proof.
    intro data. unfold hash_git_data, git_object_header. rewrite blob_is_git_type.
    rewrite blob_manifest_git_object. reflexivity.
  Qed.

  Lemma content_git_object_blob : forall data, content_git_object (Some data) = Ok (blob_manifest data).
  Proof.
    intro data. unfold content_git_object, git_object_header. rewrite blob_is_git_type.
    rewrite blob_manifest_git_object. reflexivity.
  Qed.

  Theorem routes_agree : forall data,
    let e := expected H data in
    (* MultiHash.from_data / from_file (any reader) / from_path (any reader) / chunked update, length = |data| *)
    (exists c, mh_from_data NAMES5 data = Ok c /\ content_of_digest (cell_digest H c) = Some e)
    /\ (forall sched, exists c, mh_from_file NAMES5 (Some (lenN data)) data sched = Ok c
                                /\ content_of_digest (cell_digest H c) = Some e)
    /\ (forall sched, exists c, mh_from_path NAMES5 data sched = Ok c
                                /\ content_of_digest (cell_digest H c) = Some e)
    /\ (forall block reads, reader_contract block data reads ->
          exists c, from_file_reads NAMES5 (Some (lenN data)) (S (List.length data)) reads = Ok c
                    /\ content_of_digest (cell_digest H c) = Some e)
    /\ (forall chunks, concat chunks = data ->
          exists c, mh_chunked NAMES5 (Some (lenN data)) chunks = Ok c
                    /\ content_of_digest (cell_digest H c) = Some e)
    (* model.Content.from_data, model.SkippedContent.from_data *)
    /\ model_content_from_data H data = Ok e
    /\ model_skipped_from_data H data = Ok e
    (* from_disk.Content.from_bytes / from_file on a regular file (any reader, any size limit) / on a symlink *)
    /\ disk_from_bytes H data = Ok e
    /\ (forall sched maxlen, exists absent, disk_from_file H (FReg data sched) maxlen = Ok (e, absent))
    /\ disk_from_file H (FSymlink data) None = Ok (e, false)
    (* hashutil.hash_git_data(data, "blob"), sha1 of git_objects.content_git_object *)
    /\ hash_git_data H data BLOB SHA1 = Ok (c_sha1_git e)
    /\ rmap (H SHA1) (content_git_object (Some data)) = Ok (c_sha1_git e)
    (* swh identify <file>, swh identify - *)
    /\ (forall sched, cli_swhid_of_file H (FReg data sched) = Ok (swhid_text (c_sha1_git e)))
    /\ cli_swhid_of_file_content H data = Ok (swhid_text (c_sha1_git e)).
  Proof.
    intros data e.
    pose proof (names5_ok (lenN data)) as Hok5.
    assert (Hlen5 : mem_bytes LENGTH NAMES5 = true) by (vm_compute; reflexivity).
    pose proof Hok5 as Hinit5. apply init_cell_ok_iff with (c0 := empty_cell) in Hinit5. destruct Hinit5 as [c0 Hinit5].
    assert (Hfile : forall sched, exists c, mh_from_file NAMES5 (Some (lenN data)) data sched = Ok c
                                /\ content_of_digest (cell_digest H c) = Some e).
    { intro sched.
      destruct (from_file_obj_total HASH_BLOCK_SIZE _ _ data sched c0 block_size_positive Hinit5) as (c & E & S).
      exists c. split; [exact E|].
      eapply (mh_route_default NAMES5 data (Ok c) Hok5 requested_names5 Hlen5); [|reflexivity].
      intros c' X. inversion X; subst. exact S. }
    repeat split.
    - apply (Hfile []).
    - exact Hfile.
    - intro sched. apply (Hfile sched).
    - intros block reads Hc.
      destruct (from_file_total block _ _ data reads c0 Hinit5 Hc) as (c & E & S).
      exists c. split; [exact E|].
      eapply (mh_route_default NAMES5 data (Ok c) Hok5 requested_names5 Hlen5); [|reflexivity].
      intros c' X. inversion X; subst. exact S.
    - intros chunks Hch. unfold mh_chunked. rewrite Hinit5. eexists. split; [reflexivity|].
      eapply (mh_route_default NAMES5 data (Ok _) Hok5 requested_names5 Hlen5); [|reflexivity].
      intros c' X. inversion X as [X']. rewrite <- Hch at 2.
      apply (fold_update_spec chunks NAMES5 _ [] c0). apply init_cell_spec. exact Hinit5.
    - apply model_hash_data_ok.
    - apply model_hash_data_ok.
    - apply disk_from_bytes_ok.
    - intros sched maxlen. eexists. apply disk_from_file_reg_ok.
    - cbn [disk_from_file]. rewrite disk_from_bytes_ok. reflexivity.
    - apply hash_git_data_blob.
    - rewrite content_git_object_blob. reflexivity.
    - intro sched. unfold cli_swhid_of_file. rewrite (disk_from_file_reg_ok data sched None). reflexivity.
    - unfold cli_swhid_of_file_content. rewrite disk_from_bytes_ok. reflexivity.
  Qed.
End Routes.

(* ------------------------------------------------------------------ the domain hypothesis is needed *)
(* MultiHash(length=4) fed with the 3 bytes "abc": the sha1_git is not the blob id of "abc" *)
Theorem wrong_length_example :
  exists data n c_wrong c_right,
    n <> lenN data
    /\ mh_chunked NAMES5 (Some n) [data] = Ok c_wrong
    /\ mh_chunked NAMES5 (Some (lenN data)) [data] = Ok c_right
    /\ lookup SHA1_GIT (fst (cell_digest Hexec c_wrong)) <> lookup SHA1_GIT (fst (cell_digest Hexec c_right))
    /\ lookup SHA1 (fst (cell_digest Hexec c_wrong)) = lookup SHA1 (fst (cell_digest Hexec c_right)).
Proof.
  exists (bs "abc"), 4. eexists. eexists. split; [discriminate|].
  split; [vm_compute; reflexivity|]. split; [vm_compute; reflexivity|].
  split; [vm_compute; discriminate | vm_compute; reflexivity].
Qed.

(* ------------------------------------------------------------------ presentation function of the driver *)
Lemma view_sound : forall data x p, view data x = (p, true) -> x = p ++ data.
Proof.
  intros data x p. unfold view. destruct data as [|b data]; [intro X; inversion X|].
  destruct (beqb (skipn (length x - length (b :: data)) x) (b :: data)) eqn:E; intro X; inversion X; subst.
  apply beqb_true in E. remember (length x - length (b :: data))%nat as k.
  rewrite <- (firstn_skipn k x) at 1. rewrite E. subst k. reflexivity.
Qed.

(* ------------------------------------------------------------------ satisfiability *)
Theorem hyps_satisfiable :
  (* a store with a live object, fed in pieces with empty chunks, and copied *)
  (exists st0 h, mh_new [] NAMES5 (Some 3) = Ok (st0, h)
      /\ exists st1, mh_update_all st0 h [bs "a"; []; bs "bc"; []] = Some st1
      /\ exists st2 h', mh_copy st1 h = Some (st2, Some h') /\ h' <> h)
  (* a short-reading reader over 10 bytes honours the contract *)
  /\ reader_contract 4 (bs "abcdefghij") [bs "a"; bs "bcde"; bs "fg"; bs "hij"; []]
  (* the end-to-end instance with real SHA-1 gives git's id of the blob "abc" *)
  /\ rmap (fun c => hexlify (c_sha1_git c)) (model_content_from_data Hexec (bs "abc"))
     = Ok (bs "f2ba8f84ab5c1bce84a7b441cb1959cfc7093b7f").
Proof.
  split; [|split].
  - eexists. eexists. split; [vm_compute; reflexivity|]. eexists. split; [vm_compute; reflexivity|].
    eexists. eexists. split; [vm_compute; reflexivity|]. discriminate.
  - exists [bs "a"; bs "bcde"; bs "fg"; bs "hij"], []. split; [reflexivity|]. split; [reflexivity|].
    repeat constructor; try discriminate; vm_compute; discriminate.
  - exact ex_blob_abc.
Qed.

(* ------------------------------------------------------------------ packaged statements for Props/C01.v *)
Theorem from_file_total_full : forall block names length data c0,
  init_cell names length empty_cell = Ok c0 ->
  (forall reads, reader_contract block data reads ->
     exists c, from_file_reads names length (S (List.length data)) reads = Ok c /\ cell_spec names length data c)
  /\ (0 < block -> forall sched,
        reader_contract block data (file_reads block data sched)
        /\ exists c, from_file_obj block names length data sched = Ok c /\ cell_spec names length data c).
Proof.
  intros block names length data c0 Hinit. split.
  - intros reads Hc. eapply from_file_total; eauto.
  - intros Hblock sched. split; [apply file_reads_contract; exact Hblock|].
    eapply from_file_obj_total; eauto.
Qed.

Theorem new_errors : forall names length,
  (names_ok names length = true -> exists c, init_cell names length empty_cell = Ok c)
  /\ (names_ok names length = false -> init_cell names length empty_cell = Err ValueError).
Proof.
  intros names length. split; intro Hok.
  - apply init_cell_ok_iff. exact Hok.
  - destruct (init_cell names length empty_cell) as [c|e] eqn:Hinit.
    + assert (X : names_ok names length = true) by (apply (init_cell_ok_iff names length empty_cell); eauto). congruence.
    + apply init_cell_err in Hinit. subst. reflexivity.
Qed.

Theorem blob_manifest_parses : forall d,
  blob_manifest d = git_object BLOB d /\ parse_git_object (blob_manifest d) = Some (BLOB, d).
Proof.
  intro d. split; [apply blob_manifest_git_object|]. rewrite blob_manifest_git_object.
  apply parse_git_object_ok. vm_compute. intuition discriminate.
Qed.

(* hashutil.hash_git_data for every git object type and every base algorithm *)
Theorem hash_git_data_any : forall (H : bytes -> bytes -> bytes) data ty base,
  (mem_bytes ty GIT_OBJECT_TYPES = true ->
     hash_git_data H data ty base = Ok (H base (git_object ty data))
     /\ (~ In SP ty -> parse_git_object (git_object ty data) = Some (ty, data)))
  /\ (mem_bytes ty GIT_OBJECT_TYPES = false -> hash_git_data H data ty base = Err ValueError).
Proof.
  intros H data ty base. unfold hash_git_data, git_object_header. split; intro E; rewrite E.
  - split; [reflexivity|]. intro Hsp. apply parse_git_object_ok. exact Hsp.
  - reflexivity.
Qed.

Lemma git_types_space_free : forallb (fun ty => negb (memb SP ty)) GIT_OBJECT_TYPES = true.
Proof. vm_compute. reflexivity. Qed.
