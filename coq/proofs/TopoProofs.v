From Coq Require Import List NArith ZArith Bool Lia Permutation Arith.
From SWH.model Require Import Topo.
Import ListNotations.

Definition ids_distinct (log : list rev) : Prop := NoDup (map rid log).
Definition closed (log : list rev) : Prop :=
  forall r, In r log -> forall p, In p (rparents r) -> In p (map rid log).
Definition acyclic (log : list rev) : Prop :=
  exists rank : N -> nat, forall r, In r log -> forall p, In p (rparents r) -> rank p < rank (rid r).
(* every revision comes after all of its parents *)
Definition parents_first (out : list rev) : Prop :=
  forall o1 r o2, out = o1 ++ r :: o2 -> forall p, In p (rparents r) -> In p (map rid o1).

(* ------------------------------------------------------------------ *)
(* generic helpers *)

Lemma rev_eq_dec : forall a b : rev, {a = b} + {a <> b}.
Proof.
  unfold rev. decide equality.
  - apply (list_eq_dec N.eq_dec).
  - apply N.eq_dec.
Defined.

Lemma memN_In : forall k l, memN k l = true <-> In k l.
Proof.
  induction l as [|x l IH]; simpl.
  - split; [discriminate|tauto].
  - rewrite orb_true_iff, IH, N.eqb_eq. split; intros [H|H]; subst; auto.
Qed.

Lemma memN_app : forall p a b, memN p (a ++ b) = memN p a || memN p b.
Proof.
  induction a as [|x a IH]; simpl; intros b; auto.
  rewrite IH, orb_assoc. reflexivity.
Qed.

Lemma nodup_app_elim : forall (A : Type) (a b : list A) x,
  NoDup (a ++ b) -> In x a -> In x b -> False.
Proof.
  induction a as [|y a IH]; simpl; intros b x ND Ha Hb.
  - contradiction.
  - inversion ND as [|? ? Hn ND']; subst. destruct Ha as [->|Ha].
    + apply Hn. apply in_or_app. right; assumption.
    + eapply IH; eauto.
Qed.

Lemma nodup_app_intro : forall (A : Type) (a b : list A),
  NoDup a -> NoDup b -> (forall x, In x a -> In x b -> False) -> NoDup (a ++ b).
Proof.
  induction a as [|y a IH]; simpl; intros b Na Nb Hd.
  - assumption.
  - inversion Na as [|? ? Hn Na']; subst. constructor.
    + intro Hin. apply in_app_or in Hin. destruct Hin as [Hin|Hin].
      * contradiction.
      * apply (Hd y); auto.
    + apply IH; auto. intros x Hx Hb. apply (Hd x); auto.
Qed.

Lemma nodup_app_l : forall (A : Type) (a b : list A), NoDup (a ++ b) -> NoDup a.
Proof.
  induction a as [|y a IH]; simpl; intros b ND.
  - constructor.
  - inversion ND as [|? ? Hn ND']; subst. constructor.
    + intro Hin. apply Hn. apply in_or_app. left; assumption.
    + eapply IH; eauto.
Qed.

Lemma nodup_app_r : forall (A : Type) (a b : list A), NoDup (a ++ b) -> NoDup b.
Proof.
  induction a as [|y a IH]; simpl; intros b ND.
  - assumption.
  - inversion ND; subst. apply IH; assumption.
Qed.

Lemma nodup_filter : forall (A : Type) (f : A -> bool) (l : list A), NoDup l -> NoDup (filter f l).
Proof.
  induction l as [|x l IH]; simpl; intros ND.
  - constructor.
  - inversion ND as [|? ? Hn ND']; subst. destruct (f x).
    + constructor; auto. intro Hin. apply filter_In in Hin. tauto.
    + auto.
Qed.

Lemma filter_ext_in' : forall (A : Type) (f g : A -> bool) (l : list A),
  (forall x, In x l -> f x = g x) -> filter f l = filter g l.
Proof.
  induction l as [|x l IH]; simpl; intros H.
  - reflexivity.
  - rewrite (H x) by auto. rewrite IH by auto. reflexivity.
Qed.

Lemma nodup_map_inv : forall (l : list rev), NoDup (map rid l) -> NoDup l.
Proof.
  induction l as [|x l IH]; simpl; intros ND.
  - constructor.
  - inversion ND as [|? ? Hn ND']; subst. constructor; auto.
    intro Hin. apply Hn. apply in_map. assumption.
Qed.

Lemma ids_inj : forall (l : list rev) a b,
  NoDup (map rid l) -> In a l -> In b l -> rid a = rid b -> a = b.
Proof.
  induction l as [|x l IH]; simpl; intros a b ND Ha Hb E.
  - contradiction.
  - inversion ND as [|? ? Hn ND']; subst.
    destruct Ha as [->|Ha]; destruct Hb as [->|Hb]; auto.
    + exfalso. apply Hn. rewrite E. apply in_map. assumption.
    + exfalso. apply Hn. rewrite <- E. apply in_map. assumption.
Qed.

Lemma nodup_ids_of_incl : forall (log l : list rev),
  NoDup (map rid log) -> NoDup l -> incl l log -> NoDup (map rid l).
Proof.
  induction l as [|x l IH]; simpl; intros NDlog ND Hincl.
  - constructor.
  - inversion ND as [|? ? Hn ND']; subst. constructor.
    + intro Hin. apply in_map_iff in Hin. destruct Hin as (y & Ey & Hy).
      assert (y = x) as ->.
      { apply (ids_inj log); auto.
        - apply Hincl. right; assumption.
        - apply Hincl. left; reflexivity. }
      contradiction.
    + apply IH; auto. intros y Hy. apply Hincl. right; assumption.
Qed.

(* ------------------------------------------------------------------ *)
(* counting *)

Definition cnt (k : N) (ps : list N) : nat := length (filter (N.eqb k) ps).
Definition pend (ids ps : list N) : nat :=
  length (filter (fun p => negb (memN p ids)) ps).

Lemma pend_nil : forall ps, pend [] ps = length ps.
Proof.
  unfold pend. induction ps as [|p ps IH]; simpl; auto.
Qed.

Lemma pend_snoc : forall ids k ps, memN k ids = false ->
  pend (ids ++ [k]) ps + cnt k ps = pend ids ps.
Proof.
  intros ids k ps Hk. unfold pend, cnt.
  induction ps as [|p ps IH]; simpl; auto.
  rewrite memN_app. simpl. rewrite orb_false_r.
  destruct (N.eqb_spec k p) as [E|E].
  - subst p. rewrite Hk. rewrite N.eqb_refl. simpl. lia.
  - destruct (N.eqb_spec p k) as [E'|E']; [congruence|].
    rewrite orb_false_r. destruct (memN p ids); simpl; lia.
Qed.

Lemma pend_zero_intro : forall ids ps, (forall p, In p ps -> In p ids) -> pend ids ps = 0.
Proof.
  unfold pend. induction ps as [|p ps IH]; simpl; intros H; auto.
  assert (memN p ids = true) as -> by (apply memN_In; auto).
  simpl. apply IH. auto.
Qed.

Lemma pend_zero_elim : forall ids ps, pend ids ps = 0 -> forall p, In p ps -> In p ids.
Proof.
  unfold pend. induction ps as [|p ps IH]; simpl; intros H x Hx.
  - contradiction.
  - destruct (memN p ids) eqn:E; simpl in H.
    + destruct Hx as [->|Hx]; auto. apply memN_In; assumption.
    + discriminate.
Qed.

(* ------------------------------------------------------------------ *)
(* degree map *)

Lemma deg_get_set_same : forall k v m, deg_get k (deg_set k v m) = Some v.
Proof.
  induction m as [|[k' v'] m IH]; simpl.
  - rewrite N.eqb_refl; auto.
  - destruct (N.eqb k k') eqn:E; simpl; rewrite ?N.eqb_refl, ?E; auto.
Qed.

Lemma deg_get_set_other : forall x k v m, x <> k -> deg_get x (deg_set k v m) = deg_get x m.
Proof.
  intros x k v m Hne. induction m as [|[k' v'] m IH]; simpl.
  - destruct (N.eqb_spec x k); [contradiction|auto].
  - destruct (N.eqb_spec k k'); simpl.
    + subst k'. destruct (N.eqb_spec x k); [contradiction|auto].
    + destruct (N.eqb x k'); auto.
Qed.

Definition degf (m : degmap) (r : rev) : degmap :=
  deg_set (rid r) (Z.of_nat (length (rparents r))) m.

Lemma init_deg_aux : forall l m, NoDup (map rid l) ->
  (forall x, ~ In x (map rid l) -> deg_get x (fold_left degf l m) = deg_get x m) /\
  (forall r, In r l -> deg_get (rid r) (fold_left degf l m) = Some (Z.of_nat (length (rparents r)))).
Proof.
  induction l as [|a l IH]; simpl; intros m ND.
  - split; [auto|tauto].
  - inversion ND as [|? ? Hnin ND']; subst.
    destruct (IH (degf m a) ND') as [H1 H2]. split.
    + intros x Hx. rewrite H1 by tauto. unfold degf. apply deg_get_set_other.
      intro; subst; tauto.
    + intros r [->|Hr].
      * rewrite H1 by auto. unfold degf. apply deg_get_set_same.
      * apply H2; auto.
Qed.

Lemma init_deg_get : forall log r, NoDup (map rid log) -> In r log ->
  deg_get (rid r) (init_deg log) = Some (Z.of_nat (length (rparents r))).
Proof.
  intros log r ND Hr. unfold init_deg.
  destruct (init_deg_aux log [] ND) as [_ H2]. apply H2. assumption.
Qed.

(* ------------------------------------------------------------------ *)
(* queue indexing *)

Lemma nth_split_remove : forall (q : list rev) i r0, i < length q ->
  exists q1 q2, q = q1 ++ nth i q r0 :: q2 /\ remove_nth i q = q1 ++ q2.
Proof.
  induction q as [|x q IH]; simpl; intros i r0 Hi.
  - lia.
  - destruct i as [|i].
    + exists [], q. auto.
    + destruct (IH i r0) as (q1 & q2 & E1 & E2); [lia|].
      exists (x :: q1), q2. simpl. split; [f_equal; exact E1|f_equal; exact E2].
Qed.

Lemma index_of_spec : forall k q i r0, index_of k q = Some i ->
  i < length q /\ rid (nth i q r0) = k.
Proof.
  induction q as [|x q IH]; simpl; intros i r0 H.
  - discriminate.
  - destruct (N.eqb_spec k (rid x)).
    + inversion H; subst. split; [lia|auto].
    + destruct (index_of k q) as [j|] eqn:E; [|discriminate].
      inversion H; subst. destruct (IH j r0 eq_refl). split; [lia|auto].
Qed.

(* ------------------------------------------------------------------ *)
(* the inner loop over children *)

Definition ready_cond (n : nat) (v : nat) : bool :=
  negb (Nat.eqb n 0) && Z.eqb (Z.of_nat v) (Z.of_nat n).

Lemma pc_block : forall (ln : list N) c cs d q v,
  deg_get (rid c) d = Some (Z.of_nat v) -> length ln <= v ->
  exists d1,
    process_children (map (fun _ : N => c) ln ++ cs) d q
      = process_children cs d1 (if ready_cond (length ln) v then q ++ [c] else q)
    /\ deg_get (rid c) d1 = Some (Z.of_nat (v - length ln))
    /\ forall x, x <> rid c -> deg_get x d1 = deg_get x d.
Proof.
  induction ln as [|a ln IH]; intros c cs d q v Hd Hle; cbn [map app length] in *.
  - exists d. split; [reflexivity|]. split; [|auto].
    rewrite Nat.sub_0_r. assumption.
  - cbn [process_children]. rewrite Hd.
    destruct (Z.eqb_spec (Z.of_nat v - 1) 0) as [E|E].
    + assert (v = 1) by lia. subst v.
      assert (ln = []) by (destruct ln; cbn [length] in *; [auto|lia]). subst ln.
      cbn [map app length].
      exists (deg_set (rid c) (Z.of_nat 1 - 1) d). split; [reflexivity|]. split.
      * rewrite deg_get_set_same. reflexivity.
      * intros x Hx. apply deg_get_set_other. assumption.
    + destruct (IH c cs (deg_set (rid c) (Z.of_nat v - 1) d) q (v - 1)) as (d1 & E1 & G & O).
      * rewrite deg_get_set_same. f_equal. lia.
      * lia.
      * exists d1. split; [|split].
        -- rewrite E1. f_equal. unfold ready_cond.
           destruct (Nat.eqb_spec (length ln) 0) as [L|L];
           destruct (Z.eqb_spec (Z.of_nat (v - 1)) (Z.of_nat (length ln))) as [M|M];
           destruct (Z.eqb_spec (Z.of_nat v) (Z.of_nat (S (length ln)))) as [K|K];
           cbn [Nat.eqb negb andb]; try reflexivity; exfalso; lia.
        -- rewrite G. f_equal. f_equal. lia.
        -- intros x Hx. rewrite O by assumption. apply deg_get_set_other. assumption.
Qed.

Definition ready_now (k : N) (d : degmap) (r : rev) : bool :=
  match deg_get (rid r) d with
  | Some v => negb (Nat.eqb (cnt k (rparents r)) 0) && Z.eqb v (Z.of_nat (cnt k (rparents r)))
  | None => false
  end.

Lemma pc_flat : forall k l d q, NoDup (map rid l) ->
  (forall r, In r l -> exists v, deg_get (rid r) d = Some (Z.of_nat v) /\ cnt k (rparents r) <= v) ->
  exists d', process_children (children_of l k) d q = Some (d', q ++ filter (ready_now k d) l)
   /\ (forall x, ~ In x (map rid l) -> deg_get x d' = deg_get x d)
   /\ (forall r v, In r l -> deg_get (rid r) d = Some (Z.of_nat v) ->
         deg_get (rid r) d' = Some (Z.of_nat (v - cnt k (rparents r)))).
Proof.
  intros k. induction l as [|a l IH]; intros d q ND H.
  - exists d. cbn. rewrite app_nil_r. split; [reflexivity|]. split; [auto|].
    intros r v [].
  - cbn [map] in ND. inversion ND as [|? ? Hnin ND']; subst.
    destruct (H a (or_introl eq_refl)) as (v & Hv & Hle).
    unfold children_of. cbn [flat_map]. fold (children_of l k).
    destruct (pc_block (filter (N.eqb k) (rparents a)) a (children_of l k) d q v Hv Hle)
      as (d1 & E & G & O).
    rewrite E.
    assert (Hsame : forall r, In r l -> deg_get (rid r) d1 = deg_get (rid r) d).
    { intros r Hr. apply O. intro Heq. apply Hnin. rewrite <- Heq. apply in_map. assumption. }
    destruct (IH d1 (if ready_cond (length (filter (N.eqb k) (rparents a))) v then q ++ [a] else q) ND')
      as (d' & E' & O' & G').
    { intros r Hr. rewrite Hsame by assumption. apply H. right; assumption. }
    exists d'. split; [|split].
    + rewrite E'. f_equal. f_equal.
      rewrite (filter_ext_in' _ (ready_now k d1) (ready_now k d) l).
      2:{ intros r Hr. unfold ready_now. rewrite Hsame by assumption. reflexivity. }
      cbn [filter]. unfold ready_now at 2. rewrite Hv. unfold cnt, ready_cond.
      destruct (negb (length (filter (N.eqb k) (rparents a)) =? 0)
                && (Z.of_nat v =? Z.of_nat (length (filter (N.eqb k) (rparents a))))%Z).
      * rewrite <- app_assoc. reflexivity.
      * reflexivity.
    + intros x Hx. cbn [map] in Hx. rewrite O'.
      * apply O. intro; subst; apply Hx; left; reflexivity.
      * intro Hin. apply Hx. right; assumption.
    + intros r w [->|Hr] Hw.
      * rewrite O' by assumption. rewrite G. rewrite Hv in Hw.
        assert (v = w) by (inversion Hw; lia). subst w. reflexivity.
      * apply G'; auto. rewrite Hsame by assumption. assumption.
Qed.

(* ------------------------------------------------------------------ *)
(* parents_first helpers *)

Lemma pf_nil : parents_first [].
Proof.
  intros o1 r o2 E. destruct o1; discriminate.
Qed.

Lemma pf_snoc : forall out r, parents_first out ->
  (forall p, In p (rparents r) -> In p (map rid out)) -> parents_first (out ++ [r]).
Proof.
  intros out r PF Hr o1 x o2 E p Hp.
  assert (C : o2 = [] \/ exists o2' y, o2 = o2' ++ [y]).
  { clear E. induction o2 as [|y o2' _] using rev_ind; [left; reflexivity|right; eauto]. }
  destruct C as [->|(o2' & y & ->)].
  - apply app_inj_tail in E. destruct E as [E1 E2]. subst. apply Hr. assumption.
  - change (o1 ++ x :: o2' ++ [y]) with (o1 ++ (x :: o2') ++ [y]) in E.
    rewrite app_assoc in E. apply app_inj_tail in E. destruct E as [E1 E2].
    apply (PF o1 x o2' E1 p Hp).
Qed.

Lemma pf_out_pend : forall out r, parents_first out -> In r out ->
  pend (map rid out) (rparents r) = 0.
Proof.
  intros out r PF Hr. apply in_split in Hr. destruct Hr as (l1 & l2 & E).
  apply pend_zero_intro. intros p Hp. rewrite E at 1. rewrite map_app.
  apply in_or_app. left. apply (PF l1 r l2 E p Hp).
Qed.

(* ------------------------------------------------------------------ *)
(* the loop invariant *)

Record Inv (log q : list rev) (d : degmap) (out : list rev) : Prop := {
  inv_nodup : NoDup (out ++ q);
  inv_incl : incl (out ++ q) log;
  inv_deg : forall r, In r log ->
      deg_get (rid r) d = Some (Z.of_nat (pend (map rid out) (rparents r)));
  inv_q : forall r, In r log ->
      (In r q <-> ~ In r out /\ pend (map rid out) (rparents r) = 0);
  inv_pf : parents_first out }.

Lemma inv_init : forall log, ids_distinct log -> Inv log (init_queue log) (init_deg log) [].
Proof.
  intros log IDS. constructor; cbn [app map].
  - unfold init_queue. apply nodup_filter. apply nodup_map_inv. assumption.
  - intros x Hx. unfold init_queue in Hx. apply filter_In in Hx. tauto.
  - intros r Hr. rewrite pend_nil. apply init_deg_get; assumption.
  - intros r Hr. rewrite pend_nil. unfold init_queue. rewrite filter_In.
    destruct (rparents r); cbn [length]; split.
    + intros _. split; [intros []|reflexivity].
    + intros _. split; auto.
    + intros [_ H]. discriminate.
    + intros [_ H]. discriminate.
  - apply pf_nil.
Qed.

Lemma step_inv : forall log q d out i r0, ids_distinct log -> Inv log q d out -> i < length q ->
  exists d' q',
    process_children (children_of log (rid (nth i q r0))) d (remove_nth i q) = Some (d', q')
    /\ Inv log q' d' (out ++ [nth i q r0]).
Proof.
  intros log q d out i r0 IDS [ND INCL DEG QQ PF] Hi.
  destruct (nth_split_remove q i r0 Hi) as (q1 & q2 & Eq & Erm).
  remember (nth i q r0) as r eqn:Er. clear Er. rewrite Erm. clear Erm.
  assert (Hrq : In r q) by (rewrite Eq; apply in_or_app; right; left; reflexivity).
  assert (Hrlog : In r log) by (apply INCL; apply in_or_app; right; assumption).
  assert (Hrout : ~ In r out) by (intro Hx; eapply nodup_app_elim; eauto).
  assert (Hr0 : pend (map rid out) (rparents r) = 0) by (apply QQ; auto).
  assert (Hk : memN (rid r) (map rid out) = false).
  { destruct (memN (rid r) (map rid out)) eqn:E; auto.
    apply memN_In in E. apply in_map_iff in E. destruct E as (x & Ex & Hx).
    assert (x = r) as ->.
    { apply (ids_inj log); auto. apply INCL, in_or_app; left; assumption. }
    contradiction. }
  assert (Hpend : forall r', pend (map rid (out ++ [r])) (rparents r') + cnt (rid r) (rparents r')
                             = pend (map rid out) (rparents r')).
  { intros r'. rewrite map_app. cbn [map]. apply pend_snoc; assumption. }
  assert (Hzero : forall x, In x (out ++ q) -> pend (map rid out) (rparents x) = 0).
  { intros x Hx. apply in_app_or in Hx. destruct Hx as [Hx|Hx].
    - apply pf_out_pend; assumption.
    - apply QQ; auto. apply INCL, in_or_app; right; assumption. }
  assert (Hmem : forall x, In x ((out ++ [r]) ++ q1 ++ q2) -> In x (out ++ q)).
  { intros x Hx. rewrite Eq. repeat rewrite in_app_iff in *. cbn [In] in *. tauto. }
  destruct (pc_flat (rid r) log d (q1 ++ q2) IDS) as (d' & E & _ & G).
  { intros r' Hr'. exists (pend (map rid out) (rparents r')). split; auto.
    specialize (Hpend r'). lia. }
  exists d', ((q1 ++ q2) ++ filter (ready_now (rid r) d) log). split; [assumption|].
  assert (Hready : forall r', In r' log ->
     (ready_now (rid r) d r' = true <->
      cnt (rid r) (rparents r') <> 0 /\
      pend (map rid out) (rparents r') = cnt (rid r) (rparents r'))).
  { intros r' Hr'. unfold ready_now. rewrite (DEG r' Hr').
    rewrite andb_true_iff, negb_true_iff, Nat.eqb_neq, Z.eqb_eq, Nat2Z.inj_iff. tauto. }
  assert (NDq : NoDup (q1 ++ r :: q2)) by (rewrite <- Eq; eapply nodup_app_r; eauto).
  constructor.
  - rewrite app_assoc. apply nodup_app_intro.
    + apply (Permutation_NoDup (l := out ++ q)); [|assumption].
      rewrite Eq. rewrite <- app_assoc. apply Permutation_app_head.
      cbn [app]. apply Permutation_sym, Permutation_middle.
    + apply nodup_filter. apply nodup_map_inv. assumption.
    + intros x Hx Hf. apply Hmem in Hx. apply Hzero in Hx.
      apply filter_In in Hf. destruct Hf as [Hl Hf]. apply Hready in Hf; auto. lia.
  - intros x Hx. rewrite app_assoc in Hx. apply in_app_or in Hx. destruct Hx as [Hx|Hx].
    + apply INCL. apply Hmem. assumption.
    + apply filter_In in Hx. tauto.
  - intros r' Hr'. rewrite (G r' _ Hr' (DEG r' Hr')). f_equal. f_equal.
    specialize (Hpend r'). lia.
  - intros r' Hr'. specialize (Hpend r'). split.
    + intros Hin. apply in_app_or in Hin. destruct Hin as [Hin|Hin].
      * assert (Hq : In r' q).
        { rewrite Eq. repeat rewrite in_app_iff in *. cbn [In]. tauto. }
        destruct (proj1 (QQ r' Hr') Hq) as [Hno Hz]. split; [|lia].
        intro Hx. apply in_app_or in Hx. destruct Hx as [Hx|[Hx|[]]]; [contradiction|].
        subst r'. apply NoDup_remove_2 in NDq. contradiction.
      * apply filter_In in Hin. destruct Hin as [_ Hf]. apply Hready in Hf; auto.
        split; [|lia]. intro Hx.
        assert (Hz : pend (map rid out) (rparents r') = 0).
        { apply Hzero. repeat rewrite in_app_iff in *. cbn [In] in Hx.
          destruct Hx as [Hx|[Hx|[]]]; [left; assumption|subst r'; right; assumption]. }
        lia.
    + intros [Hno Hz].
      destruct (Nat.eq_dec (cnt (rid r) (rparents r')) 0) as [C|C].
      * apply in_or_app. left.
        assert (Hq : In r' q).
        { apply QQ; auto. split; [|lia]. intro Hx. apply Hno. apply in_or_app. left; assumption. }
        rewrite Eq in Hq. repeat rewrite in_app_iff in *. cbn [In] in *.
        destruct Hq as [Hq|[Hq|Hq]]; auto. exfalso. apply Hno. right. left. assumption.
      * apply in_or_app. right. apply filter_In. split; [assumption|].
        apply Hready; auto. lia.
  - apply pf_snoc; [assumption|]. apply pend_zero_elim. assumption.
Qed.

(* ------------------------------------------------------------------ *)
(* when the queue is empty everything has been emitted *)

Lemma inv_done : forall log d out, ids_distinct log -> closed log -> acyclic log ->
  Inv log [] d out -> Permutation out log /\ parents_first out.
Proof.
  intros log d out IDS CL [rank AC] [ND INCL DEG QQ PF].
  rewrite app_nil_r in ND, INCL.
  assert (All : forall n r, rank (rid r) < n -> In r log -> In r out).
  { induction n as [|n IHn]; intros r Hn Hr; [lia|].
    destruct (in_dec rev_eq_dec r out) as [Hin|Hnin]; [assumption|].
    exfalso. apply (proj2 (QQ r Hr)). split; [assumption|].
    apply pend_zero_intro. intros p Hp.
    destruct (proj1 (in_map_iff rid log p) (CL r Hr p Hp)) as (r' & Er' & Hr').
    subst p. apply in_map. apply IHn; [|assumption].
    specialize (AC r Hr (rid r') Hp). lia. }
  split; [|assumption].
  apply NoDup_Permutation; [assumption|apply nodup_map_inv; assumption|].
  intros x. split.
  - apply INCL.
  - intros Hx. apply (All (S (rank (rid x)))); [lia|assumption].
Qed.

Lemma inv_length : forall log q d out, Inv log q d out -> length out + length q <= length log.
Proof.
  intros log q d out [ND INCL _ _ _]. rewrite <- app_length.
  apply NoDup_incl_length; assumption.
Qed.

Lemma kahn_ok : forall pick log, ids_distinct log -> closed log -> acyclic log ->
  forall fuel q d out, Inv log q d out -> length log - length out < fuel ->
  exists out', kahn fuel pick log q d out = TopoOk out' /\ Permutation out' log /\ parents_first out'.
Proof.
  intros pick log IDS CL AC. induction fuel as [|fuel IH]; intros q d out I Hf; [lia|].
  destruct q as [|r0 q0].
  - exists out. split; [reflexivity|]. eapply inv_done; eauto.
  - pose proof (inv_length _ _ _ _ I) as Hlen.
    remember (r0 :: q0) as q eqn:Eq.
    assert (Hq : length q <> 0) by (rewrite Eq; cbn [length]; lia).
    assert (Hi : Nat.modulo (pick q out) (length q) < length q)
      by (apply Nat.mod_upper_bound; assumption).
    destruct (step_inv log q d out _ r0 IDS I Hi) as (d' & q' & E & I').
    assert (K : kahn (S fuel) pick log q d out =
                kahn fuel pick log q' d' (out ++ [nth (Nat.modulo (pick q out) (length q)) q r0])).
    { rewrite Eq in *. cbn [kahn]. cbv zeta. rewrite E. reflexivity. }
    rewrite K. apply IH; [assumption|].
    rewrite app_length. cbn [length]. destruct q; [contradiction|]. cbn [length] in Hlen. lia.
Qed.

Theorem toposort_correct : forall (pick : pick_oracle) (log : list rev),
  ids_distinct log -> closed log -> acyclic log ->
  exists out, toposort pick log = TopoOk out /\ Permutation out log /\ parents_first out.
Proof.
  intros pick log IDS CL AC. unfold toposort.
  apply kahn_ok; auto.
  - apply inv_init; assumption.
  - cbn [length]. lia.
Qed.

(* ------------------------------------------------------------------ *)
(* replay *)

Lemma replay_ok : forall log, ids_distinct log -> closed log -> acyclic log ->
  forall trace fuel q d out, Inv log q d out ->
  replay fuel log q d trace = true ->
  exists out', map rid out' = map rid out ++ trace /\ Permutation out' log /\ parents_first out'.
Proof.
  intros log IDS CL AC. induction trace as [|k trace IH]; intros fuel q d out I R.
  - destruct q as [|r0 q0].
    + exists out. rewrite app_nil_r. split; [reflexivity|]. eapply inv_done; eauto.
    + destruct fuel; cbn in R; discriminate.
  - destruct fuel as [|fuel]; [cbn in R; discriminate|].
    cbn [replay] in R.
    destruct (index_of k q) as [i|] eqn:Ei; [|discriminate].
    destruct (index_of_spec k q i (k, []) Ei) as [Hi Hk].
    destruct (step_inv log q d out i (k, []) IDS I Hi) as (d' & q' & E & I').
    rewrite Hk in E. rewrite E in R.
    destruct (IH fuel q' d' _ I' R) as (out' & M & P & F).
    exists out'. split; [|split; assumption].
    rewrite M. rewrite map_app. cbn [map]. rewrite Hk. rewrite <- app_assoc. reflexivity.
Qed.

Theorem replay_sound : forall log trace, ids_distinct log -> closed log -> acyclic log ->
  is_model_run log trace = true ->
  exists out, map rid out = trace /\ Permutation out log /\ parents_first out.
Proof.
  intros log trace IDS CL AC R. unfold is_model_run in R.
  destruct (replay_ok log IDS CL AC trace _ _ _ [] (inv_init log IDS) R) as (out & M & P & F).
  exists out. auto.
Qed.

(* ------------------------------------------------------------------ *)
(* the boolean checker *)

Lemma pb_spec : forall out seen,
  parents_before seen out = true <->
  (forall o1 r o2, out = o1 ++ r :: o2 -> forall p, In p (rparents r) ->
     In p seen \/ In p (map rid o1)).
Proof.
  induction out as [|a out IH]; intros seen; cbn [parents_before].
  - split; [|reflexivity]. intros _ o1 r o2 E. destruct o1; discriminate.
  - rewrite andb_true_iff, forallb_forall, IH. split.
    + intros [H1 H2] o1 r o2 E p Hp. destruct o1 as [|b o1]; cbn [app] in E.
      * inversion E; subst. left. apply memN_In. apply H1. assumption.
      * inversion E; subst. destruct (H2 o1 r o2 eq_refl p Hp) as [[Hs|Hs]|Hs].
        -- right. cbn [map]. left. assumption.
        -- left. assumption.
        -- right. cbn [map]. right. assumption.
    + intros H. split.
      * intros p Hp. apply memN_In. destruct (H [] a out eq_refl p Hp) as [Hs|[]]. assumption.
      * intros o1 r o2 E p Hp. subst out.
        destruct (H (a :: o1) r o2 eq_refl p Hp) as [Hs|[Hs|Hs]].
        -- left. right. assumption.
        -- left. left. assumption.
        -- right. assumption.
Qed.

Lemma eqs_spec : forall x y : list N,
  (fix eqs (x y : list N) := match x, y with
     | [], [] => true | p :: x', p' :: y' => N.eqb p p' && eqs x' y' | _, _ => false end) x y = true
  <-> x = y.
Proof.
  induction x as [|p x IH]; destruct y as [|p' y].
  - split; reflexivity.
  - split; discriminate.
  - split; discriminate.
  - rewrite andb_true_iff, N.eqb_eq, IH. split.
    + intros [-> ->]. reflexivity.
    + intros E. inversion E. auto.
Qed.

Lemma rev_eqb_spec : forall a b, rev_eqb a b = true <-> a = b.
Proof.
  intros [ia pa] [ib pb]. unfold rev_eqb, rid, rparents. cbn [fst snd].
  rewrite andb_true_iff, N.eqb_eq, eqs_spec. split.
  - intros [-> ->]. reflexivity.
  - intros E. inversion E. auto.
Qed.

Lemma mem_rev_spec : forall r l, mem_rev r l = true <-> In r l.
Proof.
  intros r l. unfold mem_rev. rewrite existsb_exists. split.
  - intros (x & Hx & E). apply rev_eqb_spec in E. subst. assumption.
  - intros H. exists r. split; [assumption|]. apply rev_eqb_spec. reflexivity.
Qed.

Lemma nodupN_spec : forall l, nodupN l = true <-> NoDup l.
Proof.
  induction l as [|x l IH]; cbn [nodupN].
  - split; [constructor|reflexivity].
  - rewrite andb_true_iff, negb_true_iff, IH. split.
    + intros [H1 H2]. constructor; [|assumption].
      intro Hin. apply memN_In in Hin. congruence.
    + intros H. inversion H as [|? ? Hn ND]; subst. split; [|assumption].
      destruct (memN x l) eqn:E; [|reflexivity]. apply memN_In in E. contradiction.
Qed.

Theorem is_topo_order_sound : forall log out, ids_distinct log ->
  is_topo_order log out = true -> Permutation out log /\ parents_first out.
Proof.
  intros log out IDS H. unfold is_topo_order in H.
  repeat rewrite andb_true_iff in H. destruct H as [[[HL HN] HM] HP].
  apply Nat.eqb_eq in HL. apply nodupN_spec in HN.
  rewrite forallb_forall in HM. split.
  - apply NoDup_Permutation_bis.
    + apply nodup_map_inv. assumption.
    + lia.
    + intros x Hx. apply mem_rev_spec. apply HM. assumption.
  - intros o1 r o2 E p Hp.
    destruct (proj1 (pb_spec out []) HP o1 r o2 E p Hp) as [[]|Hs]. assumption.
Qed.

Theorem is_topo_order_complete : forall log out, ids_distinct log ->
  Permutation out log -> parents_first out -> is_topo_order log out = true.
Proof.
  intros log out IDS P PF. unfold is_topo_order.
  repeat rewrite andb_true_iff. repeat split.
  - apply Nat.eqb_eq. apply Permutation_length. assumption.
  - apply nodupN_spec. apply (Permutation_NoDup (l := map rid log)); [|assumption].
    apply Permutation_map. apply Permutation_sym. assumption.
  - apply forallb_forall. intros x Hx. apply mem_rev_spec.
    apply (Permutation_in _ P). assumption.
  - apply pb_spec. intros o1 r o2 E p Hp. right. apply (PF o1 r o2 E p Hp).
Qed.

(* ------------------------------------------------------------------ *)
(* non-vacuity *)

Example hyps_satisfiable : exists log, ids_distinct log /\ closed log /\ acyclic log /\ length log >= 5.
Proof.
  exists [(5, [3; 4]); (3, [1; 1]); (4, [2]); (1, []); (2, [])]%N.
  split; [|split; [|split]].
  - unfold ids_distinct. apply nodupN_spec. reflexivity.
  - intros r Hr p Hp. apply memN_In.
    cbn [In] in Hr.
    destruct Hr as [<-|[<-|[<-|[<-|[<-|[]]]]]]; cbn [rparents snd In] in Hp;
      repeat (destruct Hp as [<-|Hp]; [reflexivity|]); destruct Hp.
  - exists N.to_nat. intros r Hr p Hp.
    cbn [In] in Hr.
    destruct Hr as [<-|[<-|[<-|[<-|[<-|[]]]]]]; cbn [rparents rid fst snd In] in *;
      repeat (destruct Hp as [<-|Hp]; [lia|]); destruct Hp.
  - cbn [length]. lia.
Qed.

(* ------------------------------------------------------------------ *)
(* the edge of the quantifier *)

(* "given in any order": the three hypotheses do not depend on the order of the log *)
Theorem hyps_perm_invariant : forall log log', Permutation log log' ->
  ids_distinct log -> closed log -> acyclic log ->
  ids_distinct log' /\ closed log' /\ acyclic log'.
Proof.
  intros log log' P IDS CL [rank AC]. split; [|split].
  - unfold ids_distinct. apply (Permutation_NoDup (l := map rid log)); [|assumption].
    apply Permutation_map. assumption.
  - intros r Hr p Hp.
    apply (Permutation_in (l := map rid log)); [apply Permutation_map; assumption|].
    apply (CL r); [|assumption]. apply (Permutation_in (l := log')); [apply Permutation_sym|]; assumption.
  - exists rank. intros r Hr p Hp. apply (AC r); [|assumption].
    apply (Permutation_in (l := log')); [apply Permutation_sym|]; assumption.
Qed.

(* a log that lists one revision twice is OUTSIDE the property: the code as it is
   yields that revision twice (the hypothesis ids_distinct cannot be dropped) *)
Theorem duplicate_entry_yielded_twice : exists log out,
  closed log /\ acyclic log /\ toposort fifo log = TopoOk out /\ ~ NoDup (map rid out).
Proof.
  exists [(1, []); (1, []); (2, [1])]%N, [(1, []); (1, []); (2, [1])]%N.
  split; [|split; [|split]].
  - intros r Hr p Hp. apply memN_In. cbn [In] in Hr.
    destruct Hr as [<-|[<-|[<-|[]]]]; cbn [rparents snd In] in Hp;
      repeat (destruct Hp as [<-|Hp]; [reflexivity|]); destruct Hp.
  - exists N.to_nat. intros r Hr p Hp. cbn [In] in Hr.
    destruct Hr as [<-|[<-|[<-|[]]]]; cbn [rparents rid fst snd In] in *;
      repeat (destruct Hp as [<-|Hp]; [lia|]); destruct Hp.
  - vm_compute. reflexivity.
  - intro ND. apply nodupN_spec in ND. vm_compute in ND. discriminate.
Qed.

(* a log that lacks a parent is OUTSIDE the property: the child (and its
   descendants) is silently never yielded (the hypothesis closed cannot be dropped) *)
Theorem missing_parent_never_yielded : exists log out,
  ids_distinct log /\ acyclic log /\ toposort fifo log = TopoOk out /\ length out < length log.
Proof.
  exists [(3, [2]); (2, [1])]%N, [].
  split; [|split; [|split]].
  - unfold ids_distinct. apply nodupN_spec. reflexivity.
  - exists N.to_nat. intros r Hr p Hp. cbn [In] in Hr.
    destruct Hr as [<-|[<-|[]]]; cbn [rparents rid fst snd In] in *;
      repeat (destruct Hp as [<-|Hp]; [lia|]); destruct Hp.
  - vm_compute. reflexivity.
  - cbn [length]. lia.
Qed.

Theorem hypotheses_needed :
  (exists log out, closed log /\ acyclic log /\ toposort fifo log = TopoOk out /\ ~ NoDup (map rid out)) /\
  (exists log out, ids_distinct log /\ acyclic log /\ toposort fifo log = TopoOk out /\ length out < length log).
Proof. exact (conj duplicate_entry_yielded_twice missing_parent_never_yielded). Qed.

Print Assumptions toposort_correct.
Print Assumptions is_topo_order_sound.
Print Assumptions is_topo_order_complete.
Print Assumptions replay_sound.
