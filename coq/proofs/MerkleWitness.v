(* Concrete histories: non-vacuity of the guards, and the two refutations
   (parent links removed with ==, the previous code; a falsy node hash).
   Boolean checkers for the guards and an executable from-scratch hash, both
   proved sound, turn the witnesses into vm_compute. *)
From Coq Require Import List NArith Bool Arith Lia.
From SWH.lib Require Import Bytes.
From SWH.model Require Import Merkle.
From SWH.proofs Require Import MerkleBase MerkleStep.
Import ListNotations.
Local Open Scope nat_scope.

(* ---- a rank given as a list *)
Definition rank_of (rl : list nat) (n : nat) : nat := nth n rl 0.
Definition ranked_b (rl : list nat) (s : heap) : bool :=
  forallb (fun r => r <=? length s) rl &&
  forallb (fun nx : nat * node =>
             forallb (fun kc : bytes * nat => rank_of rl (snd kc) <? rank_of rl (fst nx)) (kids (snd nx)))
          (combine (seq 0 (length s)) s).

Lemma in_combine_seq : forall (s : heap) start n x, nth_error s n = Some x ->
  In (start + n, x) (combine (seq start (length s)) s).
Proof.
  induction s as [|a s IH]; intros start [|n] x E; simpl in *; try discriminate.
  - inversion E; subst. left. f_equal. lia.
  - right. replace (start + S n) with (S start + n) by lia. apply IH. exact E.
Qed.

Lemma ranked_b_sound : forall rl s, ranked_b rl s = true -> ranked (rank_of rl) s.
Proof.
  intros rl s H. apply andb_true_iff in H. destruct H as [B E]. split.
  - intros n m (x & nm & Ex & Hin). rewrite forallb_forall in E.
    specialize (E (n, x) (in_combine_seq s 0 n x Ex)). simpl in E. rewrite forallb_forall in E.
    specialize (E (nm, m) Hin). simpl in E. apply Nat.ltb_lt in E. exact E.
  - intro n. unfold rank_of. destruct (nth_in_or_default n rl 0) as [Hin| ->]; [|lia].
    rewrite forallb_forall in B. specialize (B _ Hin). apply Nat.leb_le in B. exact B.
Qed.

Fixpoint nodup_b (l : list bytes) : bool :=
  match l with [] => true | a :: l' => negb (mem_bytes a l') && nodup_b l' end.
Lemma nodup_b_sound : forall l, nodup_b l = true -> NoDup l.
Proof.
  induction l as [|a l IH]; simpl; intro H; constructor.
  - apply andb_true_iff in H. destruct H as [H _]. intro Hin. apply mem_bytes_In in Hin. rewrite Hin in H. discriminate.
  - apply IH. apply andb_true_iff in H. apply H.
Qed.
Definition plain_b (key : bytes) : bool := negb (beqb key []) && negb (memb SLASH key).
Lemma plain_b_sound : forall key, plain_b key = true -> plain key.
Proof.
  intros key H. apply andb_true_iff in H. destruct H as [A B]. split.
  - intro E. subst. discriminate.
  - intro Hin. apply memb_In in Hin. rewrite Hin in B. discriminate.
Qed.

Definition no_empty_name_b (s : heap) : bool :=
  forallb (fun x : node => match kind x with KDir => negb (kmem [] (kids x)) | _ => true end) s.
Lemma no_empty_name_b_sound : forall s, no_empty_name_b s = true -> no_empty_name s.
Proof.
  intros s H n x E K. unfold no_empty_name_b in H. rewrite forallb_forall in H.
  specialize (H x (nth_error_In _ _ E)). rewrite K in H. unfold kmem in H.
  destruct (kget [] (kids x)); [discriminate | reflexivity].
Qed.

Section Checkers.
Variable NH : bytes -> list entry -> bytes.
Variable by_id : bool.
Variable old : bool.
Variable cands : list (list nat).

Definition guard_b (s : heap) (o : op) : bool :=
  existsb (fun rl => ranked_b rl (fst (step NH by_id old s o))) cands &&
  match o with
  | OUpdate p l => nodup_b (map fst l) && forallb (fun nc => plain_b (fst nc) && (snd nc <? length s)) l
  | OWrite _ _ => false
  | ODel _ _ => no_empty_name_b s
  | _ => true
  end.
Fixpoint guarded_b (s : heap) (h : list op) : bool :=
  match h with
  | [] => true
  | o :: h' => guard_b s o && guarded_b (fst (step NH by_id old s o)) h'
  end.

Lemma guard_b_sound : forall s o, guard_b s o = true -> guard NH by_id old s o.
Proof.
  intros s o H. apply andb_true_iff in H. destruct H as [A B]. split.
  - apply existsb_exists in A. destruct A as (rl & _ & Hr). exists (rank_of rl). apply (proj1 (ranked_b_sound rl _ Hr)).
  - destruct o; auto; try discriminate; try (apply no_empty_name_b_sound; exact B).
    apply andb_true_iff in B. destruct B as [ND F]. split; [apply nodup_b_sound; exact ND|].
    intros name c Hin. rewrite forallb_forall in F. specialize (F (name, c) Hin). simpl in F.
    apply andb_true_iff in F. destruct F as [P L]. split; [apply plain_b_sound; exact P | apply Nat.ltb_lt; exact L].
Qed.

Lemma guarded_b_sound : forall h s, guarded_b s h = true -> guarded NH by_id old s h.
Proof.
  induction h as [|o h IH]; intros s H; simpl in *; auto.
  apply andb_true_iff in H. destruct H as [A B]. split; [apply guard_b_sound; exact A | apply IH; exact B].
Qed.

(* executable from-scratch hash *)
Fixpoint fresh_kids (rd : nat -> option bytes) (s : heap) (ks : list (bytes * nat)) : option (list entry) :=
  match ks with
  | [] => Some []
  | (nm, k) :: ks' =>
      match nth_error s k, rd k, fresh_kids rd s ks' with
      | Some kd, Some h, Some es => Some ((nm, data kd, h) :: es)
      | _, _, _ => None
      end
  end.
Fixpoint fresh_fn (fuel : nat) (s : heap) (n : nat) : option bytes :=
  match fuel with
  | O => None
  | S f =>
      match nth_error s n with
      | None => None
      | Some x => match fresh_kids (fresh_fn f s) s (kids x) with
                  | Some es => Some (NH (data x) es)
                  | None => None
                  end
      end
  end.

Lemma fresh_fn_sound : forall fuel s n h, fresh_fn fuel s n = Some h -> Fresh NH s n h.
Proof.
  induction fuel as [|f IH]; intros s n h H; simpl in H; [discriminate|].
  destruct (nth_error s n) as [x|] eqn:E; [|discriminate].
  destruct (fresh_kids (fresh_fn f s) s (kids x)) as [es|] eqn:Ek; [|discriminate].
  inversion H; subst. econstructor; eauto. clear H E.
  revert es Ek. induction (kids x) as [|[nm k] ks IHk]; intros es Ek; simpl in Ek.
  - inversion Ek. constructor.
  - destruct (nth_error s k) as [kd|] eqn:Ekd; [|discriminate].
    destruct (fresh_fn f s k) as [hk|] eqn:Eh; [|discriminate].
    destruct (fresh_kids (fresh_fn f s) s ks) as [es'|] eqn:Ek'; [|discriminate].
    inversion Ek; subst. constructor; auto.
Qed.
End Checkers.

(* ---- a concrete injective node hash *)
Local Open Scope N_scope.
Definition NH0 (d : bytes) (es : list entry) : bytes :=
  1 :: d ++ concat (map (fun e : entry => match e with (nm, kd, h) => 2 :: nm ++ 3 :: kd ++ 4 :: h ++ [5] end) es).
(* the same, except that a childless node with data [0] hashes to b"" *)
Definition NH1 (d : bytes) (es : list entry) : bytes :=
  match d, es with
  | [0], [] => []
  | _, _ => NH0 d es
  end.
Local Close Scope N_scope.

Lemma NH0_truthy : forall d es, NH0 d es <> [].
Proof. intros. unfold NH0. discriminate. Qed.

Definition kx : bytes := [120%N].   (* "x" *)
Definition kr : bytes := [114%N].
Definition ky : bytes := [121%N].
Definition na : bytes := [97%N].
Definition nb : bytes := [98%N].
Definition nc : bytes := [99%N].

Definition cands0 : list (list nat) := [[]; [1; 2; 2; 3; 0]; [1; 2; 3; 4; 0]].

(* c = 0, p1 = 1, p2 = 2 (p1 and p2 have equal data), root = 3, y = 4.
   c is attached under p2 then p1; the two parents are then structurally
   equal; the root is read; c is removed from p1; c is mutated; the root is
   read again. *)
Definition h_shared : list op :=
  [ONew KNode kx; ONew KNode kx; ONew KNode kx; ONew KNode kr; ONew KNode ky;
   OSet 2 nc 0; OSet 1 nc 0; OSet 3 na 1; OSet 3 nb 2; OHash 3;
   ODel 1 nc; OHash 3; OSet 0 nb 4].

(* the old removal (==) leaves p2 and the root stale *)
Lemma old_remove_refuted :
  exists NH h n hv, (forall d es, NH d es <> []) /\ guarded NH false false [] h /\
    snd (step NH false false (final NH false false [] h) (OHash n)) = OutHash hv /\
    ~ Fresh NH (final NH false false [] h) n hv.
Proof.
  exists NH0, h_shared, 3.
  destruct (snd (step NH0 false false (final NH0 false false [] h_shared) (OHash 3))) as [| | |hv| | |] eqn:E;
    try (vm_compute in E; discriminate).
  exists hv. split; [apply NH0_truthy|]. split; [apply (guarded_b_sound NH0 false false cands0); vm_compute; reflexivity|].
  split; [reflexivity|]. intro F.
  destruct (fresh_fn NH0 10 (final NH0 false false [] h_shared) 3) as [hf|] eqn:Ef; [|vm_compute in Ef; discriminate].
  pose proof (fresh_fn_sound NH0 _ _ _ _ Ef) as Ff.
  pose proof (proj1 (Fresh_det NH0 _) _ _ F _ Ff) as Eq. subst hf.
  vm_compute in E. vm_compute in Ef. inversion E as [E']. rewrite <- E' in Ef. discriminate.
Qed.

(* with the removal by identity the same history is fine *)
Lemma shared_history_fresh :
  guarded NH0 true false [] h_shared /\
  exists hv, snd (step NH0 true false (final NH0 true false [] h_shared) (OHash 3)) = OutHash hv /\
             fresh_fn NH0 10 (final NH0 true false [] h_shared) 3 = Some hv.
Proof.
  split; [apply (guarded_b_sound NH0 true false cands0); vm_compute; reflexivity|].
  eexists. split; vm_compute; reflexivity.
Qed.

(* the previous code tested the truthiness of __hash: a node whose hash is
   falsy (b"") stopped invalidate_hash early.  c = 0 has the empty hash, p = 1
   holds it, the parent is read, c gets a child, the parent is read again *)
Definition h_falsy : list op :=
  [ONew KNode [0%N]; ONew KNode kx; ONew KNode ky; OSet 1 na 0; OHash 1; OSet 0 nb 2].

Lemma falsy_hash_refuted_old :
  exists NH h n hv, guarded NH true true [] h /\
    snd (step NH true true (final NH true true [] h) (OHash n)) = OutHash hv /\
    ~ Fresh NH (final NH true true [] h) n hv.
Proof.
  exists NH1, h_falsy, 1.
  destruct (snd (step NH1 true true (final NH1 true true [] h_falsy) (OHash 1))) as [| | |hv| | |] eqn:E;
    try (vm_compute in E; discriminate).
  exists hv. split; [apply (guarded_b_sound NH1 true true [[]; [1; 2; 0]]); vm_compute; reflexivity|].
  split; [reflexivity|]. intro F.
  destruct (fresh_fn NH1 10 (final NH1 true true [] h_falsy) 1) as [hf|] eqn:Ef; [|vm_compute in Ef; discriminate].
  pose proof (fresh_fn_sound NH1 _ _ _ _ Ef) as Ff.
  pose proof (proj1 (Fresh_det NH1 _) _ _ F _ Ff) as Eq. subst hf.
  vm_compute in E. vm_compute in Ef. inversion E as [E']. rewrite <- E' in Ef. discriminate.
Qed.

(* with the `is None` test the same history, same hash function, is fine *)
Lemma falsy_history_fresh :
  guarded NH1 true false [] h_falsy /\
  exists hv, snd (step NH1 true false (final NH1 true false [] h_falsy) (OHash 1)) = OutHash hv /\
             fresh_fn NH1 10 (final NH1 true false [] h_falsy) 1 = Some hv.
Proof.
  split; [apply (guarded_b_sound NH1 true false [[]; [1; 2; 0]]); vm_compute; reflexivity|].
  eexists. split; vm_compute; reflexivity.
Qed.

(* non-vacuity: a diamond with two structurally equal parents sharing a
   child, bulk update, delete, forced update inside the diamond, collects and
   a reset - every guard holds *)
Definition h_diamond0 : list op :=
  h_shared ++
  [OHash 3; OUpdate 2 [(na, 4); (nc, 0)]; OForce 1; OCollect 3; OCollect 3; ODel 2 na;
   OCollect 3; OReset 3; OCollect 3; OHash 3].
(* then a PARTIAL reset, at the inner node p2 = 2 (below it: c = 0 and y = 4),
   a read, a collect elsewhere (at the leaf y), a mutation making c shared
   again, and a collect from the root *)
Definition h_mid : list op := [OHash 3; OCollect 4; OSet 1 nc 0].
Definition h_diamond : list op := h_diamond0 ++ [OReset 2] ++ h_mid ++ [OCollect 3].

Lemma guards_satisfiable :
  guarded NH0 true false [] h_diamond /\
  length (final NH0 true false [] h_diamond) = 5 /\
  (* before the delete: c has the two parents p2, p1, which are == and distinct *)
  (let s := final NH0 true false [] (firstn 10 h_diamond) in
   (exists y, nth_error s 0 = Some y /\ parents y = [2; 1]) /\ node_eqb (S (length s)) s 1 2 = true).
Proof.
  split; [apply (guarded_b_sound NH0 true false cands0); vm_compute; reflexivity|].
  split; [vm_compute; reflexivity|]. split.
  - eexists. split; vm_compute; reflexivity.
  - vm_compute. reflexivity.
Qed.

(* C14: the identity is a legitimate set oracle (a set never merges a node away
   in favour of itself); the diamond history above contains four collects and
   a reset and reports at least 10 (representative, hash, node) triples *)
Definition id_oracle : set_oracle := fun _ _ n => n.
Lemma id_oracle_ok : oracle_ok id_oracle.
Proof.
  intros s L n Hin. unfold id_oracle. split; auto. split; auto.
  simpl. rewrite Nat.eqb_refl. reflexivity.
Qed.

Lemma c14_satisfiable :
  oracle_ok id_oracle /\ guarded NH0 true false [] h_diamond /\
  10 <=? length (snd (grun NH0 true false id_oracle [] [] h_diamond)) = true.
Proof.
  split; [apply id_oracle_ok|].
  split; [apply (guarded_b_sound NH0 true false cands0); vm_compute; reflexivity|]. vm_compute. reflexivity.
Qed.

(* ---- partial reset: the hypotheses of reset_partial are satisfiable (reset at
   the inner node 2 of the diamond, node x = 0 below it, three operations in
   between including a collect that does not have x below it, collect at the
   root 3), and its conclusion is observed *)
Set Default Timeout 120.
Ltac edge_tac := eexists; eexists; split; [vm_compute; reflexivity | vm_compute; eauto 6].

Lemma reset_partial_satisfiable :
  let s := fst (grun NH0 true false id_oracle [] [] h_diamond0) in
  let rep := snd (grun NH0 true false id_oracle [] [] h_diamond0) in
  let s1 := fst (step NH0 true false s (OReset 2)) in
  let s2 := final NH0 true false s1 h_mid in
  greach NH0 id_oracle s rep /\ guard NH0 true false s (OReset 2) /\ Reach s 2 0 /\
  guarded NH0 true false s1 h_mid /\ quiet NH0 true false s1 h_mid 0 /\ Reach s2 3 0 /\
  exists s3 L, step NH0 true false s2 (OCollect 3) = (s3, OutNodes L) /\ In 0 L.
Proof.
  intros s rep s1 s2. split; [|split; [|split; [|split; [|split; [|split]]]]].
  - exists h_diamond0. split; [apply (guarded_b_sound NH0 true false cands0); vm_compute; reflexivity|].
    unfold s, rep. apply surjective_pairing.
  - apply (guard_b_sound NH0 true false cands0). vm_compute. reflexivity.
  - eapply Reach_step; [edge_tac|]. apply Reach_refl. vm_compute. lia.
  - apply (guarded_b_sound NH0 true false cands0). vm_compute. reflexivity.
  - unfold h_mid. cbn [quiet]. split; [intros r Hr; discriminate|]. split.
    + intros r Hr. inversion Hr; subst. intro R. inversion R; subst.
      destruct H as (y & nm & E & Hin). vm_compute in E. inversion E; subst. vm_compute in Hin. contradiction.
    + split; [intros r Hr; discriminate | exact Logic.I].
  - eapply Reach_step; [edge_tac|]. eapply Reach_step; [edge_tac|]. apply Reach_refl. vm_compute. lia.
  - eexists. eexists. split; [vm_compute; reflexivity|]. vm_compute. auto 6.
Qed.

(* ---- the seeded mutant collect_early (return at once when the start node is
   already collected) breaks "collect reports every uncollected node below":
   a = 0 -> b = 1 -> c = 2; collect a; reset b; then collect_early a returns
   nothing although b and c are below a and not collected.  (The first
   collect, at an uncollected node, is computed identically by the mutant.) *)
Definition h_chain : list op :=
  [ONew KNode kx; ONew KNode ky; ONew KNode kr; OSet 1 nc 2; OSet 0 nb 1; OCollect 0].

Lemma collect_early_refuted :
  exists NH h n r x,
    guarded NH true false [] (h ++ [OReset n]) /\
    let s := final NH true false [] h in
    let s1 := fst (step NH true false s (OReset n)) in
    Reach s n x /\ Reach s1 r x /\
    (forall y, nth_error s1 x = Some y -> collected y = false) /\
    (exists L, collect NH false (S (length s1)) r s1 = Ok (fst (step NH true false s1 (OCollect r)), L) /\ In x L) /\
    exists s' L, collect_early NH false (S (length s1)) r s1 = Ok (s', L) /\ ~ In x L.
Proof.
  exists NH0, h_chain, 1, 0, 2.
  split; [apply (guarded_b_sound NH0 true false [[]; [2; 1; 0]]); vm_compute; reflexivity|].
  intros s s1. split; [|split; [|split; [|split]]].
  - eapply Reach_step; [edge_tac|]. apply Reach_refl. vm_compute. lia.
  - eapply Reach_step; [edge_tac|]. eapply Reach_step; [edge_tac|]. apply Reach_refl. vm_compute. lia.
  - intros y E. vm_compute in E. inversion E; subst. reflexivity.
  - eexists. split; [vm_compute; reflexivity|]. vm_compute. auto.
  - eexists. exists []. split; [vm_compute; reflexivity|]. intros [].
Qed.

(* ---- the seeded mutant force_lazy (update_hash(force=True) invalidating only
   the node it is called on and recomputing the subtree without invalidating
   it) loses out-of-band changes: a = 0 -> b = 1 -> c = 2, collect a, write
   c.data, force at a, collect a.  With the real forced update the second
   collect returns a, b and c; with the mutant it returns a only, although the
   hashes of b and c have changed: their new hashes are never reported. *)
Definition kw : bytes := [119%N].
Lemma force_lazy_refuted :
  exists NH h n r d,
    guarded NH true false [] h /\
    let s := final NH true false [] h in
    let s1 := fst (step NH true false s (OWrite n d)) in
    Reach s r n /\
    (* the code *)
    (exists L, snd (step NH true false (fst (step NH true false s1 (OForce r))) (OCollect r)) = OutNodes L /\ In n L) /\
    (* the mutant *)
    exists s2 hv s3 L, force_lazy NH false r s1 = Ok (s2, hv) /\
      collect NH false (S (length s2)) r s2 = Ok (s3, L) /\ ~ In n L /\
      hash_of s3 n <> hash_of s n /\ fresh_fn NH 10 s3 n = Some (hash_of s3 n).
Proof.
  exists NH0, h_chain, 2, 0, kw.
  split; [apply (guarded_b_sound NH0 true false [[]; [2; 1; 0]]); vm_compute; reflexivity|].
  intros s s1. split; [|split].
  - eapply Reach_step; [edge_tac|]. eapply Reach_step; [edge_tac|]. apply Reach_refl. vm_compute. lia.
  - eexists. split; [vm_compute; reflexivity|]. vm_compute. auto.
  - eexists. eexists. eexists. eexists. split; [vm_compute; reflexivity|]. split; [vm_compute; reflexivity|].
    split; [vm_compute; intros [H|[]]; discriminate|]. split; [vm_compute; discriminate | vm_compute; reflexivity].
Qed.

(* non-vacuity of the write / force theorems: in the chain a -> b -> c (after a
   collect at a) the root a dominates the ancestors of c *)
Lemma write_force_satisfiable :
  let s := final NH0 true false [] h_chain in
  guarded NH0 true false [] h_chain /\ 2 < length s /\ Reach s 0 2 /\
  (forall a, Reach s a 2 -> Reach s 0 a \/ Reach s a 0).
Proof.
  intro s. split; [apply (guarded_b_sound NH0 true false [[]; [2; 1; 0]]); vm_compute; reflexivity|].
  split; [vm_compute; lia|].
  assert (R01 : Reach s 0 1) by (eapply Reach_step; [edge_tac|]; apply Reach_refl; vm_compute; lia).
  assert (R12 : Reach s 1 2) by (eapply Reach_step; [edge_tac|]; apply Reach_refl; vm_compute; lia).
  assert (R02 : Reach s 0 2) by (eapply Reach_step; [edge_tac|]; exact R12).
  split; auto. intros a Ra. left. destruct (Reach_lt _ _ _ Ra) as [La _].
  assert (L3 : length s = 3) by (vm_compute; reflexivity). rewrite L3 in La.
  destruct a as [|[|[|a]]]; [apply Reach_refl; rewrite L3; lia | exact R01 | exact R02 | lia].
Qed.

(* ---- the mutant collect_nohash (a collect that flags the nodes it reports
   without computing their hashes) breaks (I4) "collected => cached hash", on
   which invalidate_hash's early exit relies: a = 0 -> b = 1, collect a FIRST
   (no hash was ever read), attach c = 2 under b, collect a again.  The code
   reports a, b and c the second time; the mutant reports c only: the new
   hashes of b and a are never reported. *)
Definition h_pair : list op := [ONew KNode kx; ONew KNode ky; ONew KNode kr; OSet 0 nb 1].

Lemma collect_nohash_refuted :
  exists NH h, guarded NH true false [] h /\
    let s := final NH true false [] h in
    (* the code *)
    (let s1 := fst (step NH true false s (OCollect 0)) in
     let s2 := fst (step NH true false s1 (OSet 1 nc 2)) in
     (forall x, nth_error s1 0 = Some x -> collected x = true -> hashed x = true) /\
     exists L, snd (step NH true false s2 (OCollect 0)) = OutNodes L /\ In 0 L /\ In 1 L /\ In 2 L) /\
    (* the mutant *)
    exists s1 L1 s3 L, collect_nohash (S (length s)) 0 s = Ok (s1, L1) /\
      (exists x, nth_error s1 0 = Some x /\ collected x = true /\ hashed x = false) /\
      collect_nohash (S (length s1)) 0 (fst (step NH true false s1 (OSet 1 nc 2))) = Ok (s3, L) /\
      ~ In 0 L /\ ~ In 1 L.
Proof.
  exists NH0, h_pair.
  split; [apply (guarded_b_sound NH0 true false [[]; [1; 0; 0]]); vm_compute; reflexivity|].
  intro s. split.
  - split.
    + intros x E C. vm_compute in E. inversion E; subst. reflexivity.
    + eexists. split; [vm_compute; reflexivity|]. vm_compute. auto 6.
  - eexists. eexists. eexists. eexists. split; [vm_compute; reflexivity|]. split.
    + eexists. split; [vm_compute; reflexivity|]. split; reflexivity.
    + split; [vm_compute; reflexivity|]. split; vm_compute; intros [H|[]]; discriminate.
Qed.
