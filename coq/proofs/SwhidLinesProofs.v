(* The lines qualifier: _LINES_QUALIFIER_RE = the BNF's <line_number> ["-"
   <line_number>]; int() with the interpreter's digit limit; digit runs. *)
From Coq Require Import List NArith ZArith Bool Lia Arith.
From Coq Require Decimal DecimalN DecimalFacts.
From SWH.lib Require Import Bytes Dec Hex Utf8 Percent.
From SWH.model Require Import Swhid.
From SWH.proofs Require Import SwhidLib PercentProofs SwhidProofs SwhidParseProofs.
Import ListNotations.
Open Scope N_scope.

(* ---------------------------------------------------------------- regex = BNF *)
Lemma digits1_spec : forall t, digits1 t = true <-> t <> [] /\ forallb is_digit t = true.
Proof.
  intro t. unfold digits1. rewrite andb_true_iff, negb_true_iff, is_nil_false. tauto.
Qed.

Lemma span_digits_all : forall t, forallb is_digit t = true -> span is_digit t = (t, []).
Proof. intros t H. rewrite <- (app_nil_r t) at 1. apply span_all; [exact H | exact I]. Qed.

Lemma digits_no_dash : forall t, forallb is_digit t = true -> ~ In 45 t.
Proof. intros t H. eapply forallb_not_In; [exact H | reflexivity]. Qed.

Lemma lines_re_is_lang : forall t, lines_re_match t = lang_lines t.
Proof.
  intro t. unfold lines_re_match, lang_lines.
  destruct (span is_digit t) as [a r] eqn:S. pose proof (span_spec _ _ _ _ S) as [E [Ha Hr]].
  destruct r as [|c r'].
  - rewrite app_nil_r in E. subst a. rewrite cut_none by (apply digits_no_dash, Ha).
    unfold digits1. rewrite Ha, andb_true_r. reflexivity.
  - destruct (N.eqb_spec c 45) as [C|C].
    + subst c t. rewrite cut_app by (apply digits_no_dash, Ha). cbn [andb].
      unfold digits1 at 1. rewrite Ha, andb_true_r. destruct (is_nil a); [reflexivity|]. cbn [negb andb].
      destruct (span is_digit r') as [b r2] eqn:S2. pose proof (span_spec _ _ _ _ S2) as [E2 [Hb Hr2]].
      destruct r2 as [|x r2].
      * rewrite app_nil_r in E2. subst b. unfold digits1. rewrite Hb, andb_true_r. cbn [is_nil]. rewrite andb_true_r. reflexivity.
      * cbn [is_nil]. rewrite andb_false_r. symmetry. apply not_true_iff_false. intro D.
        apply digits1_spec in D. destruct D as [_ D]. rewrite (span_digits_all _ D) in S2. inversion S2.
    + cbn [andb]. rewrite andb_false_r. symmetry. apply not_true_iff_false. intro D.
      destruct (cut 45 t) as [x [y|]] eqn:Ec.
      * apply andb_true_iff in D. destruct D as [D _]. apply digits1_spec in D. destruct D as [_ D].
        apply cut_some_inv in Ec. destruct Ec as [Et _]. rewrite Et in S.
        rewrite (span_all is_digit x (45 :: y) D eq_refl) in S. inversion S; subst. congruence.
      * apply digits1_spec in D. destruct D as [_ D]. apply cut_none_inv in Ec. destruct Ec as [Ex _]. subst x.
        rewrite (span_digits_all _ D) in S. inversion S.
Qed.

(* ---------------------------------------------------------------- int() on digit strings *)
Lemma bytes_uint_digits : forall l, forallb is_digit l = true -> exists d, bytes_uint l = Some d /\ Decimal.nb_digits d = length l.
Proof.
  induction l as [|b l IH]; intro H; [exists Decimal.Nil; split; reflexivity|].
  cbn [forallb] in H. apply andb_true_iff in H. destruct H as [Hb Hl]. destruct (IH Hl) as [d [E L]].
  exists (mkD b d). cbn [bytes_uint]. rewrite Hb, E. split; [reflexivity|].
  cbn [length]. rewrite <- L. unfold mkD.
  repeat match goal with |- context [match ?x with _ => _ end] => destruct x end; reflexivity.
Qed.

Lemma uint_bytes_length : forall d, length (uint_bytes d) = Decimal.nb_digits d.
Proof. induction d; cbn [uint_bytes length Decimal.nb_digits]; try rewrite IHd; reflexivity. Qed.

Lemma over_limit_mono : forall lim n m, (m <= n)%nat -> over_limit lim n = false -> over_limit lim m = false.
Proof.
  intros lim n m Hle H. unfold over_limit in *. destruct (lim =? 0); [reflexivity|]. cbn [negb andb] in *.
  apply N.ltb_ge in H. apply N.ltb_ge. lia.
Qed.

Lemma int_of_digits_ok : forall lim t, t <> [] -> forallb is_digit t = true -> over_limit lim (length t) = false ->
  exists z, int_of_digits lim t = Ok z /\ line_ok lim z.
Proof.
  intros lim t Hn Hd Ho. destruct (bytes_uint_digits t Hd) as [d [E L]].
  exists (Z.of_N (N.of_uint d)). unfold int_of_digits. rewrite Ho. unfold parse_dec_N.
  destruct t as [|x t']; [congruence|]. rewrite E. cbn [option_map]. split; [reflexivity|].
  split; [lia|].
  assert (DZ : dec_Z (Z.of_N (N.of_uint d)) = dec_N (N.of_uint d)) by (destruct (N.of_uint d); reflexivity).
  rewrite DZ. unfold dec_N. rewrite DecimalN.Unsigned.to_of, uint_bytes_length.
  apply (over_limit_mono lim (length (x :: t'))); [|exact Ho]. rewrite <- L.
  apply DecimalFacts.nb_digits_unorm. intro N0. subst d. discriminate L.
Qed.

Lemma int_of_digits_okerr : forall lim t, okerr (int_of_digits lim t).
Proof.
  intros. unfold int_of_digits. destruct (over_limit lim (length t)); [right; reflexivity|].
  destruct (parse_dec_N t); [exact I | right; reflexivity].
Qed.

Lemma int_of_digits_inv : forall lim t z, int_of_digits lim t = Ok z -> over_limit lim (length t) = false.
Proof. intros lim t z H. unfold int_of_digits in H. destruct (over_limit lim (length t)); [discriminate | reflexivity]. Qed.

(* ---------------------------------------------------------------- _parse_lines_qualifier *)
Lemma parse_lines_strict : forall lim t, strict (parse_lines lim t).
Proof.
  intros. unfold parse_lines. apply strict_of_okerr. destruct (negb (lines_re_match t)); [right; reflexivity|].
  destruct (cut 45 t) as [a [b|]].
  - destruct (memb 45 b); [right; reflexivity|]. apply okerr_bind; [apply int_of_digits_okerr|]. intro x.
    apply okerr_bind; [apply int_of_digits_okerr|]. intro y. exact I.
  - apply okerr_bind; [apply int_of_digits_okerr|]. intro x. exact I.
Qed.

(* the two numbers of a lines text *)
Definition lines_parts (t : text) : list text :=
  match cut 45 t with (a, Some b) => [a; b] | (a, None) => [a] end.

Lemma lines_parts_infix : forall t p, In p (lines_parts t) -> infix p t.
Proof.
  intros t p H. unfold lines_parts in H. destruct (cut 45 t) as [a [b|]] eqn:Ec.
  - destruct (infix_cut _ _ _ _ Ec) as [I1 I2]. destruct H as [H|[H|[]]]; subst; assumption.
  - apply cut_none_inv in Ec. destruct Ec as [E _]. destruct H as [H|[]]. subst. apply infix_refl.
Qed.

Lemma parse_lines_accepts : forall lim t l, parse_lines lim t = Ok l -> lang_lines t = true.
Proof.
  intros lim t l H. unfold parse_lines in H. rewrite <- lines_re_is_lang.
  destruct (lines_re_match t); [reflexivity | discriminate].
Qed.

Lemma parse_lines_complete : forall lim t, lang_lines t = true ->
  (forall p, In p (lines_parts t) -> over_limit lim (length p) = false) ->
  exists l, parse_lines lim t = Ok l.
Proof.
  intros lim t L Hp. unfold parse_lines. rewrite lines_re_is_lang, L. cbn [negb].
  unfold lang_lines in L. unfold lines_parts in Hp. destruct (cut 45 t) as [a [b|]] eqn:Ec.
  - apply andb_true_iff in L. destruct L as [La Lb]. apply digits1_spec in La, Lb.
    destruct La as [Na Da]. destruct Lb as [Nb Db].
    replace (memb 45 b) with false by (symmetry; apply memb_false, digits_no_dash, Db).
    destruct (int_of_digits_ok lim a Na Da) as [x [Ex _]]; [apply Hp; left; reflexivity|].
    destruct (int_of_digits_ok lim b Nb Db) as [y [Ey _]]; [apply Hp; right; left; reflexivity|].
    rewrite Ex, Ey. eexists. reflexivity.
  - apply digits1_spec in L. destruct L as [Na Da].
    destruct (int_of_digits_ok lim a Na Da) as [x [Ex _]]; [apply Hp; left; reflexivity|].
    rewrite Ex. eexists. reflexivity.
Qed.

Lemma vev_ok : forall A (r : result A) a, value_error_to_validation r = Ok a -> r = Ok a.
Proof. intros A [x|[]] a H; cbn in H; congruence. Qed.

Lemma parse_lines_wf : forall lim t a b, parse_lines lim t = Ok (a, b) ->
  line_ok lim a /\ forall b', b = Some b' -> line_ok lim b'.
Proof.
  intros lim t a b H. pose proof (parse_lines_accepts _ _ _ H) as L.
  unfold parse_lines in H. rewrite lines_re_is_lang, L in H. cbn [negb] in H. apply vev_ok in H.
  unfold lang_lines in L. destruct (cut 45 t) as [x [y|]] eqn:Ec.
  - apply andb_true_iff in L. destruct L as [Lx Ly]. apply digits1_spec in Lx, Ly.
    destruct Lx as [Nx Dx]. destruct Ly as [Ny Dy].
    destruct (memb 45 y); [discriminate|].
    destruct (int_of_digits lim x) as [zx|] eqn:Ex; [|discriminate].
    destruct (int_of_digits lim y) as [zy|] eqn:Ey; [|discriminate].
    cbn [bind] in H. inversion H; subst.
    destruct (int_of_digits_ok lim x Nx Dx (int_of_digits_inv _ _ _ Ex)) as [z1 [E1 W1]].
    destruct (int_of_digits_ok lim y Ny Dy (int_of_digits_inv _ _ _ Ey)) as [z2 [E2 W2]].
    rewrite Ex in E1. rewrite Ey in E2. inversion E1; inversion E2; subst. split; [exact W1|].
    intros b' E. inversion E; subst. exact W2.
  - apply digits1_spec in L. destruct L as [Nx Dx].
    destruct (int_of_digits lim x) as [zx|] eqn:Ex; [|discriminate].
    cbn [bind] in H. inversion H; subst.
    destruct (int_of_digits_ok lim x Nx Dx (int_of_digits_inv _ _ _ Ex)) as [z1 [E1 W1]].
    rewrite Ex in E1. inversion E1; subst. split; [exact W1 | discriminate].
Qed.

(* ---------------------------------------------------------------- digit runs *)
Lemma mdr_mono : forall t c b c' b', (c <= c')%nat -> (b <= b')%nat ->
  (max_digit_run c b t <= max_digit_run c' b' t)%nat.
Proof.
  induction t as [|x t IH]; intros c b c' b' Hc Hb; cbn [max_digit_run].
  - apply Nat.max_le_compat; assumption.
  - destruct (is_digit x); apply IH; first [lia | apply Nat.max_le_compat; assumption].
Qed.

Lemma mdr_ge : forall t c b, (c <= max_digit_run c b t /\ b <= max_digit_run c b t)%nat.
Proof.
  induction t as [|x t IH]; intros c b; cbn [max_digit_run].
  - split; [apply Nat.le_max_l | apply Nat.le_max_r].
  - destruct (is_digit x).
    + destruct (IH (S c) b) as [H1 H2]. split; lia.
    + destruct (IH 0%nat (Nat.max c b)) as [_ H2].
      pose proof (Nat.le_max_l c b). pose proof (Nat.le_max_r c b). split; lia.
Qed.

Lemma mdr_run : forall a y c b, forallb is_digit a = true -> (c + length a <= max_digit_run c b (a ++ y))%nat.
Proof.
  induction a as [|x a IH]; intros y c b H.
  - cbn [app length]. destruct (mdr_ge y c b) as [H1 _]. lia.
  - cbn [forallb] in H. apply andb_true_iff in H. destruct H as [Hx Ha].
    cbn [app max_digit_run length]. rewrite Hx. specialize (IH y (S c) b Ha). lia.
Qed.

Lemma mdr_skip : forall x t c b, (max_digit_run 0 0 t <= max_digit_run c b (x ++ t))%nat.
Proof.
  induction x as [|e x IH]; intros t c b.
  - apply mdr_mono; lia.
  - cbn [app max_digit_run]. destruct (is_digit e); apply IH.
Qed.

Lemma digit_infix_bound : forall a s, infix a s -> forallb is_digit a = true ->
  (length a <= max_digit_run 0 0 s)%nat.
Proof.
  intros a s [x [y E]] H. subst s. pose proof (mdr_skip x (a ++ y) 0%nat 0%nat) as H1.
  pose proof (mdr_run a y 0%nat 0%nat H) as H2. lia.
Qed.

Lemma within_limit_infix : forall lim s a, within_limit lim s = true -> infix a s ->
  forallb is_digit a = true -> over_limit lim (length a) = false.
Proof.
  intros lim s a W I D. unfold within_limit in W. apply negb_true_iff in W.
  apply (over_limit_mono lim (max_digit_run 0 0 s)); [apply digit_infix_bound; assumption | exact W].
Qed.

(* the parts of an accepted-by-grammar lines text are digit strings *)
Lemma lines_parts_digits : forall t p, lang_lines t = true -> In p (lines_parts t) -> forallb is_digit p = true.
Proof.
  intros t p L H. unfold lang_lines in L. unfold lines_parts in H. destruct (cut 45 t) as [a [b|]].
  - apply andb_true_iff in L. destruct L as [La Lb]. apply digits1_spec in La, Lb.
    destruct H as [H|[H|[]]]; subst; tauto.
  - apply digits1_spec in L. destruct H as [H|[]]; subst; tauto.
Qed.
