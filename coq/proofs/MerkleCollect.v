(* collect_node / collect / reset_collect *)
From Coq Require Import List NArith Bool Arith Lia.
From SWH.lib Require Import Bytes.
From SWH.model Require Import Merkle.
From SWH.proofs Require Import MerkleBase MerkleInv MerkleHash MerkleMut.
Import ListNotations.
Local Open Scope nat_scope.

(* a collection: cached hashes appear, collected flags appear *)
Definition ncg (x x' : node) : Prop :=
  nshape x x' /\ (hashed x = true -> cached x' = cached x) /\ (collected x = true -> collected x' = true).
Definition cgrow (s s' : heap) := Forall2 ncg s s'.
Definition collected_at (s : heap) (m : nat) : Prop := exists x, nth_error s m = Some x /\ collected x = true.
Definition uncollected_at (s : heap) (m : nat) : Prop := exists x, nth_error s m = Some x /\ collected x = false.
Definition flipped (s s' : heap) (L : list nat) : Prop :=
  forall m x x', nth_error s m = Some x -> nth_error s' m = Some x' ->
    collected x = false -> collected x' = true -> In m L.

Lemma ncg_refl : forall x, ncg x x.
Proof. intro. split; [apply nshape_refl|]. auto. Qed.
Lemma ncg_trans : forall x y z, ncg x y -> ncg y z -> ncg x z.
Proof.
  intros x y z (S1 & H1 & C1) (S2 & H2 & C2). split; [eapply nshape_trans; eauto|]. split; auto.
  intro Hx. specialize (H1 Hx). rewrite <- H1. apply H2. rewrite (hashed_cached _ _ H1). exact Hx.
Qed.
Lemma cgrow_refl : forall s, cgrow s s. Proof. intro. apply F2_refl, ncg_refl. Qed.
Lemma cgrow_trans : forall a b c, cgrow a b -> cgrow b c -> cgrow a c.
Proof. intros. eapply F2_trans; eauto. apply ncg_trans. Qed.
Lemma cgrow_shape : forall s s', cgrow s s' -> shape s s'.
Proof. intros s s' H. apply (F2_impl ncg nshape); auto. intros x y H0. apply H0. Qed.
Lemma grows_cgrow : forall s s', grows s s' -> cgrow s s'.
Proof. intros s s' H. apply (F2_impl ngrow ncg); auto. intros x y (S & C & Hc). split; auto. split; auto. congruence. Qed.
Lemma collected_at_cgrow : forall s s' m, cgrow s s' -> collected_at s m -> collected_at s' m.
Proof.
  intros s s' m G (x & E & C). destruct (F2_nth _ _ _ _ _ G E) as (x' & E' & (_ & _ & Cc)). exists x'. auto.
Qed.

Lemma Reach_inv : forall s n m, Reach s n m -> (m = n /\ n < length s) \/ exists k, edge s n k /\ Reach s k m.
Proof. intros s n m H. inversion H; subst; eauto. Qed.

(* reset_collect: only collected flags fall *)
Definition nr (x x' : node) : Prop :=
  nshape x x' /\ cached x' = cached x /\ ecache x' = ecache x /\ mcache x' = mcache x /\
  (collected x' = true -> collected x = true).
Lemma nr_refl : forall x, nr x x.
Proof. intro. split; [apply nshape_refl|]. auto. Qed.
Lemma nr_trans : forall x y z, nr x y -> nr y z -> nr x z.
Proof.
  intros x y z (S1 & A1 & B1 & C1 & D1) (S2 & A2 & B2 & C2 & D2). split; [eapply nshape_trans; eauto|].
  repeat split; try congruence. auto.
Qed.
Lemma nr_shape : forall s s', Forall2 nr s s' -> shape s s'.
Proof. intros s s' H. apply (F2_impl nr nshape); auto. intros x y H0. apply H0. Qed.

Lemma wfk_shape : forall s s', shape s s' -> wfk s -> wfk s'.
Proof.
  intros s s' H W n x' nm k E Hin. destruct (F2_nth_r _ _ _ _ _ H E) as (x & E0 & (_ & _ & K & _)).
  rewrite <- (F2_len _ _ _ H). rewrite K in Hin. eapply W; eauto.
Qed.

Lemma reset_ok : forall rank fuel n s, wfk s -> ranked rank s -> n < length s -> rank n < fuel ->
  exists s', reset_collect fuel n s = Ok s' /\ Forall2 nr s s' /\ forall m, Reach s n m -> uncollected_at s' m.
Proof.
  intros rank. induction fuel as [|f IH]; intros n s W Rk L B; [lia|].
  destruct (get_lt s n L) as [x E]. simpl. unfold get. rewrite E. simpl.
  set (s0 := upd n (set_collected false) s).
  assert (N0 : Forall2 nr s s0).
  { apply F2_upd; [apply nr_refl|]. intros y Ey. unfold nr, nshape; simpl. repeat split; auto. discriminate. }
  assert (U0 : uncollected_at s0 n).
  { exists (set_collected false x). unfold s0. rewrite nth_upd_same, E. simpl. auto. }
  assert (UP : forall a b m, Forall2 nr a b -> uncollected_at a m -> uncollected_at b m).
  { intros a b m Hab (y & Ey & Cy). destruct (F2_nth _ _ _ _ _ Hab Ey) as (y' & Ey' & (_ & _ & _ & _ & D)).
    exists y'. split; auto. destruct (collected y'); auto. specialize (D eq_refl). congruence. }
  assert (FOLD : forall l t, wfk t -> ranked rank t -> (forall k, In k l -> k < length t /\ rank k < f) ->
     exists t', fold_res (reset_collect f) l t = Ok t' /\ Forall2 nr t t' /\
                forall k, In k l -> forall m, Reach t k m -> uncollected_at t' m).
  { induction l as [|k l IHl]; intros t Wt Rt Hl; simpl.
    - exists t. split; auto. split; [apply F2_refl, nr_refl|]. intros k [].
    - destruct (Hl k (or_introl eq_refl)) as [Lk Bk].
      destruct (IH k t Wt Rt Lk Bk) as (t1 & E1 & N1 & U1). rewrite E1. simpl.
      pose proof (nr_shape _ _ N1) as Sh1.
      destruct (IHl t1 (wfk_shape _ _ Sh1 Wt) (shape_ranked _ _ _ Sh1 Rt)) as (t2 & E2 & N2 & U2).
      { intros k' Hk'. rewrite <- (F2_len _ _ _ Sh1). apply Hl. right. exact Hk'. }
      exists t2. split; auto. split; [eapply F2_trans; eauto; apply nr_trans|].
      intros k' [<-|Hk'] m Rm.
      + eapply UP; eauto.
      + eapply U2; eauto. eapply shape_reach; eauto. }
  pose proof (nr_shape _ _ N0) as Sh0.
  destruct (FOLD (map snd (kids x)) s0 (wfk_shape _ _ Sh0 W) (shape_ranked _ _ _ Sh0 Rk)) as (s' & E' & N' & U').
  { intros k Hk. apply in_map_iff in Hk. destruct Hk as ([nm k'] & Ek & Hin). simpl in Ek. subst k'.
    split; [unfold s0; rewrite upd_length; eapply W; eauto|].
    destruct Rk as [R1 _]. assert (rank k < rank n) by (apply R1; exists x, nm; auto). lia. }
  exists s'. split; auto. split; [eapply F2_trans; eauto; apply nr_trans|].
  intros m Rm. destruct (Reach_inv _ _ _ Rm) as [[-> _]|(k & (x0 & nm & Ex0 & Hin) & Rk')].
  - eapply UP; eauto.
  - assert (x0 = x) by congruence. subst. eapply (U' k).
    + apply in_map_iff. exists (nm, k). auto.
    + eapply shape_reach; eauto.
Qed.

Section WithNH.
Variable NH : bytes -> list entry -> bytes.
Variable rank : nat -> nat.
Notation Inv0 := (Inv0 NH).
Notation Inv := (Inv NH).

Lemma Inv_nr : forall s s', Inv s -> Forall2 nr s s' -> Inv s'.
Proof.
  intros s s' [I I4] N. pose proof (nr_shape _ _ N) as Sh.
  assert (HA : forall k, hashed_at s k -> hashed_at s' k).
  { intros k (y & Ey & Hy). destruct (F2_nth _ _ _ _ _ N Ey) as (y' & Ey' & (_ & C & _)).
    exists y'. split; auto. rewrite (hashed_cached _ _ C). exact Hy. }
  destruct (Fresh_shape NH _ _ Sh) as [FS FKS].
  split.
  - apply (Inv0_shape NH s s' I Sh).
    + intros n x' E' H'. destruct (F2_nth_r _ _ _ _ _ N E') as (x & E & ((_ & _ & K & _) & C & _)).
      rewrite (hashed_cached _ _ C) in H'. destruct (I1 NH s I n x E H') as (h & Ch & F & Kh).
      exists h. split; [congruence|]. split; auto. rewrite K. intros nm k Hin. apply HA. eapply Kh; eauto.
    + intros n x' es E' M'. destruct (F2_nth_r _ _ _ _ _ N E') as (x & E & ((_ & _ & K & _) & _ & _ & M & _)).
      rewrite M in M'. destruct (I3m NH s I n x es E M') as [F Kh]. rewrite K. split; auto.
      intros nm k Hin. apply HA. eapply Kh; eauto.
    + intros n x' es E' M'. destruct (F2_nth_r _ _ _ _ _ N E') as (x & E & ((_ & _ & K & _) & _ & M & _ & _)).
      rewrite M in M'. destruct (I3e NH s I n x es E M') as [F Kh]. rewrite K. split; auto.
      intros nm k Hin. apply HA. eapply Kh; eauto.
  - intros n x' E' C'. destruct (F2_nth_r _ _ _ _ _ N E') as (x & E & (_ & C & _ & _ & D)).
    rewrite (hashed_cached _ _ C). eapply I4; eauto.
Qed.

Lemma collect_node_ok : forall n s, Inv s -> ranked rank s -> n < length s ->
  exists s' L, collect_node NH false n s = Ok (s', L) /\ Inv s' /\ cgrow s s' /\ collected_at s' n /\ flipped s s' L /\
    (forall m, In m L -> m = n).
Proof.
  intros n s [I I4] Rk L. destruct (get_lt s n L) as [x E]. unfold collect_node, get. rewrite E. simpl.
  destruct (collected x) eqn:Cx.
  - exists s, []. split; auto. split; [split; auto|]. split; [apply cgrow_refl|]. split; [exists x; auto|].
    split; [|intros m []]. intros m y y' Ey Ey' C C'. congruence.
  - set (sc := upd n (set_collected true) s).
    assert (Ic : Inv0 sc).
    { apply (Inv0_upd NH s n x); auto.
      - unfold nshape; simpl; auto.
      - intro Hx. destruct (I1 NH s I n x E Hx) as (h & C & F & K). exists h. auto.
      - simpl. intros es Ees. eapply I3m; eauto.
      - simpl. intros es Ees. eapply I3e; eauto. }
    assert (Shc : shape s sc).
    { apply F2_upd; [apply nshape_refl|]. intros y Ey. unfold nshape; simpl; auto. }
    assert (Lc : n < length sc) by (unfold sc; rewrite upd_length; auto).
    destruct (read_hash_good NH rank n sc Ic (shape_ranked _ _ _ Shc Rk) Lc Logic.I)
      as (s' & h & E' & I' & Sh' & G' & HV' & _).
    specialize (G' eq_refl). rewrite E'. simpl. exists s', [n]. split; auto.
    assert (CG : cgrow s s').
    { eapply cgrow_trans; [|apply grows_cgrow; exact G'].
      apply F2_upd; [apply ncg_refl|]. intros y Ey. split; [unfold nshape; simpl; auto|]. simpl. auto. }
    split; [split; auto|]; [|split; auto; split; [|split; [|intros m [<-|[]]; reflexivity]]].
    + intros m y' Ey' Cy'. destruct (F2_nth_r _ _ _ _ _ G' Ey') as (yc & Eyc & (_ & Cc & Hc)).
      destruct (Nat.eq_dec m n) as [->|Nm].
      * destruct HV' as (y2 & Ey2 & _ & Hy2). congruence.
      * unfold sc in Eyc. rewrite nth_upd_other in Eyc; auto.
        assert (Hyc : hashed yc = true) by (eapply I4; eauto; congruence).
        rewrite (hashed_cached _ _ (Hc Hyc)). exact Hyc.
    + destruct (F2_nth _ _ _ _ _ G' (eq_trans (nth_upd_same s n _) (f_equal (option_map _) E))) as (y' & Ey' & (_ & Cc & _)).
      exists y'. split; auto.
    + intros m y y' Ey Ey' C C'. destruct (Nat.eq_dec m n) as [->|Nm]; [left; auto|]. exfalso.
      destruct (F2_nth_r _ _ _ _ _ G' Ey') as (yc & Eyc & (_ & Cc & _)).
      unfold sc in Eyc. rewrite nth_upd_other in Eyc; auto. congruence.
Qed.

Lemma collect_ok : forall fuel n s, Inv s -> ranked rank s -> n < length s -> rank n < fuel ->
  exists s' L, collect NH false fuel n s = Ok (s', L) /\ Inv s' /\ cgrow s s' /\
    (forall m, Reach s n m -> collected_at s' m) /\ flipped s s' L /\ (forall m, In m L -> Reach s n m).
Proof.
  induction fuel as [|f IH]; intros n s I Rk L B; [lia|].
  destruct (get_lt s n L) as [x E]. simpl. unfold get at 1. rewrite E. simpl.
  destruct (collect_node_ok n s I Rk L) as (s0 & L0 & E0 & I0 & G0 & C0 & F0 & N0). rewrite E0. simpl.
  set (F := fun (k : nat) (acc : heap * list nat) => r' <- collect NH false f k (fst acc) ;; Ok (fst r', snd acc ++ snd r')).
  assert (FOLD : forall l t L1, Inv t -> ranked rank t -> (forall k, In k l -> k < length t /\ rank k < f) ->
     exists t' L', fold_res F l (t, L1) = Ok (t', L1 ++ L') /\ Inv t' /\ cgrow t t' /\
       (forall k, In k l -> forall m, Reach t k m -> collected_at t' m) /\ flipped t t' L' /\
       (forall m, In m L' -> exists k, In k l /\ Reach t k m)).
  { induction l as [|k l IHl]; intros t L1 It Rt Hl; simpl.
    - exists t, []. rewrite app_nil_r. split; auto. split; auto. split; [apply cgrow_refl|]. split; [intros k []|].
      split; [|intros m []]. intros m y y' Ey Ey' C C'. congruence.
    - destruct (Hl k (or_introl eq_refl)) as [Lk Bk].
      destruct (IH k t It Rt Lk Bk) as (t1 & L2 & E1 & I1' & G1 & C1 & F1 & N1).
      unfold F at 1. simpl. rewrite E1. simpl.
      pose proof (cgrow_shape _ _ G1) as Sh1.
      destruct (IHl t1 (L1 ++ L2) I1' (shape_ranked _ _ _ Sh1 Rt)) as (t2 & L3 & E2 & I2' & G2 & C2 & F2 & N2).
      { intros k' Hk'. rewrite <- (F2_len _ _ _ Sh1). apply Hl. right. exact Hk'. }
      exists t2, (L2 ++ L3). rewrite app_assoc. split; auto. split; auto. split; [eapply cgrow_trans; eauto|]. split.
      + intros k' [<-|Hk'] m Rm.
        * eapply collected_at_cgrow; eauto.
        * eapply C2; eauto. eapply shape_reach; eauto.
      + split.
        * intros m y y'' Ey Ey'' C C''. destruct (F2_nth _ _ _ _ _ G1 Ey) as (y' & Ey' & _).
          apply in_or_app. destruct (collected y') eqn:Cy'.
          -- left. eapply F1; eauto.
          -- right. eapply F2; eauto.
        * intros m Hm. apply in_app_or in Hm. destruct Hm as [Hm|Hm].
          -- exists k. split; [left; auto | apply N1; auto].
          -- destruct (N2 m Hm) as (k' & Hk' & Rk'). exists k'. split; [right; auto|].
             eapply shape_reach; [apply shape_sym; exact Sh1 | exact Rk']. }
  pose proof (cgrow_shape _ _ G0) as Sh0.
  destruct (FOLD (map snd (kids x)) s0 L0 I0 (shape_ranked _ _ _ Sh0 Rk)) as (s' & L' & E' & I' & G' & C' & F' & N').
  { intros k Hk. apply in_map_iff in Hk. destruct Hk as ([nm k'] & Ek & Hin). simpl in Ek. subst k'.
    split; [rewrite <- (F2_len _ _ _ Sh0); eapply (I_wfk NH s (proj1 I)); eauto|].
    destruct Rk as [R1 _]. assert (rank k < rank n) by (apply R1; exists x, nm; auto). lia. }
  exists s', (L0 ++ L'). split; auto. split; auto. split; [eapply cgrow_trans; eauto|]. split.
  - intros m Rm. destruct (Reach_inv _ _ _ Rm) as [[-> _]|(k & (x0 & nm & Ex0 & Hin) & Rk')].
    + eapply collected_at_cgrow; eauto.
    + assert (x0 = x) by congruence. subst. eapply (C' k).
      * apply in_map_iff. exists (nm, k). auto.
      * eapply shape_reach; eauto.
  - split.
    + intros m y y'' Ey Ey'' C C''. destruct (F2_nth _ _ _ _ _ G0 Ey) as (y' & Ey' & _).
      apply in_or_app. destruct (collected y') eqn:Cy'.
      * left. eapply F0; eauto.
      * right. eapply F'; eauto.
    + intros m Hm. apply in_app_or in Hm. destruct Hm as [Hm|Hm].
      * rewrite (N0 m Hm). apply Reach_refl. exact L.
      * destruct (N' m Hm) as (k & Hk & Rk'). apply in_map_iff in Hk. destruct Hk as ([nm k'] & Ek & Hin).
        simpl in Ek. subst k'. eapply Reach_step; [exists x, nm; split; eauto|].
        eapply shape_reach; [apply shape_sym; exact Sh0 | exact Rk'].
Qed.

(* collecting a sub-DAG whose nodes are all collected does nothing *)
Lemma collect_noop : forall fuel n s, wfk s -> ranked rank s -> n < length s -> rank n < fuel ->
  (forall m, Reach s n m -> collected_at s m) -> collect NH false fuel n s = Ok (s, []).
Proof.
  induction fuel as [|f IH]; intros n s W Rk L B HC; [lia|].
  destruct (get_lt s n L) as [x E]. simpl. unfold get at 1. rewrite E. simpl.
  destruct (HC n (Reach_refl s n L)) as (x' & E' & Cx). assert (x' = x) by congruence. subst.
  unfold collect_node, get. rewrite E. simpl. rewrite Cx. simpl.
  assert (FOLD : forall l, (forall k, In k l -> k < length s /\ rank k < f /\ forall m, Reach s k m -> collected_at s m) ->
     fold_res (fun (k : nat) (acc : heap * list nat) => r' <- collect NH false f k (fst acc) ;; Ok (fst r', snd acc ++ snd r')) l (s, [])
     = Ok (s, [])).
  { induction l as [|k l IHl]; intros Hl; simpl; auto.
    destruct (Hl k (or_introl eq_refl)) as (Lk & Bk & Ck).
    rewrite (IH k s W Rk Lk Bk Ck). simpl. apply IHl. intros k' Hk'. apply Hl. right. exact Hk'. }
  apply FOLD. intros k Hk. apply in_map_iff in Hk. destruct Hk as ([nm k'] & Ek & Hin). simpl in Ek. subst k'.
  split; [eapply W; eauto|]. split.
  - destruct Rk as [R1 _]. assert (rank k < rank n) by (apply R1; exists x, nm; auto). lia.
  - intros m Rm. apply HC. eapply Reach_step; eauto. exists x, nm. auto.
Qed.

End WithNH.
