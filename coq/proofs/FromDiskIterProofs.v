(* The literal two-pass iteration of Directory.from_disk (model/FromDiskIter.v:
   explicit stack, path-keyed updates and deletions, FIFO queue, reversed
   traversal) computes what the recursive model of FromDisk.v computes: it never
   runs out of fuel, never fails a lookup, raises exactly when the recursive
   model raises, and its result represents the same pruned tree. *)
From Coq Require Import List NArith Bool Lia Permutation Arith.
From SWH.lib Require Import Bytes Dec Hex Order StableSort GitHeader ListAux.
From SWH.model Require Import Dir FromDisk FromDiskIter.
From SWH.proofs Require Import DirProofs FromDiskProofs.
From SWH Require Import Generated.
Import ListNotations.
Open Scope N_scope.

(* ================================================================== 1. the error monad, dictionaries *)
Definition is_ok {A} (r : it_result A) : Prop := exists a, r = ItOk a.

Lemma fold_err : forall {A B} (step : it_result A -> B -> it_result A) (l : list B) (e : it_result A),
  (forall b, step e b = e) -> fold_left step l e = e.
Proof. intros A B step l e He. induction l as [|b l IH]; [reflexivity|]. cbn [fold_left]. rewrite He. exact IH. Qed.

Lemma flat_map_flat_map : forall {A B C} (g : A -> list B) (h : B -> list C) l,
  flat_map h (flat_map g l) = flat_map (fun x => flat_map h (g x)) l.
Proof.
  intros A B C g h l. induction l as [|x l IH]; [reflexivity|]. cbn [flat_map]. rewrite flat_map_app, IH. reflexivity.
Qed.

Lemma flat_map_ext_in : forall {A B} (g h : A -> list B) l, (forall x, In x l -> g x = h x) -> flat_map g l = flat_map h l.
Proof.
  intros A B g h l E. induction l as [|x l IH]; [reflexivity|]. cbn [flat_map].
  rewrite (E x (or_introl eq_refl)), IH; [reflexivity|]. intros y Hy. apply E. right. exact Hy.
Qed.

Lemma flat_map_id : forall {A} (l : list A), flat_map (fun x => [x]) l = l.
Proof. intros A l. induction l as [|x l IH]; [reflexivity|]. cbn [flat_map app]. rewrite IH. reflexivity. Qed.

Lemma has_key_In : forall n (ks : kids), has_key n ks = true <-> In n (map fst ks).
Proof.
  intros n ks. unfold has_key. rewrite existsb_exists. split.
  - intros [p [Hp E]]. apply beqb_eq in E. subst n. apply in_map. exact Hp.
  - intro Hin. apply in_map_iff in Hin. destruct Hin as [p [E Hp]]. exists p. split; [exact Hp|]. rewrite E. apply beqb_refl.
Qed.

Lemma has_key_false : forall n (ks : kids), has_key n ks = false <-> ~ In n (map fst ks).
Proof. intros n ks. rewrite <- has_key_In. destruct (has_key n ks); split; intro X; congruence. Qed.

Definition put (n : bytes) (o : option mtree) : kids := match o with Some c => [(n, c)] | None => [] end.

(* replace / remove the child named x *)
Definition subst_kid (x : bytes) (o : option mtree) (ks : kids) : kids :=
  flat_map (fun p => if beqb x (fst p) then put (fst p) o else [p]) ks.

Lemma dict_del_subst : forall x ks, dict_del x ks = subst_kid x None ks.
Proof.
  intros x ks. unfold dict_del, subst_kid. induction ks as [|p ks IH]; [reflexivity|].
  cbn [filter flat_map]. rewrite IH. destruct (beqb x (fst p)); reflexivity.
Qed.

Lemma dict_set_subst : forall x c ks, In x (map fst ks) -> dict_set x c ks = subst_kid x (Some c) ks.
Proof.
  intros x c ks Hin. unfold dict_set. rewrite (proj2 (has_key_In x ks) Hin). unfold subst_kid. clear Hin.
  induction ks as [|p ks IH]; [reflexivity|]. cbn [map flat_map]. rewrite IH.
  destruct (beqb x (fst p)); reflexivity.
Qed.

Lemma dict_set_new : forall x c ks, ~ In x (map fst ks) -> dict_set x c ks = ks ++ [(x, c)].
Proof. intros x c ks Hn. unfold dict_set. rewrite (proj2 (has_key_false x ks) Hn). reflexivity. Qed.

Lemma subst_kid_names_sub : forall x o ks q, In q (subst_kid x o ks) -> In (fst q) (map fst ks).
Proof.
  intros x o ks q Hq. unfold subst_kid in Hq. apply in_flat_map in Hq. destruct Hq as [p [Hp Hq]].
  destruct (beqb x (fst p)).
  - destruct o; [|destruct Hq]. destruct Hq as [E|[]]. subst q. cbn [fst]. apply in_map. exact Hp.
  - destruct Hq as [E|[]]. subst q. apply in_map. exact Hp.
Qed.

Lemma subst_kid_NoDup : forall x o ks, NoDup (map fst ks) -> NoDup (map fst (subst_kid x o ks)).
Proof.
  intros x o ks ND. unfold subst_kid. apply NoDup_flat_map_names; [| |exact ND].
  - intros p q Hq. destruct (beqb x (fst p)); [destruct o; [|destruct Hq]|]; destruct Hq as [<-|[]]; reflexivity.
  - intro p. destruct (beqb x (fst p)); [destruct o|]; cbn; lia.
Qed.

Lemma In_kid_unique : forall (ks : kids) n c c', NoDup (map fst ks) -> In (n, c) ks -> In (n, c') ks -> c = c'.
Proof.
  intros ks n c c' ND H1 H2.
  pose proof (NoDup_map_inj fst ks (n, c) (n, c') ND H1 H2 eq_refl) as E. inversion E. reflexivity.
Qed.

Lemma find_kid : forall (ks : kids) n c, NoDup (map fst ks) -> In (n, c) ks ->
  find (fun q => beqb n (fst q)) ks = Some (n, c).
Proof. intros ks n c ND Hin. apply (find_name_unique ks (n, c) ND Hin). Qed.

(* ================================================================== 2. a generic "decide at a path" operation and its decomposition per child *)
Section Gen.
  Variable g : bytes -> mtree -> it_result bool.   (* what to do with the node named n: true = delete it *)

  Fixpoint gop (d : path) (m : mtree) : it_result mtree :=
    match m with
    | MLeaf _ => ItKeyError
    | MNode ks =>
        match d with
        | [] => ItKeyError
        | n :: r =>
            match find (fun q => beqb n (fst q)) ks with
            | None => ItKeyError
            | Some (_, c) =>
                match r with
                | [] => it_bind (g n c) (fun b => ItOk (MNode (if b then dict_del n ks else ks)))
                | _ => it_bind (gop r c) (fun c' => ItOk (MNode (dict_set n c' ks)))
                end
            end
        end
    end.

  Definition grun (L : list path) (m : mtree) : it_result mtree :=
    fold_left (fun acc d => it_bind acc (gop d)) L (ItOk m).

  (* the same, seen from the child named n: None = the child has been deleted *)
  Definition child_step (n : bytes) (acc : it_result (option mtree)) (r : path) : it_result (option mtree) :=
    it_bind acc (fun o =>
      match o with
      | None => ItKeyError
      | Some c =>
          match r with
          | [] => it_bind (g n c) (fun b => ItOk (if b then None else Some c))
          | _ => it_bind (gop r c) (fun c' => ItOk (Some c'))
          end
      end).

  Definition child_run (n : bytes) (L : list path) (c : mtree) : it_result (option mtree) :=
    fold_left (child_step n) L (ItOk (Some c)).

  (* the paths below the child named n *)
  Definition proj (n : bytes) (L : list path) : list path :=
    flat_map (fun d => match d with x :: r => if beqb x n then [r] else [] | [] => [] end) L.

  Lemma child_fold_err : forall n L (e : it_result (option mtree)), (forall o, e <> ItOk o) ->
    fold_left (child_step n) L e = e.
  Proof.
    intros n L e He. apply fold_err. intro b. destruct e; try reflexivity. destruct (He a eq_refl).
  Qed.

  Lemma child_fold_none : forall n L o, fold_left (child_step n) L (ItOk None) = ItOk o -> L = [] /\ o = None.
  Proof.
    intros n [|r L] o E; cbn [fold_left] in E; [inversion E; auto|].
    cbn [child_step it_bind] in E. rewrite child_fold_err in E by discriminate. discriminate.
  Qed.

  Lemma grun_fold_err : forall L (e : it_result mtree), (forall m, e <> ItOk m) ->
    fold_left (fun acc d => it_bind acc (gop d)) L e = e.
  Proof. intros L e He. apply fold_err. intro b. destruct e; try reflexivity. destruct (He a eq_refl). Qed.

  Lemma gop_step : forall x r ks c, NoDup (map fst ks) -> In (x, c) ks ->
    gop (x :: r) (MNode ks) =
    it_bind (child_step x (ItOk (Some c)) r) (fun o => ItOk (MNode (subst_kid x o ks))).
  Proof.
    intros x r ks c ND Hin. cbn [gop]. rewrite (find_kid ks x c ND Hin). cbn [child_step it_bind].
    assert (Hx : In x (map fst ks)) by (apply in_map_iff; exists (x, c); auto).
    destruct r as [|y r'].
    - destruct (g x c) as [b| | | |]; cbn [it_bind]; try reflexivity. destruct b.
      + rewrite dict_del_subst. reflexivity.
      + do 2 f_equal. unfold subst_kid. symmetry.
        etransitivity; [|apply flat_map_id]. apply flat_map_ext_in. intros p Hp.
        destruct (beqb x (fst p)) eqn:E; [|reflexivity]. apply beqb_eq in E. cbn [put].
        destruct p as [n' c']. cbn [fst] in *. subst n'. rewrite (In_kid_unique ks x c c' ND Hin Hp). reflexivity.
    - destruct (gop (y :: r') c) as [c'| | | |]; cbn [it_bind]; try reflexivity.
      rewrite (dict_set_subst x c' ks Hx). reflexivity.
  Qed.

  Lemma proj_cons_same : forall x r L, proj x ((x :: r) :: L) = r :: proj x L.
  Proof. intros x r L. unfold proj. cbn [flat_map]. rewrite beqb_refl. reflexivity. Qed.

  Lemma proj_cons_other : forall x n r L, beqb x n = false -> proj n ((x :: r) :: L) = proj n L.
  Proof. intros x n r L E. unfold proj. cbn [flat_map]. rewrite E. reflexivity. Qed.

  Lemma proj_nil_no_head : forall x L r, proj x L = [] -> ~ In (x :: r) L.
  Proof.
    intros x L r E Hin. unfold proj in E.
    assert (X : In r (flat_map (fun d => match d with y :: r0 => if beqb y x then [r0] else [] | [] => [] end) L)).
    { apply in_flat_map. exists (x :: r). split; [exact Hin|]. rewrite beqb_refl. left. reflexivity. }
    rewrite E in X. destruct X.
  Qed.

  (* the decomposition: a run on a directory is the runs on its children *)
  Lemma sep : forall L ks, NoDup (map fst ks) ->
    (forall d, In d L -> exists x r, d = x :: r /\ In x (map fst ks)) ->
    (forall n c, In (n, c) ks -> is_ok (child_run n (proj n L) c)) ->
    grun L (MNode ks) =
    ItOk (MNode (flat_map (fun p => match child_run (fst p) (proj (fst p) L) (snd p) with
                                    | ItOk o => put (fst p) o
                                    | _ => []
                                    end) ks)).
  Proof.
    induction L as [|d L IH]; intros ks ND Hh Hc.
    - cbn. do 2 f_equal. symmetry. etransitivity; [|apply flat_map_id]. apply flat_map_ext_in.
      intros [n c] _. reflexivity.
    - destruct (Hh d (or_introl eq_refl)) as [x [r [-> Hx]]].
      apply in_map_iff in Hx. destruct Hx as [[x' c] [Ex Hin]]. cbn [fst] in Ex. subst x'.
      unfold grun. cbn [fold_left it_bind]. rewrite (gop_step x r ks c ND Hin).
      destruct (Hc x c Hin) as [o Ho]. unfold child_run in Ho. rewrite proj_cons_same in Ho. cbn [fold_left] in Ho.
      destruct (child_step x (ItOk (Some c)) r) as [o1| | | |] eqn:E1;
        try (rewrite child_fold_err in Ho by discriminate; discriminate).
      cbn [it_bind]. fold (grun L (MNode (subst_kid x o1 ks))).
      assert (Hno : o1 = None -> proj x L = [] /\ o = None).
      { intros ->. apply (child_fold_none x _ _ Ho). }
      rewrite IH.
      + do 2 f_equal. unfold subst_kid. rewrite flat_map_flat_map. apply flat_map_ext_in.
        intros [n c0] Hp. cbn [fst snd].
        destruct (beqb x n) eqn:E.
        * apply beqb_eq in E. subst n. rewrite (In_kid_unique ks x c0 c ND Hp Hin).
          unfold child_run at 2. rewrite proj_cons_same. cbn [fold_left]. rewrite E1, Ho.
          destruct o1 as [c1|]; cbn [put flat_map fst snd].
          -- unfold child_run. rewrite Ho. rewrite app_nil_r. reflexivity.
          -- destruct (Hno eq_refl) as [_ ->]. reflexivity.
        * cbn [flat_map fst snd]. rewrite app_nil_r. rewrite (proj_cons_other x n r L E). reflexivity.
      + apply subst_kid_NoDup. exact ND.
      + intros d' Hd'. destruct (Hh d' (or_intror Hd')) as [y [r' [-> Hy]]]. exists y, r'. split; [reflexivity|].
        apply in_map_iff in Hy. destruct Hy as [[y' cy] [Ey Hiny]]. cbn [fst] in Ey. subst y'.
        destruct (beqb x y) eqn:E.
        * apply beqb_eq in E. subst y. destruct o1 as [c1|].
          -- apply in_map_iff. exists (x, c1). split; [reflexivity|]. unfold subst_kid. apply in_flat_map.
             exists (x, c). split; [exact Hin|]. cbn [fst]. rewrite beqb_refl. left. reflexivity.
          -- destruct (Hno eq_refl) as [Pn _]. destruct (proj_nil_no_head x L r' Pn Hd').
        * apply in_map_iff. exists (y, cy). split; [reflexivity|]. unfold subst_kid. apply in_flat_map.
          exists (y, cy). split; [exact Hiny|]. cbn [fst]. rewrite E. left. reflexivity.
      + intros n c' Hin'. unfold subst_kid in Hin'. apply in_flat_map in Hin'. destruct Hin' as [[n0 c0] [Hp Hq]].
        cbn [fst] in Hq. destruct (beqb x n0) eqn:E.
        * apply beqb_eq in E. subst n0. destruct o1 as [c1|]; [|destruct Hq]. destruct Hq as [Eq|[]].
          inversion Eq; subst. exists o. exact Ho.
        * destruct Hq as [Eq|[]]. inversion Eq; subst. destruct (Hc n c' Hp) as [o' Ho'].
          exists o'. rewrite (proj_cons_other x n r L E) in Ho'. exact Ho'.
  Qed.
End Gen.

(* ================================================================== 3. the literal steps are instances of [gop] *)
(* a dictionary has distinct keys, at every level *)
Inductive wf_mt : mtree -> Prop :=
| WfLeaf : forall c, wf_mt (MLeaf c)
| WfNode : forall ks, NoDup (map fst ks) -> Forall (fun p => wf_mt (snd p)) ks -> wf_mt (MNode ks).

Lemma wf_mt_kid : forall ks n c, wf_mt (MNode ks) -> In (n, c) ks -> wf_mt c.
Proof. intros ks n c W Hin. inversion W as [|? _ F]; subst. rewrite Forall_forall in F. apply (F (n, c) Hin). Qed.

Lemma wf_mt_nodup : forall ks, wf_mt (MNode ks) -> NoDup (map fst ks).
Proof. intros ks W. inversion W; assumption. Qed.

Lemma subst_kid_same : forall x c ks, NoDup (map fst ks) -> In (x, c) ks -> subst_kid x (Some c) ks = ks.
Proof.
  intros x c ks ND Hin. unfold subst_kid. etransitivity; [|apply flat_map_id]. apply flat_map_ext_in. intros [n c'] Hp.
  cbn [fst]. destruct (beqb x n) eqn:E; [|reflexivity]. apply beqb_eq in E. subst n. cbn [put].
  rewrite (In_kid_unique ks x c c' ND Hin Hp). reflexivity.
Qed.

Lemma subst_kid_wf : forall x o ks, wf_mt (MNode ks) -> (forall c, o = Some c -> wf_mt c) -> wf_mt (MNode (subst_kid x o ks)).
Proof.
  intros x o ks W Wo. constructor; [apply subst_kid_NoDup, (wf_mt_nodup _ W)|].
  apply Forall_forall. intros q Hq. unfold subst_kid in Hq. apply in_flat_map in Hq. destruct Hq as [[n c] [Hp Hq]].
  cbn [fst] in Hq. destruct (beqb x n).
  - destruct o as [c1|]; [|destruct Hq]. destruct Hq as [E|[]]. subst q. cbn [snd]. apply Wo. reflexivity.
  - destruct Hq as [E|[]]. subst q. cbn [snd]. apply (wf_mt_kid ks n c W Hp).
Qed.

Lemma find_In_kid : forall (ks : kids) n p, find (fun q => beqb n (fst q)) ks = Some p -> In p ks /\ fst p = n.
Proof. intros ks n p F. apply find_some in F. destruct F as [Hin E]. apply beqb_eq in E. auto. Qed.

Lemma last_cons_cons : forall (n y : bytes) r, last (n :: y :: r) [] = last (y :: r) [].
Proof. reflexivity. Qed.

Lemma mt_delete_at_deep : forall n y r ks,
  mt_delete_at (n :: y :: r) (MNode ks) =
  match find (fun q => beqb n (fst q)) ks with
  | Some (_, c) => match mt_delete_at (y :: r) c with Some c' => Some (MNode (dict_set n c' ks)) | None => None end
  | None => None
  end.
Proof. reflexivity. Qed.

Section GenLit.
  Variable g : bytes -> mtree -> it_result bool.

  Lemma gop_spec : forall d m m', wf_mt m -> gop g d m = ItOk m' ->
    exists c b, mt_get d m = Some c /\ g (basename d) c = ItOk b /\
                (b = true -> mt_delete_at d m = Some m') /\ (b = false -> m' = m) /\ wf_mt m'.
  Proof.
    induction d as [|n r IH]; intros m m' W G; destruct m as [ci|ks]; cbn [gop] in G; try discriminate.
    destruct (find (fun q => beqb n (fst q)) ks) as [[n' c]|] eqn:F; [|discriminate].
    destruct (find_In_kid ks n _ F) as [Hin En]. cbn [fst] in En. subst n'.
    pose proof (wf_mt_nodup ks W) as ND. pose proof (wf_mt_kid ks n c W Hin) as Wc.
    assert (Hn : In n (map fst ks)) by (apply in_map_iff; exists (n, c); auto).
    cbn [mt_get]. rewrite F. destruct r as [|y r'].
    - destruct (g n c) as [b| | | |] eqn:Gn; try discriminate. cbn [it_bind] in G. inversion G; subst m'.
      exists c, b. cbn [mt_get]. split; [reflexivity|]. split; [exact Gn|]. split; [|split].
      + intros ->. cbn [mt_delete_at]. rewrite (proj2 (has_key_In n ks) Hn). reflexivity.
      + intros ->. reflexivity.
      + destruct b; [|exact W]. rewrite dict_del_subst. apply subst_kid_wf; [exact W | discriminate].
    - destruct (gop g (y :: r') c) as [c'| | | |] eqn:Gc; try discriminate. cbn [it_bind] in G. inversion G; subst m'.
      destruct (IH c c' Wc Gc) as [c0 [b [Gt [Gb [Hd [Hs Wc']]]]]].
      exists c0, b. split; [exact Gt|]. split; [unfold basename in *; rewrite last_cons_cons; exact Gb|].
      rewrite (dict_set_subst n c' ks Hn). split; [|split].
      + intro Eb. rewrite mt_delete_at_deep, F, (Hd Eb), (dict_set_subst n c' ks Hn). reflexivity.
      + intro Eb. rewrite (Hs Eb). rewrite (subst_kid_same n c ks ND Hin). reflexivity.
      + apply subst_kid_wf; [exact W|]. intros ? E. inversion E; subst. exact Wc'.
  Qed.
End GenLit.

Definition g_del : bytes -> mtree -> it_result bool := fun _ _ => ItOk true.
Definition g_prune (f : filt) : bytes -> mtree -> it_result bool :=
  fun n c => match c with MLeaf _ => ItAssert | MNode ks => ItOk (negb (filt_dir f n (map fst ks))) end.

Lemma del_all_grun : forall L m m', wf_mt m -> grun g_del L m = ItOk m' -> del_all L m = ItOk m' /\ wf_mt m'.
Proof.
  induction L as [|d L IH]; intros m m' W G.
  - cbn in G. inversion G; subst. split; [reflexivity | exact W].
  - unfold grun in G. cbn [fold_left it_bind] in G.
    destruct (gop g_del d m) as [m1| | | |] eqn:G1; try (rewrite grun_fold_err in G by discriminate; discriminate).
    destruct (gop_spec g_del d m m1 W G1) as [c [b [_ [Gb [Hd [_ W1]]]]]]. inversion Gb; subst b.
    unfold del_all. cbn [fold_left del_step it_bind]. rewrite (Hd eq_refl). apply (IH m1 m' W1 G).
Qed.

Lemma prune_fold_grun : forall f L m m', wf_mt m -> (forall d, In d L -> d <> []) ->
  grun (g_prune f) L m = ItOk m' -> fold_left (prune_step f) L (ItOk m) = ItOk m' /\ wf_mt m'.
Proof.
  intros f. induction L as [|d L IH]; intros m m' W NE G.
  - cbn in G. inversion G; subst. split; [reflexivity | exact W].
  - unfold grun in G. cbn [fold_left it_bind] in G.
    destruct (gop (g_prune f) d m) as [m1| | | |] eqn:G1; try (rewrite grun_fold_err in G by discriminate; discriminate).
    destruct (gop_spec (g_prune f) d m m1 W G1) as [c [b [Gt [Gb [Hd [Hs W1]]]]]].
    cbn [fold_left]. unfold prune_step at 2. cbn [it_bind]. rewrite Gt.
    unfold g_prune in Gb. destruct c as [ci|ks]; [discriminate|]. inversion Gb; subst b.
    assert (NR : nonroot d = true) by (destruct d; [destruct (NE [] (or_introl eq_refl) eq_refl) | reflexivity]).
    rewrite NR. cbn [andb].
    destruct (negb (filt_dir f (basename d) (map fst ks))) eqn:Eb.
    + rewrite (Hd eq_refl). apply (IH m1 m' W1); [|exact G]. intros d' Hd'. apply NE. right. exact Hd'.
    + rewrite <- (Hs eq_refl). apply (IH m1 m' W1); [|exact G]. intros d' Hd'. apply NE. right. exact Hd'.
Qed.

(* ================================================================== 4. pass 2: any children-first enumeration of the directories computes prune2 *)
(* [ValidK L ks]: L enumerates the paths of all directories strictly below a
   directory with children ks, each once, every directory after all the
   directories below it *)
Inductive ValidK : list path -> kids -> Prop :=
| VK : forall L ks,
    (forall d, In d L -> exists x r, d = x :: r /\ In x (map fst ks)) ->
    (forall n ci, In (n, MLeaf ci) ks -> proj n L = []) ->
    (forall n kc, In (n, MNode kc) ks -> exists Lc, proj n L = Lc ++ [[]] /\ ValidK Lc kc) ->
    ValidK L ks.

Lemma ValidK_nonempty : forall L ks, ValidK L ks -> forall d, In d L -> d <> [].
Proof. intros L ks V d Hd. destruct V as [L ks Hh _ _]. destruct (Hh d Hd) as [x [r [-> _]]]. discriminate. Qed.

Section ChildRun.
  Variable g : bytes -> mtree -> it_result bool.
  Definition wrap (c : mtree) : it_result (option mtree) := ItOk (Some c).

  Lemma child_fold_nonempty : forall n Lc (acc : it_result mtree), (forall d, In d Lc -> d <> []) ->
    fold_left (child_step g n) Lc (it_bind acc wrap) =
    it_bind (fold_left (fun a d => it_bind a (gop g d)) Lc acc) wrap.
  Proof.
    intros n. induction Lc as [|d Lc IH]; intros acc NE; [reflexivity|]. cbn [fold_left].
    rewrite <- IH by (intros d' Hd'; apply NE; right; exact Hd'). f_equal.
    destruct d as [|x r]; [destruct (NE [] (or_introl eq_refl) eq_refl)|].
    destruct acc; reflexivity.
  Qed.

  Lemma child_run_snoc : forall n Lc c c', (forall d, In d Lc -> d <> []) -> grun g Lc c = ItOk c' ->
    child_run g n (Lc ++ [[]]) c = it_bind (g n c') (fun b => ItOk (if b then None else Some c')).
  Proof.
    intros n Lc c c' NE G. unfold child_run. rewrite fold_left_app. cbn [fold_left].
    pose proof (child_fold_nonempty n Lc (ItOk c) NE) as X. fold (grun g Lc c) in X. rewrite G in X.
    cbn [it_bind] in X. unfold wrap in X.
    match goal with |- child_step g n ?e [] = _ => replace e with (@ItOk (option mtree) (Some c')) by (symmetry; exact X) end.
    reflexivity.
  Qed.
End ChildRun.

Lemma prune_run : forall f m, wf_mt m -> forall ks, m = MNode ks -> forall L, ValidK L ks ->
  grun (g_prune f) L m = ItOk (prune2 f m).
Proof.
  intros f. induction m as [ci|ks0 IH] using mtree_ind'; intros W ks E L V; [discriminate|].
  inversion E; subst ks0. clear E. destruct V as [L ks Hh Hleaf Hnode].
  assert (Hrun : forall n c, In (n, c) ks -> child_run (g_prune f) n (proj n L) c = ItOk (match prune2_kid f (n, c) with [] => None | q :: _ => Some (snd q) end)
                                            /\ prune2_kid f (n, c) = put n (match prune2_kid f (n, c) with [] => None | q :: _ => Some (snd q) end)).
  { intros n c Hin. destruct c as [ci|kc].
    - rewrite (Hleaf n ci Hin). split; reflexivity.
    - destruct (Hnode n kc Hin) as [Lc [EL VL]]. rewrite EL.
      rewrite Forall_forall in IH. pose proof (IH (n, MNode kc) Hin (wf_mt_kid ks n _ W Hin) kc eq_refl Lc VL) as G.
      cbn [snd] in G. rewrite (child_run_snoc (g_prune f) n Lc (MNode kc) _ (ValidK_nonempty Lc kc VL) G).
      assert (Ek : prune2_kid f (n, MNode kc) =
                   if filt_dir f n (keys (prune2 f (MNode kc))) then [(n, prune2 f (MNode kc))] else []) by reflexivity.
      assert (Eg : g_prune f n (prune2 f (MNode kc)) = ItOk (negb (filt_dir f n (keys (prune2 f (MNode kc))))))
        by (rewrite prune2_node; reflexivity).
      rewrite Ek, Eg. cbn [it_bind].
      destruct (filt_dir f n (keys (prune2 f (MNode kc)))); cbn [negb]; split; reflexivity. }
  rewrite (sep (g_prune f) L ks (wf_mt_nodup ks W) Hh).
  - rewrite prune2_node. do 2 f_equal. apply flat_map_ext_in. intros [n c] Hin. cbn [fst snd].
    destruct (Hrun n c Hin) as [R1 R2]. rewrite R1. symmetry. exact R2.
  - intros n c Hin. destruct (Hrun n c Hin) as [R1 _]. eexists. exact R1.
Qed.

(* ================================================================== 5. the breadth-first loop *)
Definition sub_item (it : path * mtree) : list (path * mtree) := subdirs_of (fst it) (snd it).

(* number of pops an item of the queue causes: itself and every directory below it *)
Fixpoint mt_w (m : mtree) : nat :=
  match m with
  | MLeaf _ => 1
  | MNode ks => S ((fix go (l : kids) : nat :=
                      match l with
                      | [] => O
                      | p :: r => (match snd p with MNode _ => mt_w (snd p) | MLeaf _ => O end + go r)%nat
                      end) ks)
  end.

Definition qw (q : list (path * mtree)) : nat := fold_right (fun it a => (mt_w (snd it) + a)%nat) O q.

Lemma qw_app : forall a b, qw (a ++ b) = (qw a + qw b)%nat.
Proof. induction a as [|x a IH]; intro b; [reflexivity|]. cbn [app qw fold_right] in *. fold (qw (a ++ b)). fold (qw a). rewrite IH. lia. Qed.

Lemma qw_in : forall it q, In it q -> (mt_w (snd it) <= qw q)%nat.
Proof.
  intros it q. induction q as [|a q IH]; intro Hin; [destruct Hin|].
  change (qw (a :: q)) with (mt_w (snd a) + qw q)%nat. destruct Hin as [->|Hin]; [lia | specialize (IH Hin); lia].
Qed.

Lemma mt_w_node : forall p ks, mt_w (MNode ks) = S (qw (subdirs_of p (MNode ks))).
Proof.
  intros p ks. cbn [mt_w subdirs_of]. f_equal. induction ks as [|[n c] ks IH]; [reflexivity|].
  cbn [flat_map snd fst]. rewrite qw_app, <- IH. destruct c; cbn [qw fold_right snd]; lia.
Qed.

Lemma mt_w_pos : forall m, (1 <= mt_w m)%nat.
Proof. destruct m; cbn [mt_w]; lia. Qed.

Lemma qw_sub : forall q, qw q = (length q + qw (flat_map sub_item q))%nat.
Proof.
  induction q as [|[p m] q IH]; [reflexivity|]. cbn [flat_map length]. rewrite qw_app.
  change (qw ((p, m) :: q)) with (mt_w m + qw q)%nat.
  remember (qw (flat_map sub_item q)) as a. remember (qw q) as b. unfold sub_item. cbn [fst snd].
  destruct m as [ci|ks]; [cbn [subdirs_of qw fold_right mt_w]; lia|]. rewrite (mt_w_node p ks). lia.
Qed.

Lemma qw_zero : forall q, qw q = O -> q = [].
Proof. intros [|[p m] q] E; [reflexivity|]. change (qw ((p, m) :: q)) with (mt_w m + qw q)%nat in E. pose proof (mt_w_pos m). lia. Qed.

Fixpoint levels (n : nat) (q : list (path * mtree)) : list path :=
  match n with
  | O => []
  | S k => map fst q ++ levels k (flat_map sub_item q)
  end.

Lemma levels_nil : forall n, levels n [] = [].
Proof. induction n as [|n IH]; [reflexivity|]. cbn [levels map flat_map app]. exact IH. Qed.

Lemma bfs_batch : forall q k extra trav,
  bfs (length q + k) (q ++ extra) trav = bfs k (extra ++ flat_map sub_item q) (trav ++ map fst q).
Proof.
  induction q as [|[cp cd] q IH]; intros k extra trav.
  - cbn [length plus app flat_map map]. rewrite !app_nil_r. reflexivity.
  - cbn [length plus app bfs]. rewrite <- app_assoc, IH. cbn [flat_map map]. unfold sub_item at 2. cbn [fst snd].
    rewrite <- !app_assoc. reflexivity.
Qed.

Lemma bfs_levels : forall n q trav fuel, (qw q <= n)%nat -> (qw q <= fuel)%nat ->
  bfs fuel q trav = ItOk (trav ++ levels n q).
Proof.
  induction n as [|n IH]; intros q trav fuel Hn Hf.
  - rewrite (qw_zero q) by lia. destruct fuel; cbn; rewrite app_nil_r; reflexivity.
  - destruct q as [|it q]; [destruct fuel; cbn [bfs]; rewrite levels_nil, app_nil_r; reflexivity|].
    pose proof (qw_sub (it :: q)) as Q. cbn [length] in Q.
    pose proof (bfs_batch (it :: q) (fuel - length (it :: q)) [] trav) as B. rewrite app_nil_r in B.
    replace (length (it :: q) + (fuel - length (it :: q)))%nat with fuel in B by (cbn [length]; lia).
    rewrite B. cbn [app].
    rewrite (IH _ _ _) by (cbn [length]; lia). cbn [levels]. rewrite app_assoc. reflexivity.
Qed.

(* projection of the traversal on the sub-tree of one child *)
Definition projq (x : bytes) (q : list (path * mtree)) : list (path * mtree) :=
  flat_map (fun it => match fst it with y :: r => if beqb y x then [(r, snd it)] else [] | [] => [] end) q.

Lemma proj_app : forall x a b, proj x (a ++ b) = proj x a ++ proj x b.
Proof. intros. unfold proj. apply flat_map_app. Qed.

Lemma proj_cons : forall x d L,
  proj x (d :: L) = (match d with y :: r => if beqb y x then [r] else [] | [] => [] end) ++ proj x L.
Proof. reflexivity. Qed.

Lemma proj_rev : forall x L, proj x (rev L) = rev (proj x L).
Proof.
  intros x L. induction L as [|d L IH]; [reflexivity|]. cbn [rev]. rewrite proj_app, IH, !proj_cons, rev_app_distr.
  f_equal. cbn [proj flat_map]. rewrite app_nil_r. destruct d as [|y r]; [reflexivity|]. destruct (beqb y x); reflexivity.
Qed.

Lemma proj_map_fst : forall x q, proj x (map fst q) = map fst (projq x q).
Proof.
  intros x q. induction q as [|[p m] q IH]; [reflexivity|]. cbn [map fst]. rewrite proj_cons, IH.
  unfold projq. cbn [flat_map fst snd]. rewrite map_app. f_equal.
  destruct p as [|y r]; [reflexivity|]. destruct (beqb y x); reflexivity.
Qed.

Lemma projq_app : forall x a b, projq x (a ++ b) = projq x a ++ projq x b.
Proof. intros. unfold projq. apply flat_map_app. Qed.

Lemma projq_subdirs : forall x y r m, projq x (subdirs_of (y :: r) m) = if beqb y x then subdirs_of r m else [].
Proof.
  intros x y r [ci|ks]; cbn [subdirs_of]; [destruct (beqb y x); reflexivity|].
  induction ks as [|[n c] ks IH]; cbn [flat_map]; [destruct (beqb y x); reflexivity|].
  rewrite projq_app, IH. cbn [fst snd]. destruct c as [ci|kc].
  - cbn. destruct (beqb y x); reflexivity.
  - unfold projq at 1. cbn [flat_map fst snd app]. destruct (beqb y x); reflexivity.
Qed.

Lemma projq_sub : forall x q, (forall it, In it q -> fst it <> []) ->
  projq x (flat_map sub_item q) = flat_map sub_item (projq x q).
Proof.
  intros x. induction q as [|[p m] q IH]; intro NE; [reflexivity|]. cbn [flat_map].
  rewrite projq_app, IH by (intros it Hit; apply NE; right; exact Hit).
  change ((p, m) :: q) with ([(p, m)] ++ q). rewrite projq_app, flat_map_app. f_equal.
  unfold sub_item at 1. cbn [fst snd]. destruct p as [|y r]; [destruct (NE _ (or_introl eq_refl) eq_refl)|].
  rewrite projq_subdirs. unfold projq. cbn [flat_map fst snd]. destruct (beqb y x); [|reflexivity].
  cbn [flat_map app]. rewrite app_nil_r. reflexivity.
Qed.

Lemma sub_item_nonempty : forall q it, In it (flat_map sub_item q) -> fst it <> [].
Proof.
  intros q it Hit. apply in_flat_map in Hit. destruct Hit as [[p m] [_ Hs]]. unfold sub_item in Hs. cbn [fst snd] in Hs.
  destruct m as [ci|ks]; [destruct Hs|]. cbn [subdirs_of] in Hs. apply in_flat_map in Hs. destruct Hs as [[n c] [_ Hc]].
  cbn [fst snd] in Hc. destruct c; [destruct Hc|]. destruct Hc as [<-|[]]. cbn [fst]. destruct p; discriminate.
Qed.

Lemma proj_levels : forall x n q, (forall it, In it q -> fst it <> []) -> proj x (levels n q) = levels n (projq x q).
Proof.
  intros x. induction n as [|n IH]; intros q NE; [reflexivity|]. cbn [levels].
  rewrite proj_app, proj_map_fst, IH by (apply sub_item_nonempty). rewrite projq_sub by exact NE. reflexivity.
Qed.

Lemma levels_prefix : forall n q d, In d (levels n q) -> exists it r, In it q /\ d = fst it ++ r.
Proof.
  induction n as [|n IH]; intros q d Hd; [destruct Hd|]. cbn [levels] in Hd. apply in_app_or in Hd. destruct Hd as [Hd|Hd].
  - apply in_map_iff in Hd. destruct Hd as [it [<- Hit]]. exists it, []. rewrite app_nil_r. auto.
  - destruct (IH _ _ Hd) as [it [r [Hit ->]]]. apply in_flat_map in Hit. destruct Hit as [[p m] [Hq Hs]].
    unfold sub_item in Hs. cbn [fst snd] in Hs. destruct m as [ci|ks]; [destruct Hs|]. cbn [subdirs_of] in Hs.
    apply in_flat_map in Hs. destruct Hs as [[n0 c] [_ Hc]]. cbn [fst snd] in Hc. destruct c; [destruct Hc|].
    destruct Hc as [<-|[]]. cbn [fst]. exists (p, MNode ks), ([n0] ++ r). split; [exact Hq|]. cbn [fst]. rewrite app_assoc. reflexivity.
Qed.

Lemma projq_root_absent : forall x ks, ~ In x (map fst ks) -> projq x (subdirs_of [] (MNode ks)) = [].
Proof.
  intros x ks. cbn [subdirs_of]. induction ks as [|[n c] ks IH]; intro Hn; [reflexivity|].
  cbn [flat_map map fst snd] in *. rewrite projq_app, IH by (intro X; apply Hn; right; exact X). rewrite app_nil_r.
  destruct c; [reflexivity|]. unfold projq. cbn [flat_map fst snd app].
  destruct (beqb n x) eqn:E; [|reflexivity]. apply beqb_eq in E. subst. exfalso. apply Hn. left. reflexivity.
Qed.

Lemma projq_root : forall x c ks, NoDup (map fst ks) -> In (x, c) ks ->
  projq x (subdirs_of [] (MNode ks)) = match c with MNode _ => [([], c)] | MLeaf _ => [] end.
Proof.
  intros x c ks. induction ks as [|[n c0] ks IH]; intros ND Hin; [destruct Hin|].
  cbn [map fst] in ND. inversion ND as [|? ? Hnot ND']; subst.
  change (subdirs_of [] (MNode ((n, c0) :: ks))) with
    ((match c0 with MNode _ => [([] ++ [n], c0)] | MLeaf _ => [] end) ++ subdirs_of [] (MNode ks)).
  rewrite projq_app. destruct Hin as [E|Hin].
  - inversion E; subst. rewrite (projq_root_absent x ks Hnot), app_nil_r.
    destruct c; [reflexivity|]. unfold projq. cbn [flat_map fst snd app]. rewrite beqb_refl. reflexivity.
  - rewrite (IH ND' Hin).
    assert (Ne : beqb n x = false).
    { apply beqb_neq. intros ->. apply Hnot. apply in_map_iff. exists (x, c). auto. }
    destruct c0; [reflexivity|]. unfold projq at 1. cbn [flat_map fst snd app]. rewrite Ne. reflexivity.
Qed.

(* the reversed breadth-first traversal is a children-first enumeration *)
Lemma bfs_valid : forall m, wf_mt m -> forall ks, m = MNode ks -> forall n, (qw (subdirs_of [] m) <= n)%nat ->
  ValidK (rev (levels n (subdirs_of [] m))) ks.
Proof.
  induction m as [ci|ks0 IH] using mtree_ind'; intros W ks E n Hn; [discriminate|]. inversion E; subst ks0. clear E.
  pose proof (wf_mt_nodup ks W) as ND.
  assert (NEroot : forall it, In it (subdirs_of [] (MNode ks)) -> fst it <> []) by
    (intros it Hit; apply (sub_item_nonempty [([], MNode ks)]); cbn [flat_map]; rewrite app_nil_r; exact Hit).
  constructor.
  - intros d Hd. apply in_rev in Hd. destruct (levels_prefix _ _ _ Hd) as [it [r [Hit ->]]].
    cbn [subdirs_of] in Hit. apply in_flat_map in Hit. destruct Hit as [[x c] [Hp Hc]]. cbn [fst snd] in Hc.
    destruct c; [destruct Hc|]. destruct Hc as [<-|[]]. cbn [fst app]. exists x, r. split; [reflexivity|].
    apply in_map_iff. exists (x, MNode kids). auto.
  - intros x ci Hin. rewrite proj_rev, proj_levels by exact NEroot. rewrite (projq_root x _ ks ND Hin), levels_nil. reflexivity.
  - intros x kc Hin. rewrite proj_rev, proj_levels by exact NEroot. rewrite (projq_root x _ ks ND Hin).
    assert (Hw : (mt_w (MNode kc) <= qw (subdirs_of [] (MNode ks)))%nat).
    { apply (qw_in ([] ++ [x], MNode kc)). cbn [subdirs_of]. apply in_flat_map. exists (x, MNode kc). split; [exact Hin|].
      left. reflexivity. }
    rewrite (mt_w_node [] kc) in Hw. destruct n as [|n']; [lia|].
    cbn [levels map fst flat_map]. rewrite app_nil_r. unfold sub_item. cbn [fst snd app rev].
    exists (rev (levels n' (subdirs_of [] (MNode kc)))). split; [reflexivity|].
    rewrite Forall_forall in IH. apply (IH (x, MNode kc) Hin (wf_mt_kid ks x _ W Hin) kc eq_refl). cbn [snd]. lia.
Qed.

(* pass 2 as a whole *)
Lemma pass2_ok : forall f ks fuel, wf_mt (MNode ks) -> (mt_w (MNode ks) <= fuel)%nat ->
  it_bind (bfs fuel [([], MNode ks)] []) (fun trav => fold_left (prune_step f) (rev trav) (ItOk (MNode ks)))
  = ItOk (prune2 f (MNode ks)).
Proof.
  intros f ks fuel W Hf.
  assert (Q : qw [([], MNode ks)] = mt_w (MNode ks)) by (cbn [qw fold_right snd]; lia).
  rewrite (bfs_levels (mt_w (MNode ks)) [([], MNode ks)] [] fuel) by lia. cbn [it_bind app].
  rewrite (mt_w_node [] ks) in *. set (n := qw (subdirs_of [] (MNode ks))) in *.
  cbn [levels map fst flat_map]. rewrite app_nil_r. unfold sub_item. cbn [fst snd app rev]. rewrite fold_left_app.
  pose proof (bfs_valid (MNode ks) W ks eq_refl n (le_n _)) as V.
  pose proof (prune_run f (MNode ks) W ks eq_refl _ V) as G.
  destruct (prune_fold_grun f _ _ _ W (ValidK_nonempty _ _ V) G) as [E _]. rewrite E.
  cbn [fold_left]. unfold prune_step. cbn [it_bind mt_get]. rewrite prune2_node. reflexivity.
Qed.

(* ================================================================== 6. grafting a sub-tree at a path (what the in-place updates of pass 1 amount to) *)
Fixpoint mt_graft (p : path) (x : mtree) (m : mtree) : mtree :=
  match p with
  | [] => x
  | n :: r =>
      match m with
      | MLeaf _ => m
      | MNode ks => match find (fun q => beqb n (fst q)) ks with
                    | Some (_, c) => MNode (dict_set n (mt_graft r x c) ks)
                    | None => m
                    end
      end
  end.

Lemma dict_update_fresh : forall es pre, NoDup (map fst (pre ++ es)) -> dict_update pre es = pre ++ es.
Proof.
  unfold dict_update. induction es as [|[n v] es IH]; intros pre ND; [cbn; rewrite app_nil_r; reflexivity|].
  cbn [fold_left fst snd]. rewrite dict_set_new.
  - rewrite IH; rewrite <- app_assoc; [reflexivity | exact ND].
  - rewrite map_app in ND. cbn [map fst] in ND. apply NoDup_remove_2 in ND. intro X. apply ND. apply in_or_app. left. exact X.
Qed.

Lemma mt_update_at_nil : forall es ks, mt_update_at [] es (MNode ks) = Some (MNode (dict_update ks es)).
Proof. reflexivity. Qed.

Lemma mt_update_at_cons : forall n r es ks, mt_update_at (n :: r) es (MNode ks) =
  match find (fun q => beqb n (fst q)) ks with
  | Some (_, c) => match mt_update_at r es c with Some c' => Some (MNode (dict_set n c' ks)) | None => None end
  | None => None
  end.
Proof. reflexivity. Qed.

Lemma update_is_graft : forall p es top, mt_get p top = Some (MNode []) -> NoDup (map fst es) ->
  mt_update_at p es top = Some (mt_graft p (MNode es) top).
Proof.
  induction p as [|n r IH]; intros es top G ND.
  - cbn [mt_get] in G. inversion G; subst. rewrite mt_update_at_nil, (dict_update_fresh es []) by exact ND. reflexivity.
  - destruct top as [ci|ks]; [discriminate|]. cbn [mt_get] in G. rewrite mt_update_at_cons. cbn [mt_graft].
    destruct (find (fun q => beqb n (fst q)) ks) as [[n' c]|]; [|discriminate]. rewrite (IH es c G ND). reflexivity.
Qed.

Lemma find_has_key : forall n (ks : kids) p, find (fun q => beqb n (fst q)) ks = Some p -> has_key n ks = true.
Proof.
  intros n ks p F. apply find_some in F. unfold has_key. apply existsb_exists. exists p. exact F.
Qed.

Lemma find_dict_set : forall n v (ks : kids) p, find (fun q => beqb n (fst q)) ks = Some p ->
  find (fun q => beqb n (fst q)) (dict_set n v ks) = Some (fst p, v).
Proof.
  intros n v ks p F. unfold dict_set. rewrite (find_has_key n ks p F).
  induction ks as [|q ks IH]; [discriminate|]. cbn [find map] in *.
  destruct (beqb n (fst q)) eqn:E; cbn [find fst]; rewrite E; [inversion F; reflexivity | apply IH; exact F].
Qed.

Lemma has_key_dict_set : forall n v ks, has_key n ks = true -> has_key n (dict_set n v ks) = true.
Proof.
  intros n v ks Hk. unfold dict_set. rewrite Hk. unfold has_key in *. rewrite existsb_exists in *.
  destruct Hk as [p [Hp E]]. exists (if beqb n (fst p) then (fst p, v) else p). split.
  - apply in_map_iff. exists p. auto.
  - rewrite E. cbn [fst]. exact E.
Qed.

Lemma dict_set_twice : forall n v v' ks, has_key n ks = true -> dict_set n v (dict_set n v' ks) = dict_set n v ks.
Proof.
  intros n v v' ks Hk. unfold dict_set at 1. rewrite (has_key_dict_set n v' ks Hk). unfold dict_set. rewrite Hk, map_map.
  apply map_ext. intro p. destruct (beqb n (fst p)) eqn:E; cbn [fst]; rewrite E; reflexivity.
Qed.

Lemma graft_snoc : forall p n Y es top, In n (map fst es) ->
  mt_graft (p ++ [n]) Y (mt_graft p (MNode es) top) = mt_graft p (MNode (dict_set n Y es)) top.
Proof.
  induction p as [|x r IH]; intros n Y es top Hin.
  - cbn [app mt_graft]. destruct (find (fun q => beqb n (fst q)) es) as [[n' c]|] eqn:F; [reflexivity|].
    exfalso. apply in_map_iff in Hin. destruct Hin as [q [Eq Hq]]. pose proof (find_none _ _ F q Hq) as X. cbv beta in X.
    rewrite Eq, beqb_refl in X. discriminate.
  - cbn [app mt_graft]. destruct top as [ci|ks]; [reflexivity|].
    destruct (find (fun q => beqb x (fst q)) ks) as [[x' c]|] eqn:F; [|rewrite F; reflexivity].
    rewrite (find_dict_set x _ ks _ F). cbn [fst]. rewrite IH by exact Hin.
    rewrite (dict_set_twice x _ _ ks (find_has_key x ks _ F)). reflexivity.
Qed.

Lemma mt_get_graft : forall p q X top y, mt_get p top = Some y -> mt_get (p ++ q) (mt_graft p X top) = mt_get q X.
Proof.
  induction p as [|n r IH]; intros q X top y G; [reflexivity|].
  destruct top as [ci|ks]; [discriminate|]. cbn [mt_get app mt_graft] in *.
  destruct (find (fun q => beqb n (fst q)) ks) as [[n' c]|] eqn:F; [|discriminate].
  cbn [mt_get]. rewrite (find_dict_set n _ ks _ F). apply (IH q X c y G).
Qed.

(* ================================================================== 7. pass 1: what the stack loop computes *)
Fixpoint fs_height (t : fsnode) : nat :=
  match t with
  | FDir cs => S ((fix go (l : list (bytes * fsnode)) : nat :=
                     match l with [] => O | p :: r => Nat.max (fs_height (snd p)) (go r) end) cs)
  | _ => O
  end.

Lemma fs_height_kid : forall cs e, In e cs -> (fs_height (snd e) < fs_height (FDir cs))%nat.
Proof.
  intros cs e Hin. cbn [fs_height]. apply Nat.lt_succ_r.
  induction cs as [|a cs IH]; [destruct Hin|]. destruct Hin as [->|Hin]; [lia | specialize (IH Hin); lia].
Qed.

Lemma fs_height_dir_pos : forall cs, (1 <= fs_height (FDir cs))%nat.
Proof. intro cs. cbn [fs_height]. lia. Qed.

Definition dcl (l : list (bytes * fsnode)) : nat := fold_right (fun e a => (dir_count (snd e) + a)%nat) O l.

Lemma dir_count_dir : forall cs, dir_count (FDir cs) = S (dcl cs).
Proof.
  intro cs. cbn [dir_count]. f_equal. induction cs as [|[n c] cs IH]; [reflexivity|]. cbn [dcl fold_right snd]. fold (dcl cs).
  rewrite <- IH. reflexivity.
Qed.

Lemma dcl_perm : forall l l', Permutation l l' -> dcl l = dcl l'.
Proof.
  intros l l' P. induction P as [|x l l' _ IH|x y l|l l' l'' _ IH1 _ IH2]; cbn [dcl fold_right] in *; try fold (dcl l) in *;
    try fold (dcl l') in *; lia.
Qed.

Lemma dcl_cons : forall e l, dcl (e :: l) = (dir_count (snd e) + dcl l)%nat.
Proof. reflexivity. Qed.

Definition lperm (lord : path -> list (bytes * fsnode) -> list (bytes * fsnode)) : Prop :=
  forall p cs, Permutation (lord p cs) cs.

Section P1.
  Variable lord : path -> list (bytes * fsnode) -> list (bytes * fsnode).
  Variable f : filt.
  Variable limit : option N.
  Hypothesis LP : lperm lord.

  Definition rejected (p : path) (l : list (bytes * fsnode)) : bool :=
    nonroot p && negb (filt_dir f (basename p) (map fst l)).

  Definition entry1 (e : bytes * fsnode) : fd_result (bytes * mtree) :=
    match snd e with
    | FDir _ => FdOk (fst e, MNode [])
    | c => match from_file limit c with FdOk ci => FdOk (fst e, MLeaf ci) | FdSymlinkTooLarge => FdSymlinkTooLarge end
    end.

  Fixpoint entries_of (l : list (bytes * fsnode)) : fd_result kids :=
    match l with
    | [] => FdOk []
    | e :: r => match entry1 e, entries_of r with FdOk x, FdOk es => FdOk (x :: es) | _, _ => FdSymlinkTooLarge end
    end.

  Definition dirs_of (root : path) (l : list (bytes * fsnode)) : stack :=
    flat_map (fun e => match snd e with FDir ccs => [(root ++ [fst e], ccs)] | _ => [] end) l.

  Lemma entry1_name : forall e x, entry1 e = FdOk x -> fst x = fst e.
  Proof.
    intros [n c] x E. unfold entry1 in E. cbn [fst snd] in *.
    destruct c; try (destruct (from_file limit _); [|discriminate]); inversion E; reflexivity.
  Qed.

  Lemma entries_names : forall l es, entries_of l = FdOk es -> map fst es = map fst l.
  Proof.
    induction l as [|e l IH]; intros es E; cbn [entries_of] in E; [inversion E; reflexivity|].
    destruct (entry1 e) as [x|] eqn:E1; [|discriminate]. destruct (entries_of l) as [es'|]; [|discriminate].
    inversion E; subst. cbn [map]. rewrite (IH es' eq_refl), (entry1_name e x E1). reflexivity.
  Qed.

  Lemma scan_err : forall root l, fold_left (scan_entry limit root) l FdSymlinkTooLarge = FdSymlinkTooLarge.
  Proof. intros root l. induction l as [|e l IH]; [reflexivity | exact IH]. Qed.

  Lemma scan_fold : forall root l pre st, NoDup (map fst pre ++ map fst l) ->
    fold_left (scan_entry limit root) l (FdOk (pre, st)) =
    match entries_of l with
    | FdOk es => FdOk (pre ++ es, rev (dirs_of root l) ++ st)
    | FdSymlinkTooLarge => FdSymlinkTooLarge
    end.
  Proof.
    intros root. induction l as [|[n c] l IH]; intros pre st ND.
    - cbn. rewrite app_nil_r. reflexivity.
    - assert (Hn : ~ In n (map fst pre)).
      { cbn [map fst] in ND. apply NoDup_remove_2 in ND. intro X. apply ND. apply in_or_app. left. exact X. }
      assert (ND' : forall v, NoDup (map fst (pre ++ [(n, v)]) ++ map fst l)).
      { intro v. rewrite map_app. cbn [map fst]. rewrite <- app_assoc. exact ND. }
      cbn [fold_left entries_of]. unfold scan_entry at 2, entry1. cbn [fst snd dirs_of flat_map].
      destruct c as [d mo|x|mo|ccs].
      4: { rewrite (dict_set_new n _ pre Hn), (IH _ _ (ND' _)). fold (dirs_of root l).
           destruct (entries_of l) as [es|]; [|reflexivity]. cbn [app rev]. rewrite <- !app_assoc. reflexivity. }
      all: match goal with |- context [from_file ?a ?b] => destruct (from_file a b) as [ci|] end;
           [|rewrite scan_err; reflexivity];
           rewrite (dict_set_new n _ pre Hn), (IH _ _ (ND' _)); fold (dirs_of root l);
           (destruct (entries_of l) as [es|]; [|reflexivity]); cbn [app]; rewrite <- !app_assoc; reflexivity.
  Qed.

  (* the pure description: children are completed from the last listed to the first *)
  Fixpoint kidsP (rec : path -> fsnode -> fd_result (mtree * list path)) (p : path) (l : list (bytes * fsnode))
    : fd_result (kids * list path) :=
    match l with
    | [] => FdOk ([], [])
    | e :: l' =>
        match kidsP rec p l' with
        | FdSymlinkTooLarge => FdSymlinkTooLarge
        | FdOk (es1, fl1) =>
            match snd e with
            | FDir _ => match rec (p ++ [fst e]) (snd e) with
                        | FdOk (mc, flc) => FdOk ((fst e, mc) :: es1, fl1 ++ map (cons (fst e)) flc)
                        | FdSymlinkTooLarge => FdSymlinkTooLarge
                        end
            | c => match from_file limit c with
                   | FdOk ci => FdOk ((fst e, MLeaf ci) :: es1, fl1)
                   | FdSymlinkTooLarge => FdSymlinkTooLarge
                   end
            end
        end
    end.

  (* tree with an empty directory left for every filtered directory, and their paths relative to p in the order of "filtered" *)
  Fixpoint B1 (h : nat) (p : path) (t : fsnode) : fd_result (mtree * list path) :=
    match h with
    | O => FdSymlinkTooLarge
    | S h' =>
        match t with
        | FDir cs =>
            let l := lord p cs in
            if rejected p l then FdOk (MNode [], [[]])
            else match kidsP (B1 h') p l with
                 | FdOk (es, fl) => FdOk (MNode es, fl)
                 | FdSymlinkTooLarge => FdSymlinkTooLarge
                 end
        | _ => FdSymlinkTooLarge
        end
    end.

  Lemma kidsP_names : forall rec p l es fl, kidsP rec p l = FdOk (es, fl) -> map fst es = map fst l.
  Proof.
    intros rec p. induction l as [|e l IH]; intros es fl K; cbn [kidsP] in K; [inversion K; reflexivity|].
    destruct (kidsP rec p l) as [[es1 fl1]|]; [|discriminate]. specialize (IH es1 fl1 eq_refl).
    destruct (snd e); try (destruct (from_file limit _); [|discriminate]); try (destruct (rec _ _) as [[mc flc]|]; [|discriminate]);
      inversion K; subst; cbn [map fst]; rewrite IH; reflexivity.
  Qed.

  Lemma kidsP_entries_err : forall rec p l, entries_of l = FdSymlinkTooLarge -> kidsP rec p l = FdSymlinkTooLarge.
  Proof.
    intros rec p. induction l as [|[n c] l IH]; intro E; [discriminate|]. cbn [entries_of kidsP] in *. unfold entry1 in E. cbn [fst snd] in *.
    destruct (kidsP rec p l) as [[es1 fl1]|]; [|reflexivity].
    destruct c; try (destruct (from_file limit _); [|reflexivity]); destruct (entries_of l); try discriminate; discriminate (IH eq_refl).
  Qed.

  Lemma find_app_fresh : forall n v (pre post : kids), ~ In n (map fst pre) ->
    find (fun q => beqb n (fst q)) (pre ++ (n, v) :: post) = Some (n, v).
  Proof.
    intros n v pre post Hn. induction pre as [|q pre IH]; cbn [app find fst].
    - rewrite beqb_refl. reflexivity.
    - cbn [map] in Hn. destruct (beqb n (fst q)) eqn:E; [apply beqb_eq in E; subst; exfalso; apply Hn; left; reflexivity|].
      apply IH. intro X. apply Hn. right. exact X.
  Qed.

  Lemma dict_set_middle : forall n v v' (pre post : kids), ~ In n (map fst pre) -> ~ In n (map fst post) ->
    dict_set n v' (pre ++ (n, v) :: post) = pre ++ (n, v') :: post.
  Proof.
    intros n v v' pre post H1 H2. unfold dict_set.
    assert (Hk : has_key n (pre ++ (n, v) :: post) = true).
    { apply has_key_In. rewrite map_app. apply in_or_app. right. left. reflexivity. }
    rewrite Hk, map_app. cbn [map fst]. rewrite beqb_refl. f_equal; [|f_equal]; rewrite <- map_id; apply map_ext_in; intros q Hq.
    - destruct (beqb n (fst q)) eqn:E; [|reflexivity]. apply beqb_eq in E. subst. exfalso. apply H1. apply in_map. exact Hq.
    - destruct (beqb n (fst q)) eqn:E; [|reflexivity]. apply beqb_eq in E. subst. exfalso. apply H2. apply in_map. exact Hq.
  Qed.
End P1.

Section Pass1.
  Variable lord : path -> list (bytes * fsnode) -> list (bytes * fsnode).
  Variable f : filt.
  Variable limit : option N.
  Hypothesis LP : lperm lord.

  Lemma B1_rejected : forall h p cs, rejected f p (lord p cs) = true ->
    B1 lord f limit (S h) p (FDir cs) = FdOk (MNode [], [[]]).
  Proof. intros h p cs R. cbn [B1]. rewrite R. reflexivity. Qed.

  Lemma wf_lord : forall p cs, wf_fs (FDir cs) = true ->
    NoDup (map fst (lord p cs)) /\ forall e, In e (lord p cs) -> In e cs /\ wf_fs (snd e) = true.
  Proof.
    intros p cs W. pose proof (proj1 (wf_fs_dir cs) W) as [ND F]. split.
    - apply (Permutation_NoDup (Permutation_map fst (Permutation_sym (LP p cs)))). exact ND.
    - intros e He. pose proof (Permutation_in _ (LP p cs) He) as Hc. split; [exact Hc|].
      rewrite Forall_forall in F. apply (F e Hc).
  Qed.

  (* the stack discipline: a popped directory is completed before anything below it on the stack is looked at *)
  Lemma pass1_item : forall h cs p top fl rest fuel,
    (fs_height (FDir cs) <= h)%nat -> wf_fs (FDir cs) = true -> (dir_count (FDir cs) <= fuel)%nat ->
    mt_get p top = Some (MNode []) ->
    match B1 lord f limit h p (FDir cs) with
    | FdOk (m, flr) =>
        exists fuel', (fuel <= fuel' + dir_count (FDir cs))%nat /\
          pass1 lord f limit fuel top fl ((p, cs) :: rest) =
          pass1 lord f limit fuel' (if rejected f p (lord p cs) then top else mt_graft p m top) (fl ++ map (app p) flr) rest
    | FdSymlinkTooLarge => pass1 lord f limit fuel top fl ((p, cs) :: rest) = ItSymlinkTooLarge
    end.
  Proof.
    induction h as [|h IH]; intros cs p top fl rest fuel Hh W Hf G; [cbn [fs_height] in Hh; lia|].
    rewrite dir_count_dir in *. destruct fuel as [|k]; [lia|].
    destruct (wf_lord p cs W) as [NDl Hl]. set (l := lord p cs) in *.
    assert (EB : B1 lord f limit (S h) p (FDir cs) =
                 if rejected f p l then FdOk (MNode [], [[]])
                 else match kidsP limit (B1 lord f limit h) p l with
                      | FdOk (es, fl0) => FdOk (MNode es, fl0)
                      | FdSymlinkTooLarge => FdSymlinkTooLarge
                      end) by reflexivity.
    assert (Step : pass1 lord f limit (S k) top fl ((p, cs) :: rest) =
                   if rejected f p l then pass1 lord f limit k top (fl ++ [p]) rest
                   else match entries_of limit l with
                        | FdOk es => pass1 lord f limit k (mt_graft p (MNode es) top) fl (rev (dirs_of p l) ++ rest)
                        | FdSymlinkTooLarge => ItSymlinkTooLarge
                        end).
    { cbn [pass1]. fold l. fold (rejected f p l). destruct (rejected f p l); [reflexivity|].
      pose proof (scan_fold limit p l [] rest NDl) as SF. unfold kids, stack, path in *. rewrite SF. clear SF.
      destruct (entries_of limit l) as [es|] eqn:EO; [|reflexivity].
      cbn [app]. rewrite (update_is_graft p es top G) by (rewrite (entries_names limit l es EO); exact NDl). reflexivity. }
    rewrite EB, Step. clear EB Step. destruct (rejected f p l) eqn:R.
    - exists k. split; [lia|]. cbn [map]. rewrite app_nil_r. reflexivity.
    - destruct (entries_of limit l) as [es|] eqn:EO; [|rewrite (kidsP_entries_err limit _ p l EO); reflexivity].
      (* the loop over the children *)
      assert (LL : forall l0, (forall e, In e l0 -> In e cs /\ wf_fs (snd e) = true) ->
                forall pre es0 fl0 rest0 fuel0, entries_of limit l0 = FdOk es0 -> NoDup (map fst pre ++ map fst l0) ->
                (dcl l0 <= fuel0)%nat ->
                match kidsP limit (B1 lord f limit h) p l0 with
                | FdOk (es', flr) =>
                    exists fuel', (fuel0 <= fuel' + dcl l0)%nat /\
                      pass1 lord f limit fuel0 (mt_graft p (MNode (pre ++ es0)) top) fl0 (rev (dirs_of p l0) ++ rest0) =
                      pass1 lord f limit fuel' (mt_graft p (MNode (pre ++ es')) top) (fl0 ++ map (app p) flr) rest0
                | FdSymlinkTooLarge =>
                    pass1 lord f limit fuel0 (mt_graft p (MNode (pre ++ es0)) top) fl0 (rev (dirs_of p l0) ++ rest0) = ItSymlinkTooLarge
                end).
      { induction l0 as [|[n c] l0 IHl]; intros Hl0 pre es0 fl0 rest0 fuel0 E0 ND0 Hf0.
        - cbn [entries_of] in E0. injection E0 as <-. cbn [kidsP dirs_of flat_map rev app map]. exists fuel0.
          split; [lia|]. rewrite !app_nil_r. reflexivity.
        - cbn [entries_of] in E0. destruct (entry1 limit (n, c)) as [x|] eqn:E1; [|discriminate].
          destruct (entries_of limit l0) as [es2|] eqn:E2; [|discriminate]. injection E0 as <-.
          pose proof (entry1_name limit _ _ E1) as Ex. cbn [fst] in Ex. destruct x as [n' v]. cbn [fst] in Ex. subst n'.
          assert (Hnpre : ~ In n (map fst pre)).
          { cbn [map fst] in ND0. apply NoDup_remove_2 in ND0. intro X. apply ND0. apply in_or_app. left. exact X. }
          assert (Hnl0 : ~ In n (map fst l0)).
          { cbn [map fst] in ND0. apply NoDup_remove_2 in ND0. intro X. apply ND0. apply in_or_app. right. exact X. }
          assert (ND1 : NoDup (map fst (pre ++ [(n, v)]) ++ map fst l0)).
          { rewrite map_app. cbn [map fst]. rewrite <- app_assoc. exact ND0. }
          rewrite dcl_cons in Hf0. cbn [snd] in Hf0.
          cbn [dirs_of flat_map fst snd]. fold (dirs_of p l0). rewrite rev_app_distr, <- app_assoc.
          specialize (IHl (fun e He => Hl0 e (or_intror He)) (pre ++ [(n, v)]) es2 fl0
                          (rev (match c with FDir ccs => [(p ++ [n], ccs)] | _ => [] end) ++ rest0) fuel0 eq_refl ND1 ltac:(lia)).
          rewrite <- app_assoc in IHl. cbn [app] in IHl.
          cbn [kidsP fst snd]. destruct (kidsP limit (B1 lord f limit h) p l0) as [[es1 fl1]|] eqn:K; [|exact IHl].
          destruct IHl as [fuel1 [Hf1 IHl]].
          pose proof (kidsP_names limit _ p l0 es1 fl1 K) as N1.
          unfold entry1 in E1. cbn [fst snd] in E1. rewrite dcl_cons. cbn [snd].
          destruct c as [d mo|x|mo|ccs].
          4: { inversion E1; subst v. cbn [rev app] in *.
               destruct (Hl0 (n, FDir ccs) (or_introl eq_refl)) as [Hc Wc]. cbn [snd] in Wc.
               pose proof (fs_height_kid cs _ Hc) as Hhc. cbn [snd] in Hhc.
               assert (Gc : mt_get (p ++ [n]) (mt_graft p (MNode ((pre ++ [(n, MNode [])]) ++ es1)) top) = Some (MNode [])).
               { rewrite (mt_get_graft p [n] _ top _ G). cbn [mt_get]. rewrite <- app_assoc. cbn [app].
                 rewrite (find_app_fresh n _ pre es1 Hnpre). reflexivity. }
               specialize (IH ccs (p ++ [n]) _ (fl0 ++ map (app p) fl1) rest0 fuel1 ltac:(lia) Wc ltac:(lia) Gc).
               destruct (B1 lord f limit h (p ++ [n]) (FDir ccs)) as [[mc flc]|] eqn:Bc. 2: { etransitivity; [exact IHl | exact IH]. }
               destruct IH as [fuel2 [Hf2 IH]]. exists fuel2. split; [lia|]. etransitivity; [exact IHl|]. etransitivity; [exact IH|]. f_equal.
               - destruct (rejected f (p ++ [n]) (lord (p ++ [n]) ccs)) eqn:Rc.
                 + destruct h as [|h']; [pose proof (fs_height_dir_pos ccs); lia|]. rewrite (B1_rejected h' _ _ Rc) in Bc. inversion Bc.
                   rewrite <- app_assoc. reflexivity.
                 + rewrite graft_snoc by (rewrite !map_app; apply in_or_app; left; apply in_or_app; right; left; reflexivity).
                   rewrite <- app_assoc. cbn [app].
                   rewrite (dict_set_middle n _ mc pre es1 Hnpre) by (rewrite N1; exact Hnl0). reflexivity.
               - rewrite <- app_assoc. f_equal. rewrite map_app, map_map. f_equal. apply map_ext. intro q.
                 rewrite <- app_assoc. reflexivity. }
          all: match type of E1 with context [from_file ?a ?b] => destruct (from_file a b) as [ci|] eqn:FF end; [|discriminate];
               inversion E1; subst v; cbn [rev app] in *; exists fuel1; (split; [cbn [dir_count]; lia|]);
               (etransitivity; [exact IHl|]); rewrite <- app_assoc; reflexivity. }
      specialize (LL l Hl [] es fl rest k EO NDl ltac:(rewrite (dcl_perm l cs (LP p cs)); lia)). cbn [app] in LL.
      destruct (kidsP limit (B1 lord f limit h) p l) as [[es' flr]|]; [|exact LL].
      destruct LL as [fuel' [Hf' LL]]. exists fuel'. split; [rewrite (dcl_perm l cs (LP p cs)) in Hf'; lia | exact LL].
  Qed.
End Pass1.

(* ================================================================== 8. deleting the filtered directories *)
Definition keep_kid (f : filt) (e : bytes * fsnode) : list (bytes * fsnode) :=
  match snd e with
  | FDir ccs => if filt_dir f (fst e) (map fst ccs) then [e] else []
  | _ => [e]
  end.

(* what pass 1 leaves once the filtered directories are deleted: the tree without the directories the filter
   rejects on their listing, files read by Content.from_file, children in some order *)
Inductive Built (f : filt) (limit : option N) : fsnode -> mtree -> Prop :=
| BuiltLeaf : forall t ci, is_fdir t = false -> from_file limit t = FdOk ci -> Built f limit t (MLeaf ci)
| BuiltDir : forall cs l ks, Permutation l cs ->
    Forall2 (fun e q => fst e = fst q /\ Built f limit (snd e) (snd q)) (flat_map (keep_kid f) l) ks ->
    Built f limit (FDir cs) (MNode ks).

Lemma Forall2_impl_in : forall {A B} (R R' : A -> B -> Prop) l l',
  Forall2 R l l' -> (forall a b, In a l -> In b l' -> R a b -> R' a b) -> Forall2 R' l l'.
Proof.
  intros A B R R' l l' F. induction F as [|a b l l' Rab F IH]; intro Himp; constructor.
  - apply Himp; [left; reflexivity | left; reflexivity | exact Rab].
  - apply IH. intros a' b' Ha Hb. apply Himp; right; assumption.
Qed.

Lemma Forall2_flat_map : forall {A B C D} (R : C -> D -> Prop) (g : A -> list C) (h : B -> list D) l l',
  Forall2 (fun a b => Forall2 R (g a) (h b)) l l' -> Forall2 R (flat_map g l) (flat_map h l').
Proof.
  intros A B C D R g h l l' F. induction F as [|a b l l' Rab F IH]; [constructor|].
  cbn [flat_map]. apply Forall2_app; assumption.
Qed.

Lemma Forall2_In_r : forall {A B} (R : A -> B -> Prop) l l' b, Forall2 R l l' -> In b l' -> exists a, In a l /\ R a b.
Proof.
  intros A B R l l' b F. induction F as [|a0 b0 l l' Rab F IH]; intro Hin; [destruct Hin|].
  destruct Hin as [<-|Hin]; [exists a0; split; [left; reflexivity | exact Rab]|].
  destruct (IH Hin) as [a [Ha Ra]]. exists a. split; [right; exact Ha | exact Ra].
Qed.

Lemma proj_map_cons : forall n x L, proj n (map (cons x) L) = if beqb x n then L else [].
Proof.
  intros n x L. induction L as [|d L IH]; [destruct (beqb x n); reflexivity|]. cbn [map]. rewrite proj_cons, IH.
  destruct (beqb x n); reflexivity.
Qed.

Lemma proj_no_head : forall n L (S : list bytes), (forall d, In d L -> exists x r, d = x :: r /\ In x S) -> ~ In n S -> proj n L = [].
Proof.
  intros n L S Hh Hn. induction L as [|d L IH]; [reflexivity|]. rewrite proj_cons, IH by (intros d' Hd'; apply Hh; right; exact Hd').
  destruct (Hh d (or_introl eq_refl)) as [x [r [-> Hx]]]. destruct (beqb x n) eqn:E; [|reflexivity].
  apply beqb_eq in E. subst. contradiction.
Qed.

Lemma last_snoc : forall (p : path) n, basename (p ++ [n]) = n.
Proof. intros p n. unfold basename. apply last_last. Qed.

Lemma nonroot_snoc : forall (p : path) n, nonroot (p ++ [n]) = true.
Proof. intros [|x p] n; reflexivity. Qed.

Section DelFiltered.
  Variable lord : path -> list (bytes * fsnode) -> list (bytes * fsnode).
  Variable f : filt.
  Variable limit : option N.
  Hypothesis LP : lperm lord.

  Lemma rejected_child : forall p n ccs, rejected f (p ++ [n]) (lord (p ++ [n]) ccs) = negb (filt_dir f n (map fst ccs)).
  Proof.
    intros p n ccs. unfold rejected. rewrite nonroot_snoc, last_snoc. cbn [andb]. f_equal.
    apply filt_dir_length. rewrite !map_length. apply Permutation_length. apply LP.
  Qed.

  (* the kid of the built tree for the listed entry e, and the filtered paths below it *)
  Definition PK (h : nat) (p : path) (e : bytes * fsnode) (q : bytes * mtree) (Lq : list path) : Prop :=
    fst q = fst e /\
    match snd e with
    | FDir _ => exists flc, B1 lord f limit h (p ++ [fst e]) (snd e) = FdOk (snd q, flc) /\ Lq = flc
    | c => exists ci, from_file limit c = FdOk ci /\ snd q = MLeaf ci /\ Lq = []
    end.

  Lemma kidsP_PK : forall h p l es flr, NoDup (map fst l) -> kidsP limit (B1 lord f limit h) p l = FdOk (es, flr) ->
    (forall d, In d flr -> exists x r, d = x :: r /\ In x (map fst l)) /\
    Forall2 (fun e q => PK h p e q (proj (fst e) flr)) l es.
  Proof.
    intros h p. induction l as [|[n c] l IH]; intros es flr ND K; cbn [kidsP] in K.
    - inversion K; subst. split; [intros d []|constructor].
    - cbn [map fst] in ND. inversion ND as [|? ? Hn ND']; subst.
      destruct (kidsP limit (B1 lord f limit h) p l) as [[es1 fl1]|] eqn:K1; [|discriminate].
      destruct (IH es1 fl1 ND' eq_refl) as [Hh F]. cbn [fst snd] in K.
      assert (P0 : proj n fl1 = []) by (apply (proj_no_head n fl1 (map fst l) Hh Hn)).
      assert (Tail : forall extra, (forall e, In e l -> proj (fst e) extra = []) ->
                Forall2 (fun e q => PK h p e q (proj (fst e) (fl1 ++ extra))) l es1).
      { intros extra Hx. apply (Forall2_impl_in _ _ _ _ F). intros e q He _ Pq. rewrite proj_app, (Hx e He), app_nil_r. exact Pq. }
      destruct c as [d mo|x|mo|ccs].
      4: { destruct (B1 lord f limit h (p ++ [n]) (FDir ccs)) as [[mc flc]|] eqn:Bc; [|discriminate]. inversion K; subst. split.
           - intros d Hd. apply in_app_or in Hd. destruct Hd as [Hd|Hd].
             + destruct (Hh d Hd) as [x [r [-> Hx]]]. exists x, r. split; [reflexivity | right; exact Hx].
             + apply in_map_iff in Hd. destruct Hd as [r [<- _]]. exists n, r. split; [reflexivity | left; reflexivity].
           - constructor.
             + split; [reflexivity|]. cbn [fst snd]. exists flc. split; [exact Bc|].
               rewrite proj_app, P0, proj_map_cons, beqb_refl. reflexivity.
             + apply Tail. intros e He. rewrite proj_map_cons.
               destruct (beqb n (fst e)) eqn:E; [|reflexivity]. apply beqb_eq in E. subst n. exfalso. apply Hn. apply in_map. exact He. }
      all: match type of K with context [from_file ?a ?b] => destruct (from_file a b) as [ci|] eqn:FF end; [|discriminate];
           inversion K; subst; split;
           [intros d0 Hd; destruct (Hh d0 Hd) as [x0 [r [-> Hx]]]; exists x0, r; split; [reflexivity | right; exact Hx]
           |constructor; [split; [reflexivity|]; cbn [fst snd]; exists ci; repeat split; [exact FF | exact P0]
                         |rewrite <- (app_nil_r flr); apply Tail; intros; reflexivity]].
  Qed.
End DelFiltered.

Section DelFiltered2.
  Variable lord : path -> list (bytes * fsnode) -> list (bytes * fsnode).
  Variable f : filt.
  Variable limit : option N.
  Hypothesis LP : lperm lord.

  Definition BR (e : bytes * fsnode) (q : bytes * mtree) : Prop := fst e = fst q /\ Built f limit (snd e) (snd q).

  Lemma del_filtered : forall h cs p m flr,
    (fs_height (FDir cs) <= h)%nat -> wf_fs (FDir cs) = true ->
    B1 lord f limit h p (FDir cs) = FdOk (m, flr) -> rejected f p (lord p cs) = false ->
    wf_mt m /\ (forall d, In d flr -> d <> []) /\
    exists m', grun g_del (rev flr) m = ItOk m' /\ Built f limit (FDir cs) m'.
  Proof.
    induction h as [|h IH]; intros cs p m flr Hh W B R; [discriminate B|].
    destruct (wf_lord lord LP p cs W) as [NDl Hl]. cbn [B1] in B. rewrite R in B. set (l := lord p cs) in *.
    destruct (kidsP limit (B1 lord f limit h) p l) as [[es fl0]|] eqn:K; [|discriminate]. inversion B; subst m fl0. clear B.
    destruct (kidsP_PK lord f limit h p l es flr NDl K) as [Hheads F2].
    pose proof (kidsP_names limit _ p l es flr K) as Nes.
    assert (Claim : forall e q, In e l -> PK lord f limit h p e q (proj (fst e) flr) ->
              wf_mt (snd q) /\ exists o, child_run g_del (fst q) (proj (fst q) (rev flr)) (snd q) = ItOk o /\
                                         Forall2 BR (keep_kid f e) (put (fst q) o)).
    { intros [n c] [n' c'] He [En P]. cbn [fst snd] in *. subst n'. rewrite proj_rev.
      destruct (Hl _ He) as [Hc Wc]. cbn [snd] in Wc. pose proof (fs_height_kid cs _ Hc) as Hhc. cbn [snd] in Hhc.
      unfold keep_kid. cbn [fst snd].
      destruct c as [d mo|x|mo|ccs].
      4: { destruct P as [flc [Bc ->]]. pose proof (rejected_child lord f LP p n ccs) as RC.
           destruct (filt_dir f n (map fst ccs)) eqn:FD; cbn [negb] in RC.
           - destruct (IH ccs (p ++ [n]) c' flc ltac:(lia) Wc Bc RC) as [Wc' [NE [m' [G Bm]]]]. split; [exact Wc'|].
             exists (Some m'). split.
             + unfold child_run. pose proof (child_fold_nonempty g_del n (rev flc) (ItOk c')) as X.
               cbn [it_bind] in X. unfold wrap in X at 1. fold (grun g_del (rev flc) c') in X. rewrite G in X. cbn [it_bind] in X.
               unfold wrap in X. apply X. intros d Hd. apply NE. apply in_rev. exact Hd.
             + constructor; [|constructor]. split; [reflexivity | exact Bm].
           - destruct h as [|h']; [discriminate Bc|]. rewrite (B1_rejected lord f limit h' _ _ RC) in Bc. inversion Bc; subst c' flc.
             split; [constructor; [constructor | constructor]|]. exists None. split; [reflexivity | constructor]. }
      all: destruct P as [ci [FF [-> ->]]]; (split; [constructor|]); exists (Some (MLeaf ci)); (split; [reflexivity|]);
           constructor; [|constructor]; split; [reflexivity | apply BuiltLeaf; [reflexivity | exact FF]]. }
    assert (ClaimIn : forall q, In q es -> exists e, In e l /\ PK lord f limit h p e q (proj (fst e) flr)).
    { intros q Hq. apply (Forall2_In_r _ _ _ _ F2 Hq). }
    split; [|split].
    - constructor; [rewrite Nes; exact NDl|]. apply Forall_forall. intros q Hq.
      destruct (ClaimIn q Hq) as [e [He Pq]]. apply (Claim e q He Pq).
    - intros d Hd. destruct (Hheads d Hd) as [x [r [-> _]]]. discriminate.
    - eexists. split.
      + apply sep.
        * rewrite Nes. exact NDl.
        * intros d Hd. apply in_rev in Hd. rewrite Nes. apply Hheads. exact Hd.
        * intros n c Hq. destruct (ClaimIn (n, c) Hq) as [e [He Pq]]. destruct (Claim e _ He Pq) as [_ [o [Ho _]]].
          exists o. exact Ho.
      + apply BuiltDir with (l := l); [apply LP|]. apply Forall2_flat_map.
        apply (Forall2_impl_in _ _ _ _ F2). intros e q He _ Pq. destruct (Claim e q He Pq) as [_ [o [Ho Fo]]].
        rewrite Ho. exact Fo.
  Qed.
End DelFiltered2.

(* ================================================================== 9. what is built represents the pruned tree *)
Lemma Forall2_perm_l : forall {A B} (R : A -> B -> Prop) a a', Permutation a a' ->
  forall b, Forall2 R a b -> exists b', Permutation b b' /\ Forall2 R a' b'.
Proof.
  intros A B R a a' P. induction P as [|x a a' _ IH|x y a|a a' a'' _ IH1 _ IH2]; intros b F.
  - inversion F; subst. exists []. split; constructor.
  - inversion F as [|? y ? b0 Rxy F0]; subst. destruct (IH b0 F0) as [b' [Pb Fb]].
    exists (y :: b'). split; [constructor; exact Pb | constructor; assumption].
  - inversion F as [|? y1 ? b0 R1 F0]; subst. inversion F0 as [|? y2 ? b1 R2 F1]; subst.
    exists (y2 :: y1 :: b1). split; [apply perm_swap | repeat constructor; assumption].
  - destruct (IH1 b F) as [b' [P1 F1]]. destruct (IH2 b' F1) as [b'' [P2 F2]].
    exists b''. split; [apply (perm_trans P1 P2) | exact F2].
Qed.

Lemma keep_kid_in : forall f e e0, In e (keep_kid f e0) ->
  e = e0 /\ match snd e with FDir ccs => filt_dir f (fst e) (map fst ccs) = true | _ => True end.
Proof.
  intros f e [n c] Hin. unfold keep_kid in Hin. cbn [fst snd] in Hin. destruct c as [| | |ccs].
  1-3: destruct Hin as [<-|[]]; split; [reflexivity | exact I].
  destruct (filt_dir f n (map fst ccs)) eqn:E; [|destruct Hin]. destruct Hin as [<-|[]]. split; [reflexivity | exact E].
Qed.

Lemma pgk_keep : forall f l, flat_map (prune_gen_kid (prune_gen f) f) (flat_map (keep_kid f) l)
                           = flat_map (prune_gen_kid (prune_gen f) f) l.
Proof.
  intros f l. rewrite flat_map_flat_map. apply flat_map_ext_in. intros [n c] _. unfold keep_kid, prune_gen_kid. cbn [fst snd].
  destruct c as [| | |ccs]; try (cbn [flat_map fst snd]; rewrite app_nil_r; reflexivity).
  destruct (filt_dir f n (map fst ccs)) eqn:E; [|reflexivity]. cbn [flat_map]. unfold prune_gen_kid. cbn [fst snd]. rewrite E, app_nil_r. reflexivity.
Qed.

Lemma built_prune_Rep : forall f limit t m, Built f limit t m -> Rep limit (prune_gen f t) (prune2 f m).
Proof.
  intros f limit. induction t as [d mo|x|mo|cs IH] using fsnode_ind'; intros m B.
  1-3: inversion B as [t ci E FF|]; subst; rewrite prune_gen_file by reflexivity; rewrite prune2_leaf; apply RepLeaf; assumption.
  inversion B as [? ? E0|cs' l ks P F2]; subst; [discriminate E0|].
  rewrite prune_gen_dir, prune2_node.
  assert (F3 : Forall2 (fun p q => fst p = fst q /\ Rep limit (snd p) (snd q))
                 (flat_map (prune_gen_kid (prune_gen f) f) l) (flat_map (prune2_kid f) ks)).
  { rewrite <- pgk_keep. apply Forall2_flat_map. apply (Forall2_impl_in _ _ _ _ F2).
    intros e q He _ [En Bq]. apply in_flat_map in He. destruct He as [e0 [He0 He]].
    destruct (keep_kid_in f e e0 He) as [-> Hf]. pose proof (Permutation_in _ P He0) as Hc.
    rewrite Forall_forall in IH. specialize (IH e0 Hc). destruct e0 as [n c]. destruct q as [n' mq]. cbn [fst snd] in *. subst n'.
    unfold prune_gen_kid, prune2_kid. cbn [fst snd].
    destruct c as [d mo|x|mo|ccs].
    4: { rewrite Hf. cbv zeta. pose proof (IH mq Bq) as Rc. inversion Bq as [? ? E0|? ? kq ? ?]; subst; [discriminate E0|].
         rewrite (filt_dir_length f n (keys (prune2 f (MNode kq))) (fs_names (prune_gen f (FDir ccs))))
           by (apply (Rep_names_length _ _ _ Rc)).
         destruct (filt_dir f n (fs_names (prune_gen f (FDir ccs)))); constructor; [|constructor]. split; [reflexivity | exact Rc]. }
    all: inversion Bq as [? ci E FF|]; subst; constructor; [|constructor]; split; [reflexivity | apply RepLeaf; assumption]. }
  destruct (Forall2_perm_l _ _ _ (Permutation_flat_map (prune_gen_kid (prune_gen f) f) P) _ F3) as [ks0 [P0 F0]].
  apply RepDir with (ks0 := ks0); assumption.
Qed.

Definition kw (q : bytes * mtree) : nat := match snd q with MNode _ => mt_w (snd q) | MLeaf _ => O end.

Lemma mt_w_kw : forall ks, mt_w (MNode ks) = S (list_sum (map kw ks)).
Proof.
  intro ks. cbn [mt_w]. f_equal. induction ks as [|q ks IH]; [reflexivity|].
  change (list_sum (map kw (q :: ks))) with (kw q + list_sum (map kw ks))%nat. rewrite <- IH. reflexivity.
Qed.

Lemma dcl_flat_keep : forall f l, (dcl (flat_map (keep_kid f) l) <= dcl l)%nat.
Proof.
  intros f l. induction l as [|[n c] l IH]; [cbn; lia|]. cbn [flat_map]. rewrite dcl_cons. unfold keep_kid at 1. cbn [fst snd].
  destruct c as [| | |ccs]; try (cbn [app]; rewrite dcl_cons; cbn [snd]; lia).
  destruct (filt_dir f n (map fst ccs)); cbn [app]; [rewrite dcl_cons; cbn [snd]|]; lia.
Qed.

Lemma built_wf : forall f limit t m, wf_fs t = true -> Built f limit t m ->
  wf_mt m /\ match m with MNode _ => (mt_w m <= dir_count t)%nat | MLeaf _ => True end.
Proof.
  intros f limit. induction t as [d mo|x|mo|cs IH] using fsnode_ind'; intros m W B.
  1-3: inversion B; subst; split; [constructor | exact I].
  inversion B as [? ? E0|cs' l ks P F2]; subst; [discriminate E0|].
  pose proof (proj1 (wf_fs_dir cs) W) as [ND WF]. rewrite Forall_forall in IH, WF.
  assert (NDl : NoDup (map fst l)) by (apply (Permutation_NoDup (Permutation_map fst (Permutation_sym P))); exact ND).
  assert (Each : Forall2 (fun e q => fst e = fst q /\ wf_mt (snd q) /\ (kw q <= dir_count (snd e))%nat) (flat_map (keep_kid f) l) ks).
  { apply (Forall2_impl_in _ _ _ _ F2). intros e q He _ [En Bq]. apply in_flat_map in He. destruct He as [e0 [He0 He]].
    destruct (keep_kid_in f e e0 He) as [-> _]. pose proof (Permutation_in _ P He0) as Hc.
    destruct (IH e0 Hc (snd q) (proj2 (WF e0 Hc)) Bq) as [Wq Hw]. split; [exact En|]. split; [exact Wq|].
    unfold kw. destruct (snd q); [lia | exact Hw]. }
  split.
  - constructor.
    + replace (map fst ks) with (map fst (flat_map (keep_kid f) l)).
      * apply NoDup_flat_map_names; [| |exact NDl].
        -- intros p q Hq. destruct (keep_kid_in f q p Hq) as [-> _]. reflexivity.
        -- intros [n c]. unfold keep_kid. cbn [fst snd]. destruct c as [| | |ccs]; try (cbn; lia).
           destruct (filt_dir f n (map fst ccs)); cbn; lia.
      * clear -Each. induction Each as [|e q a b [En _] _ IHe]; [reflexivity|]. cbn [map]. rewrite En, IHe. reflexivity.
    + apply Forall_forall. intros q Hq. destruct (Forall2_In_r _ _ _ _ Each Hq) as [e [_ [_ [Wq _]]]]. exact Wq.
  - rewrite mt_w_kw, dir_count_dir. apply le_n_S. rewrite <- (dcl_perm l cs P).
    apply (Nat.le_trans _ (dcl (flat_map (keep_kid f) l))); [|apply dcl_flat_keep].
    clear -Each. induction Each as [|e q a b [_ [_ Hk]] _ IHe]; [cbn; lia|].
    change (list_sum (map kw (q :: b))) with (kw q + list_sum (map kw b))%nat. rewrite dcl_cons. lia.
Qed.

(* ================================================================== 10. when pass 1 raises *)
Lemma some_too_large_flat_map : forall {A} limit (g : A -> list bytes) l,
  some_too_large limit (flat_map g l) <-> exists e, In e l /\ some_too_large limit (g e).
Proof.
  intros A limit g l. unfold some_too_large. split.
  - intros [x [Hx T]]. apply in_flat_map in Hx. destruct Hx as [e [He Hx]]. exists e. split; [exact He|]. exists x. auto.
  - intros [e [He [x [Hx T]]]]. exists x. split; [|exact T]. apply in_flat_map. exists e. auto.
Qed.

Section Fails.
  Variable lord : path -> list (bytes * fsnode) -> list (bytes * fsnode).
  Variable f : filt.
  Variable limit : option N.
  Hypothesis LP : lperm lord.

  Lemma from_file_fails_reach : forall c, is_fdir c = false ->
    (from_file limit c = FdSymlinkTooLarge <-> some_too_large limit (reach_links f c)).
  Proof.
    intros c E. rewrite <- (build_fails_iff id_ord f limit c []). rewrite (build_file _ _ _ _ _ E).
    destruct (from_file limit c); split; intro X; try reflexivity; try discriminate; exact X.
  Qed.

  Lemma B1_fails_iff : forall h cs p, (fs_height (FDir cs) <= h)%nat ->
    (B1 lord f limit h p (FDir cs) = FdSymlinkTooLarge <->
     rejected f p (lord p cs) = false /\ some_too_large limit (reach_links f (FDir cs))).
  Proof.
    induction h as [|h IH]; intros cs p Hh; [pose proof (fs_height_dir_pos cs); lia|].
    cbn [B1]. destruct (rejected f p (lord p cs)) eqn:R; [split; [discriminate | intros [X _]; discriminate]|].
    rewrite reach_links_dir, some_too_large_flat_map.
    assert (K : forall l, (forall e, In e l -> In e cs) ->
              (kidsP limit (B1 lord f limit h) p l = FdSymlinkTooLarge <->
               exists e, In e l /\ some_too_large limit (reach_kid (reach_links f) f e))).
    { induction l as [|[n c] l IHl]; intro Hl.
      - cbn [kidsP]. split; [discriminate | intros [e [[] _]]].
      - assert (Here : (match c with
                        | FDir _ => match B1 lord f limit h (p ++ [n]) c with FdOk _ => false | FdSymlinkTooLarge => true end
                        | _ => match from_file limit c with FdOk _ => false | FdSymlinkTooLarge => true end
                        end) = true <-> some_too_large limit (reach_kid (reach_links f) f (n, c))).
        { unfold reach_kid. cbn [fst snd]. destruct c as [d mo|x|mo|ccs].
          4: { pose proof (fs_height_kid cs _ (Hl _ (or_introl eq_refl))) as Hc. cbn [snd] in Hc.
               pose proof (IH ccs (p ++ [n]) ltac:(lia)) as I1. rewrite (rejected_child lord f LP p n ccs) in I1.
               destruct (B1 lord f limit h (p ++ [n]) (FDir ccs)); destruct (filt_dir f n (map fst ccs)); cbn [negb] in I1; split; intro X;
                 try reflexivity; try discriminate; try (apply I1; reflexivity); try (destruct (some_too_large_nil _ X)).
               - assert (Y : @FdOk (mtree * list path) a = FdSymlinkTooLarge) by (apply I1; split; [reflexivity | exact X]). discriminate.
               - destruct (proj1 I1 eq_refl) as [Y _]. discriminate. }
          all: match goal with |- context [from_file ?a ?b] =>
                 pose proof (from_file_fails_reach b eq_refl) as I1; destruct (from_file a b) end;
               split; intro X; try reflexivity; try discriminate; try (apply I1; reflexivity);
               apply I1 in X; discriminate. }
        specialize (IHl (fun e He => Hl e (or_intror He))). cbn [kidsP fst snd].
        split.
        + intro X. destruct (kidsP limit (B1 lord f limit h) p l) as [[es1 fl1]|].
          * exists (n, c). split; [left; reflexivity|]. apply Here.
            destruct c; try (destruct (from_file limit _); [discriminate | reflexivity]).
            destruct (B1 lord f limit h (p ++ [n]) (FDir children)) as [[? ?]|]; [discriminate | reflexivity].
          * destruct (proj1 IHl eq_refl) as [e [He Se]]. exists e. split; [right; exact He | exact Se].
        + intros [e [[<-|He] Se]].
          * apply Here in Se. destruct (kidsP limit (B1 lord f limit h) p l) as [[es1 fl1]|]; [|reflexivity].
            destruct c; try (destruct (from_file limit _); [discriminate | reflexivity]).
            destruct (B1 lord f limit h (p ++ [n]) (FDir children)) as [[? ?]|]; [discriminate | reflexivity].
          * rewrite (proj2 IHl (ex_intro _ e (conj He Se))). reflexivity. }
    specialize (K (lord p cs) (fun e He => Permutation_in _ (LP p cs) He)).
    split.
    - intro X. split; [reflexivity|]. destruct (kidsP limit (B1 lord f limit h) p (lord p cs)) as [[? ?]|]; [discriminate|].
      destruct (proj1 K eq_refl) as [e [He Se]]. exists e. split; [apply (Permutation_in _ (LP p cs) He) | exact Se].
    - intros [_ [e [He Se]]]. rewrite (proj2 K); [reflexivity|]. exists e. split; [|exact Se].
      apply (Permutation_in _ (Permutation_sym (LP p cs)) He).
  Qed.
End Fails.

(* ================================================================== 11. the theorems *)
Lemma Forall2_perm_r : forall {A B} (R : A -> B -> Prop) b b', Permutation b b' ->
  forall a, Forall2 R a b -> exists a', Permutation a a' /\ Forall2 R a' b'.
Proof.
  intros A B R b b' P. induction P as [|y b b' _ IH|x y b|b b' b'' _ IH1 _ IH2]; intros a F.
  - inversion F; subst. exists []. split; constructor.
  - inversion F as [|x ? a0 ? Rxy F0]; subst. destruct (IH a0 F0) as [a' [Pa Fa]].
    exists (x :: a'). split; [constructor; exact Pa | constructor; assumption].
  - inversion F as [|x1 ? a0 ? R1 F0]; subst. inversion F0 as [|x2 ? a1 ? R2 F1]; subst.
    exists (x2 :: x1 :: a1). split; [apply perm_swap | repeat constructor; assumption].
  - destruct (IH1 a F) as [a' [P1 F1]]. destruct (IH2 a' F1) as [a'' [P2 F2]].
    exists a''. split; [apply (perm_trans P1 P2) | exact F2].
Qed.

(* two representations of the same tree differ by the order of the children only *)
Lemma Rep_equiv : forall limit t m1 m2, Rep limit t m1 -> Rep limit t m2 -> mtree_equiv m1 m2.
Proof.
  intros limit. induction t as [d mo|x|mo|cs IH] using fsnode_ind'; intros m1 m2 R1 R2.
  1-3: inversion R1 as [? c1 E1 F1|]; inversion R2 as [? c2 E2 F2|]; subst; rewrite F1 in F2; inversion F2; constructor.
  inversion R1 as [? ? E0|? ks1 k01 P1 F1]; subst; [discriminate E0|].
  inversion R2 as [? ? E0|? ks2 k02 P2 F2]; subst; [discriminate E0|].
  assert (F : Forall2 (fun p q => fst p = fst q /\ mtree_equiv (snd p) (snd q)) k01 k02).
  { clear P1 P2 R1 R2. revert k02 F2. induction F1 as [|e q1 cs k01 [E1 Q1] F1 IHF]; intros k02 F2.
    - inversion F2. constructor.
    - inversion F2 as [|? q2 ? k02' [E2 Q2] F2']; subst. inversion IH as [|? ? IHe IHcs]; subst. constructor.
      + split; [congruence | apply (IHe _ _ Q1 Q2)].
      + apply (IHF IHcs _ F2'). }
  destruct (Forall2_perm_r _ _ _ (Permutation_sym P2) _ F) as [k0 [Pk Fk]].
  apply EqNode with (ks0 := k0); [apply (perm_trans P1 Pk) | exact Fk].
Qed.

Section Main.
  Variable lord : path -> list (bytes * fsnode) -> list (bytes * fsnode).
  Variable f : filt.
  Variable limit : option N.
  Hypothesis LP : lperm lord.

  (* the iteration raises exactly when a reached symbolic link is too long; otherwise it ends normally - in
     particular within its fuel and without a failed lookup - on a representation of the pruned tree *)
  Theorem iter_spec : forall t, wf_fs t = true ->
    (some_too_large limit (reach_links f t) -> from_disk_iter lord f limit t = ItSymlinkTooLarge) /\
    (~ some_too_large limit (reach_links f t) ->
     exists m, from_disk_iter lord f limit t = ItOk m /\ Rep limit (prune_gen f t) m).
  Proof.
    intros t W. destruct t as [d mo|x|mo|cs].
    1-3: match goal with |- context [from_disk_iter _ _ _ ?t] =>
           pose proof (from_file_fails_reach f limit t eq_refl) as I1; cbn [from_disk_iter];
           destruct (from_file limit t) as [ci|] eqn:FF end;
         (split; [intro S; apply I1 in S; try discriminate; reflexivity|]);
         intro NS; try (exfalso; apply NS; apply I1; reflexivity);
         exists (MLeaf ci); (split; [reflexivity|]); rewrite prune_gen_file by reflexivity; apply RepLeaf; [reflexivity | exact FF].
    pose proof (pass1_item lord f limit LP (fs_height (FDir cs)) cs [] (MNode []) [] [] (dir_count (FDir cs))
                  (le_n _) W (le_n _) eq_refl) as P1.
    pose proof (B1_fails_iff lord f limit LP (fs_height (FDir cs)) cs [] (le_n _)) as BF.
    assert (R0 : rejected f [] (lord [] cs) = false) by reflexivity. rewrite R0 in P1, BF.
    unfold from_disk_iter.
    destruct (B1 lord f limit (fs_height (FDir cs)) [] (FDir cs)) as [[m flr]|] eqn:B.
    - split; [intro S; assert (X : @FdOk (mtree * list path) (m, flr) = FdSymlinkTooLarge) by (apply BF; auto); discriminate|].
      intros _. destruct P1 as [fuel' [_ P1]]. rewrite P1. cbn [mt_graft app].
      rewrite map_id.
      match goal with |- exists _, it_bind ?X _ = _ /\ _ =>
        replace X with (@ItOk (mtree * list path) (m, flr)) by (destruct fuel'; reflexivity) end.
      cbn [it_bind].
      destruct (del_filtered lord f limit LP _ cs [] m flr (le_n _) W B R0) as [Wm [_ [m' [G Bm]]]].
      destruct (del_all_grun _ _ _ Wm G) as [D Wm']. rewrite D. cbn [it_bind].
      destruct (built_wf f limit _ _ W Bm) as [_ Hw].
      inversion Bm as [? ? E0|? l ks Pl F2]; subst; [discriminate E0|].
      rewrite (pass2_ok f ks _ Wm' Hw). eexists. split; [reflexivity|]. apply built_prune_Rep. exact Bm.
    - assert (S : some_too_large limit (reach_links f (FDir cs))) by (apply BF; reflexivity).
      split; [|intro NS; contradiction]. intros _. rewrite P1. reflexivity.
  Qed.

  (* (1) the loops end within fuel = number of directories of t, and no lookup / deletion by path fails *)
  Theorem iter_total : forall t, wf_fs t = true ->
    from_disk_iter lord f limit t = ItSymlinkTooLarge \/ exists m, from_disk_iter lord f limit t = ItOk m.
  Proof.
    intros t W. destruct (iter_spec t W) as [A B].
    destruct (from_disk_fails_iff id_ord f limit t) as [X Y].
    destruct (from_disk id_ord f limit t) as [m0|] eqn:E.
    - right. destruct B as [m [Em _]]; [intro S; apply Y in S; discriminate | eauto].
    - left. apply A. apply X. reflexivity.
  Qed.

  (* (2) agreement with the recursive model *)
  Theorem iter_refines : forall ord t, perm_oracle ord -> wf_fs t = true ->
    match from_disk ord f limit t with
    | FdOk m => exists m', from_disk_iter lord f limit t = ItOk m' /\ mtree_equiv m m' /\
                           Rep limit (prune_gen f t) m /\ Rep limit (prune_gen f t) m'
    | FdSymlinkTooLarge => from_disk_iter lord f limit t = ItSymlinkTooLarge
    end.
  Proof.
    intros ord t PO W. destruct (iter_spec t W) as [A B].
    pose proof (from_disk_fails_iff ord f limit t) as FI.
    destruct (from_disk ord f limit t) as [m|] eqn:E.
    - destruct B as [m' [Em Rm']]; [intro S; apply FI in S; discriminate|].
      pose proof (from_disk_Rep ord f limit t m PO E) as Rm.
      exists m'. split; [exact Em|]. split; [apply (Rep_equiv limit _ _ _ Rm Rm') | auto].
    - apply A. apply FI. reflexivity.
  Qed.

  Corollary iter_refines_equiv : forall ord t, perm_oracle ord -> wf_fs t = true ->
    match from_disk ord f limit t with
    | FdOk m => exists m', from_disk_iter lord f limit t = ItOk m' /\ mtree_equiv m m'
    | FdSymlinkTooLarge => from_disk_iter lord f limit t = ItSymlinkTooLarge
    end.
  Proof.
    intros ord t PO W. pose proof (iter_refines ord t PO W) as IR.
    destruct (from_disk ord f limit t) as [m|]; [|exact IR]. destruct IR as [m' [E [Q _]]]. exists m'. auto.
  Qed.

  Theorem iter_same_ids : forall (H : bytes -> bytes) ord t m m', perm_oracle ord -> wf_fs t = true ->
    from_disk ord f limit t = FdOk m -> from_disk_iter lord f limit t = ItOk m' ->
    mt_id H m = mt_id H m' /\
    forall pth, option_map (mt_id H) (mt_get pth m) = option_map (mt_id H) (mt_get pth m').
  Proof.
    intros H ord t m m' PO W E E'. pose proof (iter_refines ord t PO W) as IR. rewrite E in IR.
    destruct IR as [m'' [E'' [_ [Rm Rm']]]]. rewrite E' in E''. inversion E''; subst m''.
    pose proof (prune_gen_wf f t W) as Wp. split.
    - rewrite (Rep_id H limit _ _ Wp Rm), (Rep_id H limit _ _ Wp Rm'). reflexivity.
    - intro pth. pose proof (Rep_get limit pth _ _ Wp Rm) as X. pose proof (Rep_get limit pth _ _ Wp Rm') as X'.
      destruct (fs_get pth (prune_gen f t)) as [st|]; destruct (mt_get pth m) as [sm|]; destruct (mt_get pth m') as [sm'|];
        try contradiction; [|reflexivity].
      destruct X as [R1 W1]. destruct X' as [R2 _]. cbn [option_map]. f_equal.
      rewrite (Rep_id H limit _ _ W1 R1), (Rep_id H limit _ _ W1 R2). reflexivity.
  Qed.
End Main.

(* ================================================================== 12. non-vacuity, and the child order on examples *)
Lemma lid_perm : lperm lid.
Proof. intros p cs. reflexivity. Qed.
Lemma lrev_perm : lperm lrev.
Proof. intros p cs. apply Permutation_sym, Permutation_rev. Qed.

(* ex_tree (FromDiskProofs.v) has a sub-directory that is empty only recursively (e/f), so with
   ignore_empty_directories pass 1 filters e/f and pass 2 deletes e; with the listing reversed the literal
   iteration and the recursive model give the SAME tree (same child order), and both raise with limit 3 *)
Example iter_example :
  wf_fs ex_tree = true /\ lperm lrev /\
  (exists m, from_disk_iter lrev FEmpty (Some 5) ex_tree = ItOk m /\ from_disk rev_ord FEmpty (Some 5) ex_tree = FdOk m /\
             m <> MNode []) /\
  (exists m, from_disk_iter lid (FNamed [bs ".GIT"] false) None ex_tree = ItOk m /\
             from_disk id_ord (FNamed [bs ".GIT"] false) None ex_tree = FdOk m) /\
  from_disk_iter lid FAll (Some 3) ex_tree = ItSymlinkTooLarge /\ from_disk id_ord FAll (Some 3) ex_tree = FdSymlinkTooLarge.
Proof.
  split; [vm_compute; reflexivity|]. split; [exact lrev_perm|]. split; [|split; [|split]].
  - eexists. split; [vm_compute; reflexivity|]. split; [vm_compute; reflexivity | discriminate].
  - eexists. split; vm_compute; reflexivity.
  - vm_compute. reflexivity.
  - vm_compute. reflexivity.
Qed.

