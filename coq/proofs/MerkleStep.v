(* One step of the heap machine preserves the invariant; consequences for
   whole histories (C10, C14). *)
From Coq Require Import List NArith Bool Arith Lia.
From SWH.lib Require Import Bytes.
From SWH.model Require Import Merkle.
From SWH.proofs Require Import MerkleBase MerkleAcyclic MerkleInv MerkleHash MerkleMut MerkleCollect.
Import ListNotations.
Local Open Scope nat_scope.

(* a node that is collected after the step was collected before, with the same cached hash *)
Definition K0 (s s' : heap) : Prop :=
  forall n x', nth_error s' n = Some x' -> collected x' = true ->
    exists x, nth_error s n = Some x /\ collected x = true /\ cached x' = cached x.

Lemma K0_refl : forall s, K0 s s.
Proof. intros s n x E C. exists x. auto. Qed.
Lemma K0_trans : forall a b c, K0 a b -> K0 b c -> K0 a c.
Proof.
  intros a b c H1 H2 n x'' E'' C''. destruct (H2 n x'' E'' C'') as (x' & E' & C' & Q').
  destruct (H1 n x' E' C') as (x & E & C & Q). exists x. split; auto. split; auto. congruence.
Qed.
Lemma K0_F2 : forall (P : node -> node -> Prop) s s', Forall2 P s s' ->
  (forall x x', P x x' -> collected x' = true -> collected x = true /\ cached x' = cached x) -> K0 s s'.
Proof.
  intros P s s' H HP n x' E' C'. destruct (F2_nth_r _ _ _ _ _ H E') as (x & E & Px).
  destruct (HP x x' Px C'). exists x. auto.
Qed.
Lemma K0_keepc : forall s s', keepc s s' -> K0 s s'.
Proof. intros s s' H. apply (K0_F2 nkeep s s' H). intros x x' (_ & K) C. auto. Qed.
Lemma K0_R : forall s s', R s s' -> K0 s s'.
Proof. intros. apply K0_keepc. apply R_keepc. auto. Qed.
Lemma K0_mut : forall p s s', mut p s s' -> K0 s s'.
Proof.
  intros p s s' [H _]. apply (K0_F2 nmut s s' H). intros x x' (_ & _ & C & Cl & _) Hc. split; congruence.
Qed.
Lemma K0_stepm : forall s s', stepm s s' -> K0 s s'.
Proof. intros s s' (s1 & t & HR & HM). eapply K0_trans; [apply K0_R; apply HR | eapply K0_mut; eauto]. Qed.
Lemma K0_nr : forall s s', Forall2 nr s s' -> K0 s s'.
Proof. intros s s' H. apply (K0_F2 nr s s' H). intros x x' (_ & C & _ & _ & D) Hc. auto. Qed.

Lemma cnt_zero : forall c K, (forall nm k, In (nm, k) K -> k <> c) -> cnt c K = 0.
Proof.
  intros c K H. unfold cnt. apply count_occ_not_In. intro Hin. apply in_map_iff in Hin.
  destruct Hin as ([nm k] & Ek & Hin). simpl in Ek. subst. eapply H; eauto.
Qed.

Lemma nth_app_new : forall (s : heap) x0 n x, nth_error (s ++ [x0]) n = Some x ->
  (n < length s /\ nth_error s n = Some x) \/ (n = length s /\ x = x0).
Proof.
  intros s x0 n x H. destruct (lt_dec n (length s)) as [L|L].
  - left. rewrite nth_error_app1 in H; auto.
  - right. rewrite nth_error_app2 in H by lia. destruct (n - length s) as [|d] eqn:D.
    + simpl in H. inversion H. split; auto. lia.
    + simpl in H. destruct d; discriminate.
Qed.

Section WithNH.
Variable NH : bytes -> list entry -> bytes.
Notation Inv0 := (Inv0 NH).
Notation Inv := (Inv NH).
Notation Fresh := (Fresh NH).
Notation FreshKids := (FreshKids NH).

Lemma Inv_new : forall s k d, Inv s -> Inv (s ++ [new_node k d]).
Proof.
  intros s k d [I I4]. set (x0 := new_node k d). set (s' := s ++ [x0]).
  assert (Len : length s' = S (length s)) by (unfold s'; rewrite app_length; simpl; lia).
  assert (Old : forall n x, nth_error s n = Some x -> nth_error s' n = Some x).
  { intros n x E. unfold s'. rewrite nth_error_app1; auto. eapply nth_lt; eauto. }
  assert (HA : forall m, hashed_at s m -> hashed_at s' m).
  { intros m (y & Ey & Hy). exists y. auto. }
  destruct (Fresh_frame NH s s' (fun m => m < length s)) as [FR FKR].
  { intros m x Lm E. exists x. split; auto. split; auto. split; auto. intros nm c Hin. eapply (I_wfk NH s I); eauto. }
  split; [split|].
  - intros n x nm c E Hin. apply nth_app_new in E. destruct E as [[L E]|[-> ->]].
    + rewrite Len. pose proof (I_wfk NH s I n x nm c E Hin). lia.
    + simpl in Hin. contradiction.
  - intros n x E q Hin. apply nth_app_new in E. destruct E as [[L E]|[-> ->]].
    + rewrite Len. pose proof (I_wfp NH s I n x E q Hin). lia.
    + simpl in Hin. contradiction.
  - intros n x E H. apply nth_app_new in E. destruct E as [[L E]|[-> ->]]; [|discriminate].
    destruct (I1 NH s I n x E H) as (h & C & F & K). exists h. split; auto. split; [apply FR; auto|].
    intros nm c Hin. apply HA. eapply K; eauto.
  - intros p x c y E Ec. apply nth_app_new in E. destruct E as [[L E]|[-> ->]]; [|unfold cnt; simpl; lia].
    apply nth_app_new in Ec. destruct Ec as [[Lc Ec]|[-> ->]]; [eapply I2; eauto|].
    rewrite cnt_zero; [lia|]. intros nm c Hin. pose proof (I_wfk NH s I p x nm c E Hin). lia.
  - intros n x es E M. apply nth_app_new in E. destruct E as [[L E]|[-> ->]]; [|discriminate].
    destruct (I3m NH s I n x es E M) as [F K]. split.
    + apply FKR; auto. intros nm c Hin. eapply (I_wfk NH s I); eauto.
    + intros nm c Hin. apply HA. eapply K; eauto.
  - intros n x es E M. apply nth_app_new in E. destruct E as [[L E]|[-> ->]]; [|discriminate].
    destruct (I3e NH s I n x es E M) as [F K]. split.
    + apply FKR; auto. intros nm c Hin. eapply (I_wfk NH s I); eauto.
    + intros nm c Hin. apply HA. eapply K; eauto.
  - intros n x E C. apply nth_app_new in E. destruct E as [[L E]|[-> ->]]; [eapply I4; eauto | discriminate].
Qed.

Definition InvA (s : heap) : Prop := Inv s /\ acyclic s.

Lemma update_hash_lt : forall f force n s r, update_hash NH false (S f) force n s = Ok r -> n < length s.
Proof.
  intros f force n s r H. simpl in H. unfold get in H. destruct (nth_error s n) eqn:E; [|discriminate].
  eapply nth_lt; eauto.
Qed.

(* hash reads: success, freshness, and what they preserve *)
Lemma hash_op_ok : forall force n s, InvA s -> n < length s ->
  exists s' h, update_hash NH false (S (length s)) force n s = Ok (s', h) /\ Inv s' /\ shape s s' /\ keepc s s' /\
    (force = false -> grows s s') /\ Fresh s' n h /\ Fresh s n h.
Proof.
  intros force n s [[I I4] Ac] L. destruct (acyclic_bounded s Ac) as [rank Rk].
  assert (G : exists s' h, update_hash NH false (S (length s)) force n s = Ok (s', h) /\ Inv0 s' /\ shape s s' /\
              (force = false -> grows s s') /\ hashed_val s' n h /\ (I4s s -> I4s s' /\ keepc s s')).
  { apply (update_hash_ok NH rank (S (length s)) force n s I Rk L).
    destruct Rk as [_ B]. specialize (B n). lia. }
  destruct G as (s' & h & E & I' & Sh & G & HV & K). destruct (K I4) as [I4' Kp].
  exists s', h. split; auto. split; [split; auto|]. split; auto. split; auto. split; auto.
  assert (F' : Fresh s' n h) by (eapply hashed_val_fresh; eauto).
  split; auto. apply (proj1 (Fresh_shape NH _ _ (shape_sym _ _ Sh))). exact F'.
Qed.

Lemma step_ok : forall s o, InvA s -> guard NH true false s o ->
  Inv (fst (step NH true false s o)) /\
  match o with OCollect _ => True | _ => K0 s (fst (step NH true false s o)) end.
Proof.
  intros s o IA [_ G]. pose proof IA as [I Ac]. destruct (acyclic_bounded s Ac) as [rank Rk].
  assert (TRIV : Inv s /\ K0 s s) by (split; [auto | apply K0_refl]).
  destruct o as [k d|p key c|p key|p l|p key|p key|n|n|n|n|n|n|n d|n|a b]; unfold step; try (destruct G; fail).
  - (* new *) simpl. split; [apply Inv_new; auto|].
    intros n x' E C. apply nth_app_new in E. destruct E as [[L E]|[-> ->]]; [|discriminate]. exists x'. auto.
  - destruct (setitem s p key c) as [s'|e] eqn:E; simpl; auto.
    destruct (setitem_ok NH s p key c s' I E) as [I' M]. split; auto. apply K0_stepm; auto.
  - destruct (delitem true s p key) as [s' e] eqn:E.
    destruct (delitem_ok NH s p key s' e I G E) as (I' & M & _).
    destruct e; simpl; (split; [auto | apply K0_stepm; auto]).
  - destruct G as [ND HL]. destruct (update_many true s p l) as [s' e] eqn:E.
    destruct (update_many_ok NH s p l s' e I ND HL E) as (I' & M & _).
    destruct e; simpl; (split; [auto | apply K0_stepm; auto]).
  - destruct (getitem_ s p key); simpl; auto.
  - destruct (contains_ s p key); simpl; auto.
  - unfold read_hash. destruct (update_hash NH false (S (length s)) false n s) as [[s' h]|e] eqn:E; simpl; auto.
    pose proof (update_hash_lt _ _ _ _ _ E) as L.
    destruct (hash_op_ok false n s IA L) as (s2 & h2 & E2 & I2 & _ & K2 & _). rewrite E in E2. inversion E2; subst.
    split; auto. apply K0_keepc; auto.
  - unfold force_hash. destruct (update_hash NH false (S (length s)) true n s) as [[s' h]|e] eqn:E; simpl; auto.
    pose proof (update_hash_lt _ _ _ _ _ E) as L.
    destruct (hash_op_ok true n s IA L) as (s2 & h2 & E2 & I2 & _ & K2 & _). rewrite E in E2. inversion E2; subst.
    split; auto. apply K0_keepc; auto.
  - destruct (lt_dec n (length s)) as [L|L].
    + destruct (entries_ok NH rank n s (proj1 I) Rk L) as [(e & E & _)|(s' & es & x & E & I' & G' & _)];
        rewrite E; simpl; auto.
      destruct (grows_keep _ _ (proj2 I) G') as [I4' Kp]. split; [split; auto | apply K0_keepc; auto].
    + unfold entries, get. destruct (nth_error s n) eqn:E; [exfalso; apply L; eapply nth_lt; eauto|]. simpl. auto.
  - destruct (lt_dec n (length s)) as [L|L].
    + destruct (to_model_ok NH rank n s (proj1 I) Rk L) as [(e & E & _)|(s' & es & x & E & I' & G' & _)];
        rewrite E; simpl; auto.
      destruct (grows_keep _ _ (proj2 I) G') as [I4' Kp]. split; [split; auto | apply K0_keepc; auto].
    + unfold to_model, get. destruct (nth_error s n) eqn:E; [exfalso; apply L; eapply nth_lt; eauto|]. simpl. auto.
  - split; auto. destruct (lt_dec n (length s)) as [L|L].
    + destruct (collect_ok NH rank (S (length s)) n s I Rk L) as (s' & Lc & E & I' & _).
      { destruct Rk as [_ B]. specialize (B n). lia. }
      rewrite E. simpl. auto.
    + simpl. unfold get. destruct (nth_error s n) eqn:E; [exfalso; apply L; eapply nth_lt; eauto|]. simpl. auto.
  - destruct (lt_dec n (length s)) as [L|L].
    + destruct (reset_ok rank (S (length s)) n s) as (s' & E & N & _); auto.
      { intros m x nm c. apply (I_wfk NH s (proj1 I)). }
      { destruct Rk as [_ B]. specialize (B n). lia. }
      rewrite E. simpl. split; [eapply Inv_nr; eauto | apply K0_nr; auto].
    + simpl. unfold get. destruct (nth_error s n) eqn:E; [exfalso; apply L; eapply nth_lt; eauto|]. simpl. auto.
  - (* swhid: the hash, for the on-disk classes *)
    assert (HC : Inv (fst (of_res s (read_hash NH false n s) OutHash)) /\
                 K0 s (fst (of_res s (read_hash NH false n s) OutHash))).
    { unfold read_hash. destruct (update_hash NH false (S (length s)) false n s) as [[s' h]|e] eqn:E; simpl; auto.
      pose proof (update_hash_lt _ _ _ _ _ E) as L.
      destruct (hash_op_ok false n s IA L) as (s2 & h2 & E2 & I2 & _ & K2 & _). rewrite E in E2. inversion E2; subst.
      split; auto. apply K0_keepc; auto. }
    unfold swhid, get. destruct (nth_error s n) as [x|] eqn:Ex; simpl; auto.
    destruct (kind x); simpl; auto.
  - (* == : the heap is not touched *) simpl. exact TRIV.
Qed.

Lemma step_inv : forall s o, InvA s -> guard NH true false s o -> InvA (fst (step NH true false s o)).
Proof.
  intros s o IA G. split; [apply (step_ok s o IA G) | apply G].
Qed.

Lemma InvA_init : InvA [].
Proof.
  split; [apply Inv_init|]. exists (fun _ => 0).
  intros n m (x & nm & E & _). destruct n; discriminate.
Qed.

Lemma final_app : forall s h o, final NH true false s (h ++ [o]) = fst (step NH true false (final NH true false s h) o).
Proof.
  intros s h. revert s. unfold final. induction h as [|a h IH]; intros s o; simpl.
  - destruct (step NH true false s o). reflexivity.
  - destruct (step NH true false s a) as [s1 x] eqn:E. specialize (IH s1 o).
    destruct (run NH true false s1 (h ++ [o])). destruct (run NH true false s1 h). simpl in *. exact IH.
Qed.

Lemma reachable_inv : forall h s, InvA s -> guarded NH true false s h -> InvA (final NH true false s h).
Proof.
  induction h as [|o h IH]; intros s IA G; unfold final; simpl.
  - exact IA.
  - simpl in G. destruct G as [G1 G2]. pose proof (step_inv s o IA G1) as IA1.
    remember (step NH true false s o) as r eqn:E. destruct r as [s1 x]. simpl in IA1, G2.
    specialize (IH s1 IA1 G2). unfold final in IH. destruct (run NH true false s1 h). exact IH.
Qed.

(* ---- C10: no stale value *)
Lemma no_stale_from : forall s0 h o, InvA s0 -> guarded NH true false s0 h -> guard NH true false (final NH true false s0 h) o ->
  let s := final NH true false s0 h in
  let s' := fst (step NH true false s o) in
  (forall n, n < length s -> o = OHash n \/ o = OForce n ->
     exists hv, snd (step NH true false s o) = OutHash hv /\ Fresh s' n hv /\ Fresh s n hv) /\
  (forall n es, o = OEntries n \/ o = OToModel n -> snd (step NH true false s o) = OutEntries es ->
     exists x, nth_error s n = Some x /\ FreshKids s' (kids x) es).
Proof.
  intros s0 h o IA0 GH GO s s'. pose proof (reachable_inv h s0 IA0 GH) as IA. fold s in IA.
  pose proof IA as [I Ac]. destruct (acyclic_bounded s Ac) as [rank Rk].
  split.
  - intros n L [-> | ->]; simpl.
    + destruct (hash_op_ok false n s IA L) as (s2 & h2 & E2 & _ & _ & _ & _ & F2 & F1).
      unfold s'. simpl. unfold read_hash. rewrite E2. simpl. eauto.
    + destruct (hash_op_ok true n s IA L) as (s2 & h2 & E2 & _ & _ & _ & _ & F2 & F1).
      unfold s'. simpl. unfold force_hash. rewrite E2. simpl. eauto.
  - intros n es [-> | ->] Hout; unfold s'; simpl in *.
    + destruct (lt_dec n (length s)) as [L|L].
      * destruct (entries_ok NH rank n s (proj1 I) Rk L) as [(e & E & _)|(s2 & es2 & x & E & _ & _ & Ex & FK)];
          rewrite E in *; simpl in *; [discriminate|]. inversion Hout; subst. eauto.
      * unfold entries, get in *. destruct (nth_error s n) eqn:E; [exfalso; apply L; eapply nth_lt; eauto|]. simpl in *. discriminate.
    + destruct (lt_dec n (length s)) as [L|L].
      * destruct (to_model_ok NH rank n s (proj1 I) Rk L) as [(e & E & _)|(s2 & es2 & x & E & _ & _ & Ex & FK)];
          rewrite E in *; simpl in *; [discriminate|]. inversion Hout; subst. eauto.
      * unfold to_model, get in *. destruct (nth_error s n) eqn:E; [exfalso; apply L; eapply nth_lt; eauto|]. simpl in *. discriminate.
Qed.

Lemma no_stale : forall h o, guarded NH true false [] h -> guard NH true false (final NH true false [] h) o ->
  let s := final NH true false [] h in
  let s' := fst (step NH true false s o) in
  (forall n, n < length s -> o = OHash n \/ o = OForce n ->
     exists hv, snd (step NH true false s o) = OutHash hv /\ Fresh s' n hv /\ Fresh s n hv) /\
  (forall n es, o = OEntries n \/ o = OToModel n -> snd (step NH true false s o) = OutEntries es ->
     exists x, nth_error s n = Some x /\ FreshKids s' (kids x) es).
Proof. intros h o. apply (no_stale_from [] h o InvA_init). Qed.


(* an operation that raises leaves the heap as it was: no cached hash, no
   collected flag, no link is touched by a failed set / delete / bulk update /
   lookup (nor by any other operation answering an error) *)
Lemma failed_op_is_noop : forall s o e, InvA s -> guard NH true false s o ->
  snd (step NH true false s o) = OutErr e -> fst (step NH true false s o) = s.
Proof.
  intros s o e [I _] [_ G] H.
  destruct o as [k d|p key c|p key|p l|p key|p key|n|n|n|n|n|n|n d|n|a b]; unfold step in *; try (destruct G; fail).
  - discriminate.
  - destruct (setitem s p key c); simpl in *; [discriminate | reflexivity].
  - destruct (delitem true s p key) as [s' [e0|]] eqn:E; simpl in *; [|discriminate].
    destruct (delitem_ok NH s p key s' (Some e0) I G E) as (_ & _ & N). apply (N e0 eq_refl).
  - destruct G as [ND HL]. destruct (update_many true s p l) as [s' [e0|]] eqn:E; simpl in *; [|discriminate].
    destruct (update_many_ok NH s p l s' (Some e0) I ND HL E) as (_ & _ & N). apply (N e0 eq_refl).
  - destruct (getitem_ s p key); reflexivity.
  - destruct (contains_ s p key); reflexivity.
  - destruct (read_hash NH false n s) as [[s' h]|e0]; simpl in *; [discriminate | reflexivity].
  - destruct (force_hash NH false n s) as [[s' h]|e0]; simpl in *; [discriminate | reflexivity].
  - destruct (entries NH false n s) as [[s' h]|e0]; simpl in *; [discriminate | reflexivity].
  - destruct (to_model NH false n s) as [[s' h]|e0]; simpl in *; [discriminate | reflexivity].
  - destruct (collect NH false (S (length s)) n s) as [[s' h]|e0]; simpl in *; [discriminate | reflexivity].
  - destruct (reset_collect (S (length s)) n s) as [s'|e0]; simpl in *; [discriminate | reflexivity].
  - destruct (swhid NH false n s) as [[s' h]|e0]; simpl in *; [discriminate | reflexivity].
  - reflexivity.
Qed.

(* swhid() of a Directory / Content node: the object id is the hash *)
Lemma step_swhid_eq : forall s n x, nth_error s n = Some x -> kind x = KDir \/ kind x = KContent ->
  step NH true false s (OSwhid n) = step NH true false s (OHash n).
Proof.
  intros s n x E K. unfold step, swhid, get. rewrite E. simpl. destruct K as [-> | ->]; reflexivity.
Qed.

Lemma swhid_fresh : forall h n x, guarded NH true false [] h ->
  let s := final NH true false [] h in
  guard NH true false s (OSwhid n) -> nth_error s n = Some x -> kind x = KDir \/ kind x = KContent ->
  exists hv, snd (step NH true false s (OSwhid n)) = OutHash hv /\
             Fresh (fst (step NH true false s (OSwhid n))) n hv /\ Fresh s n hv.
Proof.
  intros h n x GH s GO E K. rewrite (step_swhid_eq s n x E K).
  assert (GO' : guard NH true false s (OHash n)).
  { destruct GO as [A _]. rewrite (step_swhid_eq s n x E K) in A. split; auto. }
  destruct (no_stale h (OHash n) GH GO') as [HN _]. apply (HN n); auto. eapply nth_lt; eauto.
Qed.

(* every child edge has its back-link, in particular after a delete: the
   removal of one link (by identity) leaves the links to the other parents *)
Lemma delete_keeps_other_parent : forall h p key, guarded NH true false [] h ->
  guard NH true false (final NH true false [] h) (ODel p key) ->
  let s' := fst (step NH true false (final NH true false [] h) (ODel p key)) in
  forall q x name c y, nth_error s' q = Some x -> In (name, c) (kids x) -> nth_error s' c = Some y ->
    In q (parents y).
Proof.
  intros h p key GH GO s' q x name c y E Hin Ec.
  pose proof (reachable_inv h [] InvA_init GH) as IA.
  pose proof (step_inv _ _ IA GO) as [[I' _] _]. fold s' in I'. eapply (I2_in NH s' I'); eauto.
Qed.

(* ---- C14 *)
Variable rp : set_oracle.

Definition I5 (s : heap) (rep : list report) : Prop :=
  forall n x, nth_error s n = Some x -> collected x = true -> exists m, In (m, hash_of s n, n) rep.
Definition InvC (s : heap) (rep : list report) : Prop := InvA s /\ I5 s rep.

Definition gstep (s : heap) (rep : list report) (o : op) : heap * list report :=
  (fst (step NH true false s o), rep ++ reports rp (fst (step NH true false s o)) (snd (step NH true false s o))).

Lemma grun_cons : forall s rep o h, grun NH true false rp s rep (o :: h) =
  grun NH true false rp (fst (gstep s rep o)) (snd (gstep s rep o)) h.
Proof. intros. simpl. unfold gstep. destruct (step NH true false s o). reflexivity. Qed.

Lemma hash_of_K0 : forall s s' n x x', nth_error s n = Some x -> nth_error s' n = Some x' ->
  cached x' = cached x -> hash_of s' n = hash_of s n.
Proof. intros s s' n x x' E E' C. unfold hash_of. rewrite E, E', C. reflexivity. Qed.

Lemma collect_step : forall s root, InvA s -> root < length s ->
  exists s' L, step NH true false s (OCollect root) = (s', OutNodes L) /\ Inv s' /\ cgrow s s' /\
    (forall m, Reach s root m -> collected_at s' m) /\ flipped s s' L /\ (forall m, In m L -> Reach s root m).
Proof.
  intros s root [I Ac] L. destruct (acyclic_bounded s Ac) as [rank Rk].
  destruct (collect_ok NH rank (S (length s)) root s I Rk L) as (s' & Lc & E & R).
  { destruct Rk as [_ B]. specialize (B root). lia. }
  exists s', Lc. unfold step. rewrite E. simpl. auto.
Qed.

Lemma gstep_inv : forall s rep o, InvC s rep -> guard NH true false s o ->
  InvC (fst (gstep s rep o)) (snd (gstep s rep o)).
Proof.
  intros s rep o [IA H5] G. unfold gstep. simpl. split; [apply step_inv; auto|].
  pose proof (step_ok s o IA G) as [I' K].
  assert (KK : K0 s (fst (step NH true false s o)) -> I5 (fst (step NH true false s o))
                (rep ++ reports rp (fst (step NH true false s o)) (snd (step NH true false s o)))).
  { intros K0' n x' E' C'. destruct (K0' n x' E' C') as (x & E & C & Q).
    destruct (H5 n x E C) as (m & Hm). exists m. apply in_or_app. left.
    rewrite (hash_of_K0 s _ n x x' E E' Q). exact Hm. }
  destruct o; try (apply KK; exact K).
  destruct (lt_dec n (length s)) as [L|L].
  - destruct (collect_step s n IA L) as (s' & Lc & E & Is' & CG & _ & FL & _). rewrite E. simpl.
    intros m x' E' C'. destruct (F2_nth_r _ _ _ _ _ CG E') as (x & Ex & (_ & Hc & _)).
    destruct (collected x) eqn:Cx.
    + destruct (H5 m x Ex Cx) as (m0 & Hm). exists m0. apply in_or_app. left.
      assert (Hx : hashed x = true) by (eapply (proj2 (proj1 IA)); eauto).
      rewrite (hash_of_K0 s s' m x x' Ex E' (Hc Hx)). exact Hm.
    + exists (rp s' Lc m). apply in_or_app. right. apply in_map_iff. exists m. split; auto. eapply FL; eauto.
  - apply KK. simpl. unfold get. destruct (nth_error s n) eqn:E; [exfalso; apply L; eapply nth_lt; eauto|].
    simpl. apply K0_refl.
Qed.

Lemma grun_inv : forall h s rep, InvC s rep -> guarded NH true false s h ->
  InvC (fst (grun NH true false rp s rep h)) (snd (grun NH true false rp s rep h)).
Proof.
  induction h as [|o h IH]; intros s rep IC G; [exact IC|].
  rewrite grun_cons. simpl in G. destruct G as [G1 G2]. apply IH.
  - apply gstep_inv; auto.
  - unfold gstep. simpl. exact G2.
Qed.

Lemma InvC_init : InvC [] [].
Proof. split; [apply InvA_init|]. intros n x E. destruct n; discriminate. Qed.

Definition greach (s : heap) (rep : list report) : Prop :=
  exists h, guarded NH true false [] h /\ grun NH true false rp [] [] h = (s, rep).

Lemma greach_inv : forall s rep, greach s rep -> InvC s rep.
Proof.
  intros s rep (h & G & E). pose proof (grun_inv h [] [] InvC_init G) as H. rewrite E in H. exact H.
Qed.

(* (I4) + (I1): a node flagged collected has a cached hash, and it is the from-scratch
   one - invalidate_hash may therefore stop at a node without a cached hash *)
Lemma collected_has_hash : forall s rep, greach s rep ->
  forall n x, nth_error s n = Some x -> collected x = true ->
  exists h, cached x = Some h /\ Fresh s n h.
Proof.
  intros s rep GR n x E C. destruct (greach_inv s rep GR) as [[[I0 I4] _] _].
  destruct (I1 NH s I0 n x E (I4 n x E C)) as (h & Ch & F & _). eauto.
Qed.

Lemma collect_complete : forall s rep root, greach s rep -> guard NH true false s (OCollect root) ->
  let s' := fst (gstep s rep (OCollect root)) in
  let rep' := snd (gstep s rep (OCollect root)) in
  forall n, Reach s' root n -> exists hv m, Fresh s' n hv /\ In (m, hv, n) rep'.
Proof.
  intros s rep root GR G s' rep' n Rn. pose proof (greach_inv s rep GR) as IC.
  pose proof (gstep_inv s rep (OCollect root) IC G) as [[[I0' I4'] _] H5']. fold s' rep' in I0', I4', H5'.
  assert (L : root < length s).
  { destruct (lt_dec root (length s)) as [L|L]; auto. exfalso.
    assert (Es : s' = s).
    { unfold s', gstep. simpl. unfold get. destruct (nth_error s root) eqn:E; [exfalso; apply L; eapply nth_lt; eauto|]. reflexivity. }
    rewrite Es in Rn. destruct (Reach_inv _ _ _ Rn) as [[_ Hlt]|(k & (x & nm & E & _) & _)];
      [lia | apply L; eapply nth_lt; eauto]. }
  destruct (collect_step s root (proj1 IC) L) as (s2 & Lc & E & _ & CG & CA & _).
  assert (Es : s' = s2) by (unfold s', gstep; rewrite E; reflexivity).
  assert (Rn0 : Reach s root n) by (eapply shape_reach; [apply shape_sym; apply cgrow_shape; exact CG | rewrite <- Es; exact Rn]).
  destruct (CA n Rn0) as (x' & Ex' & Cx'). rewrite <- Es in Ex'.
  destruct (H5' n x' Ex' Cx') as (m & Hm).
  pose proof (I4' n x' Ex' Cx') as Hx'.
  destruct (I1 NH s' I0' n x' Ex' Hx') as (hv & Chv & Fhv & _).
  exists hv, m. split; auto. unfold hash_of in Hm. rewrite Ex', Chv in Hm. exact Hm.
Qed.

Lemma collect_idempotent : forall s rep root, greach s rep -> guard NH true false s (OCollect root) ->
  root < length s ->
  let s' := fst (step NH true false s (OCollect root)) in
  step NH true false s' (OCollect root) = (s', OutNodes []).
Proof.
  intros s rep root GR G L s'. pose proof (greach_inv s rep GR) as [IA _].
  destruct (collect_step s root IA L) as (s2 & Lc & E & Is2 & CG & CA & _).
  assert (Es : s' = s2) by (unfold s'; rewrite E; reflexivity). rewrite Es.
  pose proof (cgrow_shape _ _ CG) as Sh. destruct IA as [I Ac]. destruct (acyclic_bounded s Ac) as [rank Rk].
  assert (NOOP : collect NH false (S (length s2)) root s2 = Ok (s2, [])).
  { apply (collect_noop NH rank).
    - intros m x nm c. apply (I_wfk NH s2 (proj1 Is2)).
    - eapply shape_ranked; eauto.
    - rewrite <- (F2_len _ _ _ Sh). exact L.
    - destruct Rk as [_ B]. specialize (B root). rewrite <- (F2_len _ _ _ Sh). lia.
    - intros m Rm. apply CA. eapply shape_reach; [apply shape_sym; exact Sh | exact Rm]. }
  unfold step. rewrite NOOP. reflexivity.
Qed.

Lemma reset_then_collect : forall s rep root, greach s rep -> guard NH true false s (OReset root) ->
  root < length s ->
  let s1 := fst (step NH true false s (OReset root)) in
  exists L, snd (step NH true false s1 (OCollect root)) = OutNodes L /\
    forall n, Reach s1 root n -> In n L.
Proof.
  intros s rep root GR G L s1. pose proof (greach_inv s rep GR) as [IA _].
  pose proof (step_inv s (OReset root) IA G) as IA1. fold s1 in IA1.
  destruct IA as [I Ac]. destruct (acyclic_bounded s Ac) as [rank Rk].
  destruct (reset_ok rank (S (length s)) root s) as (s2 & E & N & U); auto.
  { intros m x nm c. apply (I_wfk NH s (proj1 I)). }
  { destruct Rk as [_ B]. specialize (B root). lia. }
  assert (Es : s1 = s2) by (unfold s1, step; rewrite E; reflexivity).
  pose proof (nr_shape _ _ N) as Sh.
  assert (L1 : root < length s1) by (rewrite Es, <- (F2_len _ _ _ Sh); exact L).
  destruct (collect_step s1 root IA1 L1) as (s3 & Lc & E3 & _ & CG & CA & FL & _).
  exists Lc. rewrite E3. split; auto. intros n Rn.
  destruct (CA n Rn) as (x3 & Ex3 & Cx3).
  assert (Rn0 : Reach s root n) by (eapply shape_reach; [apply shape_sym; exact Sh | rewrite <- Es; exact Rn]).
  destruct (U n Rn0) as (x1 & Ex1 & Cx1). rewrite <- Es in Ex1. eapply FL; eauto.
Qed.

(* ---- partial resets, arbitrary later collections *)
Definition notcoll (s : heap) (x : nat) : Prop :=
  forall y, nth_error s x = Some y -> collected y = false.

Lemma Reach_lt : forall s r x, Reach s r x -> r < length s /\ x < length s.
Proof.
  intros s r x H. induction H as [n L|n k m (y & nm & E & _) _ [_ IH]].
  - auto.
  - split; auto. eapply nth_lt; eauto.
Qed.

(* (a) reset_collect n un-collects everything below n *)
Lemma reset_uncollects : forall s n x, InvA s -> Reach s n x ->
  notcoll (fst (step NH true false s (OReset n))) x.
Proof.
  intros s n x [I Ac] Rx. destruct (acyclic_bounded s Ac) as [rank Rk].
  destruct (Reach_lt _ _ _ Rx) as [L _].
  destruct (reset_ok rank (S (length s)) n s) as (s' & E & N & U); auto.
  { intros m y nm c. apply (I_wfk NH s (proj1 I)). }
  { destruct Rk as [_ B]. specialize (B n). lia. }
  unfold step. rewrite E. simpl. destruct (U x Rx) as (y & Ey & Cy). intros y' Ey'. congruence.
Qed.

(* (b) frame: collected = false is preserved by every operation except a
   collect issued at a node that has x below it *)
Lemma uncollected_frame : forall s o x, InvA s -> guard NH true false s o -> notcoll s x ->
  (forall r, o = OCollect r -> ~ Reach s r x) -> notcoll (fst (step NH true false s o)) x.
Proof.
  intros s o x IA G NC NR. pose proof (step_ok s o IA G) as [_ K].
  assert (KK : K0 s (fst (step NH true false s o)) -> notcoll (fst (step NH true false s o)) x).
  { intros K0' y' Ey'. destruct (collected y') eqn:Cy'; auto.
    destruct (K0' x y' Ey' Cy') as (y & Ey & Cy & _). rewrite (NC y Ey) in Cy. discriminate. }
  destruct o; try (apply KK; exact K).
  destruct (lt_dec n (length s)) as [L|L].
  - destruct (collect_step s n IA L) as (s' & Lc & E & _ & CG & _ & FL & NL). rewrite E. simpl.
    intros y' Ey'. destruct (collected y') eqn:Cy'; auto. exfalso.
    destruct (F2_nth_r _ _ _ _ _ CG Ey') as (y & Ey & _).
    apply (NR n eq_refl). apply NL. eapply FL; eauto.
  - apply KK. simpl. unfold get. destruct (nth_error s n) eqn:E; [exfalso; apply L; eapply nth_lt; eauto|].
    simpl. apply K0_refl.
Qed.

(* (c) collect r returns every node below r whose collected flag is false *)
Lemma collect_reports_uncollected : forall s r x, InvA s -> Reach s r x -> notcoll s x ->
  exists s' L, step NH true false s (OCollect r) = (s', OutNodes L) /\ In x L /\
    exists hv, Fresh s' x hv /\ In (rp s' L x, hv, x) (reports rp s' (OutNodes L)).
Proof.
  intros s r x IA Rx NC. destruct (Reach_lt _ _ _ Rx) as [L _].
  destruct (collect_step s r IA L) as (s' & Lc & E & [I0' I4'] & CG & CA & FL & _).
  exists s', Lc. split; auto.
  destruct (CA x Rx) as (y' & Ey' & Cy'). destruct (F2_nth_r _ _ _ _ _ CG Ey') as (y & Ey & _).
  assert (Hin : In x Lc) by (eapply FL; eauto).
  split; auto.
  pose proof (I4' x y' Ey' Cy') as Hy'. destruct (I1 NH s' I0' x y' Ey' Hy') as (hv & Chv & Fhv & _).
  exists hv. split; auto. simpl. apply in_map_iff. exists x. split; auto.
  unfold hash_of. rewrite Ey', Chv. reflexivity.
Qed.

Lemma final_cons : forall s o h, final NH true false s (o :: h) = final NH true false (fst (step NH true false s o)) h.
Proof.
  intros s o h. unfold final. simpl. destruct (step NH true false s o) as [s1 x]. simpl.
  destruct (run NH true false s1 h). reflexivity.
Qed.

Lemma quiet_run : forall h s x, InvA s -> guarded NH true false s h -> quiet NH true false s h x ->
  notcoll s x -> notcoll (final NH true false s h) x.
Proof.
  induction h as [|o h IH]; intros s x IA G Q NC; [exact NC|].
  rewrite final_cons. simpl in G, Q. destruct G as [G1 G2]. destruct Q as [Q1 Q2].
  apply IH; auto.
  - apply step_inv; auto.
  - apply uncollected_frame; auto.
Qed.

(* every node below a reset_collect is owed to the first later collect that
   has it below its root, whatever happens in between *)
Lemma reset_partial : forall s rep n, greach s rep -> guard NH true false s (OReset n) ->
  forall h x r,
  let s1 := fst (step NH true false s (OReset n)) in
  Reach s n x -> guarded NH true false s1 h -> quiet NH true false s1 h x ->
  let s2 := final NH true false s1 h in
  Reach s2 r x ->
  exists s3 L, step NH true false s2 (OCollect r) = (s3, OutNodes L) /\ In x L /\
    exists hv, Fresh s3 x hv /\ In (rp s3 L x, hv, x) (reports rp s3 (OutNodes L)).
Proof.
  intros s rep n GR G h x r s1 Rx GH Q s2 Rr. pose proof (greach_inv s rep GR) as [IA _].
  pose proof (step_inv s (OReset n) IA G) as IA1. fold s1 in IA1.
  pose proof (reachable_inv h s1 IA1 GH) as IA2. fold s2 in IA2.
  apply collect_reports_uncollected; auto.
  apply quiet_run; auto. apply reset_uncollects; auto.
Qed.

Lemma reports_sound : oracle_ok rp -> forall s' L m hv n, In (m, hv, n) (reports rp s' (OutNodes L)) ->
  In m L /\ In n L /\ node_eqb (S (length s')) s' m n = true /\ hash_of s' m = hv /\ hash_of s' n = hv.
Proof.
  intros OK s' L m hv n Hin. simpl in Hin. apply in_map_iff in Hin. destruct Hin as (n0 & Eq & Hn).
  inversion Eq; subst. destruct (OK s' L n Hn) as (A & B & C). auto.
Qed.

End WithNH.
