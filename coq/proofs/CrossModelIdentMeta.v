(* Cross-model consistency C07 x C15: the generic id machinery of model/Ident.v
   instantiated with the manifests of model/Meta.v (ExtID, RawExtrinsicMetadata),
   as IdentProofs.init_id_directory/_snapshot/_release/_revision/_origin do for
   the other five kinds.  Every statement quantifies over the hash H.

   Both models declare [result]/[Ok]/[Err]/[ValueError]: Ident's are imported,
   Meta's are written qualified. *)
From Coq Require Import List NArith ZArith Bool.
From SWH.lib Require Import Bytes.
From SWH Require Import Generated.
From SWH.model Require Import Ident.
From SWH.model Require Meta.
From SWH.proofs Require Import IdentProofs.
From SWH.proofs Require MetaProofs.
Import ListNotations.

(* ExtID: the class's manifest function is git_objects.extid_git_object; it
   raises UnicodeEncodeError (a ValueError) for non-ASCII extid_type /
   payload_type.  Ident's [h_attrs = None] stands for a manifest function that
   raises TypeError (Release without target), so only the case where the
   manifest exists is an instance of the generic machinery; the other one is
   [extid_no_manifest_not_constructed] below. *)
Definition extid_attrs (e : Meta.extid) : option bytes :=
  match Meta.extid_git_object e with Meta.Ok m => Some m | Meta.Err _ => None end.

Section Kinds.
  Variable H : bytes -> bytes.

  Theorem init_id_extid : forall (e : Meta.extid) (m : bytes),
    Meta.extid_git_object e = Meta.Ok m ->
    exists o, construct H KExtID (extid_attrs e) None [] = Ok o
      /\ h_id o = H m
      /\ Meta.extid_id H e = Meta.Ok (h_id o)
      /\ compute_hash H o = Ok (h_id o)
      /\ check H o = Ok tt
      /\ swhid_tag (h_kind o) = None
      /\ swhid o = Err AttributeError.
  Proof.
    intros e m Hm. unfold extid_attrs. rewrite Hm.
    destruct (construct_id H KExtID m None ltac:(intro K; congruence))
      as [o [Hc [Hk [_ [_ [Hid [Hch _]]]]]]].
    exists o. split; [exact Hc|]. split; [exact Hid|]. split; [|split; [exact Hch|split; [|split]]].
    - unfold Meta.extid_id. rewrite Hm, Hid. reflexivity.
    - apply (proj1 (built_checks H KExtID _ None o ltac:(intro K; congruence) Hc)). intro K. exact K.
    - rewrite Hk. reflexivity.
    - apply swhid_extid_none. exact Hk.
  Qed.

  (* the objects the ExtID constructor accepts are exactly those of the theorem
     above with a consistent payload pair: validators pass and the manifest exists *)
  Theorem mk_extid_has_manifest : forall (e e' : Meta.extid),
    Meta.mk_extid e = Meta.Ok e' ->
    e' = e /\ Meta.extid_valid e = true /\ exists m, Meta.extid_git_object e = Meta.Ok m /\ extid_attrs e = Some m.
  Proof.
    intros e e'. unfold Meta.mk_extid, extid_attrs.
    destruct (Meta.extid_valid e); [|discriminate].
    destruct (Meta.extid_git_object e) as [m|x]; [|discriminate].
    intro E. inversion E. split; [reflexivity|]. split; [reflexivity|]. exists m. split; reflexivity.
  Qed.

  (* non-ASCII type strings: no manifest, Meta's constructor refuses the object
     (ValueError); Ident's [construct] on "no manifest" answers TypeError - the
     two models agree that nothing is built, they name the exception
     differently because Ident has no ValueError-raising manifest function *)
  Theorem extid_no_manifest_not_constructed : forall (e : Meta.extid) (x : Meta.err),
    Meta.extid_git_object e = Meta.Err x ->
    extid_attrs e = None
    /\ (forall e', Meta.mk_extid e <> Meta.Ok e')
    /\ Meta.extid_id H e = Meta.Err x
    /\ (forall o, construct H KExtID (extid_attrs e) None [] <> Ok o).
  Proof.
    intros e x Hx. unfold extid_attrs. rewrite Hx. split; [reflexivity|]. split; [|split].
    - intros e' K. unfold Meta.mk_extid in K. rewrite Hx in K. destruct (Meta.extid_valid e); discriminate.
    - unfold Meta.extid_id. rewrite Hx. reflexivity.
    - intros o K. cbv in K. discriminate.
  Qed.

  (* RawExtrinsicMetadata: the manifest function never raises; the constructor
     normalises the discovery date before the id is computed, which does not
     change the manifest (MetaProofs.emd_git_object_normalize) *)
  Theorem init_id_emd : forall (md : Meta.emd),
    exists o, construct H KRawExtrinsicMetadata (Some (Meta.emd_git_object md)) None [] = Ok o
      /\ h_id o = H (Meta.emd_git_object md)
      /\ h_id o = Meta.emd_id H md
      /\ (forall a, Meta.mk_emd md = Meta.Ok a -> h_id o = Meta.emd_id H a)
      /\ compute_hash H o = Ok (h_id o)
      /\ check H o = Ok tt
      /\ swhid_tag (h_kind o) = Some (bs "emd").
  Proof.
    intro md.
    destruct (construct_id H KRawExtrinsicMetadata (Meta.emd_git_object md) None ltac:(intro K; congruence))
      as [o [Hc [Hk [_ [_ [Hid [Hch _]]]]]]].
    exists o. split; [exact Hc|]. split; [exact Hid|]. split; [exact Hid|]. split; [|split; [exact Hch|split]].
    - intros a Ha. apply MetaProofs.mk_emd_inv in Ha. destruct Ha as [-> _].
      unfold Meta.emd_id. rewrite MetaProofs.emd_git_object_normalize. exact Hid.
    - apply (proj1 (built_checks H KRawExtrinsicMetadata _ None o ltac:(intro K; congruence) Hc)). intro K. exact K.
    - rewrite Hk. vm_compute. reflexivity.
  Qed.
End Kinds.

(* non-vacuity: the concrete objects of MetaProofs are instances *)
Example ex_extid_instance : exists m, Meta.extid_git_object MetaProofs.ex_extid = Meta.Ok m /\ m <> [].
Proof. eexists. split; [vm_compute; reflexivity | discriminate]. Qed.
