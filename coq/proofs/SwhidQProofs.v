(* QualifiedSWHID.from_string: inversion of a successful parse, clean failure,
   well-formedness of the parsed value. *)
From Coq Require Import List NArith ZArith Bool Lia Arith.
From SWH.lib Require Import Bytes Dec Hex Utf8 Percent.
From SWH Require Import Generated.
From SWH.model Require Import Swhid.
From SWH.proofs Require Import SwhidTables SwhidLib PercentProofs SwhidProofs SwhidParseProofs SwhidLinesProofs.
Import ListNotations.
Open Scope N_scope.

(* ---------------------------------------------------------------- bytes produced by unquote_to_bytes *)
Lemma enc_cp_wf : forall c b, enc_cp c = Some b -> wf_bytes b = true.
Proof.
  intros c b H. unfold enc_cp in H.
  assert (M64 : c mod 64 < 64) by (apply N.mod_lt; discriminate).
  assert (M64' : (c / 64) mod 64 < 64) by (apply N.mod_lt; discriminate).
  assert (M64'' : (c / 4096) mod 64 < 64) by (apply N.mod_lt; discriminate).
  destruct (N.ltb_spec c 128) as [L1|L1].
  { apply (f_equal (fun o => match o with Some x => x | None => [] end)) in H; cbv beta iota in H; subst b. cbn [wf_bytes forallb]. unfold wf_byte. rewrite andb_true_r. apply N.ltb_lt. lia. }
  destruct (N.ltb_spec c 2048) as [L2|L2].
  { assert (D : c / 64 < 32) by (apply N.div_lt_upper_bound; [discriminate | lia]).
    apply (f_equal (fun o => match o with Some x => x | None => [] end)) in H; cbv beta iota in H; subst b. cbn [wf_bytes forallb]. unfold wf_byte. rewrite andb_true_r.
    apply andb_true_iff. split; apply N.ltb_lt; lia. }
  destruct (N.ltb_spec c 65536) as [L3|L3].
  { assert (D : c / 4096 < 16) by (apply N.div_lt_upper_bound; [discriminate | lia]).
    destruct (is_surrogate c); [discriminate|]. apply (f_equal (fun o => match o with Some x => x | None => [] end)) in H; cbv beta iota in H; subst b. cbn [wf_bytes forallb]. unfold wf_byte.
    rewrite andb_true_r. repeat (apply andb_true_iff; split); apply N.ltb_lt; lia. }
  destruct (N.ltb_spec c 1114112) as [L4|L4]; [|discriminate].
  assert (D : c / 262144 < 5) by (apply N.div_lt_upper_bound; [discriminate | lia]).
  apply (f_equal (fun o => match o with Some x => x | None => [] end)) in H; cbv beta iota in H; subst b. cbn [wf_bytes forallb]. unfold wf_byte.
  rewrite andb_true_r. repeat (apply andb_true_iff; split); apply N.ltb_lt; lia.
Qed.

Lemma utf8_encode_wf : forall t b, utf8_encode t = Some b -> wf_bytes b = true.
Proof.
  induction t as [|c t IH]; intros b H.
  - inversion H. reflexivity.
  - cbn [utf8_encode] in H. destruct (enc_cp c) as [e|] eqn:E; [|discriminate].
    destruct (utf8_encode t) as [r|]; [|discriminate]. inversion H; subst.
    rewrite wf_bytes_app, (enc_cp_wf _ _ E), (IH r eq_refl). reflexivity.
Qed.

Lemma hexval_lt : forall c x, hexval c = Some x -> x < 16.
Proof.
  intros c x H. unfold hexval in H.
  destruct ((48 <=? c) && (c <=? 57)) eqn:A; [inversion H; subst; b2p A; lia|].
  destruct ((65 <=? c) && (c <=? 70)) eqn:B; [inversion H; subst; b2p B; lia|].
  destruct ((97 <=? c) && (c <=? 102)) eqn:C; [inversion H; subst; b2p C; lia | discriminate].
Qed.

Lemma unquote_bytes_wf_aux : forall n l, (length l <= n)%nat -> wf_bytes l = true -> wf_bytes (unquote_bytes l) = true.
Proof.
  induction n as [|n IH]; intros l Hn Hw.
  - destruct l; [reflexivity | cbn in Hn; lia].
  - destruct l as [|c l']; [reflexivity|]. cbn [wf_bytes forallb] in Hw. apply andb_true_iff in Hw.
    destruct Hw as [Hc Hl']. cbn [length] in Hn. cbn [unquote_bytes].
    assert (R : wf_bytes (unquote_bytes l') = true) by (apply IH; [lia | exact Hl']).
    destruct (c =? 37).
    + destruct l' as [|a [|b r]].
      * reflexivity.
      * cbn [wf_bytes forallb]. cbn [wf_bytes forallb] in R. exact R.
      * destruct (hexval a) as [x|] eqn:Ea.
        -- destruct (hexval b) as [y|] eqn:Eb.
           ++ cbn [wf_bytes forallb]. apply andb_true_iff. split.
              ** unfold wf_byte. apply N.ltb_lt. pose proof (hexval_lt _ _ Ea). pose proof (hexval_lt _ _ Eb). lia.
              ** apply IH; [cbn [length] in Hn; lia|]. cbn [wf_bytes forallb] in Hl'.
                 apply andb_true_iff in Hl'. destruct Hl' as [_ Hl']. apply andb_true_iff in Hl'. tauto.
           ++ cbn [wf_bytes forallb]. fold (wf_bytes (unquote_bytes (a :: b :: r))). rewrite R. reflexivity.
        -- cbn [wf_bytes forallb]. fold (wf_bytes (unquote_bytes (a :: b :: r))). rewrite R. reflexivity.
    + cbn [wf_bytes forallb]. fold (wf_bytes (unquote_bytes l')). rewrite Hc, R. reflexivity.
Qed.

Lemma unquote_to_bytes_wf : forall t b, unquote_to_bytes t = Some b -> wf_bytes b = true.
Proof.
  intros t b H. unfold unquote_to_bytes in H. destruct (utf8_encode t) as [e|] eqn:E; [|discriminate].
  inversion H; subst. apply (unquote_bytes_wf_aux (length e)); [lia | apply (utf8_encode_wf _ _ E)].
Qed.

Lemma parse_path_ok_iff : forall t, (exists b, parse_path t = Ok b) <-> forallb is_scalar t = true.
Proof.
  intro t. unfold parse_path, unquote_to_bytes. rewrite utf8_encode_scalar. split.
  - intros [b H]. destruct (utf8_encode t) as [e|]; [exists e; reflexivity | discriminate].
  - intros [e H]. rewrite H. eexists. reflexivity.
Qed.

Lemma parse_path_okerr : forall t, okerr (parse_path t).
Proof. intro t. unfold parse_path. destruct (unquote_to_bytes t); [exact I | right; reflexivity]. Qed.

(* ---------------------------------------------------------------- opt_conv *)
Lemma opt_conv_inv : forall A (f : text -> result A) o r, opt_conv f o = Ok r ->
  match o with None => r = None | Some t => exists a, f t = Ok a /\ r = Some a end.
Proof.
  intros A f [t|] r H; cbn [opt_conv] in H.
  - destruct (f t) as [a|e]; [|discriminate]. cbn [bind] in H. inversion H. exists a. split; reflexivity.
  - inversion H. reflexivity.
Qed.

Lemma opt_conv_okerr : forall A (f : text -> result A) o, (forall t, okerr (f t)) -> okerr (opt_conv f o).
Proof.
  intros A f [t|] H; cbn [opt_conv]; [|exact I]. apply okerr_bind; [apply H | intro a; exact I].
Qed.

(* ---------------------------------------------------------------- the constructor call *)
Lemma mk_q_okerr : forall ty oid o vi an pa li, okerr (mk_q ty oid o vi an pa li).
Proof.
  intros. unfold mk_q. destruct (negb (mem_bytes ty (enum_values OBJECT_TYPES))); [right; reflexivity|].
  destruct (negb (Nat.eqb (length oid) 20)); [left; reflexivity|].
  destruct (match vi with Some c => negb (beqb (c_ty c) TY_SNAPSHOT) | None => false end); [left; reflexivity|].
  destruct (match an with Some c => negb (mem_bytes (c_ty c) ANCHOR_TYPES) | None => false end); [left; reflexivity | exact I].
Qed.

Record q_parts (lim : N) (ty : text) (oid : bytes) (d : dict) (v : qualified) : Prop := {
  qp_type : mem_bytes ty (enum_values OBJECT_TYPES) = true;
  qp_len : length oid = 20%nat;
  qp_visit : opt_conv parse_core (dict_get K_visit d) = Ok (q_visit v);
  qp_anchor : opt_conv parse_core (dict_get K_anchor d) = Ok (q_anchor v);
  qp_path : opt_conv parse_path (dict_get K_path d) = Ok (q_path v);
  qp_lines : opt_conv (parse_lines lim) (dict_get K_lines d) = Ok (q_lines v);
  qp_visit_ty : forall c, q_visit v = Some c -> c_ty c = TY_SNAPSHOT;
  qp_anchor_ty : forall c, q_anchor v = Some c -> mem_bytes (c_ty c) ANCHOR_TYPES = true;
  qp_value : v = mkQ ty oid (dict_get K_origin d) (q_visit v) (q_anchor v) (q_path v) (q_lines v) }.

Lemma construct_q_inv : forall lim ty oid d v, construct_q parse_lines lim ty oid d = Ok v -> q_parts lim ty oid d v.
Proof.
  intros lim ty oid d v H. unfold construct_q in H.
  match type of H with context [existsb ?f d] => destruct (existsb f d); [discriminate|] end.
  destruct (mem_bytes ty (enum_values OBJECT_TYPES)) eqn:M; [|discriminate]. cbn [negb] in H.
  destruct (opt_conv parse_core (dict_get K_visit d)) as [vi|] eqn:E1; [|discriminate]. cbn [bind] in H.
  destruct (opt_conv parse_core (dict_get K_anchor d)) as [an|] eqn:E2; [|discriminate]. cbn [bind] in H.
  destruct (opt_conv parse_path (dict_get K_path d)) as [pa|] eqn:E3; [|discriminate]. cbn [bind] in H.
  destruct (opt_conv (parse_lines lim) (dict_get K_lines d)) as [li|] eqn:E4; [|discriminate]. cbn [bind] in H.
  unfold mk_q in H. rewrite M in H. cbn [negb] in H.
  destruct (Nat.eqb (length oid) 20) eqn:L; [|discriminate]. cbn [negb] in H.
  destruct (match vi with Some c => negb (beqb (c_ty c) TY_SNAPSHOT) | None => false end) eqn:V; [discriminate|].
  destruct (match an with Some c => negb (mem_bytes (c_ty c) ANCHOR_TYPES) | None => false end) eqn:A; [discriminate|].
  inversion H; subst v. cbn [q_visit q_anchor q_path q_lines]. apply Nat.eqb_eq in L.
  constructor; cbn [q_visit q_anchor q_path q_lines]; try assumption; try reflexivity.
  - intros c E. subst vi. apply negb_false_iff, beqb_eq in V. exact V.
  - intros c E. subst an. apply negb_false_iff in A. exact A.
Qed.

Lemma construct_q_build : forall lim ty oid d vi an pa li,
  existsb (fun kv : text * text => negb (mem_bytes (fst kv) FIELD_KEYS)) d = false ->
  mem_bytes ty (enum_values OBJECT_TYPES) = true -> length oid = 20%nat ->
  opt_conv parse_core (dict_get K_visit d) = Ok vi -> opt_conv parse_core (dict_get K_anchor d) = Ok an ->
  opt_conv parse_path (dict_get K_path d) = Ok pa -> opt_conv (parse_lines lim) (dict_get K_lines d) = Ok li ->
  (forall c, vi = Some c -> c_ty c = TY_SNAPSHOT) -> (forall c, an = Some c -> mem_bytes (c_ty c) ANCHOR_TYPES = true) ->
  construct_q parse_lines lim ty oid d = Ok (mkQ ty oid (dict_get K_origin d) vi an pa li).
Proof.
  intros lim ty oid d vi an pa li K M L E1 E2 E3 E4 V A. unfold construct_q.
  match goal with |- context [existsb ?f d] => replace (existsb f d) with false by (symmetry; exact K) end.
  rewrite M, E1, E2, E3, E4. cbn [negb bind]. unfold mk_q. rewrite M, L. cbn [negb Nat.eqb].
  replace (match vi with Some c => negb (beqb (c_ty c) TY_SNAPSHOT) | None => false end) with false
    by (destruct vi as [c|]; [rewrite (V c eq_refl), beqb_refl|]; reflexivity).
  replace (match an with Some c => negb (mem_bytes (c_ty c) ANCHOR_TYPES) | None => false end) with false
    by (destruct an as [c|]; [rewrite (A c eq_refl)|]; reflexivity).
  reflexivity.
Qed.

Lemma construct_q_okerr : forall lim ty oid d,
  existsb (fun kv : text * text => negb (mem_bytes (fst kv) FIELD_KEYS)) d = false ->
  okerr (construct_q parse_lines lim ty oid d).
Proof.
  intros lim ty oid d K. unfold construct_q.
  match goal with |- context [existsb ?f d] => replace (existsb f d) with false by (symmetry; exact K) end.
  destruct (negb (mem_bytes ty (enum_values OBJECT_TYPES))); [right; reflexivity|].
  apply okerr_bind; [apply opt_conv_okerr; intro t; apply strict_okerr, parse_simple_strict|]. intro vi.
  apply okerr_bind; [apply opt_conv_okerr; intro t; apply strict_okerr, parse_simple_strict|]. intro an.
  apply okerr_bind; [apply opt_conv_okerr, parse_path_okerr|]. intro pa.
  apply okerr_bind; [apply opt_conv_okerr; intro t; apply strict_okerr, parse_lines_strict|]. intro li.
  apply mk_q_okerr.
Qed.

(* keys accepted by from_string are keyword arguments of the constructor: no TypeError *)
Lemma known_keys_are_fields : forall d,
  existsb (fun kv : bytes * text => negb (mem_bytes (fst kv) SWHID_QUALIFIERS)) d = false ->
  existsb (fun kv : text * text => negb (mem_bytes (fst kv) FIELD_KEYS)) (unquote_origin d) = false.
Proof.
  intros d H. rewrite (keys_unquote_origin (fun k => negb (mem_bytes k FIELD_KEYS))) by reflexivity. cbv beta.
  rewrite <- H. clear H. induction d as [|[k v] d IH]; [reflexivity|].
  cbn [existsb fst]. rewrite IH, mem_qualifiers, tbl_field_keys. reflexivity.
Qed.

Theorem parse_q_strict : forall lim s, strict (parse_q lim s).
Proof.
  intros lim s. unfold parse_q, parse_q_gen. pose proof (parse_swhid_strict s) as P.
  destruct (parse_swhid s) as [[[ty oid] d]|e]; [|exact P]. cbn [bind].
  match goal with |- context [existsb ?f d] => destruct (existsb f d) eqn:K; [reflexivity|] end.
  apply strict_of_okerr, construct_q_okerr, known_keys_are_fields, K.
Qed.

(* ---------------------------------------------------------------- a successful parse, taken apart *)
Record q_parse (lim : N) (s : text) (v : qualified) (ty h : text) (q : option text) (oid : bytes) (d : dict) : Prop := {
  pq_re : match_swhid_re s = Some (ty, h, q);
  pq_hex : unhex h = Some oid;
  pq_quals : quals_of q d;
  pq_keys : existsb (fun kv : bytes * text => negb (mem_bytes (fst kv) SWHID_QUALIFIERS)) d = false;
  pq_parts : q_parts lim ty oid (unquote_origin d) v }.

Lemma parse_q_inv : forall lim s v, parse_q lim s = Ok v -> exists ty h q oid d, q_parse lim s v ty h q oid d.
Proof.
  intros lim s v H. unfold parse_q, parse_q_gen in H.
  destruct (parse_swhid s) as [[[ty oid] d]|e] eqn:P; [|discriminate]. cbn [bind] in H.
  match type of H with context [existsb ?f d] => destruct (existsb f d) eqn:K; [discriminate|] end. apply vev_ok, construct_q_inv in H.
  apply parse_swhid_inv in P. destruct P as [h [q [R [U Q]]]].
  exists ty, h, q, oid, d. constructor; assumption.
Qed.

Lemma dict_get_uo_other : forall d k, beqb K_origin k = false -> dict_get k (unquote_origin d) = dict_get k d.
Proof. intros d k H. rewrite dict_get_unquote_origin, H. reflexivity. Qed.

(* the parsed value can be printed back: it is well formed *)
Theorem parse_q_wf : forall lim s v, parse_q lim s = Ok v -> wf_q lim v.
Proof.
  intros lim s v H. apply parse_q_inv in H. destruct H as [ty [h [q [oid [d [R U Q K P]]]]]].
  apply match_swhid_re_inv in R. destruct R as [_ [_ [Hl [Hh _]]]].
  destruct (unhex40 h Hl Hh) as [b [U' [Lb Wb]]]. rewrite U in U'. inversion U'; subst b.
  destruct P as [M L E1 E2 E3 E4 V A EV]. rewrite EV. cbn [q_ty q_oid q_origin q_visit q_anchor q_path q_lines].
  unfold wf_q. cbn [q_ty q_oid q_origin q_visit q_anchor q_path q_lines].
  assert (T : forall t, mem_bytes t (enum_values OBJECT_TYPES) = true -> In t SWHID_TYPES).
  { intros t Ht. rewrite tbl_core_types. apply mem_bytes_In. rewrite <- mem_core_enum. exact Ht. }
  split; [apply T, M|]. split; [exact Lb|]. split; [exact Wb|].
  assert (C : forall o c, opt_conv parse_core o = Ok (Some c) -> wf_core c).
  { intros o c E. apply opt_conv_inv in E. destruct o as [t|]; [|discriminate].
    destruct E as [a [Ea Es]]. inversion Es; subst a. destruct (parse_simple_wf _ _ _ Ea) as [X1 [X2 X3]].
    repeat split; [apply T, X3 | exact X1 | exact X2]. }
  split. { intros c E. rewrite E in E1. split; [apply (C _ _ E1)|]. rewrite <- tbl_snapshot. apply V, E. }
  split. { intros c E. rewrite E in E2. split; [apply (C _ _ E2)|]. apply mem_bytes_In. rewrite <- tbl_anchor_types. apply A, E. }
  split. { intros p E. rewrite E in E3. apply opt_conv_inv in E3. destruct (dict_get K_path (unquote_origin d)) as [t|]; [|discriminate].
           destruct E3 as [a [Ea Es]]. inversion Es; subst a. unfold parse_path in Ea.
           destruct (unquote_to_bytes t) as [b|] eqn:Eb; [|discriminate]. inversion Ea; subst b. apply (unquote_to_bytes_wf _ _ Eb). }
  intros a b E. rewrite E in E4. apply opt_conv_inv in E4. destruct (dict_get K_lines (unquote_origin d)) as [t|]; [|discriminate].
  destruct E4 as [l [El Es]]. inversion Es; subst l. apply (parse_lines_wf _ _ _ _ El).
Qed.
