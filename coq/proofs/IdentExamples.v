(* Examples moved out of model/Ident.v so that the model (and its extraction) still builds when a
   regenerated table makes one of them false; they are part of the proof cone of the properties. *)
From Coq Require Import List NArith Bool.
From SWH.lib Require Import Bytes.
From SWH Require Import Generated.
Import ListNotations.
Open Scope N_scope.
From SWH.model Require Import Ident.

Example ex_built_without_id :
  construct toyH KDirectory (Some [1;2]) (Some None) []
  = Ok {| h_kind := KDirectory; h_attrs := Some [1;2]; h_raw := None; h_id := [2;1;2] |}.
Proof. vm_compute. reflexivity. Qed.

Example ex_raw_precedence :
  construct toyH KRevision (Some [1;2]) (Some (Some [9])) []
  = Ok {| h_kind := KRevision; h_attrs := Some [1;2]; h_raw := Some [9]; h_id := [1;9] |}.
Proof. vm_compute. reflexivity. Qed.

Example ex_raw_on_origin_refused : construct toyH KOrigin (Some [1]) (Some None) [] = Err TypeError.
Proof. vm_compute. reflexivity. Qed.
