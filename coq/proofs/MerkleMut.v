(* The mutating operations (__setitem__, __delitem__, update, with path keys)
   preserve the invariant.  Back-links are counted with multiplicity: a node
   may hold the same child under several names. *)
From Coq Require Import List NArith Bool Arith Lia.
From SWH.lib Require Import Bytes.
From SWH.model Require Import Merkle.
From SWH.proofs Require Import MerkleBase MerkleInv MerkleHash.
Import ListNotations.
Local Open Scope nat_scope.

Definition b2n (b : bool) : nat := if b then 1 else 0.

(* ---- the children dict *)
Lemma cnt_cons : forall c nm k K, cnt c ((nm, k) :: K) = b2n (Nat.eqb c k) + cnt c K.
Proof.
  intros. unfold cnt. simpl. destruct (Nat.eq_dec k c) as [->|N].
  - rewrite Nat.eqb_refl. reflexivity.
  - destruct (Nat.eqb_spec c k); [congruence|reflexivity].
Qed.

Lemma cnt_kset_none : forall name c K c', kget name K = None ->
  cnt c' (kset name c K) = cnt c' K + b2n (Nat.eqb c' c).
Proof.
  induction K as [|[k v] K IH]; intros c' H; simpl in *.
  - rewrite cnt_cons. unfold cnt. simpl. lia.
  - destruct (beqb name k); [discriminate|]. rewrite !cnt_cons, IH; auto. lia.
Qed.

Lemma cnt_kset_some : forall name c K old c', kget name K = Some old ->
  cnt c' (kset name c K) + b2n (Nat.eqb c' old) = cnt c' K + b2n (Nat.eqb c' c).
Proof.
  induction K as [|[k v] K IH]; intros old c' H; simpl in *; [discriminate|].
  destruct (beqb name k).
  - inversion H; subst. rewrite !cnt_cons. lia.
  - rewrite !cnt_cons. specialize (IH old c' H). lia.
Qed.

Lemma cnt_kdel : forall name K old c', kget name K = Some old ->
  cnt c' (kdel name K) + b2n (Nat.eqb c' old) = cnt c' K.
Proof.
  induction K as [|[k v] K IH]; intros old c' H; simpl in *; [discriminate|].
  destruct (beqb name k).
  - inversion H; subst. rewrite cnt_cons. lia.
  - rewrite !cnt_cons. specialize (IH old c' H). lia.
Qed.

Lemma kget_in : forall name K c, kget name K = Some c -> exists nm, In (nm, c) K.
Proof.
  induction K as [|[k v] K IH]; intros c H; simpl in *; [discriminate|].
  destruct (beqb name k).
  - inversion H; subst. exists k. auto.
  - destruct (IH c H) as [nm I]. exists nm. auto.
Qed.

Lemma kset_in : forall name c K nm k, In (nm, k) (kset name c K) -> k = c \/ In (nm, k) K.
Proof.
  induction K as [|[k0 v] K IH]; intros nm k H; simpl in *.
  - destruct H as [H|[]]. inversion H. auto.
  - destruct (beqb name k0); simpl in H.
    + destruct H as [H|H]; [inversion H; auto | auto].
    + destruct H as [H|H]; [auto|]. destruct (IH nm k H); auto.
Qed.

Lemma kdel_in : forall name K nm k, In (nm, k) (kdel name K) -> In (nm, k) K.
Proof.
  induction K as [|[k0 v] K IH]; intros nm k H; simpl in *; auto.
  destruct (beqb name k0); simpl in *; auto. destruct H; auto.
Qed.

Lemma kget_kset_other : forall name name' c K, name <> name' -> kget name (kset name' c K) = kget name K.
Proof.
  induction K as [|[k v] K IH]; intros N; simpl.
  - destruct (beqb name name') eqn:E; auto. apply beqb_eq in E. congruence.
  - destruct (beqb name' k) eqn:E'; simpl.
    + apply beqb_eq in E'. subst. destruct (beqb name k) eqn:E2; auto. apply beqb_eq in E2. congruence.
    + destruct (beqb name k); auto.
Qed.

(* ---- back-link counting, with the children of p replaced by a count function *)
Definition links (s : heap) : Prop :=
  forall q x c y, nth_error s q = Some x -> nth_error s c = Some y ->
    cnt c (kids x) <= count_occ Nat.eq_dec (parents y) q.
Definition links_fn (s : heap) (p : nat) (f : nat -> nat) : Prop :=
  forall q x c y, nth_error s q = Some x -> nth_error s c = Some y ->
    (if Nat.eqb q p then f c else cnt c (kids x)) <= count_occ Nat.eq_dec (parents y) q.

Lemma L_init : forall s p x, links s -> nth_error s p = Some x -> links_fn s p (fun c => cnt c (kids x)).
Proof.
  intros s p x L E q x' c y Eq Ec. destruct (Nat.eqb_spec q p) as [->|N]; [|eapply L; eauto].
  assert (x' = x) by congruence. subst. eapply L; eauto.
Qed.

Lemma L_final : forall s p x, nth_error s p = Some x -> links_fn s p (fun c => cnt c (kids x)) -> links s.
Proof.
  intros s p x E L q x' c y Eq Ec. specialize (L q x' c y Eq Ec).
  destruct (Nat.eqb_spec q p) as [->|N]; auto. assert (x' = x) by congruence. subst. exact L.
Qed.

Lemma L_mono : forall s p f g, links_fn s p f -> (forall c, g c <= f c) -> links_fn s p g.
Proof.
  intros s p f g L H q x c y Eq Ec. specialize (L q x c y Eq Ec). destruct (Nat.eqb q p); auto.
  specialize (H c). lia.
Qed.

Lemma L_setk : forall s p f K, links_fn s p f -> links_fn (upd p (set_kids K) s) p f.
Proof.
  intros s p f K L q x' c y' Eq Ec.
  rewrite nth_upd in Eq, Ec.
  assert (exists y, nth_error s c = Some y /\ parents y' = parents y) as (y & Ey & Py).
  { destruct (Nat.eqb c p); [|eauto]. destruct (nth_error s c) as [y|]; [|discriminate]. simpl in Ec.
    inversion Ec; subst. exists y. auto. }
  rewrite Py. destruct (Nat.eqb_spec q p) as [->|N].
  - destruct (nth_error s p) as [x|] eqn:Ex; [|discriminate]. specialize (L p x c y Ex Ey).
    rewrite Nat.eqb_refl in L. exact L.
  - specialize (L q x' c y Eq Ey). destruct (Nat.eqb_spec q p); [congruence|]. exact L.
Qed.

Lemma count_app_one : forall l (p q : nat),
  count_occ Nat.eq_dec (l ++ [p]) q = count_occ Nat.eq_dec l q + b2n (Nat.eqb q p).
Proof.
  intros. rewrite count_occ_app. simpl. destruct (Nat.eq_dec p q) as [->|N].
  - rewrite Nat.eqb_refl. reflexivity.
  - destruct (Nat.eqb_spec q p); [congruence|reflexivity].
Qed.

Lemma L_addp : forall s p f c y, links_fn s p f -> nth_error s c = Some y ->
  links_fn (upd c (set_parents (parents y ++ [p])) s) p (fun c' => f c' + b2n (Nat.eqb c' c)).
Proof.
  intros s p f c y L Ey q x' c' y' Eq Ec.
  assert (exists x, nth_error s q = Some x /\ kids x' = kids x) as (x & Ex & Kx).
  { rewrite nth_upd in Eq. destruct (Nat.eqb q c); [|eauto].
    destruct (nth_error s q) as [x|]; [|discriminate]. inversion Eq; subst. exists x. auto. }
  rewrite nth_upd in Ec. destruct (Nat.eqb_spec c' c) as [->|N].
  - rewrite Ey in Ec. simpl in Ec. inversion Ec; subst. simpl. rewrite count_app_one.
    specialize (L q x c y Ex Ey). rewrite Kx. destruct (Nat.eqb_spec q p); simpl; lia.
  - specialize (L q x c' y' Ex Ec). rewrite Kx. destruct (Nat.eqb q p); simpl; lia.
Qed.

Lemma remove_first_count : forall p l ps, remove_first (Nat.eqb p) l = Some ps ->
  forall q, count_occ Nat.eq_dec ps q + b2n (Nat.eqb q p) = count_occ Nat.eq_dec l q.
Proof.
  induction l as [|a l IH]; intros ps H q; simpl in *; [discriminate|].
  destruct (Nat.eqb_spec p a) as [->|N].
  - inversion H; subst. destruct (Nat.eq_dec a q) as [->|N'].
    + rewrite Nat.eqb_refl. simpl. lia.
    + destruct (Nat.eqb_spec q a); [congruence|]. simpl. lia.
  - destruct (remove_first (Nat.eqb p) l) as [r|] eqn:Er; [|discriminate]. inversion H; subst.
    specialize (IH r eq_refl q). simpl. destruct (Nat.eq_dec a q); lia.
Qed.

Lemma remove_first_some : forall p l, In p l -> exists ps, remove_first (Nat.eqb p) l = Some ps.
Proof.
  induction l as [|a l IH]; intros H; simpl in *; [contradiction|].
  destruct (Nat.eqb_spec p a); [eauto|]. destruct H as [H|H]; [congruence|].
  destruct (IH H) as [ps E]. rewrite E. eauto.
Qed.

Lemma remove_first_incl : forall t l ps, remove_first t l = Some ps -> incl ps l.
Proof.
  induction l as [|a l IH]; intros ps H; simpl in *; [discriminate|].
  destruct (t a).
  - inversion H; subst. apply incl_tl, incl_refl.
  - destruct (remove_first t l) as [r|]; [|discriminate]. inversion H; subst.
    intros z [->|Hz]; [left; auto | right; apply (IH r eq_refl); auto].
Qed.

Lemma L_remp : forall s p f old y ps, links_fn s p f -> nth_error s old = Some y ->
  remove_first (Nat.eqb p) (parents y) = Some ps ->
  links_fn (upd old (set_parents ps) s) p (fun c' => f c' - b2n (Nat.eqb c' old)).
Proof.
  intros s p f old y ps L Ey Rm q x' c' y' Eq Ec.
  assert (exists x, nth_error s q = Some x /\ kids x' = kids x) as (x & Ex & Kx).
  { rewrite nth_upd in Eq. destruct (Nat.eqb q old); [|eauto].
    destruct (nth_error s q) as [x|]; [|discriminate]. inversion Eq; subst. exists x. auto. }
  rewrite nth_upd in Ec. destruct (Nat.eqb_spec c' old) as [->|N].
  - rewrite Ey in Ec. simpl in Ec. inversion Ec; subst. simpl.
    pose proof (remove_first_count p _ _ Rm q) as Hc.
    specialize (L q x old y Ex Ey). rewrite Kx.
    destruct (Nat.eqb_spec q p); simpl in *; lia.
  - specialize (L q x c' y' Ex Ec). rewrite Kx. destruct (Nat.eqb q p); simpl; lia.
Qed.

(* ---- mutation frame: only the children of p and parent lists change *)
Definition nmut (x x' : node) : Prop :=
  kind x' = kind x /\ data x' = data x /\ cached x' = cached x /\ collected x' = collected x /\
  ecache x' = ecache x /\ mcache x' = mcache x.
Definition mut (p : nat) (s s' : heap) : Prop :=
  Forall2 nmut s s' /\
  forall m x x', m <> p -> nth_error s m = Some x -> nth_error s' m = Some x' -> kids x' = kids x.

Lemma nmut_refl : forall x, nmut x x.
Proof. intro. unfold nmut. auto 10. Qed.
Lemma nmut_trans : forall x y z, nmut x y -> nmut y z -> nmut x z.
Proof. unfold nmut. intros x y z H1 H2. intuition congruence. Qed.

Lemma mut_refl : forall p s, mut p s s.
Proof. intros. split; [apply F2_refl, nmut_refl|]. intros. congruence. Qed.

Lemma mut_trans : forall p a b c, mut p a b -> mut p b c -> mut p a c.
Proof.
  intros p a b c [F1 K1] [F2 K2]. split; [eapply F2_trans; eauto; apply nmut_trans|].
  intros m x x'' N E E''. destruct (F2_nth _ _ _ _ _ F1 E) as (x' & E' & _).
  rewrite (K2 m x' x'' N E' E''). eapply K1; eauto.
Qed.

Lemma mut_upd : forall p s n g, (forall x, nmut x (g x)) -> (n <> p -> forall x, kids (g x) = kids x) ->
  mut p s (upd n g s).
Proof.
  intros p s n g Hg Hk. split.
  - apply F2_upd; [apply nmut_refl|]. intros; apply Hg.
  - intros m x x' N E E'. rewrite nth_upd in E'. destruct (Nat.eqb_spec m n) as [->|Nm].
    + rewrite E in E'. simpl in E'. inversion E'; subst. apply Hk. exact N.
    + congruence.
Qed.

Definition wfk (s : heap) : Prop :=
  forall n x nm k, nth_error s n = Some x -> In (nm, k) (kids x) -> k < length s.

Section WithNH.
Variable NH : bytes -> list entry -> bytes.
Notation Inv0 := (Inv0 NH).
Notation Inv := (Inv NH).

Lemma links_Inv0 : forall s, Inv0 s -> links s.
Proof. intros s I q x c y. apply (I2 NH s I). Qed.

Lemma Inv0_mut : forall s s' p, Inv0 s -> cleared s p -> mut p s s' -> wfk s' -> wfp s' -> links s' -> Inv0 s'.
Proof.
  intros s s' p I (z & Ez & Hz & Cez & Cmz) [HM HK] Wk Wp Lk.
  assert (HA : forall k, hashed_at s k -> hashed_at s' k).
  { intros k (y & Ey & Hy). destruct (F2_nth _ _ _ _ _ HM Ey) as (y' & Ey' & (_ & _ & C & _)).
    exists y'. split; auto. rewrite (hashed_cached _ _ C). exact Hy. }
  destruct (Fresh_frame NH s s' (hashed_at s)) as [FR FKR].
  { intros m x (y & Ey & Hy) E. assert (y = x) by congruence. subst.
    assert (Nm : m <> p) by (intro; subst; congruence).
    destruct (F2_nth _ _ _ _ _ HM E) as (x' & E' & (_ & D & _)).
    exists x'. split; auto. split; auto. split; [eapply HK; eauto|].
    destruct (I1 NH s I m x E Hy) as (h & _ & _ & K). exact K. }
  split; auto.
  - intros n x' E' H'. destruct (F2_nth_r _ _ _ _ _ HM E') as (x & E & (_ & _ & C & _)).
    assert (Hx : hashed x = true) by (rewrite <- (hashed_cached _ _ C); exact H').
    assert (Nm : n <> p) by (intro; subst; congruence).
    destruct (I1 NH s I n x E Hx) as (h & Ch & F & K). exists h. split; [congruence|]. split.
    + apply FR; auto. exists x. auto.
    + rewrite (HK n x x' Nm E E'). intros nm k Hin. apply HA. eapply K; eauto.
  - intros n x' es E' M'. destruct (F2_nth_r _ _ _ _ _ HM E') as (x & E & (_ & _ & _ & _ & _ & M)).
    rewrite M in M'. assert (Nm : n <> p) by (intro; subst; congruence).
    destruct (I3m NH s I n x es E M') as [F K]. rewrite (HK n x x' Nm E E'). split.
    + apply FKR; auto.
    + intros nm k Hin. apply HA. eapply K; eauto.
  - intros n x' es E' M'. destruct (F2_nth_r _ _ _ _ _ HM E') as (x & E & (_ & _ & _ & _ & M & _)).
    rewrite M in M'. assert (Nm : n <> p) by (intro; subst; congruence).
    destruct (I3e NH s I n x es E M') as [F K]. rewrite (HK n x x' Nm E E'). split.
    + apply FKR; auto.
    + intros nm k Hin. apply HA. eapply K; eauto.
Qed.

Lemma I4s_mut : forall s s' p, I4s s -> mut p s s' -> I4s s'.
Proof.
  intros s s' p I [HM _] n x' E' C'. destruct (F2_nth_r _ _ _ _ _ HM E') as (x & E & (_ & _ & C & Cl & _)).
  rewrite (hashed_cached _ _ C). eapply I; eauto; congruence.
Qed.

End WithNH.

(* ---- well-formedness of handles under local updates *)
Lemma upd_ext : forall s n (g g' : node -> node) x, nth_error s n = Some x -> g x = g' x -> upd n g s = upd n g' s.
Proof.
  induction s as [|a s IH]; intros [|n] g g' x E H; simpl in *; try discriminate.
  - inversion E; subst. rewrite H. reflexivity.
  - f_equal. eapply IH; eauto.
Qed.

Lemma wfk_upd : forall s n g, wfk s ->
  (forall x nm k, nth_error s n = Some x -> In (nm, k) (kids (g x)) -> k < length s) -> wfk (upd n g s).
Proof.
  intros s n g W H m x' nm k E Hin. rewrite upd_length. rewrite nth_upd in E.
  destruct (Nat.eqb_spec m n) as [->|N]; [|eapply W; eauto].
  destruct (nth_error s n) as [x|] eqn:Ex; [|discriminate]. inversion E; subst. eapply H; eauto.
Qed.

Lemma wfp_upd : forall s n g, wfp s ->
  (forall x q, nth_error s n = Some x -> In q (parents (g x)) -> q < length s) -> wfp (upd n g s).
Proof.
  intros s n g W H m x' E q Hin. rewrite upd_length. rewrite nth_upd in E.
  destruct (Nat.eqb_spec m n) as [->|N]; [|eapply W; eauto].
  destruct (nth_error s n) as [x|] eqn:Ex; [|discriminate]. inversion E; subst. eapply H; eauto.
Qed.

Lemma inval_some_lt : forall n s s', inval n s = Ok s' -> n < length s.
Proof.
  intros n s s' H. unfold inval in H. simpl in H. unfold get in H.
  destruct (nth_error s n) eqn:E; [eapply nth_lt; eauto | discriminate].
Qed.

(* the effect of a mutating operation: an invalidation followed by a change
   of the children of one (invalidated) node t and of parent lists *)
Definition stepm (s s' : heap) : Prop := exists s1 t, RR s s1 /\ mut t s1 s'.

Lemma stepm_refl : forall s, stepm s s.
Proof. intro s. exists s, 0. split; [apply RR_refl | apply mut_refl]. Qed.

Section Ops.
Variable NH : bytes -> list entry -> bytes.
Notation Inv0 := (Inv0 NH).
Notation Inv := (Inv NH).

Lemma Inv_stepm_parts : forall s s1 s' t, Inv s -> RR s s1 -> cleared s1 t -> mut t s1 s' ->
  wfk s' -> wfp s' -> links s' -> Inv s'.
Proof.
  intros s s1 s' t [I0 I4] HRR C M Wk Wp L. split.
  - apply (Inv0_mut NH s1 s' t); auto. apply (Inv0_RR NH s s1); auto.
  - apply (I4s_mut s1 s' t); auto. apply (I4s_R s s1); auto. apply HRR.
Qed.

Lemma raw_setitem_ok : forall s t key c s', Inv s -> raw_setitem s t key c = Ok s' ->
  Inv s' /\ stepm s s'.
Proof.
  intros s t key c s' I H. unfold raw_setitem in H.
  destruct (get s c) as [y|] eqn:Gc; [|discriminate]. simpl in H. apply get_Ok in Gc.
  destruct (inval t s) as [s1|] eqn:E1; [|discriminate]. simpl in H.
  pose proof (inval_some_lt _ _ _ E1) as Lt.
  destruct (inval_ok t s (I_wfp NH s (proj1 I)) Lt) as (s1' & E1' & RR1 & C1). rewrite E1 in E1'. inversion E1'; subst s1'.
  pose proof (Inv0_RR NH _ _ (proj1 I) RR1) as I1'.
  pose proof (R_shape _ _ (proj1 RR1)) as Sh1. pose proof (F2_len _ _ _ Sh1) as Len1.
  destruct C1 as (x1 & Ex1 & C1). 
  set (K1 := kset key c (kids x1)).
  assert (EQ2 : upd t (fun x => set_kids (kset key c (kids x)) x) s1 = upd t (set_kids K1) s1)
    by (eapply upd_ext; eauto).
  rewrite EQ2 in H. set (s2 := upd t (set_kids K1) s1) in *.
  unfold add_parent in H. destruct (get s2 c) as [y2|] eqn:G2; [|discriminate]. simpl in H. apply get_Ok in G2.
  inversion H; subst s'. clear H.
  assert (Lc : c < length s) by (eapply nth_lt; eauto).
  assert (M2 : mut t s1 s2).
  { apply mut_upd; [intro; unfold nmut; simpl; repeat split; reflexivity | intros; try congruence; reflexivity]. }
  assert (M3 : mut t s2 (upd c (set_parents (parents y2 ++ [t])) s2)).
  { apply mut_upd; [intro; unfold nmut; simpl; repeat split; reflexivity | intros; reflexivity]. }
  assert (Wk2 : wfk s2).
  { apply wfk_upd; [intros n x nm k; apply (I_wfk NH s1 I1')|].
    intros x nm k Ex Hin. simpl in Hin. unfold K1 in Hin. apply kset_in in Hin. destruct Hin as [->|Hin]; [lia|].
    eapply (I_wfk NH s1 I1' t x1); eauto. }
  assert (Wp2 : wfp s2).
  { apply wfp_upd; [apply (I_wfp NH s1 I1')|]. intros x q Ex Hin. simpl in Hin. eapply (I_wfp NH s1 I1'); eauto. }
  assert (Len2 : length s2 = length s1) by (unfold s2; apply upd_length).
  split; [|exists s1, t; split; auto; eapply mut_trans; eauto].
  eapply (Inv_stepm_parts s s1 _ t); eauto.
  - exists x1. auto.
  - eapply mut_trans; eauto.
  - apply wfk_upd; auto. intros x nm k Ex Hin. simpl in Hin. eapply Wk2; eauto.
  - apply wfp_upd; auto. intros x q Ex Hin. simpl in Hin. assert (x = y2) by congruence. subst.
    apply in_app_iff in Hin. destruct Hin as [Hin|[<-|[]]]; [eapply Wp2; eauto | lia].
  - assert (E3 : exists x3, nth_error (upd c (set_parents (parents y2 ++ [t])) s2) t = Some x3 /\ kids x3 = K1).
    { rewrite nth_upd. unfold s2. rewrite nth_upd_same, Ex1. simpl.
      destruct (Nat.eqb t c); simpl; eexists; split; reflexivity. }
    destruct E3 as (x3 & E3 & K3).
    apply (L_final _ t x3 E3). rewrite K3.
    pose proof (L_init s1 t x1 (links_Inv0 NH s1 I1') Ex1) as La.
    pose proof (L_setk s1 t _ K1 La) as Lb. fold s2 in Lb.
    pose proof (L_addp s2 t _ c y2 Lb G2) as Lc'.
    eapply L_mono; [exact Lc'|].
    intro c'. simpl. unfold K1. destruct (kget key (kids x1)) as [old|] eqn:Kg.
    + pose proof (cnt_kset_some key c (kids x1) old c' Kg). lia.
    + rewrite (cnt_kset_none key c (kids x1) c' Kg). lia.
Qed.

Lemma raw_delitem_ok : forall s t name s' e, Inv s -> no_empty_name s -> raw_delitem true s t name = (s', e) ->
  Inv s' /\ stepm s s' /\ (forall e0, e = Some e0 -> s' = s).
Proof.
  intros s t name s' e I NE H. unfold raw_delitem in H.
  assert (TRIV : (s', e) = (s', e) -> s' = s -> Inv s' /\ stepm s s' /\ (forall e0, e = Some e0 -> s' = s))
    by (intros _ ->; split; [auto | split; [apply stepm_refl | auto]]).
  destruct (get s t) as [x|] eqn:Gt; [|inversion H; subst; auto]. apply get_Ok in Gt.
  destruct (kget name (kids x)) as [c|] eqn:Kg; [|inversion H; subst; auto].
  assert (SL : self_lookup x t name c = c).
  { unfold self_lookup. destruct (kind x) eqn:Kx; auto. destruct name; auto. rewrite (NE t x Gt Kx) in Kg. discriminate. }
  rewrite SL in H.
  destruct (inval t s) as [s1|] eqn:E1; [|inversion H; subst; auto].
  pose proof (inval_some_lt _ _ _ E1) as Lt.
  destruct (inval_ok t s (I_wfp NH s (proj1 I)) Lt) as (s1' & E1' & RR1 & C1). rewrite E1 in E1'. inversion E1'; subst s1'.
  pose proof (Inv_RR NH _ _ I RR1) as I1f. pose proof (proj1 I1f) as I1'.
  pose proof (R_shape _ _ (proj1 RR1)) as Sh1. pose proof (F2_len _ _ _ Sh1) as Len1.
  destruct (F2_nth _ _ _ _ _ Sh1 Gt) as (x1 & Ex1 & (_ & _ & Kx1 & _)).
  unfold remove_parent in H. destruct (kget_in _ _ _ Kg) as [nm Hin].
  assert (Lc : c < length s1) by (rewrite <- Len1; eapply (I_wfk NH s (proj1 I)); eauto).
  destruct (get_lt s1 c Lc) as [y Ey]. unfold get in H. rewrite Ey in H. simpl in H.
  assert (Ip : In t (parents y)) by (eapply (I2_in NH s1 I1' t x1 nm c y); eauto; rewrite Kx1; auto).
  destruct (remove_first_some t (parents y) Ip) as [ps Rm]. rewrite Rm in H. inversion H; subst s' e. clear H.
  set (s2 := upd c (set_parents ps) s1).
  set (K1 := kdel name (kids x1)).
  assert (Ex2 : exists x2, nth_error s2 t = Some x2 /\ kids x2 = kids x1).
  { unfold s2. rewrite nth_upd. destruct (Nat.eqb t c); rewrite Ex1; simpl; eexists; split; reflexivity. }
  destruct Ex2 as (x2 & Ex2 & Kx2).
  assert (EQ3 : upd t (fun x => set_kids (kdel name (kids x)) x) s2 = upd t (set_kids K1) s2).
  { eapply upd_ext; eauto. unfold K1. rewrite Kx2. reflexivity. }
  rewrite EQ3.
  assert (M2 : mut t s1 s2).
  { apply mut_upd; [intro; unfold nmut; simpl; repeat split; reflexivity | intros; reflexivity]. }
  assert (M3 : mut t s2 (upd t (set_kids K1) s2)).
  { apply mut_upd; [intro; unfold nmut; simpl; repeat split; reflexivity | intros; try congruence; reflexivity]. }
  assert (Wk2 : wfk s2).
  { apply wfk_upd; [intros n z nm' k; apply (I_wfk NH s1 I1')|]. intros z nm' k Ez Hk. simpl in Hk. eapply (I_wfk NH s1 I1'); eauto. }
  assert (Wp2 : wfp s2).
  { apply wfp_upd; [apply (I_wfp NH s1 I1')|]. intros z q Ez Hq. simpl in Hq. assert (z = y) by congruence. subst.
    eapply (I_wfp NH s1 I1'); eauto. eapply remove_first_incl; eauto. }
  split; [|split; [exists s1, t; split; auto; eapply mut_trans; eauto | discriminate]].
  eapply (Inv_stepm_parts s s1 _ t); eauto.
  - eapply mut_trans; eauto.
  - apply wfk_upd; auto. intros z nm' k Ez Hk. simpl in Hk. unfold K1 in Hk. apply kdel_in in Hk.
    unfold s2. rewrite upd_length. eapply (I_wfk NH s1 I1' t x1); eauto.
  - apply wfp_upd; auto. intros z q Ez Hq. simpl in Hq. eapply Wp2; eauto.
  - assert (E3 : exists x3, nth_error (upd t (set_kids K1) s2) t = Some x3 /\ kids x3 = K1).
    { rewrite nth_upd_same, Ex2. simpl. eexists; split; reflexivity. }
    destruct E3 as (x3 & E3 & K3). apply (L_final _ t x3 E3). rewrite K3. apply L_setk.
    pose proof (L_init s1 t x1 (links_Inv0 NH s1 I1') Ex1) as La.
    pose proof (L_remp s1 t _ c y ps La Ey Rm) as Lb. fold s2 in Lb.
    eapply L_mono; [exact Lb|].
    intro c'. simpl. unfold K1. rewrite Kx1 in *. pose proof (cnt_kdel name (kids x) c c' Kg). lia.
Qed.

End Ops.

(* ---- plain names: the path-key variants behave like the plain dict *)
Lemma split1_plain : forall key, plain key -> split1 key = (key, None).
Proof. intros key [_ H]. unfold split1. apply cut_none. exact H. Qed.

Lemma contains_plain : forall s p x name, nth_error s p = Some x -> plain name ->
  contains_ s p name = Ok (kmem name (kids x)).
Proof.
  intros s p x name E P. unfold contains_. simpl. unfold get. rewrite E. simpl.
  rewrite (split1_plain name P). destruct (kind x); reflexivity.
Qed.

Lemma getitem_plain : forall s p x name, nth_error s p = Some x -> kind x = KNode \/ kind x = KDir ->
  plain name ->
  getitem_ s p name = match kget name (kids x) with Some c => Ok c | None => Err EKey end.
Proof.
  intros s p x name E Kd P. unfold getitem_. simpl. unfold get. rewrite E. simpl.
  rewrite (split1_plain name P). destruct P as [Ne _]. destruct Kd as [-> | ->]; auto.
  destruct name; [congruence | reflexivity].
Qed.

Definition fold_kset (l : list (bytes * nat)) (K : list (bytes * nat)) :=
  fold_left (fun ks nc => kset (fst nc) (snd nc) ks) l K.

Lemma update_links_ok : forall p K0 l s K,
  wfk s -> wfp s -> p < length s ->
  (exists x, nth_error s p = Some x /\ kids x = K0 /\ (kind x = KNode \/ kind x = KDir)) ->
  links_fn s p (fun c => cnt c K) ->
  NoDup (map fst l) ->
  (forall nm c, In (nm, c) l -> plain nm /\ c < length s /\ kget nm K = kget nm K0) ->
  (forall nm c, In (nm, c) K -> c < length s) ->
  exists s', update_links true s p l = (s', None) /\ mut p s s' /\ wfk s' /\ wfp s' /\
    (exists x', nth_error s' p = Some x' /\ kids x' = K0) /\
    links_fn s' p (fun c => cnt c (fold_kset l K)) /\
    (forall nm c, In (nm, c) (fold_kset l K) -> c < length s').
Proof.
  intros p K0. induction l as [|[name c] l IH]; intros s K Wk Wp Lp (x & Ex & Kx & Kd) L ND HL HK; simpl.
  - exists s. split; auto. split; [apply mut_refl|]. split; auto. split; auto. split; eauto.
  - destruct (HL name c (or_introl eq_refl)) as (Pn & Lc & Kg).
    destruct (get_lt s c Lc) as [y Ey]. unfold add_parent, get. rewrite Ey. simpl.
    set (s1 := upd c (set_parents (parents y ++ [p])) s).
    assert (Len1 : length s1 = length s) by (unfold s1; apply upd_length).
    assert (Ex1 : exists x1, nth_error s1 p = Some x1 /\ kids x1 = K0 /\ (kind x1 = KNode \/ kind x1 = KDir)).
    { unfold s1. rewrite nth_upd. destruct (Nat.eqb p c); rewrite Ex; simpl; eexists; (split; [reflexivity|]); simpl; auto. }
    destruct Ex1 as (x1 & Ex1 & Kx1 & Kd1).
    assert (M1 : mut p s s1).
    { apply mut_upd; [intro; unfold nmut; simpl; repeat split; reflexivity | intros; reflexivity]. }
    assert (Wk1 : wfk s1).
    { apply wfk_upd; auto. intros z nm k Ez Hk. simpl in Hk. eapply Wk; eauto. }
    assert (Wp1 : wfp s1).
    { apply wfp_upd; auto. intros z q Ez Hq. simpl in Hq. assert (z = y) by congruence. subst.
      apply in_app_iff in Hq. destruct Hq as [Hq|[<-|[]]]; [eapply Wp; eauto | lia]. }
    pose proof (L_addp s p _ c y L Ey) as L1. fold s1 in L1.
    simpl in ND. apply NoDup_cons_iff in ND. destruct ND as [Nin ND'].
    assert (HL' : forall K', (forall nm, nm <> name -> kget nm K' = kget nm K) ->
               forall nm c0, In (nm, c0) l -> plain nm /\ c0 < length s1 /\ kget nm K' = kget nm K0).
    { intros K' HK' nm c0 Hin. destruct (HL nm c0 (or_intror Hin)) as (A & B & C).
      split; auto. split; [lia|]. rewrite HK'; auto. intro; subst. apply Nin. apply in_map_iff. exists (name, c0). auto. }
    assert (HKS : forall nm c0, In (nm, c0) (kset name c K) -> c0 < length s1).
    { intros nm c0 Hin. apply kset_in in Hin. destruct Hin as [->|Hin]; [lia|]. rewrite Len1. eapply HK; eauto. }
    rewrite (contains_plain s1 p x1 name Ex1 Pn). rewrite Kx1. unfold kmem. rewrite <- Kg.
    destruct (kget name K) as [old|] eqn:KgK.
    + rewrite (getitem_plain s1 p x1 name Ex1 Kd1 Pn). rewrite Kx1, <- Kg. simpl.
      destruct (kget_in _ _ _ KgK) as [nm0 Hin0].
      assert (Lo : old < length s1) by (rewrite Len1; eapply HK; eauto).
      destruct (get_lt s1 old Lo) as [yo Eyo]. unfold remove_parent, get. rewrite Eyo. simpl.
      assert (Ip : In p (parents yo)).
      { pose proof (L1 p x1 old yo Ex1 Eyo) as Hc. rewrite Nat.eqb_refl in Hc.
        pose proof (cnt_in _ _ _ Hin0). apply (count_occ_In Nat.eq_dec). lia. }
      destruct (remove_first_some p (parents yo) Ip) as [ps Rm]. rewrite Rm.
      set (s2 := upd old (set_parents ps) s1).
      assert (Len2 : length s2 = length s) by (unfold s2; rewrite upd_length; auto).
      pose proof (L_remp s1 p _ old yo ps L1 Eyo Rm) as L2. fold s2 in L2.
      assert (M2 : mut p s1 s2).
      { apply mut_upd; [intro; unfold nmut; simpl; repeat split; reflexivity | intros; reflexivity]. }
      destruct (IH s2 (kset name c K)) as (s' & E' & M' & Wk' & Wp' & Ex' & L' & HK').
      * apply wfk_upd; auto. intros z nm k Ez Hk. simpl in Hk. eapply Wk1; eauto.
      * apply wfp_upd; auto. intros z q Ez Hq. simpl in Hq. assert (z = yo) by congruence. subst.
        eapply Wp1; eauto. eapply remove_first_incl; eauto.
      * lia.
      * unfold s2. rewrite nth_upd. destruct (Nat.eqb p old); rewrite Ex1; simpl; eexists; (split; [reflexivity|]); simpl; auto.
      * eapply L_mono; [exact L2|]. intro c'. simpl.
        pose proof (cnt_kset_some name c K old c' KgK). lia.
      * exact ND'.
      * intros nm c0 Hin. destruct (HL' (kset name c K)) with (nm := nm) (c0 := c0) as (A & B & C); auto.
        { intros nm' Nn. apply kget_kset_other. exact Nn. }
        split; auto. split; [lia | auto].
      * intros nm c0 Hin. rewrite Len2, <- Len1. eapply HKS; eauto.
      * exists s'. split; auto. split; [eapply mut_trans; [exact M1|]; eapply mut_trans; eauto|]. auto.
    + destruct (IH s1 (kset name c K)) as (s' & E' & M' & Wk' & Wp' & Ex' & L' & HK'); auto.
      * lia.
      * eauto.
      * eapply L_mono; [exact L1|]. intro c'. simpl. rewrite (cnt_kset_none name c K c' KgK). lia.
      * intros nm c0 Hin. apply (HL' (kset name c K)); auto. intros nm' Nn. apply kget_kset_other. exact Nn.
      * exists s'. split; auto. split; [eapply mut_trans; eauto|]. auto.
Qed.

Section Ops2.
Variable NH : bytes -> list entry -> bytes.
Notation Inv0 := (Inv0 NH).
Notation Inv := (Inv NH).

Lemma update_many_ok : forall s p l s' e, Inv s ->
  NoDup (map fst l) -> (forall nm c, In (nm, c) l -> plain nm /\ c < length s) ->
  update_many true s p l = (s', e) -> Inv s' /\ stepm s s' /\ (forall e0, e = Some e0 -> s' = s).
Proof.
  intros s p l s' e I ND HL H. unfold update_many in H.
  assert (TRIV : s' = s -> Inv s' /\ stepm s s' /\ (forall e0, e = Some e0 -> s' = s))
    by (intros ->; split; [auto | split; [apply stepm_refl | auto]]).
  destruct (get s p) as [x|] eqn:Gp; [|inversion H; subst; auto]. apply get_Ok in Gp.
  assert (KD : kind x = KNode \/ kind x = KDir -> (Inv s' /\ stepm s s' /\ (forall e0, e = Some e0 -> s' = s)) \/
     (match l with [] => (s, None) | _ :: _ =>
        match inval p s with
        | Ok s1 => let (s2, o) := update_links true s1 p l in
            match o with Some e0 => (s2, Some e0)
            | None => (upd p (fun x0 => set_kids (fold_left (fun ks nc => kset (fst nc) (snd nc) ks) l (kids x0)) x0) s2, None) end
        | Err e0 => (s, Some e0) end end) = (s', e) -> Inv s' /\ stepm s s' /\ (forall e0, e = Some e0 -> s' = s)).
  { intros Kd [Done|H']; auto. clear H.
    destruct l as [|it l0]; [inversion H'; subst; auto|]. remember (it :: l0) as l.
    pose proof (nth_lt _ _ _ Gp) as Lp.
    destruct (inval_ok p s (I_wfp NH s (proj1 I)) Lp) as (s1 & E1 & RR1 & C1). rewrite E1 in H'.
    pose proof (Inv_RR NH _ _ I RR1) as I1f. pose proof (proj1 I1f) as I1'.
    pose proof (R_shape _ _ (proj1 RR1)) as Sh1. pose proof (F2_len _ _ _ Sh1) as Len1.
    destruct (F2_nth _ _ _ _ _ Sh1 Gp) as (x1 & Ex1 & (Kdx1 & _ & Kx1 & _)).
    destruct (update_links_ok p (kids x1) l s1 (kids x1)) as (s2 & E2 & M2 & Wk2 & Wp2 & (x2 & Ex2 & Kx2) & L2 & HK2).
    - intros n z nm k. apply (I_wfk NH s1 I1').
    - apply (I_wfp NH s1 I1').
    - lia.
    - exists x1. split; auto. split; auto. rewrite Kdx1. exact Kd.
    - apply L_init; auto. apply (links_Inv0 NH). auto.
    - exact ND.
    - intros nm c Hin. destruct (HL nm c Hin). split; auto. split; [lia | reflexivity].
    - intros nm c Hin. eapply (I_wfk NH s1 I1'); eauto.
    - rewrite E2 in H'. inversion H'; subst s' e. clear H'.
      set (Kf := fold_kset l (kids x1)) in *.
      assert (EQ : upd p (fun x0 => set_kids (fold_left (fun ks nc => kset (fst nc) (snd nc) ks) l (kids x0)) x0) s2
                   = upd p (set_kids Kf) s2).
      { eapply upd_ext; eauto. rewrite Kx2. reflexivity. }
      rewrite EQ.
      assert (M3 : mut p s2 (upd p (set_kids Kf) s2)).
      { apply mut_upd; [intro; unfold nmut; simpl; repeat split; reflexivity | congruence]. }
      split; [|split; [exists s1, p; split; auto; eapply mut_trans; eauto | discriminate]].
      eapply (Inv_stepm_parts NH s s1 _ p); eauto.
      + eapply mut_trans; eauto.
      + apply wfk_upd; auto. intros z nm k Ez Hk. simpl in Hk. eapply HK2; eauto.
      + apply wfp_upd; auto. intros z q Ez Hq. simpl in Hq. eapply Wp2; eauto.
      + assert (E3 : exists x3, nth_error (upd p (set_kids Kf) s2) p = Some x3 /\ kids x3 = Kf).
        { rewrite nth_upd_same, Ex2. simpl. eexists; split; reflexivity. }
        destruct E3 as (x3 & E3 & K3). apply (L_final _ p x3 E3). rewrite K3. apply L_setk. exact L2. }
  destruct (kind x); try (inversion H; subst; auto; fail); apply KD; auto.
Qed.

Lemma setitem_ok : forall s p key c s', Inv s -> setitem s p key c = Ok s' -> Inv s' /\ stepm s s'.
Proof.
  intros s p key c s' I H. unfold setitem in H.
  destruct (get s p) as [x|]; [|discriminate]. simpl in H.
  destruct (kind x); try discriminate; try (eapply raw_setitem_ok; eauto; fail).
  destruct (dir_value_checks s key c); [|discriminate]. simpl in H.
  destruct (rsplit1 key) as [k1 [k2|]]; try (eapply raw_setitem_ok; eauto; fail).
  destruct (getitem_ s p k1) as [t|]; [|discriminate]. simpl in H.
  destruct (get s t) as [y|]; [|discriminate]. simpl in H.
  destruct (kind y); try discriminate; try (eapply raw_setitem_ok; eauto; fail).
  destruct (dir_value_checks s k2 c); [|discriminate]. simpl in H. eapply raw_setitem_ok; eauto.
Qed.

Lemma delitem_ok : forall s p key s' e, Inv s -> no_empty_name s -> delitem true s p key = (s', e) ->
  Inv s' /\ stepm s s' /\ (forall e0, e = Some e0 -> s' = s).
Proof.
  intros s p key s' e I NE H. unfold delitem in H.
  assert (TRIV : s' = s -> Inv s' /\ stepm s s' /\ (forall e0, e = Some e0 -> s' = s))
    by (intros ->; split; [auto | split; [apply stepm_refl | auto]]).
  destruct (get s p) as [x|]; [|inversion H; subst; auto].
  destruct (kind x); try (inversion H; subst; auto; fail); try (eapply raw_delitem_ok; eauto; fail).
  destruct (rsplit1 key) as [k1 [k2|]]; try (eapply raw_delitem_ok; eauto; fail).
  destruct (getitem_ s p k1) as [t|]; [|inversion H; subst; auto]. simpl in H.
  destruct (get s t) as [y|]; [|inversion H; subst; auto]. simpl in H.
  destruct (kind y); try (inversion H; subst; auto; fail); eapply raw_delitem_ok; eauto.
Qed.

End Ops2.
