(* Proofs about model/Codec.v (property C12), part 3: decoding never modifies
   the caller's dictionary, the legacy encodings, the mutants of the two
   repaired defects, the schema cross-check and satisfiability. *)
From Coq Require Import List NArith ZArith Bool Lia.
From SWH.lib Require Import Bytes Dec Hex.
From SWH Require Import Generated.
From SWH.model Require Import Codec.
From SWH.proofs Require Import CodecProofs CodecRoundtrip.
Import ListNotations.

(* ------------------------------------------------------------------ judgments on dict-command programs *)
Section Commands.
  Variable idf : cls -> fields -> result bytes.

  (* read-only: the state is returned as it was *)
  Definition ro {A} (m : M A) : Prop := forall s, snd (m s) = s.
  (* started on a copy, the program stays on a copy and leaves the caller's dictionary alone *)
  Definition safe {A} (m : M A) : Prop :=
    forall s, aliased s = false -> aliased (snd (m s)) = false /\ caller (snd (m s)) = caller s.
  (* whatever the state, the caller's dictionary is left alone *)
  Definition good {A} (m : M A) : Prop := forall s, caller (snd (m s)) = caller s.

  Lemma ro_good : forall A (m : M A), ro m -> good m.
  Proof. intros A m H s. rewrite H. reflexivity. Qed.
  Lemma ro_safe : forall A (m : M A), ro m -> safe m.
  Proof. intros A m H s Hs. rewrite H. auto. Qed.

  Lemma good_bind : forall A B (m : M A) (f : A -> M B), good m -> (forall a, good (f a)) -> good (bind m f).
  Proof.
    intros A B m f Hm Hf s. unfold bind. specialize (Hm s). destruct (m s) as [[a|e] s']; simpl in *.
    - rewrite Hf. exact Hm.
    - exact Hm.
  Qed.

  Lemma safe_bind : forall A B (m : M A) (f : A -> M B), safe m -> (forall a, safe (f a)) -> safe (bind m f).
  Proof.
    intros A B m f Hm Hf s Hs. unfold bind. specialize (Hm s Hs). destruct (m s) as [[a|e] s']; simpl in *.
    - destruct Hm as [Ha Hc]. destruct (Hf a s' Ha) as [Ha' Hc']. split; [exact Ha' | congruence].
    - exact Hm.
  Qed.

  (* d = d.copy() first: whatever follows only has to be safe *)
  Lemma good_copy : forall B (f : unit -> M B), safe (f tt) -> good (bind copy f).
  Proof.
    intros B f Hf s. unfold bind, copy. destruct (Hf (mkDvar (cur s) (caller s) false) eq_refl) as [_ Hc]. exact Hc.
  Qed.

  Lemma ro_ret : forall A (a : A), ro (ret a). Proof. intros A a s. reflexivity. Qed.
  Lemma ro_fail : forall A e, ro (@fail A e). Proof. intros A e s. reflexivity. Qed.
  Lemma ro_lift : forall A (r : result A), ro (lift r). Proof. intros A r s. reflexivity. Qed.
  Lemma ro_get_opt : forall k, ro (get_opt k). Proof. intros k s. reflexivity. Qed.
  Lemma ro_get_req : forall k, ro (get_req k). Proof. intros k s. reflexivity. Qed.
  Lemma ro_construct_d : forall c, ro (construct_d idf c). Proof. intros c s. reflexivity. Qed.
  Lemma ro_construct_with : forall c x, ro (construct_with idf c x). Proof. intros c x s. reflexivity. Qed.
  Lemma ro_get_default : forall k d, ro (get_default k d). Proof. intros k d s. reflexivity. Qed.

  Lemma safe_copy : safe copy.
  Proof. intros s Hs. split; reflexivity. Qed.
  Lemma safe_setk : forall k v, safe (setk k v).
  Proof. intros k v s Hs. unfold setk. simpl. rewrite Hs. auto. Qed.
  Lemma safe_pop_req : forall k, safe (pop_req k).
  Proof. intros k s Hs. unfold pop_req. destruct (dget k (cur s)); simpl; rewrite Hs; auto. Qed.
  Lemma safe_pop_opt : forall k, safe (pop_opt k).
  Proof. intros k s Hs. unfold pop_opt. simpl. rewrite Hs. auto. Qed.
End Commands.

Ltac ro_tac :=
  first [ apply ro_ret | apply ro_fail | apply ro_lift | apply ro_get_opt | apply ro_get_req
        | apply ro_construct_d | apply ro_construct_with | apply ro_get_default ].
Ltac safe_tac :=
  repeat first
    [ apply safe_bind; [|intro]
    | apply safe_copy | apply safe_setk | apply safe_pop_req | apply safe_pop_opt
    | apply ro_safe; ro_tac
    | match goal with
      | |- safe (match ?x with _ => _ end) => destruct x
      end ].
Ltac good_tac :=
  repeat first
    [ apply good_copy; safe_tac
    | apply good_bind; [|intro]
    | apply ro_good; ro_tac
    | match goal with
      | |- good (match ?x with _ => _ end) => destruct x
      end ].

Section Untouched.
  Variable idf : cls -> fields -> result bytes.
  Variable swhid_str : swhid_kind -> text -> bytes -> text.
  Variable swhid_parse : swhid_kind -> text -> result (text * bytes).
  Variable dateparse : text -> result pyval.
  Notation from_dict := (from_dict idf swhid_str swhid_parse dateparse).

  Lemma on_dict_good : forall A e v (m : M A), good m -> snd (on_dict e v m) = v.
  Proof.
    intros A e v m H. unfold on_dict. destruct v; try reflexivity. unfold run.
    specialize (H (dv_init l)). destruct (m (dv_init l)) as [r s]. simpl in *. rewrite H. reflexivity.
  Qed.

  (* C12_input_untouched: whatever value is handed to from_dict of whatever
     class - well formed or not, decodable or not - it is the same afterwards *)
  Theorem input_untouched : forall c v, snd (from_dict c v) = v.
  Proof.
    intros c v. destruct c; cbn [Codec.from_dict].
    - apply on_dict_good. unfold bytes_of. good_tac.
    - apply on_dict_good. good_tac.
    - unfold fd_TimestampWithTimezone. destruct v; try reflexivity. apply on_dict_good. good_tac.
    - apply on_dict_good. good_tac.
    - apply on_dict_good. good_tac.
    - apply on_dict_good. good_tac.
    - apply on_dict_good. good_tac.
    - apply on_dict_good. good_tac.
    - apply on_dict_good. unfold decode_if_truthy. good_tac.
    - apply on_dict_good. unfold pop_decode. good_tac.
    - apply on_dict_good. good_tac.
    - apply on_dict_good. good_tac.
    - apply on_dict_good. good_tac.
    - apply on_dict_good. good_tac.
    - apply on_dict_good. good_tac.
    - apply on_dict_good. good_tac.
    - apply on_dict_good. unfold rem_legacy, rem_tail, decode_swhid_if_truthy. cbn [fold_right]. good_tac.
    - apply on_dict_good. unfold extid_prog. good_tac.
  Qed.

  Lemma input_untouched_BaseContent : forall v, snd (fd_BaseContent idf dateparse v) = v.
  Proof.
    intro v. pose proof (input_untouched cContent) as HC. pose proof (input_untouched cSkippedContent) as HS.
    cbn [Codec.from_dict] in HC, HS.
    unfold fd_BaseContent. destruct v; try reflexivity.
    destruct (dget k_status l) as [x|]; [|reflexivity].
    destruct x; try apply HC.
    match goal with |- context [beqb ?a s_absent] => destruct (beqb a s_absent) end; [apply HS | apply HC].
  Qed.

  (* decoding is a function of the dictionary alone: handing the SAME dictionary
     to from_dict a second time (the caller's dictionary as the first call left
     it) gives the same outcome - same object or same error *)
  Theorem decode_twice : forall c v, from_dict c (snd (from_dict c v)) = from_dict c v.
  Proof. intros c v. rewrite input_untouched. reflexivity. Qed.

  Theorem decode_twice_BaseContent : forall v,
    fd_BaseContent idf dateparse (snd (fd_BaseContent idf dateparse v)) = fd_BaseContent idf dateparse v.
  Proof. intro v. rewrite input_untouched_BaseContent. reflexivity. Qed.
End Untouched.

(* a mutant kept as a witness that the two statements above have content:
   SkippedContent.from_dict WITHOUT its private copy (d.pop("data", None) on the
   caller's dictionary) drops the key from the argument, and an invalid
   dictionary that is rejected the first time is accepted the second time *)
Definition fd_SkippedContent_nocopy (idf : cls -> fields -> result bytes) (v : pyval) : result pyval * pyval :=
  on_dict AttributeError v
    (bind (pop_opt k_data) (fun dt =>
       match dt with
       | Some x => if is_none x then construct_d idf cSkippedContent else fail ValueError
       | None => construct_d idf cSkippedContent
       end)).

Definition skipped_row (data : pyval) : pyval :=
  VDict [(VStr k_sha1, VNone); (VStr k_sha1_git, VNone); (VStr k_sha256, VNone); (VStr k_blake2s256, VNone);
         (VStr k_length, VInt 3); (VStr k_status, VStr s_absent); (VStr k_reason, VStr s_absent); (VStr k_data, data)].

Theorem skipped_nocopy_refuted :
  (exists v, snd (fd_SkippedContent_nocopy (fun _ _ => Ok []) v) <> v) /\
  (exists v, let r1 := fd_SkippedContent_nocopy (fun _ _ => Ok []) v in
             fst r1 = Err ValueError /\
             exists o, fst (fd_SkippedContent_nocopy (fun _ _ => Ok []) (snd r1)) = Ok o).
Proof.
  split.
  - exists (skipped_row VNone). vm_compute. intro H. discriminate H.
  - exists (skipped_row (VBytes [1])). split; [vm_compute; reflexivity|]. eexists. vm_compute. reflexivity.
Qed.


(* ------------------------------------------------------------------ the result of a program depends on the variable only *)
Section CurDet.
  Variable idf : cls -> fields -> result bytes.

  Definition curdet {A} (m : M A) : Prop :=
    forall s s', cur s = cur s' -> fst (m s) = fst (m s') /\ cur (snd (m s)) = cur (snd (m s')).

  Lemma curdet_bind : forall A B (m : M A) (f : A -> M B), curdet m -> (forall a, curdet (f a)) -> curdet (bind m f).
  Proof.
    intros A B m f Hm Hf s s' E. unfold bind. destruct (Hm s s' E) as [H1 H2].
    destruct (m s) as [[a|e] t]; destruct (m s') as [[a'|e'] t']; simpl in *; try discriminate.
    - injection H1 as ->. apply Hf. exact H2.
    - injection H1 as ->. auto.
  Qed.

  Lemma cd_ret : forall A (a : A), curdet (ret a). Proof. intros A a s s' E. auto. Qed.
  Lemma cd_fail : forall A e, curdet (@fail A e). Proof. intros A e s s' E. auto. Qed.
  Lemma cd_lift : forall A (r : result A), curdet (lift r). Proof. intros A r s s' E. auto. Qed.
  Lemma cd_get_opt : forall k, curdet (get_opt k). Proof. intros k s s' E. unfold get_opt. simpl. rewrite E. auto. Qed.
  Lemma cd_get_req : forall k, curdet (get_req k). Proof. intros k s s' E. unfold get_req. simpl. rewrite E. auto. Qed.
  Lemma cd_copy : curdet copy. Proof. intros s s' E. unfold copy. simpl. auto. Qed.
  Lemma cd_setk : forall k v, curdet (setk k v). Proof. intros k v s s' E. unfold setk. simpl. rewrite E. auto. Qed.
  Lemma cd_pop_req : forall k, curdet (pop_req k).
  Proof. intros k s s' E. unfold pop_req. rewrite E. destruct (dget k (cur s')); simpl; rewrite ?E; auto. Qed.
  Lemma cd_pop_opt : forall k, curdet (pop_opt k). Proof. intros k s s' E. unfold pop_opt. simpl. rewrite E. auto. Qed.
  Lemma cd_construct_d : forall c, curdet (construct_d idf c).
  Proof. intros c s s' E. unfold construct_d. simpl. rewrite E. auto. Qed.
  Lemma cd_construct_with : forall c x, curdet (construct_with idf c x).
  Proof. intros c x s s' E. unfold construct_with. simpl. rewrite E. auto. Qed.
End CurDet.

Ltac cd_tac :=
  repeat first
    [ apply curdet_bind; [|intro]
    | apply cd_ret | apply cd_fail | apply cd_lift | apply cd_get_opt | apply cd_get_req | apply cd_copy
    | apply cd_setk | apply cd_pop_req | apply cd_pop_opt | apply cd_construct_d | apply cd_construct_with
    | match goal with
      | |- curdet (match ?x with _ => _ end) => destruct x
      end ].

Ltac mstep' := unfold bind, pop_req, pop_opt; cbn [get_opt get_req copy setk lift ret fail construct_d construct_with
                                                    dv_init cur caller aliased fst snd].
Ltac eval_keys' :=
  repeat match goal with
         | |- context [beqb ?a ?b] => let r := eval vm_compute in (beqb a b) in change (beqb a b) with r
         end.

(* ------------------------------------------------------------------ legacy encodings *)
Section Legacy.
  Variable idf : cls -> fields -> result bytes.
  Variable swhid_str : swhid_kind -> text -> bytes -> text.
  Variable swhid_parse : swhid_kind -> text -> result (text * bytes).
  Variable dateparse : text -> result pyval.

  Lemma rem_tail_curdet : curdet (rem_tail idf swhid_parse).
  Proof. unfold rem_tail, decode_swhid_if_truthy. cbn [fold_right]. cd_tac. Qed.

  Lemma fst_on_dict : forall A e d (m : M A), fst (on_dict e (VDict d) m) = fst (m (dv_init d)).
  Proof. intros. unfold on_dict, run. destruct (m (dv_init d)) as [r s]. reflexivity. Qed.

  (* C12_legacy_metadata_target.  Old-style metadata dictionary: a "type" key
     equal to "origin" and the origin URL as target.  It decodes to exactly what
     the current encoding decodes to: no "type" key, the target being the
     printed SWHID of Origin(url). *)
  Theorem legacy_metadata_target : forall d url w,
    dget k_type d = Some (VStr s_origin) -> dget k_target d = Some url ->
    origin_swhid_str idf swhid_str url = Ok w ->
    fst (fd_RawExtrinsicMetadata idf swhid_str swhid_parse (VDict d)) =
    fst (fd_RawExtrinsicMetadata idf swhid_str swhid_parse (VDict (dset k_target w (ddel k_type d)))).
  Proof.
    intros d url w Ht Hu Hw. unfold fd_RawExtrinsicMetadata. rewrite !fst_on_dict.
    set (tail := rem_tail idf swhid_parse).
    assert (L : bind (rem_legacy idf swhid_str true) (fun _ => tail) (dv_init d) =
                tail (mkDvar (dset k_target w (ddel k_type d)) d false)).
    { unfold rem_legacy. mstep'. rewrite Ht. mstep'. rewrite Ht. mstep'. eval_keys'. cbv beta iota. mstep'.
      rewrite dget_ddel. eval_keys'. cbv beta iota. rewrite Hu. mstep'. rewrite Hw. mstep'. reflexivity. }
    assert (R : bind (rem_legacy idf swhid_str true) (fun _ => tail) (dv_init (dset k_target w (ddel k_type d))) =
                tail (dv_init (dset k_target w (ddel k_type d)))).
    { unfold rem_legacy. mstep'. rewrite dget_dset. eval_keys'. cbv beta iota. rewrite dget_ddel_eq. mstep'. reflexivity. }
    rewrite L, R. apply rem_tail_curdet. reflexivity.
  Qed.

  (* the other legacy "type" values only have the key dropped *)
  Theorem legacy_metadata_type_other : forall d t,
    dget k_type d = Some t -> (forall s, t = VStr s -> beqb s s_origin = false) ->
    fst (fd_RawExtrinsicMetadata idf swhid_str swhid_parse (VDict d)) =
    fst (fd_RawExtrinsicMetadata idf swhid_str swhid_parse (VDict (ddel k_type d))).
  Proof.
    intros d t Ht Hno. unfold fd_RawExtrinsicMetadata. rewrite !fst_on_dict.
    set (tail := rem_tail idf swhid_parse).
    assert (L : bind (rem_legacy idf swhid_str true) (fun _ => tail) (dv_init d) =
                tail (mkDvar (ddel k_type d) d false)).
    { unfold rem_legacy. mstep'. rewrite Ht. mstep'. rewrite Ht. mstep'.
      destruct t; try reflexivity. rewrite (Hno s eq_refl). reflexivity. }
    assert (R : bind (rem_legacy idf swhid_str true) (fun _ => tail) (dv_init (ddel k_type d)) =
                tail (dv_init (ddel k_type d))).
    { unfold rem_legacy. mstep'. rewrite dget_ddel_eq. mstep'. reflexivity. }
    rewrite L, R. apply rem_tail_curdet. reflexivity.
  Qed.
End Legacy.

(* ------------------------------------------------------------------ legacy numeric offset *)
Definition offset_back (off : Z) (negative : bool) : bool :=
  match parse_offset_bytes (fmt_offset off negative) with Ok z => Z.eqb z off | Err _ => false end.

(* the finite sweep over the 16-bit offsets, by the kernel: negative offsets
   are printed with '-', positive ones with '+', zero with either sign *)
Definition offset_check (off : Z) : bool :=
  if (off <? 0)%Z then offset_back off true
  else if (off =? 0)%Z then offset_back off true && offset_back off false
  else offset_back off false.

Fixpoint sweep_from (n : nat) (off : Z) : bool :=
  match n with O => true | S n' => offset_check off && sweep_from n' (off + 1)%Z end.

Lemma sweep_from_spec : forall n lo, sweep_from n lo = true ->
  forall off, (lo <= off < lo + Z.of_nat n)%Z -> offset_check off = true.
Proof.
  induction n as [|n IH]; intros lo H off Hr; [lia|]. cbn [sweep_from] in H. apply andb_true_iff in H.
  destruct H as [H1 H2]. destruct (Z.eq_dec off lo) as [->|Hne]; [exact H1|].
  apply (IH (lo + 1)%Z H2). lia.
Qed.

Lemma offset_sweep_ok : sweep_from (N.to_nat 65536) (-32768) = true.
Proof. vm_cast_no_check (eq_refl true). Qed.

Lemma offset_roundtrip : forall off neg, (-32768 <= off < 32768)%Z -> (neg = true -> (off <= 0)%Z) ->
  parse_offset_bytes (fmt_offset off ((off <? 0)%Z || neg)) = Ok off.
Proof.
  intros off neg Hr Hn. pose proof (sweep_from_spec _ _ offset_sweep_ok off) as S.
  assert (Hin : (-32768 <= off < -32768 + Z.of_nat (N.to_nat 65536))%Z) by lia.
  specialize (S Hin). unfold offset_check in S.
  assert (B : offset_back off ((off <? 0)%Z || neg) = true).
  { destruct (off <? 0)%Z eqn:E1; [exact S|]. destruct (off =? 0)%Z eqn:E2.
    - apply andb_true_iff in S. destruct neg; simpl; tauto.
    - destruct neg; [|exact S]. apply Z.ltb_ge in E1. apply Z.eqb_neq in E2. specialize (Hn eq_refl). lia. }
  unfold offset_back in B. destruct (parse_offset_bytes _) as [z|e]; [|discriminate].
  apply Z.eqb_eq in B. subst z. reflexivity.
Qed.

Section LegacyOffset.
  Variable idf : cls -> fields -> result bytes.

  (* C12_legacy_offset.  A date dictionary in the old format (numeric "offset",
     optional "negative_utc", no "offset_bytes") decodes to the same object as
     the dictionary with offset_bytes := the formatted offset added, for every
     16-bit offset and every negative-UTC flag that is only set on a
     non-positive offset (C16: the flag on a positive offset is rejected). *)
  Theorem legacy_offset : forall d off nu,
    dget k_offset_bytes d = None -> dget k_offset d = Some (VInt off) -> dget k_negative_utc d = nu ->
    (-32768 <= off < 32768)%Z ->
    let neg := match nu with Some x => truthy x | None => false end in
    (neg = true -> (off <= 0)%Z) ->
    fst (fd_TimestampWithTimezone idf (VDict d)) =
    fst (fd_TimestampWithTimezone idf
           (VDict (dset k_offset_bytes (VBytes (fmt_offset off ((off <? 0)%Z || neg))) d))).
  Proof.
    intros d off nu Hob Hoff Hnu Hr neg Hneg. unfold fd_TimestampWithTimezone. rewrite !fst_on_dict.
    mstep'. rewrite dget_dset. eval_keys'. cbv beta iota.
    destruct (dget k_timestamp d) as [ts|]; [|reflexivity]. mstep'.
    lazymatch goal with |- fst (match ?r with _ => _ end) = _ => destruct r as [su|e] end; [|reflexivity].
    destruct (mk_timestamp idf (fst su) (snd su)) as [t|e]; [|reflexivity].
    rewrite Hob, dget_dset_eq. mstep'. rewrite Hoff. mstep'. rewrite Hnu. fold neg.
    unfold from_numeric_offset. cbn [int_of]. rewrite (offset_roundtrip off neg Hr Hneg).
    destruct (construct idf cTimestampWithTimezone _) as [o|e]; [|reflexivity].
    cbn [rbind]. rewrite Z.eqb_refl. reflexivity.
  Qed.

  (* C12_legacy_extra_headers (at the level where the legacy handling lives,
     Revision.__attrs_post_init__).  Attribute values with a non-empty
     metadata holding "extra_headers" and no extra_headers of their own: the
     headers move to extra_headers, the key leaves the metadata, and the
     result is what the current encoding yields - a fixed point of the
     migration. *)
  Theorem legacy_extra_headers : forall fs md eh eh',
    fget k_metadata fs = VIDict md -> md <> [] -> truthy (fget k_extra_headers fs) = false ->
    dget k_extra_headers md = Some eh -> tuplify_extra_headers eh = Ok eh' ->
    validate cRevision (fset k_extra_headers eh' fs) = true ->
    let fs' := fset k_metadata (VIDict (ddel k_extra_headers md)) (fset k_extra_headers eh' fs) in
    migrate_extra_headers fs = Ok fs' /\
    (fget k_metadata fs' = VIDict (ddel k_extra_headers md) -> migrate_extra_headers fs' = Ok fs').
  Proof.
    intros fs md eh eh' Hmd Hne Hnoeh Hin Htup Hval fs'. split.
    - unfold migrate_extra_headers. rewrite Hmd. destruct md as [|kv l]; [congruence|].
      rewrite Hnoeh. cbn [negb]. rewrite Hin, Htup. cbn [rbind]. rewrite Hval. reflexivity.
    - intro Hmd'. unfold migrate_extra_headers. rewrite Hmd'.
      destruct (ddel k_extra_headers md) as [|kv l] eqn:E; [reflexivity|].
      destruct (negb (truthy (fget k_extra_headers fs'))); [|reflexivity].
      rewrite <- E. rewrite dget_ddel_eq. reflexivity.
  Qed.
End LegacyOffset.

(* ------------------------------------------------------------------ concrete instances, witnesses *)
Ltac conf1 :=
  cbn [fty snd fld fldc opt md_ty md_any conforms];
  first [ reflexivity | left; reflexivity | right; reflexivity
        | right; eexists; split; [reflexivity|]; repeat constructor ].
Definition idf_c (c : cls) (fs : fields) : result bytes := Ok (repeat 17 20).
Definition from_dict_c := from_dict idf_c swhid_str_c swhid_parse_c dateparse_none.
Definition from_dict_old_c := from_dict_old idf_c swhid_str_c swhid_parse_c dateparse_none.
Definition to_dict_c := to_dict swhid_str_c.
Definition sha (b : N) : pyval := VBytes (repeat b 20).

(* the concrete printer / parser used for execution satisfies the contract
   assumed of the abstract pair (so the hypotheses of the round-trip theorems
   are satisfiable) *)
Lemma swhid_c_pair_ok : forall k t i, In t (swhid_tags k) -> length i = 20%nat -> wf_bytes i = true ->
  swhid_parse_c k (swhid_str_c k t i) = Ok (t, i).
Proof.
  intros k t i Ht Hi Hb. unfold swhid_parse_c, swhid_str_c.
  replace (SWHID_NAMESPACE ++ SWHID_SEP ++ [49] ++ SWHID_SEP ++ t ++ SWHID_SEP ++ hexlify i)
    with ((SWHID_NAMESPACE ++ SWHID_SEP ++ [49] ++ SWHID_SEP) ++ (t ++ SWHID_SEP ++ hexlify i))
    by (rewrite <- !app_assoc; reflexivity).
  rewrite strip_prefix_app.
  assert (C : cut 58 (t ++ SWHID_SEP ++ hexlify i) = (t, Some (hexlify i)) /\ mem_bytes t (swhid_tags k) = true).
  { destruct k; cbn [swhid_tags] in Ht; unfold SWHID_TYPES, EXTENDED_SWHID_TYPES in Ht; cbn [In] in Ht;
      repeat (destruct Ht as [<-|Ht]; [split; reflexivity|]); contradiction. }
  destruct C as [C1 C2]. rewrite C1, C2. rewrite (unhex_hexlify i Hb). rewrite Hi. cbn [Nat.eqb andb].
  rewrite (hexlify_lower i Hb). reflexivity.
Qed.

Lemma swhid_c_nonempty : forall k t i, swhid_str_c k t i <> [].
Proof. intros k t i. unfold swhid_str_c, SWHID_NAMESPACE. discriminate. Qed.

(* the legacy revision dictionary and its current form decode alike (explicit id and computed id) *)
Definition legacy_rev_dict (with_id legacy : bool) : pyval :=
  VDict ([(VStr k_message, VBytes [109]); (VStr k_author, VNone); (VStr k_committer, VNone); (VStr k_date, VNone);
          (VStr k_committer_date, VNone); (VStr k_type, VStr (bs "git")); (VStr k_directory, sha 1);
          (VStr k_synthetic, VBool false); (VStr k_parents, VList [sha 2])]
         ++ (if legacy
             then [(VStr k_metadata, VDict [(VStr (bs "x"), VInt 1);
                                            (VStr k_extra_headers, VList [VList [VBytes [97]; VBytes [98]]])])]
             else [(VStr k_metadata, VDict [(VStr (bs "x"), VInt 1)]);
                   (VStr k_extra_headers, VTuple [VTuple [VBytes [97]; VBytes [98]]])])
         ++ (if with_id then [(VStr k_id, sha 9)] else [])).

Example legacy_extra_headers_example :
  (forall with_id, fst (from_dict_c cRevision (legacy_rev_dict with_id true)) =
                   fst (from_dict_c cRevision (legacy_rev_dict with_id false)))
  /\ exists fs, fst (from_dict_c cRevision (legacy_rev_dict true true)) = Ok (VObj cRevision fs)
                /\ fget k_extra_headers fs = VTuple [VTuple [VBytes [97]; VBytes [98]]]
                /\ fget k_metadata fs = VIDict [(VStr (bs "x"), VInt 1)].
Proof.
  split.
  - intros [|]; vm_compute; reflexivity.
  - eexists. split; [vm_compute; reflexivity|]. split; vm_compute; reflexivity.
Qed.

(* the code before the fix: RawExtrinsicMetadata.from_dict pops "type" from, and
   overwrites "target" in, the caller's dictionary *)
Definition old_legacy_md : pyval :=
  VDict [(VStr k_type, VStr s_origin); (VStr k_target, VStr (bs "https://example.org/"))].

Theorem input_untouched_refuted_old :
  exists v, snd (from_dict_old_c cRawExtrinsicMetadata v) <> v.
Proof. exists old_legacy_md. vm_compute. intro H. discriminate H. Qed.

(* the code before the fix: ExtID.from_dict drops the id of the dictionary, so
   an ExtID whose explicit id is not the computed one does not come back *)
Definition extid_explicit : fields :=
  [(k_extid_type, VStr (bs "git256")); (k_extid, VBytes [1; 2]); (k_target, VSwhid Core t_rev (repeat 3 20));
   (k_extid_version, VInt 0); (k_payload_type, VNone); (k_payload, VNone); (k_id, sha 7)].

Lemma extid_explicit_wf : wf idf_c (VObj cExtID extid_explicit).
Proof.
  apply wf_obj. split; [reflexivity|]. split; [vm_compute; reflexivity|]. split.
  - unfold extid_explicit. cbn [schema fld fldc opt]. repeat (apply Forall2_cons); [.. | apply Forall2_nil]; conf1.
  - unfold extid_explicit. repeat (apply Forall_cons); [.. | apply Forall_nil]; cbn [snd]; try exact I;
      vm_compute; tauto.
Qed.

Theorem extid_roundtrip_refuted_old :
  exists fs, wf idf_c (VObj cExtID fs) /\
             fst (from_dict_old_c cExtID (to_dict_c (VObj cExtID fs))) <> Ok (VObj cExtID fs) /\
             fst (from_dict_c cExtID (to_dict_c (VObj cExtID fs))) = Ok (VObj cExtID fs).
Proof.
  exists extid_explicit. split; [exact extid_explicit_wf|]. split.
  - vm_compute. intro H. discriminate H.
  - vm_compute. reflexivity.
Qed.

(* stricter reading kept visible: raw_manifest has no validator, so a
   Directory can be CONSTRUCTED with a model object as raw_manifest (the
   constructor accepts it and is idempotent on it); such a value is outside
   the declared type Optional[bytes] and does not round-trip *)
Definition dir_untyped : fields :=
  [(k_entries, VTuple []); (k_id, sha 5);
   (k_raw_manifest, VObj cPerson [(k_fullname, VBytes [97]); (k_name, VNone); (k_email, VNone)])].

Theorem roundtrip_refuted_untyped_raw_manifest :
  exists fs, construct idf_c cDirectory (as_kwargs fs) = Ok (VObj cDirectory fs) /\
             fst (from_dict_c cDirectory (to_dict_c (VObj cDirectory fs))) <> Ok (VObj cDirectory fs).
Proof.
  exists dir_untyped. split; [vm_compute; reflexivity|]. vm_compute. intro H. discriminate H.
Qed.

(* ------------------------------------------------------------------ the hard-coded schema agrees with the regenerated attrs tables *)
Definition gen_view (l : list (list N * bool * bool * bool * bool)) : list (list N * bool * bool) :=
  map (fun r => match r with (n, _, _, d, cv) => (n, d, cv) end) l.
Definition schema_view (c : cls) : list (list N * bool * bool) :=
  map (fun f => (fname f, match fdefault f with Some _ => true | None => false end,
                 match fconv f with CNone => false | _ => true end)) (schema c).
Definition generated_fields (c : cls) :=
  match c with
  | cPerson => FIELDS_Person | cTimestamp => FIELDS_Timestamp | cTimestampWithTimezone => FIELDS_TimestampWithTimezone
  | cOrigin => FIELDS_Origin | cOriginVisit => FIELDS_OriginVisit | cOriginVisitStatus => FIELDS_OriginVisitStatus
  | cSnapshotBranch => FIELDS_SnapshotBranch | cSnapshot => FIELDS_Snapshot | cRelease => FIELDS_Release
  | cRevision => FIELDS_Revision | cDirectoryEntry => FIELDS_DirectoryEntry | cDirectory => FIELDS_Directory
  | cContent => FIELDS_Content | cSkippedContent => FIELDS_SkippedContent
  | cMetadataAuthority => FIELDS_MetadataAuthority | cMetadataFetcher => FIELDS_MetadataFetcher
  | cRawExtrinsicMetadata => FIELDS_RawExtrinsicMetadata | cExtID => FIELDS_ExtID
  end.

(* names, order, has-default and has-converter of every field of the 18 classes *)
Theorem schema_matches_generated : forall c, schema_view c = gen_view (generated_fields c).
Proof. intro c. destruct c; vm_compute; reflexivity. Qed.

(* ------------------------------------------------------------------ satisfiability *)

Definition person1 : pyval := VObj cPerson [(k_fullname, VBytes [65; 32; 60; 97; 62]); (k_name, VBytes [65]); (k_email, VNone)].
Definition release1 : fields :=
  [(k_name, VBytes [118; 49]); (k_message, VNone); (k_target, sha 4); (k_target_type, VEnum EReleaseTarget (bs "revision"));
   (k_synthetic, VBool false); (k_author, person1); (k_date, VNone);
   (k_metadata, VIDict [(VStr (bs "k"), VList [VInt 1; VNone])]); (k_id, sha 8); (k_raw_manifest, VNone)].

(* a release with an author and no date, metadata set, message / raw_manifest elided *)
Theorem valid_satisfiable : wf idf_c (VObj cRelease release1) /\
  from_dict_c cRelease (to_dict_c (VObj cRelease release1)) =
    (Ok (VObj cRelease release1), to_dict_c (VObj cRelease release1)) /\
  dget k_raw_manifest (match to_dict_c (VObj cRelease release1) with VDict d => d | _ => [] end) = None.
Proof.
  split; [|split; vm_compute; reflexivity].
  apply wf_obj. split; [reflexivity|]. split; [vm_compute; reflexivity|]. split.
  - unfold release1. cbn [schema fld fldc opt]. repeat (apply Forall2_cons); [.. | apply Forall2_nil]; conf1.
  - unfold release1. repeat (apply Forall_cons); [.. | apply Forall_nil]; cbn [snd]; try exact I;
      try (vm_compute; tauto).
    unfold person1. apply wf_obj. split; [reflexivity|]. split; [vm_compute; reflexivity|]. split.
    + cbn [schema fld fldc opt]. repeat (apply Forall2_cons); [.. | apply Forall2_nil]; conf1.
    + repeat (apply Forall_cons); [.. | apply Forall_nil]; exact I.
Qed.

(* ------------------------------------------------------------------ the statements of Props/C12.v *)
(* what is assumed of the abstract SWHID printer / parser (property C08) *)
Definition swhid_contract (swhid_str : swhid_kind -> text -> bytes -> text)
                          (swhid_parse : swhid_kind -> text -> result (text * bytes)) : Prop :=
  (forall k t i, In t (swhid_tags k) -> length i = 20%nat -> wf_bytes i = true ->
                 swhid_parse k (swhid_str k t i) = Ok (t, i))
  /\ (forall k t i, swhid_str k t i <> []).

Definition roundtrip_of (c : cls) : Prop :=
  forall idf swhid_str swhid_parse dateparse, swhid_contract swhid_str swhid_parse ->
  forall fs, wf idf (VObj c fs) ->
  fst (from_dict idf swhid_str swhid_parse dateparse c (to_dict swhid_str (VObj c fs))) = Ok (VObj c fs).

Lemma roundtrip_of_all : forall c, roundtrip_of c.
Proof. intros c idf ss sp dp [H1 H2] fs H. exact (roundtrip_class idf ss sp dp H1 H2 c fs H). Qed.

Lemma roundtrip_all_c : forall idf swhid_str swhid_parse dateparse,
  swhid_contract swhid_str swhid_parse ->
  forall c fs, wf idf (VObj c fs) ->
  from_dict idf swhid_str swhid_parse dateparse c (to_dict swhid_str (VObj c fs)) =
  (Ok (VObj c fs), to_dict swhid_str (VObj c fs)).
Proof. intros idf ss sp dp [H1 H2]. exact (roundtrip_all idf ss sp dp H1 H2). Qed.

Lemma same_id_c : forall idf swhid_str swhid_parse dateparse,
  swhid_contract swhid_str swhid_parse ->
  forall c fs, wf idf (VObj c fs) ->
  exists fs', fst (from_dict idf swhid_str swhid_parse dateparse c (to_dict swhid_str (VObj c fs))) = Ok (VObj c fs')
              /\ fget k_id fs' = fget k_id fs /\ idf c (fdel k_id fs') = idf c (fdel k_id fs)
              /\ fget k_sha1_git fs' = fget k_sha1_git fs.
Proof. intros idf ss sp dp [H1 H2]. exact (same_id idf ss sp dp H1 H2). Qed.

Lemma to_dict_idempotent_c : forall idf swhid_str swhid_parse dateparse,
  swhid_contract swhid_str swhid_parse ->
  forall c fs, wf idf (VObj c fs) ->
  exists o2, fst (from_dict idf swhid_str swhid_parse dateparse c (to_dict swhid_str (VObj c fs))) = Ok o2
             /\ to_dict swhid_str o2 = to_dict swhid_str (VObj c fs).
Proof. intros idf ss sp dp [H1 H2]. exact (to_dict_idempotent idf ss sp dp H1 H2). Qed.

Lemma swhid_contract_c : swhid_contract swhid_str_c swhid_parse_c.
Proof. exact (conj swhid_c_pair_ok swhid_c_nonempty). Qed.
