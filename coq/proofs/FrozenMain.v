(* Proofs about coq/model/Frozen.v (property C11), part 4: the closed
   statements over the generated class tables, the refutations of the
   full-strength statement on the OLD code / on ill-typed arguments, and the
   satisfiability examples. *)
From Coq Require Import List NArith Bool Arith Lia Permutation.
From SWH.lib Require Import Bytes Order StableSort.
From SWH Require Import Generated.
From SWH.model Require Import Frozen.
From SWH.proofs Require Import FrozenProofs FrozenAliasProofs FrozenEqProofs.
Import ListNotations.
Local Open Scope nat_scope.

(* ------------------------------------------------------------------ *)
(* table side conditions, on the tables generated from /repo *)

Lemma eq_hash_fields_table : eq_hash_coherent ALL_CLASSES = true.
Proof. vm_compute. reflexivity. Qed.

Lemma arg_kinds_table : arg_kinds_coherent ALL_CLASSES = true.
Proof. vm_compute. reflexivity. Qed.

(* ------------------------------------------------------------------ *)
(* equal objects have equal hashes *)

Theorem eq_hash : forall (Hpy : rval -> N) g s x y a b,
  r_wf (resolve g s x) = true -> r_wf (resolve g s y) = true ->
  obj_eqb g s x y = true ->
  obj_hash Hpy (resolve g s x) = Ok a -> obj_hash Hpy (resolve g s y) = Ok b ->
  a = b.
Proof.
  intros Hpy g s x y a b Wx Wy E Ha Hb. unfold obj_hash in *. unfold obj_eqb in E.
  destruct (norm ALL_CLASSES (resolve g s x)) as [nx|] eqn:Nx; [|discriminate].
  destruct (norm ALL_CLASSES (resolve g s y)) as [ny|] eqn:Ny; [|discriminate].
  inversion Ha; inversion Hb; subst. f_equal.
  apply (eq_norm ALL_CLASSES eq_hash_fields_table (resolve g s x) (resolve g s y) nx ny Wx Wy E Nx Ny).
Qed.

(* with a table in which some field is compared but not hashed the statement
   is false: the side condition is necessary *)
Definition BAD_TABLE : class_table := [ (bs "P", [ (bs "a", true, false, false, false) ]) ].
Lemma eq_hash_needs_table :
  eq_hash_coherent BAD_TABLE = false /\
  exists x y, r_eqb BAD_TABLE x y = false /\ norm BAD_TABLE x = norm BAD_TABLE y /\ norm BAD_TABLE x <> None.
Proof.
  split; [vm_compute; reflexivity|].
  exists (RObj (bs "P") [RAtom [1%N]]), (RObj (bs "P") [RAtom [2%N]]).
  split; [vm_compute; reflexivity|]. split; [vm_compute; reflexivity|]. vm_compute. discriminate.
Qed.

(* two objects with the same content are equal and hash alike, whatever
   handles they hold *)
Theorem same_content_equal : forall (Hpy : rval -> N) g s x y,
  resolve g s x = resolve g s y -> r_wf (resolve g s x) = true ->
  obj_eqb g s x y = true /\ obj_hash Hpy (resolve g s x) = obj_hash Hpy (resolve g s y).
Proof.
  intros Hpy g s x y E W. unfold obj_eqb. rewrite <- E. split; [apply r_eqb_refl; exact W | reflexivity].
Qed.

(* ------------------------------------------------------------------ *)
(* concrete runs *)

Definition K (s : String.string) : atom := Ak s.

(* two Snapshots built one after the other from the same dict argument (the
   second after the caller has NOT touched it): different private cells, equal *)
Example same_args_equal_example :
  match run_twins ex_Hid New 6 (bs "Snapshot") ex_store ex_args ex_args with
  | Ok (e12, e21, Some k1, Some k2) => e12 = true /\ e21 = true /\ k1 = k2
  | _ => False
  end.
Proof. vm_compute. auto. Qed.

(* the hypotheses of no_alias are satisfiable by a non-trivial case *)
Lemma no_alias_satisfiable :
  exists g f s0 cls args o s1 ms,
    separated (S g) s0 (arg_handles args) Ctor cls args = true /\
    construct ex_Hid New f Ctor cls s0 args = Ok (o, s1) /\
    Forall (fun m => In (mut_target m) (arg_handles args)) ms /\
    ms <> [] /\ arg_handles args <> [] /\
    apply_muts s1 ms <> s1.
Proof.
  exists 5, 5, ex_store, (bs "Snapshot"), ex_args.
  destruct (construct ex_Hid New 5 Ctor (bs "Snapshot") ex_store ex_args) as [[o s1]|] eqn:E;
    [|vm_compute in E; discriminate].
  exists o, s1, [MSetItem 0 (Ak "k2") (A "v2"); MDelItem 0 (Ak "k1")].
  split; [vm_compute; reflexivity|]. split; [reflexivity|].
  split; [repeat constructor|]. split; [discriminate|]. split; [vm_compute; discriminate|].
  vm_compute in E. inversion E; subst. vm_compute. discriminate.
Qed.

(* OLD collections.py (self._data = data): the same case changes under the
   caller's mutation - content, dictionary form, hash key and id validity *)
Lemma no_alias_refuted_old :
  exists g f s0 cls args o s1 ms,
    separated (S g) s0 (arg_handles args) Ctor cls args = true /\
    construct ex_Hid Old f Ctor cls s0 args = Ok (o, s1) /\
    Forall (fun m => In (mut_target m) (arg_handles args)) ms /\
    observe ex_Hid ex_Hpy g (apply_muts s1 ms) o <> observe ex_Hid ex_Hpy g s1 o /\
    id_ok ex_Hid (resolve g s1 o) = true /\
    id_ok ex_Hid (resolve g (apply_muts s1 ms) o) = false.
Proof.
  exists 5, 5, ex_store, (bs "Snapshot"), ex_args, (VObj (bs "Snapshot") [VIDict 0; VAtom [1%N; 1%N]]), ex_store,
         [MSetItem 0 (Ak "k2") (A "v2")].
  split; [vm_compute; reflexivity|]. split; [vm_compute; reflexivity|].
  split; [repeat constructor|]. split; [vm_compute; discriminate|].
  split; vm_compute; reflexivity.
Qed.

(* same for Release.metadata *)
Definition rel_args (meta rawm : pyval) (id : atom) : list pyval :=
  [ VAtom (1%N :: bs "v1"); VNone; VAtom (1%N :: bs "tttttttttttttttttttt"); VAtom (5%N :: bs "ReleaseTargetType.REVISION");
    VAtom [4%N; 49%N]; VNone; VNone; meta; VAtom id; rawm ].

Lemma no_alias_refuted_old_release :
  exists ms,
    separated 6 ex_store [0] Ctor (bs "Release") (rel_args (VRef 0) VNone EMPTY_BYTES) = true /\
    match construct ex_Hid Old 5 Ctor (bs "Release") ex_store (rel_args (VRef 0) VNone EMPTY_BYTES) with
    | Ok (o, s1) => observe ex_Hid ex_Hpy 5 (apply_muts s1 ms) o <> observe ex_Hid ex_Hpy 5 s1 o
    | Err _ => False
    end /\
    match construct ex_Hid New 5 Ctor (bs "Release") ex_store (rel_args (VRef 0) VNone EMPTY_BYTES) with
    | Ok (o, s1) => observe ex_Hid ex_Hpy 5 (apply_muts s1 ms) o = observe ex_Hid ex_Hpy 5 s1 o
    | Err _ => False
    end.
Proof.
  exists [MSetItem 0 (Ak "k2") (A "v2")]. split; [vm_compute; reflexivity|].
  split; vm_compute; [discriminate | reflexivity].
Qed.

(* a list given to a field that has neither validator nor converter
   (raw_manifest) is stored as is, with the CURRENT code: the statement needs
   the hypothesis that such a field does not receive a container the caller
   goes on mutating ([separated] is false here) *)
Lemma no_alias_refuted_unchecked_field :
  exists s0 args ms,
    separated 6 s0 (arg_handles args) Ctor (bs "Release") args = false /\
    Forall (fun m => In (mut_target m) (arg_handles args)) ms /\
    match construct ex_Hid New 5 Ctor (bs "Release") s0 args with
    | Ok (o, s1) => observe ex_Hid ex_Hpy 5 (apply_muts s1 ms) o <> observe ex_Hid ex_Hpy 5 s1 o
    | Err _ => False
    end.
Proof.
  exists [PyList [VAtom [3%N; 49%N]]], (rel_args VNone (VRef 0) (1%N :: bs "iiiiiiiiiiiiiiiiiiii")),
         [MAppend 0 (VAtom [3%N; 50%N])].
  split; [vm_compute; reflexivity|]. split; [repeat constructor|]. vm_compute. discriminate.
Qed.

(* DESIGN section 7: a container NESTED in a dict argument stays shared (the
   converter copies shallowly); mutating it shows through.  Not covered by
   the statement: [separated] is false when the nested list is among the
   mutated handles. *)
Lemma nested_shared_example :
  let s0 := [PyDict false [(Ak "a", VRef 1)]; PyList [A "x"]] in
  let args := rel_args (VRef 0) VNone EMPTY_BYTES in
  separated 6 s0 [1] Ctor (bs "Release") args = false /\
  separated 6 s0 [0] Ctor (bs "Release") args = true /\
  match construct ex_Hid New 5 Ctor (bs "Release") s0 args with
  | Ok (o, s1) =>
      observe ex_Hid ex_Hpy 5 (apply_muts s1 [MAppend 1 (A "y")]) o <> observe ex_Hid ex_Hpy 5 s1 o /\
      observe ex_Hid ex_Hpy 5 (apply_muts s1 [MSetItem 0 (Ak "b") (A "y"); MDelItem 0 (Ak "a")]) o = observe ex_Hid ex_Hpy 5 s1 o
  | Err _ => False
  end.
Proof. vm_compute. repeat split; try reflexivity; discriminate. Qed.

(* equal-but-not-identical objects: two Persons that differ only in their
   eq=False fields are equal and hash alike; so are two Releases holding them *)
Definition person (full name : String.string) : pyval :=
  VObj (bs "Person") [VAtom (1%N :: bs full); VAtom (1%N :: bs name); VNone].
Arguments person (full name)%string.

Lemma eq_hash_satisfiable :
  let x := person "Ann" "a" in
  let y := person "Ann" "b" in
  x <> y /\ obj_eqb 5 [] x y = true /\
  (exists a, obj_hash (fun r => match r with RObj _ [RAtom l] => N.of_nat (length l) | _ => 0%N end) (resolve 5 [] x) = Ok a /\
             obj_hash (fun r => match r with RObj _ [RAtom l] => N.of_nat (length l) | _ => 0%N end) (resolve 5 [] y) = Ok a) /\
  obj_eqb 5 [] x (person "Bob" "a") = false.
Proof.
  vm_compute. split; [discriminate|]. split; [reflexivity|]. split; [|reflexivity].
  eexists. split; reflexivity.
Qed.

Lemma idict_order_free_satisfiable :
  let items := [(Ak "b", RAtom (Ak "1")); (Ak "a", RSeq false [RNone]); (Ak "c", RMap false [])] in
  let items' := [(Ak "c", RMap false []); (Ak "b", RAtom (Ak "1")); (Ak "a", RSeq false [RNone])] in
  NoDup (map fst items) /\ Permutation items items' /\ items <> items' /\
  forallb (fun kv => r_wf (snd kv)) items = true /\ norm ALL_CLASSES (RMap false items) <> None.
Proof.
  simpl. split.
  - repeat constructor; simpl; intuition discriminate.
  - split.
    + eapply perm_trans; [apply perm_swap|]. eapply perm_trans; [apply perm_skip; apply perm_swap|].
      eapply perm_trans; [apply perm_swap|]. apply perm_skip. apply perm_swap.
    + split; [discriminate|]. split; [reflexivity|]. vm_compute. discriminate.
Qed.

(* ------------------------------------------------------------------ *)
(* copy_pop and the frozen mappings that already exist *)
From SWH.proofs Require Import FrozenMappingProofs.

Definition rev_args (meta : pyval) : list pyval :=
  [ VNone; VNone; VNone; VNone; VNone; VAtom (5%N :: bs "RevisionType.GIT"); VAtom (1%N :: bs "dddddddddddddddddddd");
    VAtom [4%N; 48%N]; meta; VTuple []; VAtom EMPTY_BYTES; VTuple []; VNone ].

(* cell 0: the _data of an already frozen mapping {"extra_headers": ((k, v),), "a": "b"};
   cell 1: a dict the caller owns *)
Definition cp_store : store :=
  [ PyDict false [(XH_KEY, VTuple [VTuple [VAtom (1%N :: bs "k"); VAtom (1%N :: bs "v")]]); (Ak "a", A "b")];
    PyDict false [(Ak "x", A "y")] ].

Definition cp_ops : list op :=
  [ OConstruct Ctor (bs "Revision") (rev_args (VIDict 0));       (* post-init calls copy_pop on the caller's mapping *)
    OCopyPop (VIDict 0) (Ak "a");                                (* present key *)
    OCopyPop (VIDict 0) (Ak "absent");
    OConstruct Ctor IDICT [VIDict 0];                            (* ImmutableDict(idict): shares the cell *)
    OCopyPop (VIDict 4) (Ak "a");                                (* on the mapping returned by an earlier copy_pop *)
    OMut (MSetItem 1 (Ak "x") (A "z"));
    OConstruct Ctor (bs "Revision") (rev_args (VIDict 0)) ].

Lemma frozen_mapping_satisfiable :
  safe 6 cp_store (op_mut_targets cp_ops) (VIDict 0) = true /\
  run_ops ex_Hid New 6 cp_store cp_ops <> cp_store /\
  length (run_ops ex_Hid New 6 cp_store cp_ops) = 7 /\
  observe ex_Hid ex_Hpy 6 (run_ops ex_Hid New 6 cp_store cp_ops) (VIDict 0) = observe ex_Hid ex_Hpy 6 cp_store (VIDict 0).
Proof. vm_compute. repeat split; try reflexivity. discriminate. Qed.

(* the mutant copy_pop (new = ImmutableDict(self); new._data.pop(key)): the receiver changes
   (a) when copy_pop is called on it with a present key,
   (b) when a Revision is built from an already frozen metadata holding "extra_headers";
   and two Revisions built one after the other from the same arguments differ.
   With the current copy_pop none of this happens. *)
Lemma copy_pop_refuted_inplace :
  (* (a) *)
  safe 6 cp_store (op_mut_targets [OCopyPop (VIDict 0) (Ak "a")]) (VIDict 0) = true /\
  observe ex_Hid ex_Hpy 6 (run_ops ex_Hid PopInPlace 6 cp_store [OCopyPop (VIDict 0) (Ak "a")]) (VIDict 0)
    <> observe ex_Hid ex_Hpy 6 cp_store (VIDict 0) /\
  observe ex_Hid ex_Hpy 6 (run_ops ex_Hid New 6 cp_store [OCopyPop (VIDict 0) (Ak "a")]) (VIDict 0)
    = observe ex_Hid ex_Hpy 6 cp_store (VIDict 0) /\
  (* (b) *)
  observe ex_Hid ex_Hpy 6 (run_ops ex_Hid PopInPlace 6 cp_store [OConstruct Ctor (bs "Revision") (rev_args (VIDict 0))]) (VIDict 0)
    <> observe ex_Hid ex_Hpy 6 cp_store (VIDict 0) /\
  match run_twins ex_Hid PopInPlace 6 (bs "Revision") cp_store (rev_args (VIDict 0)) (rev_args (VIDict 0)) with
  | Ok (e12, e21, _, _) => e12 = false /\ e21 = false
  | Err _ => False
  end /\
  match run_twins ex_Hid New 6 (bs "Revision") cp_store (rev_args (VIDict 0)) (rev_args (VIDict 0)) with
  | Ok (e12, e21, Some k1, Some k2) => e12 = true /\ e21 = true /\ k1 = k2
  | _ => False
  end.
Proof. vm_compute. repeat split; try reflexivity; discriminate. Qed.

(* ------------------------------------------------------------------ *)
(* read operations *)
From SWH.proofs Require Import FrozenReadProofs.

(* cell 0: a collections.defaultdict (a dict subclass whose __missing__ inserts) the caller passes *)
Definition dd_store : store := [PyDict true [(Ak "k1", A "v1")]].
Definition dd_reads : list (option bytes * readkind) :=
  [ (Some (bs "branches"), RdContains (Ak "missing"));     (* "missing" in snapshot.branches *)
    (Some (bs "branches"), RdGet (Ak "missing2"));
    (Some (bs "branches"), RdGetItem (Ak "missing3"));
    (Some (bs "branches"), RdIter); (None, RdToDict); (None, RdHash); (None, RdEq) ].

Lemma reads_are_pure_satisfiable :
  Forall (plain dd_store) ex_args /\
  match construct ex_Hid New 5 Ctor (bs "Snapshot") dd_store ex_args with
  | Ok (o, s1) => run_reads s1 o dd_reads = s1 /\ length s1 = 2 /\
                  do_read s1 o (Some (bs "branches")) (RdGetItem (Ak "missing")) = (s1, Some EKeyError) /\
                  do_read s1 o (Some (bs "branches")) (RdGetItem (Ak "k1")) = (s1, None)
  | Err _ => False
  end.
Proof. split; [repeat constructor|]. vm_compute. repeat split; reflexivity. Qed.

(* the mutant __init__ copying with data.copy(): the stored dict of Snapshot(branches=defaultdict)
   is still a defaultdict; `k in snapshot.branches` on a missing key inserts it: the store, the
   content, the hash key change and the id goes stale.  Same for a bare ImmutableDict(defaultdict)
   and m.get(k).  With the current code: nothing changes. *)
Lemma reads_pure_refuted_subclass_copy :
  Forall (plain dd_store) ex_args /\
  match construct ex_Hid SubclassCopy 5 Ctor (bs "Snapshot") dd_store ex_args with
  | Ok (o, s1) =>
      let s2 := run_reads s1 o [(Some (bs "branches"), RdContains (Ak "missing"))] in
      s2 <> s1 /\ observe ex_Hid ex_Hpy 5 s2 o <> observe ex_Hid ex_Hpy 5 s1 o /\
      id_ok ex_Hid (resolve 5 s1 o) = true /\ id_ok ex_Hid (resolve 5 s2 o) = false
  | Err _ => False
  end /\
  match construct ex_Hid SubclassCopy 5 Ctor IDICT dd_store [VRef 0] with
  | Ok (o, s1) =>
      let s2 := run_reads s1 o [(None, RdGet (Ak "missing"))] in
      observe ex_Hid ex_Hpy 5 s2 o <> observe ex_Hid ex_Hpy 5 s1 o
  | Err _ => False
  end /\
  match construct ex_Hid New 5 Ctor (bs "Snapshot") dd_store ex_args with
  | Ok (o, s1) => run_reads s1 o [(Some (bs "branches"), RdContains (Ak "missing"))] = s1
  | Err _ => False
  end.
Proof. split; [repeat constructor|]. vm_compute. repeat split; try reflexivity; discriminate. Qed.

(* ------------------------------------------------------------------ *)
(* transport *)
Lemma transports_id : forall n v, transports n v = v.
Proof. induction n as [|n IH]; intro v; simpl; [reflexivity | unfold transport; apply IH]. Qed.

(* after any number of transport steps an object is observed - content, to_dict, hash key, hash(), id validity -
   exactly as a fresh twin with the same content, and is equal to it *)
Theorem transport_hash : forall (Hid : rval -> atom) (Hpy : rval -> N) g s n v twin,
  resolve g s v = resolve g s twin -> r_wf (resolve g s twin) = true ->
  observe Hid Hpy g s (transports n v) = observe Hid Hpy g s twin /\
  obj_hash Hpy (resolve g s (transports n v)) = obj_hash Hpy (resolve g s twin) /\
  obj_eqb g s (transports n v) twin = true.
Proof.
  intros Hid Hpy g s n v twin E W. rewrite transports_id. unfold observe, obj_eqb. rewrite E.
  split; [reflexivity|]. split; [reflexivity|]. apply r_eqb_refl. exact W.
Qed.
