(* Proofs for C04: release (tag) manifests. *)
From Coq Require Import List NArith ZArith Bool Lia.
From SWH.lib Require Import Bytes Dec Hex GitHeader Headers.
From SWH.model Require Import Time Rel.
From SWH Require Import Generated.
Import ListNotations.
Open Scope N_scope.

Lemma tag_no_sp : ~ In SP (bs "tag").
Proof. apply memb_false. vm_compute. reflexivity. Qed.

Lemma rel_headers_wf : forall r t, forallb (fun h => wf_key (fst h)) (rel_headers r t) = true.
Proof. intros r t. unfold rel_headers. destruct (r_author r); vm_compute; reflexivity. Qed.

Definition tagger_line (r : release) : option bytes :=
  match r_author r with Some a => Some (format_author a (r_date r)) | None => None end.

(* the independent tag parser recovers object, type, tag name, tagger line and
   message - for arbitrary name / message / fullname / offset bytes *)
Theorem parse_tag_ok : forall r t m, r_target r = Some t -> release_git_object r = MOk m ->
  parse_tag m = Some {| t_object := hexlify t; t_type := git_type (r_ttype r); t_tag := r_name r;
                        t_tagger := tagger_line r; t_message := r_message r |}.
Proof.
  intros r t m Ht. unfold release_git_object. rewrite Ht. intro E. inversion E; subst m. clear E.
  unfold parse_tag. rewrite parse_object_ok; [|exact tag_no_sp | apply rel_headers_wf].
  rewrite beqb_refl. unfold rel_headers, tagger_line. cbn [app]. rewrite !beqb_refl. cbn [andb].
  destruct (r_author r) as [a|]; cbn [app]; [rewrite beqb_refl|]; reflexivity.
Qed.

Theorem parse_tag_target : forall t, wf_bytes t = true -> unhex (hexlify t) = Some t.
Proof. exact unhex_hexlify. Qed.

Theorem git_type_injective : forall a b, git_type a = git_type b -> a = b.
Proof. intros [] []; intro H; try reflexivity; vm_compute in H; discriminate. Qed.

Theorem rtt_of_git_type_ok : forall t, rtt_of_git_type (git_type t) = Some t.
Proof. intros []; vm_compute; reflexivity. Qed.

(* the id (for every hash function) depends only on the fields of a tag *)
Theorem release_irrelevant_fields : forall r r',
  r_name r = r_name r' -> r_message r = r_message r' -> r_target r = r_target r' -> r_ttype r = r_ttype r' ->
  option_map fullname (r_author r) = option_map fullname (r_author r') -> r_date r = r_date r' ->
  release_git_object r = release_git_object r'.
Proof.
  intros r r' E1 E2 E3 E4 E5 E6. unfold release_git_object, rel_headers, format_author.
  rewrite E1, E2, E3, E4, E6. destruct (r_target r'); [|reflexivity].
  destruct (r_author r) as [a|], (r_author r') as [a'|]; cbn in E5; try discriminate; [|reflexivity].
  inversion E5 as [E]. rewrite E. reflexivity.
Qed.

Theorem release_presence : forall r,
  release_valid r = true <-> (r_date r <> None -> r_author r <> None).
Proof.
  intro r. unfold release_valid. destruct (r_author r) as [a|], (r_date r) as [d|]; split; intro H;
    try reflexivity; try discriminate; try (intros _; discriminate); try (intro K; congruence).
  exfalso. apply H; [discriminate | reflexivity].
Qed.

Theorem release_no_target_typeerror : forall r, r_target r = None -> release_git_object r = MTypeError.
Proof. intros r H. unfold release_git_object. rewrite H. reflexivity. Qed.

(* manifests are injective on the tag fields *)
Theorem release_manifest_injective : forall r r' t t' m,
  r_target r = Some t -> r_target r' = Some t' -> wf_bytes t = true -> wf_bytes t' = true ->
  release_git_object r = MOk m -> release_git_object r' = MOk m ->
  t = t' /\ r_ttype r = r_ttype r' /\ r_name r = r_name r' /\ tagger_line r = tagger_line r' /\ r_message r = r_message r'.
Proof.
  intros r r' t t' m Ht Ht' W W' E E'.
  pose proof (parse_tag_ok r t m Ht E) as P. pose proof (parse_tag_ok r' t' m Ht' E') as P'.
  rewrite P in P'. inversion P' as [[X1 X2 X3 X4 X5]].
  repeat split; auto.
  - apply hexlify_inj; assumption.
  - apply git_type_injective. exact X2.
Qed.

(* table side conditions *)
Lemma release_target_table :
  RELEASE_TARGET_TO_GIT = map (fun t => (rtt_value t, git_type t)) all_rtt.
Proof. vm_compute. reflexivity. Qed.
Lemma tag_is_git_type : mem_bytes (bs "tag") GIT_OBJECT_TYPES = true.
Proof. vm_compute. reflexivity. Qed.

(* non-vacuity *)
Definition ex_release : release :=
  {| r_name := [118; 10; 49]; r_message := Some [10; 10; 32; 120]; r_target := Some (repeat 9 20);
     r_ttype := RSnapshot; r_synthetic := true;
     r_author := Some {| fullname := [65; 10; 32; 60; 62]; p_name := None; p_email := None |};
     r_date := Some (mkTstz (mkTs (-1) 500000) [45; 48; 48; 48; 48]);
     r_metadata := None; r_raw_manifest := None |}.
Example ex_release_ok : release_valid ex_release = true /\ exists m, release_git_object ex_release = MOk m.
Proof. split; [reflexivity | eexists; reflexivity]. Qed.

(* ---- dimension added by the audit: a verbatim raw manifest takes precedence for the id,
   whatever its bytes (the empty byte string included), even without a target ---- *)
Theorem rel_raw_manifest_precedence : forall (H : bytes -> bytes) r m,
  r_raw_manifest r = Some m -> rel_compute_hash H r = Some (H m).
Proof. intros H r m R. unfold rel_compute_hash. rewrite R. reflexivity. Qed.
