(* Cross-model consistency C19 x C07: model/Dedup.v carries its own definition
   of Directory.check() (a boolean: validators, id = recomputed hash, raw
   manifest needed) and of the constructor; model/Ident.v has the generic
   ones.  They coincide on directory objects, so the directory returned by
   the repair of duplicated entries passes the GENERIC integrity check.

   A Dedup directory object d is viewed as the hashable object
     kind = Directory, attrs manifest = dir_manifest (o_entries d),
     raw manifest = o_raw d, id = o_id d.
   Ident.check does not run the attrs validators (its objects are assumed
   constructed); Dedup.check does: hence the conjunct [valid_dir].

   Both models define [check] and [compute_hash]: Dedup's are imported,
   Ident's are written qualified. *)
From Coq Require Import List NArith Bool.
From SWH.lib Require Import Bytes.
From SWH.model Require Import Dir Dedup.
From SWH.model Require Ident.
From SWH.proofs Require Import DirProofs DedupProofs.
Import ListNotations.

Definition hobj_of (d : dirobj) : Ident.hobj :=
  {| Ident.h_kind := Ident.KDirectory; Ident.h_attrs := Some (dir_manifest (o_entries d));
     Ident.h_raw := o_raw d; Ident.h_id := o_id d |}.

Section Bridge.
  Variable H : bytes -> bytes.

  Lemma compute_hash_agree : forall d,
    Ident.compute_hash H (hobj_of d) = Ident.Ok (compute_hash H (o_entries d) (o_raw d)).
  Proof. intros [es i [m|]]; reflexivity. Qed.

  (* Dedup's check = validators + Ident's generic check *)
  Theorem check_is_C07_check : forall d,
    check H d = true <-> (valid_dir (o_entries d) = true /\ Ident.check H (hobj_of d) = Ident.Ok tt).
  Proof.
    intros [es i raw]. unfold check, Ident.check, Ident.compute_hash, Ident.hash_from_attributes, hobj_of, compute_hash.
    cbn [o_entries o_id o_raw Ident.h_raw Ident.h_attrs Ident.h_id].
    destruct (valid_dir es); cbn [andb].
    2: { split; [discriminate | intros [K _]; discriminate]. }
    destruct raw as [m|].
    - destruct (beqb i (H m)); cbn [andb negb].
      + destruct (beqb i (H (dir_manifest es))); cbn [negb]; split; try discriminate; try (intros [_ K]; discriminate);
          try (intros _; split; reflexivity); reflexivity.
      + split; [discriminate | intros [_ K]; discriminate].
    - destruct (beqb i (H (dir_manifest es))); cbn [andb negb]; split; try discriminate; try (intros [_ K]; discriminate);
        try (intros _; split; reflexivity); reflexivity.
  Qed.

  (* ... verdict by verdict: Dedup's boolean is false exactly when the validators
     fail or the generic check raises ValueError (never TypeError: a directory
     always has a manifest) *)
  Theorem check_false_is_value_error : forall d, valid_dir (o_entries d) = true ->
    check H d = false <-> Ident.check H (hobj_of d) = Ident.Err Ident.ValueError.
  Proof.
    intros [es i raw] V. cbn [o_entries] in V.
    unfold check, Ident.check, Ident.compute_hash, Ident.hash_from_attributes, hobj_of, compute_hash.
    cbn [o_entries o_id o_raw Ident.h_raw Ident.h_attrs Ident.h_id]. rewrite V. cbn [andb].
    destruct raw as [m|].
    - destruct (beqb i (H m)); cbn [andb negb]; [|split; reflexivity].
      destruct (beqb i (H (dir_manifest es))); cbn [negb]; split; try discriminate; reflexivity.
    - destruct (beqb i (H (dir_manifest es))); cbn [andb negb]; split; try discriminate; reflexivity.
  Qed.

  (* the constructors agree: Directory(entries=es, id=id, raw_manifest=raw) *)
  Theorem mk_directory_is_C07_construct : forall es id raw,
    match mk_directory H es id raw with
    | Some d => valid_dir es = true /\
                Ident.construct H Ident.KDirectory (Some (dir_manifest es)) (Some raw) id = Ident.Ok (hobj_of d)
    | None => valid_dir es = false
    end.
  Proof.
    intros es id raw. unfold mk_directory. destruct (valid_dir es); [|reflexivity].
    split; [reflexivity|]. destruct id as [|b id]; destruct raw as [m|]; reflexivity.
  Qed.

  Lemma hobj_of_wf : forall d, Ident.wf (hobj_of d).
  Proof. intros d _. reflexivity. Qed.

  (* the repaired directory passes the generic check - same hypotheses as C19_check *)
  Theorem repaired_passes_C07_check : forall es f d,
    no_slash es -> Decodable es -> Repeated es ->
    repair H es [] None = RepOk f d ->
    (H (dir_manifest (o_entries d)) = H (dir_manifest es) -> dir_manifest (o_entries d) = dir_manifest es) ->
    valid_dir (o_entries d) = true
    /\ Ident.check H (hobj_of d) = Ident.Ok tt
    /\ Ident.h_raw (hobj_of d) = Some (dir_manifest es)
    /\ Ident.h_id (hobj_of d) = H (dir_manifest es)
    /\ Ident.compute_hash H (hobj_of d) = Ident.Ok (H (dir_manifest es)).
  Proof.
    intros es f d NS D R E Inj.
    pose proof (repair_check H es f d NS D R E Inj) as C. apply check_is_C07_check in C. destruct C as [V C].
    destruct (repair_id H es f d NS R E) as [_ [Hr Hi]].
    split; [exact V|]. split; [exact C|]. split; [exact Hr|]. split; [exact Hi|].
    rewrite compute_hash_agree. unfold compute_hash. rewrite Hr. reflexivity.
  Qed.

  (* without a repeated name: no raw manifest is added and the generic check
     passes with no hypothesis on H at all *)
  Theorem unrepaired_passes_C07_check : forall es, no_slash es -> ~ Repeated es ->
    exists d, repair H es [] None = RepOk false d
      /\ Ident.check H (hobj_of d) = Ident.Ok tt /\ Ident.h_raw (hobj_of d) = None.
  Proof.
    intros es NS NR. rewrite (repair_unchanged H es [] None NS NR). eexists. split; [reflexivity|].
    split; [|reflexivity].
    unfold Ident.check, Ident.compute_hash, Ident.hash_from_attributes, hobj_of, compute_hash.
    cbn [o_entries o_id o_raw Ident.h_raw Ident.h_attrs Ident.h_id]. rewrite beqb_refl. reflexivity.
  Qed.
End Bridge.

(* non-vacuity: the example of C19_satisfiable, with the toy injective hash of Ident.v *)
Example repaired_example :
  match repair Ident.toyH ex_dups [] None with
  | RepOk f d => (f, Ident.check Ident.toyH (hobj_of d), check Ident.toyH d)
  | _ => (false, Ident.Err Ident.TypeError, false)
  end = (true, Ident.Ok tt, true).
Proof. vm_compute. reflexivity. Qed.
