(* Proofs about model/Codec.v (property C12), part 5: the tables hard-coded in
   the model (field types, defaults, elided-when-None flags, generic-validator
   flags, enum members, status lists) equal the tables regenerated from /repo
   on every run (coq/Generated.v).  Only this file mentions those generated
   tables: the model itself builds and extracts without them. *)
From Coq Require Import List NArith ZArith Bool String.
From SWH.lib Require Import Bytes Dec Hex.
From SWH Require Import Generated.
From SWH.model Require Import Codec.
Import ListNotations.
Open Scope N_scope.

Definition class_name (c : cls) : text :=
  match c with
  | cPerson => bs "Person" | cTimestamp => bs "Timestamp" | cTimestampWithTimezone => bs "TimestampWithTimezone"
  | cOrigin => bs "Origin" | cOriginVisit => bs "OriginVisit" | cOriginVisitStatus => bs "OriginVisitStatus"
  | cSnapshotBranch => bs "SnapshotBranch" | cSnapshot => bs "Snapshot" | cRelease => bs "Release"
  | cRevision => bs "Revision" | cDirectoryEntry => bs "DirectoryEntry" | cDirectory => bs "Directory"
  | cContent => bs "Content" | cSkippedContent => bs "SkippedContent"
  | cMetadataAuthority => bs "MetadataAuthority" | cMetadataFetcher => bs "MetadataFetcher"
  | cRawExtrinsicMetadata => bs "RawExtrinsicMetadata" | cExtID => bs "ExtID"
  end.

Definition enum_name (e : enum_ty) : text :=
  match e with
  | ESnapshotTarget => bs "SnapshotTargetType" | EReleaseTarget => bs "ReleaseTargetType"
  | ERevisionType => bs "RevisionType" | EAuthorityType => bs "MetadataAuthorityType"
  end.

(* the type code of a field type: str(f.type) normalised as harness/c12.py type_code does *)
Fixpoint string_of_ty (t : ty) : text :=
  match t with
  | TBytes => bs "bytes" | TStr => bs "str" | TInt => bs "int" | TBool => bs "bool" | TDate => bs "datetime"
  | TAny => bs "Any" | TObject => bs "object"
  | TOpt t' => bs "Optional[" ++ string_of_ty t' ++ bs "]"
  | TTupleOf t' => bs "Tuple[" ++ string_of_ty t' ++ bs ",...]"
  | TPairBytes => bs "Tuple[bytes,bytes]"
  | TObj c => class_name c
  | TEnum e => enum_name e
  | TIDict k v => bs "ImmutableDict[" ++ string_of_ty k ++ bs "," ++ string_of_ty v ++ bs "]"
  | TSwhid Core => bs "CoreSWHID" | TSwhid Extended => bs "ExtendedSWHID"
  | TCallable => bs "Callable[[],bytes]"
  end.

(* the field types occurring in the schemas, and the inverse of string_of_ty on them *)
Definition schema_types : list ty := flat_map (fun c => map fty (schema c)) all_classes.
Definition ty_of_string (s : text) : option ty := find (fun t => beqb (string_of_ty t) s) schema_types.

(* the wire notation (harness/c12.py enc) of the default values that occur *)
Definition hex6 (c : N) : text :=
  map hexdigit [c / 1048576 mod 16; c / 65536 mod 16; c / 4096 mod 16; c / 256 mod 16; c / 16 mod 16; c mod 16].
Definition wire_of_default (v : pyval) : text :=
  match v with
  | VNone => bs "N"
  | VBytes [] => bs "b;"
  | VInt 0%Z => bs "i0;"
  | VTuple [] => bs "()"
  | VStr s => bs "s" ++ flat_map hex6 s ++ bs ";"
  | _ => bs "?"
  end.

Definition schema_row (f : field) : list N * list N * option (list N) * bool :=
  (fname f, string_of_ty (fty f), option_map wire_of_default (fdefault f), felide f).

Definition generated_schema (c : cls) : list (list N * list N * option (list N) * bool) :=
  match c with
  | cPerson => SCHEMA_Person | cTimestamp => SCHEMA_Timestamp | cTimestampWithTimezone => SCHEMA_TimestampWithTimezone
  | cOrigin => SCHEMA_Origin | cOriginVisit => SCHEMA_OriginVisit | cOriginVisitStatus => SCHEMA_OriginVisitStatus
  | cSnapshotBranch => SCHEMA_SnapshotBranch | cSnapshot => SCHEMA_Snapshot | cRelease => SCHEMA_Release
  | cRevision => SCHEMA_Revision | cDirectoryEntry => SCHEMA_DirectoryEntry | cDirectory => SCHEMA_Directory
  | cContent => SCHEMA_Content | cSkippedContent => SCHEMA_SkippedContent
  | cMetadataAuthority => SCHEMA_MetadataAuthority | cMetadataFetcher => SCHEMA_MetadataFetcher
  | cRawExtrinsicMetadata => SCHEMA_RawExtrinsicMetadata | cExtID => SCHEMA_ExtID
  end.

Definition generated_generic (c : cls) : list (list N) :=
  match c with
  | cPerson => GENERIC_VALIDATED_Person | cTimestamp => GENERIC_VALIDATED_Timestamp
  | cTimestampWithTimezone => GENERIC_VALIDATED_TimestampWithTimezone
  | cOrigin => GENERIC_VALIDATED_Origin | cOriginVisit => GENERIC_VALIDATED_OriginVisit
  | cOriginVisitStatus => GENERIC_VALIDATED_OriginVisitStatus
  | cSnapshotBranch => GENERIC_VALIDATED_SnapshotBranch | cSnapshot => GENERIC_VALIDATED_Snapshot
  | cRelease => GENERIC_VALIDATED_Release | cRevision => GENERIC_VALIDATED_Revision
  | cDirectoryEntry => GENERIC_VALIDATED_DirectoryEntry | cDirectory => GENERIC_VALIDATED_Directory
  | cContent => GENERIC_VALIDATED_Content | cSkippedContent => GENERIC_VALIDATED_SkippedContent
  | cMetadataAuthority => GENERIC_VALIDATED_MetadataAuthority | cMetadataFetcher => GENERIC_VALIDATED_MetadataFetcher
  | cRawExtrinsicMetadata => GENERIC_VALIDATED_RawExtrinsicMetadata | cExtID => GENERIC_VALIDATED_ExtID
  end.

(* per class: names, order, type codes, defaults and elided-when-None flags of
   the model's schema are those read from attr.fields / the to_dict overrides *)
Theorem schema_types_match_generated : forall c, map schema_row (schema c) = generated_schema c.
Proof. intro c. destruct c; vm_compute; reflexivity. Qed.

(* the 18 classes are exactly the generated ones, each with its table *)
Theorem model_schemas_match_generated :
  map (fun c => (class_name c, map schema_row (schema c))) all_classes = MODEL_SCHEMAS.
Proof. vm_compute. reflexivity. Qed.

(* the type codes identify the field types (string_of_ty is injective on the types used) *)
Theorem ty_of_string_of_ty : forall t, In t schema_types -> ty_of_string (string_of_ty t) = Some t.
Proof.
  assert (F : Forall (fun t => ty_of_string (string_of_ty t) = Some t) schema_types).
  { unfold schema_types. cbn [flat_map all_classes]. unfold schema, fld, fldc, opt, md_ty, md_any. cbn [map fty app].
    repeat (apply Forall_cons; [vm_compute; reflexivity|]). apply Forall_nil. }
  rewrite Forall_forall in F. exact F.
Qed.

(* which fields carry generic_type_validator *)
Theorem generic_validated_match_generated : forall c, map fname (filter fgeneric (schema c)) = generated_generic c.
Proof. intro c. destruct c; vm_compute; reflexivity. Qed.

(* enum members and the literal lists of the in_ validators *)
Theorem enums_match_generated :
  members ESnapshotTarget = SNAPSHOT_TARGET_TYPES /\ members EReleaseTarget = RELEASE_TARGET_TYPES /\
  members ERevisionType = REVISION_TYPES /\ members EAuthorityType = METADATA_AUTHORITY_TYPES /\
  visit_statuses = VISIT_STATUSES /\ dir_entry_types = DIR_ENTRY_TYPES /\
  content_statuses = CONTENT_STATUSES /\ skipped_content_statuses = SKIPPED_CONTENT_STATUSES /\
  content_statuses ++ skipped_content_statuses = BASE_CONTENT_STATUSES.
Proof. repeat split; vm_compute; reflexivity. Qed.
