(* C08_grammar_shape: the layout of the printed text (fixed qualifier order,
   escaping of ';', '%' and whitespace inside origin and path). *)
From Coq Require Import List NArith ZArith Bool Lia Arith.
From SWH.lib Require Import Bytes Dec Hex Utf8 Percent.
From SWH Require Import Generated.
From SWH.model Require Import Swhid.
From SWH.proofs Require Import SwhidTables SwhidLib PercentProofs SwhidProofs.
Import ListNotations.
Open Scope N_scope.

Definition opt_item (k : text) (o : option text) : text :=
  match o with Some t => [59] ++ k ++ [61] ++ t | None => [] end.

Definition is_hex (c : N) : bool := match hexval c with Some _ => true | None => false end.

(* no ';', no whitespace, and every '%' starts a two-hex-digit escape *)
Fixpoint well_escaped (t : text) : bool :=
  match t with
  | [] => true
  | c :: t' =>
      if c =? 37 then
        match t' with
        | a :: b :: _ => is_hex a && is_hex b && well_escaped t'
        | _ => false
        end
      else negb (c =? 59) && negb (is_space c) && well_escaped t'
  end.

Lemma well_escaped_cons : forall c t', well_escaped (c :: t') =
  if c =? 37 then
    match t' with
    | a :: b :: _ => is_hex a && is_hex b && well_escaped t'
    | _ => false
    end
  else negb (c =? 59) && negb (is_space c) && well_escaped t'.
Proof. reflexivity. Qed.

Lemma well_escaped_plain : forall c rest, c <> 37 -> c <> 59 -> is_space c = false ->
  well_escaped (c :: rest) = well_escaped rest.
Proof.
  intros c rest H1 H2 H3. cbn [well_escaped]. apply N.eqb_neq in H1, H2. rewrite H1, H2, H3. reflexivity.
Qed.

Lemma esc_char_well_escaped : forall c rest, well_escaped (esc_char c ++ rest) = well_escaped rest.
Proof.
  intros c rest. destruct (is_space c) eqn:S.
  - revert c S rest. apply (is_space_cases (fun c => forall rest, well_escaped (esc_char c ++ rest) = well_escaped rest)).
    repeat constructor; intro rest; reflexivity.
  - unfold esc_char. rewrite S. destruct (N.eqb_spec c 37) as [E|E]; [reflexivity|].
    destruct (N.eqb_spec c 59) as [E2|E2]; [reflexivity|]. cbn [app]. apply well_escaped_plain; assumption.
Qed.

Lemma esc_origin_well_escaped : forall o, well_escaped (flat_map esc_char o) = true.
Proof.
  induction o as [|c o IH]; [reflexivity|]. cbn [flat_map]. rewrite esc_char_well_escaped. exact IH.
Qed.

Lemma qsafe_plain : forall c rest, qsafe c = true -> c <> 37 -> well_escaped (c :: rest) = well_escaped rest.
Proof.
  intros c rest H N37. destruct (qsafe_props c H) as [_ [S [N59 _]]]. apply well_escaped_plain; assumption.
Qed.

Lemma upper_hex_facts : forall n, n < 16 ->
  is_hex (hexdigit_upper n) = true /\ qsafe (hexdigit_upper n) = true /\ hexdigit_upper n <> 37.
Proof.
  assert (H : forallb (fun n => is_hex (hexdigit_upper n) && qsafe (hexdigit_upper n) && negb (hexdigit_upper n =? 37))
                      (below 16) = true) by (vm_compute; reflexivity).
  intros n Hn. pose proof (forall_below _ 16 H n Hn) as X. cbv beta in X. b2p X. tauto.
Qed.

Lemma quote_byte_well_escaped : forall b rest, b < 256 -> well_escaped (quote_byte b ++ rest) = well_escaped rest.
Proof.
  intros b rest Hb. unfold quote_byte. destruct (always_safe b || (b =? 47)) eqn:S.
  - cbn [app]. apply qsafe_plain; [unfold qsafe; rewrite S; reflexivity | apply safe_not_pct, S].
  - unfold pct_byte. cbn [app].
    assert (H1 : b / 16 < 16) by (apply N.div_lt_upper_bound; [discriminate | exact Hb]).
    assert (H2 : b mod 16 < 16) by (apply N.mod_lt; discriminate).
    destruct (upper_hex_facts _ H1) as [A1 [A2 A3]]. destruct (upper_hex_facts _ H2) as [B1 [B2 B3]].
    rewrite well_escaped_cons. rewrite N.eqb_refl, A1, B1. cbn [andb].
    rewrite qsafe_plain by assumption. apply qsafe_plain; assumption.
Qed.

Lemma quote_well_escaped : forall p, wf_bytes p = true -> well_escaped (quote_from_bytes p) = true.
Proof.
  induction p as [|b p IH]; intro H; [reflexivity|].
  cbn [wf_bytes forallb] in H. apply andb_true_iff in H. destruct H as [Hb Hp].
  unfold wf_byte in Hb. apply N.ltb_lt in Hb. unfold quote_from_bytes. cbn [flat_map].
  rewrite quote_byte_well_escaped by exact Hb. apply IH, Hp.
Qed.

Lemma render_entries : forall vo vv va vp vl,
  flat_map render (entries vo vv va vp vl) =
  opt_item K_origin vo ++ opt_item K_visit vv ++ opt_item K_anchor va ++ opt_item K_path vp ++ opt_item K_lines vl.
Proof.
  intros [?|] [?|] [?|] [?|] [?|]; cbn [entries opt_entry app flat_map render item fst snd opt_item];
    rewrite <- ?app_assoc; cbn [app]; rewrite ?app_nil_r; reflexivity.
Qed.

Theorem printed_shape : forall (lim : N) (v : qualified) (s : text), wf_q lim v -> print_q lim v = Ok s ->
  exists eo ep el,
    s = print_core (core_of v)
        ++ opt_item K_origin eo ++ opt_item K_visit (option_map print_core (q_visit v))
        ++ opt_item K_anchor (option_map print_core (q_anchor v)) ++ opt_item K_path ep ++ opt_item K_lines el /\
    print_core (core_of v) = S_swh1 ++ q_ty v ++ [58] ++ hexlify (q_oid v) /\
    forallb is_lower_hex (hexlify (q_oid v)) = true /\
    (forall t, eo = Some t -> well_escaped t = true /\ exists o, q_origin v = Some o /\ unquote t = o) /\
    (forall t, ep = Some t -> well_escaped t = true /\ exists p, q_path v = Some p /\ unquote_to_bytes t = Some p) /\
    (eo = None <-> q_origin v = None) /\ (ep = None <-> q_path v = None) /\ (el = None <-> q_lines v = None).
Proof.
  intros lim v s W H. unfold print_q, print_q_gen in H. rewrite tbl_print_order in H.
  destruct (print_quals esc_origin lim v FIELD_KEYS) as [r|] eqn:P; [|discriminate]. cbn [bind] in H.
  inversion H; subst s. clear H. apply print_quals_inv in P.
  destruct P as [vo [vv [va [vp [vl [E1 [E2 [E3 [E4 [E5 Er]]]]]]]]]].
  destruct (qual_value_keys esc_origin lim v) as [Q1 [Q2 [Q3 [Q4 Q5]]]].
  rewrite Q2 in E2. rewrite Q3 in E3. rewrite Q4 in E4. inversion E2; inversion E3; inversion E4; subst vv va vp.
  exists vo, (option_map quote_from_bytes (q_path v)), vl.
  destruct W as [_ [_ [Wb [_ [_ [Wp _]]]]]].
  split; [rewrite Er, render_entries; reflexivity|].
  split; [apply (print_core_eq (core_of v))|].
  split; [apply hexlify_lower, Wb|].
  rewrite Q1 in E1. rewrite Q5 in E5.
  split.
  { intros t Et. subst vo. destruct (q_origin v) as [o|]; [|discriminate].
    rewrite print_origin_ok in E1. cbn [bind] in E1. inversion E1; subst t.
    split; [apply esc_origin_well_escaped|]. exists o. split; [reflexivity | apply unquote_esc_origin]. }
  split.
  { intros t Et. destruct (q_path v) as [p|] eqn:Ep; [|discriminate]. inversion Et; subst t.
    split; [apply quote_well_escaped, (Wp p eq_refl)|]. exists p. split; [reflexivity|].
    apply unquote_to_bytes_quote, (Wp p eq_refl). }
  split.
  { destruct (q_origin v) as [o|].
    - rewrite print_origin_ok in E1. cbn [bind] in E1. inversion E1. split; discriminate.
    - inversion E1. split; reflexivity. }
  split.
  { destruct (q_path v); split; intro X; try discriminate; reflexivity. }
  destruct (q_lines v) as [l|].
  - destruct (print_lines lim l); [|discriminate]. cbn [bind] in E5. inversion E5. split; discriminate.
  - inversion E5. split; reflexivity.
Qed.
