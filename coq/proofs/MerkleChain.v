(* No depth limit in the model: the chain of n nested nodes, for EVERY n,
   satisfies the invariant; all the C10 / C14 theorems therefore apply to it
   (hash reads, forced updates, collects, resets succeed and are fresh whatever
   the depth; the recursive procedures take their fuel from the heap size). *)
From Coq Require Import List NArith Bool Arith Lia.
From SWH.lib Require Import Bytes.
From SWH.model Require Import Merkle.
From SWH.proofs Require Import MerkleBase MerkleAcyclic MerkleInv MerkleHash MerkleMut MerkleCollect MerkleStep MerkleTotal.
Import ListNotations.
Local Open Scope nat_scope.

(* node i of the chain: child i+1 under the name [key] (none for the last), parent i-1 (none for the first),
   nothing cached, nothing collected *)
Definition chain_node (d key : bytes) (n i : nat) : node :=
  mkNode KNode d (if S i <? n then [(key, S i)] else []) (match i with O => [] | S j => [j] end)
         None false None None.
Definition chain_heap (d key : bytes) (n : nat) : heap := map (chain_node d key n) (seq 0 n).

Lemma nth_map_seq : forall (f : nat -> node) n a i,
  nth_error (map f (seq a n)) i = if i <? n then Some (f (a + i)) else None.
Proof.
  intros f. induction n as [|n IH]; intros a i; simpl.
  - destruct i; reflexivity.
  - destruct i as [|i]; simpl.
    + rewrite Nat.add_0_r. reflexivity.
    + rewrite IH. replace (S a + i) with (a + S i) by lia.
      destruct (Nat.ltb_spec i n); destruct (Nat.ltb_spec (S i) (S n)); try lia; reflexivity.
Qed.

Lemma chain_nth : forall d key n i x, nth_error (chain_heap d key n) i = Some x -> i < n /\ x = chain_node d key n i.
Proof.
  intros d key n i x H. unfold chain_heap in H. rewrite nth_map_seq in H.
  destruct (Nat.ltb_spec i n); [|discriminate]. inversion H. auto.
Qed.

Lemma chain_length : forall d key n, length (chain_heap d key n) = n.
Proof. intros. unfold chain_heap. rewrite map_length, seq_length. reflexivity. Qed.

Section WithNH.
Variable NH : bytes -> list entry -> bytes.

Lemma chain_inv : forall d key n, InvA NH (chain_heap d key n).
Proof.
  intros d key n. set (s := chain_heap d key n).
  assert (Len : length s = n) by apply chain_length.
  split; [split|].
  - split.
    + intros i x nm k E Hin. apply chain_nth in E. destruct E as [L ->]. simpl in Hin.
      destruct (Nat.ltb_spec (S i) n); [|contradiction]. destruct Hin as [Eq|[]]. inversion Eq. rewrite Len. lia.
    + intros i x E q Hin. apply chain_nth in E. destruct E as [L ->]. simpl in Hin.
      destruct i; [contradiction|]. destruct Hin as [<-|[]]. rewrite Len. lia.
    + intros i x E H. apply chain_nth in E. destruct E as [_ ->]. discriminate.
    + intros p x c y E Ec. apply chain_nth in E. destruct E as [Lp ->]. apply chain_nth in Ec. destruct Ec as [Lc ->].
      unfold cnt, chain_node. cbn [kids parents]. destruct (S p <? n); cbn [map snd count_occ]; [|lia].
      destruct (Nat.eq_dec (S p) c) as [<-|N]; [|lia].
      cbn [count_occ]. destruct (Nat.eq_dec p p); [lia | congruence].
    + intros i x es E M. apply chain_nth in E. destruct E as [_ ->]. discriminate.
    + intros i x es E M. apply chain_nth in E. destruct E as [_ ->]. discriminate.
  - intros i x E C. apply chain_nth in E. destruct E as [_ ->]. discriminate.
  - exists (fun i => n - i). intros a b (x & nm & E & Hin). apply chain_nth in E. destruct E as [L ->]. simpl in Hin.
    destruct (Nat.ltb_spec (S a) n); [|contradiction]. destruct Hin as [Eq|[]]. inversion Eq. lia.
Qed.

(* the chain is n levels deep: the bottom is below the top *)
Lemma chain_reach : forall d key n i j, i <= j -> j < n -> Reach (chain_heap d key n) i j.
Proof.
  intros d key n i j Hij Hj. remember (j - i) as k eqn:Ek. revert i Hij Ek.
  induction k as [|k IH]; intros i Hij Ek.
  - assert (i = j) by lia. subst. apply Reach_refl. rewrite chain_length. exact Hj.
  - eapply Reach_step; [|apply (IH (S i)); lia].
    exists (chain_node d key n i), key. split.
    + unfold chain_heap. rewrite nth_map_seq. destruct (Nat.ltb_spec i n); [reflexivity | lia].
    + simpl. destruct (Nat.ltb_spec (S i) n); [left; reflexivity | lia].
Qed.

(* ANY DEPTH.  On the chain of n nodes, for every n: after any guarded history h
   (mutations at the bottom, anywhere), reading or forcing the hash of any node -
   the top in particular - succeeds and returns the from-scratch hash; and no
   operation whatsoever answers "out of fuel". *)
Lemma chain_any_depth : forall d key n h o,
  guarded NH true false (chain_heap d key n) h ->
  guard NH true false (final NH true false (chain_heap d key n) h) o ->
  let s := final NH true false (chain_heap d key n) h in
  let s' := fst (step NH true false s o) in
  (forall m, m < length s -> o = OHash m \/ o = OForce m ->
     exists hv, snd (step NH true false s o) = OutHash hv /\ Fresh NH s' m hv /\ Fresh NH s m hv) /\
  (forall e, snd (step NH true false s o) = OutErr e -> e <> EFuel).
Proof.
  intros d key n h o GH GO s s'. pose proof (chain_inv d key n) as IA0.
  split.
  - apply (proj1 (no_stale_from NH (chain_heap d key n) h o IA0 GH GO)).
  - intros e He. apply (step_nofuel NH s o e); auto. apply (reachable_inv NH h _ IA0 GH).
Qed.

(* directly on the untouched chain: hash at the top, collect at the top *)
Lemma chain_top_ops : forall d key n, 0 < n ->
  let s := chain_heap d key n in
  (exists s' hv, step NH true false s (OHash 0) = (s', OutHash hv) /\ Fresh NH s 0 hv) /\
  (exists s' L, step NH true false s (OCollect 0) = (s', OutNodes L) /\ forall i, i < n -> In i L).
Proof.
  intros d key n Hn s. pose proof (chain_inv d key n) as IA. fold s in IA.
  assert (L0 : 0 < length s) by (unfold s; rewrite chain_length; exact Hn).
  split.
  - destruct (hash_op_ok NH false 0 s IA L0) as (s' & hv & E & _ & _ & _ & _ & _ & F).
    exists s', hv. split; auto. unfold step, read_hash. rewrite E. reflexivity.
  - destruct (collect_step NH s 0 IA L0) as (s' & L & E & _ & CG & CA & FL & _).
    exists s', L. split; auto. intros i Hi.
    assert (Ri : Reach s 0 i) by (apply chain_reach; lia).
    destruct (CA i Ri) as (x' & Ex' & Cx'). destruct (F2_nth_r _ _ _ _ _ CG Ex') as (x & Ex & _).
    eapply FL; eauto. apply chain_nth in Ex. destruct Ex as [_ ->]. reflexivity.
Qed.

End WithNH.

(* the chain heap is what the history "create n nodes, link each under the previous one" builds (instance) *)
Example chain_heap_built : forall NH,
  final NH true false []
    [ONew KNode [120%N]; ONew KNode [120%N]; ONew KNode [120%N]; ONew KNode [120%N];
     OSet 2 [97%N] 3; OSet 1 [97%N] 2; OSet 0 [97%N] 1]
  = chain_heap [120%N] [97%N] 4.
Proof. intro NH. vm_compute. reflexivity. Qed.
