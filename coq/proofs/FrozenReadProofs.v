(* Proofs about coq/model/Frozen.v (property C11), part 6: read operations are
   pure.  Every ImmutableDict made by the current code wraps a PLAIN dict
   (factory flag false), whatever dict subclass it was built from; a lookup
   of a missing key in a plain dict inserts nothing. *)
From Coq Require Import List NArith Bool Arith Lia.
From SWH.lib Require Import Bytes Order StableSort.
From SWH Require Import Generated.
From SWH.model Require Import Frozen.
From SWH.proofs Require Import FrozenProofs FrozenAliasProofs FrozenMappingProofs.
Import ListNotations.
Local Open Scope nat_scope.

(* the mapping wraps a plain dict (a value that is not a frozen mapping has nothing to say) *)
Definition plain (s : store) (v : pyval) : Prop :=
  match v with
  | VIDict h => exists it, lookup s h = Some (PyDict false it)
  | _ => True
  end.

Lemma plain_ext : forall s s' v, Ext s s' -> plain s v -> plain s' v.
Proof.
  intros s s' v He H. destruct v; simpl in *; auto. destruct H as [it L]. exists it.
  eapply Ext_lookup; eauto.
Qed.

Lemma hfree_plain : forall s v, hfree v = true -> plain s v.
Proof. intros s v H. destruct v; simpl in *; auto. discriminate. Qed.

Lemma plain_fresh : forall s it, plain (s ++ [PyDict false it]) (VIDict (length s)).
Proof.
  intros s it. simpl. exists it. pose proof (lookup_fresh s (PyDict false it) []) as L.
  rewrite app_nil_r in L. exact L.
Qed.

(* a keyed lookup in a plain dict leaves the store alone *)
Lemma data_getitem_plain : forall s h k it,
  lookup s h = Some (PyDict false it) -> fst (data_getitem s h k) = s.
Proof. intros s h k it L. unfold data_getitem. rewrite L. destruct (assoc k it); reflexivity. Qed.

Lemma do_read_pure : forall s v fld r,
  (forall t, read_target v fld = Some t -> plain s t) ->
  fst (do_read s v fld r) = s.
Proof.
  intros s v fld r H. unfold do_read.
  destruct r; try reflexivity;
    (destruct (read_target v fld) as [t|] eqn:E; [|reflexivity];
     destruct t; try reflexivity;
     destruct (H _ eq_refl) as [it L];
     pose proof (data_getitem_plain s h k it L) as P;
     destruct (data_getitem s h k) as [s' x]; simpl in *; exact P).
Qed.

Lemma get_field_In : forall name rows vals x, get_field name rows vals = Some x -> In x vals.
Proof.
  induction rows as [|r rows IH]; intros vals x H; simpl in H; [discriminate|].
  destruct vals as [|v vals]; [discriminate|]. destruct (beqb name (f_name r)).
  - inversion H; subst. left. reflexivity.
  - right. eapply IH; eauto.
Qed.

(* every mapping reachable by a read of [o]: o itself, or a field of o *)
Definition top_plain (s : store) (o : pyval) : Prop :=
  plain s o /\ match o with VObj _ vals => Forall (plain s) vals | _ => True end.

Lemma top_plain_target : forall s o fld t, top_plain s o -> read_target o fld = Some t -> plain s t.
Proof.
  intros s o fld t [Ho Hf] H. unfold read_target in H. destruct fld as [name|].
  - destruct o; try discriminate. destruct (class_fields ALL_CLASSES cls); [|discriminate].
    rewrite Forall_forall in Hf. apply Hf. eapply get_field_In; eauto.
  - inversion H; subst. exact Ho.
Qed.

Lemma run_reads_pure : forall reads s o, top_plain s o -> run_reads s o reads = s.
Proof.
  unfold run_reads. induction reads as [|[fld r] reads IH]; intros s o H; simpl; [reflexivity|].
  rewrite (do_read_pure s o fld r); [apply IH; exact H|].
  intros t Ht. eapply top_plain_target; eauto.
Qed.

(* ------------------------------------------------------------------ *)
(* the current constructors only produce plain mappings *)

Lemma idict_of_seq_plain : forall s l v s', idict_of_seq s l = Ok (v, s') -> plain s' v.
Proof.
  intros s l v s' H. unfold idict_of_seq in H. destruct (seq_opt (map (as_kv s) l)); [|discriminate].
  unfold alloc in H. inversion H; subst. apply plain_fresh.
Qed.

Lemma idict_init_plain : forall s v v' s', plain s v -> idict_init New s v = Ok (v', s') -> plain s' v'.
Proof.
  intros s v v' s' Hp H. unfold idict_init in H. destruct v; try discriminate.
  - eapply idict_of_seq_plain; eauto.
  - inversion H; subst. exact Hp.
  - destruct (lookup s h) as [[fac it|l]|]; try discriminate.
    + unfold alloc in H. inversion H; subst. apply plain_fresh.
    + eapply idict_of_seq_plain; eauto.
Qed.

Lemma conv_one_plain : forall f rt cls fname s v v' s',
  plain s v -> conv_one New f rt cls fname s v = Ok (v', s') -> plain s' v'.
Proof.
  intros f rt cls fname s v v' s' Hp H. unfold conv_one in H. destruct (arg_kind cls fname).
  - destruct rt.
    + destruct (checked_ok v); [|discriminate]. inversion H; subst. exact Hp.
    + destruct (freeze f s v) eqn:Z; [|discriminate]. inversion H; subst.
      apply hfree_plain. eapply freeze_hfree; eauto.
  - destruct (match rt with FromDict => is_rebuild cls fname | Ctor => false end).
    + destruct (freeze f s v) as [[]|]; try discriminate. eapply idict_of_seq_plain; eauto.
    + destruct v; try discriminate; try (inversion H; subst; exact Hp).
      destruct (lookup s h) as [[fac it|l]|] eqn:L; try discriminate.
      eapply (idict_init_plain s (VRef h)); [exact I | exact H].
  - destruct (tuplify s v); [|discriminate]. destruct (atom_pairs a) eqn:P; [|discriminate].
    inversion H; subst. apply hfree_plain. apply atom_pairs_hfree. exact P.
  - inversion H; subst. exact Hp.
Qed.

Lemma conv_fields_plain : forall f rt cls rows args s vals s',
  Forall (plain s) args -> conv_fields New f rt cls rows args s = Ok (vals, s') -> Forall (plain s') vals.
Proof.
  induction rows as [|r rows IH]; intros args s vals s' Hp H; simpl in H.
  - destruct args; [|discriminate]. inversion H; subst. constructor.
  - destruct args as [|a args]; [discriminate|]. inversion Hp as [|? ? Ha Hargs]; subst.
    destruct (conv_one New f rt cls (f_name r) s a) as [[v s1]|] eqn:C; [|discriminate].
    destruct (conv_fields New f rt cls rows args s1) as [[vs s2]|] eqn:C2; [|discriminate].
    inversion H; subst.
    pose proof (conv_one_ext _ _ _ _ _ _ _ _ C) as E1.
    pose proof (conv_fields_ext _ _ _ _ _ _ _ _ C2) as E2.
    constructor.
    + eapply plain_ext; [exact E2 | eapply conv_one_plain; eauto].
    + eapply IH; [|exact C2]. eapply Forall_impl; [|exact Hargs]. intros x Hx. eapply plain_ext; eauto.
Qed.

Lemma copy_pop_plain : forall f s v k x md s', copy_pop New f s v k = Ok (x, md, s') -> plain s' md.
Proof.
  intros f s v k x md s' H. unfold copy_pop in H. destruct v; try discriminate.
  destruct (lookup s h) as [[fac it|l]|]; try discriminate.
  destruct (deepcopy f s (VIDict h)) as [[| | | | | | |m kvs]|]; try discriminate.
  unfold alloc in H. inversion H; subst. apply plain_fresh.
Qed.

Section WithHash.
  Variable Hid : rval -> atom.
  Variable Hpy : rval -> N.

  Lemma post_id_plain : forall f cls rows vals s,
    Forall (plain s) vals -> Forall (plain s) (post_id Hid f cls rows vals s).
  Proof.
    intros f cls rows vals s H. unfold post_id.
    destruct (get_field ID rows vals) as [[]|]; try exact H.
    destruct (beqb a EMPTY_BYTES); [|exact H]. apply set_field_Forall; [exact H | exact I].
  Qed.

  Lemma post_revision_plain : forall f cls rows vals s vals' s',
    Forall (plain s) vals -> post_revision New f cls rows vals s = Ok (vals', s') -> Forall (plain s') vals'.
  Proof.
    intros f cls rows vals s vals' s' HF H. unfold post_revision in H.
    assert (Triv : forall vals0 s0, Ok (vals, s) = Ok (vals0, s0) -> Forall (plain s0) vals0).
    { intros vals0 s0 E. inversion E; subst. exact HF. }
    destruct (negb (beqb cls (bs "Revision"))); [eapply Triv; exact H|].
    destruct (get_field K_META rows vals) as [[| | | |hm| | |]|]; try (eapply Triv; exact H).
    destruct (get_field K_XH rows vals) as [[| |[|? ?]| | | | |]|]; try (eapply Triv; exact H).
    destruct (lookup s hm) as [[fac it|l]|]; try (eapply Triv; exact H).
    destruct (assoc XH_KEY it) as [xh|]; [|eapply Triv; exact H].
    destruct (copy_pop New f s (VIDict hm) XH_KEY) as [[[xh' md] s2]|] eqn:CP; [|discriminate].
    destruct (tuplify s2 xh') as [t|]; [|discriminate].
    destruct (atom_pairs t) eqn:P; [|discriminate]. inversion H; subst.
    apply set_field_Forall; [apply set_field_Forall|].
    - eapply Forall_impl; [|exact HF]. intros x Hx. eapply plain_ext; [eapply copy_pop_ext; eauto | exact Hx].
    - eapply copy_pop_plain; eauto.
    - apply hfree_plain. apply atom_pairs_hfree. exact P.
  Qed.

  Lemma construct_plain : forall f rt cls s args o s',
    Forall (plain s) args -> construct Hid New f rt cls s args = Ok (o, s') -> top_plain s' o.
  Proof.
    intros f rt cls s args o s' Hp H. unfold construct in H. destruct (beqb cls IDICT).
    - destruct args as [|v [|? ?]]; try discriminate. inversion Hp; subst.
      pose proof (idict_init_plain s v o s' H2 H) as P. split; [exact P|]. destruct o; auto.
      exfalso. unfold idict_init, idict_of_seq, alloc in H. destruct v; try discriminate.
      + destruct (seq_opt (map (as_kv s) l)); discriminate.
      + destruct (lookup s h) as [[fac it|l]|]; try discriminate.
        destruct (seq_opt (map (as_kv s) l)); discriminate.
    - destruct (class_fields ALL_CLASSES cls) as [rows|]; [|discriminate].
      destruct (conv_fields New f rt cls rows args s) as [[vals s2]|] eqn:C; [|discriminate].
      destruct (post_revision New f cls rows (post_id Hid f cls rows vals s2) s2) as [[vals' s3]|] eqn:R; [|discriminate].
      inversion H; subst. split; [exact I|].
      eapply post_revision_plain; [|exact R]. apply post_id_plain. eapply conv_fields_plain; eauto.
  Qed.

  (* READS ARE PURE: after building an object with the current code from any
     arguments (dict arguments of any dict subclass included; ImmutableDict
     arguments made by the current code), no sequence of read operations on the
     object or on its mapping-typed fields changes the store - hence no
     observation of anything. *)
  Theorem reads_are_pure : forall f rt cls s0 args o s1 reads,
    Forall (plain s0) args ->
    construct Hid New f rt cls s0 args = Ok (o, s1) ->
    run_reads s1 o reads = s1.
  Proof. intros. apply run_reads_pure. eapply construct_plain; eauto. Qed.

  Theorem reads_are_pure_from_dict : forall f cls s0 d args o s1 reads,
    from_dict_reads s0 cls d = Some args -> Forall (plain s0) args ->
    from_dict Hid New f cls s0 d = Ok (o, s1) ->
    run_reads s1 o reads = s1.
  Proof.
    intros f cls s0 d args o s1 reads Hr Hp Hc. unfold from_dict_reads in Hr. unfold from_dict in Hc.
    destruct d; try discriminate. destruct (lookup s0 h) as [[? items|?]|]; try discriminate.
    destruct (class_fields ALL_CLASSES cls) as [rows|]; try discriminate. rewrite Hr in Hc.
    eapply reads_are_pure; eauto.
  Qed.

  (* ... and the mapping returned by copy_pop is plain too *)
  Theorem reads_are_pure_copy_pop : forall f s v k x md s' reads,
    copy_pop New f s v k = Ok (x, md, s') -> run_reads s' md reads = s'.
  Proof.
    intros. apply run_reads_pure. split; [eapply copy_pop_plain; eauto|].
    unfold copy_pop in H. destruct v; try discriminate. destruct (lookup s h) as [[fac it|l]|]; try discriminate.
    destruct (deepcopy f s (VIDict h)) as [[| | | | | | |m kvs]|]; try discriminate.
    unfold alloc in H. inversion H; subst. exact I.
  Qed.
End WithHash.

(* ------------------------------------------------------------------ *)
(* Accessors (to_dict, items / keys / values, hashes, unique_key, qualifiers, hash, ==, iteration, len):
   functions of the abstract content.  Their result is an [rval] - a type that has NO handle
   constructor: what they hand out cannot be used to write to the store ("fresh values") - and
   calling them changes nothing, in ANY store (no plainness hypothesis is needed: they take no key). *)
Definition content_read (r : readkind) : bool :=
  match r with RdContains _ | RdGet _ | RdGetItem _ => false | _ => true end.

Theorem accessors_pure : forall s v fld r, content_read r = true -> do_read s v fld r = (s, None).
Proof. intros s v fld r H. destruct r; try discriminate; reflexivity. Qed.

(* the value an accessor returns is determined by the content: two objects with the same content
   (an object and its twin; the same object before and after the caller has mutated what a previous
   call returned - the store is the same) return the same value *)
Theorem accessor_value_function_of_content : forall g s s' x y,
  resolve g s x = resolve g s' y ->
  to_dict ALL_CLASSES (resolve g s x) = to_dict ALL_CLASSES (resolve g s' y) /\
  norm ALL_CLASSES (resolve g s x) = norm ALL_CLASSES (resolve g s' y).
Proof. intros g s s' x y E. rewrite E. split; reflexivity. Qed.
