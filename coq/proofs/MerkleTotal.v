(* No operation of a guarded history runs out of fuel.  The path-key lookups
   (__getitem__ / __contains__ of Directory) consume at least one byte of key
   per level: key.split(b"/", 1) leaves a strictly shorter remainder. *)
From Coq Require Import List NArith Bool Arith Lia.
From SWH.lib Require Import Bytes.
From SWH.model Require Import Merkle.
From SWH.proofs Require Import MerkleBase MerkleAcyclic MerkleInv MerkleHash MerkleMut MerkleCollect MerkleStep.
Import ListNotations.
Local Open Scope nat_scope.

Lemma get_err : forall s n e, get s n = Err e -> e = EHandle.
Proof. intros s n e H. unfold get in H. destruct (nth_error s n); congruence. Qed.

Lemma split1_len : forall key k1 k2, split1 key = (k1, Some k2) -> length k1 + length k2 < length key.
Proof.
  intros key k1 k2 H. unfold split1 in H. apply cut_some_inv in H. destruct H as [-> _].
  rewrite app_length. simpl. lia.
Qed.

Lemma getitem_nofuel : forall fuel s n key e, length key < fuel -> getitem fuel s n key = Err e -> e <> EFuel.
Proof.
  induction fuel as [|f IH]; intros s n key e L H; [lia|]. simpl in H.
  destruct (get s n) as [x|e0] eqn:G; simpl in H; [|inversion H; subst; rewrite (get_err _ _ _ G); discriminate].
  destruct (kind x); try (inversion H; discriminate).
  - destruct (kget key (kids x)); inversion H; discriminate.
  - destruct key as [|b key']; [discriminate|].
    destruct (split1 (b :: key')) as [k1 [k2|]] eqn:Sp.
    + pose proof (split1_len _ _ _ Sp) as Ls.
      destruct (getitem f s n k1) as [t|e1] eqn:G1; simpl in H.
      * eapply (IH s t k2); eauto. simpl in *. lia.
      * inversion H; subst. eapply (IH s n k1); eauto. simpl in *. lia.
    + destruct (kget (b :: key') (kids x)); inversion H; discriminate.
Qed.

Lemma getitem__nofuel : forall s n key e, getitem_ s n key = Err e -> e <> EFuel.
Proof. intros s n key e H. unfold getitem_ in H. eapply (getitem_nofuel _ s n key); [|exact H]. lia. Qed.

Lemma contains_nofuel : forall fuel s n key e, length key < fuel -> contains fuel s n key = Err e -> e <> EFuel.
Proof.
  induction fuel as [|f IH]; intros s n key e L H; [lia|]. simpl in H.
  destruct (get s n) as [x|e0] eqn:G; simpl in H; [|inversion H; subst; rewrite (get_err _ _ _ G); discriminate].
  destruct (kind x); try (inversion H; discriminate).
  destruct (split1 key) as [k1 [k2|]] eqn:Sp; [|discriminate].
  pose proof (split1_len _ _ _ Sp) as Ls.
  destruct (kmem k1 (kids x)); [|discriminate].
  destruct (getitem_ s n k1) as [t|e1] eqn:G1; simpl in H.
  - eapply (IH s t k2); eauto. lia.
  - inversion H; subst. eapply getitem__nofuel; eauto.
Qed.

Lemma contains__nofuel : forall s n key e, contains_ s n key = Err e -> e <> EFuel.
Proof. intros s n key e H. unfold contains_ in H. eapply (contains_nofuel _ s n key); [|exact H]. lia. Qed.

Lemma inval_nofuel : forall n s e, wfp s -> inval n s = Err e -> e <> EFuel.
Proof.
  intros n s e W H. destruct (lt_dec n (length s)) as [L|L].
  - destruct (inval_ok n s W L) as (s' & E & _). congruence.
  - unfold inval in H. simpl in H. destruct (get s n) as [x|e0] eqn:G; simpl in H.
    + exfalso. apply L. apply get_Ok in G. eapply nth_lt; eauto.
    + inversion H; subst. rewrite (get_err _ _ _ G). discriminate.
Qed.

Lemma add_parent_nofuel : forall s c p e, add_parent s c p = Err e -> e <> EFuel.
Proof.
  intros s c p e H. unfold add_parent in H. destruct (get s c) eqn:G; simpl in H; [discriminate|].
  inversion H; subst. rewrite (get_err _ _ _ G). discriminate.
Qed.

Lemma remove_parent_nofuel : forall b s c p e, remove_parent b s c p = Err e -> e <> EFuel.
Proof.
  intros b s c p e H. unfold remove_parent in H. destruct (get s c) eqn:G; simpl in H.
  - destruct (remove_first _ (parents a)); inversion H; discriminate.
  - inversion H; subst. rewrite (get_err _ _ _ G). discriminate.
Qed.

Lemma raw_setitem_nofuel : forall s t key c e, wfp s -> raw_setitem s t key c = Err e -> e <> EFuel.
Proof.
  intros s t key c e W H. unfold raw_setitem in H.
  destruct (get s c) eqn:G; simpl in H; [|inversion H; subst; rewrite (get_err _ _ _ G); discriminate].
  destruct (inval t s) eqn:Ei; simpl in H; [eapply add_parent_nofuel; eauto|].
  inversion H; subst. eapply inval_nofuel; eauto.
Qed.

Lemma dir_checks_nofuel : forall s key c e, dir_value_checks s key c = Err e -> e <> EFuel.
Proof.
  intros s key c e H. unfold dir_value_checks in H.
  destruct (get s c) eqn:G; simpl in H; [|inversion H; subst; rewrite (get_err _ _ _ G); discriminate].
  destruct (negb (is_disk (kind a))); [inversion H; discriminate|].
  destruct key; [inversion H; discriminate|]. destruct (memb NUL (n :: key)); inversion H; discriminate.
Qed.

Lemma setitem_nofuel : forall s p key c e, wfp s -> setitem s p key c = Err e -> e <> EFuel.
Proof.
  intros s p key c e W H. unfold setitem in H.
  destruct (get s p) as [x|] eqn:G; simpl in H; [|inversion H; subst; rewrite (get_err _ _ _ G); discriminate].
  destruct (kind x); try (inversion H; discriminate); try (eapply raw_setitem_nofuel; eauto; fail).
  destruct (dir_value_checks s key c) eqn:D; simpl in H; [|inversion H; subst; eapply dir_checks_nofuel; eauto].
  destruct (rsplit1 key) as [k1 [k2|]]; try (eapply raw_setitem_nofuel; eauto; fail).
  destruct (getitem_ s p k1) as [t|] eqn:Gi; simpl in H; [|inversion H; subst; eapply getitem__nofuel; eauto].
  destruct (get s t) as [y|] eqn:Gt; simpl in H; [|inversion H; subst; rewrite (get_err _ _ _ Gt); discriminate].
  destruct (kind y); try (inversion H; discriminate); try (eapply raw_setitem_nofuel; eauto; fail).
  destruct (dir_value_checks s k2 c) eqn:D2; simpl in H; [eapply raw_setitem_nofuel; eauto|].
  inversion H; subst; eapply dir_checks_nofuel; eauto.
Qed.

Lemma raw_delitem_nofuel : forall b s t name s' e, wfp s -> raw_delitem b s t name = (s', Some e) -> e <> EFuel.
Proof.
  intros b s t name s' e W H. unfold raw_delitem in H.
  destruct (get s t) as [x|] eqn:G; [|inversion H; subst; rewrite (get_err _ _ _ G); discriminate].
  destruct (kget name (kids x)) as [c|]; [|inversion H; discriminate].
  destruct (inval t s) as [s1|] eqn:Ei; [|inversion H; subst; eapply inval_nofuel; eauto].
  destruct (remove_parent b s1 (self_lookup x t name c) t) eqn:Er; inversion H; subst. eapply remove_parent_nofuel; eauto.
Qed.

Lemma delitem_nofuel : forall b s p key s' e, wfp s -> delitem b s p key = (s', Some e) -> e <> EFuel.
Proof.
  intros b s p key s' e W H. unfold delitem in H.
  destruct (get s p) as [x|] eqn:G; [|inversion H; subst; rewrite (get_err _ _ _ G); discriminate].
  destruct (kind x); try (inversion H; discriminate); try (eapply raw_delitem_nofuel; eauto; fail).
  destruct (rsplit1 key) as [k1 [k2|]]; try (eapply raw_delitem_nofuel; eauto; fail).
  destruct (getitem_ s p k1) as [t|] eqn:Gi; simpl in H; [|inversion H; subst; eapply getitem__nofuel; eauto].
  destruct (get s t) as [y|] eqn:Gt; simpl in H; [|inversion H; subst; rewrite (get_err _ _ _ Gt); discriminate].
  destruct (kind y); try (inversion H; discriminate); eapply raw_delitem_nofuel; eauto.
Qed.

Lemma update_links_nofuel : forall b p l s s' e, update_links b s p l = (s', Some e) -> e <> EFuel.
Proof.
  intros b p. induction l as [|[name c] l IH]; intros s s' e H; simpl in H; [discriminate|].
  destruct (add_parent s c p) as [s1|] eqn:Ea; [|inversion H; subst; eapply add_parent_nofuel; eauto].
  destruct (contains_ s1 p name) as [[|]|] eqn:Ec; [| eapply IH; eauto | inversion H; subst; eapply contains__nofuel; eauto].
  destruct (getitem_ s1 p name) as [old|] eqn:Eg; simpl in H.
  - destruct (remove_parent b s1 old p) as [s2|] eqn:Er; [eapply IH; eauto|].
    inversion H; subst. eapply remove_parent_nofuel; eauto.
  - inversion H; subst. eapply getitem__nofuel; eauto.
Qed.

Lemma update_many_nofuel : forall b s p l s' e, wfp s -> update_many b s p l = (s', Some e) -> e <> EFuel.
Proof.
  intros b s p l s' e W H. unfold update_many in H.
  destruct (get s p) as [x|] eqn:G; [|inversion H; subst; rewrite (get_err _ _ _ G); discriminate].
  assert (K : match l with [] => (s, None) | _ :: _ =>
        match inval p s with
        | Ok s1 => let (s2, o) := update_links b s1 p l in
            match o with Some e0 => (s2, Some e0)
            | None => (upd p (fun x0 => set_kids (fold_left (fun ks nc => kset (fst nc) (snd nc) ks) l (kids x0)) x0) s2, None) end
        | Err e0 => (s, Some e0) end end = (s', Some e) -> e <> EFuel).
  { clear H. intro H. destruct l as [|it l0]; [discriminate|]. remember (it :: l0) as l1.
    destruct (inval p s) as [s1|] eqn:Ei; [|inversion H; subst; eapply inval_nofuel; eauto].
    destruct (update_links b s1 p l1) as [s2 [e0|]] eqn:Eu; inversion H; subst.
    eapply update_links_nofuel; eauto. }
  destruct (kind x); try (inversion H; discriminate); apply K; exact H.
Qed.

Section WithNH.
Variable NH : bytes -> list entry -> bytes.

(* every operation on a state satisfying the invariant: never OutErr EFuel *)
Lemma step_nofuel : forall s o e, InvA NH s -> snd (step NH true false s o) = OutErr e -> e <> EFuel.
Proof.
  intros s o e IA H. pose proof IA as [I Ac]. destruct (acyclic_bounded s Ac) as [rank Rk].
  pose proof (I_wfp NH s (proj1 I)) as W.
  destruct o as [k d|p key c|p key|p l|p key|p key|n|n|n|n|n|n|n d|n|a b]; unfold step in H;
    try (destruct (get s n) as [x|e0] eqn:G; simpl in H; [discriminate | inversion H; subst; rewrite (get_err _ _ _ G); discriminate]; fail).
  - discriminate.
  - destruct (setitem s p key c) eqn:E; simpl in H; [discriminate|]. inversion H; subst. eapply setitem_nofuel; eauto.
  - destruct (delitem true s p key) as [s' [e0|]] eqn:E; simpl in H; [|discriminate].
    inversion H; subst. eapply delitem_nofuel; eauto.
  - destruct (update_many true s p l) as [s' [e0|]] eqn:E; simpl in H; [|discriminate].
    inversion H; subst. eapply update_many_nofuel; eauto.
  - destruct (getitem_ s p key) eqn:E; simpl in H; [discriminate|]. inversion H; subst. eapply getitem__nofuel; eauto.
  - destruct (contains_ s p key) eqn:E; simpl in H; [discriminate|]. inversion H; subst. eapply contains__nofuel; eauto.
  - destruct (lt_dec n (length s)) as [L|L].
    + destruct (hash_op_ok NH false n s IA L) as (s2 & h2 & E2 & _). unfold read_hash in H. rewrite E2 in H. discriminate.
    + unfold read_hash in H. simpl in H. destruct (get s n) as [x|e0] eqn:G; simpl in H.
      * exfalso. apply L. apply get_Ok in G. eapply nth_lt; eauto.
      * inversion H; subst. rewrite (get_err _ _ _ G). discriminate.
  - destruct (lt_dec n (length s)) as [L|L].
    + destruct (hash_op_ok NH true n s IA L) as (s2 & h2 & E2 & _). unfold force_hash in H. rewrite E2 in H. discriminate.
    + unfold force_hash in H. simpl in H. destruct (get s n) as [x|e0] eqn:G; simpl in H.
      * exfalso. apply L. apply get_Ok in G. eapply nth_lt; eauto.
      * inversion H; subst. rewrite (get_err _ _ _ G). discriminate.
  - destruct (lt_dec n (length s)) as [L|L].
    + destruct (entries_ok NH rank n s (proj1 I) Rk L) as [(e1 & E & N1 & _)|(s' & es & x & E & _)];
        rewrite E in H; simpl in H; [inversion H; subst; auto | discriminate].
    + unfold entries in H. destruct (get s n) as [x|e0] eqn:G; simpl in H.
      * exfalso. apply L. apply get_Ok in G. eapply nth_lt; eauto.
      * inversion H; subst. rewrite (get_err _ _ _ G). discriminate.
  - destruct (lt_dec n (length s)) as [L|L].
    + destruct (to_model_ok NH rank n s (proj1 I) Rk L) as [(e1 & E & N1 & _)|(s' & es & x & E & _)];
        rewrite E in H; simpl in H; [inversion H; subst; auto | discriminate].
    + unfold to_model in H. destruct (get s n) as [x|e0] eqn:G; simpl in H.
      * exfalso. apply L. apply get_Ok in G. eapply nth_lt; eauto.
      * inversion H; subst. rewrite (get_err _ _ _ G). discriminate.
  - destruct (lt_dec n (length s)) as [L|L].
    + destruct (collect_step NH s n IA L) as (s' & Lc & E & _).
      change (of_res s (collect NH false (S (length s)) n s) OutNodes) with (step NH true false s (OCollect n)) in H.
      rewrite E in H. discriminate.
    + simpl in H. destruct (get s n) as [x|e0] eqn:G; simpl in H.
      * exfalso. apply L. apply get_Ok in G. eapply nth_lt; eauto.
      * inversion H; subst. rewrite (get_err _ _ _ G). discriminate.
  - destruct (lt_dec n (length s)) as [L|L].
    + destruct (reset_ok rank (S (length s)) n s) as (s' & E & _); auto.
      { intros m x nm c. apply (I_wfk NH s (proj1 I)). }
      { destruct Rk as [_ B]. specialize (B n). lia. }
      rewrite E in H. discriminate.
    + simpl in H. destruct (get s n) as [x|e0] eqn:G; simpl in H.
      * exfalso. apply L. apply get_Ok in G. eapply nth_lt; eauto.
      * inversion H; subst. rewrite (get_err _ _ _ G). discriminate.
  - (* swhid *)
    unfold swhid in H. destruct (get s n) as [x|e0] eqn:G; simpl in H.
    + apply get_Ok in G. pose proof (nth_lt _ _ _ G) as L.
      destruct (hash_op_ok NH false n s IA L) as (s2 & h2 & E2 & _).
      destruct (kind x); simpl in H; try (inversion H; discriminate);
        unfold read_hash in H; rewrite E2 in H; discriminate.
    + inversion H; subst. rewrite (get_err _ _ _ G). discriminate.
  - discriminate.
Qed.

Lemma path_ops_total :
  (forall s n key e, getitem_ s n key = Err e -> e <> EFuel) /\
  (forall s n key e, contains_ s n key = Err e -> e <> EFuel) /\
  (forall h o e, guarded NH true false [] h ->
     snd (step NH true false (final NH true false [] h) o) = OutErr e -> e <> EFuel).
Proof.
  split; [exact getitem__nofuel|]. split; [exact contains__nofuel|].
  intros h o e G H. eapply step_nofuel; eauto. apply (reachable_inv NH h [] (InvA_init NH) G).
Qed.

End WithNH.
