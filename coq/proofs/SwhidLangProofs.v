(* C09: the three from_string parsers accept exactly the documented language
   (lang_core / lang_ext / lang_q), re-printing, agreement of the classes,
   and the refutations kept for the old code and the interpreter limit. *)
From Coq Require Import List NArith ZArith Bool Lia Arith.
From SWH.lib Require Import Bytes Dec Hex Utf8 Percent.
From SWH Require Import Generated.
From SWH.model Require Import Swhid.
From SWH.proofs Require Import SwhidTables SwhidLib PercentProofs SwhidProofs SwhidParseProofs SwhidLinesProofs SwhidQProofs.
Import ListNotations.
Open Scope N_scope.

(* ---------------------------------------------------------------- core / extended *)
Theorem core_accepts_iff : forall s, (exists c, parse_core s = Ok c) <-> lang_core s = true.
Proof.
  intro s. apply simple_accepts_iff; [apply mem_core_enum | apply core_in_ext].
Qed.

Theorem ext_accepts_iff : forall s, (exists c, parse_ext s = Ok c) <-> lang_ext s = true.
Proof. intro s. apply simple_accepts_iff; [apply mem_ext_enum | auto]. Qed.

(* ---------------------------------------------------------------- items and the dictionary *)
Definition kvs_of (items : list text) : dict :=
  flat_map (fun it => match item_kv it with Some kv => [kv] | None => [] end) items.

Definition item_known (it : text) : bool :=
  match item_kv it with Some (k, _) => mem_bytes k DOC_KEYS | None => false end.

Lemma parse_quals_kvs : forall items d, parse_quals items = Ok d -> kvs_of items = d.
Proof.
  induction items as [|q items IH]; intros d H; [inversion H; reflexivity|].
  cbn [parse_quals] in H. unfold kvs_of. cbn [flat_map]. unfold item_kv at 1.
  destruct (cut 61 q) as [k [v|]]; [|discriminate].
  destruct (parse_quals items) as [d'|]; [|discriminate]. cbn [bind] in H. inversion H; subst d.
  cbn [app]. f_equal. apply IH. reflexivity.
Qed.

Lemma items_known_iff : forall items,
  forallb item_known items = true <->
  exists d, parse_quals items = Ok d /\
            existsb (fun kv : bytes * text => negb (mem_bytes (fst kv) SWHID_QUALIFIERS)) d = false.
Proof.
  induction items as [|q items IH].
  - split; [exists []; split; reflexivity | reflexivity].
  - cbn [forallb parse_quals]. unfold item_known at 1, item_kv. rewrite andb_true_iff, IH.
    destruct (cut 61 q) as [k [v|]].
    + split.
      * intros [Hk [d [P K]]]. exists ((k, v) :: d). rewrite P. cbn [bind existsb fst]. split; [reflexivity|].
        rewrite mem_qualifiers, Hk, K. reflexivity.
      * intros [d [P K]]. destruct (parse_quals items) as [d'|]; [|discriminate]. cbn [bind] in P. inversion P; subst d.
        cbn [existsb fst] in K. apply orb_false_iff in K. destruct K as [K1 K2]. apply negb_false_iff in K1.
        rewrite mem_qualifiers in K1. split; [exact K1|]. exists d'. split; [reflexivity | exact K2].
    + split; [intros [H _]; discriminate | intros [d [P _]]; discriminate].
Qed.

Lemma effective_dict : forall k items, effective k items = dict_get k (kvs_of items).
Proof. intros k items. unfold effective. symmetry. apply dict_get_filter_last. Qed.

(* a value found in the dictionary is a piece of the qualifier text *)
Lemma dict_value_infix : forall items d k t, parse_quals items = Ok d -> dict_get k d = Some t ->
  exists it, In it items /\ infix t it.
Proof.
  induction items as [|q items IH]; intros d k t P G.
  - inversion P; subst. discriminate.
  - cbn [parse_quals] in P. destruct (cut 61 q) as [k' [v'|]] eqn:Ec; [|discriminate].
    destruct (parse_quals items) as [d'|] eqn:P'; [|discriminate]. cbn [bind] in P. inversion P; subst d.
    rewrite dict_get_cons in G. destruct (dict_get k d') as [x|] eqn:G'.
    + inversion G; subst x. destruct (IH d' k t eq_refl G') as [it [Hin Hi]]. exists it. split; [right; exact Hin | exact Hi].
    + destruct (beqb k' k); [|discriminate]. inversion G; subst v'. exists q. split; [left; reflexivity|].
      apply (infix_cut _ _ _ _ Ec).
Qed.

(* ---------------------------------------------------------------- qualified: soundness *)
Lemma lang_head_of_re : forall s ty h q, match_swhid_re s = Some (ty, h, q) -> In ty DOC_CORE_TYPES ->
  lang_head DOC_CORE_TYPES s = Some (tail_of q).
Proof.
  intros s ty h q R Ht. apply match_swhid_re_inv in R. destruct R as [E [Hext [Hl [Hh _]]]]. rewrite E.
  apply lang_head_build; try assumption. apply (type_shape ty Hext).
Qed.

Lemma opt_conv_some : forall A (f : text -> result A) t r, opt_conv f (Some t) = Ok r -> exists a, f t = Ok a /\ r = Some a.
Proof. intros A f t r H. apply (opt_conv_inv A f (Some t) r H). Qed.

Theorem q_accepts_sound : forall lim s v, parse_q lim s = Ok v -> lang_q s = true.
Proof.
  intros lim s v H. apply parse_q_inv in H. destruct H as [ty [h [q [oid [d [R U Q K P]]]]]].
  destruct P as [M L E1 E2 E3 E4 V A EV].
  assert (Ht : In ty DOC_CORE_TYPES) by (apply mem_bytes_In; rewrite <- mem_core_enum; exact M).
  unfold lang_q. rewrite (lang_head_of_re s ty h q R Ht).
  apply match_swhid_re_inv in R. destruct R as [_ [_ [_ [_ Tq]]]].
  destruct q as [qs|]; [|reflexivity]. cbn [tail_of quals_of tail_ok] in *. destruct Tq as [Nq Wq].
  rewrite N.eqb_refl, Wq. apply is_nil_false in Nq. rewrite Nq. cbn [negb andb].
  assert (IK : forallb item_known (split_on 59 qs) = true) by (apply items_known_iff; exists d; split; assumption).
  unfold item_known in IK. rewrite IK. cbn [andb].
  rewrite !effective_dict, (parse_quals_kvs _ _ Q).
  rewrite dict_get_uo_other in E1, E2, E3, E4 by reflexivity.
  change S_visit with K_visit. change S_anchor with K_anchor. change S_lines with K_lines. change S_path with K_path.
  repeat (apply andb_true_iff; split).
  - destruct (dict_get K_visit d) as [t|]; [|reflexivity]. cbn [opt_ok].
    apply opt_conv_some in E1. destruct E1 as [c [Ec Es]].
    apply (core_typed_iff DOC_VISIT_TYPES t (subset_b_In _ _ (proj1 tbl_visit_anchor_sub_core))).
    exists c. split; [exact Ec|]. left. rewrite <- tbl_snapshot. symmetry. apply V. exact Es.
  - destruct (dict_get K_anchor d) as [t|]; [|reflexivity]. cbn [opt_ok].
    apply opt_conv_some in E2. destruct E2 as [c [Ec Es]].
    apply (core_typed_iff DOC_ANCHOR_TYPES t (subset_b_In _ _ (proj2 tbl_visit_anchor_sub_core))).
    exists c. split; [exact Ec|]. apply mem_bytes_In. rewrite <- tbl_anchor_types. apply A. exact Es.
  - destruct (dict_get K_lines d) as [t|]; [|reflexivity]. cbn [opt_ok].
    apply opt_conv_some in E4. destruct E4 as [l [El _]]. apply (parse_lines_accepts _ _ _ El).
  - destruct (dict_get K_path d) as [t|]; [|reflexivity]. cbn [opt_ok].
    apply opt_conv_some in E3. destruct E3 as [b [Eb _]]. apply parse_path_ok_iff. exists b. exact Eb.
Qed.

(* ---------------------------------------------------------------- qualified: completeness *)
Theorem q_accepts_complete : forall lim s, within_limit lim s = true -> lang_q s = true ->
  exists v, parse_q lim s = Ok v.
Proof.
  intros lim s W H. unfold lang_q in H.
  destruct (lang_head DOC_CORE_TYPES s) as [rest|] eqn:LH; [|discriminate].
  apply lang_head_inv in LH. destruct LH as [ty [h [E [Ht [Hl Hh]]]]].
  destruct (unhex40 h Hl Hh) as [oid [U [Lo _]]].
  assert (M : mem_bytes ty (enum_values OBJECT_TYPES) = true) by (rewrite mem_core_enum; apply mem_bytes_In, Ht).
  assert (Hext : In ty DOC_EXT_TYPES) by (apply core_in_ext, Ht).
  unfold parse_q, parse_q_gen.
  destruct rest as [|c qs].
  - (* no qualifiers *)
    assert (P : parse_swhid s = Ok (ty, oid, [])).
    { apply (parse_swhid_build s ty h None); [|exact U|reflexivity].
      rewrite E. apply (match_swhid_re_build ty h None Hext Hl Hh I). }
    rewrite P. cbn [bind existsb]. eexists.
    rewrite (construct_q_build lim ty oid (unquote_origin []) None None None None); try reflexivity; try assumption;
      try discriminate.
  - apply andb_true_iff in H. destruct H as [H0 H]. cbv zeta in H.
    apply andb_true_iff in H. destruct H as [H Hpath]. apply andb_true_iff in H. destruct H as [H Hlines].
    apply andb_true_iff in H. destruct H as [H Hanchor]. apply andb_true_iff in H. destruct H as [Hitems Hvisit].
    apply andb_true_iff in H0. destruct H0 as [H0 Hws].
    apply andb_true_iff in H0. destruct H0 as [Hc Hn]. apply N.eqb_eq in Hc. subst c.
    apply negb_true_iff, is_nil_false in Hn.
    change (forallb item_known (split_on 59 qs) = true) in Hitems. apply items_known_iff in Hitems.
    destruct Hitems as [d [Q K]].
    assert (P : parse_swhid s = Ok (ty, oid, d)).
    { apply (parse_swhid_build s ty h (Some qs)); [|exact U|exact Q].
      rewrite E. apply (match_swhid_re_build ty h (Some qs) Hext Hl Hh). split; assumption. }
    rewrite P. cbn [bind].
    match goal with |- context [existsb ?f d] => replace (existsb f d) with false by (symmetry; exact K) end.
    rewrite !effective_dict, (parse_quals_kvs _ _ Q) in *.
    change S_visit with K_visit in *. change S_anchor with K_anchor in *. change S_lines with K_lines in *.
    change S_path with K_path in *.
    (* the four conversions succeed *)
    assert (C1 : exists vi, opt_conv parse_core (dict_get K_visit d) = Ok vi /\ forall c, vi = Some c -> c_ty c = TY_SNAPSHOT).
    { destruct (dict_get K_visit d) as [t|]; [|exists None; split; [reflexivity | discriminate]]. cbn [opt_ok] in Hvisit.
      apply (core_typed_iff DOC_VISIT_TYPES t (subset_b_In _ _ (proj1 tbl_visit_anchor_sub_core))) in Hvisit.
      destruct Hvisit as [c [Ec [Hc|[]]]]. exists (Some c). cbn [opt_conv]. rewrite Ec. split; [reflexivity|].
      intros c' Ec'. inversion Ec'; subst c'. rewrite tbl_snapshot. symmetry. exact Hc. }
    assert (C2 : exists an, opt_conv parse_core (dict_get K_anchor d) = Ok an /\
                            forall c, an = Some c -> mem_bytes (c_ty c) ANCHOR_TYPES = true).
    { destruct (dict_get K_anchor d) as [t|]; [|exists None; split; [reflexivity | discriminate]]. cbn [opt_ok] in Hanchor.
      apply (core_typed_iff DOC_ANCHOR_TYPES t (subset_b_In _ _ (proj2 tbl_visit_anchor_sub_core))) in Hanchor.
      destruct Hanchor as [c [Ec Hc]]. exists (Some c). cbn [opt_conv]. rewrite Ec. split; [reflexivity|].
      intros c' Ec'. inversion Ec'; subst c'. rewrite tbl_anchor_types. apply mem_bytes_In, Hc. }
    assert (C3 : exists pa, opt_conv parse_path (dict_get K_path d) = Ok pa).
    { destruct (dict_get K_path d) as [t|]; [|exists None; reflexivity]. cbn [opt_ok] in Hpath.
      apply parse_path_ok_iff in Hpath. destruct Hpath as [b Eb]. exists (Some b). cbn [opt_conv]. rewrite Eb. reflexivity. }
    assert (C4 : exists li, opt_conv (parse_lines lim) (dict_get K_lines d) = Ok li).
    { destruct (dict_get K_lines d) as [t|] eqn:G; [|exists None; reflexivity]. cbn [opt_ok] in Hlines.
      destruct (parse_lines_complete lim t Hlines) as [l El].
      - intros p Hp. apply (within_limit_infix lim s p W); [|apply (lines_parts_digits t p Hlines Hp)].
        destruct (dict_value_infix _ _ _ _ Q G) as [it [Hit Hi]].
        apply (infix_trans p t s (lines_parts_infix t p Hp)). apply (infix_trans t it s Hi).
        apply (infix_trans it qs s (infix_split_on 59 qs it Hit)).
        rewrite E. apply infix_app_l, infix_app_l, infix_app_l, infix_app_l, infix_cons, infix_refl.
      - exists (Some l). cbn [opt_conv]. rewrite El. reflexivity. }
    destruct C1 as [vi [C1 V1]]. destruct C2 as [an [C2 V2]]. destruct C3 as [pa C3]. destruct C4 as [li C4].
    eexists.
    rewrite (construct_q_build lim ty oid (unquote_origin d) vi an pa li); try assumption.
    + reflexivity.
    + apply known_keys_are_fields, K.
    + rewrite dict_get_uo_other by reflexivity. exact C1.
    + rewrite dict_get_uo_other by reflexivity. exact C2.
    + rewrite dict_get_uo_other by reflexivity. exact C3.
    + rewrite dict_get_uo_other by reflexivity. exact C4.
Qed.

Theorem q_accepts_iff : forall lim s, within_limit lim s = true ->
  ((exists v, parse_q lim s = Ok v) <-> lang_q s = true).
Proof.
  intros lim s W. split; [intros [v H]; apply (q_accepts_sound lim s v H) | apply q_accepts_complete, W].
Qed.

(* ---------------------------------------------------------------- re-printing *)
Theorem reprint : forall lim s v, parse_q lim s = Ok v ->
  exists s', print_q lim v = Ok s' /\ parse_q lim s' = Ok v.
Proof. intros lim s v H. apply qualified_roundtrip, (parse_q_wf lim s v H). Qed.

Theorem printed_in_language : forall lim v, wf_q lim v -> exists s, print_q lim v = Ok s /\ lang_q s = true.
Proof.
  intros lim v W. destruct (qualified_roundtrip lim v W) as [s [P R]]. exists s. split; [exact P|].
  apply (q_accepts_sound lim s v R).
Qed.

(* ---------------------------------------------------------------- the classes agree *)
Theorem q_of_core : forall lim s, ~ In 59 s ->
  parse_q lim s = match parse_core s with
                  | Ok c => Ok (mkQ (c_ty c) (c_oid c) None None None None None)
                  | Err e => Err e
                  end.
Proof.
  intros lim s Hn. unfold parse_q, parse_q_gen, parse_core, parse_simple.
  destruct (parse_swhid s) as [[[ty oid] d]|e] eqn:P; [|reflexivity]. cbn [bind].
  rewrite (parse_swhid_no_semicolon s ty oid d Hn P). cbn [existsb is_nil negb].
  unfold construct_q, unquote_origin, mk_simple, mk_q. cbn [dict_get fold_left existsb opt_conv bind].
  destruct (mem_bytes ty (enum_values OBJECT_TYPES)); [|reflexivity]. cbn [negb].
  destruct (Nat.eqb (length oid) 20); reflexivity.
Qed.

Theorem core_ext_agree : forall s c,
  (parse_core s = Ok c -> parse_ext s = Ok c) /\
  (parse_ext s = Ok c -> In (c_ty c) SWHID_TYPES -> parse_core s = Ok c).
Proof.
  intros s c. split.
  - intro H. apply parse_simple_spec in H. apply parse_simple_spec. destruct H as [h [E [X [M R]]]].
    exists h. repeat split; try tauto. rewrite mem_ext_enum. apply mem_bytes_In, X.
  - intros H Ht. apply parse_simple_spec in H. apply parse_simple_spec. destruct H as [h [E [X [M R]]]].
    exists h. repeat split; try tauto. apply In_core_types_enum, Ht.
Qed.

(* ---------------------------------------------------------------- recorded deviations *)
Definition zero_hex : text := repeat 48 40.
Definition zero_id : text := S_swh1 ++ S_cnt ++ S_colon ++ zero_hex.

(* KNOWN FINDING int-max-str-digits: with the limit at 3 digits, lines=1000 is
   in the language and rejected *)
Lemma long_number_refuted :
  lang_q (zero_id ++ bs ";lines=1000") = true /\ parse_q 3 (zero_id ++ bs ";lines=1000") = Err EValidation /\
  within_limit 3 (zero_id ++ bs ";lines=1000") = false /\
  exists v, parse_q 4 (zero_id ++ bs ";lines=1000") = Ok v.
Proof. repeat split; try (vm_compute; reflexivity). eexists. vm_compute. reflexivity. Qed.

(* the parser before commit 31ea1eb accepted lines=+1, which is outside the language *)
Lemma lines_over_acceptance_refuted_old :
  lang_q (zero_id ++ bs ";lines=+1") = false /\
  (exists v, parse_q_old 4300 (zero_id ++ bs ";lines=+1") = Ok v /\ q_lines v = Some (1%Z, None)) /\
  parse_q 4300 (zero_id ++ bs ";lines=+1") = Err EValidation.
Proof. split; [vm_compute; reflexivity|]. split; [|vm_compute; reflexivity]. eexists. vm_compute. split; reflexivity. Qed.

(* the printer before commit 9a0ba15: origin "a b" (accepted from origin=a%20b)
   re-printed to a string that is rejected; today's printer re-prints it to the
   original string *)
Lemma reprint_refuted_old :
  exists v, parse_q 4300 (zero_id ++ bs ";origin=a%20b") = Ok v /\ q_origin v = Some (bs "a b") /\
            print_q_old 4300 v = Ok (zero_id ++ bs ";origin=a b") /\
            parse_q 4300 (zero_id ++ bs ";origin=a b") = Err EValidation /\
            print_q 4300 v = Ok (zero_id ++ bs ";origin=a%20b").
Proof. eexists. split; [vm_compute; reflexivity|]. repeat split; vm_compute; reflexivity. Qed.

(* a lone surrogate in the path is rejected cleanly (UnicodeEncodeError is a
   ValueError, turned into ValidationError), and is outside lang_q *)
Lemma surrogate_path_rejected :
  parse_q 4300 (zero_id ++ bs ";path=" ++ [55296]) = Err EValidation /\
  lang_q (zero_id ++ bs ";path=" ++ [55296]) = false /\
  exists v, parse_q 4300 (zero_id ++ bs ";origin=" ++ [55296]) = Ok v.
Proof. repeat split; try (vm_compute; reflexivity). eexists. vm_compute. reflexivity. Qed.

(* satisfiability: the sample sentence of Swhid.v is within the limit, in the
   language, accepted; a duplicated key with a malformed first value too *)
Lemma c09_satisfiable :
  within_limit 4300 ex_q_text = true /\ lang_q ex_q_text = true /\ parse_q 4300 ex_q_text = Ok ex_q /\
  lang_q (zero_id ++ bs ";lines=x;lines=3") = true /\
  lang_core zero_id = true /\ lang_ext (S_swh1 ++ S_ori ++ S_colon ++ zero_hex) = true /\
  lang_core (S_swh1 ++ S_ori ++ S_colon ++ zero_hex) = false.
Proof. repeat split; vm_compute; reflexivity. Qed.
