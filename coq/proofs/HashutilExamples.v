(* Examples moved out of model/Hashutil.v so that the model (and its extraction) still builds when a
   regenerated table makes one of them false; they are part of the proof cone of the properties. *)
From Coq Require Import List NArith Bool Arith.
From SWH.lib Require Import Bytes Dec GitHeader Hex Sha1.
From SWH Require Import Generated.
Import ListNotations.
Open Scope N_scope.
From SWH.model Require Import Hashutil.

Example ex_base_algo : base_algo SHA1_GIT = SHA1 /\ base_algo SHA256 = SHA256.
Proof. vm_compute. split; reflexivity. Qed.

Example ex_blob_abc :    (* `printf abc | git hash-object --stdin` = f2ba8f84ab5c1bce84a7b441cb1959cfc7093b7f *)
  rmap (fun c => hexlify (c_sha1_git c)) (model_content_from_data Hexec (bs "abc"))
  = Ok (bs "f2ba8f84ab5c1bce84a7b441cb1959cfc7093b7f").
Proof. vm_compute. reflexivity. Qed.

Example ex_short_reads :
  file_reads 4 (bs "abcdefghij") [0; 9; 1]%nat = [bs "a"; bs "bcde"; bs "fg"; bs "hij"; []].
Proof. vm_compute. reflexivity. Qed.

Example ex_block_zero_reads_nothing : file_reads 0 (bs "abc") [] = [[]].
Proof. vm_compute. reflexivity. Qed.

Example ex_copy_now :
  run_script Hsym from_state_new [] [] copy_script =
  [EvDone; EvDone; EvDone; EvDone; EvDone;
   EvDigest ([(SHA1, bs "sha1:ac")], Some 2); EvDigest ([(SHA1, bs "sha1:ab")], Some 2)].
Proof. vm_compute. reflexivity. Qed.

Example ex_copy_old :
  run_script Hsym from_state_old [] [] copy_script = [EvDone; EvDone; EvDone; EvErr AttributeError].
Proof. vm_compute. reflexivity. Qed.
