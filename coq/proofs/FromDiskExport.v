(* Proofs for C13, part 2: iter_tree (dedup) + to_model: the exported objects
   are unique per id, closed under reference, carry the ids of their content,
   and are the files / directories of the (pruned) tree. *)
From Coq Require Import List NArith Bool Lia Permutation Arith.
From SWH.lib Require Import Bytes Dec Hex Order StableSort GitHeader ListAux.
From SWH.model Require Import Dir FromDisk.
From SWH.proofs Require Import DirProofs FromDiskProofs.
From SWH Require Import Generated.
Import ListNotations.
Open Scope N_scope.

Inductive Sub : mtree -> mtree -> Prop :=
| SubRefl : forall m, Sub m m
| SubKid : forall m' n c ks, In (n, c) ks -> Sub m' c -> Sub m' (MNode ks).

Section Export.
  Variable H : bytes -> bytes.

  Fixpoint iter_kids (l : list (bytes * mtree)) (seen : list bytes) : list exported * list bytes :=
    match l with
    | [] => ([], seen)
    | (_, c) :: r => let '(x1, s1) := iter_tree H seen c in
                     let '(x2, s2) := iter_kids r s1 in (x1 ++ x2, s2)
    end.

  Lemma iter_tree_node : forall seen ks,
    iter_tree H seen (MNode ks) =
    let h := mt_id H (MNode ks) in
    if mem_bytes h seen then ([], seen)
    else let '(xs, seen') := iter_kids ks (h :: seen) in (XDir h (map (mt_entry H) ks) :: xs, seen').
  Proof. reflexivity. Qed.

  Lemma iter_tree_leaf : forall seen c,
    iter_tree H seen (MLeaf c) =
    let h := mt_id H (MLeaf c) in
    if mem_bytes h seen then ([], seen)
    else ([if ci_skipped c then XSkipped h (lenN (ci_data c)) else XContent h (ci_data c)], h :: seen).
  Proof. reflexivity. Qed.

  (* the model object a node is exported as *)
  Definition x_of (m : mtree) : exported :=
    match m with
    | MLeaf c => if ci_skipped c then XSkipped (mt_id H m) (lenN (ci_data c)) else XContent (mt_id H m) (ci_data c)
    | MNode ks => XDir (mt_id H m) (map (mt_entry H) ks)
    end.

  Lemma x_id_x_of : forall m, x_id (x_of m) = mt_id H m.
  Proof. intros [c|ks]; cbn [x_of]; [destruct (ci_skipped c)|]; reflexivity. Qed.

  (* invariant of the traversal: [targets] are the nodes the call was asked to visit *)
  Definition Inv (targets : list mtree) (seen : list bytes) (r : list exported * list bytes) : Prop :=
    snd r = rev (map x_id (fst r)) ++ seen /\
    (NoDup seen -> NoDup (snd r)) /\
    (forall m, In m targets -> In (mt_id H m) (snd r)) /\
    (forall x, In x (fst r) -> exists m m', In m targets /\ Sub m' m /\ x = x_of m') /\
    (forall i es e, In (XDir i es) (fst r) -> In e es -> In (e_target e) (snd r)).

  Lemma Inv_nil : forall seen, Inv [] seen ([], seen).
  Proof.
    intro seen. unfold Inv. cbn [fst snd map rev app]. repeat split; auto.
    - intros m [].
    - intros x [].
    - intros i es e [].
  Qed.

  Lemma Inv_seq : forall T1 T2 seen x1 s1 x2 s2,
    Inv T1 seen (x1, s1) -> Inv T2 s1 (x2, s2) -> Inv (T1 ++ T2) seen (x1 ++ x2, s2).
  Proof.
    unfold Inv. cbn [fst snd]. intros T1 T2 seen x1 s1 x2 s2 [A1 [A2 [A3 [A4 A5]]]] [B1 [B2 [B3 [B4 B5]]]].
    assert (Mono : forall i, In i s1 -> In i s2) by (intros i Hi; rewrite B1; apply in_or_app; right; exact Hi).
    repeat split.
    - rewrite B1, A1, map_app, rev_app_distr, app_assoc. reflexivity.
    - auto.
    - intros m Hm. apply in_app_or in Hm. destruct Hm as [Hm|Hm]; auto.
    - intros x Hx. apply in_app_or in Hx. destruct Hx as [Hx|Hx].
      + destruct (A4 x Hx) as [m [m' [Hm X]]]. exists m, m'. split; [apply in_or_app; auto | exact X].
      + destruct (B4 x Hx) as [m [m' [Hm X]]]. exists m, m'. split; [apply in_or_app; auto | exact X].
    - intros i es e Hx He. apply in_app_or in Hx. destruct Hx as [Hx|Hx]; eauto.
  Qed.

  Lemma Inv_kids : forall l,
    Forall (fun p => forall seen, Inv [snd p] seen (iter_tree H seen (snd p))) l ->
    forall seen, Inv (map snd l) seen (iter_kids l seen).
  Proof.
    intros l F. induction F as [|[n c] r Fc _ IH]; intro seen; cbn [iter_kids map]; [apply Inv_nil|].
    cbn [snd] in *. specialize (Fc seen). destruct (iter_tree H seen c) as [x1 s1].
    specialize (IH s1). destruct (iter_kids r s1) as [x2 s2].
    change (c :: map snd r) with ([c] ++ map snd r). apply (Inv_seq _ _ _ _ _ _ _ Fc IH).
  Qed.

  Lemma Inv_tree : forall m seen, Inv [m] seen (iter_tree H seen m).
  Proof.
    induction m as [c|ks IH] using mtree_ind'; intro seen.
    - rewrite iter_tree_leaf. cbv zeta. destruct (mem_bytes (mt_id H (MLeaf c)) seen) eqn:M.
      + unfold Inv. cbn [fst snd map rev app].
        repeat split; [auto | intros m [<-|[]]; apply mem_bytes_In; exact M | intros x [] | intros i es e []].
      + unfold Inv. cbn [fst snd]. repeat split.
        * cbn [map rev app]. f_equal. destruct (ci_skipped c); reflexivity.
        * intro ND. constructor; [|exact ND]. intro Hin. apply mem_bytes_In in Hin. congruence.
        * intros m [<-|[]]. left. reflexivity.
        * intros x [<-|[]]. exists (MLeaf c), (MLeaf c). split; [left; reflexivity|]. split; [constructor | reflexivity].
        * intros i es e [X|[]]. destruct (ci_skipped c); discriminate X.
    - rewrite iter_tree_node. cbv zeta. destruct (mem_bytes (mt_id H (MNode ks)) seen) eqn:M.
      + unfold Inv. cbn [fst snd map rev app].
        repeat split; [auto | intros m [<-|[]]; apply mem_bytes_In; exact M | intros x [] | intros i es e []].
      + pose proof (Inv_kids ks IH (mt_id H (MNode ks) :: seen)) as K.
        destruct (iter_kids ks (mt_id H (MNode ks) :: seen)) as [xs s'].
        destruct K as [K1 [K2 [K3 [K4 K5]]]]. unfold Inv. cbn [fst snd] in *. repeat split.
        * rewrite K1. cbn [map rev x_id]. rewrite <- app_assoc. reflexivity.
        * intro ND. apply K2. constructor; [|exact ND]. intro Hin. apply mem_bytes_In in Hin. congruence.
        * intros m [<-|[]]. rewrite K1. apply in_or_app. right. left. reflexivity.
        * intros x [<-|Hx].
          -- exists (MNode ks), (MNode ks). split; [left; reflexivity|]. split; [constructor | reflexivity].
          -- destruct (K4 x Hx) as [m [m' [Hm [S X]]]]. apply in_map_iff in Hm. destruct Hm as [[n c] [E Hp]].
             cbn [snd] in E. subst c. exists (MNode ks), m'. split; [left; reflexivity|].
             split; [apply (SubKid m' n m ks Hp S) | exact X].
        * intros i es e [X|Hx] He.
          -- inversion X; subst. apply in_map_iff in He. destruct He as [p [<- Hp]].
             cbn [mt_entry e_target]. apply K3. apply in_map. exact Hp.
          -- apply (K5 i es e Hx He).
  Qed.

  (* ---------------- the export, stated on [export] ---------------- *)
  Lemma export_inv : forall m, Inv [m] [] (export H m, rev (map x_id (export H m))).
  Proof.
    intro m. pose proof (Inv_tree m []) as I. unfold export.
    destruct (iter_tree H [] m) as [xs s] eqn:E. cbn [fst].
    destruct I as [I1 _]. cbn [fst snd] in I1. rewrite app_nil_r in I1. subst s.
    rewrite <- E. rewrite E. pose proof (Inv_tree m []) as I. rewrite E in I. exact I.
  Qed.

  (* each id is exported once *)
  Theorem export_once : forall m, NoDup (map x_id (export H m)).
  Proof.
    intro m. destruct (export_inv m) as [_ [ND _]]. cbn [snd] in ND. specialize (ND (NoDup_nil _)).
    apply (Permutation_NoDup (Permutation_sym (Permutation_rev _))). exact ND.
  Qed.

  (* closed under reference, at the level of ids, without any assumption on H *)
  Theorem export_closed : forall m i es e, In (XDir i es) (export H m) -> In e es ->
    In (e_target e) (map x_id (export H m)).
  Proof.
    intros m i es e Hx He. destruct (export_inv m) as [_ [_ [_ [_ C]]]]. cbn [fst snd] in C.
    apply in_rev. apply (C i es e Hx He).
  Qed.

  (* every exported object is the model object of a node of the tree *)
  Theorem export_sub : forall m x, In x (export H m) -> exists m', Sub m' m /\ x = x_of m'.
  Proof.
    intros m x Hx. destruct (export_inv m) as [_ [_ [_ [S _]]]]. cbn [fst] in S.
    destruct (S x Hx) as [m0 [m' [[<-|[]] X]]]. exists m'. exact X.
  Qed.

  (* the root comes first *)
  Theorem export_root_first : forall m, exists xs, export H m = x_of m :: xs.
  Proof.
    intros [c|ks]; unfold export.
    - rewrite iter_tree_leaf. cbv zeta. cbn [mem_bytes existsb fst x_of]. eauto.
    - rewrite iter_tree_node. cbv zeta. cbn [mem_bytes existsb].
      destruct (iter_kids ks [mt_id H (MNode ks)]) as [xs s]. cbn [fst x_of]. eauto.
  Qed.

  (* ids of the exported objects *)
  Theorem export_ids : forall m x, In x (export H m) ->
    match x with
    | XDir i es => i = H (dir_manifest es)
    | XContent i d => i = blob_id H d
    | XSkipped i l => exists d, i = blob_id H d /\ l = lenN d
    end.
  Proof.
    intros m x Hx. destruct (export_sub m x Hx) as [[c|ks] [_ ->]]; cbn [x_of].
    - destruct (ci_skipped c); cbn [mt_id]; eauto.
    - apply mt_id_node.
  Qed.
End Export.

(* ---------------- connection with the tree on disk ---------------- *)
Lemma Forall2_in_r : forall {A B} (R : A -> B -> Prop) l l' y, Forall2 R l l' -> In y l' -> exists x, In x l /\ R x y.
Proof.
  intros A B R l l' y F. induction F as [|a b l l' Rab _ IH]; intros Hy; [destruct Hy|].
  destruct Hy as [<-|Hy]; [exists a; split; [left; reflexivity | exact Rab]|].
  destruct (IH Hy) as [x [Hx Rx]]. exists x. split; [right; exact Hx | exact Rx].
Qed.

Lemma Rep_sub : forall limit m' m, Sub m' m -> forall t, Rep limit t m -> exists t', FsSub t' t /\ Rep limit t' m'.
Proof.
  intros limit m' m S. induction S as [m|m' n c ks Hin S IH]; intros t R.
  - exists t. split; [constructor | exact R].
  - inversion R as [|cs ks' ks0 P F2]; subst.
    destruct (Forall2_in_r _ _ _ _ F2 (Permutation_in _ P Hin)) as [[n0 c0] [Hp [En Rc]]]. cbn [fst snd] in *. subst n0.
    destruct (IH _ Rc) as [t' [St Rt]]. exists t'. split; [apply (FsSubKid t' n c0 cs Hp St) | exact Rt].
Qed.

Lemma FsSub_wf : forall t' t, FsSub t' t -> wf_fs t = true -> wf_fs t' = true.
Proof.
  intros t' t S. induction S as [t|t' n c cs Hin S IH]; intro W; [exact W|].
  apply IH. apply (wf_fs_child cs (n, c) W Hin).
Qed.

(* files survive the pruning untouched: a file of the pruned tree is a file of the tree *)
Lemma FsSub_prune_file : forall f t t', FsSub t' (prune_gen f t) -> is_fdir t' = false -> FsSub t' t.
Proof.
  intros f. induction t as [d mo|x|mo|cs IH] using fsnode_ind'; intros t' S E; try exact S.
  rewrite prune_gen_dir in S. inversion S as [|? n c' ? Hin S']; subst; [discriminate E|].
  apply in_flat_map in Hin. destruct Hin as [[n0 c] [Hp Hq]].
  rewrite Forall_forall in IH. specialize (IH _ Hp). cbn [snd] in IH.
  unfold prune_gen_kid in Hq. cbn [fst snd] in Hq. destruct c as [d mo|x|mo|ccs].
  1-3: destruct Hq as [X|[]]; inversion X; subst; apply (FsSubKid t' n _ cs Hp S').
  destruct (filt_dir f n0 (map fst ccs)); [|destruct Hq]. cbv zeta in Hq.
  destruct (filt_dir f n0 (fs_names (prune_gen f (FDir ccs)))); [|destruct Hq].
  destruct Hq as [X|[]]. inversion X; subst. apply (FsSubKid t' n (FDir ccs) cs Hp). apply IH; assumption.
Qed.

Section ExportDisk.
  Variable H : bytes -> bytes.

  Lemma Rep_entries : forall limit cs ks, wf_fs (FDir cs) = true -> Rep limit (FDir cs) (MNode ks) ->
    Permutation (map (mt_entry H) ks) (map (fs_entry H) cs).
  Proof.
    intros limit cs ks W R. inversion R as [|cs' ks' ks0 P F2]; subst.
    rewrite (Permutation_map (mt_entry H) P).
    replace (map (mt_entry H) ks0) with (map (fs_entry H) cs); [reflexivity|].
    pose proof (proj1 (wf_fs_dir cs) W) as [_ WF]. clear W R P.
    induction F2 as [|p q l l' [En Rp] F2 IH2]; [reflexivity|].
    inversion WF as [|? ? [_ Wp] WFl]; subst.
    cbn [map]. rewrite (IH2 WFl). f_equal.
    unfold mt_entry, fs_entry. rewrite (Rep_shape _ _ _ Rp), (Rep_perms _ _ _ Rp), (Rep_id H _ _ _ Wp Rp), En. reflexivity.
  Qed.

  (* exported directories: id = hash of the manifest of the entries; the entries are those of a directory of the
     pruned tree and satisfy the validators of model.Directory *)
  Theorem export_dirs : forall ord f limit t m i es, perm_oracle ord -> wf_fs t = true ->
    from_disk ord f limit t = FdOk m -> In (XDir i es) (export H m) ->
    i = H (dir_manifest es) /\ valid_dir es = true /\
    exists cs, FsSub (FDir cs) (prune_gen f t) /\ Permutation es (map (fs_entry H) cs) /\ i = node_id H (FDir cs).
  Proof.
    intros ord f limit t m i es PO W FD Hx.
    pose proof (export_ids H m _ Hx) as Ei. cbv beta iota in Ei.
    destruct (export_sub H m _ Hx) as [m' [S X]].
    destruct (Rep_sub limit m' m S _ (from_disk_Rep ord f limit t m PO FD)) as [t' [St Rt]].
    pose proof (FsSub_wf _ _ St (prune_gen_wf f t W)) as Wt.
    destruct m' as [c|ks]; cbn [x_of] in X; [destruct (ci_skipped c); discriminate X|]. inversion X; subst.
    inversion Rt as [|cs ks' ks0 P F2]; subst.
    pose proof (Rep_entries limit cs ks Wt Rt) as PE.
    split; [apply mt_id_node|]. split.
    - apply valid_dir_Valid. apply (Valid_perm _ _ (Permutation_sym PE)). apply valid_dir_Valid. apply fs_entries_valid. exact Wt.
    - exists cs. split; [exact St|]. split; [exact PE|]. apply (Rep_id H limit _ _ Wt Rt).
  Qed.

  (* exported contents: the data is the bytes of a file (the text of a link, nothing for a special file) of the
     tree, within the limit; the id is the git blob id of the data *)
  Theorem export_contents : forall ord f limit t m i d, perm_oracle ord ->
    from_disk ord f limit t = FdOk m -> In (XContent i d) (export H m) ->
    i = blob_id H d /\
    exists t', FsSub t' t /\ is_fdir t' = false /\ d = fs_data t' /\ too_large limit (lenN d) = false.
  Proof.
    intros ord f limit t m i d PO FD Hx.
    destruct (export_sub H m _ Hx) as [m' [S X]].
    destruct (Rep_sub limit m' m S _ (from_disk_Rep ord f limit t m PO FD)) as [t' [St Rt]].
    destruct m' as [c|ks]; cbn [x_of] in X; [|discriminate X].
    destruct (ci_skipped c) eqn:Sk; [discriminate X|]. inversion X; subst.
    inversion Rt as [t0 ci E F|]; subst. destruct (from_file_ok _ _ _ E F) as [_ [D K]].
    split; [reflexivity|]. exists t'. split; [apply (FsSub_prune_file f t t' St E)|]. split; [exact E|]. split; [exact D|].
    rewrite D. destruct t' as [dd mo|x|mo|cs]; cbn [fs_data].
    - rewrite <- K. exact Sk.
    - cbn [from_file] in F. destruct (too_large limit (lenN x)); [discriminate F | reflexivity].
    - destruct limit as [[|p]|]; reflexivity.
    - discriminate E.
  Qed.

  (* skipped contents: a regular file above the limit, with the id and the length of its bytes *)
  Theorem export_skipped : forall ord f limit t m i l, perm_oracle ord ->
    from_disk ord f limit t = FdOk m -> In (XSkipped i l) (export H m) ->
    exists d mo, FsSub (Reg d mo) t /\ i = blob_id H d /\ l = lenN d /\ too_large limit l = true.
  Proof.
    intros ord f limit t m i l PO FD Hx.
    destruct (export_sub H m _ Hx) as [m' [S X]].
    destruct (Rep_sub limit m' m S _ (from_disk_Rep ord f limit t m PO FD)) as [t' [St Rt]].
    destruct m' as [c|ks]; cbn [x_of] in X; [|discriminate X].
    destruct (ci_skipped c) eqn:Sk; [|discriminate X]. inversion X; subst.
    inversion Rt as [t0 ci E F|]; subst. destruct (from_file_ok _ _ _ E F) as [_ [D K]].
    destruct t' as [dd mo|x|mo|cs]; try congruence.
    exists dd, mo. cbn [fs_data] in D. rewrite D. split; [apply (FsSub_prune_file f t _ St E)|].
    split; [reflexivity|]. split; [reflexivity|]. rewrite <- K. exact Sk.
  Qed.
End ExportDisk.
