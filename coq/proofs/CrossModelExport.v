(* Cross-model consistency C13 x C07 x C02 (x C01): what FromDisk.export emits
   (iter_tree + to_model) are objects that the generic integrity check of
   model/Ident.v accepts and that the Directory validators of model/Dir.v
   accept; content ids are hashes of Hashutil's blob manifest.

   An exported directory [XDir i es] is viewed as the hashable object
     kind = Directory, attrs manifest = Dir.dir_manifest es,
     raw manifest = None (to_model never sets one), id = i.
   All statements hold for every hash function H. *)
From Coq Require Import List NArith Bool Permutation.
From SWH.lib Require Import Bytes Dec Hex GitHeader.
From SWH Require Import Generated.
From SWH.model Require Import Dir FromDisk Ident.
From SWH.model Require Hashutil.
From SWH.proofs Require Import FromDiskProofs FromDiskExport IdentProofs.
Import ListNotations.
Open Scope N_scope.

Definition hobj_of_dir (i : bytes) (es : list entry) : hobj :=
  {| h_kind := KDirectory; h_attrs := Some (dir_manifest es); h_raw := None; h_id := i |}.

(* "blob <len>\0<data>": Hashutil's specification-level manifest is lib/GitHeader's
   git object of type "blob" (proved again here so that this file does not pull
   proofs/HashutilProofs.v into the cone of C13) *)
Lemma blob_manifest_git_object : forall d, Hashutil.blob_manifest d = git_object (bs "blob") d.
Proof. intro d. unfold Hashutil.blob_manifest, git_object, git_header. rewrite <- !app_assoc. reflexivity. Qed.

Section Export.
  Variable H : bytes -> bytes.

  Lemma blob_id_blob_manifest : forall d, blob_id H d = H (Hashutil.blob_manifest d).
  Proof. intro d. unfold blob_id. rewrite blob_manifest_git_object. reflexivity. Qed.

  (* a directory object whose id is the hash of its entries' manifest: accepted
     by check(); recomputing gives the id; it is the object the constructor
     builds from the entries alone; initialisation leaves it unchanged *)
  Lemma dir_object_checked : forall es,
    let o := hobj_of_dir (H (dir_manifest es)) es in
    check H o = Ok tt
    /\ compute_hash H o = Ok (h_id o)
    /\ construct H KDirectory (Some (dir_manifest es)) (Some None) [] = Ok o
    /\ init H o = Ok o
    /\ h_id o = dir_compute_hash H {| d_entries := es; d_raw_manifest := None |}
    /\ wf o.
  Proof.
    intro es. cbv zeta. split; [|split; [|split; [|split; [|split]]]].
    - apply check_ok_iff. exists (dir_manifest es). split; [reflexivity|]. split; [reflexivity|].
      intros [K _]. apply K. reflexivity.
    - reflexivity.
    - reflexivity.
    - apply init_fixed. reflexivity.
    - reflexivity.
    - intro K. exfalso. apply K. reflexivity.
  Qed.

  (* every exported object of EVERY Merkle tree *)
  Theorem export_objects_checked : forall m x, In x (export H m) ->
    match x with
    | XDir i es =>
        check H (hobj_of_dir i es) = Ok tt
        /\ compute_hash H (hobj_of_dir i es) = Ok i
        /\ construct H KDirectory (Some (dir_manifest es)) (Some None) [] = Ok (hobj_of_dir i es)
        /\ i = dir_id H es
    | XContent i d => i = H (Hashutil.blob_manifest d)
    | XSkipped i l => exists d, i = H (Hashutil.blob_manifest d) /\ l = lenN d
    end.
  Proof.
    intros m x Hx. pose proof (export_ids H m x Hx) as E. destruct x as [i es | i d | i l].
    - subst i. destruct (dir_object_checked es) as [C1 [C2 [C3 _]]].
      split; [exact C1|]. split; [exact C2|]. split; [exact C3 | reflexivity].
    - rewrite E. apply blob_id_blob_manifest.
    - destruct E as [d [E1 E2]]. exists d. split; [rewrite E1; apply blob_id_blob_manifest | exact E2].
  Qed.

  (* ... and of a tree read from disk: the directories also pass the validators
     of model.Directory, so Directory(entries=es) is constructible, and it is
     the checked object above *)
  Theorem export_checked : forall ord f limit t m x,
    (forall p ks, Permutation (ord p ks) ks) -> wf_fs t = true ->
    from_disk ord f limit t = FdOk m -> In x (export H m) ->
    match x with
    | XDir i es =>
        valid_dir es = true
        /\ mk_dir_manifest es = DirOk (dir_manifest es)
        /\ check H (hobj_of_dir i es) = Ok tt
        /\ compute_hash H (hobj_of_dir i es) = Ok i
        /\ construct H KDirectory (Some (dir_manifest es)) (Some None) [] = Ok (hobj_of_dir i es)
        /\ i = dir_id H es
    | XContent i d => i = H (Hashutil.blob_manifest d)
    | XSkipped i l => exists d, i = H (Hashutil.blob_manifest d) /\ l = lenN d
    end.
  Proof.
    intros ord f limit t m x PO W FD Hx. pose proof (export_objects_checked m x Hx) as E.
    destruct x as [i es | i d | i l]; [|exact E|exact E].
    destruct (export_dirs H ord f limit t m i es PO W FD Hx) as [_ [V _]].
    split; [exact V|]. split; [unfold mk_dir_manifest; rewrite V; reflexivity | exact E].
  Qed.
End Export.
