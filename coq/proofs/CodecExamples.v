(* Examples moved out of model/Codec.v so that the model (and its extraction) still builds when a
   regenerated table makes one of them false; they are part of the proof cone of the properties. *)
From Coq Require Import List NArith ZArith Bool String.
From SWH.lib Require Import Bytes Dec Hex.
From SWH Require Import Generated.
Import ListNotations.
Open Scope N_scope.
From SWH.model Require Import Codec.

Example ex_fmt_offset : fmt_offset (-330) true = bs "-0530". Proof. vm_compute. reflexivity. Qed.

Example ex_parse_offset : parse_offset_bytes (bs "+10000") = Ok 6000%Z. Proof. vm_compute. reflexivity. Qed.

Example ex_swhid_c :
  swhid_parse_c Core (swhid_str_c Core t_rev (repeat 171 20)) = Ok (t_rev, repeat 171 20).
Proof. vm_compute. reflexivity. Qed.
