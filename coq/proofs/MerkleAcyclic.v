(* Acyclicity: a rank decreasing along child edges can always be replaced by
   one bounded by the number of nodes (rank' n = 1 + number of nodes of smaller
   rank); a DAG has no node that reaches itself through at least one edge. *)
From Coq Require Import List NArith Bool Arith Lia.
From SWH.lib Require Import Bytes.
From SWH.model Require Import Merkle.
From SWH.proofs Require Import MerkleBase.
Import ListNotations.
Local Open Scope nat_scope.

Lemma filter_le : forall (P Q : nat -> bool) l, (forall m, P m = true -> Q m = true) ->
  length (filter P l) <= length (filter Q l).
Proof.
  intros P Q l H. induction l as [|a l IH]; simpl; auto.
  destruct (P a) eqn:Pa.
  - rewrite (H a Pa). simpl. lia.
  - destruct (Q a); simpl; lia.
Qed.

Lemma filter_strict : forall (P Q : nat -> bool) l k, (forall m, P m = true -> Q m = true) ->
  In k l -> Q k = true -> P k = false -> length (filter P l) < length (filter Q l).
Proof.
  intros P Q l k H. induction l as [|a l IH]; intros Hin Qk Pk; simpl in *; [contradiction|].
  destruct Hin as [->|Hin].
  - rewrite Qk, Pk. simpl. pose proof (filter_le P Q l H). lia.
  - specialize (IH Hin Qk Pk). destruct (P a) eqn:Pa.
    + rewrite (H a Pa). simpl. lia.
    + destruct (Q a); simpl; lia.
Qed.

Lemma filter_lt_len : forall (P : nat -> bool) l n, In n l -> P n = false -> length (filter P l) < length l.
Proof.
  intros P l n Hin Pn. pose proof (filter_strict P (fun _ => true) l n (fun _ _ => eq_refl) Hin eq_refl Pn) as H.
  assert (E : filter (fun _ : nat => true) l = l) by (clear; induction l; simpl; congruence).
  rewrite E in H. exact H.
Qed.

Definition brank (r : nat -> nat) (s : heap) (n : nat) : nat :=
  if n <? length s then S (length (filter (fun m => r m <? r n) (seq 0 (length s)))) else 0.

Lemma brank_ranked : forall r s, decreasing r s -> ranked (brank r s) s.
Proof.
  intros r s D. split.
  - intros n k E. pose proof (D n k E) as Lt. destruct E as (x & nm & Ex & Hin).
    pose proof (nth_lt _ _ _ Ex) as Ln. unfold brank.
    destruct (Nat.ltb_spec n (length s)) as [_|]; [|lia].
    destruct (Nat.ltb_spec k (length s)) as [Lk|]; [|lia].
    apply -> Nat.succ_lt_mono.
    apply (filter_strict _ _ _ k).
    + intros m Hm. apply Nat.ltb_lt in Hm. apply Nat.ltb_lt. lia.
    + apply in_seq. lia.
    + apply Nat.ltb_lt. exact Lt.
    + apply Nat.ltb_ge. lia.
  - intro n. unfold brank. destruct (Nat.ltb_spec n (length s)) as [Ln|]; [|lia].
    pose proof (filter_lt_len (fun m => r m <? r n) (seq 0 (length s)) n) as H.
    rewrite seq_length in H. apply H; [apply in_seq; lia | apply Nat.ltb_ge; lia].
Qed.

(* the pigeonhole-free bound *)
Lemma acyclic_bounded : forall s, acyclic s -> exists rank, ranked rank s.
Proof. intros s [r D]. exists (brank r s). apply brank_ranked. exact D. Qed.

Lemma acyclic_equiv : forall s,
  (exists rank, forall n m, edge s n m -> rank m < rank n) <->
  (exists rank, (forall n m, edge s n m -> rank m < rank n) /\ (forall n, rank n <= length s)).
Proof.
  intro s. split.
  - intro H. apply (acyclic_bounded s H).
  - intros (r & D & _). exists r. exact D.
Qed.

(* no node is below one of its own children *)
Lemma acyclic_no_self_reach : forall s, acyclic s -> forall n k, edge s n k -> ~ Reach s k n.
Proof.
  intros s [r D] n k E Rk.
  assert (M : forall a b, Reach s a b -> r b <= r a).
  { intros a b Rab. induction Rab as [|a c b Eac _ IH]; [lia|]. pose proof (D a c Eac). lia. }
  pose proof (M k n Rk). pose proof (D n k E). lia.
Qed.
