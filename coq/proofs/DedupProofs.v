(* Proofs for C19: Directory.from_possibly_duplicated_entries (model/Dedup.v),
   on top of the C02 development (DirProofs.v). *)
From Coq Require Import List NArith Bool Lia Permutation Arith.
From SWH.lib Require Import Bytes Dec Hex Order StableSort GitHeader ListAux.
From SWH.model Require Import Dir Dedup.
From SWH.proofs Require Import DirProofs.
From SWH Require Import Generated.
Import ListNotations.
Open Scope N_scope.

(* ------------------------------------------------------------------ generic list facts *)
Lemma ety_eqb_eq : forall a b, ety_eqb a b = true <-> a = b.
Proof. intros [] []; cbn; split; intro E; try reflexivity; try discriminate. Qed.

Lemma flat_map_ext_in : forall {A B} (f g : A -> list B) l,
  (forall a, In a l -> f a = g a) -> flat_map f l = flat_map g l.
Proof.
  intros A B f g. induction l as [|a l IH]; intro E; cbn [flat_map]; [reflexivity|].
  rewrite (E a (or_introl eq_refl)). f_equal. apply IH. intros b Hb. apply E. right. exact Hb.
Qed.

Lemma flat_map_nil : forall {A B} (l : list A), flat_map (fun _ => @nil B) l = [].
Proof. induction l as [|a l IH]; [reflexivity | exact IH]. Qed.

Lemma flat_map_perm_pointwise : forall {A B} (f g : A -> list B) l,
  (forall a, In a l -> Permutation (f a) (g a)) -> Permutation (flat_map f l) (flat_map g l).
Proof.
  intros A B f g. induction l as [|a l IH]; intro E; cbn [flat_map]; [constructor|].
  apply Permutation_app; [apply E; left; reflexivity | apply IH; intros b Hb; apply E; right; exact Hb].
Qed.

Lemma In_firstn : forall {A} (x : A) k l, In x (firstn k l) -> In x l.
Proof. intros A x k l I. rewrite <- (firstn_skipn k l). apply in_or_app. left. exact I. Qed.

Lemma Forall2_In_r : forall {A B} (R : A -> B -> Prop) l l' y,
  Forall2 R l l' -> In y l' -> exists x, In x l /\ R x y.
Proof.
  intros A B R l l' y F. induction F as [|a b l l' Rab F IH]; intro I; [destruct I|].
  destruct I as [<-|I].
  - exists a. split; [left; reflexivity | exact Rab].
  - destruct (IH I) as [x [Hx Rx]]. exists x. split; [right; exact Hx | exact Rx].
Qed.

Lemma NoDup_map_of_inj : forall {A B} (f : A -> B) l,
  (forall x y, f x = f y -> x = y) -> NoDup l -> NoDup (map f l).
Proof.
  intros A B f l Inj ND. induction ND as [|a l Hn ND IH]; cbn [map]; constructor; [|exact IH].
  intro I. apply in_map_iff in I. destruct I as [b [E Hb]]. apply Inj in E. subst b. contradiction.
Qed.

(* a list is a permutation of its buckets, taken over any duplicate-free list of
   keys that covers it (dict-of-lists grouping loses and duplicates nothing) *)
Section Partition.
  Context {A K : Type} (key : A -> K) (eqb : K -> K -> bool).
  Hypothesis eqb_spec : forall a b, eqb a b = true <-> a = b.

  Definition bucket (l : list A) (k : K) : list A := filter (fun x => eqb (key x) k) l.

  Lemma partition_perm : forall l ks, NoDup ks -> (forall x, In x l -> In (key x) ks) ->
    Permutation (flat_map (bucket l) ks) l.
  Proof.
    induction l as [|x l IH]; intros ks ND Cov.
    - rewrite (flat_map_ext (bucket []) (fun _ => [])) by (intro; reflexivity).
      rewrite flat_map_nil. constructor.
    - destruct (in_split (key x) ks (Cov x (or_introl eq_refl))) as [k1 [k2 E]]. subst ks.
      pose proof (NoDup_remove_2 _ _ _ ND) as Hn.
      assert (Same : forall k, In k (k1 ++ k2) -> bucket (x :: l) k = bucket l k).
      { intros k Hk. unfold bucket. cbn [filter]. destruct (eqb (key x) k) eqn:Ek; [|reflexivity].
        apply eqb_spec in Ek. subst k. contradiction. }
      assert (Mid : bucket (x :: l) (key x) = x :: bucket l (key x)).
      { unfold bucket. cbn [filter]. replace (eqb (key x) (key x)) with true; [reflexivity|].
        symmetry. apply eqb_spec. reflexivity. }
      rewrite flat_map_app. cbn [flat_map]. rewrite Mid.
      rewrite (flat_map_ext_in (bucket (x :: l)) (bucket l) k1)
        by (intros k Hk; apply Same; apply in_or_app; left; exact Hk).
      rewrite (flat_map_ext_in (bucket (x :: l)) (bucket l) k2)
        by (intros k Hk; apply Same; apply in_or_app; right; exact Hk).
      apply Permutation_sym. cbn [app]. apply Permutation_cons_app. apply Permutation_sym.
      assert (P : Permutation (flat_map (bucket l) (k1 ++ key x :: k2)) l).
      { apply IH; [exact ND|]. intros y Hy. apply Cov. right. exact Hy. }
      rewrite flat_map_app in P. exact P.
  Qed.
End Partition.

(* ------------------------------------------------------------------ the precedence table *)
Fixpoint nodup_ety (l : list ety) : bool :=
  match l with
  | [] => true
  | x :: r => negb (existsb (ety_eqb x) r) && nodup_ety r
  end.

Lemma nodup_ety_sound : forall l, nodup_ety l = true -> NoDup l.
Proof.
  induction l as [|x l IH]; intro E; [constructor|].
  cbn [nodup_ety] in E. apply andb_true_iff in E. destruct E as [E1 E2].
  constructor; [|apply IH; exact E2].
  intro I. apply negb_true_iff in E1. assert (X : existsb (ety_eqb x) l = true).
  { apply existsb_exists. exists x. split; [exact I | apply ety_eqb_eq; reflexivity]. }
  congruence.
Qed.

(* the side condition on the regenerated table (the code's own assertion
   set(dir_entry_types) == set(_DIR_ENTRY_TYPES), plus: no type is listed twice) *)
Lemma precedence_NoDup : NoDup precedence.
Proof. apply nodup_ety_sound. vm_compute. reflexivity. Qed.

Lemma precedence_complete : forall t, In t precedence.
Proof.
  intro t. assert (X : existsb (ety_eqb t) precedence = true) by (destruct t; vm_compute; reflexivity).
  apply existsb_exists in X. destruct X as [x [Hx E]]. apply ety_eqb_eq in E. subst x. exact Hx.
Qed.

Lemma precedence_table : NoDup precedence /\ forall t, In t precedence.
Proof. split; [exact precedence_NoDup | exact precedence_complete]. Qed.

(* the documented heuristic: revisions first, then directories, then files *)
Lemma precedence_order : precedence = [ERev; EDir; EFile].
Proof. vm_compute. reflexivity. Qed.

(* ------------------------------------------------------------------ grouping *)
Lemma uniq_names_In : forall es seen n,
  In n (uniq_names seen es) <-> (In n (map e_name es) /\ ~ In n seen).
Proof.
  induction es as [|e es IH]; intros seen n; cbn [uniq_names map].
  - cbn [In]. tauto.
  - destruct (mem_bytes (e_name e) seen) eqn:M.
    + apply mem_bytes_In in M. rewrite IH. cbn [In]. split; [tauto|].
      intros [[E|I] Hn]; [subst; contradiction | tauto].
    + assert (Hs : ~ In (e_name e) seen) by (rewrite <- mem_bytes_In; congruence).
      cbn [In]. rewrite IH. cbn [In].
      destruct (list_eq_dec N.eq_dec (e_name e) n) as [E|E]; [subst n; tauto | tauto].
Qed.

Lemma uniq_names_NoDup : forall es seen, NoDup (uniq_names seen es).
Proof.
  induction es as [|e es IH]; intro seen; cbn [uniq_names]; [constructor|].
  destruct (mem_bytes (e_name e) seen); [apply IH|].
  constructor; [|apply IH]. rewrite uniq_names_In. intros [_ Hn]. apply Hn. left. reflexivity.
Qed.

Lemma ordered_group_In : forall es n e,
  In e (ordered_group es n) <-> (In e es /\ e_name e = n).
Proof.
  intros es n e. unfold ordered_group. rewrite in_flat_map. split.
  - intros [t [_ I]]. apply filter_In in I. destruct I as [I _]. apply filter_In in I.
    destruct I as [I E]. unfold has_name in E. apply beqb_eq in E. split; assumption.
  - intros [I E]. exists (e_type e). split; [apply precedence_complete|].
    apply filter_In. split.
    + apply filter_In. split; [exact I|]. unfold has_name. apply beqb_eq. exact E.
    + unfold has_type. apply ety_eqb_eq. reflexivity.
Qed.

Lemma ordered_group_perm : forall es n,
  Permutation (ordered_group es n) (filter (has_name n) es).
Proof.
  intros es n. unfold ordered_group.
  change (fun t => filter (has_type t) (filter (has_name n) es))
    with (bucket e_type ety_eqb (filter (has_name n) es)).
  apply (partition_perm e_type ety_eqb ety_eqb_eq).
  - exact precedence_NoDup.
  - intros x _. apply precedence_complete.
Qed.

Lemma map_snd_mark : forall g, map snd (mark g) = g.
Proof.
  destruct g as [|w l]; [reflexivity|]. cbn [mark map snd]. f_equal.
  rewrite map_map. cbn [snd]. apply map_id.
Qed.

Lemma plan_cons : forall es n ns, plan es (n :: ns) = mark (ordered_group es n) ++ plan es ns.
Proof. reflexivity. Qed.

Lemma map_snd_plan : forall es ns, map snd (plan es ns) = flat_map (ordered_group es) ns.
Proof.
  intros es. induction ns as [|n ns IH]; [reflexivity|].
  rewrite plan_cons, map_app, map_snd_mark, IH. reflexivity.
Qed.

(* the work list of the repair loop is a permutation of the input *)
Lemma plan_perm : forall es, Permutation (map snd (plan es (uniq_names [] es))) es.
Proof.
  intro es. rewrite map_snd_plan.
  apply Permutation_trans with (flat_map (bucket e_name beqb es) (uniq_names [] es)).
  - apply flat_map_perm_pointwise. intros n _. apply ordered_group_perm.
  - apply (partition_perm e_name beqb beqb_eq).
    + apply uniq_names_NoDup.
    + intros x Hx. apply uniq_names_In. split; [apply in_map; exact Hx | intros []].
Qed.

(* names kept by the winners *)
Definition wn (p : list (bool * entry)) : list bytes :=
  map (fun be => e_name (snd be)) (filter fst p).

Lemma wn_app : forall a b, wn (a ++ b) = wn a ++ wn b.
Proof. intros. unfold wn. rewrite filter_app, map_app. reflexivity. Qed.

Lemma wn_losers : forall l, wn (map (pair false) l) = [].
Proof. induction l as [|x l IH]; [reflexivity | exact IH]. Qed.

Lemma wn_mark_group : forall es n,
  wn (mark (ordered_group es n)) = [] \/ wn (mark (ordered_group es n)) = [n].
Proof.
  intros es n. destruct (ordered_group es n) as [|w l] eqn:G; [left; reflexivity|right].
  assert (E : e_name w = n).
  { apply (ordered_group_In es n w). rewrite G. left. reflexivity. }
  cbn [mark]. change ((true, w) :: map (pair false) l) with ([(true, w)] ++ map (pair false) l).
  rewrite wn_app, wn_losers. cbn. rewrite E. reflexivity.
Qed.

Lemma wn_plan : forall es ns, NoDup ns ->
  NoDup (wn (plan es ns)) /\ (forall x, In x (wn (plan es ns)) -> In x ns).
Proof.
  intros es. induction ns as [|n ns IH]; intro ND.
  - split; [constructor | intros x []].
  - inversion ND as [|? ? Hn ND']; subst. destruct (IH ND') as [IH1 IH2].
    rewrite plan_cons, wn_app. destruct (wn_mark_group es n) as [E|E]; rewrite E; cbn [app].
    + split; [exact IH1 | intros x Hx; right; apply IH2; exact Hx].
    + split.
      * constructor; [|exact IH1]. intro I. apply Hn. apply IH2. exact I.
      * intros x [<-|Hx]; [left; reflexivity | right; apply IH2; exact Hx].
Qed.

(* the head of a group has the most important type present in the group *)
Lemma index_of_head : forall t ts, index_of t (t :: ts) = O.
Proof. intros. cbn [index_of]. replace (ety_eqb t t) with true; [reflexivity|]. symmetry. apply ety_eqb_eq. reflexivity. Qed.

Lemma index_of_tail : forall t x ts, x <> t -> index_of t (x :: ts) = S (index_of t ts).
Proof.
  intros t x ts Hne. cbn [index_of]. destruct (ety_eqb x t) eqn:E; [|reflexivity].
  apply ety_eqb_eq in E. contradiction.
Qed.

Lemma head_rank : forall g ts w rest,
  flat_map (fun t => filter (has_type t) g) ts = w :: rest ->
  forall e2, In e2 g -> (index_of (e_type w) ts <= index_of (e_type e2) ts)%nat.
Proof.
  intros g. induction ts as [|t ts IH]; intros w rest E e2 H2; [discriminate|].
  cbn [flat_map] in E. destruct (filter (has_type t) g) as [|x l] eqn:F.
  - cbn [app] in E.
    assert (Ht : forall e, In e g -> e_type e <> t).
    { intros e He Et. assert (I : In e (filter (has_type t) g)).
      { apply filter_In. split; [exact He | apply ety_eqb_eq; exact Et]. }
      rewrite F in I. destruct I. }
    assert (Hw : In w g).
    { assert (I : In w (flat_map (fun t => filter (has_type t) g) ts)) by (rewrite E; left; reflexivity).
      apply in_flat_map in I. destruct I as [t' [_ I]]. apply filter_In in I. tauto. }
    rewrite !index_of_tail by (intro X; symmetry in X; revert X; apply Ht; assumption).
    apply le_n_S. exact (IH w rest E e2 H2).
  - cbn [app] in E. inversion E; subst x.
    assert (I : In w (filter (has_type t) g)) by (rewrite F; left; reflexivity).
    apply filter_In in I. destruct I as [_ Et]. apply ety_eqb_eq in Et. rewrite Et.
    rewrite index_of_head. apply Nat.le_0_l.
Qed.

(* ------------------------------------------------------------------ the search for a free name *)
Lemma candidate_inj : forall base j k, candidate base j = candidate base k -> j = k.
Proof.
  intros base j k. unfold candidate.
  destruct (N.eqb_spec j 0) as [Ej|Ej]; destruct (N.eqb_spec k 0) as [Ek|Ek]; intro E.
  - congruence.
  - exfalso. apply (f_equal (@length N)) in E. rewrite !app_length in E. cbn [length] in E. lia.
  - exfalso. apply (f_equal (@length N)) in E. rewrite !app_length in E. cbn [length] in E. lia.
  - apply app_inv_head in E. cbn [app] in E. inversion E as [E']. apply dec_N_inj. exact E'.
Qed.

Lemma free_name_none : forall f used base k, free_name f used base k = None ->
  forall j, (j < f)%nat -> In (candidate base (k + N.of_nat j)) used.
Proof.
  induction f as [|f IH]; intros used base k E j Hj; [lia|].
  cbn [free_name] in E. cbv zeta in E.
  destruct (mem_bytes (candidate base k) used) eqn:M; [|discriminate].
  destruct j as [|j].
  - rewrite N.add_0_r. apply mem_bytes_In. exact M.
  - replace (k + N.of_nat (S j)) with (N.succ k + N.of_nat j) by lia.
    apply IH; [exact E | lia].
Qed.

Lemma free_name_some : forall f used base k c, free_name f used base k = Some c ->
  ~ In c used /\ exists j, c = candidate base j.
Proof.
  induction f as [|f IH]; intros used base k c E; [discriminate|].
  cbn [free_name] in E. cbv zeta in E.
  destruct (mem_bytes (candidate base k) used) eqn:M.
  - apply IH in E. exact E.
  - inversion E; subst c. split; [rewrite <- mem_bytes_In; congruence | exists k; reflexivity].
Qed.

(* pigeonhole: |used| + 1 pairwise different candidates cannot all be taken *)
Lemma free_name_succeeds : forall used base k, free_name (S (length used)) used base k <> None.
Proof.
  intros used base k E.
  pose proof (free_name_none _ _ _ _ E) as All.
  set (f := fun j : nat => candidate base (k + N.of_nat j)).
  assert (ND : NoDup (map f (seq 0 (S (length used))))).
  { apply NoDup_map_of_inj; [|apply seq_NoDup].
    intros x y Exy. unfold f in Exy. apply candidate_inj in Exy. lia. }
  assert (Inc : incl (map f (seq 0 (S (length used)))) used).
  { intros c Hc. apply in_map_iff in Hc. destruct Hc as [j [<- Hj]]. apply in_seq in Hj.
    apply All. lia. }
  pose proof (NoDup_incl_length ND Inc) as L. rewrite map_length, seq_length in L. lia.
Qed.

(* ------------------------------------------------------------------ the renaming pass *)
Lemma assign_cons_true : forall used e r out, assign used ((true, e) :: r) = Some out ->
  exists out', out = e :: out' /\ assign used r = Some out'.
Proof.
  intros used e r out E. cbn [assign] in E. destruct (assign used r) as [out'|] eqn:A; [|discriminate].
  inversion E. exists out'. split; reflexivity.
Qed.

Lemma assign_cons_false : forall used e r out, assign used ((false, e) :: r) = Some out ->
  exists n out', free_name (S (length used)) used (base_name e) 0 = Some n /\
                 out = set_name e n :: out' /\ assign (n :: used) r = Some out'.
Proof.
  intros used e r out E. cbn [assign] in E.
  destruct (free_name (S (length used)) used (base_name e) 0) as [n|] eqn:F; [|discriminate].
  destruct (assign (n :: used) r) as [out'|] eqn:A; [|discriminate].
  inversion E. exists n, out'. split; [reflexivity|]. split; [reflexivity | exact A].
Qed.

Lemma assign_total : forall p used, exists out, assign used p = Some out.
Proof.
  induction p as [|[[|] e] r IH]; intro used.
  - exists []. reflexivity.
  - destruct (IH used) as [out E]. exists (e :: out). cbn [assign]. rewrite E. reflexivity.
  - cbn [assign]. destruct (free_name (S (length used)) used (base_name e) 0) as [n|] eqn:F.
    + destruct (IH (n :: used)) as [out E]. exists (set_name e n :: out). rewrite E. reflexivity.
    + exfalso. revert F. apply free_name_succeeds.
Qed.

(* what may happen to one entry: type, target and permissions are kept; the name is
   kept or becomes <name>_<first 10 hex digits of the target>[_<attempt>] *)
Definition renamed (e e' : entry) : Prop :=
  e_type e' = e_type e /\ e_target e' = e_target e /\ e_perms e' = e_perms e /\
  (e_name e' = e_name e \/ exists k, e_name e' = candidate (base_name e) k).

Lemma assign_shape : forall p used out, assign used p = Some out -> Forall2 renamed (map snd p) out.
Proof.
  induction p as [|[[|] e] r IH]; intros used out E.
  - inversion E. constructor.
  - apply assign_cons_true in E. destruct E as [out' [-> E]]. cbn [map snd]. constructor.
    + unfold renamed. tauto.
    + exact (IH _ _ E).
  - apply assign_cons_false in E. destruct E as [n [out' [F [-> E]]]]. cbn [map snd]. constructor.
    + apply free_name_some in F. destruct F as [_ [j ->]]. unfold renamed. cbn.
      repeat split. right. exists j. reflexivity.
    + exact (IH _ _ E).
Qed.

Lemma assign_winner_in : forall p used out, assign used p = Some out ->
  forall e, In (true, e) p -> In e out.
Proof.
  induction p as [|[[|] e0] r IH]; intros used out E e I; [destruct I| |].
  - apply assign_cons_true in E. destruct E as [out' [-> E]]. destruct I as [I|I].
    + inversion I. left. reflexivity.
    + right. exact (IH _ _ E e I).
  - apply assign_cons_false in E. destruct E as [n [out' [_ [-> E]]]]. destruct I as [I|I]; [discriminate|].
    right. exact (IH _ _ E e I).
Qed.

Lemma assign_name_cases : forall p used out, assign used p = Some out ->
  forall e', In e' out -> In (true, e') p \/ ~ In (e_name e') used.
Proof.
  induction p as [|[[|] e0] r IH]; intros used out E e' I.
  - inversion E; subst out. destruct I.
  - apply assign_cons_true in E. destruct E as [out' [-> E]]. destruct I as [<-|I].
    + left. left. reflexivity.
    + destruct (IH _ _ E e' I) as [X|X]; [left; right; exact X | right; exact X].
  - apply assign_cons_false in E. destruct E as [n [out' [F [-> E]]]]. destruct I as [<-|I].
    + right. cbn. apply free_name_some in F. tauto.
    + destruct (IH _ _ E e' I) as [X|X]; [left; right; exact X|].
      right. intro Hu. apply X. right. exact Hu.
Qed.

Lemma wn_cons_true : forall e r, wn ((true, e) :: r) = e_name e :: wn r.
Proof. reflexivity. Qed.
Lemma wn_cons_false : forall e r, wn ((false, e) :: r) = wn r.
Proof. reflexivity. Qed.

Lemma in_wn : forall p e, In (true, e) p -> In (e_name e) (wn p).
Proof.
  intros p e I. unfold wn. apply in_map_iff. exists (true, e). split; [reflexivity|].
  apply filter_In. split; [exact I | reflexivity].
Qed.

Lemma assign_NoDup : forall p used out, assign used p = Some out ->
  NoDup (wn p) -> (forall x, In x (wn p) -> In x used) -> NoDup (map e_name out).
Proof.
  induction p as [|[[|] e] r IH]; intros used out E ND Sub.
  - inversion E. constructor.
  - apply assign_cons_true in E. destruct E as [out' [-> E]].
    rewrite wn_cons_true in ND, Sub. inversion ND as [|? ? Hn ND']; subst.
    cbn [map]. constructor.
    + intro I. apply in_map_iff in I. destruct I as [e' [En I]].
      destruct (assign_name_cases _ _ _ E e' I) as [X|X].
      * apply Hn. rewrite <- En. apply in_wn. exact X.
      * apply X. rewrite En. apply Sub. left. reflexivity.
    + apply (IH _ _ E ND'). intros x Hx. apply Sub. right. exact Hx.
  - apply assign_cons_false in E. destruct E as [n [out' [F [-> E]]]].
    rewrite wn_cons_false in ND, Sub. apply free_name_some in F. destruct F as [Fresh _].
    cbn [map]. constructor.
    + cbn. intro I. apply in_map_iff in I. destruct I as [e' [En I]].
      destruct (assign_name_cases _ _ _ E e' I) as [X|X].
      * apply Fresh. rewrite <- En. apply Sub. apply in_wn. exact X.
      * apply X. left. symmetry. exact En.
    + apply (IH _ _ E ND). intros x Hx. right. apply Sub. exact Hx.
Qed.

(* ------------------------------------------------------------------ bytes that never appear in a new name *)
Lemma hexdigit_ge : forall n, 48 <= hexdigit n.
Proof. intro n. unfold hexdigit. destruct (n <? 10); lia. Qed.

Lemma hexlify_In : forall c l, In c (hexlify l) -> exists n, c = hexdigit n.
Proof.
  intros c l I. unfold hexlify in I. apply in_flat_map in I. destruct I as [b [_ I]].
  unfold hex_byte in I. destruct I as [E|[E|[]]]; eauto.
Qed.

Lemma is_digit_ge : forall c, is_digit c = true -> 48 <= c.
Proof. intros c E. unfold is_digit in E. apply andb_true_iff in E. destruct E as [E _]. apply N.leb_le in E. exact E. Qed.

(* no byte below '0' (in particular neither '/' nor NUL) is introduced *)
Lemma candidate_no : forall c e k, c < 48 -> ~ In c (e_name e) -> ~ In c (candidate (base_name e) k).
Proof.
  intros c e k Hc Hn.
  assert (B : ~ In c (base_name e)).
  { unfold base_name. intro I. apply in_app_or in I. destruct I as [I|I]; [contradiction|].
    cbn [app] in I. destruct I as [E|I].
    - unfold UNDERSCORE in E. lia.
    - apply In_firstn, hexlify_In in I. destruct I as [n ->]. pose proof (hexdigit_ge n). lia. }
  unfold candidate. destruct (k =? 0); [exact B|].
  intro I. apply in_app_or in I. destruct I as [I|I]; [contradiction|].
  cbn [app] in I. destruct I as [E|I].
  - unfold UNDERSCORE in E. lia.
  - pose proof (dec_N_digits k) as D. rewrite forallb_forall in D. apply D, is_digit_ge in I. lia.
Qed.

Lemma renamed_no : forall c e e', c < 48 -> renamed e e' -> ~ In c (e_name e) -> ~ In c (e_name e').
Proof.
  intros c e e' Hc [_ [_ [_ [E|[k E]]]]] Hn; rewrite E; [exact Hn | apply candidate_no; assumption].
Qed.

(* ------------------------------------------------------------------ repeated names *)
Definition no_slash (es : list entry) : Prop := forall e, In e es -> ~ In SLASH (e_name e).

Lemma no_slash_b : forall es, forallb name_ok es = true -> no_slash es.
Proof.
  intros es E e He. rewrite forallb_forall in E. specialize (E e He).
  unfold name_ok in E. apply negb_true_iff, memb_false in E. exact E.
Qed.

(* two entries at different positions carry the same name *)
Definition Repeated (es : list entry) : Prop :=
  exists pre a mid b post, es = pre ++ a :: mid ++ b :: post /\ e_name a = e_name b.

Lemma Repeated_not_NoDup : forall es, Repeated es <-> ~ NoDup (map e_name es).
Proof.
  intro es. split.
  - intros [pre [a [mid [b [post [-> E]]]]]] ND.
    rewrite map_app in ND. cbn [map] in ND. apply NoDup_remove_2 in ND. apply ND.
    apply in_or_app. right. rewrite map_app. apply in_or_app. right. cbn [map]. left. symmetry. exact E.
  - induction es as [|e es IH]; intro Hn; [exfalso; apply Hn; constructor|].
    cbn [map] in Hn.
    destruct (in_dec (list_eq_dec N.eq_dec) (e_name e) (map e_name es)) as [I|I].
    + apply in_map_iff in I. destruct I as [b [E Hb]]. apply in_split in Hb. destruct Hb as [mid [post ->]].
      exists [], e, mid, b, post. split; [reflexivity | symmetry; exact E].
    + assert (Hn' : ~ NoDup (map e_name es)) by (intro ND; apply Hn; constructor; assumption).
      destruct (IH Hn') as [pre [a [mid [b [post [-> E]]]]]].
      exists (e :: pre), a, mid, b, post. split; [reflexivity | exact E].
Qed.

Lemma valid_dir_no_slash : forall es, no_slash es -> (valid_dir es = true <-> NoDup (map e_name es)).
Proof.
  intros es NS. rewrite valid_dir_Valid. unfold Valid. split; [tauto | intro ND; split; [exact NS | exact ND]].
Qed.

Lemma NoDup_names_dec : forall es, NoDup (map e_name es) \/ ~ NoDup (map e_name es).
Proof.
  intro es. destruct (nodup_names [] es) eqn:E.
  - left. apply (nodup_names_spec es [] E).
  - right. intro ND. rewrite nodup_names_complete in E; [discriminate | exact ND | intros ? ? []].
Qed.

(* ================================================================== the repair *)
Section WithHash.
  Variable H : bytes -> bytes.

  Definition given_or (id : bytes) (h : bytes) : bytes := match id with [] => h | _ => id end.

  (* no repeated name: the ordinary constructor's result *)
  Lemma repair_nodup : forall es id raw, no_slash es -> NoDup (map e_name es) ->
    repair H es id raw =
    RepOk false {| o_entries := es; o_id := given_or id (compute_hash H es raw); o_raw := raw |}.
  Proof.
    intros es id raw NS ND. unfold repair, mk_directory.
    rewrite (proj2 (valid_dir_no_slash es NS) ND). reflexivity.
  Qed.

  (* a repeated name: the renaming pass ends, its result is accepted by the constructor *)
  Lemma repair_dup : forall es id raw, no_slash es -> ~ NoDup (map e_name es) ->
    exists es', assign (uniq_names [] es) (plan es (uniq_names [] es)) = Some es' /\ Valid es' /\
      repair H es id raw =
      RepOk true {| o_entries := es';
                    o_id := given_or id (H (match raw with Some m => m | None => dir_manifest es end));
                    o_raw := Some (match raw with Some m => m | None => dir_manifest es end) |}.
  Proof.
    intros es id raw NS Dup.
    assert (V : valid_dir es = false).
    { destruct (valid_dir es) eqn:V; [|reflexivity]. exfalso. apply Dup. apply (valid_dir_no_slash es NS). exact V. }
    destruct (assign_total (plan es (uniq_names [] es)) (uniq_names [] es)) as [es' A].
    exists es'. split; [exact A|].
    assert (Val : Valid es').
    { split.
      - intros e' He'. destruct (Forall2_In_r _ _ _ _ (assign_shape _ _ _ A) He') as [e [He R]].
        apply (renamed_no SLASH e e'); [reflexivity | exact R|].
        apply NS. apply (Permutation_in _ (plan_perm es)). exact He.
      - destruct (wn_plan es _ (uniq_names_NoDup es [])) as [W1 W2].
        apply (assign_NoDup _ _ _ A W1 W2). }
    split; [exact Val|].
    unfold repair, mk_directory. rewrite V, A. rewrite (proj2 (valid_dir_Valid es') Val). reflexivity.
  Qed.

  (* ---------------------------------------------------------------- C19_succeeds *)
  Theorem repair_succeeds : forall es id raw, no_slash es -> exists f d, repair H es id raw = RepOk f d.
  Proof.
    intros es id raw NS. destruct (NoDup_names_dec es) as [ND|Dup].
    - eexists. eexists. apply repair_nodup; assumption.
    - destruct (repair_dup es id raw NS Dup) as [es' [_ [_ E]]]. eexists. eexists. exact E.
  Qed.

  (* ---------------------------------------------------------------- C19_flag *)
  Theorem repair_flag : forall es id raw f d, no_slash es -> repair H es id raw = RepOk f d ->
    (f = true <-> Repeated es).
  Proof.
    intros es id raw f d NS E. rewrite Repeated_not_NoDup. destruct (NoDup_names_dec es) as [ND|Dup].
    - rewrite repair_nodup in E by assumption. inversion E. split; [discriminate | tauto].
    - destruct (repair_dup es id raw NS Dup) as [es' [_ [_ E']]]. rewrite E' in E. inversion E. tauto.
  Qed.

  (* ---------------------------------------------------------------- C19_unchanged *)
  Theorem repair_unchanged : forall es id raw, no_slash es -> ~ Repeated es ->
    repair H es id raw =
    RepOk false {| o_entries := es; o_id := given_or id (compute_hash H es raw); o_raw := raw |}.
  Proof.
    intros es id raw NS NR. apply repair_nodup; [exact NS|].
    destruct (NoDup_names_dec es) as [ND|Dup]; [exact ND|]. exfalso. apply NR, Repeated_not_NoDup. exact Dup.
  Qed.

  (* ---------------------------------------------------------------- C19_unique *)
  Theorem repair_unique : forall es id raw f d, repair H es id raw = RepOk f d ->
    NoDup (map e_name (o_entries d)) /\ no_slash (o_entries d).
  Proof.
    intros es id raw f d E. unfold repair in E.
    assert (G : forall l i r d', mk_directory H l i r = Some d' -> Valid (o_entries d')).
    { intros l i r d' M. unfold mk_directory in M. destruct (valid_dir l) eqn:V; [|discriminate].
      inversion M. cbn. apply valid_dir_Valid. exact V. }
    destruct (mk_directory H es id raw) as [d0|] eqn:M.
    - inversion E; subst. destruct (G _ _ _ _ M) as [V1 V2]. split; assumption.
    - destruct (assign _ _) as [es'|]; [|discriminate].
      destruct (mk_directory H es' id _) as [d1|] eqn:M'; [|discriminate].
      inversion E; subst. destruct (G _ _ _ _ M') as [V1 V2]. split; assumption.
  Qed.

  (* ---------------------------------------------------------------- C19_preserved *)
  Definition payload (e : entry) : ety * bytes * N := (e_type e, e_target e, e_perms e).

  Lemma renamed_refl : forall l, Forall2 renamed l l.
  Proof. induction l as [|e l IH]; constructor; [unfold renamed; tauto | exact IH]. Qed.

  Lemma renamed_payload : forall l l', Forall2 renamed l l' -> map payload l' = map payload l.
  Proof.
    intros l l' F. induction F as [|a b l l' R F IH]; [reflexivity|]. cbn [map]. rewrite IH. f_equal.
    destruct R as [R1 [R2 [R3 _]]]. unfold payload. rewrite R1, R2, R3. reflexivity.
  Qed.

  Theorem repair_preserved : forall es id raw f d, no_slash es -> repair H es id raw = RepOk f d ->
    (exists es0, Permutation es0 es /\ Forall2 renamed es0 (o_entries d)) /\
    Permutation (map payload (o_entries d)) (map payload es).
  Proof.
    intros es id raw f d NS E.
    assert (X : exists es0, Permutation es0 es /\ Forall2 renamed es0 (o_entries d)).
    { destruct (NoDup_names_dec es) as [ND|Dup].
      - rewrite repair_nodup in E by assumption. inversion E. cbn. exists es. split; [reflexivity | apply renamed_refl].
      - destruct (repair_dup es id raw NS Dup) as [es' [A [_ E']]]. rewrite E' in E. inversion E. cbn.
        exists (map snd (plan es (uniq_names [] es))). split; [apply plan_perm | exact (assign_shape _ _ _ A)]. }
    split; [exact X|]. destruct X as [es0 [P F]]. rewrite (renamed_payload _ _ F). apply Permutation_map. exact P.
  Qed.

  (* ---------------------------------------------------------------- C19_winner *)
  Theorem repair_winner : forall es id raw f d, no_slash es -> repair H es id raw = RepOk f d ->
    forall n, In n (map e_name es) ->
    exists w, In w es /\ e_name w = n /\ In w (o_entries d) /\
              forall e2, In e2 es -> e_name e2 = n -> (rank (e_type w) <= rank (e_type e2))%nat.
  Proof.
    intros es id raw f d NS E n Hn. destruct (NoDup_names_dec es) as [ND|Dup].
    - rewrite repair_nodup in E by assumption. inversion E. cbn.
      apply in_map_iff in Hn. destruct Hn as [w [En Hw]]. exists w. repeat split; try assumption.
      intros e2 He2 E2. replace e2 with w; [apply Nat.le_refl|].
      apply (NoDup_map_inj e_name es); try assumption. congruence.
    - destruct (repair_dup es id raw NS Dup) as [es' [A [_ E']]]. rewrite E' in E. inversion E. cbn.
      apply in_map_iff in Hn. destruct Hn as [e [En He]].
      assert (G : In e (ordered_group es n)) by (apply ordered_group_In; split; assumption).
      destruct (ordered_group es n) as [|w l] eqn:OG; [destruct G|].
      assert (Hw : In w es /\ e_name w = n) by (apply ordered_group_In; rewrite OG; left; reflexivity).
      destruct Hw as [Hw Ew]. exists w. repeat split; try assumption.
      + apply (assign_winner_in _ _ _ A).
        assert (Inn : In n (uniq_names [] es)).
        { apply uniq_names_In. split; [apply in_map_iff; exists e; split; assumption | intros []]. }
        unfold plan. apply in_flat_map. exists n. split; [exact Inn|]. rewrite OG. left. reflexivity.
      + intros e2 He2 E2. unfold rank. unfold ordered_group in OG.
        apply (head_rank _ _ _ _ OG). apply filter_In. split; [exact He2|]. unfold has_name. apply beqb_eq. exact E2.
  Qed.

  (* ---------------------------------------------------------------- C19_id *)
  Theorem repair_id : forall es f d, no_slash es -> Repeated es -> repair H es [] None = RepOk f d ->
    f = true /\ o_raw d = Some (dir_manifest es) /\ o_id d = H (dir_manifest es).
  Proof.
    intros es f d NS R E. apply Repeated_not_NoDup in R.
    destruct (repair_dup es [] None NS R) as [es' [_ [_ E']]]. rewrite E' in E. inversion E. cbn. tauto.
  Qed.

  Theorem repair_id_kept : forall es id raw f d, no_slash es -> repair H es id raw = RepOk f d ->
    (id <> [] -> o_id d = id) /\ (forall m, raw = Some m -> o_raw d = Some m) /\
    (id = [] -> forall m, raw = Some m -> o_id d = H m).
  Proof.
    intros es id raw f d NS E. destruct (NoDup_names_dec es) as [ND|Dup].
    - rewrite repair_nodup in E by assumption. inversion E. cbn. repeat split.
      + intro Hid. destruct id; [congruence | reflexivity].
      + intros m ->. reflexivity.
      + intros -> m ->. reflexivity.
    - destruct (repair_dup es id raw NS Dup) as [es' [_ [_ E']]]. rewrite E' in E. inversion E. cbn. repeat split.
      + intro Hid. destruct id; [congruence | reflexivity].
      + intros m ->. reflexivity.
      + intros -> m ->. reflexivity.
  Qed.

  (* the repaired entry list has another manifest than the original one: the
     original manifest lists some name twice, the repaired one lists every name once *)
  Theorem repair_manifests_differ : forall es id raw f d, no_slash es -> Decodable es -> Repeated es ->
    repair H es id raw = RepOk f d -> dir_manifest (o_entries d) <> dir_manifest es.
  Proof.
    intros es id raw f d NS D R E EM. apply Repeated_not_NoDup in R.
    destruct (repair_dup es id raw NS R) as [es' [A [[_ ND'] E']]]. rewrite E' in E. inversion E; subst d. cbn in EM.
    assert (D' : Decodable es').
    { intros e' He'. destruct (Forall2_In_r _ _ _ _ (assign_shape _ _ _ A) He') as [e [He Rn]].
      apply (Permutation_in _ (plan_perm es)) in He. destruct (D e He) as [D1 D2]. split.
      - apply (renamed_no NUL e e'); [reflexivity | exact Rn | exact D1].
      - destruct Rn as [_ [Rt _]]. rewrite Rt. exact D2. }
    pose proof (dir_manifest_injective es' es D' D EM) as P.
    apply (Permutation_map (fun t : triple => snd (fst t))) in P. rewrite !map_map in P. cbn [triple_of fst snd] in P.
    apply R. apply (Permutation_NoDup P). exact ND'.
  Qed.

  (* d.check() on the repaired directory: passes as soon as the hash function tells
     the repaired manifest from the original one *)
  Lemma repair_check_sep : forall es f d, no_slash es -> Repeated es -> repair H es [] None = RepOk f d ->
    H (dir_manifest (o_entries d)) <> H (dir_manifest es) -> check H d = true.
  Proof.
    intros es f d NS R E Sep. apply Repeated_not_NoDup in R.
    destruct (repair_dup es [] None NS R) as [es' [_ [Val E']]]. rewrite E' in E. inversion E; subst d.
    cbn in Sep. unfold check, compute_hash. cbn.
    rewrite (proj2 (valid_dir_Valid es') Val), beqb_refl. cbn.
    apply negb_true_iff, beqb_neq. intro X. apply Sep. symmetry. exact X.
  Qed.

  Theorem repair_check : forall es f d, no_slash es -> Decodable es -> Repeated es ->
    repair H es [] None = RepOk f d ->
    (H (dir_manifest (o_entries d)) = H (dir_manifest es) -> dir_manifest (o_entries d) = dir_manifest es) ->
    check H d = true.
  Proof.
    intros es f d NS D R E Inj. apply (repair_check_sep es f d NS R E).
    intro X. apply (repair_manifests_differ es [] None f d NS D R E). apply Inj. exact X.
  Qed.

  (* ---------------------------------------------------------------- the code before the fix *)
  Definition old_witness1 : list entry := [mk "a" EFile 1 33188; mk "a" EFile 2 33188; mk "a" EFile 2 33188].
  Definition old_witness2 : list entry := [mk "a" EFile 1 33188; mk "a" EFile 2 33188; mk "a_0202020202" EFile 3 33188].

  Theorem repair_old_refuted :
    (no_slash old_witness1 /\ repair_old H old_witness1 [] None = RepValueError) /\
    (no_slash old_witness2 /\ repair_old H old_witness2 [] None = RepValueError) /\
    ~ (forall es id raw, no_slash es -> exists f d, repair_old H es id raw = RepOk f d).
  Proof.
    assert (W1 : no_slash old_witness1 /\ repair_old H old_witness1 [] None = RepValueError).
    { split; [apply no_slash_b; vm_compute; reflexivity | vm_compute; reflexivity]. }
    assert (W2 : no_slash old_witness2 /\ repair_old H old_witness2 [] None = RepValueError).
    { split; [apply no_slash_b; vm_compute; reflexivity | vm_compute; reflexivity]. }
    split; [exact W1|]. split; [exact W2|].
    intro All. destruct W1 as [NS E]. destruct (All old_witness1 [] None NS) as [f [d E']]. congruence.
  Qed.

  Theorem repair_fixes_old_witnesses :
    match repair H old_witness1 [] None with
    | RepOk f d => (f, map e_name (o_entries d)) | _ => (false, [])
    end = (true, [bs "a"; bs "a_0202020202"; bs "a_0202020202_1"]) /\
    match repair H old_witness2 [] None with
    | RepOk f d => (f, map e_name (o_entries d)) | _ => (false, [])
    end = (true, [bs "a"; bs "a_0202020202_1"; bs "a_0202020202"]).
  Proof. split; vm_compute; reflexivity. Qed.

  (* ---------------------------------------------------------------- non-vacuity *)
  Theorem repair_satisfiable :
    no_slash ex_dups /\ Decodable ex_dups /\ Repeated ex_dups /\
    match repair H ex_dups [] None with
    | RepOk f d => (f, map e_name (o_entries d), map e_type (o_entries d), o_raw d)
    | _ => (false, [], [], None)
    end = (true, [bs "a"; bs "a_0101010101"; bs "a_0101010101_1"; bs "b"; bs "b_0303030303"],
                 [EDir; EFile; EFile; ERev; EFile], Some (dir_manifest ex_dups)).
  Proof.
    split; [apply no_slash_b; vm_compute; reflexivity|]. split; [|split].
    - intros e He. cbn in He.
      repeat (destruct He as [<-|He]; [split; [apply dec_In; vm_compute; reflexivity | reflexivity]|]). destruct He.
    - exists [], (mk "a" EFile 1 33188), [mk "a" EDir 2 16384], (mk "a" EFile 1 33188),
             [mk "b" EFile 3 33188; mk "b" ERev 4 57344]. split; reflexivity.
    - vm_compute. reflexivity.
  Qed.
End WithHash.
