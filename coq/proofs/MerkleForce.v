(* Out-of-band data writes (node.data = ...) and what update_hash(force=True)
   restores.  A write is not seen by the library: cached hashes above the
   written node become stale.  The invariant splits into a structural part
   InvS (handles, back-links, "cached => children cached", "collected =>
   cached"), which a write does not disturb, and per-node cleanliness (every
   cached value of the node is the from-scratch value).  A forced update at r
   runs correctly from ANY state satisfying InvS and leaves every node below r
   clean, hashed and un-collected, and every node above r clean. *)
From Coq Require Import List NArith Bool Arith Lia.
From SWH.lib Require Import Bytes.
From SWH.model Require Import Merkle.
From SWH.proofs Require Import MerkleBase MerkleAcyclic MerkleInv MerkleHash MerkleMut MerkleCollect MerkleStep.
Import ListNotations.
Local Open Scope nat_scope.

Lemma links_in : forall s, links s -> forall p x nm c y, nth_error s p = Some x -> In (nm, c) (kids x) ->
  nth_error s c = Some y -> In p (parents y).
Proof.
  intros s L p x nm c y E Hin Ec. pose proof (L p x c y E Ec) as H.
  pose proof (cnt_in _ _ _ Hin). apply (count_occ_In Nat.eq_dec). lia.
Qed.

Lemma links_shape : forall s s', shape s s' -> links s -> links s'.
Proof.
  intros s s' Sh L p x' c y' E' Ec'.
  destruct (F2_nth_r _ _ _ _ _ Sh E') as (x & E & (_ & _ & K & _)).
  destruct (F2_nth_r _ _ _ _ _ Sh Ec') as (y & Ec & (_ & _ & _ & P)).
  rewrite K, P. eapply L; eauto.
Qed.

Lemma shape_acyclic : forall s s', shape s s' -> acyclic s -> acyclic s'.
Proof.
  intros s s' Sh [r D]. exists r. intros n m E. apply D. eapply shape_edge; eauto. apply shape_sym; auto.
Qed.

Lemma hashed_some : forall x, hashed x = true -> exists h, cached x = Some h.
Proof. intros x H. unfold hashed in H. destruct (cached x); [eauto | discriminate]. Qed.
Lemma hashed_of_some : forall x h, cached x = Some h -> hashed x = true.
Proof. intros x h H. unfold hashed. rewrite H. reflexivity. Qed.

Section WithNH.
Variable NH : bytes -> list entry -> bytes.
Notation Fresh := (Fresh NH).
Notation FreshKids := (FreshKids NH).
Notation Inv := (Inv NH).
Notation InvA := (InvA NH).

(* every cached value of node m is the from-scratch value *)
Definition clean (s : heap) (m : nat) (x : node) : Prop :=
  (forall h, cached x = Some h -> Fresh s m h) /\
  (forall es, mcache x = Some es -> FreshKids s (kids x) es) /\
  (forall es, ecache x = Some es -> FreshKids s (kids x) es).
Definition clean_at (s : heap) (m : nat) : Prop := forall x, nth_error s m = Some x -> clean s m x.
Definition cleanb (s : heap) (n : nat) : Prop := forall m, Reach s n m -> clean_at s m.

(* the part of the invariant that does not speak of hash VALUES *)
Record InvS (s : heap) : Prop := mkInvS {
  S_wfk : wfk s;
  S_wfp : wfp s;
  S_links : links s;
  S1 : forall n x nm k, nth_error s n = Some x -> hashed x = true -> In (nm, k) (kids x) -> hashed_at s k;
  S3m : forall n x es nm k, nth_error s n = Some x -> mcache x = Some es -> In (nm, k) (kids x) -> hashed_at s k;
  S3e : forall n x es nm k, nth_error s n = Some x -> ecache x = Some es -> In (nm, k) (kids x) -> hashed_at s k;
  S4 : I4s s }.

Lemma Inv_split : forall s, Inv s <-> (InvS s /\ forall m, clean_at s m).
Proof.
  intro s. split.
  - intros [I I4]. split.
    + split; auto.
      * intros n x nm k. apply (I_wfk NH s I).
      * apply (I_wfp NH s I).
      * intros p x c y. apply (I2 NH s I).
      * intros n x nm k E H Hin. destruct (I1 NH s I n x E H) as (h & _ & _ & K). eapply K; eauto.
      * intros n x es nm k E M Hin. destruct (I3m NH s I n x es E M) as [_ K]. eapply K; eauto.
      * intros n x es nm k E M Hin. destruct (I3e NH s I n x es E M) as [_ K]. eapply K; eauto.
    + intros m x E. split; [|split].
      * intros h C. destruct (I1 NH s I m x E (hashed_of_some _ _ C)) as (h' & C' & F & _). congruence.
      * intros es M. apply (I3m NH s I m x es E M).
      * intros es M. apply (I3e NH s I m x es E M).
  - intros [IS CL]. split; [|apply (S4 s IS)]. split.
    + intros n x nm k. apply (S_wfk s IS).
    + apply (S_wfp s IS).
    + intros n x E H. destruct (hashed_some _ H) as [h C]. exists h. split; auto. split.
      * destruct (CL n x E) as (CC & _). apply CC. exact C.
      * intros nm k Hin. eapply (S1 s IS); eauto.
    + intros p x c y. apply (S_links s IS).
    + intros n x es E M. destruct (CL n x E) as (_ & CM & _). split; [apply CM; exact M|].
      intros nm k Hin. eapply (S3m s IS); eauto.
    + intros n x es E M. destruct (CL n x E) as (_ & _ & CE). split; [apply CE; exact M|].
      intros nm k Hin. eapply (S3e s IS); eauto.
Qed.

(* ---- what hash operations may do to the cache fields of node m: leave,
   clear, or set to the from-scratch value; a node still collected keeps its
   cached hash *)
Definition nfu (s' : heap) (m : nat) (x x' : node) : Prop :=
  (cached x' = cached x \/ cached x' = None \/ exists h, cached x' = Some h /\ Fresh s' m h) /\
  (mcache x' = mcache x \/ mcache x' = None \/ exists es, mcache x' = Some es /\ FreshKids s' (kids x) es) /\
  (ecache x' = ecache x \/ ecache x' = None \/ exists es, ecache x' = Some es /\ FreshKids s' (kids x) es) /\
  (collected x' = true -> collected x = true /\ cached x' = cached x).
Definition hop (s s' : heap) : Prop :=
  shape s s' /\ forall m x x', nth_error s m = Some x -> nth_error s' m = Some x' -> nfu s' m x x'.

Lemma hop_refl : forall s, hop s s.
Proof.
  intro s. split; [apply shape_refl|]. intros m x x' E E'. assert (x' = x) by congruence. subst.
  unfold nfu. auto 10.
Qed.

Lemma hop_trans : forall a b c, hop a b -> hop b c -> hop a c.
Proof.
  intros a b c [S1' H1] [S2' H2]. split; [eapply shape_trans; eauto|].
  intros m x x'' E E''. destruct (F2_nth _ _ _ _ _ S1' E) as (x' & E' & (_ & _ & K1 & _)).
  destruct (H1 m x x' E E') as (A1 & B1 & C1 & D1). destruct (H2 m x' x'' E' E'') as (A2 & B2 & C2 & D2).
  destruct (Fresh_shape NH _ _ S2') as [FS FKS].
  split; [|split; [|split]].
  - destruct A2 as [e|[e|(h & e & F)]]; [|auto|right; right; eauto].
    destruct A1 as [e1|[e1|(h & e1 & F)]]; [left; congruence | right; left; congruence|].
    right; right. exists h. split; [congruence | auto].
  - destruct B2 as [e|[e|(es & e & F)]]; [|auto|right; right; exists es; split; [auto | congruence]].
    destruct B1 as [e1|[e1|(es & e1 & F)]]; [left; congruence | right; left; congruence|].
    right; right. exists es. split; [congruence | auto].
  - destruct C2 as [e|[e|(es & e & F)]]; [|auto|right; right; exists es; split; [auto | congruence]].
    destruct C1 as [e1|[e1|(es & e1 & F)]]; [left; congruence | right; left; congruence|].
    right; right. exists es. split; [congruence | auto].
  - intro Cx. destruct (D2 Cx) as [Cy e2]. destruct (D1 Cy) as [Cz e1]. split; congruence.
Qed.

Lemma hop_clean : forall s s' m, hop s s' -> clean_at s m -> clean_at s' m.
Proof.
  intros s s' m [Sh H] CL x' E'. destruct (F2_nth_r _ _ _ _ _ Sh E') as (x & E & (_ & _ & K & _)).
  destruct (H m x x' E E') as (A & B & C & _). destruct (CL x E) as (CA & CB & CC).
  destruct (Fresh_shape NH _ _ Sh) as [FS FKS]. unfold clean. rewrite K.
  split; [|split].
  - intros h e. destruct A as [e1|[e1|(h' & e1 & F)]]; [apply FS, CA; congruence | congruence|].
    assert (h' = h) by congruence. subst. exact F.
  - intros es e. destruct B as [e1|[e1|(es' & e1 & F)]]; [apply FKS, CB; congruence | congruence|].
    assert (es' = es) by congruence. subst. exact F.
  - intros es e. destruct C as [e1|[e1|(es' & e1 & F)]]; [apply FKS, CC; congruence | congruence|].
    assert (es' = es) by congruence. subst. exact F.
Qed.

Lemma cleanb_hop : forall s s' n, hop s s' -> cleanb s n -> cleanb s' n.
Proof.
  intros s s' n H CB m Rm. eapply hop_clean; eauto. apply CB.
  eapply shape_reach; [apply shape_sym; apply H | exact Rm].
Qed.

Lemma notcoll_hop : forall s s' m, hop s s' -> notcoll s m -> notcoll s' m.
Proof.
  intros s s' m [Sh H] NC x' E'. destruct (F2_nth_r _ _ _ _ _ Sh E') as (x & E & _).
  destruct (H m x x' E E') as (_ & _ & _ & D). destruct (collected x') eqn:Cx; auto.
  destruct (D eq_refl) as [Cy _]. rewrite (NC x E) in Cy. discriminate.
Qed.

Lemma hop_R : forall s s', R s s' -> hop s s'.
Proof.
  intros s s' HR. split; [apply R_shape; auto|]. intros m x x' E E'.
  destruct (F2_nth _ _ _ _ _ HR E) as (x2 & E2 & N). assert (x2 = x') by congruence. subst.
  destruct N as (_ & A & B & C). split; [|split; [|split]].
  - destruct A as [[a _]|(a & _)]; auto.
  - destruct C; auto.
  - destruct B; auto.
  - intro Cx. destruct A as [[a b]|(a & b & _)]; [split; congruence | congruence].
Qed.

(* a local update of node n *)
Lemma hop_upd : forall s n x g, nth_error s n = Some x -> nshape x (g x) ->
  nfu (upd n g s) n x (g x) -> hop s (upd n g s).
Proof.
  intros s n x g E Sg N. split.
  - apply F2_upd; [apply nshape_refl|]. intros y Ey. assert (y = x) by congruence. subst. exact Sg.
  - intros m y y' Ey Ey'. rewrite nth_upd in Ey'. destruct (Nat.eqb_spec m n) as [->|Nm].
    + rewrite E in Ey'. simpl in Ey'. inversion Ey'; subst. assert (y = x) by congruence. subst. exact N.
    + assert (y' = y) by congruence. subst. unfold nfu. auto 10.
Qed.

(* ---- InvS is preserved by invalidation and by local cache updates *)
Lemma InvS_RR : forall s s', InvS s -> RR s s' -> InvS s'.
Proof.
  intros s s' IS HRR. pose proof HRR as [HR HP]. pose proof (R_shape _ _ HR) as Sh.
  assert (KH : forall n x x' nm k, nth_error s n = Some x -> nth_error s' n = Some x' ->
            (hashed x' = true \/ mcache x' <> None \/ ecache x' <> None) ->
            In (nm, k) (kids x) -> hashed_at s k -> hashed_at s' k).
  { intros n x x' nm k E E' Hx Hin (y & Ey & Hy).
    destruct (F2_nth _ _ _ _ _ HR Ey) as (y' & Ey' & N). exists y'. split; auto.
    destruct (hashed y') eqn:Hy'; auto. exfalso.
    assert (Ip : In n (parents y)) by (apply (links_in s (S_links s IS) n x nm k y); auto).
    destruct (HP k y y' Ey Ey' Hy Hy' n Ip) as (z & Ez & Hz & Cez & Cmz).
    assert (z = x') by congruence. subst. destruct Hx as [Hx|[Hx|Hx]]; congruence. }
  split.
  - eapply wfk_shape; eauto. apply (S_wfk s IS).
  - eapply wfp_shape; eauto. apply (S_wfp s IS).
  - eapply links_shape; eauto. apply (S_links s IS).
  - intros n x' nm k E' H' Hin. destruct (F2_nth_r _ _ _ _ _ HR E') as (x & E & N).
    destruct (nrel_hashed _ _ N H') as (Hx & _). pose proof N as ((_ & _ & K & _) & _). rewrite K in Hin.
    eapply KH; eauto. eapply (S1 s IS); eauto.
  - intros n x' es nm k E' M' Hin. destruct (F2_nth_r _ _ _ _ _ HR E') as (x & E & N).
    pose proof N as ((_ & _ & K & _) & _ & _ & [Cm|Cm]); [|congruence]. rewrite K in Hin. rewrite Cm in M'.
    eapply KH; eauto; [right; left; congruence | eapply (S3m s IS); eauto].
  - intros n x' es nm k E' M' Hin. destruct (F2_nth_r _ _ _ _ _ HR E') as (x & E & N).
    pose proof N as ((_ & _ & K & _) & _ & [Cm|Cm] & _); [|congruence]. rewrite K in Hin. rewrite Cm in M'.
    eapply KH; eauto; [right; right; congruence | eapply (S3e s IS); eauto].
  - eapply I4s_R; eauto. apply (S4 s IS).
Qed.

Lemma InvS_upd : forall s n x g, InvS s -> nth_error s n = Some x -> nshape x (g x) ->
  (hashed x = true -> hashed (g x) = true) ->
  (hashed (g x) = true -> forall nm k, In (nm, k) (kids x) -> hashed_at s k) ->
  (forall es, mcache (g x) = Some es -> forall nm k, In (nm, k) (kids x) -> hashed_at s k) ->
  (forall es, ecache (g x) = Some es -> forall nm k, In (nm, k) (kids x) -> hashed_at s k) ->
  (collected (g x) = true -> hashed (g x) = true) ->
  InvS (upd n g s).
Proof.
  intros s n x g IS E Sg Hm H1 H3m H3e H4.
  assert (Sh : shape s (upd n g s)).
  { apply F2_upd; [apply nshape_refl|]. intros y Ey. assert (y = x) by congruence. subst. exact Sg. }
  assert (HA : forall k, hashed_at s k -> hashed_at (upd n g s) k).
  { intros k (y & Ey & Hy). destruct (Nat.eq_dec k n) as [->|Nk].
    - assert (y = x) by congruence. subst. exists (g x). rewrite nth_upd_same, E. simpl. auto.
    - exists y. rewrite nth_upd_other; auto. }
  destruct Sg as (_ & _ & Kg & _).
  split.
  - eapply wfk_shape; eauto. apply (S_wfk s IS).
  - eapply wfp_shape; eauto. apply (S_wfp s IS).
  - eapply links_shape; eauto. apply (S_links s IS).
  - intros m y nm k Ey Hy Hin. rewrite nth_upd in Ey. destruct (Nat.eqb_spec m n) as [->|Nm].
    + rewrite E in Ey. simpl in Ey. inversion Ey; subst. rewrite Kg in Hin. apply HA. eapply H1; eauto.
    + apply HA. eapply (S1 s IS); eauto.
  - intros m y es nm k Ey My Hin. rewrite nth_upd in Ey. destruct (Nat.eqb_spec m n) as [->|Nm].
    + rewrite E in Ey. simpl in Ey. inversion Ey; subst. rewrite Kg in Hin. apply HA. eapply H3m; eauto.
    + apply HA. eapply (S3m s IS); eauto.
  - intros m y es nm k Ey My Hin. rewrite nth_upd in Ey. destruct (Nat.eqb_spec m n) as [->|Nm].
    + rewrite E in Ey. simpl in Ey. inversion Ey; subst. rewrite Kg in Hin. apply HA. eapply H3e; eauto.
    + apply HA. eapply (S3e s IS); eauto.
  - intros m y Ey Cy. rewrite nth_upd in Ey. destruct (Nat.eqb_spec m n) as [->|Nm].
    + rewrite E in Ey. simpl in Ey. inversion Ey; subst. auto.
    + eapply (S4 s IS); eauto.
Qed.


(* ---- update_hash under the structural invariant only *)
Variable rank : nat -> nat.

Lemma hashed_val_clean : forall s k h, clean_at s k -> hashed_val s k h -> Fresh s k h.
Proof. intros s k h CL (y & E & C & _). destruct (CL y E) as (CA & _). apply CA. exact C. Qed.

Definition goodW (rd : nat -> heap -> res (heap * bytes)) (bnd : nat -> Prop) (force : bool) : Prop :=
  forall k s, InvS s -> ranked rank s -> k < length s -> bnd k -> (force = false -> cleanb s k) ->
  exists s' h, rd k s = Ok (s', h) /\ InvS s' /\ hop s s' /\ hashed_val s' k h /\ cleanb s' k /\
    (force = false -> grows s s') /\
    (force = true -> (forall m, Reach s k m -> notcoll s' m) /\
                     (forall a, Reach s a k -> a <> k -> clean_at s' a)).

Lemma foldW : forall rd bnd force, goodW rd bnd force ->
  forall l s, InvS s -> ranked rank s -> (forall k, In k l -> k < length s /\ bnd k) ->
  (force = false -> forall k, In k l -> cleanb s k) ->
  exists s', fold_res (fun k t => r <- rd k t ;; Ok (fst r)) l s = Ok s' /\ InvS s' /\ hop s s' /\
    (forall k, In k l -> cleanb s' k) /\ (force = false -> grows s s') /\
    (force = true -> forall k, In k l -> forall m, Reach s k m -> notcoll s' m).
Proof.
  intros rd bnd force G. induction l as [|k l IH]; intros s IS Rk Hl HC; simpl.
  - exists s. split; auto. split; auto. split; [apply hop_refl|]. split; [intros k []|].
    split; [intros; apply grows_refl | intros _ k []].
  - destruct (Hl k (or_introl eq_refl)) as [Lk Bk].
    destruct (G k s IS Rk Lk Bk (fun F => HC F k (or_introl eq_refl))) as (s1 & h & E1 & IS1 & H1 & _ & C1 & G1 & N1).
    rewrite E1. simpl. pose proof (proj1 H1) as Sh1.
    destruct (IH s1 IS1 (shape_ranked _ _ _ Sh1 Rk)) as (s2 & E2 & IS2 & H2 & C2 & G2 & N2).
    { intros k' Hk'. rewrite <- (F2_len _ _ _ Sh1). apply Hl. right. exact Hk'. }
    { intros F k' Hk'. eapply cleanb_hop; eauto. apply HC; auto. right. exact Hk'. }
    exists s2. split; auto. split; auto. split; [eapply hop_trans; eauto|]. split; [|split].
    + intros k' [<-|Hk']; [eapply cleanb_hop; eauto | auto].
    + intro F. eapply grows_trans; eauto.
    + intros F k' [<-|Hk'] m Rm.
      * eapply notcoll_hop; eauto. apply (proj1 (N1 F)). exact Rm.
      * eapply N2; eauto. eapply shape_reach; eauto.
Qed.

Lemma read_kidsW : forall rd bnd, goodW rd bnd false ->
  forall ks s, InvS s -> ranked rank s ->
  (forall nm k, In (nm, k) ks -> k < length s /\ bnd k /\ cleanb s k) ->
  exists s' es, read_kids rd ks s = Ok (s', es) /\ InvS s' /\ hop s s' /\ grows s s' /\ FreshKids s' ks es /\
                forall nm k, In (nm, k) ks -> hashed_at s' k.
Proof.
  intros rd bnd G. induction ks as [|[name k] ks IH]; intros s IS Rk Hl; simpl.
  - exists s, []. split; auto. split; auto. split; [apply hop_refl|]. split; [apply grows_refl|].
    split; [constructor|]. intros nm k [].
  - destruct (Hl name k (or_introl eq_refl)) as (Lk & Bk & Ck).
    destruct (G k s IS Rk Lk Bk (fun _ => Ck)) as (s1 & h & E1 & IS1 & H1 & HV1 & C1 & G1 & _).
    specialize (G1 eq_refl). rewrite E1. simpl. pose proof (proj1 H1) as Sh1.
    destruct HV1 as (kd & Ekd & Ckd & Hkd). unfold get. rewrite Ekd. simpl.
    destruct (IH s1 IS1 (shape_ranked _ _ _ Sh1 Rk)) as (s2 & es & E2 & IS2 & H2 & G2 & FK2 & HK2).
    { intros nm k' Hk'. destruct (Hl nm k' (or_intror Hk')) as (A & B & C).
      split; [rewrite <- (F2_len _ _ _ Sh1); auto|]. split; auto. eapply cleanb_hop; eauto. }
    rewrite E2. simpl. exists s2, ((name, data kd, h) :: es). split; auto. split; auto.
    split; [eapply hop_trans; eauto|]. split; [eapply grows_trans; eauto|].
    assert (HV2 : hashed_val s2 k h) by (eapply hashed_val_grows; eauto; exists kd; auto).
    split.
    + destruct HV2 as (kd2 & Ekd2 & Ckd2 & Hkd2).
      destruct (F2_nth _ _ _ _ _ G2 Ekd) as (kd2' & Ekd2' & ((_ & D & _) & _)).
      assert (kd2' = kd2) by congruence. subst. rewrite <- D. constructor; auto.
      apply hashed_val_clean; [|exists kd2; auto].
      assert (CB2 : cleanb s2 k) by (eapply cleanb_hop; eauto).
      apply CB2. apply Reach_refl. eapply nth_lt; eauto.
    + intros nm k' [Eq|Hin]; [inversion Eq; subst; eapply hashed_val_at; eauto | eapply HK2; eauto].
Qed.

Lemma computeW : forall rd bnd, goodW rd bnd false ->
  forall n s x, InvS s -> ranked rank s -> nth_error s n = Some x -> clean_at s n ->
  (forall nm k, In (nm, k) (kids x) -> bnd k /\ cleanb s k) ->
  exists s' h, compute NH rd n s = Ok (s', h) /\ InvS s' /\ hop s s' /\ grows s s' /\ Fresh s' n h /\
               forall nm k, In (nm, k) (kids x) -> hashed_at s' k.
Proof.
  intros rd bnd G n s x IS Rk E CL Hb. unfold compute, get. rewrite E. simpl.
  assert (Hl : forall nm k, In (nm, k) (kids x) -> k < length s /\ bnd k /\ cleanb s k).
  { intros nm k Hin. split; [eapply (S_wfk s IS); eauto | eapply Hb; eauto]. }
  destruct (read_kidsW rd bnd G (kids x) s IS Rk Hl) as (s1 & es & E1 & IS1 & H1 & G1 & FK1 & HK1).
  destruct (F2_nth _ _ _ _ _ G1 E) as (x1 & Ex1 & ((Kd1 & D1 & K1 & P1) & C1 & Hc1)).
  assert (GEN : exists s' h, (r <- read_kids rd (kids x) s ;; Ok (fst r, NH (data x) (snd r))) = Ok (s', h) /\
            InvS s' /\ hop s s' /\ grows s s' /\ Fresh s' n h /\ forall nm k, In (nm, k) (kids x) -> hashed_at s' k).
  { rewrite E1. simpl. exists s1, (NH (data x) es). split; auto. split; auto. split; auto. split; auto. split; auto.
    rewrite <- D1. econstructor; eauto. rewrite K1. exact FK1. }
  destruct (kind x) eqn:Kx; try exact GEN.
  destruct (mcache x) as [mes|] eqn:Mx.
  - destruct (CL x E) as (_ & CM & _).
    exists s, (NH (data x) mes). split; auto. split; auto. split; [apply hop_refl|]. split; [apply grows_refl|]. split.
    + econstructor; eauto.
    + intros nm k Hin. eapply (S3m s IS); eauto.
  - rewrite E1. simpl. exists (upd n (set_mcache (Some es)) s1), (NH (data x) es).
    assert (Sg : nshape x1 (set_mcache (Some es) x1)) by (unfold nshape; simpl; auto).
    assert (Sh2 : shape s1 (upd n (set_mcache (Some es)) s1)).
    { apply F2_upd; [apply nshape_refl|]. intros y Ey. unfold nshape; simpl; auto. }
    assert (IS2 : InvS (upd n (set_mcache (Some es)) s1)).
    { apply (InvS_upd s1 n x1 _ IS1 Ex1 Sg).
      - intro Hx; exact Hx.
      - intros Hx nm k Hin. eapply (S1 s1 IS1); eauto.
      - simpl. intros es' _ nm k Hin. rewrite K1 in Hin. eapply HK1; eauto.
      - simpl. intros es' Ees nm k Hin. eapply (S3e s1 IS1); eauto.
      - simpl. intro Cx. change (hashed x1 = true). apply (S4 s1 IS1 n x1 Ex1 Cx). }
    assert (H2 : hop s1 (upd n (set_mcache (Some es)) s1)).
    { apply (hop_upd s1 n x1); auto. unfold nfu; simpl. split; auto. split; [|auto].
      right; right. exists es. split; auto. rewrite K1. apply (proj2 (Fresh_shape NH _ _ Sh2)). exact FK1. }
    assert (G2 : grows s1 (upd n (set_mcache (Some es)) s1)).
    { apply F2_upd; [apply ngrow_refl|]. intros y Ey. split; auto. unfold nshape; simpl; auto. }
    split; auto. split; auto. split; [eapply hop_trans; eauto|]. split; [eapply grows_trans; eauto|]. split.
    + apply (proj1 (Fresh_shape NH _ _ Sh2)). rewrite <- D1. econstructor; eauto. rewrite K1. exact FK1.
    + intros nm k Hin. eapply hashed_at_grows; eauto.
Qed.

Lemma anc_clear : forall s r, InvS s -> (forall y, nth_error s r = Some y -> hashed y = false) ->
  forall a, Reach s a r -> a <> r ->
  forall x, nth_error s a = Some x -> hashed x = false /\ mcache x = None /\ ecache x = None.
Proof.
  intros s r IS Hr a Ra. induction Ra as [n L|n k m (x0 & nm & E0 & Hin) Rk IH]; intros Na x E; [congruence|].
  assert (x0 = x) by congruence. subst.
  assert (Uk : ~ hashed_at s k).
  { intros (y & Ey & Hy). destruct (Nat.eq_dec k m) as [->|Nk].
    - rewrite (Hr y Ey) in Hy. discriminate.
    - destruct (IH Hr Nk y Ey) as (Hy' & _). congruence. }
  split; [|split].
  - destruct (hashed x) eqn:Hx; auto. exfalso. apply Uk. eapply (S1 s IS); eauto.
  - destruct (mcache x) eqn:Mx; auto. exfalso. apply Uk. eapply (S3m s IS); eauto.
  - destruct (ecache x) eqn:Mx; auto. exfalso. apply Uk. eapply (S3e s IS); eauto.
Qed.

Lemma update_hashW : forall fuel force, goodW (update_hash NH false fuel force) (fun k => rank k < fuel) force.
Proof.
  induction fuel as [|f IH]; intros force n s IS Rk L B HC; [lia|].
  destruct (get_lt s n L) as [x E]. simpl. unfold get. rewrite E. simpl.
  assert (KB : forall nm k, In (nm, k) (kids x) -> rank k < f).
  { intros nm k Hin. destruct Rk as [R1 _]. assert (rank k < rank n) by (apply R1; exists x, nm; auto). lia. }
  (* the recomputation, from a state s1 reached by (maybe) invalidating n *)
  assert (REC : forall s1, InvS s1 -> hop s s1 -> clean_at s1 n -> notcoll s1 n ->
     (force = false -> grows s s1 /\ hashed x = false /\ cleanb s1 n) ->
     (force = true -> forall a, Reach s a n -> a <> n -> clean_at s1 a) ->
     exists s' h,
       (s2 <- fold_res (fun k t => r <- update_hash NH false f force k t ;; Ok (fst r)) (map snd (kids x)) s1 ;;
        r <- compute NH (update_hash NH false f false) n s2 ;;
        Ok (upd n (set_cached (store false (snd r))) (fst r), snd r)) = Ok (s', h) /\
       InvS s' /\ hop s s' /\ hashed_val s' n h /\ cleanb s' n /\ (force = false -> grows s s') /\
       (force = true -> (forall m, Reach s n m -> notcoll s' m) /\
                        (forall a, Reach s a n -> a <> n -> clean_at s' a))).
  { intros s1 IS1 H01 CL1 NC1 GF AN. pose proof (proj1 H01) as Sh1.
    pose proof (shape_ranked _ _ _ Sh1 Rk) as Rk1.
    destruct (F2_nth _ _ _ _ _ Sh1 E) as (x1 & Ex1 & (_ & _ & Ks1 & _)).
    destruct (foldW _ _ force (IH force) (map snd (kids x)) s1 IS1 Rk1) as (s2 & E2 & IS2 & H2 & C2 & G2 & N2).
    { intros k Hk. apply in_map_iff in Hk. destruct Hk as ([nm k'] & Ek & Hin). simpl in Ek. subst k'.
      split; [|eapply KB; eauto]. rewrite <- (F2_len _ _ _ Sh1). eapply (S_wfk s IS); eauto. }
    { intros F k Hk. apply in_map_iff in Hk. destruct Hk as ([nm k'] & Ek & Hin). simpl in Ek. subst k'.
      destruct (GF F) as (_ & _ & CB1). intros m Rm. apply CB1. eapply Reach_step; [|exact Rm].
      exists x1, nm. split; auto. rewrite Ks1. exact Hin. }
    rewrite E2. simpl. pose proof (proj1 H2) as Sh2.
    pose proof (shape_trans _ _ _ Sh1 Sh2) as Sh02.
    destruct (F2_nth _ _ _ _ _ Sh02 E) as (x2 & Ex2 & (Kd2 & D2 & Ks2 & P2)).
    destruct (computeW _ _ (IH false) n s2 x2 IS2 (shape_ranked _ _ _ Sh2 Rk1) Ex2) as (s3 & h & E3 & IS3 & H3 & G3 & F3 & HK3).
    { eapply hop_clean; eauto. }
    { rewrite Ks2. intros nm k Hin. split; [eapply KB; eauto|]. apply C2. apply in_map_iff. exists (nm, k). auto. }
    rewrite E3. simpl. pose proof (proj1 H3) as Sh3.
    destruct (F2_nth _ _ _ _ _ Sh3 Ex2) as (x3 & Ex3 & (Kd3 & D3 & Ks3 & P3)).
    set (s4 := upd n (set_cached (Some h)) s3).
    assert (H13 : hop s1 s3) by (eapply hop_trans; eauto).
    assert (Cx3 : collected x3 = false) by (apply (notcoll_hop s1 s3 n H13 NC1 x3 Ex3)).
    assert (Sg : nshape x3 (set_cached (Some h) x3)) by (unfold nshape; simpl; auto).
    assert (Sh4 : shape s3 s4).
    { apply F2_upd; [apply nshape_refl|]. intros y Ey. assert (y = x3) by congruence. subst. exact Sg. }
    assert (IS4 : InvS s4).
    { apply (InvS_upd s3 n x3 _ IS3 Ex3 Sg).
      - intros _. reflexivity.
      - intros _ nm k Hin. rewrite Ks3 in Hin. eapply HK3; eauto.
      - simpl. intros es Ees nm k Hin. eapply (S3m s3 IS3); eauto.
      - simpl. intros es Ees nm k Hin. eapply (S3e s3 IS3); eauto.
      - intros _. reflexivity. }
    assert (H34 : hop s3 s4).
    { apply (hop_upd s3 n x3); auto. unfold nfu; simpl. split; [|split; [auto|split; [auto|]]].
      - right; right. exists h. split; auto. apply (proj1 (Fresh_shape NH _ _ Sh4)). exact F3.
      - intro Cx. congruence. }
    assert (H04 : hop s s4) by (eapply hop_trans; [exact H01|]; eapply hop_trans; eauto).
    assert (H14 : hop s1 s4) by (eapply hop_trans; eauto).
    exists s4, h. split; auto. split; auto. split; auto. split; [|split; [|split]].
    - exists (set_cached (Some h) x3). unfold s4. rewrite nth_upd_same, Ex3. simpl. auto.
    - intros m Rm.
      assert (Rm1 : Reach s1 n m).
      { eapply shape_reach; [|exact Rm]. apply shape_sym. eapply shape_trans; [exact Sh2|]. eapply shape_trans; eauto. }
      destruct (Reach_inv _ _ _ Rm1) as [[-> _]|(k & (x0 & nm & Ex0 & Hin) & Rk')].
      + eapply hop_clean; [exact H14 | exact CL1].
      + assert (x0 = x1) by congruence. subst x0.
        assert (CB : cleanb s2 k) by (apply C2; apply in_map_iff; exists (nm, k); rewrite <- Ks1; auto).
        assert (CB4 : cleanb s4 k) by (eapply cleanb_hop; [eapply hop_trans; [exact H3 | exact H34] | exact CB]).
        apply CB4. eapply shape_reach; [|exact Rk']. eapply shape_trans; [exact Sh2|]. eapply shape_trans; eauto.
    - intro Fz. destruct (GF Fz) as (G01 & Hx & _). specialize (G2 Fz).
      assert (G03 : grows s s3) by (eapply grows_trans; [exact G01|]; eapply grows_trans; eauto).
      apply F2_upd_r; auto. intros y y3 Ey Ey3 (Sy & Cy & Hy). assert (y = x) by congruence. subst.
      split; [|split].
      + eapply nshape_trans; eauto. unfold nshape; simpl; auto.
      + simpl. exact Cy.
      + intro Hx'. congruence.
    - intro Ft. split.
      + intros m Rm.
        assert (Rm1 : Reach s1 n m) by (eapply shape_reach; eauto).
        destruct (Reach_inv _ _ _ Rm1) as [[-> _]|(k & (x0 & nm & Ex0 & Hin) & Rk')].
        * eapply notcoll_hop; [exact H14 | exact NC1].
        * assert (x0 = x1) by congruence. subst x0.
          eapply notcoll_hop; [eapply hop_trans; [exact H3 | exact H34]|].
          eapply (N2 Ft k); [apply in_map_iff; exists (nm, k); rewrite <- Ks1; auto | exact Rk'].
      + intros a Ra Na. eapply hop_clean; [exact H14|]. apply AN; auto. }
  destruct (cached x) as [hc|] eqn:Cx; destruct force.
  - (* cached, forced *)
    destruct (inval_ok n s (S_wfp s IS) L) as (s1 & E1 & RR1 & C1). rewrite E1. simpl.
    pose proof (InvS_RR _ _ IS RR1) as IS1. destruct C1 as (y1 & Ey1 & Hy1 & Cey1 & Cmy1).
    assert (Cay1 : cached y1 = None) by (unfold hashed in Hy1; destruct (cached y1); [discriminate | reflexivity]).
    apply (REC s1); auto.
    + apply hop_R. apply RR1.
    + intros y Ey. assert (y = y1) by congruence. subst. split; [|split]; intros; congruence.
    + intros y Ey. assert (y = y1) by congruence. subst. destruct (collected y1) eqn:Cy; auto.
      pose proof (S4 s1 IS1 n y1 Ey1 Cy). congruence.
    + discriminate.
    + intros _ a Ra Na y Ey.
      assert (Ra1 : Reach s1 a n) by (eapply shape_reach; [apply R_shape; apply RR1 | exact Ra]).
      destruct (anc_clear s1 n IS1) with (a := a) (x := y) as (Hy & My & Cy); auto.
      { intros z Ez. congruence. }
      split; [|split]; intros; try congruence. unfold hashed in Hy. destruct (cached y); congruence.
  - (* cached, not forced *)
    exists s, hc. split; auto. split; auto. split; [apply hop_refl|]. split; [|split; [auto|split]].
    + exists x. split; auto. split; auto. apply (hashed_of_some _ _ Cx).
    + intros; apply grows_refl.
    + discriminate.
  - (* not cached, forced *)
    destruct (inval_ok n s (S_wfp s IS) L) as (s1 & E1 & RR1 & C1). rewrite E1. simpl.
    pose proof (InvS_RR _ _ IS RR1) as IS1. destruct C1 as (y1 & Ey1 & Hy1 & Cey1 & Cmy1).
    assert (Cay1 : cached y1 = None) by (unfold hashed in Hy1; destruct (cached y1); [discriminate | reflexivity]).
    apply (REC s1); auto.
    + apply hop_R. apply RR1.
    + intros y Ey. assert (y = y1) by congruence. subst. split; [|split]; intros; congruence.
    + intros y Ey. assert (y = y1) by congruence. subst. destruct (collected y1) eqn:Cy; auto.
      pose proof (S4 s1 IS1 n y1 Ey1 Cy). congruence.
    + discriminate.
    + intros _ a Ra Na y Ey.
      assert (Ra1 : Reach s1 a n) by (eapply shape_reach; [apply R_shape; apply RR1 | exact Ra]).
      destruct (anc_clear s1 n IS1) with (a := a) (x := y) as (Hy & My & Cy); auto.
      { intros z Ez. congruence. }
      split; [|split]; intros; try congruence. unfold hashed in Hy. destruct (cached y); congruence.
  - (* not cached, not forced *)
    simpl. assert (Hx : hashed x = false) by (unfold hashed; rewrite Cx; reflexivity).
    apply (REC s); auto.
    + apply hop_refl.
    + apply (HC eq_refl). apply Reach_refl. exact L.
    + intros y Ey. assert (y = x) by congruence. subst. destruct (collected x) eqn:Cy; auto.
      pose proof (S4 s IS n x E Cy). congruence.
    + intros _. split; [apply grows_refl|]. split; auto.
    + discriminate.
Qed.

End WithNH.

(* ---- reachability is decidable on a DAG *)
Lemma Reach_dec : forall rank s n, ranked rank s -> forall f m, rank m < f -> Reach s m n \/ ~ Reach s m n.
Proof.
  intros rank s n Rk. induction f as [|f IH]; intros m B; [lia|].
  destruct (nth_error s m) as [x|] eqn:E.
  - destruct (Nat.eq_dec m n) as [->|Nm]; [left; apply Reach_refl; eapply nth_lt; eauto|].
    assert (KD : forall ks, (forall nm k, In (nm, k) ks -> In (nm, k) (kids x)) ->
              (exists nm k, In (nm, k) ks /\ Reach s k n) \/ ~ (exists nm k, In (nm, k) ks /\ Reach s k n)).
    { induction ks as [|[nm k] ks IHk]; intro Sub.
      - right. intros (nm & k & [] & _).
      - destruct (IH k) as [Rk'|NRk'].
        + destruct Rk as [R1 _]. assert (rank k < rank m) by (apply R1; exists x, nm; split; auto; apply Sub; left; auto). lia.
        + left. exists nm, k. split; [left; auto | auto].
        + destruct IHk as [(nm' & k' & Hin & Rk')|No].
          * intros nm' k' Hin. apply Sub. right. exact Hin.
          * left. exists nm', k'. split; [right; auto | auto].
          * right. intros (nm' & k' & [Eq|Hin] & Rk'); [inversion Eq; subst; auto | apply No; eauto]. }
    destruct (KD (kids x) (fun _ _ H => H)) as [(nm & k & Hin & Rk')|No].
    + left. eapply Reach_step; [exists x, nm; split; eauto | exact Rk'].
    + right. intro R. destruct (Reach_inv _ _ _ R) as [[e _]|(k & (x0 & nm & E0 & Hin) & Rk')]; [congruence|].
      assert (x0 = x) by congruence. subst. apply No. eauto.
  - right. intro R. destruct (Reach_lt _ _ _ R) as [L _]. apply nth_error_None in E. lia.
Qed.

(* ---- an out-of-band write *)
Definition nsk (x y : node) : Prop :=
  kind y = kind x /\ kids y = kids x /\ parents y = parents x /\ cached y = cached x /\
  collected y = collected x /\ ecache y = ecache x /\ mcache y = mcache x.
Definition wr (n : nat) (d : bytes) (s : heap) : heap := upd n (set_data d) s.

Lemma wr_sk : forall n d s, Forall2 nsk s (wr n d s).
Proof.
  intros. apply F2_upd; intros; unfold nsk; simpl; auto 10.
Qed.

Lemma sk_edge : forall s s' a b, Forall2 nsk s s' -> (edge s' a b <-> edge s a b).
Proof.
  intros s s' a b F. split; intros (x & nm & E & Hin).
  - destruct (F2_nth_r _ _ _ _ _ F E) as (x0 & E0 & (_ & K & _)). exists x0, nm. rewrite <- K. auto.
  - destruct (F2_nth _ _ _ _ _ F E) as (x0 & E0 & (_ & K & _)). exists x0, nm. rewrite K. auto.
Qed.

Lemma sk_reach : forall s s' a b, Forall2 nsk s s' -> (Reach s' a b <-> Reach s a b).
Proof.
  intros s s' a b F. pose proof (F2_len _ _ _ F) as Len. split; intro R.
  - induction R; [apply Reach_refl; lia | eapply Reach_step; eauto; apply (sk_edge s s'); auto].
  - induction R; [apply Reach_refl; lia | eapply Reach_step; eauto; apply (sk_edge s s'); auto].
Qed.

Lemma sk_hashed_at : forall s s' k, Forall2 nsk s s' -> hashed_at s k -> hashed_at s' k.
Proof.
  intros s s' k F (y & E & H). destruct (F2_nth _ _ _ _ _ F E) as (y' & E' & (_ & _ & _ & C & _)).
  exists y'. split; auto. rewrite (hashed_cached _ _ C). exact H.
Qed.

Lemma InvS_sk : forall s s', Forall2 nsk s s' -> InvS s -> InvS s'.
Proof.
  intros s s' F IS. pose proof (F2_len _ _ _ F) as Len. split.
  - intros n y nm k E Hin. destruct (F2_nth_r _ _ _ _ _ F E) as (x & E0 & (_ & K & _)).
    rewrite <- Len. rewrite K in Hin. eapply (S_wfk s IS); eauto.
  - intros n y E q Hin. destruct (F2_nth_r _ _ _ _ _ F E) as (x & E0 & (_ & _ & P & _)).
    rewrite <- Len. rewrite P in Hin. eapply (S_wfp s IS); eauto.
  - intros p y c z E Ec. destruct (F2_nth_r _ _ _ _ _ F E) as (x & E0 & (_ & K & _)).
    destruct (F2_nth_r _ _ _ _ _ F Ec) as (w & Ec0 & (_ & _ & P & _)). rewrite K, P. eapply (S_links s IS); eauto.
  - intros n y nm k E H Hin. destruct (F2_nth_r _ _ _ _ _ F E) as (x & E0 & (_ & K & _ & C & _)).
    rewrite K in Hin. rewrite (hashed_cached _ _ C) in H. eapply sk_hashed_at; eauto. eapply (S1 s IS); eauto.
  - intros n y es nm k E M Hin. destruct (F2_nth_r _ _ _ _ _ F E) as (x & E0 & (_ & K & _ & _ & _ & _ & Mc)).
    rewrite K in Hin. rewrite Mc in M. eapply sk_hashed_at; eauto. eapply (S3m s IS); eauto.
  - intros n y es nm k E M Hin. destruct (F2_nth_r _ _ _ _ _ F E) as (x & E0 & (_ & K & _ & _ & _ & Ec & _)).
    rewrite K in Hin. rewrite Ec in M. eapply sk_hashed_at; eauto. eapply (S3e s IS); eauto.
  - intros n y E C. destruct (F2_nth_r _ _ _ _ _ F E) as (x & E0 & (_ & _ & _ & Cc & Cl & _)).
    rewrite (hashed_cached _ _ Cc). eapply (S4 s IS); eauto; congruence.
Qed.

Section Restore.
Variable NH : bytes -> list entry -> bytes.
Notation Fresh := (Fresh NH).
Notation FreshKids := (FreshKids NH).
Notation InvA := (InvA NH).
Notation clean_at := (clean_at NH).
Notation cleanb := (cleanb NH).
Notation hop := (hop NH).

(* a node that does not have the written node below it keeps its cleanliness *)
Lemma clean_wr : forall s n d m, n < length s -> clean_at s m -> ~ Reach s m n -> clean_at (wr n d s) m.
Proof.
  intros s n d m L CL NR y Ey.
  destruct (Fresh_frame NH s (wr n d s) (fun a => ~ Reach s a n)) as [FR FKR].
  { intros a x Pa E. assert (Na : a <> n) by (intro; subst; apply Pa; apply Reach_refl; auto).
    exists x. unfold wr. rewrite nth_upd_other; auto. split; auto. split; auto. split; auto.
    intros nm k Hin Rk. apply Pa. eapply Reach_step; [exists x, nm; eauto | exact Rk]. }
  assert (Nm : m <> n) by (intro; subst; apply NR; apply Reach_refl; auto).
  unfold wr in Ey. rewrite nth_upd_other in Ey; auto. destruct (CL y Ey) as (CA & CM & CE).
  assert (KP : forall nm k, In (nm, k) (kids y) -> ~ Reach s k n).
  { intros nm k Hin Rk. apply NR. eapply Reach_step; [exists y, nm; eauto | exact Rk]. }
  split; [|split].
  - intros h C. apply FR; auto.
  - intros es M. apply FKR; auto.
  - intros es M. apply FKR; auto.
Qed.

Lemma hashed_below : forall s r m, InvS s -> hashed_at s r -> Reach s r m -> hashed_at s m.
Proof.
  intros s r m IS H R. induction R as [|n k m (x & nm & E & Hin) _ IH]; auto.
  apply IH. destruct H as (y & Ey & Hy). assert (y = x) by congruence. subst. eapply (S1 s IS); eauto.
Qed.

(* update_hash(force=True) at r, from any state satisfying the structural invariant *)
Lemma force_weak : forall s r, InvS s -> acyclic s -> r < length s ->
  exists s' hv, force_hash NH false r s = Ok (s', hv) /\ InvS s' /\ hop s s' /\ Fresh s' r hv /\ cleanb s' r /\
    (forall m, Reach s r m -> notcoll s' m /\ hashed_at s' m) /\
    (forall a, Reach s a r -> a <> r -> clean_at s' a).
Proof.
  intros s r IS Ac L. destruct (acyclic_bounded s Ac) as [rank Rk].
  destruct (update_hashW NH rank (S (length s)) true r s IS Rk L) as (s' & hv & E & IS' & H & HV & CB & _ & N).
  { destruct Rk as [_ B]. specialize (B r). lia. }
  { discriminate. }
  destruct (N eq_refl) as [NC AN]. exists s', hv. unfold force_hash. split; auto. split; auto. split; auto.
  pose proof (proj1 H) as Sh.
  assert (L' : r < length s') by (rewrite <- (F2_len _ _ _ Sh); auto).
  split; [apply (hashed_val_clean NH); [apply CB; apply Reach_refl; auto | exact HV]|].
  split; auto. split; auto.
  intros m Rm. split; [apply NC; auto|].
  eapply hashed_below; eauto; [eapply hashed_val_at; eauto | eapply shape_reach; eauto].
Qed.

(* FORCE RESTORES: if every node that may hold a stale value is below or above
   r, a forced update at r re-establishes the whole invariant *)
Lemma force_restores : forall s r, InvS s -> acyclic s -> r < length s ->
  (forall m, m < length s -> clean_at s m \/ Reach s r m \/ Reach s m r) ->
  let s' := fst (step NH true false s (OForce r)) in
  InvA s' /\
  (exists hv, snd (step NH true false s (OForce r)) = OutHash hv /\ Fresh s' r hv) /\
  (forall m, Reach s r m -> notcoll s' m /\ hashed_at s' m) /\
  (forall a b, Reach s' a b <-> Reach s a b).
Proof.
  intros s r IS Ac L Cov s'.
  destruct (force_weak s r IS Ac L) as (s2 & hv & E & IS2 & H & F & CB & NB & AN).
  assert (Es : s' = s2) by (unfold s', step; rewrite E; reflexivity).
  assert (Eo : snd (step NH true false s (OForce r)) = OutHash hv) by (unfold step; rewrite E; reflexivity).
  rewrite Es. pose proof (proj1 H) as Sh. pose proof (F2_len _ _ _ Sh) as Len.
  split; [|split; [eauto|split; [exact NB|]]].
  - split; [|eapply shape_acyclic; eauto]. apply (Inv_split NH). split; auto.
    intros m x Ex. assert (Lm : m < length s) by (rewrite Len; eapply nth_lt; eauto).
    destruct (Cov m Lm) as [C|[R|R]].
    + apply (hop_clean NH s s2 m H C x Ex).
    + apply (CB m); auto. eapply shape_reach; eauto.
    + destruct (Nat.eq_dec m r) as [->|Nm].
      * apply (CB r); auto. apply Reach_refl. lia.
      * apply (AN m R Nm x Ex).
  - intros a b. split; intro R; [eapply shape_reach; [apply shape_sym; exact Sh | exact R] | eapply shape_reach; eauto].
Qed.

(* write then force at a node comparable with every ancestor of the written node *)
Lemma write_force_restores : forall s n d r, InvA s -> n < length s ->
  (forall a, Reach s a n -> Reach s r a \/ Reach s a r) ->
  let s1 := fst (step NH true false s (OWrite n d)) in
  let s2 := fst (step NH true false s1 (OForce r)) in
  InvA s2 /\
  (exists hv, snd (step NH true false s1 (OForce r)) = OutHash hv /\ Fresh s2 r hv) /\
  (forall m, Reach s r m -> notcoll s2 m /\ hashed_at s2 m) /\
  (forall a b, Reach s2 a b <-> Reach s a b).
Proof.
  intros s n d r [I Ac] L Dom s1 s2.
  destruct (proj1 (Inv_split NH s) I) as [IS CL].
  destruct (get_lt s n L) as [x E].
  assert (Es1 : s1 = wr n d s) by (unfold s1, step, get; rewrite E; reflexivity).
  pose proof (wr_sk n d s) as SK. rewrite <- Es1 in SK.
  assert (Lr : r < length s).
  { destruct (Dom n (Reach_refl s n L)) as [R|R]; apply (Reach_lt _ _ _ R). }
  assert (IS1 : InvS s1) by (eapply InvS_sk; eauto).
  assert (Ac1 : acyclic s1).
  { destruct Ac as [rk D]. exists rk. intros a b Eab. apply D. apply (sk_edge s s1); auto. }
  pose proof (F2_len _ _ _ SK) as Len.
  destruct (acyclic_bounded s Ac) as [rank Rk].
  destruct (force_restores s1 r IS1 Ac1) as (IA2 & HV & NB & RR2).
  { lia. }
  { intros m Lm. destruct (Reach_dec rank s n Rk (S (length s)) m) as [R|NR].
    - destruct Rk as [_ B]. specialize (B m). lia.
    - destruct (Dom m R) as [R'|R']; [right; left | right; right]; apply (sk_reach s s1); auto.
    - left. rewrite Es1. apply clean_wr; auto. }
  fold s2 in IA2, HV, NB, RR2. split; auto. split; auto. split.
  - intros m Rm. apply NB. apply (sk_reach s s1); auto.
  - intros a b. rewrite RR2. apply (sk_reach s s1); auto.
Qed.

(* C14: the collect that follows reports every node below r - the written node
   and the nodes between it and r in particular - with its from-scratch hash *)
Lemma write_force_collect : forall (rp : set_oracle) s n d r, InvA s -> n < length s ->
  (forall a, Reach s a n -> Reach s r a \/ Reach s a r) ->
  let s1 := fst (step NH true false s (OWrite n d)) in
  let s2 := fst (step NH true false s1 (OForce r)) in
  forall x, Reach s r x ->
  exists s3 L, step NH true false s2 (OCollect r) = (s3, OutNodes L) /\ In x L /\
    exists hv, Fresh s3 x hv /\ In (rp s3 L x, hv, x) (reports rp s3 (OutNodes L)).
Proof.
  intros rp s n d r IA L Dom s1 s2 x Rx.
  destruct (write_force_restores s n d r IA L Dom) as (IA2 & _ & NB & RR2). fold s1 s2 in IA2, NB, RR2.
  apply collect_reports_uncollected; auto.
  - apply RR2. exact Rx.
  - apply NB. exact Rx.
Qed.

(* C10: from there on nothing is stale *)
Lemma write_force_fresh : forall s n d r, InvA s -> n < length s ->
  (forall a, Reach s a n -> Reach s r a \/ Reach s a r) ->
  let s1 := fst (step NH true false s (OWrite n d)) in
  let s2 := fst (step NH true false s1 (OForce r)) in
  forall h o, guarded NH true false s2 h -> guard NH true false (final NH true false s2 h) o ->
  let t := final NH true false s2 h in
  let t' := fst (step NH true false t o) in
  (forall m, m < length t -> o = OHash m \/ o = OForce m ->
     exists hv, snd (step NH true false t o) = OutHash hv /\ Fresh t' m hv /\ Fresh t m hv) /\
  (forall m es, o = OEntries m \/ o = OToModel m -> snd (step NH true false t o) = OutEntries es ->
     exists x, nth_error t m = Some x /\ FreshKids t' (kids x) es).
Proof.
  intros s n d r IA L Dom s1 s2 h o GH GO.
  destruct (write_force_restores s n d r IA L Dom) as (IA2 & _). fold s1 s2 in IA2.
  apply (no_stale_from NH s2 h o IA2 GH GO).
Qed.

End Restore.
