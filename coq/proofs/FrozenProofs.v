(* Proofs about coq/model/Frozen.v (property C11), part 1: the store, the frame
   property of reading, and "a constructed object reads no caller container". *)
From Coq Require Import List NArith Bool Arith Lia Permutation.
From SWH.lib Require Import Bytes Order StableSort.
From SWH Require Import Generated.
From SWH.model Require Import Frozen.
Import ListNotations.
Local Open Scope nat_scope.

(* ------------------------------------------------------------------ *)
(* store *)

Lemma lookup_update_other : forall s h h' c, h <> h' -> lookup (update s h c) h' = lookup s h'.
Proof.
  unfold lookup. induction s as [|x s IH]; intros h h' c Hne; simpl.
  - reflexivity.
  - destruct h as [|h]; destruct h' as [|h']; simpl; try reflexivity; try congruence.
    apply IH. congruence.
Qed.

Lemma length_update : forall s h c, length (update s h c) = length s.
Proof. induction s as [|x s IH]; intros [|h] c; simpl; auto. Qed.

Lemma apply_mut_other : forall s m h, h <> mut_target m -> lookup (apply_mut s m) h = lookup s h.
Proof.
  intros s m h Hne. destruct m; simpl in *;
    repeat match goal with
           | |- context [match lookup s ?x with _ => _ end] => destruct (lookup s x) as [[?|?]|]
           end; try reflexivity; apply lookup_update_other; congruence.
Qed.

Lemma apply_muts_other : forall ms s hs h,
  Forall (fun m => In (mut_target m) hs) ms -> ~ In h hs ->
  lookup (apply_muts s ms) h = lookup s h.
Proof.
  unfold apply_muts. induction ms as [|m ms IH]; intros s hs h HF Hn; simpl; [reflexivity|].
  inversion HF as [|? ? Hm HF']; subst. rewrite (IH _ hs) by assumption.
  apply apply_mut_other. intro E. subst. contradiction.
Qed.

Lemma memh_In : forall h hs, memh h hs = true <-> In h hs.
Proof.
  intros h hs. unfold memh. rewrite existsb_exists. split.
  - intros [x [Hx E]]. apply Nat.eqb_eq in E. subst. exact Hx.
  - intro H. exists h. split; [exact H | apply Nat.eqb_refl].
Qed.

Lemma memh_false : forall h hs, memh h hs = false <-> ~ In h hs.
Proof.
  intros h hs. rewrite <- memh_In. destruct (memh h hs); split; congruence.
Qed.

Lemma lookup_app1 : forall s e h c, lookup s h = Some c -> lookup (s ++ e) h = Some c.
Proof.
  unfold lookup. intros s e h c H. rewrite nth_error_app1; [exact H|].
  apply nth_error_Some. congruence.
Qed.

Lemma lookup_fresh : forall s c e, lookup ((s ++ [c]) ++ e) (length s) = Some c.
Proof.
  unfold lookup. intros s c e. rewrite <- app_assoc. rewrite nth_error_app2 by lia.
  rewrite Nat.sub_diag. reflexivity.
Qed.

(* ------------------------------------------------------------------ *)
(* reading depends only on the cells it goes through *)

Lemma resolve_frame : forall f s s' hs v,
  (forall h, memh h hs = false -> lookup s h = lookup s' h) ->
  safe f s hs v = true -> resolve f s v = resolve f s' v.
Proof.
  induction f as [|f IH]; intros s s' hs v Hag Hs; [reflexivity|].
  assert (HL : forall l, forallb (safe f s hs) l = true -> map (resolve f s) l = map (resolve f s') l).
  { intros l Hl. apply map_ext_in. intros x Hx. rewrite forallb_forall in Hl. apply (IH s s' hs); auto. }
  assert (HI : forall it, forallb (safe f s hs) (map snd it) = true ->
               map (fun kv : atom * pyval => (fst kv, resolve f s (snd kv))) it =
               map (fun kv : atom * pyval => (fst kv, resolve f s' (snd kv))) it).
  { intros it Hl. apply map_ext_in. intros x Hx. rewrite forallb_forall in Hl. f_equal.
    apply (IH s s' hs); auto. apply Hl. apply in_map. exact Hx. }
  destruct v; simpl in *; try reflexivity.
  - f_equal. apply HL. exact Hs.
  - f_equal. apply HL. exact Hs.
  - apply andb_true_iff in Hs. destruct Hs as [Hm Hc]. apply negb_true_iff in Hm.
    rewrite <- (Hag _ Hm). destruct (lookup s h) as [[fac it|l]|]; try reflexivity; try discriminate.
    f_equal. apply HI. exact Hc.
  - apply andb_true_iff in Hs. destruct Hs as [Hm Hc]. apply negb_true_iff in Hm.
    rewrite <- (Hag _ Hm). destruct (lookup s h) as [[fac it|l]|]; try reflexivity; try discriminate.
    + f_equal. apply HI. exact Hc.
    + f_equal. apply HL. exact Hc.
  - f_equal. apply HL. exact Hs.
  - f_equal. apply map_ext_in. intros x Hx. rewrite forallb_forall in Hs. f_equal.
    apply (IH s s' hs); auto.
Qed.

Lemma safe_ext : forall f s e hs v, safe f s hs v = true -> safe f (s ++ e) hs v = true.
Proof.
  induction f as [|f IH]; intros s e hs v Hs; [reflexivity|].
  assert (HL : forall l, forallb (safe f s hs) l = true -> forallb (safe f (s ++ e) hs) l = true).
  { intros l Hl. rewrite forallb_forall in *. intros x Hx. apply IH. auto. }
  destruct v; simpl in *; auto.
  - apply andb_true_iff in Hs. destruct Hs as [Hm Hc]. rewrite Hm. simpl.
    destruct (lookup s h) as [c|] eqn:E; [|discriminate]. rewrite (lookup_app1 _ _ _ _ E). auto.
  - apply andb_true_iff in Hs. destruct Hs as [Hm Hc]. rewrite Hm. simpl.
    destruct (lookup s h) as [c|] eqn:E; [|discriminate]. rewrite (lookup_app1 _ _ _ _ E). auto.
  - rewrite forallb_forall in *. intros x Hx. apply IH. auto.
Qed.

Lemma safe_pred : forall f s hs v, safe (S f) s hs v = true -> safe f s hs v = true.
Proof.
  induction f as [|f IH]; intros s hs v Hs; [reflexivity|].
  assert (HL : forall l, forallb (safe (S f) s hs) l = true -> forallb (safe f s hs) l = true).
  { intros l Hl. rewrite forallb_forall in *. intros x Hx. apply IH. auto. }
  destruct v; try reflexivity.
  - apply HL. exact Hs.
  - apply HL. exact Hs.
  - change (negb (memh h hs) && match lookup s h with Some c => forallb (safe (S f) s hs) (cell_values c) | None => false end = true) in Hs.
    change (negb (memh h hs) && match lookup s h with Some c => forallb (safe f s hs) (cell_values c) | None => false end = true).
    apply andb_true_iff in Hs. destruct Hs as [Hm Hc]. rewrite Hm. simpl.
    destruct (lookup s h); [auto|discriminate].
  - change (negb (memh h hs) && match lookup s h with Some c => forallb (safe (S f) s hs) (cell_values c) | None => false end = true) in Hs.
    change (negb (memh h hs) && match lookup s h with Some c => forallb (safe f s hs) (cell_values c) | None => false end = true).
    apply andb_true_iff in Hs. destruct Hs as [Hm Hc]. rewrite Hm. simpl.
    destruct (lookup s h); [auto|discriminate].
  - apply HL. exact Hs.
  - change (forallb (fun kv : atom * pyval => safe (S f) s hs (snd kv)) items = true) in Hs.
    change (forallb (fun kv : atom * pyval => safe f s hs (snd kv)) items = true).
    rewrite forallb_forall in *. intros x Hx. apply IH. auto.
Qed.

Lemma safe_le : forall g f s hs v, g <= f -> safe f s hs v = true -> safe g s hs v = true.
Proof.
  intros g f s hs v Hle. induction Hle; intro H; [exact H|]. apply IHHle. apply safe_pred. exact H.
Qed.

(* values that contain no handle at all *)
Fixpoint hfree (v : pyval) : bool :=
  match v with
  | VNone | VAtom _ => true
  | VTuple l | VObj _ l | VOList l => forallb hfree l
  | VOMap _ it => forallb (fun kv => hfree (snd kv)) it
  | VIDict _ | VRef _ => false
  end.

Lemma hfree_safe : forall f s hs v, hfree v = true -> safe f s hs v = true.
Proof.
  induction f as [|f IH]; intros s hs v H; [reflexivity|].
  destruct v; simpl in *; try reflexivity; try discriminate;
    rewrite forallb_forall in *; intros x Hx; apply IH; auto.
Qed.

Lemma seq_opt_In : forall {A B} (F : A -> option B) l l',
  seq_opt (map F l) = Some l' -> forall y, In y l' -> exists x, In x l /\ F x = Some y.
Proof.
  induction l as [|a l IH]; intros l' H y Hy; simpl in H.
  - inversion H; subst. contradiction.
  - destruct (F a) as [b|] eqn:E; [|discriminate].
    destruct (seq_opt (map F l)) as [r|] eqn:E2; [|discriminate]. inversion H; subst.
    destruct Hy as [Hy|Hy].
    + subst. exists a. split; [left; reflexivity | exact E].
    + destruct (IH r eq_refl y Hy) as [x [Hx Fx]]. exists x. split; [right; exact Hx | exact Fx].
Qed.

Lemma seq_opt_length : forall {A} (l : list (option A)) l', seq_opt l = Some l' -> length l' = length l.
Proof.
  induction l as [|a l IH]; intros l' H; simpl in H.
  - inversion H. reflexivity.
  - destruct a; [|discriminate]. destruct (seq_opt l); [|discriminate]. inversion H; subst. simpl.
    f_equal. apply IH. reflexivity.
Qed.

Lemma freeze_hfree : forall f s v v', freeze f s v = Some v' -> hfree v' = true.
Proof.
  induction f as [|f IH]; intros s v v' H; [discriminate|].
  assert (HL : forall l r, seq_opt (map (freeze f s) l) = Some r -> forallb hfree r = true).
  { intros l r Hr. rewrite forallb_forall. intros y Hy.
    destruct (seq_opt_In _ _ _ Hr y Hy) as [x [_ Fx]]. eapply IH. exact Fx. }
  assert (HI : forall (it : list (atom * pyval)) r,
             seq_opt (map (fun kv => option_map (fun x => VTuple [VAtom (fst kv); x]) (freeze f s (snd kv))) it) = Some r ->
             forallb hfree r = true).
  { intros it r Hr. rewrite forallb_forall. intros y Hy.
    destruct (seq_opt_In _ _ _ Hr y Hy) as [x [_ Fx]].
    destruct (freeze f s (snd x)) as [z|] eqn:E; [|discriminate]. simpl in Fx. inversion Fx; subst.
    simpl. rewrite (IH _ _ _ E). reflexivity. }
  destruct v; simpl in H.
  - inversion H; reflexivity.
  - inversion H; reflexivity.
  - destruct (seq_opt (map (freeze f s) l)) eqn:E; [|discriminate]. inversion H; subst. simpl. eapply HL; eauto.
  - destruct (seq_opt (map (freeze f s) fs)) eqn:E; [|discriminate]. inversion H; subst. simpl. eapply HL; eauto.
  - destruct (lookup s h) as [[fac it|l]|]; [| |discriminate].
    + match type of H with option_map _ ?x = _ => destruct x eqn:E end; [|discriminate].
      inversion H; subst. simpl. eapply HI; eauto.
    + destruct (seq_opt (map (freeze f s) l)) eqn:E; [|discriminate]. inversion H; subst. simpl. eapply HL; eauto.
  - destruct (lookup s h) as [[fac it|l]|]; [| |discriminate].
    + match type of H with option_map _ ?x = _ => destruct x eqn:E end; [|discriminate].
      inversion H; subst. simpl. eapply HI; eauto.
    + destruct (seq_opt (map (freeze f s) l)) eqn:E; [|discriminate]. inversion H; subst. simpl. eapply HL; eauto.
  - destruct (seq_opt (map (freeze f s) l)) eqn:E; [|discriminate]. inversion H; subst. simpl. eapply HL; eauto.
  - match type of H with option_map _ ?x = _ => destruct x eqn:E end; [|discriminate].
    inversion H; subst. simpl. eapply HI; eauto.
Qed.

Lemma deepcopy_hfree : forall f s v v', deepcopy f s v = Some v' -> hfree v' = true.
Proof.
  induction f as [|f IH]; intros s v v' H; [discriminate|].
  assert (HL : forall l r, seq_opt (map (deepcopy f s) l) = Some r -> forallb hfree r = true).
  { intros l r Hr. rewrite forallb_forall. intros y Hy.
    destruct (seq_opt_In _ _ _ Hr y Hy) as [x [_ Fx]]. eapply IH. exact Fx. }
  assert (HI : forall (it : list (atom * pyval)) r,
             seq_opt (map (fun kv => option_map (pair (fst kv)) (deepcopy f s (snd kv))) it) = Some r ->
             forallb (fun kv => hfree (snd kv)) r = true).
  { intros it r Hr. rewrite forallb_forall. intros y Hy.
    destruct (seq_opt_In _ _ _ Hr y Hy) as [x [_ Fx]].
    destruct (deepcopy f s (snd x)) as [z|] eqn:E; [|discriminate]. simpl in Fx. inversion Fx; subst.
    simpl. eapply IH; eauto. }
  destruct v; simpl in H.
  - inversion H; reflexivity.
  - inversion H; reflexivity.
  - destruct (seq_opt (map (deepcopy f s) l)) eqn:E; [|discriminate]. inversion H; subst. simpl. eapply HL; eauto.
  - destruct (seq_opt (map (deepcopy f s) fs)) eqn:E; [|discriminate]. inversion H; subst. simpl. eapply HL; eauto.
  - destruct (lookup s h) as [[fac it|l]|]; try discriminate.
    match type of H with option_map _ ?x = _ => destruct x eqn:E end; [|discriminate].
    inversion H; subst. simpl. eapply HI; eauto.
  - destruct (lookup s h) as [[fac it|l]|]; [| |discriminate].
    + match type of H with option_map _ ?x = _ => destruct x eqn:E end; [|discriminate].
      inversion H; subst. simpl. eapply HI; eauto.
    + destruct (seq_opt (map (deepcopy f s) l)) eqn:E; [|discriminate]. inversion H; subst. simpl. eapply HL; eauto.
  - destruct (seq_opt (map (deepcopy f s) l)) eqn:E; [|discriminate]. inversion H; subst. simpl. eapply HL; eauto.
  - match type of H with option_map _ ?x = _ => destruct x eqn:E end; [|discriminate].
    inversion H; subst. simpl. eapply HI; eauto.
Qed.
