(* Proofs for C05: snapshot manifests. *)
From Coq Require Import List NArith Bool Lia Permutation Sorted Arith.
From SWH.lib Require Import Bytes Dec Order StableSort GitHeader ListAux.
From SWH.model Require Import Snap.
From SWH Require Import Generated.
Import ListNotations.
Open Scope N_scope.

Definition enc_branch (p : bytes * option branch) : bytes :=
  line_type (snd p) ++ SP :: fst p ++ NUL :: dec_N (lenN (line_target (snd p))) ++ COLON :: line_target (snd p).

Lemma concat_branch_parts : forall p, concat (branch_parts p) = enc_branch p.
Proof.
  intro p. unfold branch_parts, enc_branch. cbn [concat].
  repeat (rewrite <- app_assoc; cbn [app]). rewrite app_nil_r. reflexivity.
Qed.

Lemma concat_flat_map_branch : forall l, concat (flat_map branch_parts l) = concat (map enc_branch l).
Proof.
  induction l as [|p l IH]; [reflexivity|].
  cbn [flat_map map concat]. rewrite concat_app, IH, concat_branch_parts. reflexivity.
Qed.

Lemma snap_manifest_spec : forall b,
  snap_manifest b = git_object (bs "snapshot") (concat (map enc_branch (sort name_leb b))).
Proof. intro b. unfold snap_manifest, snap_parts. rewrite from_parts_git_object, concat_flat_map_branch. reflexivity. Qed.

Lemma name_leb_total : forall x y, name_leb x y = true \/ name_leb y x = true.
Proof. intros. apply bleb_total. Qed.
Lemma name_leb_trans : forall x y z, name_leb x y = true -> name_leb y z = true -> name_leb x z = true.
Proof. intros x y z. apply bleb_trans. Qed.

(* ---------------------------------------------------------------- order-free *)
Theorem snap_manifest_order_free : forall b b',
  NoDup (map fst b) -> Permutation b b' -> snap_manifest b = snap_manifest b'.
Proof.
  intros b b' ND P. rewrite !snap_manifest_spec. f_equal. f_equal. f_equal.
  apply sort_perm_eq; [apply name_leb_total | apply name_leb_trans | | exact P].
  intros x y Hx Hy L1 L2. apply (NoDup_map_inj fst b); auto.
  apply bleb_antisym; assumption.
Qed.

(* names come out strictly increasing in byte order *)
Theorem snap_sorted_strict : forall b, NoDup (map fst b) ->
  StronglySorted (fun x y => bltb (fst x) (fst y) = true) (sort name_leb b).
Proof.
  intros b ND.
  assert (S : StronglySorted (le name_leb) (sort name_leb b)) by (apply sort_sorted; [apply name_leb_total | apply name_leb_trans]).
  assert (ND' : NoDup (map fst (sort name_leb b))).
  { apply (Permutation_NoDup (Permutation_map fst (Permutation_sym (sort_perm name_leb b)))). exact ND. }
  induction S as [|x l S IH F]; [constructor|].
  cbn [map] in ND'. inversion ND' as [|? ? Hn ND'']; subst. constructor; [apply IH; exact ND''|].
  rewrite Forall_forall in *. intros z Hz. apply bltb_bleb. split; [apply F; exact Hz|].
  intro E. apply Hn. rewrite E. apply in_map. exact Hz.
Qed.

(* ---------------------------------------------------------------- decoding *)
Lemma line_type_no_sp : forall ob, ~ In SP (line_type ob).
Proof.
  intros [[t ty]|]; [destruct ty|]; apply memb_false; vm_compute; reflexivity.
Qed.

Lemma line_type_known : forall ob, known_type_word (line_type ob) = true.
Proof. intros [[t ty]|]; [destruct ty|]; vm_compute; reflexivity. Qed.

Definition NulFreeNames (b : branches) : Prop := forall p, In p b -> ~ In NUL (fst p).

Lemma enc_branch_cons : forall p rest,
  enc_branch p ++ rest =
  line_type (snd p) ++ SP :: (fst p ++ NUL :: (dec_N (lenN (line_target (snd p))) ++ COLON :: (line_target (snd p) ++ rest))).
Proof. intros. unfold enc_branch. repeat (rewrite <- app_assoc; cbn [app]). reflexivity. Qed.

Lemma line_type_nonempty : forall ob, line_type ob <> [].
Proof. intros [[t ty]|]; [destruct ty|]; discriminate. Qed.

Lemma decode_snapshot_ok : forall l fuel, NulFreeNames l -> (length l < fuel)%nat ->
  decode_snapshot fuel (concat (map enc_branch l)) = Some (map record_of l).
Proof.
  induction l as [|p l IH]; intros fuel D Hf.
  - destruct fuel; reflexivity.
  - destruct fuel as [|fuel]; [cbn [length] in Hf; lia|].
    cbn [map concat]. rewrite enc_branch_cons.
    pose proof (line_type_nonempty (snd p)) as NE.
    destruct (line_type (snd p)) as [|c w] eqn:EW; [congruence|].
    cbn [app decode_snapshot]. change (c :: w ++ SP :: ?r) with ((c :: w) ++ SP :: r). rewrite <- EW.
    rewrite cut_app by apply line_type_no_sp.
    rewrite line_type_known.
    rewrite cut_app by (apply D; left; reflexivity).
    rewrite cut_app by (apply digits_not_In; [reflexivity | apply dec_N_digits]).
    rewrite parse_dec_N_dec_N. rewrite lenN_length, Nat2N.id.
    assert (L : Nat.leb (length (line_target (snd p))) (length (line_target (snd p) ++ concat (map enc_branch l))) = true).
    { apply Nat.leb_le. rewrite app_length. lia. }
    rewrite L.
    change (@skipn N) with drop. change (@firstn N) with take.
    rewrite drop_app_length, take_app_length.
    rewrite IH.
    + unfold record_of. rewrite EW. reflexivity.
    + intros q Hq. apply D. right. exact Hq.
    + cbn [length] in Hf. lia.
Qed.

Lemma enc_branch_length : forall p, (1 <= length (enc_branch p))%nat.
Proof. intro p. unfold enc_branch. rewrite app_length. cbn [length]. lia. Qed.

Lemma concat_enc_branch_length : forall l, (length l <= length (concat (map enc_branch l)))%nat.
Proof.
  induction l as [|p l IH]; [cbn; lia|]. cbn [map concat length]. rewrite app_length.
  pose proof (enc_branch_length p). lia.
Qed.

Lemma snapshot_type_no_sp : ~ In SP (bs "snapshot").
Proof. apply memb_false. vm_compute. reflexivity. Qed.

Theorem decode_snap_manifest : forall b, NulFreeNames b ->
  decode_snapshot_object (snap_manifest b) = Some (map record_of (sort name_leb b)).
Proof.
  intros b D. rewrite snap_manifest_spec. unfold decode_snapshot_object.
  rewrite parse_git_object_ok by exact snapshot_type_no_sp. rewrite beqb_refl.
  apply decode_snapshot_ok.
  - intros p Hp. apply D. apply sort_In in Hp. exact Hp.
  - pose proof (concat_enc_branch_length (sort name_leb b)). lia.
Qed.

(* a record determines the branch *)
Lemma branch_of_record_of : forall p, branch_of_record (record_of p) = Some p.
Proof.
  intros [name [[t ty]|]]; unfold record_of, branch_of_record; cbn [fst snd line_type line_target b_type b_target].
  - destruct ty; vm_compute; reflexivity.
  - reflexivity.
Qed.

Lemma record_of_inj : forall p q, record_of p = record_of q -> p = q.
Proof.
  intros p q E. assert (X : branch_of_record (record_of p) = branch_of_record (record_of q)) by (rewrite E; reflexivity).
  rewrite !branch_of_record_of in X. congruence.
Qed.

Definition unrecord (r : srecord) : bytes * option branch :=
  match branch_of_record r with Some p => p | None => ([], None) end.

Lemma map_unrecord : forall l, map unrecord (map record_of l) = l.
Proof.
  induction l as [|p l IH]; [reflexivity|]. cbn [map]. rewrite IH. unfold unrecord.
  rewrite branch_of_record_of. reflexivity.
Qed.

(* different branch maps never share a manifest *)
Theorem snap_manifest_injective : forall b b', NulFreeNames b -> NulFreeNames b' ->
  snap_manifest b = snap_manifest b' -> Permutation b b'.
Proof.
  intros b b' D D' E.
  assert (X : decode_snapshot_object (snap_manifest b) = decode_snapshot_object (snap_manifest b')) by (rewrite E; reflexivity).
  rewrite !decode_snap_manifest in X by assumption. inversion X as [X'].
  assert (Y : sort name_leb b = sort name_leb b').
  { rewrite <- (map_unrecord (sort name_leb b)), X', map_unrecord. reflexivity. }
  rewrite <- (sort_perm name_leb b), Y. apply sort_perm.
Qed.

(* ---------------------------------------------------------------- unresolved aliases *)
Lemma has_key_In : forall k b, has_key k b = true <-> In k (map fst b).
Proof.
  intros k b. unfold has_key. rewrite existsb_exists. split.
  - intros [p [Hp E]]. apply beqb_eq in E. subst. apply in_map. exact Hp.
  - intro H. apply in_map_iff in H. destruct H as [p [E Hp]]. exists p. split; [exact Hp|]. apply beqb_eq. auto.
Qed.

Lemma btype_eqb_eq : forall a b, btype_eqb a b = true <-> a = b.
Proof. intros [] []; cbn; split; intro; try reflexivity; try discriminate. Qed.

Theorem unresolved_exact : forall b n t,
  In (n, t) (unresolved b) <->
  exists br, In (n, Some br) b /\ b_type br = BAlias /\ b_target br = t /\ (~ In t (map fst b) \/ t = n).
Proof.
  intros b n t. unfold unresolved. rewrite in_map_iff. split.
  - intros [[n' ob] [E Hin]]. apply filter_In in Hin. destruct Hin as [Hin U].
    apply sort_In in Hin. cbn [fst snd] in E. inversion E; subst. unfold is_unresolved in U. cbn [fst snd] in U.
    destruct ob as [br|]; [|discriminate]. apply andb_true_iff in U. destruct U as [U1 U2].
    apply btype_eqb_eq in U1. exists br. cbn [line_target]. repeat split; auto.
    apply orb_true_iff in U2. destruct U2 as [U2|U2].
    + left. apply negb_true_iff in U2. intro K. apply has_key_In in K. congruence.
    + right. apply beqb_eq in U2. exact U2.
  - intros [br [Hin [Ht [Htg Hc]]]]. exists (n, Some br). cbn [fst snd line_target]. split; [congruence|].
    apply filter_In. split; [apply sort_In; exact Hin|].
    unfold is_unresolved. cbn [fst snd]. apply andb_true_iff. split; [apply btype_eqb_eq; exact Ht|].
    apply orb_true_iff. destruct Hc as [Hc|Hc].
    + left. apply negb_true_iff. destruct (has_key (b_target br) b) eqn:K; [|reflexivity].
      apply has_key_In in K. subst t. contradiction.
    + right. apply beqb_eq. congruence.
Qed.

Theorem snapshot_raise_iff : forall b ignore,
  (exists u, snapshot_git_object b ignore = SnapUnresolved u) <-> (unresolved b <> [] /\ ignore = false).
Proof.
  intros b ignore. unfold snapshot_git_object. destruct (unresolved b) as [|x u]; destruct ignore; split.
  all: try (intros [u' H]; discriminate).
  all: try (intros [H1 H2]; congruence).
  - intros _. split; [discriminate | reflexivity].
  - intros _. eexists. reflexivity.
Qed.

Theorem snapshot_raise_carries_unresolved : forall b u,
  snapshot_git_object b false = SnapUnresolved u -> u = unresolved b.
Proof. intros b u. unfold snapshot_git_object. destruct (unresolved b) eqn:E; intro H; inversion H; reflexivity. Qed.

Theorem snapshot_ignore_total : forall b, snapshot_git_object b true = SnapOk (snap_manifest b).
Proof. intro b. unfold snapshot_git_object, snap_manifest. destruct (unresolved b); reflexivity. Qed.

Theorem snapshot_ok_same_manifest : forall b i m, snapshot_git_object b i = SnapOk m -> m = snap_manifest b.
Proof. intros b i m. unfold snapshot_git_object, snap_manifest. destruct (unresolved b); destruct i; intro H; inversion H; reflexivity. Qed.

(* ---------------------------------------------------------------- tables *)
Lemma snapshot_target_types_table : SNAPSHOT_TARGET_TYPES = map btype_bytes all_btypes.
Proof. vm_compute. reflexivity. Qed.
Lemma snapshot_is_git_type : mem_bytes (bs "snapshot") GIT_OBJECT_TYPES = true.
Proof. vm_compute. reflexivity. Qed.

(* ---------------------------------------------------------------- non-vacuity *)
Definition ex_branches : branches :=
  [ (bs "refs/heads/b", Some {| b_target := repeat 7 20; b_type := BRevision |});
    (bs "HEAD", Some {| b_target := bs "refs/heads/b"; b_type := BAlias |});
    (bs "refs/heads/b/c", None);
    (bs "self", Some {| b_target := bs "self"; b_type := BAlias |});
    (bs "lost", Some {| b_target := [0; 58; 49]; b_type := BAlias |}) ].

Example ex_branches_ok :
  NoDup (map fst ex_branches) /\ NulFreeNames ex_branches /\ valid_snapshot ex_branches = true /\
  unresolved ex_branches = [(bs "lost", [0; 58; 49]); (bs "self", bs "self")].
Proof.
  split; [|split; [|split]].
  - repeat constructor; cbn; intro H; repeat (destruct H as [H|H]; [discriminate|]); exact H.
  - intros p Hp. cbn in Hp. repeat (destruct Hp as [<-|Hp]; [apply memb_false; vm_compute; reflexivity|]). destruct Hp.
  - vm_compute. reflexivity.
  - vm_compute. reflexivity.
Qed.
