(* Proofs for C13 (glob exclusion patterns): the two-predicate model of
   from_disk (model/FromDiskPat.v) is a conservative extension of FromDisk.v;
   with a filter that looks at the path only, the two passes read exactly the
   physically pruned tree; the pre-fix view of pass 2 does not; glob facts. *)
From Coq Require Import List NArith Bool Lia Permutation Arith.
From SWH.lib Require Import Bytes Dec Hex Order StableSort GitHeader ListAux Sha1.
From SWH.model Require Import Dir FromDisk FromDiskPat.
From SWH.proofs Require Import DirProofs FromDiskProofs FromDiskExport FromDiskMain.
From SWH Require Import Generated.
Import ListNotations.
Open Scope N_scope.

(* ================================================================== 1. unfolding *)
Section BuildPKids.
  Variable ord : list bytes -> list (bytes * mtree) -> list (bytes * mtree).
  Variable pf1 : pfilter.
  Variable limit : option N.
  Variable path : list bytes.
  Fixpoint buildp_kids (l : list (bytes * fsnode)) : fd_result (list (bytes * mtree)) :=
    match l with
    | [] => FdOk []
    | (n, c) :: r =>
        match c with
        | FDir ccs =>
            if pf1 (path ++ [n]) (Some (map fst ccs))
            then match buildp ord pf1 limit (path ++ [n]) c, buildp_kids r with
                 | FdOk m, FdOk ks => FdOk ((n, m) :: ks)
                 | _, _ => FdSymlinkTooLarge
                 end
            else buildp_kids r
        | _ =>
            if pf1 (path ++ [n]) None
            then match from_file limit c, buildp_kids r with
                 | FdOk ci, FdOk ks => FdOk ((n, MLeaf ci) :: ks)
                 | _, _ => FdSymlinkTooLarge
                 end
            else buildp_kids r
        end
    end.
End BuildPKids.

Lemma buildp_dir : forall ord pf1 limit path cs,
  buildp ord pf1 limit path (FDir cs) =
  match buildp_kids ord pf1 limit path cs with
  | FdOk ks => FdOk (MNode (ord path ks))
  | FdSymlinkTooLarge => FdSymlinkTooLarge
  end.
Proof. reflexivity. Qed.

Lemma buildp_file : forall ord pf1 limit path t, is_fdir t = false ->
  buildp ord pf1 limit path t = match from_file limit t with FdOk ci => FdOk (MLeaf ci) | FdSymlinkTooLarge => FdSymlinkTooLarge end.
Proof. intros ord pf1 limit path t E. destruct t; [reflexivity..|discriminate]. Qed.

Definition prune2p_kid (pf2 : pfilter) (path : list bytes) (p : bytes * mtree) : list (bytes * mtree) :=
  match snd p with
  | MLeaf _ => [p]
  | MNode _ => let c' := prune2p pf2 (path ++ [fst p]) (snd p) in
               if pf2 (path ++ [fst p]) (Some (keys c')) then [(fst p, c')] else []
  end.

Lemma prune2p_node : forall pf2 path ks, prune2p pf2 path (MNode ks) = MNode (flat_map (prune2p_kid pf2 path) ks).
Proof.
  intros pf2 path ks. cbn [prune2p]. f_equal.
  induction ks as [|[n c] r IH]; [reflexivity|]. cbn [flat_map]. rewrite <- IH.
  unfold prune2p_kid. cbn [fst snd]. destruct c; cbv zeta; [reflexivity|].
  destruct (pf2 (path ++ [n]) (Some (keys (prune2p pf2 (path ++ [n]) (MNode kids))))); reflexivity.
Qed.

Definition prune_path_kid (keep : list bytes -> bool) (path : list bytes) (p : bytes * fsnode) : list (bytes * fsnode) :=
  if keep (path ++ [fst p]) then [(fst p, prune_path keep (path ++ [fst p]) (snd p))] else [].

Lemma prune_path_dir : forall keep path cs,
  prune_path keep path (FDir cs) = FDir (flat_map (prune_path_kid keep path) cs).
Proof.
  intros keep path cs. cbn [prune_path]. f_equal.
  induction cs as [|[n c] r IH]; [reflexivity|]. cbn [flat_map]. rewrite <- IH.
  unfold prune_path_kid. cbn [fst snd]. destruct (keep (path ++ [n])); reflexivity.
Qed.

Lemma prune_path_file : forall keep path t, is_fdir t = false -> prune_path keep path t = t.
Proof. intros keep path t E. destruct t; [reflexivity..|discriminate]. Qed.

(* ================================================================== 2. conservative extension of FromDisk.v *)
Lemma pf_of_dir : forall f path n es, pf_of f (path ++ [n]) (Some es) = filt_dir f n es.
Proof. intros. unfold pf_of. rewrite last_last. reflexivity. Qed.

Lemma buildp_pf_of : forall ord f limit t path, buildp ord (pf_of f) limit path t = build ord f limit path t.
Proof.
  intros ord f limit. induction t as [d mo|x|mo|cs IH] using fsnode_ind'; intro path; try reflexivity.
  rewrite buildp_dir, build_dir.
  replace (buildp_kids ord (pf_of f) limit path cs) with (build_kids ord f limit path cs); [reflexivity|].
  induction IH as [|[n c] r IHc _ IHr]; [reflexivity|]. cbn [buildp_kids build_kids snd] in *.
  rewrite IHr. destruct c as [d mo|x|mo|ccs]; try reflexivity.
  rewrite pf_of_dir, IHc. reflexivity.
Qed.

Lemma prune2p_pf_of : forall f m path, prune2p (pf_of f) path m = prune2 f m.
Proof.
  intros f. induction m as [c|ks IH] using mtree_ind'; intro path; [reflexivity|].
  rewrite prune2p_node, prune2_node. f_equal.
  induction IH as [|[n c] r IHc _ IHr]; [reflexivity|]. cbn [flat_map]. rewrite IHr. f_equal.
  unfold prune2p_kid, prune2_kid. cbn [fst snd] in *. destruct c as [ci|kc]; [reflexivity|].
  cbv zeta. rewrite IHc, pf_of_dir. reflexivity.
Qed.

(* the two-predicate model instantiated with a name / emptiness filter IS the model of FromDisk.v *)
Theorem from_disk_pat_conservative : forall ord f limit t,
  from_disk_pat ord (pf_of f) (pf_of f) limit t = from_disk ord f limit t.
Proof.
  intros ord f limit t. unfold from_disk_pat, from_disk. rewrite buildp_pf_of.
  destruct (build ord f limit [] t); [|reflexivity]. rewrite prune2p_pf_of. reflexivity.
Qed.

(* ================================================================== 3. filters that look at the path only *)
(* pass 1 with such a filter reads the physically pruned tree *)
Lemma buildp_path_only : forall ord pf1 (keep : list bytes -> bool) limit,
  (forall p e, pf1 p e = keep p) ->
  forall t path, buildp ord pf1 limit path t = build ord FAll limit path (prune_path keep path t).
Proof.
  intros ord pf1 keep limit K. induction t as [d mo|x|mo|cs IH] using fsnode_ind'; intro path; try reflexivity.
  rewrite buildp_dir, prune_path_dir, build_dir.
  assert (E : buildp_kids ord pf1 limit path cs = build_kids ord FAll limit path (flat_map (prune_path_kid keep path) cs)).
  { induction IH as [|[n c] r IHc _ IHr]; [reflexivity|]. cbn [buildp_kids flat_map snd] in *.
    unfold prune_path_kid at 1. cbn [fst snd]. rewrite IHr.
    destruct c as [d mo|x|mo|ccs]; rewrite K; destruct (keep (path ++ [n])); cbn [app]; try reflexivity.
    rewrite IHc, prune_path_dir. cbn [build_kids filt_dir]. reflexivity. }
  rewrite E. reflexivity.
Qed.

Lemma prune2_all : forall m, prune2 FAll m = m.
Proof.
  induction m as [c|ks IH] using mtree_ind'; [reflexivity|]. rewrite prune2_node. f_equal.
  apply flat_map_single. rewrite Forall_forall in *. intros [n c] Hp. specialize (IH _ Hp). cbn [snd] in IH.
  unfold prune2_kid. cbn [fst snd]. destruct c; [reflexivity|]. cbv zeta. rewrite IH. reflexivity.
Qed.

(* pass 2 changes nothing when it accepts every directory that pass 1 accepted *)
Definition pass2_agrees (pf1 pf2 : pfilter) : Prop :=
  forall p e e', pf1 p (Some e) = true -> pf2 p (Some e') = true.

Lemma buildp_dir_shape : forall ord pf1 limit path cs m, buildp ord pf1 limit path (FDir cs) = FdOk m -> exists ks, m = MNode ks.
Proof.
  intros ord pf1 limit path cs m B. rewrite buildp_dir in B.
  destruct (buildp_kids ord pf1 limit path cs); [|discriminate]. inversion B. eauto.
Qed.

Theorem pass2_noop : forall ord pf1 pf2 limit, perm_oracle ord -> pass2_agrees pf1 pf2 ->
  forall t path m, buildp ord pf1 limit path t = FdOk m -> prune2p pf2 path m = m.
Proof.
  intros ord pf1 pf2 limit PO AG. induction t as [d mo|x|mo|cs IH] using fsnode_ind'; intros path m B.
  1-3: rewrite buildp_file in B by reflexivity;
       match type of B with context [from_file ?l ?t] => destruct (from_file l t) end; [|discriminate];
       inversion B; reflexivity.
  rewrite buildp_dir in B. destruct (buildp_kids ord pf1 limit path cs) as [ks|] eqn:BK; [|discriminate].
  inversion B; subst. rewrite prune2p_node. f_equal. apply flat_map_single.
  assert (F : Forall (fun p => prune2p_kid pf2 path p = [p]) ks).
  { clear B. revert ks BK. induction IH as [|[n c] r IHc _ IHr]; intros ks BK; cbn [buildp_kids] in BK.
    - inversion BK. constructor.
    - cbn [snd] in IHc. destruct c as [d mo|x|mo|ccs].
      1-3: destruct (pf1 (path ++ [n]) None); [|apply IHr; exact BK];
           match type of BK with context [from_file ?l ?t] => destruct (from_file l t) end; [|discriminate];
           destruct (buildp_kids ord pf1 limit path r) as [ks'|]; [|discriminate]; inversion BK; subst;
           constructor; [reflexivity | apply IHr; reflexivity].
      destruct (pf1 (path ++ [n]) (Some (map fst ccs))) eqn:A; [|apply IHr; exact BK].
      destruct (buildp ord pf1 limit (path ++ [n]) (FDir ccs)) as [mc|] eqn:Bc; [|discriminate].
      destruct (buildp_kids ord pf1 limit path r) as [ks'|]; [|discriminate]. inversion BK; subst.
      constructor; [|apply IHr; reflexivity].
      destruct (buildp_dir_shape _ _ _ _ _ _ Bc) as [kc ->].
      unfold prune2p_kid. cbn [fst snd]. cbv zeta. rewrite (IHc _ _ Bc), (AG _ _ (keys (MNode kc)) A). reflexivity. }
  rewrite Forall_forall in *. intros p Hp. apply F. apply (Permutation_in _ (PO path ks)). exact Hp.
Qed.

(* the general statement: two passes = one physical pruning *)
Theorem two_pass_is_prune : forall ord pf1 pf2 (keep : list bytes -> bool) limit t, perm_oracle ord ->
  (forall p e, pf1 p e = keep p) -> (forall p e, keep p = true -> pf2 p (Some e) = true) ->
  from_disk_pat ord pf1 pf2 limit t = from_disk ord FAll limit (prune_path keep [] t).
Proof.
  intros ord pf1 pf2 keep limit t PO K1 K2. unfold from_disk_pat, from_disk.
  destruct (buildp ord pf1 limit [] t) as [m|] eqn:B.
  - rewrite (pass2_noop ord pf1 pf2 limit PO) with (t := t) by
      (try exact B; intros p e e' A; apply K2; rewrite <- (K1 p (Some e)); exact A).
    rewrite (buildp_path_only ord pf1 keep limit K1) in B. rewrite B, prune2_all. reflexivity.
  - rewrite (buildp_path_only ord pf1 keep limit K1) in B. rewrite B. reflexivity.
Qed.

(* ignore_directories_patterns: reading with the patterns IS reading the pruned tree - same Merkle tree, same
   Symlink-too-large error *)
Theorem pat_exact : forall ord pats limit t, perm_oracle ord ->
  from_disk_pat ord (pat_filter pats) (pat_filter pats) limit t = from_disk ord FAll limit (prune_pat pats t).
Proof.
  intros ord pats limit t PO. unfold prune_pat.
  apply two_pass_is_prune; [exact PO | reflexivity | intros p e E; exact E].
Qed.

(* ================================================================== 4. the pruned tree *)
Lemma prune_path_wf : forall keep t path, wf_fs t = true -> wf_fs (prune_path keep path t) = true.
Proof.
  intros keep. induction t as [d mo|x|mo|cs IH] using fsnode_ind'; intros path W; try reflexivity.
  rewrite prune_path_dir. apply wf_fs_dir in W. destruct W as [ND F]. apply wf_fs_dir. split.
  - apply NoDup_flat_map_names; [| |exact ND].
    + intros p q. unfold prune_path_kid. destruct (keep (path ++ [fst p])); [intros [<-|[]]; reflexivity | intros []].
    + intros p. unfold prune_path_kid. destruct (keep (path ++ [fst p])); cbn [length]; lia.
  - apply Forall_forall. intros q Hq. apply in_flat_map in Hq. destruct Hq as [p [Hp Hq]].
    rewrite Forall_forall in F, IH. destruct (F _ Hp) as [Wn Wc]. specialize (IH _ Hp).
    unfold prune_path_kid in Hq. destruct (keep (path ++ [fst p])); [|destruct Hq].
    destruct Hq as [<-|[]]. cbn [fst snd]. split; [exact Wn | apply IH; exact Wc].
Qed.

(* which paths survive: those none of whose non-empty prefixes is rejected *)
Fixpoint kept (keep : list bytes -> bool) (path q : list bytes) : bool :=
  match q with
  | [] => true
  | n :: r => keep (path ++ [n]) && kept keep (path ++ [n]) r
  end.

Lemma find_prune_path_kid : forall keep path n cs,
  find (fun p => beqb n (fst p)) (flat_map (prune_path_kid keep path) cs) =
  if keep (path ++ [n])
  then option_map (fun p => (fst p, prune_path keep (path ++ [fst p]) (snd p))) (find (fun p => beqb n (fst p)) cs)
  else None.
Proof.
  intros keep path n. induction cs as [|[n0 c] r IH].
  - cbn. destruct (keep (path ++ [n])); reflexivity.
  - cbn [flat_map find fst]. unfold prune_path_kid at 1. cbn [fst snd].
    destruct (beqb n n0) eqn:E.
    + apply beqb_eq in E. subst n0. destruct (keep (path ++ [n])) eqn:Kp.
      * cbn [app find fst]. rewrite beqb_refl. reflexivity.
      * cbn [app]. exact IH.
    + destruct (keep (path ++ [n0])); cbn [app find fst]; [rewrite E|]; exact IH.
Qed.

Theorem prune_path_get : forall keep q t path,
  fs_get q (prune_path keep path t) =
  if kept keep path q then option_map (prune_path keep (path ++ q)) (fs_get q t) else None.
Proof.
  intros keep. induction q as [|n r IH]; intros t path.
  - cbn [fs_get kept option_map]. rewrite app_nil_r. reflexivity.
  - cbn [kept]. destruct t as [d mo|x|mo|cs]; cbn [fs_get prune_path].
    1-3: destruct (keep (path ++ [n]) && kept keep (path ++ [n]) r); reflexivity.
    change (fs_get (n :: r) (prune_path keep path (FDir cs)) =
            if keep (path ++ [n]) && kept keep (path ++ [n]) r
            then option_map (prune_path keep (path ++ n :: r)) (fs_get (n :: r) (FDir cs)) else None).
    rewrite prune_path_dir. cbn [fs_get]. rewrite find_prune_path_kid.
    destruct (keep (path ++ [n])); [|reflexivity]. cbn [andb].
    destruct (find (fun p => beqb n (fst p)) cs) as [[n0 c]|] eqn:F; cbn [option_map fst snd].
    + apply find_some in F. destruct F as [_ E]. cbn [fst] in E. apply beqb_eq in E. subst n0.
      rewrite IH. replace ((path ++ [n]) ++ r) with (path ++ n :: r) by (rewrite <- app_assoc; reflexivity). reflexivity.
    + destruct (kept keep (path ++ [n]) r); reflexivity.
Qed.

(* ================================================================== 5. consequences for ids, in the style of C13_named_equiv *)
Section PatIds.
  Variable H : bytes -> bytes.

  Theorem pat_equiv : forall pats ord ord' limit limit' t m m', perm_oracle ord -> perm_oracle ord' -> wf_fs t = true ->
    from_disk_pat ord (pat_filter pats) (pat_filter pats) limit t = FdOk m ->
    from_disk ord' FAll limit' (prune_pat pats t) = FdOk m' ->
    mt_id H m = mt_id H m' /\
    forall path, option_map (mt_id H) (mt_get path m) = option_map (mt_id H) (mt_get path m').
  Proof.
    intros pats ord ord' limit limit' t m m' PO PO' W FD FD'. rewrite (pat_exact ord pats limit t PO) in FD.
    apply (order_free_all H ord ord' limit limit' (prune_pat pats t) m m' PO PO'); [|exact FD|exact FD'].
    apply prune_path_wf. exact W.
  Qed.

  Theorem pat_ids : forall pats ord limit t m path, perm_oracle ord -> wf_fs t = true ->
    from_disk_pat ord (pat_filter pats) (pat_filter pats) limit t = FdOk m ->
    mt_id H m = git_node_id H (prune_pat pats t) /\
    option_map (mt_id H) (mt_get path m) = option_map (git_node_id H) (fs_get path (prune_pat pats t)).
  Proof.
    intros pats ord limit t m path PO W FD. rewrite (pat_exact ord pats limit t PO) in FD.
    pose proof (prune_path_wf (fun p => negb (excluded pats p)) t [] W) as W'. fold (prune_pat pats t) in W'.
    split.
    - apply (walk_is_git_tree H ord limit _ m PO W' FD).
    - apply (walk_paths_git H ord limit _ m path PO W' FD).
  Qed.
End PatIds.

(* the read raises exactly when reading the pruned copy raises: when a symbolic link of the PRUNED tree is longer
   than the limit (an excluded link, or a link below an excluded directory, is never read) *)
Theorem pat_symlink_limit : forall pats ord limit t, perm_oracle ord ->
  (from_disk_pat ord (pat_filter pats) (pat_filter pats) limit t = FdSymlinkTooLarge <->
   exists x, FsSub (Lnk x) (prune_pat pats t) /\ exists l, limit = Some l /\ l < lenN x).
Proof.
  intros pats ord limit t PO. rewrite (pat_exact ord pats limit t PO), from_disk_fails_iff. unfold some_too_large.
  split; intros [x [A B]]; exists x; (split; [apply reach_links_all; exact A | apply too_large_spec; exact B]).
Qed.

(* ================================================================== 6. glob facts *)
Lemma tmatch_star_unfold : forall r s,
  tmatch (TStar :: r) s = tmatch r s || match s with [] => false | _ :: s' => tmatch (TStar :: r) s' end.
Proof. intros r [|x s]; reflexivity. Qed.

Lemma tmatch_star_skip : forall r a b, tmatch r b = true -> tmatch (TStar :: r) (a ++ b) = true.
Proof.
  intros r a b M. induction a as [|x a IH]; rewrite tmatch_star_unfold; cbn [app].
  - rewrite M. reflexivity.
  - rewrite IH. apply orb_true_r.
Qed.

Lemma tmatch_star_inv : forall r s, tmatch (TStar :: r) s = true -> exists a b, s = a ++ b /\ tmatch r b = true.
Proof.
  intros r. induction s as [|x s IH]; rewrite tmatch_star_unfold; intro M.
  - rewrite orb_false_r in M. exists [], []. auto.
  - apply orb_true_iff in M. destruct M as [M|M]; [exists [], (x :: s); auto|].
    destruct (IH M) as [a [b [E Mb]]]. exists (x :: a), b. subst s. auto.
Qed.

(* '*' matches every text, '/' included *)
Theorem glob_star_all : forall s, glob_match [STAR] s = true.
Proof. intro s. change (tmatch [TStar] s = true). rewrite <- (app_nil_r s). apply tmatch_star_skip. reflexivity. Qed.

Definition literal_byte (c : N) : Prop := c <> STAR /\ c <> QMARK /\ c <> LBRACK.

Lemma parse_all_hd_lit : forall c rest, literal_byte c -> hd [] (parse_all (c :: rest)) = TLit c :: hd [] (parse_all rest).
Proof.
  intros c rest [A [B C]]. cbn [parse_all hd]. cbv zeta.
  destruct (N.eqb_spec c STAR); [contradiction|]. destruct (N.eqb_spec c QMARK); [contradiction|].
  destruct (N.eqb_spec c LBRACK); [contradiction|]. reflexivity.
Qed.

Lemma glob_parse_lit_app : forall p q, Forall literal_byte p -> glob_parse (p ++ q) = map TLit p ++ glob_parse q.
Proof.
  intros p q F. unfold glob_parse. induction F as [|c p Lc _ IH]; [reflexivity|].
  cbn [app map]. rewrite parse_all_hd_lit by exact Lc. rewrite IH. reflexivity.
Qed.

Lemma tmatch_lits : forall p r s, tmatch (map TLit p ++ r) s = true <-> exists s', s = p ++ s' /\ tmatch r s' = true.
Proof.
  induction p as [|c p IH]; intros r s; cbn [map app].
  - split; [intro M; exists s; auto | intros [s' [-> M]]; exact M].
  - destruct s as [|x s]; cbn [tmatch].
    + split; [discriminate | intros [s' [E _]]; discriminate].
    + rewrite andb_true_iff, N.eqb_eq, IH. split.
      * intros [-> [s' [-> M]]]. exists s'. auto.
      * intros [s' [E M]]. inversion E; subst. split; [reflexivity | exists s'; auto].
Qed.

(* a pattern without '*', '?', '[' matches exactly itself *)
Theorem glob_literal : forall p s, Forall literal_byte p -> (glob_match p s = true <-> s = p).
Proof.
  intros p s F. unfold glob_match. rewrite <- (app_nil_r p) at 1. rewrite (glob_parse_lit_app p [] F).
  change (glob_parse []) with (@nil tok). rewrite tmatch_lits. split.
  - intros [s' [-> M]]. destruct s'; [apply app_nil_r | discriminate].
  - intros ->. exists []. rewrite app_nil_r. auto.
Qed.

(* "name*": the texts that start with name;  "*name": the texts that end with name (so "*/build" is any path ending in "/build") *)
Theorem glob_prefix : forall p s, Forall literal_byte p -> (glob_match (p ++ [STAR]) s = true <-> exists s', s = p ++ s').
Proof.
  intros p s F. unfold glob_match. rewrite (glob_parse_lit_app p [STAR] F). change (glob_parse [STAR]) with [TStar].
  rewrite tmatch_lits. split; intros [s' X]; exists s'; [tauto | split; [exact X | apply glob_star_all]].
Qed.

Theorem glob_suffix : forall p s, Forall literal_byte p -> (glob_match (STAR :: p) s = true <-> exists s', s = s' ++ p).
Proof.
  intros p s F. unfold glob_match, glob_parse. cbn [parse_all hd]. cbv zeta. rewrite N.eqb_refl.
  change (hd [] (parse_all p)) with (glob_parse p). rewrite <- (app_nil_r p) at 1. rewrite (glob_parse_lit_app p [] F).
  change (glob_parse []) with (@nil tok). split.
  - intro M. apply tmatch_star_inv in M. destruct M as [a [b [-> M]]]. apply tmatch_lits in M.
    destruct M as [s' [-> M]]. destruct s'; [|discriminate]. rewrite app_nil_r. eauto.
  - intros [s' ->]. apply tmatch_star_skip. apply tmatch_lits. exists []. rewrite app_nil_r. auto.
Qed.

(* ".*" (hidden entries) matches exactly the texts that start with a dot *)
Theorem glob_dotstar : forall s, glob_match (bs ".*") s = true <-> exists s', s = 46 :: s'.
Proof.
  intro s. change (bs ".*") with ([46] ++ [STAR]). apply glob_prefix.
  constructor; [|constructor]. repeat split; discriminate.
Qed.

(* ================================================================== 7. the defect fixed by 270736c *)
(* before the fix, pass 2 showed the filter "../" * k ++ path: with the pattern ".*" EVERY directory is rejected *)
Lemma old_pass2_dotstar_rejects : forall k path e, (1 <= k)%nat -> old_pass2 k [bs ".*"] path e = false.
Proof.
  intros k path e K. unfold old_pass2. cbn [existsb]. rewrite orb_false_r, negb_false_iff.
  apply glob_dotstar. destruct k as [|k]; [lia|]. cbn [dotdots app]. eauto.
Qed.

Definition is_leaf_kid (p : bytes * mtree) : bool := match snd p with MLeaf _ => true | MNode _ => false end.

Theorem old_pass2_removes_every_directory : forall k path ks, (1 <= k)%nat ->
  prune2p (old_pass2 k [bs ".*"]) path (MNode ks) = MNode (filter is_leaf_kid ks).
Proof.
  intros k path ks K. rewrite prune2p_node. f_equal.
  induction ks as [|[n c] r IH]; [reflexivity|]. cbn [flat_map filter]. rewrite IH.
  unfold prune2p_kid, is_leaf_kid. cbn [fst snd]. destruct c; [reflexivity|].
  cbv zeta. rewrite old_pass2_dotstar_rejects by exact K. reflexivity.
Qed.

(* root/{.git/x, src/a, README} *)
Definition ex_pat_tree : fsnode :=
  FDir [ (bs ".git", FDir [ (bs "x", Reg (bs "ref") 420) ]);
         (bs "src", FDir [ (bs "a", Reg (bs "int main;") 420); (bs ".hidden", Reg (bs "h") 420) ]);
         (bs "README", Reg (bs "hello") 420) ].

(* with the pre-fix pass 2 and the pattern ".*", for every depth k >= 1 of the root: src/ disappears, which is
   not what reading the pruned copy gives *)
Theorem pattern_pass2_refuted_old : forall k, (1 <= k)%nat ->
  from_disk_pat id_ord (pat_filter [bs ".*"]) (old_pass2 k [bs ".*"]) None ex_pat_tree
  <> from_disk id_ord FAll None (prune_pat [bs ".*"] ex_pat_tree) /\
  (exists m, from_disk_pat id_ord (pat_filter [bs ".*"]) (old_pass2 k [bs ".*"]) None ex_pat_tree = FdOk m /\
             mt_get [bs "src"] m = None) /\
  (exists m, from_disk id_ord FAll None (prune_pat [bs ".*"] ex_pat_tree) = FdOk m /\
             mt_get [bs "src"; bs "a"] m <> None /\ mt_get [bs "src"; bs ".hidden"] m <> None /\ mt_get [bs ".git"] m = None).
Proof.
  intros k K. unfold from_disk_pat.
  assert (B : exists ks, buildp id_ord (pat_filter [bs ".*"]) None [] ex_pat_tree = FdOk (MNode ks) /\
                         filter is_leaf_kid ks = [(bs "README", MLeaf {| ci_perms := 33188; ci_data := bs "hello"; ci_skipped := false |})]).
  { eexists. split; vm_compute; reflexivity. }
  destruct B as [ks [B F]]. rewrite B, (old_pass2_removes_every_directory k [] ks K), F.
  split; [|split].
  - vm_compute. discriminate.
  - eexists. split; [reflexivity|]. vm_compute. reflexivity.
  - eexists. split; [vm_compute; reflexivity|]. split; [vm_compute; discriminate|]. split; [vm_compute; discriminate|]. vm_compute. reflexivity.
Qed.

(* ================================================================== 8. non-vacuity *)
Example ex_pat_ok :
  wf_fs ex_pat_tree = true /\
  (* ".*" is anchored at the start of the root-relative path: src/.hidden stays *)
  prune_pat [bs ".*"] ex_pat_tree = FDir [ (bs "src", FDir [ (bs "a", Reg (bs "int main;") 420); (bs ".hidden", Reg (bs "h") 420) ]);
                                          (bs "README", Reg (bs "hello") 420) ] /\
  prune_pat [bs "src/a"; bs "READ??"] ex_pat_tree
    = FDir [ (bs ".git", FDir [ (bs "x", Reg (bs "ref") 420) ]); (bs "src", FDir [ (bs ".hidden", Reg (bs "h") 420) ]) ] /\
  prune_pat [bs "*"] ex_pat_tree = FDir [] /\
  (exists m, from_disk_pat rev_ord (pat_filter [bs "*/a"; bs "[!.]*E"]) (pat_filter [bs "*/a"; bs "[!.]*E"]) (Some 3) ex_pat_tree = FdOk m /\
             mt_id sha1 m = node_id sha1 (prune_pat [bs "*/a"; bs "[!.]*E"] ex_pat_tree) /\
             mt_get [bs "src"; bs ".hidden"] m <> None /\ mt_get [bs "src"; bs "a"] m = None /\ mt_get [bs "README"] m = None).
Proof.
  split; [vm_compute; reflexivity|]. split; [vm_compute; reflexivity|]. split; [vm_compute; reflexivity|].
  split; [vm_compute; reflexivity|].
  eexists. split; [vm_compute; reflexivity|]. split; [vm_compute; reflexivity|].
  split; [vm_compute; discriminate|]. split; vm_compute; reflexivity.
Qed.

(* ================================================================== 9. statements assembled for Props/C13.v *)
Theorem prune_pat_spec : forall pats t,
  (forall q, fs_get q (prune_pat pats t) =
             if kept (fun p => negb (excluded pats p)) [] q
             then option_map (prune_path (fun p => negb (excluded pats p)) q) (fs_get q t) else None) /\
  (forall t', is_fdir t' = false -> forall q, fs_get q (prune_pat pats t) = Some t' -> fs_get q t = Some t') /\
  (wf_fs t = true -> wf_fs (prune_pat pats t) = true).
Proof.
  intros pats t. unfold prune_pat. split; [|split].
  - intro q. rewrite prune_path_get. reflexivity.
  - intros t' E q G. rewrite prune_path_get in G.
    destruct (kept (fun p => negb (excluded pats p)) [] q); [|discriminate].
    destruct (fs_get q t) as [u|]; [|discriminate]. cbn [option_map] in G. inversion G as [G'].
    destruct u as [d mo|x|mo|cs]; try reflexivity. rewrite prune_path_dir in G'. subst t'. discriminate E.
  - apply prune_path_wf.
Qed.

Theorem glob_facts :
  (forall s, glob_match [STAR] s = true) /\
  (forall p s, Forall literal_byte p -> (glob_match p s = true <-> s = p)) /\
  (forall p s, Forall literal_byte p -> (glob_match (p ++ [STAR]) s = true <-> exists s', s = p ++ s')) /\
  (forall p s, Forall literal_byte p -> (glob_match (STAR :: p) s = true <-> exists s', s = s' ++ p)) /\
  (forall s, glob_match (bs ".*") s = true <-> exists s', s = 46 :: s').
Proof. exact (conj glob_star_all (conj glob_literal (conj glob_prefix (conj glob_suffix glob_dotstar)))). Qed.

(* ================================================================== 10. degenerate pattern lists *)
Lemma prune_path_true : forall keep, (forall p, keep p = true) -> forall t path, prune_path keep path t = t.
Proof.
  intros keep K. induction t as [d mo|x|mo|cs IH] using fsnode_ind'; intro path; try reflexivity.
  rewrite prune_path_dir. f_equal. apply flat_map_single. rewrite Forall_forall in *. intros [n c] Hp.
  unfold prune_path_kid. cbn [fst snd]. rewrite K, (IH _ Hp). reflexivity.
Qed.

Lemma prune_path_ext : forall keep keep', (forall p, keep p = keep' p) -> forall t path, prune_path keep path t = prune_path keep' path t.
Proof.
  intros keep keep' E. induction t as [d mo|x|mo|cs IH] using fsnode_ind'; intro path; try reflexivity.
  rewrite !prune_path_dir. f_equal. induction IH as [|[n c] r IHc _ IHr]; [reflexivity|].
  cbn [flat_map]. rewrite IHr. f_equal. unfold prune_path_kid. cbn [fst snd] in *. rewrite E, IHc. reflexivity.
Qed.

Lemma excluded_set : forall pats pats' path, (forall p, In p pats <-> In p pats') -> excluded pats path = excluded pats' path.
Proof.
  intros pats pats' path S. unfold excluded.
  destruct (existsb (fun p => glob_match p (rel_path path)) pats) eqn:A;
    destruct (existsb (fun p => glob_match p (rel_path path)) pats') eqn:B; try reflexivity.
  - apply existsb_exists in A. destruct A as [p [Hp M]]. apply S in Hp.
    assert (X : existsb (fun p => glob_match p (rel_path path)) pats' = true) by (apply existsb_exists; eauto). congruence.
  - apply existsb_exists in B. destruct B as [p [Hp M]]. apply S in Hp.
    assert (X : existsb (fun p => glob_match p (rel_path path)) pats = true) by (apply existsb_exists; eauto). congruence.
Qed.

(* an empty pattern list excludes nothing; the list is a SET of patterns (order and duplicates are irrelevant);
   the empty pattern matches the empty text only *)
Theorem pattern_empty_list : forall t,
  prune_pat [] t = t /\
  (forall ord limit, perm_oracle ord ->
     from_disk_pat ord (pat_filter []) (pat_filter []) limit t = from_disk ord FAll limit t) /\
  (forall pats pats', (forall p, In p pats <-> In p pats') -> prune_pat pats t = prune_pat pats' t) /\
  (forall s, glob_match [] s = true <-> s = []).
Proof.
  intro t.
  assert (E : prune_pat [] t = t) by (unfold prune_pat; apply prune_path_true; reflexivity).
  split; [exact E|]. split; [|split].
  - intros ord limit PO. rewrite (pat_exact ord [] limit t PO), E. reflexivity.
  - intros pats pats' S. unfold prune_pat. apply prune_path_ext. intro p. rewrite (excluded_set pats pats' p S). reflexivity.
  - intro s. apply glob_literal. constructor.
Qed.
