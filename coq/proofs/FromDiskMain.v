(* C06 / C13: the statements used by Props/C06.v and Props/C13.v, assembled
   from FromDiskProofs.v (walk) and FromDiskExport.v (export). *)
From Coq Require Import List NArith Bool Lia Permutation Arith.
From SWH.lib Require Import Bytes Dec Hex Order StableSort GitHeader ListAux Sha1.
From SWH.model Require Import Dir FromDisk.
From SWH.proofs Require Import DirProofs FromDiskProofs FromDiskExport.
From SWH Require Import Generated.
Import ListNotations.
Open Scope N_scope.

Section Main.
  Variable H : bytes -> bytes.

  (* ------------------------------------------------------------ C06 *)
  Theorem walk_is_git_tree : forall ord limit t m, perm_oracle ord -> wf_fs t = true ->
    from_disk ord FAll limit t = FdOk m -> mt_id H m = node_id H t /\ mt_id H m = git_node_id H t.
  Proof.
    intros ord limit t m PO W FD. pose proof (walk_refines H ord limit t m PO W FD) as E.
    split; [exact E|]. rewrite E. apply node_id_is_git. exact W.
  Qed.

  Theorem walk_paths_git : forall ord limit t m path, perm_oracle ord -> wf_fs t = true ->
    from_disk ord FAll limit t = FdOk m ->
    option_map (mt_id H) (mt_get path m) = option_map (node_id H) (fs_get path t) /\
    option_map (mt_id H) (mt_get path m) = option_map (git_node_id H) (fs_get path t).
  Proof.
    intros ord limit t m path PO W FD. pose proof (walk_refines_paths H ord limit t m path PO W FD) as E.
    split; [exact E|]. rewrite E.
    pose proof (Rep_get limit path t m W) as X.
    assert (R : Rep limit t m) by (rewrite <- (prune_gen_all t); apply (from_disk_Rep ord FAll limit t m PO FD)).
    specialize (X R). destruct (fs_get path t) as [st|]; [|reflexivity].
    destruct (mt_get path m) as [sm|]; [|contradiction]. destruct X as [_ Ws].
    cbn [option_map]. f_equal. apply node_id_is_git. exact Ws.
  Qed.

  Theorem order_free_all : forall ord1 ord2 l1 l2 t m1 m2, perm_oracle ord1 -> perm_oracle ord2 -> wf_fs t = true ->
    from_disk ord1 FAll l1 t = FdOk m1 -> from_disk ord2 FAll l2 t = FdOk m2 ->
    mt_id H m1 = mt_id H m2 /\
    forall path, option_map (mt_id H) (mt_get path m1) = option_map (mt_id H) (mt_get path m2).
  Proof. intros ord1 ord2. apply (listing_order_free H ord1 ord2 FAll). Qed.

  Theorem symlink_never_followed : forall x,
    node_id H (Lnk x) = blob_id H x /\ git_node_id H (Lnk x) = blob_id H x /\
    (forall n, fs_entry H (n, Lnk x) = {| e_name := n; e_type := EFile; e_target := blob_id H x; e_perms := 40960 |}) /\
    (forall limit ci, from_file limit (Lnk x) = FdOk ci -> ci_data ci = x /\ ci_perms ci = 40960 /\ ci_skipped ci = false).
  Proof.
    intro x. repeat split; try reflexivity;
      cbn [from_file] in H0; destruct (too_large limit (lenN x)); try discriminate; inversion H0; reflexivity.
  Qed.

  Theorem special_is_empty_file : forall mo,
    node_id H (Special mo) = blob_id H [] /\ git_node_id H (Special mo) = blob_id H [] /\
    (forall n, fs_entry H (n, Special mo) = fs_entry H (n, Reg [] mo)) /\
    (forall limit, from_file limit (Special mo) = from_file limit (Reg [] mo)).
  Proof. intro mo. repeat split; try reflexivity. intros [[|p]|]; reflexivity. Qed.

  (* with empty directories ignored: the git tree id of the tree without its (recursively) empty directories,
     which is what `git add -A && git write-tree` records *)
  Theorem empty_ignored_is_git : forall ord limit t m, perm_oracle ord -> wf_fs t = true ->
    from_disk ord FEmpty limit t = FdOk m -> mt_id H m = git_node_id H (prune_empty t).
  Proof.
    intros ord limit t m PO W FD. rewrite (from_disk_refines_pruned H ord FEmpty limit t m PO W FD), prune_gen_empty.
    apply node_id_is_git. apply prune_empty_wf. exact W.
  Qed.

  (* ------------------------------------------------------------ C13: filters *)
  Theorem filter_equiv : forall f ord ord' limit limit' t m m', perm_oracle ord -> perm_oracle ord' -> wf_fs t = true ->
    from_disk ord f limit t = FdOk m -> from_disk ord' FAll limit' (prune_gen f t) = FdOk m' ->
    mt_id H m = mt_id H m' /\
    forall path, option_map (mt_id H) (mt_get path m) = option_map (mt_id H) (mt_get path m').
  Proof.
    intros f ord ord' limit limit' t m m' PO PO' W FD FD'. pose proof (prune_gen_wf f t W) as W'. split.
    - rewrite (from_disk_refines_pruned H _ _ _ _ _ PO W FD), (walk_refines H _ _ _ _ PO' W' FD'). reflexivity.
    - intro path. rewrite (from_disk_refines_pruned_paths H _ _ _ _ _ path PO W FD),
        (walk_refines_paths H _ _ _ _ path PO' W' FD'). reflexivity.
  Qed.

  Theorem empty_equiv : forall ord ord' limit limit' t m m', perm_oracle ord -> perm_oracle ord' -> wf_fs t = true ->
    from_disk ord FEmpty limit t = FdOk m -> from_disk ord' FAll limit' (prune_empty t) = FdOk m' ->
    mt_id H m = mt_id H m' /\
    forall path, option_map (mt_id H) (mt_get path m) = option_map (mt_id H) (mt_get path m').
  Proof.
    intros ord ord' limit limit' t m m' PO PO' W FD FD'. rewrite <- prune_gen_empty in FD'.
    apply (filter_equiv FEmpty ord ord' limit limit' t m m' PO PO' W FD FD').
  Qed.

  Theorem named_equiv : forall ns cs0 ord ord' limit limit' t m m', perm_oracle ord -> perm_oracle ord' -> wf_fs t = true ->
    from_disk ord (FNamed ns cs0) limit t = FdOk m -> from_disk ord' FAll limit' (prune_named ns cs0 t) = FdOk m' ->
    mt_id H m = mt_id H m' /\
    forall path, option_map (mt_id H) (mt_get path m) = option_map (mt_id H) (mt_get path m').
  Proof.
    intros ns cs0 ord ord' limit limit' t m m' PO PO' W FD FD'. rewrite <- prune_gen_named in FD'.
    apply (filter_equiv (FNamed ns cs0) ord ord' limit limit' t m m' PO PO' W FD FD').
  Qed.

  (* and directly against the specification *)
  Theorem filtered_ids : forall ord limit t m path, perm_oracle ord -> wf_fs t = true ->
    (forall ns cs0, from_disk ord (FNamed ns cs0) limit t = FdOk m ->
       option_map (mt_id H) (mt_get path m) = option_map (git_node_id H) (fs_get path (prune_named ns cs0 t))) /\
    (from_disk ord FEmpty limit t = FdOk m ->
       option_map (mt_id H) (mt_get path m) = option_map (git_node_id H) (fs_get path (prune_empty t))).
  Proof.
    intros ord limit t m path PO W.
    assert (G : forall f, from_disk ord f limit t = FdOk m ->
              option_map (mt_id H) (mt_get path m) = option_map (git_node_id H) (fs_get path (prune_gen f t))).
    { intros f FD. pose proof (prune_gen_wf f t W) as W'.
      pose proof (Rep_get limit path _ _ W' (from_disk_Rep ord f limit t m PO FD)) as X.
      destruct (fs_get path (prune_gen f t)) as [st|]; destruct (mt_get path m) as [sm|]; try contradiction; [|reflexivity].
      destruct X as [R Ws]. cbn [option_map]. f_equal. rewrite (Rep_id H limit _ _ Ws R). apply node_id_is_git. exact Ws. }
    split.
    - intros ns cs0 FD. rewrite <- prune_gen_named. apply G. exact FD.
    - intro FD. rewrite <- prune_gen_empty. apply G. exact FD.
  Qed.

  (* a limit changes no id *)
  Theorem skip_same_ids : forall ord1 ord2 f l1 l2 t m1 m2, perm_oracle ord1 -> perm_oracle ord2 -> wf_fs t = true ->
    from_disk ord1 f l1 t = FdOk m1 -> from_disk ord2 f l2 t = FdOk m2 ->
    mt_id H m1 = mt_id H m2 /\
    forall path, option_map (mt_id H) (mt_get path m1) = option_map (mt_id H) (mt_get path m2).
  Proof. intros ord1 ord2 f. apply (listing_order_free H ord1 ord2 f). Qed.
End Main.

(* which files are skipped *)
Theorem skipped_iff : forall limit d mo ci, from_file limit (Reg d mo) = FdOk ci ->
  ci_data ci = d /\ (ci_skipped ci = true <-> exists l, limit = Some l /\ l < lenN d).
Proof.
  intros limit d mo ci F. cbn [from_file] in F. inversion F; subst. cbn [ci_data ci_skipped].
  split; [reflexivity | apply too_large_spec].
Qed.

Theorem symlink_limit : forall ord f limit t,
  (from_disk ord f limit t = FdSymlinkTooLarge <->
   exists x, In x (reach_links f t) /\ exists l, limit = Some l /\ l < lenN x) /\
  (forall x, In x (reach_links f t) -> FsSub (Lnk x) t) /\
  (forall x, In x (reach_links FAll t) <-> FsSub (Lnk x) t) /\
  (forall x, from_file limit (Lnk x) = FdSymlinkTooLarge <-> exists l, limit = Some l /\ l < lenN x).
Proof.
  intros ord f limit t. split; [|split; [|split]].
  - rewrite from_disk_fails_iff. unfold some_too_large. split; intros [x [Hin T]]; exists x; (split; [exact Hin|]); apply too_large_spec; exact T.
  - intros x. apply reach_links_sub.
  - intros x. apply reach_links_all.
  - intro x. rewrite from_file_fails. rewrite <- too_large_spec. split.
    + intros [y [E T]]. inversion E; subst. exact T.
    + intro T. exists x. auto.
Qed.

(* ------------------------------------------------------------ what the physical prunings are *)
Lemma prune_empty_is_dir : forall cs, exists l, prune_empty (FDir cs) = FDir l.
Proof. intro cs. rewrite prune_empty_dir. eauto. Qed.

(* no file is lost, no file appears *)
Theorem prune_empty_files : forall t t', is_fdir t' = false -> (FsSub t' (prune_empty t) <-> FsSub t' t).
Proof.
  intros t t' E. split; [rewrite <- prune_gen_empty; intro S; apply (FsSub_prune_file FEmpty t t' S E)|].
  induction t as [d mo|x|mo|cs IH] using fsnode_ind'; intro S; try exact S.
  inversion S as [|? n c ? Hp S']; subst; [discriminate E|].
  rewrite prune_empty_dir. rewrite Forall_forall in IH. specialize (IH _ Hp S'). cbn [snd] in IH.
  assert (K : In (n, prune_empty c) (prune_empty_kid (n, c))).
  { unfold prune_empty_kid. cbn [fst snd]. destruct c as [d mo|x|mo|ccs]; try (left; reflexivity).
    destruct (prune_empty_is_dir ccs) as [l El]. rewrite El in *.
    destruct l as [|q l]; [|left; reflexivity].
    inversion IH as [|? ? ? ? Hin _]; subst; [discriminate E | destruct Hin]. }
  apply (FsSubKid t' n (prune_empty c) _); [|exact IH].
  apply in_flat_map. exists (n, c). split; [exact Hp | exact K].
Qed.

(* no empty directory is left below the root *)
Theorem prune_empty_no_empty : forall t cs n, FsSub (FDir cs) (prune_empty t) -> ~ In (n, FDir []) cs.
Proof.
  induction t as [d mo|x|mo|cs0 IH] using fsnode_ind'; intros cs n S Hin; try (inversion S; fail).
  rewrite prune_empty_dir in S. rewrite Forall_forall in IH.
  assert (K : forall q p, In p cs0 -> In q (prune_empty_kid p) ->
              snd q <> FDir [] /\ (is_fdir (snd q) = true -> snd q = prune_empty (snd p))).
  { intros q [n0 c] Hp Hq. unfold prune_empty_kid in Hq. cbn [fst snd] in Hq. destruct c as [d mo|x|mo|ccs].
    1-3: destruct Hq as [<-|[]]; cbn [snd]; split; [discriminate | intro X; discriminate X].
    destruct (prune_empty_is_dir ccs) as [l El]. rewrite El in Hq. destruct l as [|c1 l]; [destruct Hq|].
    destruct Hq as [<-|[]]. cbn [snd]. split; [discriminate | intros _; symmetry; exact El]. }
  inversion S as [|? n1 c1 ? Hq S']; subst.
  - apply in_flat_map in Hin. destruct Hin as [p [Hp Hq]]. destruct (K _ _ Hp Hq) as [X _]. apply X. reflexivity.
  - apply in_flat_map in Hq. destruct Hq as [p [Hp Hq]]. destruct (K _ _ Hp Hq) as [_ X]. cbn [snd] in X.
    assert (D : is_fdir c1 = true) by (inversion S'; reflexivity).
    rewrite (X D) in S'. apply (IH p Hp cs n S' Hin).
Qed.

(* no directory with an ignored name is left below the root *)
Theorem prune_named_no_named : forall ns cs0 t cs n c, FsSub (FDir cs) (prune_named ns cs0 t) -> In (n, FDir c) cs ->
  filt_dir (FNamed ns cs0) n [] = true.
Proof.
  intros ns cs0. induction t as [d mo|x|mo|cs1 IH] using fsnode_ind'; intros cs n c S Hin; try (inversion S; fail).
  rewrite prune_named_dir in S. rewrite Forall_forall in IH.
  assert (K : forall q p, In p cs1 -> In q (prune_named_kid ns cs0 p) ->
              (is_fdir (snd q) = true -> filt_dir (FNamed ns cs0) (fst q) [] = true /\ snd q = prune_named ns cs0 (snd p))).
  { intros q [n0 c0] Hp Hq. unfold prune_named_kid in Hq. cbn [fst snd] in Hq. destruct c0 as [d mo|x|mo|ccs].
    1-3: destruct Hq as [<-|[]]; cbn [snd]; intro X; discriminate X.
    destruct (filt_dir (FNamed ns cs0) n0 []) eqn:Fd; [|destruct Hq].
    destruct Hq as [<-|[]]. cbn [fst snd]. auto. }
  inversion S as [|? n1 c1 ? Hq S']; subst.
  - apply in_flat_map in Hin. destruct Hin as [p [Hp Hq]]. apply (K _ _ Hp Hq). reflexivity.
  - apply in_flat_map in Hq. destruct Hq as [p [Hp Hq]].
    assert (D : is_fdir c1 = true) by (inversion S'; reflexivity).
    destruct (K _ _ Hp Hq D) as [_ X]. cbn [snd] in X. rewrite X in S'. apply (IH p Hp cs n c S' Hin).
Qed.

(* the name test: exact, or ASCII-only case folding *)
Theorem named_filter_spec : forall ns n,
  (filt_dir (FNamed ns true) n [] = false <-> In n ns) /\
  (filt_dir (FNamed ns false) n [] = false <-> exists n', In n' ns /\ lower n' = lower n) /\
  (forall c, 128 <= c -> lower_byte c = c).
Proof.
  intros ns n. cbn [filt_dir]. rewrite !negb_false_iff, !mem_bytes_In. split; [reflexivity|]. split.
  - rewrite in_map_iff. split; intros [n' X]; exists n'; tauto.
  - intros c L. unfold lower_byte. destruct (N.leb_spec c 90); [lia|]. rewrite andb_false_r. reflexivity.
Qed.

Theorem prune_empty_spec : forall t,
  (forall t', is_fdir t' = false -> (FsSub t' (prune_empty t) <-> FsSub t' t)) /\
  (forall cs n, FsSub (FDir cs) (prune_empty t) -> ~ In (n, FDir []) cs) /\
  (wf_fs t = true -> wf_fs (prune_empty t) = true).
Proof. intro t. exact (conj (prune_empty_files t) (conj (prune_empty_no_empty t) (prune_empty_wf t))). Qed.

Theorem prune_named_spec : forall ns cs0 t,
  (forall cs n c, FsSub (FDir cs) (prune_named ns cs0 t) -> In (n, FDir c) cs -> filt_dir (FNamed ns cs0) n [] = true) /\
  (forall t', is_fdir t' = false -> FsSub t' (prune_named ns cs0 t) -> FsSub t' t) /\
  (wf_fs t = true -> wf_fs (prune_named ns cs0 t) = true) /\
  (forall n, (filt_dir (FNamed ns true) n [] = false <-> In n ns) /\
             (filt_dir (FNamed ns false) n [] = false <-> exists n', In n' ns /\ lower n' = lower n)) /\
  (forall c, 128 <= c -> lower_byte c = c).
Proof.
  intros ns cs0 t. split; [exact (prune_named_no_named ns cs0 t)|]. split.
  - intros t' E S. rewrite <- prune_gen_named in S. exact (FsSub_prune_file _ t t' S E).
  - split; [exact (prune_named_wf ns cs0 t)|]. split.
    + intro n. exact (conj (proj1 (named_filter_spec ns n)) (proj1 (proj2 (named_filter_spec ns n)))).
    + exact (proj2 (proj2 (named_filter_spec ns []))).
Qed.

(* the generic pruning used in the statements about the export is the physical pruning of each filter *)
Theorem prune_gen_instances : forall t,
  prune_gen FAll t = t /\ prune_gen FEmpty t = prune_empty t /\
  forall ns cs0, prune_gen (FNamed ns cs0) t = prune_named ns cs0 t.
Proof. intro t. split; [apply prune_gen_all|]. split; [apply prune_gen_empty|]. intros ns cs0. apply prune_gen_named. Qed.

(* ------------------------------------------------------------ non-vacuity for C13 *)
(* root/  a "hi"; big "biggie"; a.b/{x -> ../a, run*, copy/HEAD "hi"}; e/f/g/ (empty only recursively);
          fifo; .git/HEAD "hi"   - three identical files, two identical sub-trees *)
Definition ex_tree2 : fsnode :=
  FDir [ (bs "a", Reg (bs "hi") 420);
         (bs "big", Reg (bs "biggie") 420);
         (bs "a.b", FDir [ (bs "x", Lnk (bs "../a")); (bs "run", Reg (bs "#!") 493);
                           (bs "copy", FDir [ (bs "HEAD", Reg (bs "hi") 420) ]) ]);
         (bs "e", FDir [ (bs "f", FDir [ (bs "g", FDir []) ]) ]);
         (bs "fifo", Special 420);
         (bs ".git", FDir [ (bs "HEAD", Reg (bs "hi") 420) ]) ].

Definition x_kind (x : exported) : N := match x with XDir _ _ => 0 | XContent _ _ => 1 | XSkipped _ _ => 2 end.

Example ex_tree2_ok :
  wf_fs ex_tree2 = true /\
  (exists m, from_disk rev_ord FEmpty (Some 4) ex_tree2 = FdOk m /\
             map x_kind (export sha1 m) = [0; 0; 1; 1; 0; 1; 1; 2] /\
             mt_get [bs "e"] m = None /\ mt_get [bs "a.b"; bs "copy"] m <> None) /\
  (exists m, from_disk id_ord (FNamed [bs ".GIT"; bs "E"] false) None ex_tree2 = FdOk m /\
             mt_get [bs ".git"] m = None /\ mt_get [bs "e"] m = None /\ mt_get [bs "a.b"; bs "copy"] m <> None) /\
  (exists m, from_disk id_ord (FNamed [bs ".GIT"; bs "E"] true) None ex_tree2 = FdOk m /\ mt_get [bs ".git"] m <> None) /\
  from_disk id_ord FAll (Some 3) ex_tree2 = FdSymlinkTooLarge.
Proof.
  split; [vm_compute; reflexivity|]. split; [|split; [|split]].
  - eexists. split; [vm_compute; reflexivity|]. split; [vm_compute; reflexivity|]. split; [vm_compute; reflexivity | vm_compute; discriminate].
  - eexists. split; [vm_compute; reflexivity|]. split; [vm_compute; reflexivity|]. split; [vm_compute; reflexivity | vm_compute; discriminate].
  - eexists. split; [vm_compute; reflexivity | vm_compute; discriminate].
  - vm_compute. reflexivity.
Qed.
