(* Proofs for C15: ExtID and RawExtrinsicMetadata manifests. *)
From Coq Require Import List NArith ZArith Bool Lia.
From SWH.lib Require Import Bytes Dec Hex GitHeader Headers CutLast.
From SWH.model Require Import Meta.
From SWH Require Import Generated.
Import ListNotations.
Open Scope N_scope.

(* ------------------------------------------------------------------ *)
(* key tables                                                          *)
(* ------------------------------------------------------------------ *)
Definition fixed_keys : list bytes :=
  [bs "target"; bs "discovery_date"; bs "authority"; bs "fetcher"; bs "format"].
(* the attribute names ctx_field knows about (the seven context attributes of the class) *)
Definition ctx_field_names : list bytes :=
  [bs "origin"; bs "visit"; bs "snapshot"; bs "release"; bs "revision"; bs "path"; bs "directory"].
Definition extid_keys : list bytes :=
  [bs "extid_type"; bs "extid_version"; bs "extid"; bs "target"; bs "payload_type"; bs "payload"].

Lemma ctx_keys_wf : forallb wf_key EMD_CONTEXT_KEYS = true.
Proof. vm_compute. reflexivity. Qed.
Lemma ctx_keys_nodup : NoDup EMD_CONTEXT_KEYS.
Proof. apply nodupb_NoDup. vm_compute. reflexivity. Qed.
Lemma ctx_keys_not_fixed : forall k, In k EMD_CONTEXT_KEYS -> ~ In k fixed_keys.
Proof.
  assert (X : forallb (fun k => negb (mem_bytes k fixed_keys)) EMD_CONTEXT_KEYS = true) by (vm_compute; reflexivity).
  rewrite forallb_forall in X. intros k Hk K. apply X in Hk. apply negb_true_iff in Hk.
  apply mem_bytes_In in K. congruence.
Qed.
Lemma ctx_names_in_table : forall k, In k ctx_field_names -> In k EMD_CONTEXT_KEYS.
Proof.
  assert (X : forallb (fun k => mem_bytes k EMD_CONTEXT_KEYS) ctx_field_names = true) by (vm_compute; reflexivity).
  rewrite forallb_forall in X. intros k Hk. apply mem_bytes_In. apply X. exact Hk.
Qed.

Theorem keys_wf :
  (* context key table: pairwise distinct, well-formed header keys, none is one of
     the five fixed header keys, and it names all seven context attributes *)
  NoDup EMD_CONTEXT_KEYS /\ forallb wf_key EMD_CONTEXT_KEYS = true /\
  (forall k, In k EMD_CONTEXT_KEYS -> ~ In k fixed_keys) /\
  (forall k, In k ctx_field_names -> In k EMD_CONTEXT_KEYS) /\
  (* the literal keys of both manifests *)
  NoDup fixed_keys /\ forallb wf_key fixed_keys = true /\
  NoDup extid_keys /\ forallb wf_key extid_keys = true /\
  (* the two git-like object types exist in the source's table and contain no space;
     the SWHID type words are those of the source's tables *)
  mem_bytes (bs "extid") GIT_OBJECT_TYPES = true /\
  mem_bytes (bs "raw_extrinsic_metadata") GIT_OBJECT_TYPES = true /\
  map cty_word all_cty = SWHID_TYPES /\ map ety_word all_ety = EXTENDED_SWHID_TYPES.
Proof.
  split; [exact ctx_keys_nodup|]. split; [exact ctx_keys_wf|]. split; [exact ctx_keys_not_fixed|].
  split; [exact ctx_names_in_table|].
  split; [apply nodupb_NoDup; vm_compute; reflexivity|]. split; [vm_compute; reflexivity|].
  split; [apply nodupb_NoDup; vm_compute; reflexivity|]. repeat split; vm_compute; reflexivity.
Qed.

Lemma extid_no_sp : ~ In SP (bs "extid").
Proof. apply memb_false. vm_compute. reflexivity. Qed.
Lemma rem_no_sp : ~ In SP (bs "raw_extrinsic_metadata").
Proof. apply memb_false. vm_compute. reflexivity. Qed.

Lemma extid_headers_wf : forall e, forallb (fun h => wf_key (fst h)) (extid_headers e) = true.
Proof.
  intro e. unfold extid_headers.
  destruct (Z.eqb (x_version e) 0), (x_payload_type e), (x_payload e); vm_compute; reflexivity.
Qed.

Lemma emd_headers_wf : forall m, forallb (fun h => wf_key (fst h)) (emd_headers m) = true.
Proof.
  intro m. unfold emd_headers. rewrite forallb_app. apply andb_true_iff. split.
  - vm_compute. reflexivity.
  - apply opt_lines_wf. exact ctx_keys_wf.
Qed.

(* ------------------------------------------------------------------ *)
(* SWHID text                                                          *)
(* ------------------------------------------------------------------ *)
Lemma print_swhid_eq : forall w id, print_swhid w id = bs "swh:1:" ++ w ++ COLON :: hexlify id.
Proof. intros. reflexivity. Qed.

Lemma ety_word_no_colon : forall t, ~ In COLON (ety_word t).
Proof. intros [[]| |]; apply memb_false; vm_compute; reflexivity. Qed.
Lemma ety_of_word_ok : forall t, ety_of_word (ety_word t) = Some t.
Proof. intros [[]| |]; vm_compute; reflexivity. Qed.

Theorem parse_ext_print : forall s, wf_bytes (es_id s) = true -> parse_ext (print_ext s) = Some s.
Proof.
  intros [t id] W. cbn [es_id] in W. unfold parse_ext, print_ext. cbn [es_ty es_id].
  rewrite print_swhid_eq, strip_prefix_app, cut_app by apply ety_word_no_colon.
  rewrite ety_of_word_ok, unhex_hexlify by exact W. reflexivity.
Qed.

Theorem parse_core_print : forall s, wf_bytes (cs_id s) = true -> parse_core (print_core s) = Some s.
Proof.
  intros [t id] W. cbn [cs_id] in W. unfold parse_core.
  change (print_core {| cs_ty := t; cs_id := id |}) with (print_ext {| es_ty := ECore t; es_id := id |}).
  rewrite parse_ext_print by exact W. reflexivity.
Qed.

Lemma print_ext_inj : forall a b, wf_bytes (es_id a) = true -> wf_bytes (es_id b) = true ->
  print_ext a = print_ext b -> a = b.
Proof.
  intros a b Wa Wb E. assert (X : parse_ext (print_ext a) = parse_ext (print_ext b)) by (rewrite E; reflexivity).
  rewrite !parse_ext_print in X by assumption. congruence.
Qed.
Lemma print_core_inj : forall a b, wf_bytes (cs_id a) = true -> wf_bytes (cs_id b) = true ->
  print_core a = print_core b -> a = b.
Proof.
  intros a b Wa Wb E. assert (X : parse_core (print_core a) = parse_core (print_core b)) by (rewrite E; reflexivity).
  rewrite !parse_core_print in X by assumption. congruence.
Qed.

(* the printed text never needs escaping (it has no newline) - not needed by the
   decoding theorems (escape_newlines handles every value), recorded for the reader *)
Lemma print_ext_no_lf : forall s, wf_bytes (es_id s) = true -> ~ In LF (print_ext s).
Proof.
  intros [t id] W. cbn [es_id] in W. unfold print_ext. cbn [es_ty es_id]. rewrite print_swhid_eq.
  rewrite !in_app_iff. intros [K|[K|K]].
  - apply memb_In in K. vm_compute in K. discriminate.
  - destruct t as [[]| |]; apply memb_In in K; vm_compute in K; discriminate.
  - destruct K as [K|K]; [discriminate|].
    revert K. apply lower_hex_not_In; [reflexivity | apply hexlify_lower; exact W].
Qed.

(* ------------------------------------------------------------------ *)
(* ExtID                                                               *)
(* ------------------------------------------------------------------ *)
Definition extid_expected (e : extid) : extid_fields :=
  {| xf_type := x_type e; xf_version := x_version e; xf_extid := x_extid e;
     xf_target := print_core (x_target e);
     xf_payload_type := x_payload_type e; xf_payload := x_payload e |}.

Lemma extid_git_object_ok_inv : forall e m, extid_git_object e = Ok m ->
  m = from_headers (bs "extid") (extid_headers e) None.
Proof.
  intros e m. unfold extid_git_object.
  destruct (is_ascii_bytes (x_type e) && _); intro E; inversion E. reflexivity.
Qed.

Theorem parse_extid_ok : forall e m, extid_valid e = true -> extid_git_object e = Ok m ->
  parse_extid m = Some (extid_expected e).
Proof.
  intros e m V E. apply extid_git_object_ok_inv in E. subst m.
  unfold parse_extid. rewrite parse_object_ok; [|exact extid_no_sp | apply extid_headers_wf].
  unfold extid_headers, extid_expected. unfold extid_valid in V.
  destruct (Z.eqb_spec (x_version e) 0) as [Ev|Ev].
  - rewrite Ev. cbn [app]. rewrite ?beqb_refl. cbn [andb].
    change (beqb (bs "extid") (bs "extid_version")) with false. cbv iota beta.
    rewrite ?beqb_refl. cbn [andb].
    destruct (x_payload_type e) as [pt|], (x_payload e) as [p|]; try discriminate; cbn [app];
      [rewrite ?beqb_refl; cbn [andb]|]; reflexivity.
  - cbn [app]. rewrite ?beqb_refl. cbn [andb]. rewrite parse_dec_Z_dec_Z.
    destruct (x_version e) as [|v|v] eqn:Ex; [congruence| |];
      rewrite ?beqb_refl; cbn [andb];
      destruct (x_payload_type e) as [pt|], (x_payload e) as [p|]; try discriminate; cbn [app];
      try (rewrite ?beqb_refl; cbn [andb]); reflexivity.
Qed.

(* which lines are present *)
Definition extid_key_list (e : extid) : list bytes :=
  [bs "extid_type"]
  ++ (if Z.eqb (x_version e) 0 then [] else [bs "extid_version"])
  ++ [bs "extid"; bs "target"]
  ++ (if issome (x_payload_type e) then [bs "payload_type"] else [])
  ++ (if issome (x_payload e) then [bs "payload"] else []).

Lemma extid_keys_eq : forall e, map fst (extid_headers e) = extid_key_list e.
Proof.
  intro e. unfold extid_headers, extid_key_list.
  destruct (Z.eqb (x_version e) 0), (x_payload_type e), (x_payload e); reflexivity.
Qed.

Ltac eval_mem :=
  repeat match goal with
         | |- context [mem_bytes ?k ?l] =>
             let b := eval vm_compute in (mem_bytes k l) in change (mem_bytes k l) with b
         end.

Theorem extid_optional_lines_exact : forall e,
  let ks := map fst (extid_headers e) in
  ks = extid_key_list e /\
  (In (bs "extid_version") ks <-> x_version e <> 0%Z) /\
  (In (bs "payload_type") ks <-> x_payload_type e <> None) /\
  (In (bs "payload") ks <-> x_payload e <> None) /\
  (extid_valid e = true -> (In (bs "payload_type") ks <-> In (bs "payload") ks)).
Proof.
  intro e. cbv zeta. rewrite extid_keys_eq. split; [reflexivity|].
  assert (MB : forall k l, In k l <-> mem_bytes k l = true) by (intros; symmetry; apply mem_bytes_In).
  rewrite !MB. clear MB. unfold extid_key_list, extid_valid.
  destruct (Z.eqb_spec (x_version e) 0) as [Ev|Ev];
    destruct (x_payload_type e) as [pt|], (x_payload e) as [p|]; cbn [issome]; eval_mem;
    (split; [|split; [|split]]); try (intro V; try discriminate V);
    split; intro; solve [congruence | reflexivity].
Qed.

Theorem extid_manifest_injective : forall e e' m,
  extid_valid e = true -> extid_valid e' = true ->
  wf_bytes (cs_id (x_target e)) = true -> wf_bytes (cs_id (x_target e')) = true ->
  extid_git_object e = Ok m -> extid_git_object e' = Ok m -> e = e'.
Proof.
  intros e e' m V V' W W' E E'.
  pose proof (parse_extid_ok e m V E) as P. pose proof (parse_extid_ok e' m V' E') as P'.
  rewrite P in P'. assert (Q : extid_expected e = extid_expected e') by congruence. clear P P'.
  pose proof (f_equal xf_type Q) as X1. pose proof (f_equal xf_version Q) as X2.
  pose proof (f_equal xf_extid Q) as X3. pose proof (f_equal xf_target Q) as X4.
  pose proof (f_equal xf_payload_type Q) as X5. pose proof (f_equal xf_payload Q) as X6. clear Q.
  cbn [extid_expected xf_type xf_version xf_extid xf_target xf_payload_type xf_payload] in *.
  apply print_core_inj in X4; [|assumption|assumption].
  destruct e as [a1 a2 a3 a4 a5 a6], e' as [b1 b2 b3 b4 b5 b6].
  cbn [x_type x_extid x_target x_version x_payload_type x_payload] in *. congruence.
Qed.

Theorem extid_non_ascii_rejected : forall e,
  is_ascii_bytes (x_type e) = false -> extid_git_object e = Err ValueError.
Proof. intros e H. unfold extid_git_object. rewrite H. reflexivity. Qed.

Theorem extid_presence : forall e,
  extid_valid e = true <-> (x_payload_type e <> None <-> x_payload e <> None).
Proof.
  intro e. unfold extid_valid. destruct (x_payload_type e), (x_payload e); split; intro H;
    try reflexivity; try discriminate; try (split; intro; congruence).
  - exfalso. destruct H as [H _]. apply H; [discriminate | reflexivity].
  - exfalso. destruct H as [_ H]. apply H; [discriminate | reflexivity].
Qed.

(* ------------------------------------------------------------------ *)
(* RawExtrinsicMetadata                                                *)
(* ------------------------------------------------------------------ *)
Lemma auth_word_no_sp : forall t, ~ In SP (auth_word t).
Proof. intros []; apply memb_false; vm_compute; reflexivity. Qed.
Lemma auth_of_word_ok : forall t, auth_of_word (auth_word t) = Some t.
Proof. intros []; vm_compute; reflexivity. Qed.
Lemma auth_word_inj : forall a b, auth_word a = auth_word b -> a = b.
Proof. intros [] []; intro H; try reflexivity; vm_compute in H; discriminate. Qed.

Definition emd_expected (m : emd) : emd_fields :=
  {| ef_target := print_ext (m_target m); ef_second := emd_second m;
     ef_auth_type := au_type (m_authority m); ef_auth_url := au_url (m_authority m);
     ef_fetcher_name := fe_name (m_fetcher m); ef_fetcher_version := fe_version (m_fetcher m);
     ef_format := m_format m; ef_context := emd_context m; ef_metadata := m_metadata m |}.

Theorem parse_emd_ok : forall m, ~ In SP (fe_version (m_fetcher m)) ->
  parse_emd (emd_git_object m) = Some (emd_expected m).
Proof.
  intros m Hv. unfold parse_emd, emd_git_object.
  rewrite parse_object_ok; [|exact rem_no_sp | apply emd_headers_wf].
  unfold emd_headers, emd_fixed_headers. cbn [app]. rewrite !beqb_refl. cbn [andb].
  unfold emd_context. rewrite opt_lines_subseq.
  rewrite parse_dec_Z_dec_Z, cut_app by apply auth_word_no_sp.
  rewrite cut_last_app by exact Hv. rewrite auth_of_word_ok. reflexivity.
Qed.

(* ctx_field read back on the seven attribute names *)
Lemma ctx_field_spec : forall m,
  ctx_field m (bs "origin") = m_origin m /\
  ctx_field m (bs "visit") = option_map dec_Z (m_visit m) /\
  ctx_field m (bs "snapshot") = option_map print_core (m_snapshot m) /\
  ctx_field m (bs "release") = option_map print_core (m_release m) /\
  ctx_field m (bs "revision") = option_map print_core (m_revision m) /\
  ctx_field m (bs "path") = m_path m /\
  ctx_field m (bs "directory") = option_map print_core (m_directory m).
Proof. intro m. repeat split; reflexivity. Qed.

Definition emd_key_list (m : emd) : list bytes :=
  fixed_keys ++ filter (fun k => issome (ctx_field m k)) EMD_CONTEXT_KEYS.

Lemma emd_keys_eq : forall m, map fst (emd_headers m) = emd_key_list m.
Proof.
  intro m. unfold emd_headers, emd_key_list. rewrite map_app. f_equal.
  unfold emd_context. apply opt_lines_keys.
Qed.

(* a context line is present iff the field is set; lines come in table order *)
Theorem emd_optional_lines_exact : forall m,
  map fst (emd_headers m) = fixed_keys ++ filter (fun k => issome (ctx_field m k)) EMD_CONTEXT_KEYS /\
  (forall k, In k EMD_CONTEXT_KEYS -> (In k (map fst (emd_headers m)) <-> ctx_field m k <> None)) /\
  (forall k v, In k EMD_CONTEXT_KEYS -> (In (k, v) (emd_headers m) <-> ctx_field m k = Some v)).
Proof.
  intro m. split; [apply emd_keys_eq|]. split.
  - intros k Hk. unfold emd_headers. rewrite map_app, in_app_iff. unfold emd_context.
    rewrite opt_lines_present. split.
    + intros [K|[_ K]]; [|exact K]. exfalso. exact (ctx_keys_not_fixed k Hk K).
    + intro K. right. split; assumption.
  - intros k v Hk. unfold emd_headers. rewrite in_app_iff. unfold emd_context. rewrite opt_lines_In. split.
    + intros [K|[_ K]]; [|exact K]. exfalso. apply (ctx_keys_not_fixed k Hk).
      apply (in_map fst) in K. exact K.
    + intro K. right. split; assumption.
Qed.

(* the same, spelled out per attribute *)
Theorem emd_lines_per_field : forall m,
  let ks := map fst (emd_headers m) in
  (In (bs "origin") ks <-> m_origin m <> None) /\
  (In (bs "visit") ks <-> m_visit m <> None) /\
  (In (bs "snapshot") ks <-> m_snapshot m <> None) /\
  (In (bs "release") ks <-> m_release m <> None) /\
  (In (bs "revision") ks <-> m_revision m <> None) /\
  (In (bs "path") ks <-> m_path m <> None) /\
  (In (bs "directory") ks <-> m_directory m <> None).
Proof.
  intro m. cbv zeta. destruct (emd_optional_lines_exact m) as [_ [X _]].
  assert (T : forall k, In k ctx_field_names -> In k EMD_CONTEXT_KEYS) by exact ctx_names_in_table.
  assert (O : forall A B (f : A -> B) (o : option A), option_map f o <> None <-> o <> None).
  { intros A B f [a|]; cbn; split; intro H; congruence. }
  repeat split.
  all: try (intro K; apply X in K; [| apply T; cbn; tauto]).
  all: try (intro K; apply X; [apply T; cbn; tauto|]).
  all: first [ exact K | apply (O _ _ _ _) in K; exact K | apply (O _ _ dec_Z); exact K
             | apply (O _ _ print_core); exact K | idtac ].
Qed.

(* context fields are recoverable from the recovered association list *)
Lemma emd_context_assoc : forall m k, In k EMD_CONTEXT_KEYS -> assoc k (emd_context m) = ctx_field m k.
Proof. intros m k Hk. unfold emd_context. apply opt_lines_assoc; [exact ctx_keys_nodup | exact Hk]. Qed.

Definition cs_wf (o : option cswhid) : Prop := match o with Some s => wf_bytes (cs_id s) = true | None => True end.
Definition swhids_wf (m : emd) : Prop :=
  wf_bytes (es_id (m_target m)) = true /\ cs_wf (m_snapshot m) /\ cs_wf (m_release m) /\
  cs_wf (m_revision m) /\ cs_wf (m_directory m).
Definition date_normalised (d : datetime) : Prop := dt_off d = 0%Z /\ (dt_us d mod 1000000 = 0)%Z.

Lemma option_map_print_core_inj : forall a b, cs_wf a -> cs_wf b ->
  option_map print_core a = option_map print_core b -> a = b.
Proof.
  intros [a|] [b|] Wa Wb E; cbn [option_map cs_wf] in *; try congruence.
  assert (E' : print_core a = print_core b) by congruence.
  f_equal. apply print_core_inj; assumption.
Qed.
Lemma option_map_dec_Z_inj : forall a b, option_map dec_Z a = option_map dec_Z b -> a = b.
Proof. intros [a|] [b|] E; cbn [option_map] in *; try congruence.
  assert (E' : dec_Z a = dec_Z b) by congruence. f_equal. apply dec_Z_inj. exact E'. Qed.

Theorem emd_manifest_injective : forall m m',
  ~ In SP (fe_version (m_fetcher m)) -> ~ In SP (fe_version (m_fetcher m')) ->
  swhids_wf m -> swhids_wf m' ->
  date_normalised (m_date m) -> date_normalised (m_date m') ->
  emd_git_object m = emd_git_object m' -> m = m'.
Proof.
  intros m m' Hv Hv' W W' D D' E.
  pose proof (parse_emd_ok m Hv) as P. pose proof (parse_emd_ok m' Hv') as P'.
  rewrite E in P. rewrite P' in P. assert (Q : emd_expected m' = emd_expected m) by congruence. clear P P' E.
  pose proof (f_equal ef_target Q) as X1. pose proof (f_equal ef_second Q) as X2.
  pose proof (f_equal ef_auth_type Q) as X3. pose proof (f_equal ef_auth_url Q) as X4.
  pose proof (f_equal ef_fetcher_name Q) as X5. pose proof (f_equal ef_fetcher_version Q) as X6.
  pose proof (f_equal ef_format Q) as X7. pose proof (f_equal ef_context Q) as X8.
  pose proof (f_equal ef_metadata Q) as X9. clear Q.
  cbn [emd_expected ef_target ef_second ef_auth_type ef_auth_url ef_fetcher_name ef_fetcher_version ef_format
       ef_context ef_metadata] in *.
  destruct W as [W0 [W1 [W2 [W3 W4]]]]. destruct W' as [W0' [W1' [W2' [W3' W4']]]].
  apply print_ext_inj in X1; [|assumption|assumption].
  assert (F : forall k, In k ctx_field_names -> ctx_field m' k = ctx_field m k).
  { intros k Hk. apply ctx_names_in_table in Hk. rewrite <- !emd_context_assoc by exact Hk. rewrite X8. reflexivity. }
  destruct (ctx_field_spec m) as [S1 [S2 [S3 [S4 [S5 [S6 S7]]]]]].
  destruct (ctx_field_spec m') as [S1' [S2' [S3' [S4' [S5' [S6' S7']]]]]].
  assert (F1 := F (bs "origin")). assert (F2 := F (bs "visit")). assert (F3 := F (bs "snapshot")).
  assert (F4 := F (bs "release")). assert (F5 := F (bs "revision")). assert (F6 := F (bs "path")).
  assert (F7 := F (bs "directory")). clear F.
  rewrite S1, S1' in F1. rewrite S2, S2' in F2. rewrite S3, S3' in F3. rewrite S4, S4' in F4.
  rewrite S5, S5' in F5. rewrite S6, S6' in F6. rewrite S7, S7' in F7.
  clear S1 S2 S3 S4 S5 S6 S7 S1' S2' S3' S4' S5' S6' S7'.
  specialize (F1 ltac:(cbn; tauto)). specialize (F2 ltac:(cbn; tauto)). specialize (F3 ltac:(cbn; tauto)).
  specialize (F4 ltac:(cbn; tauto)). specialize (F5 ltac:(cbn; tauto)). specialize (F6 ltac:(cbn; tauto)).
  specialize (F7 ltac:(cbn; tauto)).
  apply option_map_dec_Z_inj in F2.
  apply option_map_print_core_inj in F3; [|assumption|assumption].
  apply option_map_print_core_inj in F4; [|assumption|assumption].
  apply option_map_print_core_inj in F5; [|assumption|assumption].
  apply option_map_print_core_inj in F7; [|assumption|assumption].
  unfold emd_second in X2. destruct D as [D1 D2], D' as [D1' D2'].
  assert (Dus : dt_us (m_date m) = dt_us (m_date m')).
  { pose proof (Z.div_mod (dt_us (m_date m)) 1000000 ltac:(lia)) as Q.
    pose proof (Z.div_mod (dt_us (m_date m')) 1000000 ltac:(lia)) as Q'. lia. }
  destruct m as [t d [at_ url] [nm ver] fmt md o v s1 s2 s3 p s4].
  destruct m' as [t' d' [at_' url'] [nm' ver'] fmt' md' o' v' s1' s2' s3' p' s4'].
  destruct d as [us off], d' as [us' off']. cbn in *. subst. reflexivity.
Qed.

(* without the hypothesis on fetcher.version the fetcher line is ambiguous: the
   restriction in the property ("space-free ... fetcher versions") is necessary *)
Definition ex_emd (nm ver : bytes) : emd :=
  {| m_target := {| es_ty := EOri; es_id := repeat 7 20 |}; m_date := {| dt_us := 0%Z; dt_off := 0%Z |};
     m_authority := {| au_type := Forge; au_url := bs "https://example.org" |};
     m_fetcher := {| fe_name := nm; fe_version := ver |};
     m_format := bs "json"; m_metadata := bs "{}"; m_origin := None; m_visit := None; m_snapshot := None;
     m_release := None; m_revision := None; m_path := None; m_directory := None |}.
Example fetcher_version_space_ambiguous :
  ex_emd (bs "a b") (bs "c") <> ex_emd (bs "a") (bs "b c") /\
  emd_git_object (ex_emd (bs "a b") (bs "c")) = emd_git_object (ex_emd (bs "a") (bs "b c")).
Proof. split; [intro H; inversion H | vm_compute; reflexivity]. Qed.

(* ------------------------------------------------------------------ *)
(* discovery date                                                      *)
(* ------------------------------------------------------------------ *)
Lemma normalize_second : forall x, ((x - x mod 1000000) / 1000000 = x / 1000000)%Z.
Proof.
  intro x. pose proof (Z.div_mod x 1000000 ltac:(lia)) as Q.
  replace (x - x mod 1000000)%Z with ((x / 1000000) * 1000000)%Z by lia.
  apply Z.div_mul. lia.
Qed.

Lemma normalize_date_second : forall d d', (dt_us d / 1000000 = dt_us d' / 1000000)%Z ->
  normalize_date d = normalize_date d'.
Proof.
  intros d d' E. unfold normalize_date. f_equal.
  pose proof (Z.div_mod (dt_us d) 1000000 ltac:(lia)) as Q.
  pose proof (Z.div_mod (dt_us d') 1000000 ltac:(lia)) as Q'. lia.
Qed.

Lemma normalize_date_normalised : forall d, date_normalised (normalize_date d).
Proof.
  intro d. unfold date_normalised, normalize_date. cbn [dt_off dt_us]. split; [reflexivity|].
  pose proof (Z.div_mod (dt_us d) 1000000 ltac:(lia)) as Q.
  replace (dt_us d - dt_us d mod 1000000)%Z with ((dt_us d / 1000000) * 1000000)%Z by lia.
  apply Z.mod_mul. lia.
Qed.

Lemma normalize_date_idem : forall d, normalize_date (normalize_date d) = normalize_date d.
Proof.
  intro d. apply normalize_date_second. unfold normalize_date. cbn [dt_us]. apply normalize_second.
Qed.

Lemma mk_emd_inv : forall m a, mk_emd m = Ok a ->
  a = set_date m (normalize_date (m_date m)) /\ emd_valid a = true.
Proof.
  intros m a. unfold mk_emd. cbv zeta.
  destruct (emd_valid (set_date m (normalize_date (m_date m)))) eqn:V; intro E; inversion E; subst.
  split; [reflexivity | exact V].
Qed.

Lemma mk_emd_normalised : forall m a, mk_emd m = Ok a -> date_normalised (m_date a).
Proof. intros m a E. apply mk_emd_inv in E. destruct E as [-> _]. cbn [set_date m_date]. apply normalize_date_normalised. Qed.

(* the manifest written for an object equals the one of its normalised form:
   only floor(epoch_us / 10^6) is read *)
Lemma emd_git_object_normalize : forall m,
  emd_git_object (set_date m (normalize_date (m_date m))) = emd_git_object m.
Proof.
  intro m. unfold emd_git_object, emd_headers, emd_fixed_headers, emd_context, emd_second.
  cbn [set_date m_target m_date m_authority m_fetcher m_format m_metadata normalize_date dt_us].
  rewrite normalize_second. reflexivity.
Qed.

Lemma second_differs_manifest_differs : forall m m',
  emd_second m <> emd_second m' -> emd_git_object m <> emd_git_object m'.
Proof.
  intros m m' Hd E. unfold emd_git_object in E.
  apply from_headers_inj in E; [|exact rem_no_sp | apply emd_headers_wf | apply emd_headers_wf].
  destruct E as [E _]. unfold emd_headers, emd_fixed_headers in E. cbn [app] in E.
  pose proof (f_equal (fun l => snd (nth 1 l ([], []))) E) as X. cbn [nth snd] in X.
  apply dec_Z_inj in X. exact (Hd X).
Qed.

Theorem date_second_only : forall (H : bytes -> bytes) m d1 d2,
  ((dt_us d1 / 1000000 = dt_us d2 / 1000000)%Z ->
     mk_emd (set_date m d1) = mk_emd (set_date m d2) /\
     emd_git_object (set_date m d1) = emd_git_object (set_date m d2) /\
     emd_id H (set_date m d1) = emd_id H (set_date m d2)) /\
  ((dt_us d1 / 1000000 <> dt_us d2 / 1000000)%Z ->
     emd_git_object (set_date m d1) <> emd_git_object (set_date m d2) /\
     forall a b, mk_emd (set_date m d1) = Ok a -> mk_emd (set_date m d2) = Ok b ->
                 emd_git_object a <> emd_git_object b).
Proof.
  intros H m d1 d2. split; intro E.
  - assert (N : normalize_date d1 = normalize_date d2) by (apply normalize_date_second; exact E).
    assert (G : emd_git_object (set_date m d1) = emd_git_object (set_date m d2)).
    { rewrite <- (emd_git_object_normalize (set_date m d1)), <- (emd_git_object_normalize (set_date m d2)).
      cbn [set_date m_date]. rewrite N. reflexivity. }
    split; [|split; [exact G | unfold emd_id; rewrite G; reflexivity]].
    unfold mk_emd. cbn [set_date m_date]. rewrite N. reflexivity.
  - split.
    + apply second_differs_manifest_differs. unfold emd_second. cbn [set_date m_date]. exact E.
    + intros a b Ea Eb. apply mk_emd_inv in Ea, Eb. destruct Ea as [-> _], Eb as [-> _].
      rewrite !emd_git_object_normalize.
      apply second_differs_manifest_differs. unfold emd_second. cbn [set_date m_date]. exact E.
Qed.

(* the offset never matters, not even for raw (un-normalised) records *)
Theorem date_offset_irrelevant : forall m us off off',
  mk_emd (set_date m {| dt_us := us; dt_off := off |}) = mk_emd (set_date m {| dt_us := us; dt_off := off' |}).
Proof.
  intros. destruct (date_second_only (fun x => x) m {| dt_us := us; dt_off := off |} {| dt_us := us; dt_off := off' |}) as [X _].
  apply X. reflexivity.
Qed.

(* ------------------------------------------------------------------ *)
(* int fields given as bool (fixed finding c60369d)                    *)
(* ------------------------------------------------------------------ *)
(* on plain ints the old printing (str) is the present one ("%d") *)
Lemma extid_manifest_old_plain : forall e, is_ascii_bytes (x_type e) = true ->
  match x_payload_type e with Some t => is_ascii_bytes t | None => true end = true ->
  extid_git_object e = Ok (extid_manifest_old e (IPlain (x_version e))).
Proof. intros e A B. unfold extid_git_object. rewrite A, B. reflexivity. Qed.

(* ... but True and 1 - one integer, equal objects - got two manifests, and no reader of the documented
   format reads the first as an ExtID *)
Definition ex_extid_v1 : extid :=
  {| x_type := bs "t"; x_extid := bs "x"; x_target := {| cs_ty := CRev; cs_id := repeat 1 20 |};
     x_version := 1%Z; x_payload_type := None; x_payload := None |}.
Theorem bool_version_refuted_old :
  int_value (IBool true) = x_version ex_extid_v1 /\ int_value (IPlain 1) = x_version ex_extid_v1 /\
  extid_manifest_old ex_extid_v1 (IBool true) <> extid_manifest_old ex_extid_v1 (IPlain 1) /\
  parse_extid (extid_manifest_old ex_extid_v1 (IBool true)) = None /\
  extid_git_object ex_extid_v1 = Ok (extid_manifest_old ex_extid_v1 (IPlain 1)).
Proof.
  split; [reflexivity|]. split; [reflexivity|]. split; [|split; vm_compute; reflexivity].
  intro H. vm_compute in H. discriminate H.
Qed.

(* ------------------------------------------------------------------ *)
(* datetimes without a UTC offset                                      *)
(* ------------------------------------------------------------------ *)
(* naive datetimes - tzinfo None, or a tzinfo that gives no offset - are rejected; nothing else changes *)
Theorem naive_rejected : forall m w,
  mk_emd_in m (DNaive w) = Err ValueError /\ mk_emd_in m (DOffsetless w) = Err ValueError /\
  forall d, mk_emd_in m (DAware d) = mk_emd (set_date m d).
Proof. intros. repeat split. Qed.

(* before 106558f the offset-less case was accepted and the id was a function of the machine's local zone:
   the same call, on a machine in UTC and on one at +09:00 (Asia/Tokyo), gives two manifests *)
Definition local_utc (w : Z) : Z := 0%Z.
Definition local_tokyo (w : Z) : Z := 32400000000%Z.
Theorem offsetless_refuted_old : exists m w a b,
  mk_emd_in_old local_utc m (DOffsetless w) = Ok a /\
  mk_emd_in_old local_tokyo m (DOffsetless w) = Ok b /\
  emd_git_object a <> emd_git_object b /\
  (forall H : bytes -> bytes, emd_id H a = H (emd_git_object a) /\ emd_id H b = H (emd_git_object b)).
Proof.
  exists (ex_emd (bs "swh") (bs "1.0")), 1611574071000000%Z. eexists. eexists.
  split; [vm_compute; reflexivity|]. split; [vm_compute; reflexivity|]. split; [|intro H; split; reflexivity].
  apply second_differs_manifest_differs. vm_compute. discriminate.
Qed.

(* the old constructor agreed with the present one on every other input, and - for the offset-less carrier - with
   the present behaviour of the aware datetime "wall clock w at the machine's offset" *)
Theorem old_differs_only_offsetless : forall local m d,
  (forall w, d <> DOffsetless w) -> mk_emd_in_old local m d = mk_emd_in m d.
Proof. intros local m [d|w|w] H; try reflexivity. exfalso. exact (H w eq_refl). Qed.

(* ------------------------------------------------------------------ *)
(* the admissible context fields per target kind (readable form of emd_valid) *)
(* ------------------------------------------------------------------ *)
Definition admissible (t : ety) : list bytes :=
  match t with
  | EOri | EEmd => []
  | ECore CSnp => [bs "origin"; bs "visit"]
  | ECore CRel => [bs "origin"; bs "visit"; bs "snapshot"]
  | ECore CRev => [bs "origin"; bs "visit"; bs "snapshot"; bs "release"]
  | ECore CDir => [bs "origin"; bs "visit"; bs "snapshot"; bs "release"; bs "revision"; bs "path"]
  | ECore CCnt => [bs "origin"; bs "visit"; bs "snapshot"; bs "release"; bs "revision"; bs "path"; bs "directory"]
  end.

Definition ctx_set (m : emd) : list bytes :=
  (if issome (m_origin m) then [bs "origin"] else []) ++ (if issome (m_visit m) then [bs "visit"] else [])
  ++ (if issome (m_snapshot m) then [bs "snapshot"] else []) ++ (if issome (m_release m) then [bs "release"] else [])
  ++ (if issome (m_revision m) then [bs "revision"] else []) ++ (if issome (m_path m) then [bs "path"] else [])
  ++ (if issome (m_directory m) then [bs "directory"] else []).

Definition cs_has_ty (o : option cswhid) (t : cty) : Prop := match o with Some s => cs_ty s = t | None => True end.

Theorem emd_valid_spec : forall m,
  emd_valid m = true <->
  ( (forall k, In k (ctx_set m) -> In k (admissible (es_ty (m_target m)))) /\
    (forall o, m_origin m = Some o -> starts_with (bs "swh:") o = false) /\
    (forall v, m_visit m = Some v -> (0 < v)%Z /\ m_origin m <> None) /\
    cs_has_ty (m_snapshot m) CSnp /\ cs_has_ty (m_release m) CRel /\
    cs_has_ty (m_revision m) CRev /\ cs_has_ty (m_directory m) CDir ).
Proof.
  intro m. unfold emd_valid, check_origin, check_visit, check_swhid_ctx, check_path, ctx_set.
  assert (MB : forall k l, In k l <-> mem_bytes k l = true) by (intros; symmetry; apply mem_bytes_In).
  destruct m as [[t id] d au fe fmt md o v s1 s2 s3 p s4]. cbn [m_target m_origin m_visit m_snapshot m_release m_revision m_path m_directory es_ty].
  split.
  - intro V. repeat (apply andb_true_iff in V; destruct V as [V ?]).
    repeat split.
    + intros k Hk. apply MB. apply MB in Hk.
      destruct o, v, s1 as [[c1 ?]|], s2 as [[c2 ?]|], s3 as [[c3 ?]|], p, s4 as [[c4 ?]|], t as [[]| |];
        cbn [issome app] in *; try discriminate;
        cbn in Hk; repeat (apply orb_true_iff in Hk; destruct Hk as [Hk|Hk]); try discriminate;
        apply beqb_eq in Hk; subst k; vm_compute; reflexivity.
    + intros o' Eo. inversion Eo; subst. apply andb_true_iff in V. destruct V as [_ V].
      apply negb_true_iff in V. exact V.
    + destruct v as [z|]; inversion H5; subst. apply andb_true_iff in H4. destruct H4 as [_ Q]. lia.
    + destruct v as [z|]; inversion H5; subst. apply andb_true_iff in H4. destruct H4 as [Q _].
      apply andb_true_iff in Q. destruct Q as [_ Q]. destruct o; [discriminate | discriminate Q].
    + destruct s1 as [[c ?]|]; cbn; [|exact I]. apply andb_true_iff in H3. destruct H3 as [_ Q]. destruct c; try discriminate; reflexivity.
    + destruct s2 as [[c ?]|]; cbn; [|exact I]. apply andb_true_iff in H2. destruct H2 as [_ Q]. destruct c; try discriminate; reflexivity.
    + destruct s3 as [[c ?]|]; cbn; [|exact I]. apply andb_true_iff in H1. destruct H1 as [_ Q]. destruct c; try discriminate; reflexivity.
    + destruct s4 as [[c ?]|]; cbn; [|exact I]. apply andb_true_iff in H. destruct H as [_ Q]. destruct c; try discriminate; reflexivity.
  - intros [A [B [C [T1 [T2 [T3 T4]]]]]].
    assert (A' : forall k, mem_bytes k (ctx_set {| m_target := {| es_ty := t; es_id := id |}; m_date := d; m_authority := au;
                    m_fetcher := fe; m_format := fmt; m_metadata := md; m_origin := o; m_visit := v; m_snapshot := s1;
                    m_release := s2; m_revision := s3; m_path := p; m_directory := s4 |}) = true -> mem_bytes k (admissible t) = true).
    { intros k Hk. apply MB, A, MB. exact Hk. }
    clear A. unfold ctx_set in A'. cbn [m_origin m_visit m_snapshot m_release m_revision m_path m_directory] in A'.
    assert (Bo : match o with Some x => starts_with (bs "swh:") x = false | None => True end) by (destruct o; [apply B; reflexivity | exact I]).
    assert (Cv : match v with Some z => (0 <? z)%Z = true /\ issome o = true | None => True end).
    { destruct v as [z|]; [|exact I]. destruct (C z eq_refl) as [C1 C2]. split; [lia | destruct o; [reflexivity | congruence]]. }
    clear B C.
    destruct s1 as [[c1 i1]|], s2 as [[c2 i2]|], s3 as [[c3 i3]|], s4 as [[c4 i4]|]; cbn in T1, T2, T3, T4; subst;
      destruct o as [x|], v as [z|], p as [pp|]; cbn [issome app] in A';
      match type of Cv with
      | _ /\ _ => destruct Cv as [Cv1 Cv2]; try discriminate Cv2; rewrite ?Cv1
      | _ => idtac
      end; rewrite ?Bo;
      destruct t as [[]| |];
      first [ reflexivity
            | exfalso;
              first [ specialize (A' (bs "origin") eq_refl); vm_compute in A'; discriminate A'
                    | specialize (A' (bs "visit") eq_refl); vm_compute in A'; discriminate A'
                    | specialize (A' (bs "snapshot") eq_refl); vm_compute in A'; discriminate A'
                    | specialize (A' (bs "release") eq_refl); vm_compute in A'; discriminate A'
                    | specialize (A' (bs "revision") eq_refl); vm_compute in A'; discriminate A'
                    | specialize (A' (bs "path") eq_refl); vm_compute in A'; discriminate A'
                    | specialize (A' (bs "directory") eq_refl); vm_compute in A'; discriminate A' ] ].
Qed.

(* ------------------------------------------------------------------ *)
(* non-vacuity                                                         *)
(* ------------------------------------------------------------------ *)
Definition ex_extid : extid :=
  {| x_type := bs "hg nodeid"; x_extid := [10; 10; 32; 0; 255; 10]; x_target := {| cs_ty := CRev; cs_id := repeat 171 20 |};
     x_version := (-3)%Z; x_payload_type := Some (bs "disk-manifest"); x_payload := Some [10; 1; 2] |}.
Example ex_extid_ok :
  extid_valid ex_extid = true /\ wf_bytes (cs_id (x_target ex_extid)) = true /\
  exists m, extid_git_object ex_extid = Ok m /\ parse_extid m = Some (extid_expected ex_extid).
Proof. split; [reflexivity|]. split; [reflexivity|]. eexists. split; [reflexivity | vm_compute; reflexivity]. Qed.

Definition ex_full_emd : emd :=
  {| m_target := {| es_ty := ECore CCnt; es_id := repeat 1 20 |};
     m_date := {| dt_us := (-1)%Z; dt_off := 19800000000%Z |};      (* 1 microsecond before the epoch, written at +05:30 *)
     m_authority := {| au_type := DepositClient; au_url := [104; 10; 195; 169; 32; 120] |};
     m_fetcher := {| fe_name := [115; 119; 104; 32; 108; 10; 111]; fe_version := bs "1.0" |};
     m_format := bs "sword-v2-atom-codemeta"; m_metadata := [10; 10; 32; 0; 255];
     m_origin := Some [104; 116; 10; 10; 32]; m_visit := Some 42%Z;
     m_snapshot := Some {| cs_ty := CSnp; cs_id := repeat 2 20 |};
     m_release := Some {| cs_ty := CRel; cs_id := repeat 3 20 |};
     m_revision := Some {| cs_ty := CRev; cs_id := repeat 4 20 |};
     m_path := Some [47; 10; 47]; m_directory := Some {| cs_ty := CDir; cs_id := repeat 5 20 |} |}.
Example ex_full_emd_ok :
  exists a, mk_emd ex_full_emd = Ok a /\ ~ In SP (fe_version (m_fetcher a)) /\ swhids_wf a /\
            date_normalised (m_date a) /\ emd_second a = (-1)%Z /\ length (emd_context a) = 7%nat /\
            parse_emd (emd_git_object a) = Some (emd_expected a).
Proof.
  eexists. split; [vm_compute; reflexivity|].
  split; [apply memb_false; vm_compute; reflexivity|].
  split; [repeat split; vm_compute; reflexivity|].
  split; [split; vm_compute; reflexivity|].
  split; [vm_compute; reflexivity|]. split; vm_compute; reflexivity.
Qed.
