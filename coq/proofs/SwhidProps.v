(* Packaged statements of Props/C08.v and Props/C09.v whose proofs are more
   than one `exact`: proved here so that the Props files contain statements only. *)
From Coq Require Import List NArith ZArith.
From SWH.lib Require Import Bytes Dec Hex Utf8 Percent.
From SWH Require Import Generated.
From SWH.model Require Import Swhid.
From SWH.proofs Require Import SwhidTables SwhidLib PercentProofs SwhidProofs SwhidParseProofs SwhidLinesProofs
  SwhidQProofs SwhidLangProofs SwhidShapeProofs.
Import ListNotations.
Open Scope N_scope.

Lemma P_C08_core_roundtrip : forall c : core,
  In (c_ty c) SWHID_TYPES -> length (c_oid c) = 20%nat -> wf_bytes (c_oid c) = true ->
  parse_core (print_core c) = Ok c.
Proof. intros c H1 H2 H3. apply core_roundtrip. repeat split; assumption. Qed.

Lemma P_C08_ext_roundtrip : forall c : core,
  In (c_ty c) EXTENDED_SWHID_TYPES -> length (c_oid c) = 20%nat -> wf_bytes (c_oid c) = true ->
  parse_ext (print_core c) = Ok c.
Proof. intros c H1 H2 H3. apply ext_roundtrip. repeat split; assumption. Qed.

Lemma P_C08_tables :
  re_head = S_swh1 /\ EXTENDED_SWHID_TYPES = DOC_EXT_TYPES /\ SWHID_TYPES = DOC_CORE_TYPES /\
  same_set_b (enum_values OBJECT_TYPES) DOC_CORE_TYPES = true /\
  same_set_b (enum_values EXTENDED_OBJECT_TYPES) DOC_EXT_TYPES = true /\
  TY_SNAPSHOT = S_snp /\ ANCHOR_TYPES = DOC_ANCHOR_TYPES /\
  same_set_b SWHID_QUALIFIERS DOC_KEYS = true /\ QUALIFIER_PRINT_ORDER = FIELD_KEYS /\
  SWHID_SEP = [58] /\ SWHID_CTXT_SEP = [59].
Proof.
  repeat split; first [exact tbl_head | exact tbl_ext_types | exact tbl_core_types | exact tbl_core_enum
    | exact tbl_ext_enum | exact tbl_snapshot | exact tbl_anchor_types | exact tbl_qualifiers
    | exact tbl_print_order | exact (proj1 tbl_seps) | exact (proj2 tbl_seps)].
Qed.

Lemma P_C09_total : forall (lim : N) (s : text),
  ((exists c, parse_core s = Ok c) \/ parse_core s = Err EValidation) /\
  ((exists c, parse_ext s = Ok c) \/ parse_ext s = Err EValidation) /\
  ((exists v, parse_q lim s = Ok v) \/ parse_q lim s = Err EValidation).
Proof.
  intros lim s. pose proof (parse_simple_strict (enum_values OBJECT_TYPES) s) as H1.
  pose proof (parse_simple_strict (enum_values EXTENDED_OBJECT_TYPES) s) as H2.
  pose proof (parse_q_strict lim s) as H3. unfold parse_core, parse_ext.
  repeat split.
  - destruct (parse_simple (enum_values OBJECT_TYPES) s) as [c|e]; [left; exists c; reflexivity | right; cbn in H1; subst; reflexivity].
  - destruct (parse_simple (enum_values EXTENDED_OBJECT_TYPES) s) as [c|e]; [left; exists c; reflexivity | right; cbn in H2; subst; reflexivity].
  - destruct (parse_q lim s) as [v|e]; [left; exists v; reflexivity | right; cbn in H3; subst; reflexivity].
Qed.

Lemma P_C09_accepts_sound : forall (lim : N) (s : text),
  ((exists c, parse_core s = Ok c) -> lang_core s = true) /\
  ((exists c, parse_ext s = Ok c) -> lang_ext s = true) /\
  ((exists v, parse_q lim s = Ok v) -> lang_q s = true).
Proof.
  intros lim s. repeat split.
  - apply core_accepts_iff.
  - apply ext_accepts_iff.
  - intros [v H]. exact (q_accepts_sound lim s v H).
Qed.

Lemma P_C09_accepts_iff : forall (lim : N) (s : text),
  ((exists c, parse_core s = Ok c) <-> lang_core s = true) /\
  ((exists c, parse_ext s = Ok c) <-> lang_ext s = true) /\
  (within_limit lim s = true -> ((exists v, parse_q lim s = Ok v) <-> lang_q s = true)).
Proof.
  intros lim s. split; [apply core_accepts_iff|]. split; [apply ext_accepts_iff|]. apply q_accepts_iff.
Qed.

Lemma P_C09_classes_agree : forall (lim : N) (s : text),
  (~ In 59 s ->
   parse_q lim s = match parse_core s with
                   | Ok c => Ok (mkQ (c_ty c) (c_oid c) None None None None None)
                   | Err e => Err e
                   end) /\
  (forall c, parse_core s = Ok c -> parse_ext s = Ok c) /\
  (forall c, parse_ext s = Ok c -> In (c_ty c) SWHID_TYPES -> parse_core s = Ok c).
Proof.
  intros lim s. split; [apply q_of_core|]. split; intro c; apply (core_ext_agree s c).
Qed.

Lemma P_C09_tables :
  re_head = S_swh1 /\ EXTENDED_SWHID_TYPES = DOC_EXT_TYPES /\
  same_set_b (enum_values OBJECT_TYPES) DOC_CORE_TYPES = true /\
  same_set_b (enum_values EXTENDED_OBJECT_TYPES) DOC_EXT_TYPES = true /\
  TY_SNAPSHOT = S_snp /\ ANCHOR_TYPES = DOC_ANCHOR_TYPES /\
  same_set_b SWHID_QUALIFIERS DOC_KEYS = true /\ FIELD_KEYS = DOC_KEYS /\
  subset_b SWHID_QUALIFIERS (map field_name FIELDS_QualifiedSWHID) = true /\
  SWHID_SEP = [58] /\ SWHID_CTXT_SEP = [59].
Proof.
  repeat split; first [exact tbl_head | exact tbl_ext_types | exact tbl_core_enum
    | exact tbl_ext_enum | exact tbl_snapshot | exact tbl_anchor_types | exact tbl_qualifiers
    | exact tbl_field_keys | exact (proj1 tbl_qualifier_fields) | exact (proj1 tbl_seps) | exact (proj2 tbl_seps)].
Qed.

(* namespace / scheme_version given explicitly: the defaults spelled out change nothing; anything else never yields a
   value - so every value prints with the constants SWHID_NAMESPACE / SWHID_VERSION that print_core uses *)
Lemma nv_bad_false : forall ns ver, nv_bad ns ver = false ->
  (ns = None \/ ns = Some SWHID_NAMESPACE) /\ (ver = None \/ ver = Some SWHID_VERSION).
Proof.
  intros ns ver H. unfold nv_bad in H. apply Bool.orb_false_iff in H. destruct H as [H1 H2]. split.
  - destruct ns as [n|]; [right | left; reflexivity]. apply Bool.negb_false_iff in H1. apply beqb_eq in H1. subst. reflexivity.
  - destruct ver as [z|]; [right | left; reflexivity]. apply Bool.negb_false_iff in H2. apply Z.eqb_eq in H2. subst. reflexivity.
Qed.

Lemma nv_bad_defaults : forall ns ver,
  (ns = None \/ ns = Some SWHID_NAMESPACE) -> (ver = None \/ ver = Some SWHID_VERSION) -> nv_bad ns ver = false.
Proof.
  intros ns ver [H1|H1] [H2|H2]; subst; unfold nv_bad; cbn [negb orb]; rewrite ?beqb_refl, ?Z.eqb_refl; reflexivity.
Qed.

Lemma P_C08_explicit_namespace_version :
  forall (ns : option text) (ver : option Z) (ty : text) (oid : bytes),
  (* the defaults, spelled out or not: exactly the plain constructors *)
  ((ns = None \/ ns = Some SWHID_NAMESPACE) -> (ver = None \/ ver = Some SWHID_VERSION) ->
     mk_core_nv ns ver ty oid = mk_core ty oid /\ mk_ext_nv ns ver ty oid = mk_ext ty oid /\
     forall origin visit anchor path lines,
       mk_q_nv ns ver ty oid origin visit anchor path lines = mk_q ty oid origin visit anchor path lines) /\
  (* a value was built: the namespace and the version are the defaults *)
  (forall c, mk_core_nv ns ver ty oid = Ok c \/ mk_ext_nv ns ver ty oid = Ok c ->
     (ns = None \/ ns = Some SWHID_NAMESPACE) /\ (ver = None \/ ver = Some SWHID_VERSION)) /\
  (forall origin visit anchor path lines v, mk_q_nv ns ver ty oid origin visit anchor path lines = Ok v ->
     (ns = None \/ ns = Some SWHID_NAMESPACE) /\ (ver = None \/ ver = Some SWHID_VERSION)) /\
  (* anything else fails with the enum converter's ValueError or with ValidationError, whatever the other arguments *)
  (nv_bad ns ver = true ->
     (mk_core_nv ns ver ty oid = Err EValue \/ mk_core_nv ns ver ty oid = Err EValidation) /\
     (mk_ext_nv ns ver ty oid = Err EValue \/ mk_ext_nv ns ver ty oid = Err EValidation) /\
     forall origin visit anchor path lines,
       mk_q_nv ns ver ty oid origin visit anchor path lines = Err EValue \/
       mk_q_nv ns ver ty oid origin visit anchor path lines = Err EValidation).
Proof.
  intros ns ver ty oid. repeat split.
  - unfold mk_core_nv, mk_simple_nv, mk_core, mk_simple. rewrite (nv_bad_defaults ns ver H H0).
    destruct (negb (mem_bytes ty (enum_values OBJECT_TYPES))); reflexivity.
  - unfold mk_ext_nv, mk_simple_nv, mk_ext, mk_simple. rewrite (nv_bad_defaults ns ver H H0).
    destruct (negb (mem_bytes ty (enum_values EXTENDED_OBJECT_TYPES))); reflexivity.
  - intros. unfold mk_q_nv, mk_q. rewrite (nv_bad_defaults ns ver H H0).
    destruct (negb (mem_bytes ty (enum_values OBJECT_TYPES))); reflexivity.
  - destruct H as [H|H]; unfold mk_core_nv, mk_ext_nv, mk_simple_nv in H;
      match type of H with (if ?b then _ else _) = _ => destruct b; [discriminate|] end;
      destruct (nv_bad ns ver) eqn:E; try discriminate; exact (proj1 (nv_bad_false ns ver E)).
  - destruct H as [H|H]; unfold mk_core_nv, mk_ext_nv, mk_simple_nv in H;
      match type of H with (if ?b then _ else _) = _ => destruct b; [discriminate|] end;
      destruct (nv_bad ns ver) eqn:E; try discriminate; exact (proj2 (nv_bad_false ns ver E)).
  - unfold mk_q_nv in H. match type of H with (if ?b then _ else _) = _ => destruct b; [discriminate|] end.
    destruct (nv_bad ns ver) eqn:E; try discriminate. exact (proj1 (nv_bad_false ns ver E)).
  - unfold mk_q_nv in H. match type of H with (if ?b then _ else _) = _ => destruct b; [discriminate|] end.
    destruct (nv_bad ns ver) eqn:E; try discriminate. exact (proj2 (nv_bad_false ns ver E)).
  - unfold mk_core_nv, mk_simple_nv. rewrite H. destruct (negb (mem_bytes ty (enum_values OBJECT_TYPES))); [left|right]; reflexivity.
  - unfold mk_ext_nv, mk_simple_nv. rewrite H. destruct (negb (mem_bytes ty (enum_values EXTENDED_OBJECT_TYPES))); [left|right]; reflexivity.
  - intros. unfold mk_q_nv. rewrite H. destruct (negb (mem_bytes ty (enum_values OBJECT_TYPES))); [left|right]; reflexivity.
Qed.

(* FIXED 8fc7b57: a line number held by a bool was printed with str(): "True" *)
Definition bool_line_witness : qualified := mkQ S_cnt (repeat 0 20) None None None None (Some (1%Z, None)).

Lemma P_C08_bool_print_refuted_old :
  wf_q 4300 bool_line_witness /\
  print_q_str_old 4300 true false bool_line_witness = Ok (zero_id ++ bs ";lines=True") /\
  lang_q (zero_id ++ bs ";lines=True") = false /\
  parse_q 4300 (zero_id ++ bs ";lines=True") = Err EValidation /\
  print_q 4300 bool_line_witness = Ok (zero_id ++ bs ";lines=1") /\
  parse_q 4300 (zero_id ++ bs ";lines=1") = Ok bool_line_witness /\
  print_q_str_old 4300 false false bool_line_witness = print_q 4300 bool_line_witness /\
  print_q_str_old 4300 false false ex_q = print_q 4300 ex_q.
Proof.
  split.
  - unfold wf_q, bool_line_witness. cbn [q_ty q_oid q_visit q_anchor q_path q_lines].
    split; [vm_compute; tauto|]. split; [reflexivity|]. split; [reflexivity|].
    split; [intros c E; discriminate|]. split; [intros c E; discriminate|]. split; [intros p E; discriminate|].
    intros a b E. inversion E; subst. split.
    + split; [discriminate | reflexivity].
    + intros b' E'. discriminate.
  - repeat split; vm_compute; reflexivity.
Qed.
