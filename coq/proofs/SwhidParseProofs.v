(* Exact characterisation of _parse_swhid / CoreSWHID.from_string /
   ExtendedSWHID.from_string and of the recogniser's lang_head / lang_id. *)
From Coq Require Import List NArith ZArith Bool Lia Arith.
From SWH.lib Require Import Bytes Dec Hex Utf8 Percent.
From SWH Require Import Generated.
From SWH.model Require Import Swhid.
From SWH.proofs Require Import SwhidTables SwhidLib PercentProofs SwhidProofs.
Import ListNotations.
Open Scope N_scope.

(* ---------------------------------------------------------------- clean failure *)
Definition okerr {A} (r : result A) : Prop :=
  match r with Ok _ => True | Err e => e = EValidation \/ e = EValue end.
Definition strict {A} (r : result A) : Prop :=
  match r with Ok _ => True | Err e => e = EValidation end.

Lemma okerr_bind : forall A B (r : result A) (f : A -> result B),
  okerr r -> (forall a, okerr (f a)) -> okerr (bind r f).
Proof. intros A B [a|e] f H1 H2; [apply H2 | exact H1]. Qed.

Lemma strict_of_okerr : forall A (r : result A), okerr r -> strict (value_error_to_validation r).
Proof. intros A [a|e] H; [exact I|]. destruct H; subst; reflexivity. Qed.

Lemma strict_okerr : forall A (r : result A), strict r -> okerr r.
Proof. intros A [a|e] H; [exact I | left; exact H]. Qed.

(* ---------------------------------------------------------------- bytes.fromhex on [0-9a-f]* *)
Lemma unhexdigit_lower : forall c, is_lower_hex c = true -> exists x, unhexdigit c = Some x /\ x < 16.
Proof.
  intros c H. unfold is_lower_hex in H. unfold unhexdigit.
  destruct ((48 <=? c) && (c <=? 57)) eqn:D.
  - exists (c - 48). split; [reflexivity|]. b2p D. lia.
  - cbn [orb] in H. rewrite H. exists (c - 87). split; [reflexivity|]. b2p H. lia.
Qed.

Lemma unhex_total : forall n h, length h = (2 * n)%nat -> forallb is_lower_hex h = true ->
  exists b, unhex h = Some b /\ length b = n /\ wf_bytes b = true.
Proof.
  induction n as [|n IH]; intros h Hl Hh.
  - destruct h; [|discriminate]. exists []. repeat split.
  - destruct h as [|a [|b h]]; try (cbn in Hl; lia).
    cbn [forallb] in Hh. apply andb_true_iff in Hh. destruct Hh as [Ha Hh]. apply andb_true_iff in Hh. destruct Hh as [Hb Hh].
    destruct (unhexdigit_lower a Ha) as [x [Ex Lx]]. destruct (unhexdigit_lower b Hb) as [y [Ey Ly]].
    destruct (IH h) as [t [Et [Lt Wt]]]; [cbn in Hl; lia | exact Hh |].
    exists (16 * x + y :: t). rewrite unhex_cons2, Ex, Ey, Et. repeat split.
    + cbn [length]. rewrite Lt. reflexivity.
    + cbn [wf_bytes forallb]. fold (wf_bytes t). rewrite Wt. unfold wf_byte.
      replace (16 * x + y <? 256) with true; [reflexivity|]. symmetry. apply N.ltb_lt. lia.
Qed.

Lemma unhex40 : forall h, length h = 40%nat -> forallb is_lower_hex h = true ->
  exists b, unhex h = Some b /\ length b = 20%nat /\ wf_bytes b = true.
Proof. intros h Hl Hh. apply (unhex_total 20 h); assumption. Qed.

(* ---------------------------------------------------------------- _parse_swhid *)
Lemma parse_quals_nonempty : forall items d, items <> [] -> parse_quals items = Ok d -> d <> [].
Proof.
  intros [|q items] d Hn H; [congruence|]. cbn [parse_quals] in H.
  destruct (cut 61 q) as [k [v|]]; [|discriminate]. destruct (parse_quals items); [|discriminate].
  cbn [bind] in H. inversion H. discriminate.
Qed.

Definition quals_of (q : option text) (d : dict) : Prop :=
  match q with
  | None => d = []
  | Some qs => parse_quals (split_on 59 qs) = Ok d
  end.

Lemma parse_swhid_inv : forall s ty oid d, parse_swhid s = Ok (ty, oid, d) ->
  exists h q, match_swhid_re s = Some (ty, h, q) /\ unhex h = Some oid /\ quals_of q d.
Proof.
  intros s ty oid d H. unfold parse_swhid in H. rewrite tbl_version_int, Z.eqb_refl in H.
  destruct (match_swhid_re s) as [[[ty' h] q]|] eqn:M; [|discriminate].
  destruct q as [qs|].
  - destruct (parse_quals (split_on 59 qs)) as [d'|e] eqn:P; [|discriminate]. cbn [bind] in H.
    destruct (unhex h) as [oid'|] eqn:U; [|discriminate]. inversion H; subst.
    exists h, (Some qs). repeat split; assumption.
  - cbn [bind] in H. destruct (unhex h) as [oid'|] eqn:U; [|discriminate]. inversion H; subst.
    exists h, None. repeat split; auto.
Qed.

Lemma parse_swhid_build : forall s ty h q oid d, match_swhid_re s = Some (ty, h, q) -> unhex h = Some oid ->
  quals_of q d -> parse_swhid s = Ok (ty, oid, d).
Proof.
  intros s ty h q oid d M U Q. unfold parse_swhid. rewrite tbl_version_int, Z.eqb_refl, M.
  destruct q as [qs|]; cbn [quals_of] in Q.
  - rewrite Q. cbn [bind]. rewrite U. reflexivity.
  - subst d. cbn [bind]. rewrite U. reflexivity.
Qed.

Lemma parse_swhid_strict : forall s, strict (parse_swhid s).
Proof.
  intro s. unfold parse_swhid. rewrite tbl_version_int, Z.eqb_refl.
  destruct (match_swhid_re s) as [[[ty h] q]|] eqn:M; [|reflexivity].
  apply match_swhid_re_inv in M. destruct M as [_ [_ [Hl [Hh _]]]].
  destruct (unhex40 h Hl Hh) as [b [U _]].
  destruct q as [qs|].
  - destruct (parse_quals (split_on 59 qs)) as [d|e] eqn:P.
    + cbn [bind]. rewrite U. exact I.
    + cbn [bind strict]. apply (parse_quals_err _ _ P).
  - cbn [bind]. rewrite U. exact I.
Qed.

(* a string without ';' has no qualifiers *)
Lemma parse_swhid_no_semicolon : forall s ty oid d, ~ In 59 s -> parse_swhid s = Ok (ty, oid, d) -> d = [].
Proof.
  intros s ty oid d Hn H. apply parse_swhid_inv in H. destruct H as [h [q [M [_ Q]]]].
  destruct q as [qs|]; [|exact Q]. exfalso. apply match_swhid_re_inv in M. destruct M as [E _].
  apply Hn. rewrite E. rewrite !in_app_iff. right. right. right. right. left. reflexivity.
Qed.

(* ---------------------------------------------------------------- from_string of Core / Extended *)
Lemma mk_simple_okerr : forall enum ty oid, okerr (mk_simple enum ty oid).
Proof.
  intros. unfold mk_simple. destruct (negb (mem_bytes ty enum)); [right; reflexivity|].
  destruct (negb (Nat.eqb (length oid) 20)); [left; reflexivity | exact I].
Qed.

Lemma parse_simple_strict : forall enum s, strict (parse_simple enum s).
Proof.
  intros enum s. unfold parse_simple. pose proof (parse_swhid_strict s) as P.
  destruct (parse_swhid s) as [[[ty oid] d]|e]; [|exact P]. cbn [bind].
  destruct (negb (is_nil d)); [reflexivity|]. apply strict_of_okerr, mk_simple_okerr.
Qed.

Definition simple_form (enum : list text) (s : text) (c : core) : Prop :=
  exists h, s = S_swh1 ++ c_ty c ++ [58] ++ h /\ In (c_ty c) DOC_EXT_TYPES /\ mem_bytes (c_ty c) enum = true /\
            length h = 40%nat /\ forallb is_lower_hex h = true /\ unhex h = Some (c_oid c).

Lemma parse_simple_spec : forall enum s c, parse_simple enum s = Ok c <-> simple_form enum s c.
Proof.
  intros enum s c. split.
  - intro H. unfold parse_simple in H. destruct (parse_swhid s) as [[[ty oid] d]|e] eqn:P; [|discriminate].
    cbn [bind] in H. destruct d as [|kv d]; [|discriminate]. cbn [is_nil negb] in H.
    unfold mk_simple in H. destruct (mem_bytes ty enum) eqn:M; [|discriminate]. cbn [negb] in H.
    destruct (Nat.eqb (length oid) 20); [|discriminate]. cbn [negb value_error_to_validation] in H.
    inversion H; subst c. cbn [c_ty c_oid]. apply parse_swhid_inv in P. destruct P as [h [q [R [U Q]]]].
    apply match_swhid_re_inv in R. destruct R as [E [Ht [Hl [Hh Hq]]]].
    destruct q as [qs|].
    + exfalso. cbn [quals_of] in Q. apply (parse_quals_nonempty _ _ (split_on_nonnil 59 qs) Q). reflexivity.
    + exists h. cbn [tail_of] in E. rewrite app_nil_r in E. repeat split; assumption.
  - intros [h [E [Ht [M [Hl [Hh U]]]]]]. unfold parse_simple.
    assert (P : parse_swhid s = Ok (c_ty c, c_oid c, [])).
    { apply (parse_swhid_build s (c_ty c) h None); [|exact U|reflexivity].
      pose proof (match_swhid_re_build (c_ty c) h None Ht Hl Hh I) as R. cbn [tail_of] in R.
      rewrite app_nil_r in R. rewrite E. exact R. }
    rewrite P. cbn [bind is_nil negb]. unfold mk_simple. rewrite M.
    destruct (unhex40 h Hl Hh) as [b [U' [Lb _]]]. rewrite U in U'. inversion U'; subst b. rewrite Lb.
    destruct c; reflexivity.
Qed.

Lemma parse_simple_wf : forall enum s c, parse_simple enum s = Ok c ->
  length (c_oid c) = 20%nat /\ wf_bytes (c_oid c) = true /\ mem_bytes (c_ty c) enum = true.
Proof.
  intros enum s c H. apply parse_simple_spec in H. destruct H as [h [_ [_ [M [Hl [Hh U]]]]]].
  destruct (unhex40 h Hl Hh) as [b [U' [Lb Wb]]]. rewrite U in U'. inversion U'; subst b. repeat split; assumption.
Qed.

(* ---------------------------------------------------------------- the recogniser's head *)
Lemma skipn_skipn' : forall A a b (l : list A), skipn a (skipn b l) = skipn (b + a) l.
Proof.
  induction b as [|b IH]; intro l; [reflexivity|]. destruct l as [|x l]; [rewrite !skipn_nil; reflexivity|].
  cbn [Nat.add skipn]. apply IH.
Qed.

Lemma lang_head_inv : forall types s rest, lang_head types s = Some rest ->
  exists t h, s = S_swh1 ++ t ++ [58] ++ h ++ rest /\ In t types /\ length h = 40%nat /\
              forallb is_lower_hex h = true.
Proof.
  intros types s rest H. unfold lang_head in H.
  destruct (beqb (firstn 6 s) S_swh1) eqn:B1; [|discriminate].
  destruct (mem_bytes (firstn 3 (skipn 6 s)) types) eqn:B2; [|discriminate].
  destruct (beqb (firstn 1 (skipn 9 s)) S_colon) eqn:B3; [|discriminate].
  destruct (Nat.eqb (length (firstn 40 (skipn 10 s))) 40) eqn:B4; [|discriminate].
  destruct (forallb is_lower_hex (firstn 40 (skipn 10 s))) eqn:B5; [|discriminate].
  cbn [andb] in H. assert (R : rest = skipn 50 s) by congruence. clear H. subst rest.
  apply beqb_eq in B1, B3. apply mem_bytes_In in B2. apply Nat.eqb_eq in B4.
  exists (firstn 3 (skipn 6 s)), (firstn 40 (skipn 10 s)). repeat split; try assumption.
  rewrite <- B1. change [58] with S_colon. rewrite <- B3.
  replace (skipn 50 s) with (skipn 40 (skipn 10 s)) by (apply skipn_skipn').
  rewrite (firstn_skipn 40).
  replace (skipn 10 s) with (skipn 1 (skipn 9 s)) by (apply skipn_skipn').
  rewrite (firstn_skipn 1).
  replace (skipn 9 s) with (skipn 3 (skipn 6 s)) by (apply skipn_skipn').
  rewrite (firstn_skipn 3). rewrite (firstn_skipn 6). reflexivity.
Qed.

Lemma lang_head_build : forall types t h rest, In t types -> length t = 3%nat -> length h = 40%nat ->
  forallb is_lower_hex h = true -> lang_head types (S_swh1 ++ t ++ [58] ++ h ++ rest) = Some rest.
Proof.
  intros types t h rest Ht Lt Lh Hh.
  destruct t as [|a [|b [|c [|]]]]; try discriminate. apply mem_bytes_In in Ht.
  set (s := S_swh1 ++ [a; b; c] ++ [58] ++ h ++ rest).
  assert (E1 : firstn 6 s = S_swh1) by reflexivity.
  assert (E2 : firstn 3 (skipn 6 s) = [a; b; c]) by reflexivity.
  assert (E3 : firstn 1 (skipn 9 s) = S_colon) by reflexivity.
  assert (E4 : skipn 10 s = h ++ rest) by reflexivity.
  assert (E5 : skipn 50 s = skipn 40 (h ++ rest)) by reflexivity.
  assert (T : firstn 40 (h ++ rest) = h) by (rewrite <- Lh; apply take_app_length).
  assert (D : skipn 40 (h ++ rest) = rest) by (rewrite <- Lh; apply drop_app_length).
  unfold lang_head. rewrite E1, E2, E3, E4, E5, T, D, Ht, Lh, Hh, !beqb_refl. reflexivity.
Qed.

Lemma lang_id_spec : forall types s, (forall t, In t types -> In t DOC_EXT_TYPES) ->
  (lang_id types s = true <->
   exists t h, s = S_swh1 ++ t ++ [58] ++ h /\ In t types /\ length h = 40%nat /\ forallb is_lower_hex h = true).
Proof.
  intros types s Hsub. unfold lang_id. split.
  - intro H. destruct (lang_head types s) as [[|x r]|] eqn:L; try discriminate.
    apply lang_head_inv in L. destruct L as [t [h [E R]]]. exists t, h. rewrite app_nil_r in E. tauto.
  - intros [t [h [E [Ht [Lh Hh]]]]]. subst s.
    pose proof (lang_head_build types t h [] Ht (proj1 (type_shape t (Hsub t Ht))) Lh Hh) as L.
    rewrite app_nil_r in L. rewrite L. reflexivity.
Qed.

(* acceptance by CoreSWHID / ExtendedSWHID = the documented language *)
Lemma simple_accepts_iff : forall enum types s,
  (forall t, mem_bytes t enum = mem_bytes t types) -> (forall t, In t types -> In t DOC_EXT_TYPES) ->
  ((exists c, parse_simple enum s = Ok c) <-> lang_id types s = true).
Proof.
  intros enum types s Hm Hsub. rewrite (lang_id_spec types s Hsub). split.
  - intros [c H]. apply parse_simple_spec in H. destruct H as [h [E [_ [M [Lh [Hh _]]]]]].
    exists (c_ty c), h. repeat split; try assumption. apply mem_bytes_In. rewrite <- Hm. exact M.
  - intros [t [h [E [Ht [Lh Hh]]]]]. destruct (unhex40 h Lh Hh) as [b [U _]].
    exists (mkCore t b). apply parse_simple_spec. exists h. cbn [c_ty c_oid]. repeat split; try assumption.
    + apply Hsub, Ht.
    + rewrite Hm. apply mem_bytes_In, Ht.
Qed.

(* a value accepted by CoreSWHID whose type is in a sub-list: the visit / anchor conditions *)
Lemma core_typed_iff : forall sub s, (forall t, In t sub -> In t DOC_CORE_TYPES) ->
  ((exists c, parse_core s = Ok c /\ In (c_ty c) sub) <-> lang_id sub s = true).
Proof.
  intros sub s Hsub.
  assert (Hext : forall t, In t sub -> In t DOC_EXT_TYPES) by (intros t Ht; apply core_in_ext, Hsub, Ht).
  rewrite (lang_id_spec sub s Hext). split.
  - intros [c [H Hs]]. apply parse_simple_spec in H. destruct H as [h [E [_ [_ [Lh [Hh _]]]]]].
    exists (c_ty c), h. repeat split; assumption.
  - intros [t [h [E [Ht [Lh Hh]]]]]. destruct (unhex40 h Lh Hh) as [b [U _]].
    exists (mkCore t b). split; [|exact Ht]. apply parse_simple_spec. exists h. cbn [c_ty c_oid].
    repeat split; try assumption; [apply Hext, Ht|]. rewrite mem_core_enum. apply mem_bytes_In, Hsub, Ht.
Qed.
