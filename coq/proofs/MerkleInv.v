(* The invariant of the Merkle heap machine, the specification of
   invalidate_hash (relation RR) and of update_hash. *)
From Coq Require Import List NArith Bool Arith Lia.
From SWH.lib Require Import Bytes.
From SWH.model Require Import Merkle.
From SWH.proofs Require Import MerkleBase.
Import ListNotations.
Local Open Scope nat_scope.

Definition hashed_at (s : heap) (k : nat) : Prop := exists y, nth_error s k = Some y /\ hashed y = true.
Definition cnt (c : nat) (K : list (bytes * nat)) : nat := count_occ Nat.eq_dec (map snd K) c.

Lemma cnt_in : forall c K nm, In (nm, c) K -> 1 <= cnt c K.
Proof.
  intros c K nm H. unfold cnt. apply count_occ_In. apply in_map_iff. exists (nm, c). auto.
Qed.

(* ---- what invalidate_hash may do to one node *)
Definition nrel (x x' : node) : Prop :=
  nshape x x' /\
  ((cached x' = cached x /\ collected x' = collected x) \/
   (cached x' = None /\ collected x' = false /\ ecache x' = None /\ mcache x' = None)) /\
  (ecache x' = ecache x \/ ecache x' = None) /\ (mcache x' = mcache x \/ mcache x' = None).
Definition R (s s' : heap) := Forall2 nrel s s'.
Definition cleared (s : heap) (q : nat) : Prop :=
  exists y, nth_error s q = Some y /\ hashed y = false /\ ecache y = None /\ mcache y = None.
Definition propg (s s' : heap) : Prop :=
  forall m x x', nth_error s m = Some x -> nth_error s' m = Some x' ->
    hashed x = true -> hashed x' = false -> forall q, In q (parents x) -> cleared s' q.
Definition RR (s s' : heap) := R s s' /\ propg s s'.

Lemma nrel_refl : forall x, nrel x x.
Proof. intro x. unfold nrel. split; [apply nshape_refl|]. auto. Qed.

Lemma nrel_trans : forall x y z, nrel x y -> nrel y z -> nrel x z.
Proof.
  intros x y z (S1 & A1 & B1 & C1) (S2 & A2 & B2 & C2). split; [eapply nshape_trans; eauto|].
  repeat split.
  - destruct A2 as [[a b]|(a & b & c & d)]; [|right; auto].
    destruct A1 as [[a' b']|(a' & b' & c' & d')]; [left; split; congruence|].
    right. repeat split; try congruence.
    + destruct B2; congruence.
    + destruct C2; congruence.
  - destruct B2 as [e|e]; [|auto]. destruct B1; [left|right]; congruence.
  - destruct C2 as [e|e]; [|auto]. destruct C1; [left|right]; congruence.
Qed.

Lemma hashed_cached : forall x y, cached x = cached y -> hashed x = hashed y.
Proof. intros x y H. unfold hashed. rewrite H. reflexivity. Qed.

Lemma hashed_none : forall x, cached x = None -> hashed x = false.
Proof. intros x H. unfold hashed. rewrite H. reflexivity. Qed.

Lemma nrel_hashed : forall x x', nrel x x' -> hashed x' = true ->
  hashed x = true /\ cached x' = cached x /\ collected x' = collected x.
Proof.
  intros x x' (_ & A & _) H. destruct A as [[a b]|(a & _)].
  - rewrite <- (hashed_cached _ _ a). auto.
  - rewrite (hashed_none _ a) in H. discriminate.
Qed.

Lemma nrel_unhashed : forall x x', nrel x x' -> hashed x = false -> hashed x' = false.
Proof.
  intros x x' H Hx. destruct (hashed x') eqn:E; auto. destruct (nrel_hashed _ _ H E). congruence.
Qed.

Lemma nrel_uncache : forall x, nrel x (uncache x).
Proof. intro x. unfold nrel, nshape, uncache; simpl. repeat split; auto; right; auto. Qed.
Lemma nrel_clearc : forall x, nrel x (clearc x).
Proof. intro x. unfold nrel, nshape, clearc; simpl. repeat split; auto. Qed.

Lemma R_refl : forall s, R s s.
Proof. intro. apply F2_refl. apply nrel_refl. Qed.
Lemma R_trans : forall a b c, R a b -> R b c -> R a c.
Proof. intros. eapply F2_trans; eauto. apply nrel_trans. Qed.
Lemma R_shape : forall s s', R s s' -> shape s s'.
Proof. intros s s' H. apply (F2_impl nrel nshape); auto. intros x y H0. apply H0. Qed.

Lemma cleared_R : forall s s' q, R s s' -> cleared s q -> cleared s' q.
Proof.
  intros s s' q H (y & E & A & B & C). destruct (F2_nth _ _ _ _ _ H E) as (y' & E' & N).
  exists y'. split; auto. split; [eapply nrel_unhashed; eauto|].
  destruct N as (_ & _ & [b|b] & [c|c]); split; congruence.
Qed.

Lemma RR_refl : forall s, RR s s.
Proof.
  intro s. split; [apply R_refl|]. intros m x x' E E' H H'. congruence.
Qed.

Lemma RR_trans : forall a b c, RR a b -> RR b c -> RR a c.
Proof.
  intros a b c [R1 P1] [R2 P2]. split; [eapply R_trans; eauto|].
  intros m x x'' E E'' H H'' q I.
  destruct (F2_nth _ _ _ _ _ R1 E) as (x' & E' & N).
  destruct (hashed x') eqn:H'.
  - eapply P2; eauto. destruct N as ((_ & _ & _ & Pp) & _). rewrite Pp. exact I.
  - eapply cleared_R; eauto.
Qed.

(* ---- fuel measure of invalidate: the number of nodes with a (truthy) cached hash *)
Definition ncached (s : heap) : nat := length (filter hashed s).

Lemma ncached_R : forall s s', R s s' -> ncached s' <= ncached s.
Proof.
  intros s s' H. unfold ncached. induction H as [|x y s s' N H IH]; simpl; auto.
  destruct (hashed y) eqn:Hy.
  - apply nrel_hashed in N; auto. destruct N as [Hx _]. rewrite Hx. simpl. lia.
  - destruct (hashed x); simpl; lia.
Qed.

Lemma ncached_uncache : forall s n x, nth_error s n = Some x -> hashed x = true ->
  ncached (upd n uncache s) < ncached s.
Proof.
  unfold ncached. induction s as [|a s IH]; intros [|n] x E H; simpl in *; try discriminate.
  - inversion E; subst. rewrite H. simpl. lia.
  - specialize (IH n x E H). destruct (hashed a); simpl; lia.
Qed.

Lemma ncached_le_length : forall s, ncached s <= length s.
Proof. intro s. unfold ncached. induction s as [|a s IH]; simpl; auto. destruct (hashed a); simpl; lia. Qed.

Definition wfp (s : heap) : Prop :=
  forall n x, nth_error s n = Some x -> forall q, In q (parents x) -> q < length s.

Lemma wfp_shape : forall s s', shape s s' -> wfp s -> wfp s'.
Proof.
  intros s s' H W n x' E q I. destruct (F2_nth_r _ _ _ _ _ H E) as (x & E0 & (_ & _ & _ & P)).
  rewrite <- (F2_len _ _ _ H). eapply W; eauto. rewrite <- P. exact I.
Qed.

Lemma invalidate_ok : forall fuel n s, wfp s -> ncached s < fuel -> n < length s ->
  exists s', invalidate fuel n s = Ok s' /\ RR s s' /\ cleared s' n.
Proof.
  induction fuel as [|f IH]; intros n s W F L; [lia|].
  destruct (get_lt s n L) as [x E]. simpl. unfold get. rewrite E. simpl.
  destruct (hashed x) eqn:Hx.
  - set (s0 := upd n uncache s).
    assert (R0 : R s s0).
    { apply F2_upd; [apply nrel_refl|]. intros y Ey. assert (y = x) by congruence. subst. apply nrel_uncache. }
    assert (E0 : nth_error s0 n = Some (uncache x)) by (unfold s0; rewrite nth_upd_same, E; reflexivity).
    assert (C0 : cleared s0 n) by (exists (uncache x); auto).
    assert (F0 : ncached s0 < f) by (pose proof (ncached_uncache s n x E Hx); unfold s0; lia).
    assert (FOLD : forall l t, (forall q, In q l -> q < length t) -> wfp t -> ncached t < f ->
              exists t', fold_res (invalidate f) l t = Ok t' /\ RR t t' /\ forall q, In q l -> cleared t' q).
    { induction l as [|q l IHl]; intros t Hl Wt Ft; simpl.
      - exists t. split; auto. split; [apply RR_refl|]. intros q [].
      - destruct (IH q t Wt Ft (Hl q (or_introl eq_refl))) as (t1 & E1 & RR1 & C1).
        rewrite E1. simpl.
        assert (Sh1 : shape t t1) by (apply R_shape; apply RR1).
        destruct (IHl t1) as (t2 & E2 & RR2 & C2).
        + intros q' I. rewrite <- (F2_len _ _ _ Sh1). apply Hl. right. exact I.
        + eapply wfp_shape; eauto.
        + pose proof (ncached_R _ _ (proj1 RR1)). lia.
        + exists t2. split; auto. split; [eapply RR_trans; eauto|].
          intros q' [->|I]; [eapply cleared_R; [apply RR2 | exact C1] | auto]. }
    destruct (FOLD (parents x) s0) as (s' & E' & RR' & C').
    + intros q I. unfold s0. rewrite upd_length. eapply W; eauto.
    + eapply wfp_shape; [apply R_shape; exact R0 | exact W].
    + exact F0.
    + exists s'. split; [exact E'|]. split.
      * split; [eapply R_trans; [exact R0 | apply RR']|].
        intros m y y' Ey Ey' Hy Hy' q I.
        destruct (Nat.eq_dec m n) as [->|Nm].
        -- assert (y = x) by congruence. subst. apply C'. exact I.
        -- destruct RR' as [_ P'].
           assert (Ey0 : nth_error s0 m = Some y) by (unfold s0; rewrite nth_upd_other; auto).
           exact (P' m y y' Ey0 Ey' Hy Hy' q I).
      * eapply cleared_R; [apply RR' | exact C0].
  - exists (upd n clearc s). split; auto. split.
    + split.
      * apply F2_upd; [apply nrel_refl|]. intros y Ey. apply nrel_clearc.
      * intros m y y' Ey Ey' Hy Hy' q I. exfalso.
        rewrite nth_upd in Ey'. destruct (Nat.eqb m n).
        -- rewrite Ey in Ey'. simpl in Ey'. inversion Ey'; subst.
           unfold hashed, clearc in Hy'. simpl in Hy'. unfold hashed in Hy. congruence.
        -- congruence.
    + exists (clearc x). rewrite nth_upd_same, E. simpl. repeat split; auto.
Qed.

Lemma inval_ok : forall n s, wfp s -> n < length s ->
  exists s', inval n s = Ok s' /\ RR s s' /\ cleared s' n.
Proof.
  intros n s W L. unfold inval. apply invalidate_ok; auto.
  pose proof (ncached_le_length s). lia.
Qed.

(* ---- the invariant *)
Section WithNH.
Variable NH : bytes -> list entry -> bytes.

Record Inv0 (s : heap) : Prop := mkInv0 {
  I_wfk : forall n x nm k, nth_error s n = Some x -> In (nm, k) (kids x) -> k < length s;
  I_wfp : wfp s;
  I1 : forall n x, nth_error s n = Some x -> hashed x = true ->
       exists h, cached x = Some h /\ Fresh NH s n h /\ forall nm k, In (nm, k) (kids x) -> hashed_at s k;
  I2 : forall p x c y, nth_error s p = Some x -> nth_error s c = Some y ->
       cnt c (kids x) <= count_occ Nat.eq_dec (parents y) p;
  I3m : forall n x es, nth_error s n = Some x -> mcache x = Some es ->
       FreshKids NH s (kids x) es /\ forall nm k, In (nm, k) (kids x) -> hashed_at s k;
  I3e : forall n x es, nth_error s n = Some x -> ecache x = Some es ->
       FreshKids NH s (kids x) es /\ forall nm k, In (nm, k) (kids x) -> hashed_at s k }.

(* (I4) a collected node has a cached hash *)
Definition I4s (s : heap) : Prop := forall n x, nth_error s n = Some x -> collected x = true -> hashed x = true.
Definition Inv (s : heap) : Prop := Inv0 s /\ I4s s.

Lemma I2_in : forall s, Inv0 s -> forall p x nm c y, nth_error s p = Some x -> In (nm, c) (kids x) ->
  nth_error s c = Some y -> In p (parents y).
Proof.
  intros s I p x nm c y E Hin Ec. pose proof (I2 s I p x c y E Ec) as H.
  pose proof (cnt_in _ _ _ Hin). apply (count_occ_In Nat.eq_dec). lia.
Qed.

Lemma Inv0_init : Inv0 [].
Proof.
  split; try (intros n x; intros; destruct n; discriminate).
Qed.

(* a kid of a node that stays hashed stays hashed across an invalidation *)
Lemma RR_kids_hashed : forall s s', Inv0 s -> RR s s' ->
  forall n x x' nm k, nth_error s n = Some x -> nth_error s' n = Some x' -> hashed x' = true ->
  In (nm, k) (kids x) -> hashed_at s k -> hashed_at s' k.
Proof.
  intros s s' I [HR HP] n x x' nm k E E' H' Hin (y & Ey & Hy).
  destruct (F2_nth _ _ _ _ _ HR Ey) as (y' & Ey' & N).
  exists y'. split; auto. destruct (hashed y') eqn:Hy'; auto. exfalso.
  assert (Ip : In n (parents y)) by (eapply I2_in; eauto).
  destruct (HP k y y' Ey Ey' Hy Hy' n Ip) as (z & Ez & Hz & _). congruence.
Qed.

Lemma Inv0_RR : forall s s', Inv0 s -> RR s s' -> Inv0 s'.
Proof.
  intros s s' I HRR. pose proof HRR as [HR HP]. pose proof (R_shape _ _ HR) as Sh.
  pose proof (F2_len _ _ _ HR) as Len.
  split.
  - intros n x' nm k E' Hin. destruct (F2_nth_r _ _ _ _ _ Sh E') as (x & E & (_ & _ & K & _)).
    rewrite <- Len. rewrite K in Hin. eapply I_wfk; eauto.
  - eapply wfp_shape; eauto. apply I_wfp. exact I.
  - intros n x' E' H'. destruct (F2_nth_r _ _ _ _ _ HR E') as (x & E & N).
    destruct (nrel_hashed _ _ N H') as (Hx & Cx & _).
    destruct (I1 s I n x E Hx) as (h & Ch & Fh & Kh).
    exists h. split; [congruence|]. split; [apply (Fresh_shape NH s s' Sh); auto|].
    destruct N as ((_ & _ & K & _) & _). rewrite K. intros nm k Hin.
    eapply RR_kids_hashed; eauto.
  - intros p x' c y' E' Ec'.
    destruct (F2_nth_r _ _ _ _ _ Sh E') as (x & E & (_ & _ & K & _)).
    destruct (F2_nth_r _ _ _ _ _ Sh Ec') as (y & Ec & (_ & _ & _ & P)).
    rewrite K, P. eapply I2; eauto.
  - intros n x' es E' M'. destruct (F2_nth_r _ _ _ _ _ HR E') as (x & E & N).
    pose proof N as ((_ & _ & K & _) & A & _ & [Cm|Cm]); [|congruence].
    rewrite Cm in M'. destruct (I3m s I n x es E M') as [Fk Hk]. rewrite K. split.
    + apply (Fresh_shape NH s s' Sh); auto.
    + intros nm k Hin. specialize (Hk nm k Hin). destruct Hk as (y & Ey & Hy).
      destruct (F2_nth _ _ _ _ _ HR Ey) as (y' & Ey' & Ny).
      exists y'. split; auto. destruct (hashed y') eqn:Hy'; auto. exfalso.
      assert (Ip : In n (parents y)) by (eapply I2_in; eauto).
      destruct (HP k y y' Ey Ey' Hy Hy' n Ip) as (z & Ez & _ & _ & Mz). congruence.
  - intros n x' es E' M'. destruct (F2_nth_r _ _ _ _ _ HR E') as (x & E & N).
    pose proof N as ((_ & _ & K & _) & A & [Cm|Cm] & _); [|congruence].
    rewrite Cm in M'. destruct (I3e s I n x es E M') as [Fk Hk]. rewrite K. split.
    + apply (Fresh_shape NH s s' Sh); auto.
    + intros nm k Hin. specialize (Hk nm k Hin). destruct Hk as (y & Ey & Hy).
      destruct (F2_nth _ _ _ _ _ HR Ey) as (y' & Ey' & Ny).
      exists y'. split; auto. destruct (hashed y') eqn:Hy'; auto. exfalso.
      assert (Ip : In n (parents y)) by (eapply I2_in; eauto).
      destruct (HP k y y' Ey Ey' Hy Hy' n Ip) as (z & Ez & _ & Mz & _). congruence.
Qed.

Lemma I4s_R : forall s s', I4s s -> R s s' -> I4s s'.
Proof.
  intros s s' I HR n x' E' C'. destruct (F2_nth_r _ _ _ _ _ HR E') as (x & E & N).
  destruct N as (_ & [[a b]|(a & b & _)] & _); [|congruence].
  rewrite (hashed_cached _ _ a). eapply I; eauto; congruence.
Qed.

Lemma Inv_RR : forall s s', Inv s -> RR s s' -> Inv s'.
Proof. intros s s' [A B] H. split; [eapply Inv0_RR; eauto | eapply I4s_R; eauto; apply H]. Qed.

Lemma Inv_init : Inv [].
Proof. split; [apply Inv0_init|]. intros n x E. destruct n; discriminate. Qed.

End WithNH.
