(* Proofs about model/Discovery.v (C17).

   Main results (re-exported by Props/C17.v):
     discovery_any_sampler  the whole statement for an arbitrary sampler oracle
                            (either the oracle broke random.sample's contract in
                            some round, or the result is exact)
     discovery_exact, discovery_callbacks, discovery_progress, hyps_satisfiable.

   Neither acyclicity of the directory relation nor "every entry is in the
   set" is needed: the marking loop terminates because |to_process U undecided|
   strictly decreases, and entries outside the set are never undecided. *)
From Coq Require Import List NArith Bool Arith Lia Permutation.
From SWH.model Require Import Discovery.
Import ListNotations.

(* ------------------------------------------------------------------ *)
(* the property's hypotheses *)

(* a known directory of the set has only known entries among the objects of the set *)
Definition closed (missing : N -> bool) (contents skipped : list N) (dirs : list dirent) : Prop :=
  forall d cs, In (d, cs) dirs -> missing d = false ->
  forall c, In c cs -> In c (objects contents skipped dirs) -> missing c = false.

(* what random.sample guarantees whenever the code calls it *)
Definition sampler_ok (sample_size : N) (sampler : sampler_oracle) : Prop :=
  forall r ud, NoDup ud -> (sample_size < N.of_nat (length ud))%N ->
  sample_contract sample_size ud (sampler r ud) = true.

(* ------------------------------------------------------------------ *)
(* sets as lists *)

Lemma memN_In : forall x l, memN x l = true <-> In x l.
Proof.
  intros x l. unfold memN. rewrite existsb_exists. split.
  - intros [y [Hy He]]. apply N.eqb_eq in He. subst. assumption.
  - intros H. exists x. split; [assumption|apply N.eqb_refl].
Qed.

Lemma memN_notIn : forall x l, memN x l = false <-> ~ In x l.
Proof.
  intros x l. rewrite <- memN_In. destruct (memN x l); split; intros H; congruence.
Qed.

Lemma negb_memN : forall x l, negb (memN x l) = true <-> ~ In x l.
Proof. intros. rewrite negb_true_iff. apply memN_notIn. Qed.

Lemma NoDup_snoc : forall (A : Type) (l : list A) x, NoDup l -> ~ In x l -> NoDup (l ++ [x]).
Proof.
  intros A l x Hn Hx. apply (Permutation_NoDup (l := x :: l)).
  - apply Permutation_cons_append.
  - constructor; assumption.
Qed.

Lemma set_add_In : forall x y l, In y (set_add x l) <-> y = x \/ In y l.
Proof.
  intros x y l. unfold set_add. destruct (memN x l) eqn:E.
  - apply memN_In in E. split; [auto|]. intros [->|H]; assumption.
  - rewrite in_app_iff. simpl. split.
    + intros [H|[H|[]]]; auto.
    + intros [H|H]; auto.
Qed.

Lemma set_add_NoDup : forall x l, NoDup l -> NoDup (set_add x l).
Proof.
  intros x l Hn. unfold set_add. destruct (memN x l) eqn:E; [assumption|].
  apply NoDup_snoc; [assumption|]. apply memN_notIn. assumption.
Qed.

Lemma set_union_In : forall m l y, In y (set_union l m) <-> In y l \/ In y m.
Proof.
  unfold set_union. induction m as [|a m IH]; simpl; intros l y.
  - tauto.
  - rewrite IH, set_add_In. split.
    + intros [[->|H]|H]; auto.
    + intros [H|[->|H]]; auto.
Qed.

Lemma set_union_NoDup : forall m l, NoDup l -> NoDup (set_union l m).
Proof.
  unfold set_union. induction m as [|a m IH]; simpl; intros l Hn; [assumption|].
  apply IH. apply set_add_NoDup. assumption.
Qed.

Lemma set_remove_In : forall x y l, In y (set_remove x l) <-> In y l /\ y <> x.
Proof.
  intros x y l. unfold set_remove. rewrite filter_In, negb_true_iff, N.eqb_neq.
  split; intros [H1 H2]; split; auto.
Qed.

Lemma set_remove_NoDup : forall x l, NoDup l -> NoDup (set_remove x l).
Proof. intros. apply NoDup_filter. assumption. Qed.

Lemma set_inter_In : forall l m y, In y (set_inter l m) <-> In y l /\ In y m.
Proof. intros. unfold set_inter. rewrite filter_In, memN_In. tauto. Qed.

Lemma set_diff_In : forall l m y, In y (set_diff l m) <-> In y l /\ ~ In y m.
Proof. intros. unfold set_diff. rewrite filter_In, negb_memN. tauto. Qed.

Lemma nodupb_NoDup : forall l, nodupb l = true <-> NoDup l.
Proof.
  induction l as [|x l IH]; simpl.
  - split; [constructor|reflexivity].
  - rewrite andb_true_iff, negb_memN, IH. split.
    + intros [H1 H2]. constructor; assumption.
    + intros H. inversion H; subst. split; assumption.
Qed.

Lemma subsetb_incl : forall l m, subsetb l m = true <-> incl l m.
Proof.
  intros l m. unfold subsetb. rewrite forallb_forall. unfold incl.
  split; intros H x Hx; [apply memN_In|apply memN_In]; auto.
Qed.

(* ------------------------------------------------------------------ *)
(* lengths of filters, and the termination measure of _mark_entries *)

Lemma filter_len_le : forall (A : Type) (f : A -> bool) l, length (filter f l) <= length l.
Proof. induction l as [|a l IH]; simpl; [lia|]. destruct (f a); simpl; lia. Qed.

Lemma filter_len_mono : forall (A : Type) (f g : A -> bool) l,
  (forall y, In y l -> f y = true -> g y = true) -> length (filter f l) <= length (filter g l).
Proof.
  induction l as [|a l IH]; simpl; intros H; [lia|].
  assert (IH' : length (filter f l) <= length (filter g l)) by (apply IH; intros; apply H; auto).
  destruct (f a) eqn:Ef.
  - rewrite (H a (or_introl eq_refl) Ef). simpl. lia.
  - destruct (g a); simpl; lia.
Qed.

Lemma filter_len_strict : forall (A : Type) (f g : A -> bool) l x,
  (forall y, In y l -> f y = true -> g y = true) -> In x l -> f x = false -> g x = true ->
  length (filter f l) < length (filter g l).
Proof.
  induction l as [|a l IH]; simpl; intros x H Hx Hf Hg; [contradiction|].
  assert (Hm : length (filter f l) <= length (filter g l))
    by (apply filter_len_mono; intros; apply H; auto).
  destruct Hx as [->|Hx].
  - rewrite Hf, Hg. simpl. lia.
  - assert (IH' : length (filter f l) < length (filter g l))
      by (apply (IH x); auto; intros; apply H; auto).
    destruct (f a) eqn:Ef.
    + rewrite (H a (or_introl eq_refl) Ef). simpl. lia.
    + destruct (g a); simpl; lia.
Qed.

Lemma filter_len_lt : forall (A : Type) (f : A -> bool) l x,
  In x l -> f x = false -> length (filter f l) < length l.
Proof.
  induction l as [|a l IH]; simpl; intros x Hx Hf; [contradiction|].
  destruct Hx as [->|Hx].
  - rewrite Hf. pose proof (filter_len_le A f l). lia.
  - pose proof (IH x Hx Hf). destruct (f a); simpl; lia.
Qed.

Lemma filter_filter_len : forall (A : Type) (f g h : A -> bool) l,
  (forall y, In y l -> h y = true -> f y = true -> g y = true) ->
  length (filter f (filter h l)) <= length (filter g l).
Proof.
  induction l as [|a l IH]; simpl; intros H; [lia|].
  assert (IH' : length (filter f (filter h l)) <= length (filter g l))
    by (apply IH; intros; apply H; auto).
  destruct (h a) eqn:Eh; simpl.
  - destruct (f a) eqn:Ef; simpl.
    + rewrite (H a (or_introl eq_refl) Eh Ef). simpl. lia.
    + destruct (g a); simpl; lia.
  - destruct (g a); simpl; lia.
Qed.

(* |to_process U undecided| *)
Definition meas (tp und : list N) : nat := length tp + length (set_diff und tp).

Lemma meas_bound : forall tp und, meas tp und <= length tp + length und.
Proof. intros. unfold meas, set_diff. pose proof (filter_len_le N (fun y => negb (memN y tp)) und). lia. Qed.

Lemma meas_add : forall x tp und, In x und -> meas (set_add x tp) und <= meas tp und.
Proof.
  intros x tp und Hx. unfold set_add. destruct (memN x tp) eqn:E; [lia|].
  unfold meas, set_diff. rewrite app_length. simpl.
  assert (length (filter (fun y => negb (memN y (tp ++ [x]))) und)
          < length (filter (fun y => negb (memN y tp)) und)).
  { apply (filter_len_strict N _ _ und x).
    - intros y _ Hy. apply negb_memN in Hy. apply negb_memN. intro Hi. apply Hy.
      apply in_or_app. left. assumption.
    - assumption.
    - apply negb_false_iff. apply memN_In. apply in_or_app. right. left. reflexivity.
    - rewrite E. reflexivity. }
  lia.
Qed.

Lemma meas_union : forall next tp und, incl next und -> meas (set_union tp next) und <= meas tp und.
Proof.
  unfold set_union. induction next as [|a next IH]; simpl; intros tp und Hi; [lia|].
  assert (H1 : meas (set_add a tp) und <= meas tp und) by (apply meas_add; apply Hi; left; reflexivity).
  assert (H2 : incl next und) by (intros y Hy; apply Hi; right; assumption).
  specialize (IH (set_add a tp) und H2). lia.
Qed.

Lemma meas_remove : forall cur tp und, In cur tp ->
  meas (set_remove cur tp) (set_remove cur und) < meas tp und.
Proof.
  intros cur tp und Hc. unfold meas.
  assert (H1 : length (set_remove cur tp) < length tp).
  { unfold set_remove. apply (filter_len_lt N _ tp cur Hc). rewrite N.eqb_refl. reflexivity. }
  assert (H2 : length (set_diff (set_remove cur und) (set_remove cur tp)) <= length (set_diff und tp)).
  { unfold set_diff at 1. unfold set_remove at 1. unfold set_diff. apply filter_filter_len.
    intros y _ Hy1 Hy2. apply negb_memN in Hy2. apply negb_memN. intro Hi. apply Hy2.
    apply set_remove_In. split; [assumption|].
    apply negb_true_iff in Hy1. apply N.eqb_neq in Hy1. congruence. }
  lia.
Qed.

Lemma nodup_shrink : forall (l l' : list N) x,
  NoDup l' -> incl l' l -> In x l -> ~ In x l' -> length l' < length l.
Proof.
  intros l l' x Hn Hi Hx Hnx.
  assert (H : length (x :: l') <= length l).
  { apply NoDup_incl_length; [constructor; assumption|].
    intros y [<-|Hy]; [assumption|apply Hi; assumption]. }
  simpl in H. lia.
Qed.

(* ------------------------------------------------------------------ *)
(* the graph *)

Lemma last_children_In : forall d c dirs acc, In c (last_children d dirs acc) ->
  In c acc \/ exists cs, In (d, cs) dirs /\ In c cs.
Proof.
  intros d c. induction dirs as [|p dirs IH]; simpl; intros acc H; [left; assumption|].
  apply IH in H. destruct H as [H|[cs [H1 H2]]].
  - destruct (N.eqb d (fst p)) eqn:E; [|left; assumption].
    apply N.eqb_eq in E. right. exists (snd p). split; [|assumption]. left.
    destruct p as [d' cs]. simpl in *. subst. reflexivity.
  - right. exists cs. split; [right|]; assumption.
Qed.

Lemma children_of_In : forall dirs d c, In c (children_of dirs d) -> exists cs, In (d, cs) dirs /\ In c cs.
Proof.
  intros dirs d c H. unfold children_of in H. apply last_children_In in H.
  destruct H as [[]|H]. assumption.
Qed.

Lemma parents_of_In : forall dirs c d, In d (parents_of dirs c) -> exists cs, In (d, cs) dirs /\ In c cs.
Proof.
  intros dirs c d H. unfold parents_of in H. apply in_map_iff in H.
  destruct H as [[d' cs] [Hf Hin]]. simpl in Hf. subst d'. apply filter_In in Hin.
  destruct Hin as [Hin Hm]. simpl in Hm. apply memN_In in Hm. exists cs. split; assumption.
Qed.

Lemma closedb_sound : forall missing contents skipped dirs,
  closedb missing contents skipped dirs = true -> closed missing contents skipped dirs.
Proof.
  intros missing contents skipped dirs H d cs Hin Hd c Hc Hobj.
  unfold closedb in H. rewrite forallb_forall in H. specialize (H _ Hin). simpl in H.
  rewrite Hd in H. simpl in H. rewrite forallb_forall in H. specialize (H _ Hc).
  apply memN_In in Hobj. rewrite Hobj in H. simpl in H. apply negb_true_iff in H. assumption.
Qed.

(* ------------------------------------------------------------------ *)
Section Main.

Variables (contents skipped : list N) (dirs : list dirent) (missing : N -> bool).
Let objs := objects contents skipped dirs.
Hypothesis Hclosed : closed missing contents skipped dirs.

(* the invariant of the discovery graph *)
Record Inv (st : state) : Prop := {
  inv_nd : NoDup (undecided st);
  inv_sub : incl (undecided st) objs;
  inv_ud_nd : NoDup (undecided_dirs st);
  inv_ud : forall x, In x (undecided_dirs st) <-> In x (undecided st) /\ In x (dir_ids dirs);
  inv_known : forall x, In x (known st) -> missing x = false;
  inv_unknown : forall x, In x (unknown st) -> missing x = true;
  inv_cover : forall x, In x objs -> In x (undecided st) \/ In x (known st) \/ In x (unknown st);
  inv_ev_nd : NoDup (map fst (events st));
  inv_ev : forall o b, In (o, b) (events st) -> b = negb (missing o) /\ In o objs /\ ~ In o (undecided st);
  inv_ev_cover : forall o, In o objs -> In o (undecided st) \/ In o (map fst (events st))
}.

(* the archive's answer for the elements walked by mark_known / mark_unknown *)
Definition flag (tg : target) : bool := match tg with TKnown => false | TUnknown => true end.

Lemma mark_step_inv : forall tg cur st st' next,
  Inv st -> In cur objs -> missing cur = flag tg ->
  mark_step dirs tg cur st = (st', next) ->
  Inv st' /\ undecided st' = set_remove cur (undecided st) /\
  incl next (undecided st') /\ (forall x, In x next -> missing x = flag tg).
Proof.
  intros tg cur st st' next I Hc Hm E. unfold mark_step in E.
  injection E as <- <-.
  assert (Hnext : forall x, In x (set_inter match tg with
                                             | TKnown => children_of dirs cur
                                             | TUnknown => parents_of dirs cur
                                             end (set_remove cur (undecided st))) ->
                            In x (set_remove cur (undecided st)) /\ missing x = flag tg).
  { intros x Hx. apply set_inter_In in Hx. destruct Hx as [Hmap Hund]. split; [assumption|].
    assert (Hxo : In x objs).
    { apply (inv_sub st I). apply set_remove_In in Hund. tauto. }
    destruct tg; simpl in *.
    - apply children_of_In in Hmap. destruct Hmap as [cs [Hin Hx]].
      exact (Hclosed cur cs Hin Hm x Hx Hxo).
    - apply parents_of_In in Hmap. destruct Hmap as [cs [Hin Hx]].
      destruct (missing x) eqn:Ex; [reflexivity|].
      pose proof (Hclosed x cs Hin Ex cur Hx Hc) as Hk. congruence. }
  split; [|split; [reflexivity|split]].
  - constructor; simpl.
    + apply set_remove_NoDup. apply (inv_nd st I).
    + intros x Hx. apply set_remove_In in Hx. apply (inv_sub st I). tauto.
    + apply set_remove_NoDup. apply (inv_ud_nd st I).
    + intros x. rewrite !set_remove_In. rewrite (inv_ud st I x). tauto.
    + intros x Hx. destruct tg.
      * apply set_add_In in Hx. destruct Hx as [->|Hx]; [exact Hm|apply (inv_known st I); assumption].
      * apply (inv_known st I); assumption.
    + intros x Hx. destruct tg.
      * apply (inv_unknown st I); assumption.
      * apply set_add_In in Hx. destruct Hx as [->|Hx]; [exact Hm|apply (inv_unknown st I); assumption].
    + intros x Hx. destruct (N.eq_dec x cur) as [->|Hne].
      * right. destruct tg; [left|right]; apply set_add_In; left; reflexivity.
      * destruct (inv_cover st I x Hx) as [H|[H|H]].
        -- left. apply set_remove_In. split; assumption.
        -- right. left. destruct tg; [apply set_add_In; right|]; assumption.
        -- right. right. destruct tg; [|apply set_add_In; right]; assumption.
    + destruct (memN cur (undecided st)) eqn:En; [|apply (inv_ev_nd st I)].
      rewrite map_app. simpl. apply NoDup_snoc; [apply (inv_ev_nd st I)|].
      intro Hin. apply in_map_iff in Hin. destruct Hin as [[o b] [Ho Hin]]. simpl in Ho. subst o.
      apply (inv_ev st I) in Hin. apply memN_In in En. tauto.
    + intros o b Hin.
      assert (Hold : In (o, b) (events st) ->
                     b = negb (missing o) /\ In o objs /\ ~ In o (set_remove cur (undecided st))).
      { intros H. apply (inv_ev st I) in H. destruct H as [H1 [H2 H3]].
        split; [assumption|split; [assumption|]]. intro Hr. apply set_remove_In in Hr. tauto. }
      destruct (memN cur (undecided st)) eqn:En; [|auto].
      apply in_app_or in Hin. destruct Hin as [Hin|[Hin|[]]]; [auto|].
      injection Hin as <- <-. split; [|split; [assumption|]].
      * rewrite Hm. destruct tg; simpl.
        -- apply memN_In. apply set_add_In. left. reflexivity.
        -- apply memN_notIn. intro Hk. apply (inv_known st I) in Hk. simpl in Hm. congruence.
      * intro Hr. apply set_remove_In in Hr. tauto.
    + intros o Ho. destruct (N.eq_dec o cur) as [->|Hne].
      * destruct (inv_ev_cover st I cur Ho) as [H|H].
        -- right. apply memN_In in H. rewrite H. rewrite map_app. apply in_or_app. right. left. reflexivity.
        -- right. destruct (memN cur (undecided st)); [rewrite map_app; apply in_or_app; left|]; assumption.
      * destruct (inv_ev_cover st I o Ho) as [H|H].
        -- left. apply set_remove_In. split; assumption.
        -- right. destruct (memN cur (undecided st)); [rewrite map_app; apply in_or_app; left|]; assumption.
  - intros x Hx. simpl. apply Hnext in Hx. tauto.
  - intros x Hx. apply Hnext in Hx. tauto.
Qed.

Lemma mark_unfold : forall fuel pick tg x0 tp st,
  mark (S fuel) pick dirs tg (x0 :: tp) st =
  let cur := nth (Nat.modulo (pick (clock st) (x0 :: tp)) (length (x0 :: tp))) (x0 :: tp) x0 in
  let (st', next) := mark_step dirs tg cur st in
  mark fuel pick dirs tg (set_union (set_remove cur (x0 :: tp)) next) st'.
Proof. reflexivity. Qed.

(* _mark_entries: never out of fuel, keeps the invariant, only removes from
   undecided, and decides every entry it was given *)
Lemma mark_correct : forall tg pick fuel tp st,
  Inv st -> incl tp objs -> (forall x, In x tp -> missing x = flag tg) ->
  meas tp (undecided st) < fuel ->
  exists st', mark fuel pick dirs tg tp st = Some st' /\ Inv st' /\
              incl (undecided st') (undecided st) /\
              (forall x, In x tp -> ~ In x (undecided st')).
Proof.
  intros tg pick. induction fuel as [|fuel IH]; intros tp st I Hsub Hfl Hm; [lia|].
  destruct tp as [|x0 tp].
  - exists st. simpl. split; [reflexivity|split; [assumption|split; [apply incl_refl|]]].
    intros x [].
  - rewrite mark_unfold.
    set (cur := nth (Nat.modulo (pick (clock st) (x0 :: tp)) (length (x0 :: tp))) (x0 :: tp) x0).
    assert (Hcur : In cur (x0 :: tp)).
    { apply nth_In. apply Nat.mod_upper_bound. simpl. discriminate. }
    cbv zeta. destruct (mark_step dirs tg cur st) as [st1 next] eqn:E.
    destruct (mark_step_inv tg cur st st1 next I (Hsub _ Hcur) (Hfl _ Hcur) E)
      as [I1 [Hu1 [Hn1 Hn2]]].
    assert (Hsub1 : incl (set_union (set_remove cur (x0 :: tp)) next) objs).
    { intros x Hx. apply set_union_In in Hx. destruct Hx as [Hx|Hx].
      - apply set_remove_In in Hx. apply Hsub. tauto.
      - apply (inv_sub st1 I1). apply Hn1. assumption. }
    assert (Hfl1 : forall x, In x (set_union (set_remove cur (x0 :: tp)) next) -> missing x = flag tg).
    { intros x Hx. apply set_union_In in Hx. destruct Hx as [Hx|Hx].
      - apply set_remove_In in Hx. apply Hfl. tauto.
      - apply Hn2. assumption. }
    assert (Hm1 : meas (set_union (set_remove cur (x0 :: tp)) next) (undecided st1) < fuel).
    { pose proof (meas_union next (set_remove cur (x0 :: tp)) (undecided st1) Hn1) as H1.
      rewrite Hu1 in H1 |- *.
      pose proof (meas_remove cur (x0 :: tp) (undecided st) Hcur) as H2. lia. }
    destruct (IH _ st1 I1 Hsub1 Hfl1 Hm1) as [st2 [E2 [I2 [Hi2 Hd2]]]].
    exists st2. split; [assumption|split; [assumption|split]].
    + intros x Hx. apply Hi2 in Hx. rewrite Hu1 in Hx. apply set_remove_In in Hx. tauto.
    + intros x Hx. destruct (N.eq_dec x cur) as [->|Hne].
      * intro Hin. apply Hi2 in Hin. rewrite Hu1 in Hin. apply set_remove_In in Hin. tauto.
      * apply Hd2. apply set_union_In. left. apply set_remove_In. split; assumption.
Qed.

Lemma Inv_log_query : forall kind sample st, Inv st -> Inv (log_query kind sample st).
Proof. intros kind sample st I. destruct I. constructor; simpl; assumption. Qed.

(* one archive query of do_query *)
Lemma query_one_correct : forall pick kind sample st,
  Inv st -> incl sample objs ->
  exists st', query_one pick dirs missing kind sample st = Some st' /\ Inv st' /\
              incl (undecided st') (undecided st) /\
              (forall x, In x sample -> ~ In x (undecided st')).
Proof.
  intros pick kind sample st I Hsub. destruct sample as [|a s].
  - exists st. simpl. split; [reflexivity|split; [assumption|split; [apply incl_refl|]]]. intros x [].
  - unfold query_one. set (sample := a :: s) in *.
    set (st0 := log_query kind sample st).
    assert (I0 : Inv st0) by (apply Inv_log_query; assumption).
    set (unk := filter missing sample). set (kn := set_diff sample unk).
    assert (Hkn : forall x, In x kn -> In x sample /\ missing x = false).
    { intros x Hx. apply set_diff_In in Hx. destruct Hx as [H1 H2]. split; [assumption|].
      destruct (missing x) eqn:Ex; [|reflexivity]. exfalso. apply H2. apply filter_In. split; assumption. }
    assert (Hunk : forall x, In x unk -> In x sample /\ missing x = true).
    { intros x Hx. apply filter_In in Hx. assumption. }
    destruct (mark_correct TKnown pick (mark_fuel kn st0) kn st0 I0) as [st1 [E1 [I1 [Hi1 Hd1]]]].
    { intros x Hx. apply Hsub. apply Hkn. assumption. }
    { intros x Hx. apply Hkn. assumption. }
    { unfold mark_fuel. pose proof (meas_bound kn (undecided st0)). lia. }
    rewrite E1.
    destruct (mark_correct TUnknown pick (mark_fuel unk st1) unk st1 I1) as [st2 [E2 [I2 [Hi2 Hd2]]]].
    { intros x Hx. apply Hsub. apply Hunk. assumption. }
    { intros x Hx. apply Hunk. assumption. }
    { unfold mark_fuel. pose proof (meas_bound unk (undecided st1)). lia. }
    exists st2. split; [assumption|split; [assumption|split]].
    + intros x Hx. apply Hi2 in Hx. apply Hi1 in Hx. exact Hx.
    + intros x Hx. destruct (missing x) eqn:Ex.
      * apply Hd2. apply filter_In. split; assumption.
      * intro Hin. apply Hi2 in Hin. revert Hin. apply Hd1. apply set_diff_In. split; [assumption|].
        intro Hf. apply filter_In in Hf. destruct Hf as [_ Hf]. congruence.
Qed.

Lemma do_query_correct : forall pick sc ss sd st,
  Inv st -> incl sc objs -> incl ss objs -> incl sd objs ->
  exists st', do_query pick dirs missing sc ss sd st = Some st' /\ Inv st' /\
              incl (undecided st') (undecided st) /\
              (forall x, In x (sc ++ ss ++ sd) -> ~ In x (undecided st')).
Proof.
  intros pick sc ss sd st I H1 H2 H3. unfold do_query.
  destruct (query_one_correct pick 0%N sc st I H1) as [st1 [E1 [I1 [Hi1 Hd1]]]]. rewrite E1.
  destruct (query_one_correct pick 1%N ss st1 I1 H2) as [st2 [E2 [I2 [Hi2 Hd2]]]]. rewrite E2.
  destruct (query_one_correct pick 2%N sd st2 I2 H3) as [st3 [E3 [I3 [Hi3 Hd3]]]].
  exists st3. split; [assumption|split; [assumption|split]].
  - intros x Hx. apply Hi1, Hi2, Hi3. assumption.
  - intros x Hx Hin. apply in_app_or in Hx. destruct Hx as [Hx|Hx].
    + apply (Hd1 x Hx). apply Hi2, Hi3. assumption.
    + apply in_app_or in Hx. destruct Hx as [Hx|Hx].
      * apply (Hd2 x Hx). apply Hi3. assumption.
      * apply (Hd3 x Hx). assumption.
Qed.

(* get_sample: never a KeyError; the three samples are undecided objects, and
   at least one is non-empty while something is undecided; the only failure is
   an oracle that broke the contract of random.sample *)
Lemma get_sample_correct : forall ssz sampler r st, Inv st -> (0 < ssz)%N ->
  match get_sample ssz sampler contents skipped r st with
  | SampleOk sc ss sd =>
      incl sc (undecided st) /\ incl ss (undecided st) /\ incl sd (undecided st) /\
      (undecided st <> [] -> exists x, In x (sc ++ ss ++ sd))
  | SampleKeyError => False
  | SampleBad => (ssz < N.of_nat (length (undecided_dirs st)))%N /\
                 sample_contract ssz (undecided_dirs st) (sampler r (undecided_dirs st)) = false
  end.
Proof.
  intros ssz sampler r st I Hpos. unfold get_sample.
  destruct (undecided_dirs st) as [|d ud] eqn:Eud.
  - assert (Hall : forallb (fun x => memN x contents || memN x skipped) (undecided st) = true).
    { apply forallb_forall. intros x Hx. pose proof (inv_sub st I x Hx) as Ho.
      unfold objs, objects in Ho. apply in_app_or in Ho. destruct Ho as [Ho|Ho].
      - apply memN_In in Ho. rewrite Ho. reflexivity.
      - apply in_app_or in Ho. destruct Ho as [Ho|Ho].
        + apply memN_In in Ho. rewrite Ho. apply orb_true_r.
        + exfalso. assert (Hin : In x (undecided_dirs st)) by (apply (inv_ud st I); split; assumption).
          rewrite Eud in Hin. contradiction. }
    rewrite Hall. split; [|split; [|split]].
    + intros x Hx. apply filter_In in Hx. tauto.
    + intros x Hx. apply filter_In in Hx. tauto.
    + intros x [].
    + intros Hne. destruct (undecided st) as [|u und]; [congruence|]. exists u.
      rewrite app_nil_r. apply in_or_app. destruct (memN u skipped) eqn:Es.
      * right. apply filter_In. split; [left; reflexivity|assumption].
      * left. apply filter_In. split; [left; reflexivity|rewrite Es; reflexivity].
  - rewrite <- Eud.
    assert (Hud : incl (undecided_dirs st) (undecided st)).
    { intros x Hx. apply (inv_ud st I) in Hx. tauto. }
    destruct (N.leb (N.of_nat (length (undecided_dirs st))) ssz) eqn:El.
    + split; [intros x []|split; [intros x []|split; [assumption|]]].
      intros _. exists d. simpl. rewrite Eud. left. reflexivity.
    + apply N.leb_gt in El.
      destruct (sample_contract ssz (undecided_dirs st) (sampler r (undecided_dirs st))) eqn:C.
      * unfold sample_contract in C. apply andb_true_iff in C. destruct C as [C C3].
        apply andb_true_iff in C. destruct C as [C1 C2].
        apply subsetb_incl in C2. apply N.eqb_eq in C3.
        split; [intros x []|split; [intros x []|split]].
        -- intros x Hx. apply Hud. apply C2. assumption.
        -- intros _. destruct (sampler r (undecided_dirs st)) as [|x s].
           ++ simpl in C3. lia.
           ++ exists x. simpl. left. reflexivity.
      * split; [assumption|reflexivity].
Qed.

(* one round of the outer loop *)
Lemma round_correct : forall ssz sampler pick r st, Inv st -> (0 < ssz)%N ->
  match round ssz sampler pick missing contents skipped dirs r st with
  | RoundOk st' => Inv st' /\ incl (undecided st') (undecided st) /\
                   (undecided st <> [] -> length (undecided st') < length (undecided st))
  | RoundBadSample => (ssz < N.of_nat (length (undecided_dirs st)))%N /\
                      sample_contract ssz (undecided_dirs st) (sampler r (undecided_dirs st)) = false
  | RoundOutOfFuel | RoundKeyError => False
  end.
Proof.
  intros ssz sampler pick r st I Hpos. unfold round.
  pose proof (get_sample_correct ssz sampler r st I Hpos) as G.
  destruct (get_sample ssz sampler contents skipped r st) as [sc ss sd| |]; [|contradiction|assumption].
  destruct G as [G1 [G2 [G3 G4]]].
  destruct (do_query_correct pick sc ss sd st I) as [st' [E [I' [Hi Hd]]]].
  { intros x Hx. apply (inv_sub st I). apply G1. assumption. }
  { intros x Hx. apply (inv_sub st I). apply G2. assumption. }
  { intros x Hx. apply (inv_sub st I). apply G3. assumption. }
  rewrite E. split; [assumption|split; [assumption|]].
  intros Hne. destruct (G4 Hne) as [x Hx].
  apply (nodup_shrink (undecided st) (undecided st') x).
  - apply (inv_nd st' I').
  - assumption.
  - apply in_app_or in Hx. destruct Hx as [Hx|Hx]; [apply G1; assumption|].
    apply in_app_or in Hx. destruct Hx as [Hx|Hx]; [apply G2|apply G3]; assumption.
  - apply Hd. assumption.
Qed.

Lemma loop_unfold : forall fuel ssz sampler pick r st,
  loop (S fuel) ssz sampler pick missing contents skipped dirs r st =
  match undecided st with
  | [] => RoundOk st
  | _ :: _ =>
      match round ssz sampler pick missing contents skipped dirs r st with
      | RoundOk st' => loop fuel ssz sampler pick missing contents skipped dirs (S r) st'
      | e => e
      end
  end.
Proof. reflexivity. Qed.

Lemma loop_correct : forall ssz sampler pick, (0 < ssz)%N -> forall fuel r st,
  Inv st -> length (undecided st) < fuel ->
  match loop fuel ssz sampler pick missing contents skipped dirs r st with
  | RoundOk st' => Inv st' /\ undecided st' = []
  | RoundBadSample => exists r' ud, NoDup ud /\ (ssz < N.of_nat (length ud))%N /\
                                    sample_contract ssz ud (sampler r' ud) = false
  | RoundOutOfFuel | RoundKeyError => False
  end.
Proof.
  intros ssz sampler pick Hpos. induction fuel as [|fuel IH]; intros r st I Hl; [lia|].
  rewrite loop_unfold. destruct (undecided st) as [|u und] eqn:Eu.
  - split; assumption.
  - pose proof (round_correct ssz sampler pick r st I Hpos) as R.
    destruct (round ssz sampler pick missing contents skipped dirs r st) as [st'| | |];
      try contradiction.
    + destruct R as [I' [_ Hlt]]. apply IH; [assumption|].
      assert (length (undecided st') < length (undecided st)) by (apply Hlt; rewrite Eu; discriminate).
      rewrite Eu in H. simpl in *. lia.
    + destruct R as [R1 R2]. exists r, (undecided_dirs st).
      split; [apply (inv_ud_nd st I)|split; assumption].
Qed.

Lemma Inv_init : Inv (init_state contents skipped dirs).
Proof.
  unfold init_state. constructor; simpl.
  - repeat apply set_union_NoDup. constructor.
  - intros x Hx. unfold objs, objects. rewrite !set_union_In in Hx. simpl in Hx.
    rewrite in_app_iff in *. rewrite in_app_iff. tauto.
  - apply set_union_NoDup. constructor.
  - intros x. rewrite !set_union_In. simpl. tauto.
  - intros x [].
  - intros x [].
  - intros x Hx. left. unfold objs, objects in Hx. rewrite !set_union_In. simpl.
    rewrite !in_app_iff in Hx. rewrite in_app_iff. tauto.
  - constructor.
  - intros o b [].
  - intros o Ho. left. unfold objs, objects in Ho. rewrite !set_union_In. simpl.
    rewrite !in_app_iff in Ho. rewrite in_app_iff. tauto.
Qed.

Lemma init_length : length (undecided (init_state contents skipped dirs)) <= length objs.
Proof.
  apply NoDup_incl_length; [apply (inv_nd _ Inv_init)|apply (inv_sub _ Inv_init)].
Qed.

(* once nothing is undecided, `x in graph.unknown` is the archive's answer on the objects *)
Lemma final_filter : forall st l, Inv st -> undecided st = [] -> incl l objs ->
  filter (fun c => memN c (unknown st)) l = filter missing l.
Proof.
  intros st l I Hu Hl. apply filter_ext_in. intros c Hc.
  destruct (missing c) eqn:Em.
  - apply memN_In. destruct (inv_cover st I c (Hl c Hc)) as [H|[H|H]].
    + rewrite Hu in H. contradiction.
    + apply (inv_known st I) in H. congruence.
    + assumption.
  - apply memN_notIn. intro H. apply (inv_unknown st I) in H. congruence.
Qed.

Lemma events_shape : forall (ev : list (N * bool)) (g : N -> bool),
  (forall o b, In (o, b) ev -> b = g o) -> ev = map (fun o => (o, g o)) (map fst ev).
Proof.
  induction ev as [|[o b] ev IH]; simpl; intros g H; [reflexivity|].
  rewrite (H o b (or_introl eq_refl)). f_equal. apply IH. intros o' b' Hin. apply H. right. assumption.
Qed.

(* every object got exactly one callback, with flag = not missing *)
Lemma final_events : forall st, NoDup objs -> Inv st -> undecided st = [] ->
  Permutation (events st) (map (fun o => (o, negb (missing o))) objs).
Proof.
  intros st Hnd I Hu.
  rewrite (events_shape (events st) (fun o => negb (missing o))).
  - apply Permutation_map. apply NoDup_Permutation; [apply (inv_ev_nd st I)|assumption|].
    intros o. split.
    + intros Ho. apply in_map_iff in Ho. destruct Ho as [[o' b] [Hf Hin]]. simpl in Hf. subst o'.
      apply (inv_ev st I) in Hin. tauto.
    + intros Ho. destruct (inv_ev_cover st I o Ho) as [H|H]; [rewrite Hu in H; contradiction|assumption].
  - intros o b Hin. apply (inv_ev st I) in Hin. tauto.
Qed.

End Main.

(* ------------------------------------------------------------------ *)
(* closed statements *)

Lemma filter_map_fst : forall (f : N -> bool) (dirs : list dirent),
  filter f (map fst dirs) = map fst (filter (fun p => f (fst p)) dirs).
Proof.
  induction dirs as [|p dirs IH]; simpl; [reflexivity|].
  destruct (f (fst p)); simpl; rewrite IH; reflexivity.
Qed.

(* The whole property for an ARBITRARY sampler oracle: the run never goes out of
   fuel and never raises; either the oracle returned, in some round, something
   random.sample cannot return (then the run is not a run of the code), or the
   result is exact, nothing is undecided, and the callbacks are right. *)
Theorem discovery_any_sampler :
  forall (sample_size : N) (sampler : sampler_oracle) (pick : pick_oracle) (missing : N -> bool)
         (contents skipped : list N) (dirs : list dirent),
  NoDup (objects contents skipped dirs) ->
  closed missing contents skipped dirs ->
  (0 < sample_size)%N ->
  match filter_known_objects sample_size sampler pick missing contents skipped dirs with
  | DiscOk c s d st =>
      undecided st = [] /\
      c = filter missing contents /\ s = filter missing skipped /\
      d = map fst (filter (fun p => missing (fst p)) dirs) /\
      Permutation (events st) (map (fun o => (o, negb (missing o))) (objects contents skipped dirs))
  | DiscBadSample => exists r ud, NoDup ud /\ (sample_size < N.of_nat (length ud))%N /\
                                  sample_contract sample_size ud (sampler r ud) = false
  | DiscOutOfFuel | DiscKeyError => False
  end.
Proof.
  intros ssz sampler pick missing contents skipped dirs Hnd Hcl Hpos.
  unfold filter_known_objects.
  pose proof (Inv_init contents skipped dirs missing) as I0.
  pose proof (init_length contents skipped dirs missing) as L0.
  pose proof (loop_correct contents skipped dirs missing Hcl ssz sampler pick Hpos
                (S (length (objects contents skipped dirs))) O (init_state contents skipped dirs) I0) as L.
  destruct (loop (S (length (objects contents skipped dirs))) ssz sampler pick missing
                 contents skipped dirs O (init_state contents skipped dirs)) as [st| | |].
  - destruct L as [I Hu]; [lia|].
    split; [assumption|split; [|split; [|split]]].
    + apply (final_filter contents skipped dirs missing st contents I Hu).
      intros x Hx. unfold objects. apply in_or_app. left. assumption.
    + apply (final_filter contents skipped dirs missing st skipped I Hu).
      intros x Hx. unfold objects. apply in_or_app. right. apply in_or_app. left. assumption.
    + rewrite <- filter_map_fst. apply (final_filter contents skipped dirs missing st (dir_ids dirs) I Hu).
      intros x Hx. unfold objects. apply in_or_app. right. apply in_or_app. right. assumption.
    + apply (final_events contents skipped dirs missing st Hnd I Hu).
  - apply L. lia.
  - apply L. lia.
  - apply L. lia.
Qed.

Theorem discovery_exact :
  forall sample_size sampler pick missing contents skipped dirs,
  NoDup (objects contents skipped dirs) -> closed missing contents skipped dirs ->
  (0 < sample_size)%N -> sampler_ok sample_size sampler ->
  exists st,
    filter_known_objects sample_size sampler pick missing contents skipped dirs =
      DiscOk (filter missing contents) (filter missing skipped)
             (map fst (filter (fun p => missing (fst p)) dirs)) st
    /\ undecided st = [].
Proof.
  intros ssz sampler pick missing contents skipped dirs Hnd Hcl Hpos Hs.
  pose proof (discovery_any_sampler ssz sampler pick missing contents skipped dirs Hnd Hcl Hpos) as H.
  destruct (filter_known_objects ssz sampler pick missing contents skipped dirs) as [c s d st| | |];
    try contradiction.
  - destruct H as [Hu [-> [-> [-> _]]]]. exists st. split; [reflexivity|assumption].
  - destruct H as [r [ud [H1 [H2 H3]]]]. rewrite (Hs r ud H1 H2) in H3. discriminate.
Qed.

Theorem discovery_callbacks :
  forall sample_size sampler pick missing contents skipped dirs,
  NoDup (objects contents skipped dirs) -> closed missing contents skipped dirs ->
  (0 < sample_size)%N -> sampler_ok sample_size sampler ->
  exists c s d st,
    filter_known_objects sample_size sampler pick missing contents skipped dirs = DiscOk c s d st /\
    Permutation (events st) (map (fun o => (o, negb (missing o))) (objects contents skipped dirs)).
Proof.
  intros ssz sampler pick missing contents skipped dirs Hnd Hcl Hpos Hs.
  pose proof (discovery_any_sampler ssz sampler pick missing contents skipped dirs Hnd Hcl Hpos) as H.
  destruct (filter_known_objects ssz sampler pick missing contents skipped dirs) as [c s d st| | |];
    try contradiction.
  - exists c, s, d, st. split; [reflexivity|tauto].
  - destruct H as [r [ud [H1 [H2 H3]]]]. rewrite (Hs r ud H1 H2) in H3. discriminate.
Qed.

(* states the outer loop can be in: the initial one, and any state reached by
   a round (with any round number, i.e. any draw of the sampler) *)
Inductive reachable (sample_size : N) (sampler : sampler_oracle) (pick : pick_oracle)
          (missing : N -> bool) (contents skipped : list N) (dirs : list dirent) : state -> Prop :=
| reach_init : reachable sample_size sampler pick missing contents skipped dirs
                         (init_state contents skipped dirs)
| reach_round : forall r st st',
    reachable sample_size sampler pick missing contents skipped dirs st ->
    round sample_size sampler pick missing contents skipped dirs r st = RoundOk st' ->
    reachable sample_size sampler pick missing contents skipped dirs st'.

Theorem discovery_progress :
  forall sample_size sampler pick missing contents skipped dirs,
  closed missing contents skipped dirs ->
  (0 < sample_size)%N -> sampler_ok sample_size sampler ->
  forall r st, reachable sample_size sampler pick missing contents skipped dirs st ->
  undecided st <> [] ->
  exists st', round sample_size sampler pick missing contents skipped dirs r st = RoundOk st' /\
              length (undecided st') < length (undecided st).
Proof.
  intros ssz sampler pick missing contents skipped dirs Hcl Hpos Hs r st Hr Hne.
  assert (I : Inv contents skipped dirs missing st).
  { clear Hne. induction Hr as [|r0 st0 st1 Hr0 IH E].
    - apply Inv_init.
    - pose proof (round_correct contents skipped dirs missing Hcl ssz sampler pick r0 st0 IH Hpos) as R.
      rewrite E in R. tauto. }
  pose proof (round_correct contents skipped dirs missing Hcl ssz sampler pick r st I Hpos) as R.
  destruct (round ssz sampler pick missing contents skipped dirs r st) as [st'| | |]; try contradiction.
  - exists st'. split; [reflexivity|]. apply R. assumption.
  - destruct R as [R1 R2]. rewrite (Hs r (undecided_dirs st) (inv_ud_nd _ _ _ _ st I) R1) in R2. discriminate.
Qed.

(* ------------------------------------------------------------------ *)
(* non-vacuity *)

Lemma firstn_NoDup : forall (n : nat) (l : list N), NoDup l -> NoDup (firstn n l).
Proof.
  induction n as [|n IH]; intros l Hn; simpl; [constructor|].
  destruct l as [|x l]; [constructor|]. inversion Hn; subst. constructor.
  - intro Hin. apply H1. rewrite <- (firstn_skipn n l). apply in_or_app. left. assumption.
  - apply IH. assumption.
Qed.

(* "take the first SAMPLE_SIZE" is an admissible sampler, for every SAMPLE_SIZE *)
Lemma sampler_first_ok : forall sample_size, sampler_ok sample_size (sampler_first sample_size).
Proof.
  intros ssz r ud Hn Hl. unfold sampler_first, sample_contract.
  apply andb_true_iff. split; [apply andb_true_iff; split|].
  - apply nodupb_NoDup. apply firstn_NoDup. assumption.
  - apply subsetb_incl. intros x Hx. rewrite <- (firstn_skipn (N.to_nat ssz) ud).
    apply in_or_app. left. assumption.
  - apply N.eqb_eq. rewrite firstn_length_le by lia. apply N2Nat.id.
Qed.

(* The hypotheses are met by a 6-object DAG (ex_contents, ex_dirs ... of model/Discovery.v) with a
   sub-directory shared by two directories, an entry pointing outside the set,
   and an archive that knows some objects and lacks others. *)
Theorem hyps_satisfiable :
  exists contents skipped dirs missing sample_size sampler,
    NoDup (objects contents skipped dirs) /\ closed missing contents skipped dirs /\
    (0 < sample_size)%N /\ sampler_ok sample_size sampler /\
    length (objects contents skipped dirs) = 6 /\
    (* a directory of the set is an entry of two different directories of the set *)
    (exists d p1 p2 cs1 cs2, In d (dir_ids dirs) /\ p1 <> p2 /\ In (p1, cs1) dirs /\ In (p2, cs2) dirs /\
                             In d cs1 /\ In d cs2) /\
    (* an entry points outside the set *)
    (exists p cs c, In (p, cs) dirs /\ In c cs /\ ~ In c (objects contents skipped dirs)) /\
    (* the archive knows some objects and lacks others *)
    (exists o, In o (objects contents skipped dirs) /\ missing o = true) /\
    (exists o, In o (objects contents skipped dirs) /\ missing o = false) /\
    (* several roots *)
    (exists r1 r2, r1 <> r2 /\ In r1 (dir_ids dirs) /\ In r2 (dir_ids dirs) /\
                   forall p cs, In (p, cs) dirs -> ~ In r1 cs /\ ~ In r2 cs).
Proof.
  exists ex_contents, ex_skipped, ex_dirs, ex_missing, 1%N, (sampler_first 1).
  split; [apply nodupb_NoDup; vm_compute; reflexivity|].
  split; [apply closedb_sound; vm_compute; reflexivity|].
  split; [reflexivity|].
  split; [apply sampler_first_ok|].
  split; [reflexivity|].
  split.
  { exists 11%N, 10%N, 12%N, [1; 11; 99]%N, [11; 2]%N. simpl.
    repeat split; try discriminate; auto 10. }
  split.
  { exists 10%N, [1; 11; 99]%N, 99%N. simpl. split; [auto|split; [auto|]].
    intro H. repeat (destruct H as [H|H]; [discriminate H|]). contradiction. }
  split; [exists 2%N; simpl; split; [auto|reflexivity]|].
  split; [exists 3%N; simpl; split; [auto 10|reflexivity]|].
  exists 10%N, 12%N. simpl. split; [discriminate|split; [auto|split; [auto|]]].
  intros p cs H. repeat (destruct H as [H|H]; [injection H as <- <-|]); try contradiction;
    split; intro H; repeat (destruct H as [H|H]; [discriminate H|]); contradiction.
Qed.
