(* Examples moved out of model/Time.v so that the model (and its extraction) still builds when a
   regenerated table makes one of them false; they are part of the proof cone of the properties. *)
From Coq Require Import List NArith ZArith Bool.
From SWH.lib Require Import Bytes Dec DecPad.
From SWH Require Import Generated.
Import ListNotations.
Open Scope Z_scope.
From SWH.model Require Import Time.

Example ex_ob : OB_PLUS0000 = bs "+0000" /\ OB_MINUS0000 = bs "-0000". Proof. vm_compute. split; reflexivity. Qed.

Example ex_parse1 : parse_offset_bytes (bs "+0200") = Ok 120. Proof. vm_compute. reflexivity. Qed.

Example ex_parse2 : parse_offset_bytes (bs "-02") = Ok (-120). Proof. vm_compute. reflexivity. Qed.

Example ex_parse3 : parse_offset_bytes (bs "+0160") = Ok 0. Proof. vm_compute. reflexivity. Qed.

Example ex_parse4 : parse_offset_bytes (bs "+200000000000000000") = Ok 0. Proof. vm_compute. reflexivity. Qed.

Example ex_parse5 : parse_offset_bytes (bs "-0000") = Ok 0. Proof. vm_compute. reflexivity. Qed.

Example ex_parse6 : parse_offset_bytes (bs "+") = Err EUnmodelled. Proof. vm_compute. reflexivity. Qed.

Example ex_num1 : from_numeric_offset (mkTs 0 0) (-32768) true = Ok (mkTstz (mkTs 0 0) (bs "-54608")).
Proof. vm_compute. reflexivity. Qed.

Example ex_num2 : from_numeric_offset (mkTs 0 0) 5 true = Err EAssertion. Proof. vm_compute. reflexivity. Qed.

Example ex_fmt1 : format_date (mkTs 1577817000 123400) = bs "1577817000.1234". Proof. vm_compute. reflexivity. Qed.

Example ex_fmt2 : format_date (mkTs (-5) 10) = bs "-5.00001". Proof. vm_compute. reflexivity. Qed.

Example ex_fmt3 : parse_date (bs "-5.00001") = Some (-5, 10). Proof. vm_compute. reflexivity. Qed.

Example ex_dt1 : from_datetime (mkDt (-1500000) 19800) = Ok (mkTstz (mkTs (-2) 500000) (bs "+0530")).
Proof. vm_compute. reflexivity. Qed.

Example ex_dt2 : to_datetime (mkTstz (mkTs (-2) 500000) (bs "+0530")) = Ok (mkDt (-1500000) 19800).
Proof. vm_compute. reflexivity. Qed.

Example ex_range : z_range (-2) 5 = [-2; -1; 0; 1; 2]. Proof. vm_compute. reflexivity. Qed.

(* both the recorded bytes and the legacy numeric form: the bytes are kept as they are *)
Example ex_both1 : from_dict (TRDict (Some (TsInt (VInt 7))) (Some (Some (bs "+200"))) (Some (Some 120)) (Some false))
                   = Ok (mkTstz (mkTs 7 0) (bs "+200")).
Proof. vm_compute. reflexivity. Qed.
Example ex_both2 : from_dict (TRDict (Some (TsInt (VInt 7))) (Some (Some (bs "-0000"))) (Some (Some 5)) (Some true))
                   = Ok (mkTstz (mkTs 7 0) (bs "-0000")).
Proof. vm_compute. reflexivity. Qed.
Example ex_old_only : from_dict (TRDict (Some (TsInt (VInt 7))) None (Some (Some 120)) None)
                   = Ok (mkTstz (mkTs 7 0) (bs "+0200")).
Proof. vm_compute. reflexivity. Qed.
Example ex_old_null : from_dict (TRDict (Some (TsInt (VInt 7))) None (Some None) None) = Err EType.
Proof. vm_compute. reflexivity. Qed.
