(* Basic facts about the heap of model/Merkle.v: lookups after updates,
   pointwise relations between heaps, the frame lemma of Fresh. *)
From Coq Require Import List NArith Bool Arith Lia.
From SWH.lib Require Import Bytes.
From SWH.model Require Import Merkle.
Import ListNotations.
Local Open Scope nat_scope.

Lemma nth_upd_same : forall s n f, nth_error (upd n f s) n = option_map f (nth_error s n).
Proof.
  induction s as [|x s IH]; intros [|n] f; simpl; auto.
Qed.

Lemma nth_upd_other : forall s n m f, m <> n -> nth_error (upd n f s) m = nth_error s m.
Proof.
  induction s as [|x s IH]; intros [|n] [|m] f H; simpl; auto; try congruence.
Qed.

Lemma nth_upd : forall s n m f,
  nth_error (upd n f s) m = if Nat.eqb m n then option_map f (nth_error s m) else nth_error s m.
Proof.
  intros. destruct (Nat.eqb_spec m n) as [->|H]; [apply nth_upd_same | apply nth_upd_other; auto].
Qed.

Lemma upd_length : forall s n f, length (upd n f s) = length s.
Proof. induction s as [|x s IH]; intros [|n] f; simpl; auto. Qed.

Lemma get_Ok : forall (s : heap) n (x : node), get s n = Ok x <-> nth_error s n = Some x.
Proof. intros. unfold get. destruct (nth_error s n); split; intro H; congruence. Qed.

Lemma get_lt : forall (s : heap) n, n < length s -> exists x, nth_error s n = Some x.
Proof.
  intros s n H. destruct (nth_error s n) eqn:E; eauto.
  apply nth_error_None in E. lia.
Qed.

Lemma nth_lt : forall (s : heap) n x, nth_error s n = Some x -> n < length s.
Proof. intros. apply nth_error_Some. congruence. Qed.

(* ---- pointwise relations *)
Lemma F2_nth : forall (R : node -> node -> Prop) s s' n x,
  Forall2 R s s' -> nth_error s n = Some x -> exists x', nth_error s' n = Some x' /\ R x x'.
Proof.
  intros R s s' n x H. revert n. induction H as [|a b s s' Hab H IH]; intros [|n] E; simpl in *; try discriminate.
  - inversion E; subst. eauto.
  - apply IH; auto.
Qed.

Lemma F2_nth_r : forall (R : node -> node -> Prop) s s' n x',
  Forall2 R s s' -> nth_error s' n = Some x' -> exists x, nth_error s n = Some x /\ R x x'.
Proof.
  intros R s s' n x H. revert n. induction H as [|a b s s' Hab H IH]; intros [|n] E; simpl in *; try discriminate.
  - inversion E; subst. eauto.
  - apply IH; auto.
Qed.

Lemma F2_refl : forall (R : node -> node -> Prop) s, (forall x, R x x) -> Forall2 R s s.
Proof. intros R s H. induction s; constructor; auto. Qed.

Lemma F2_trans : forall (R : node -> node -> Prop) s1 s2 s3,
  (forall x y z, R x y -> R y z -> R x z) -> Forall2 R s1 s2 -> Forall2 R s2 s3 -> Forall2 R s1 s3.
Proof.
  intros R s1 s2 s3 HT H. revert s3. induction H as [|a b s1 s2 Hab H IH]; intros s3 H3; inversion H3; subst; constructor; eauto.
Qed.

Lemma F2_upd : forall (R : node -> node -> Prop) s n f,
  (forall x, R x x) -> (forall x, nth_error s n = Some x -> R x (f x)) -> Forall2 R s (upd n f s).
Proof.
  intros R s. induction s as [|a s IH]; intros [|n] f Hr Hf; simpl; constructor; auto.
  - apply F2_refl; auto.
Qed.

Lemma F2_len : forall (R : node -> node -> Prop) s s', Forall2 R s s' -> length s = length s'.
Proof. intros R s s' H. induction H; simpl; auto. Qed.

Lemma F2_impl : forall (R R' : node -> node -> Prop) s s',
  (forall x y, R x y -> R' x y) -> Forall2 R s s' -> Forall2 R' s s'.
Proof. intros R R' s s' H H2. induction H2; constructor; auto. Qed.

(* shape: everything but the caches and flags *)
Definition nshape (x x' : node) : Prop :=
  kind x' = kind x /\ data x' = data x /\ kids x' = kids x /\ parents x' = parents x.
Definition shape (s s' : heap) := Forall2 nshape s s'.

Lemma nshape_refl : forall x, nshape x x.
Proof. intro x. unfold nshape. auto. Qed.
Lemma nshape_trans : forall x y z, nshape x y -> nshape y z -> nshape x z.
Proof. unfold nshape. intros x y z (A & B & C & D) (A' & B' & C' & D'). repeat split; congruence. Qed.
Lemma shape_refl : forall s, shape s s.
Proof. intro. apply F2_refl. apply nshape_refl. Qed.
Lemma shape_trans : forall a b c, shape a b -> shape b c -> shape a c.
Proof. intros. eapply F2_trans; eauto. apply nshape_trans. Qed.
Lemma shape_sym : forall a b, shape a b -> shape b a.
Proof.
  intros a b H. induction H; constructor; auto.
  destruct H as (A & B & C & D). unfold nshape. repeat split; congruence.
Qed.

Lemma shape_edge : forall s s' n m, shape s s' -> edge s n m -> edge s' n m.
Proof.
  intros s s' n m H (x & name & E & I). destruct (F2_nth _ _ _ _ _ H E) as (x' & E' & (_ & _ & K & _)).
  exists x', name. rewrite K. auto.
Qed.

Lemma shape_ranked : forall rank s s', shape s s' -> ranked rank s -> ranked rank s'.
Proof.
  intros rank s s' H [R1 R2]. split.
  - intros n m E. apply R1. eapply shape_edge; eauto. apply shape_sym; auto.
  - intro n. rewrite <- (F2_len _ _ _ H). auto.
Qed.

Lemma shape_reach : forall s s' n m, shape s s' -> Reach s n m -> Reach s' n m.
Proof.
  intros s s' n m H R. induction R.
  - constructor. rewrite <- (F2_len _ _ _ H). auto.
  - econstructor; eauto. eapply shape_edge; eauto.
Qed.

(* ---- Fresh: frame *)
Scheme Fresh_m := Minimality for Fresh Sort Prop
  with FreshKids_m := Minimality for FreshKids Sort Prop.
Combined Scheme Fresh_mutind from Fresh_m, FreshKids_m.

Section FreshFacts.
Variable NH : bytes -> list entry -> bytes.

Lemma Fresh_frame : forall s s' (P : nat -> Prop),
  (forall m x, P m -> nth_error s m = Some x ->
     exists x', nth_error s' m = Some x' /\ data x' = data x /\ kids x' = kids x /\
                forall nm k, In (nm, k) (kids x) -> P k) ->
  (forall n h, Fresh NH s n h -> P n -> Fresh NH s' n h) /\
  (forall ks es, FreshKids NH s ks es -> (forall nm k, In (nm, k) ks -> P k) -> FreshKids NH s' ks es).
Proof.
  intros s s' P HP. apply Fresh_mutind.
  - intros n x es E _ IH Pn. destruct (HP n x Pn E) as (x' & E' & D & K & C).
    rewrite <- D. econstructor; eauto. rewrite K. apply IH. exact C.
  - intros _. constructor.
  - intros name k kd h ks es E _ IHf _ IHk C.
    assert (Pk : P k) by (eapply C; left; reflexivity).
    destruct (HP k kd Pk E) as (x' & E' & D & _). rewrite <- D. constructor; auto.
    apply IHk. intros nm k' I. eapply C. right. exact I.
Qed.

Lemma Fresh_shape : forall s s', shape s s' ->
  (forall n h, Fresh NH s n h -> Fresh NH s' n h) /\
  (forall ks es, FreshKids NH s ks es -> FreshKids NH s' ks es).
Proof.
  intros s s' H.
  destruct (Fresh_frame s s' (fun _ => True)) as [A B].
  - intros m x _ E. destruct (F2_nth _ _ _ _ _ H E) as (x' & E' & (_ & D & K & _)). eauto.
  - split; intros; [apply A | apply B]; auto.
Qed.

Lemma Fresh_det : forall s,
  (forall n h, Fresh NH s n h -> forall h', Fresh NH s n h' -> h = h') /\
  (forall ks es, FreshKids NH s ks es -> forall es', FreshKids NH s ks es' -> es = es').
Proof.
  intro s. apply Fresh_mutind.
  - intros n x es E _ IH h' F. inversion F; subst. assert (x0 = x) by congruence. subst.
    f_equal. apply IH. auto.
  - intros es' F. inversion F. reflexivity.
  - intros name k kd h ks es E _ IHf _ IHk es' F. inversion F; subst.
    assert (kd0 = kd) by congruence. subst. f_equal; [f_equal|]; auto.
Qed.

End FreshFacts.
