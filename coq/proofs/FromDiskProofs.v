(* Proofs for C06 / C13, part 1: the walk of from_disk.Directory.from_disk
   refines the git tree id of the file-system tree (for every filter: of the
   physically pruned tree).  Export (iter_tree) is in FromDiskExport.v. *)
From Coq Require Import List NArith Bool Lia Permutation Arith.
From SWH.lib Require Import Bytes Dec Hex Order StableSort GitHeader ListAux.
From SWH.model Require Import Dir FromDisk.
From SWH.proofs Require Import DirProofs.
From SWH Require Import Generated.
Import ListNotations.
Open Scope N_scope.

(* ================================================================== 1. induction principles *)
Section FsInd.
  Variable P : fsnode -> Prop.
  Hypothesis HReg : forall d m, P (Reg d m).
  Hypothesis HLnk : forall x, P (Lnk x).
  Hypothesis HSpecial : forall m, P (Special m).
  Hypothesis HDir : forall cs, Forall (fun p => P (snd p)) cs -> P (FDir cs).

  Fixpoint fsnode_ind' (t : fsnode) : P t :=
    match t with
    | Reg d m => HReg d m
    | Lnk x => HLnk x
    | Special m => HSpecial m
    | FDir cs =>
        HDir cs ((fix go (l : list (bytes * fsnode)) : Forall (fun p => P (snd p)) l :=
                    match l with
                    | [] => Forall_nil _
                    | p :: r => Forall_cons p (fsnode_ind' (snd p)) (go r)
                    end) cs)
    end.
End FsInd.

Section MtInd.
  Variable P : mtree -> Prop.
  Hypothesis HLeaf : forall c, P (MLeaf c).
  Hypothesis HNode : forall ks, Forall (fun p => P (snd p)) ks -> P (MNode ks).

  Fixpoint mtree_ind' (m : mtree) : P m :=
    match m with
    | MLeaf c => HLeaf c
    | MNode ks =>
        HNode ks ((fix go (l : list (bytes * mtree)) : Forall (fun p => P (snd p)) l :=
                     match l with
                     | [] => Forall_nil _
                     | p :: r => Forall_cons p (mtree_ind' (snd p)) (go r)
                     end) ks)
    end.
End MtInd.

(* ================================================================== 2. unfolding the nested fixpoints *)
(* what the specification says of one directory entry *)
Definition fs_perms (t : fsnode) : N :=
  match t with
  | FDir _ => PERMS_directory
  | Lnk _ => PERMS_symlink
  | Reg _ mode | Special mode => file_perms mode
  end.

Definition fs_data (t : fsnode) : bytes :=
  match t with Reg d _ => d | Lnk x => x | _ => [] end.

Definition fs_names (t : fsnode) : list bytes :=
  match t with FDir cs => map fst cs | _ => [] end.

Section Unfold.
  Variable H : bytes -> bytes.

  Definition fs_entry (p : bytes * fsnode) : entry :=
    {| e_name := fst p;
       e_type := if is_fdir (snd p) then EDir else EFile;
       e_target := node_id H (snd p);
       e_perms := fs_perms (snd p) |}.

  Lemma node_id_dir : forall cs, node_id H (FDir cs) = H (dir_manifest (map fs_entry cs)).
  Proof.
    intro cs. cbn [node_id]. do 2 f_equal.
    induction cs as [|[n c] r IH]; [reflexivity|]. cbn [map]. rewrite <- IH.
    unfold fs_entry. cbn [fst snd]. destruct c; reflexivity.
  Qed.

  Definition git_perms (t : fsnode) : N :=
    match t with
    | FDir _ => 16384
    | Lnk _ => 40960
    | Reg _ mode | Special mode => if N.eqb (N.land mode 73) 0 then 33188 else 33261
    end.

  Definition git_entry (p : bytes * fsnode) : entry :=
    {| e_name := fst p;
       e_type := if is_fdir (snd p) then EDir else EFile;
       e_target := git_node_id H (snd p);
       e_perms := git_perms (snd p) |}.

  Lemma git_node_id_dir : forall cs, git_node_id H (FDir cs) = H (git_tree_object (map git_entry cs)).
  Proof.
    intro cs. cbn [git_node_id]. do 2 f_equal.
    induction cs as [|[n c] r IH]; [reflexivity|]. cbn [map]. rewrite <- IH.
    unfold git_entry. cbn [fst snd]. destruct c; reflexivity.
  Qed.

  Lemma mt_id_node : forall ks, mt_id H (MNode ks) = H (dir_manifest (map (mt_entry H) ks)).
  Proof.
    intro ks. cbn [mt_id]. do 2 f_equal.
    induction ks as [|[n c] r IH]; [reflexivity|]. cbn [map]. rewrite <- IH.
    unfold mt_entry. cbn [fst snd]. destruct c; reflexivity.
  Qed.
End Unfold.

(* pass 1 on the children of a directory *)
Section BuildKids.
  Variable ord : list bytes -> list (bytes * mtree) -> list (bytes * mtree).
  Variable f : filt.
  Variable limit : option N.
  Variable path : list bytes.
  Fixpoint build_kids (l : list (bytes * fsnode)) : fd_result (list (bytes * mtree)) :=
    match l with
    | [] => FdOk []
    | (n, c) :: r =>
        match c with
        | FDir ccs =>
            if filt_dir f n (map fst ccs)
            then match build ord f limit (path ++ [n]) c, build_kids r with
                 | FdOk m, FdOk ks => FdOk ((n, m) :: ks)
                 | _, _ => FdSymlinkTooLarge
                 end
            else build_kids r
        | _ => match from_file limit c, build_kids r with
               | FdOk ci, FdOk ks => FdOk ((n, MLeaf ci) :: ks)
               | _, _ => FdSymlinkTooLarge
               end
        end
    end.
End BuildKids.

Lemma build_dir : forall ord f limit path cs,
  build ord f limit path (FDir cs) =
  match build_kids ord f limit path cs with
  | FdOk ks => FdOk (MNode (ord path ks))
  | FdSymlinkTooLarge => FdSymlinkTooLarge
  end.
Proof. reflexivity. Qed.

Lemma build_file : forall ord f limit path t, is_fdir t = false ->
  build ord f limit path t = match from_file limit t with FdOk ci => FdOk (MLeaf ci) | FdSymlinkTooLarge => FdSymlinkTooLarge end.
Proof. intros ord f limit path t E. destruct t; [reflexivity..|discriminate]. Qed.

(* pass 2 on the children of a node *)
Definition prune2_kid (f : filt) (p : bytes * mtree) : list (bytes * mtree) :=
  match snd p with
  | MLeaf _ => [p]
  | MNode _ => let c' := prune2 f (snd p) in if filt_dir f (fst p) (keys c') then [(fst p, c')] else []
  end.

Lemma prune2_node : forall f ks, prune2 f (MNode ks) = MNode (flat_map (prune2_kid f) ks).
Proof.
  intros f ks. cbn [prune2]. f_equal.
  induction ks as [|[n c] r IH]; [reflexivity|]. cbn [flat_map]. rewrite <- IH.
  unfold prune2_kid. cbn [fst snd]. destruct c; cbv zeta; [reflexivity|].
  destruct (filt_dir f n (keys (prune2 f (MNode kids)))); reflexivity.
Qed.

Lemma prune2_leaf : forall f c, prune2 f (MLeaf c) = MLeaf c.
Proof. reflexivity. Qed.

(* ================================================================== 3. facts about the filters *)
Lemma filt_dir_length : forall f n (a b : list bytes), length a = length b -> filt_dir f n a = filt_dir f n b.
Proof.
  intros f n a b E. destruct f as [| |ns cs]; cbn [filt_dir]; [reflexivity| |destruct cs; reflexivity].
  destruct a, b; try reflexivity; discriminate.
Qed.

Lemma filt_dir_all : forall n l, filt_dir FAll n l = true.
Proof. reflexivity. Qed.

(* ================================================================== 4. well-formed trees *)
Definition name_wf (n : bytes) : Prop := ~ In SLASH n /\ ~ In NUL n /\ n <> [].

Definition dummy (p : bytes * fsnode) : entry := {| e_name := fst p; e_type := EFile; e_target := []; e_perms := 0 |}.

Fixpoint wf_all (l : list (bytes * fsnode)) : bool :=
  match l with
  | [] => true
  | (n, c) :: r => negb (memb SLASH n) && negb (memb NUL n) && (match n with [] => false | _ => true end)
                   && wf_fs c && wf_all r
  end.

Lemma wf_fs_dir_unfold : forall cs, wf_fs (FDir cs) = nodup_names [] (map dummy cs) && wf_all cs.
Proof. reflexivity. Qed.

Lemma wf_all_spec : forall l, wf_all l = true <-> Forall (fun p => name_wf (fst p) /\ wf_fs (snd p) = true) l.
Proof.
  induction l as [|[n c] r IH]; cbn [wf_all].
  - split; [constructor | reflexivity].
  - rewrite !andb_true_iff, !negb_true_iff, !memb_false, IH. unfold name_wf. split.
    + intros [[[[A B] C] D] E]. constructor; [cbn [fst snd]; repeat split; auto|exact E].
      intro X. subst n. discriminate.
    + intro F. inversion F as [|? ? [[A [B C]] D] E]; subst. cbn [fst snd] in *.
      repeat split; auto. destruct n; [congruence | reflexivity].
Qed.

Lemma map_name_dummy : forall cs, map e_name (map dummy cs) = map fst cs.
Proof. intro cs. rewrite map_map. reflexivity. Qed.

Lemma wf_fs_dir : forall cs, wf_fs (FDir cs) = true <->
  NoDup (map fst cs) /\ Forall (fun p => name_wf (fst p) /\ wf_fs (snd p) = true) cs.
Proof.
  intro cs. rewrite wf_fs_dir_unfold, andb_true_iff, wf_all_spec. split; intros [A B]; split; auto.
  - apply nodup_names_spec in A. rewrite map_name_dummy in A. tauto.
  - apply nodup_names_complete; [rewrite map_name_dummy; exact A | intros ? ? []].
Qed.

(* ================================================================== 5. Content.from_file *)
Lemma from_file_ok : forall limit t ci, is_fdir t = false -> from_file limit t = FdOk ci ->
  ci_perms ci = fs_perms t /\ ci_data ci = fs_data t /\
  ci_skipped ci = match t with Reg d _ => too_large limit (lenN d) | _ => false end.
Proof.
  intros limit t ci E F. destruct t as [d m|x|m|cs]; cbn [from_file] in F; try discriminate E.
  - inversion F; subst. auto.
  - destruct (too_large limit (lenN x)); [discriminate|]. inversion F; subst. auto.
  - inversion F; subst. auto.
Qed.

Lemma from_file_fails : forall limit t, from_file limit t = FdSymlinkTooLarge <->
  exists x, t = Lnk x /\ too_large limit (lenN x) = true.
Proof.
  intros limit t. split.
  - destruct t as [d m|x|m|cs]; cbn [from_file]; try discriminate.
    destruct (too_large limit (lenN x)) eqn:E; [|discriminate]. intros _. exists x. auto.
  - intros [x [-> E]]. cbn [from_file]. rewrite E. reflexivity.
Qed.

(* ================================================================== 6. the representation relation *)
(* [Rep limit t m]: the Merkle tree m represents the file-system tree t: same
   shape up to the order of the children, every leaf is what Content.from_file
   returns for the file *)
Inductive Rep (limit : option N) : fsnode -> mtree -> Prop :=
| RepLeaf : forall t ci, is_fdir t = false -> from_file limit t = FdOk ci -> Rep limit t (MLeaf ci)
| RepDir : forall cs ks ks0, Permutation ks ks0 ->
    Forall2 (fun p q => fst p = fst q /\ Rep limit (snd p) (snd q)) cs ks0 ->
    Rep limit (FDir cs) (MNode ks).

Lemma Forall2_len : forall {A B} (R : A -> B -> Prop) l l', Forall2 R l l' -> length l = length l'.
Proof. intros A B R l l' F. induction F; cbn [length]; congruence. Qed.

Lemma Rep_shape : forall limit t m, Rep limit t m ->
  (match m with MLeaf _ => EFile | MNode _ => EDir end) = (if is_fdir t then EDir else EFile).
Proof. intros limit t m R. destruct R as [t ci E _|]; [rewrite E|]; reflexivity. Qed.

Lemma Rep_perms : forall limit t m, Rep limit t m ->
  (match m with MLeaf ci => ci_perms ci | MNode _ => PERMS_directory end) = fs_perms t.
Proof.
  intros limit t m R. destruct R as [t ci E F|]; [|reflexivity].
  apply (from_file_ok _ _ _ E F).
Qed.

Lemma Rep_names_length : forall limit t m, Rep limit t m -> length (keys m) = length (fs_names t).
Proof.
  intros limit t m R. destruct R as [t ci E F|cs ks ks0 P F2].
  - destruct t; try reflexivity. discriminate.
  - cbn [keys fs_names]. rewrite !map_length, (Permutation_length P). symmetry. apply (Forall2_len _ _ _ F2).
Qed.

Lemma Rep_names_perm : forall limit t m, Rep limit t m -> Permutation (keys m) (fs_names t).
Proof.
  intros limit t m R. destruct R as [t ci E F|cs ks ks0 P F2].
  - destruct t; try reflexivity. discriminate.
  - cbn [keys fs_names]. rewrite (Permutation_map fst P).
    clear P. induction F2 as [|p q l l' [E _] _ IH]; [reflexivity|]. cbn [map]. rewrite E. constructor. exact IH.
Qed.

Section RepId.
  Variable H : bytes -> bytes.

  Lemma fs_entries_valid : forall cs, wf_fs (FDir cs) = true -> valid_dir (map (fs_entry H) cs) = true.
  Proof.
    intros cs W. apply wf_fs_dir in W. destruct W as [ND F]. apply valid_dir_Valid. split.
    - intros e He. apply in_map_iff in He. destruct He as [p [<- Hp]]. cbn [fs_entry e_name].
      rewrite Forall_forall in F. destruct (F p Hp) as [[S _] _]. exact S.
    - rewrite map_map. exact ND.
  Qed.

  Lemma fs_entries_wfnames : forall cs, wf_fs (FDir cs) = true -> WfNames (map (fs_entry H) cs).
  Proof.
    intros cs W. apply wf_fs_dir in W. destruct W as [ND F]. intros e He.
    apply in_map_iff in He. destruct He as [p [<- Hp]]. cbn [fs_entry e_name].
    rewrite Forall_forall in F. destruct (F p Hp) as [[S [Z _]] _]. auto.
  Qed.

  (* the Merkle hash of a representation of t is the spec-level id of t, whatever the order of the children *)
  Lemma Rep_id : forall limit t m, wf_fs t = true -> Rep limit t m -> mt_id H m = node_id H t.
  Proof.
    intros limit t. induction t as [d mo|x|mo|cs IH] using fsnode_ind'; intros m W R.
    1-3: inversion R as [t ci E F|]; subst; destruct (from_file_ok _ _ _ E F) as [_ [D _]];
         cbn [mt_id node_id]; rewrite D; reflexivity.
    inversion R as [? ? E0|cs' ks ks0 P F2]; subst; [discriminate E0|].
    rewrite mt_id_node, node_id_dir. f_equal.
    assert (E : map (mt_entry H) ks0 = map (fs_entry H) cs).
    { pose proof (proj1 (wf_fs_dir cs) W) as [_ WF]. clear W R P.
      induction F2 as [|p q l l' [En Rp] F2 IH2]; [reflexivity|].
      inversion IH as [|? ? IHp IHl]; subst. inversion WF as [|? ? [_ Wp] WFl]; subst.
      cbn [map]. rewrite (IH2 IHl WFl). f_equal.
      unfold mt_entry, fs_entry. rewrite (Rep_shape _ _ _ Rp), (Rep_perms _ _ _ Rp), (IHp _ Wp Rp), En. reflexivity. }
    rewrite <- E. symmetry. apply dir_manifest_order_free.
    - rewrite E. apply fs_entries_valid. exact W.
    - apply Permutation_map. apply Permutation_sym. exact P.
  Qed.
End RepId.

(* ================================================================== 7. the generic physical pruning *)
(* what the two passes of from_disk remove, as a function on the file-system
   tree: a sub-directory disappears when the filter rejects it on its full
   listing (pass 1: not even descended into), or rejects what remains of it
   after its own sub-directories were pruned (pass 2) *)
Definition prune_gen_kid (rec : fsnode -> fsnode) (f : filt) (p : bytes * fsnode) : list (bytes * fsnode) :=
  match snd p with
  | FDir ccs =>
      if filt_dir f (fst p) (map fst ccs)
      then let c' := rec (snd p) in if filt_dir f (fst p) (fs_names c') then [(fst p, c')] else []
      else []
  | _ => [p]
  end.

Fixpoint prune_gen (f : filt) (t : fsnode) : fsnode :=
  match t with
  | FDir cs =>
      FDir ((fix go (l : list (bytes * fsnode)) : list (bytes * fsnode) :=
               match l with
               | [] => []
               | (n, c) :: r =>
                   match c with
                   | FDir ccs =>
                       if filt_dir f n (map fst ccs)
                       then let c' := prune_gen f c in
                            if filt_dir f n (fs_names c') then (n, c') :: go r else go r
                       else go r
                   | _ => (n, c) :: go r
                   end
               end) cs)
  | _ => t
  end.

Lemma prune_gen_dir : forall f cs, prune_gen f (FDir cs) = FDir (flat_map (prune_gen_kid (prune_gen f) f) cs).
Proof.
  intros f cs. cbn [prune_gen]. f_equal.
  induction cs as [|[n c] r IH]; [reflexivity|]. cbn [flat_map]. rewrite <- IH.
  unfold prune_gen_kid. cbn [fst snd]. destruct c as [| | |ccs]; try reflexivity.
  destruct (filt_dir f n (map fst ccs)); [|reflexivity]. cbv zeta.
  destruct (filt_dir f n (fs_names (prune_gen f (FDir ccs)))); reflexivity.
Qed.

Lemma prune_gen_file : forall f t, is_fdir t = false -> prune_gen f t = t.
Proof. intros f t E. destruct t; [reflexivity..|discriminate]. Qed.

Lemma build_dir_shape : forall ord f limit path cs m, build ord f limit path (FDir cs) = FdOk m -> exists ks, m = MNode ks.
Proof.
  intros ord f limit path cs m B. rewrite build_dir in B.
  destruct (build_kids ord f limit path cs); [|discriminate]. inversion B. eauto.
Qed.

Definition perm_oracle (ord : list bytes -> list (bytes * mtree) -> list (bytes * mtree)) : Prop :=
  forall p ks, Permutation (ord p ks) ks.

(* main lemma: the two passes compute a representation of the pruned tree *)
Lemma build_prune_Rep : forall ord f limit, perm_oracle ord ->
  forall t path m, build ord f limit path t = FdOk m -> Rep limit (prune_gen f t) (prune2 f m).
Proof.
  intros ord f limit PO t. induction t as [d mo|x|mo|cs IH] using fsnode_ind'; intros path m B.
  1-3: rewrite build_file in B by reflexivity;
       match type of B with context [from_file ?l ?t] => destruct (from_file l t) as [ci|] eqn:F end; [|discriminate];
       inversion B; subst; apply RepLeaf; [reflexivity | exact F].
  rewrite build_dir in B. destruct (build_kids ord f limit path cs) as [ks|] eqn:BK; [|discriminate].
  inversion B; subst. rewrite prune_gen_dir, prune2_node.
  apply RepDir with (ks0 := flat_map (prune2_kid f) ks).
  - apply Permutation_flat_map. apply PO.
  - clear B. revert ks BK. induction cs as [|[n c] r IHr]; intros ks BK; cbn [build_kids] in BK.
    + inversion BK; subst. constructor.
    + inversion IH as [|? ? IHc IHl]; subst. cbn [snd] in IHc. specialize (IHr IHl).
      cbn [flat_map]. unfold prune_gen_kid at 1. cbn [fst snd].
      destruct c as [d mo|x|mo|ccs].
      1-3: match type of BK with context [from_file ?l ?t] => destruct (from_file l t) as [ci|] eqn:F end; [|discriminate];
           destruct (build_kids ord f limit path r) as [ks'|] eqn:BK'; [|discriminate];
           inversion BK; subst; cbn [flat_map app]; unfold prune2_kid at 1; cbn [fst snd app];
           constructor; [split; [reflexivity | apply RepLeaf; [reflexivity | exact F]] | apply IHr; reflexivity].
      destruct (filt_dir f n (map fst ccs)) eqn:F1.
      * destruct (build ord f limit (path ++ [n]) (FDir ccs)) as [mc|] eqn:Bc; [|discriminate].
        destruct (build_kids ord f limit path r) as [ks'|] eqn:BK'; [|discriminate].
        inversion BK; subst. cbn [flat_map]. unfold prune2_kid at 1. cbn [fst snd].
        destruct (build_dir_shape _ _ _ _ _ _ Bc) as [kc ->]. cbv zeta.
        pose proof (IHc _ _ Bc) as Rc.
        rewrite (filt_dir_length f n (keys (prune2 f (MNode kc))) (fs_names (prune_gen f (FDir ccs))))
          by (apply (Rep_names_length _ _ _ Rc)).
        destruct (filt_dir f n (fs_names (prune_gen f (FDir ccs)))).
        -- cbn [app]. constructor; [split; [reflexivity | exact Rc] | apply IHr; reflexivity].
        -- cbn [app]. apply IHr. reflexivity.
      * cbn [app]. apply IHr. exact BK.
Qed.

(* ================================================================== 8. instances of the pruning *)
Lemma flat_map_single : forall {A} (g : A -> list A) l, Forall (fun p => g p = [p]) l -> flat_map g l = l.
Proof. intros A g l F. induction F as [|p l E _ IH]; [reflexivity|]. cbn [flat_map]. rewrite E, IH. reflexivity. Qed.

Lemma prune_gen_all : forall t, prune_gen FAll t = t.
Proof.
  induction t as [d mo|x|mo|cs IH] using fsnode_ind'; try reflexivity.
  rewrite prune_gen_dir. f_equal. apply flat_map_single.
  rewrite Forall_forall in *. intros [n c] Hp. specialize (IH _ Hp). cbn [snd] in IH.
  unfold prune_gen_kid. cbn [fst snd]. destruct c; try reflexivity.
  cbv zeta. rewrite !filt_dir_all, IH. reflexivity.
Qed.

Definition prune_empty_kid (p : bytes * fsnode) : list (bytes * fsnode) :=
  match snd p with
  | FDir _ => match prune_empty (snd p) with FDir [] => [] | c' => [(fst p, c')] end
  | _ => [p]
  end.

Lemma prune_empty_dir : forall cs, prune_empty (FDir cs) = FDir (flat_map prune_empty_kid cs).
Proof.
  intro cs. cbn [prune_empty]. f_equal.
  induction cs as [|[n c] r IH]; [reflexivity|]. cbn [flat_map]. rewrite <- IH.
  unfold prune_empty_kid. cbn [fst snd]. destruct c as [| | |ccs]; try reflexivity.
  destruct (prune_empty (FDir ccs)) as [| | |[|? ?]]; reflexivity.
Qed.

Lemma prune_gen_empty : forall t, prune_gen FEmpty t = prune_empty t.
Proof.
  induction t as [d mo|x|mo|cs IH] using fsnode_ind'; try reflexivity.
  rewrite prune_gen_dir, prune_empty_dir. f_equal.
  induction IH as [|[n c] r IHc _ IHr]; [reflexivity|]. cbn [flat_map]. rewrite IHr. f_equal.
  cbn [snd] in IHc. unfold prune_gen_kid, prune_empty_kid. cbn [fst snd].
  destruct c as [| | |ccs]; try reflexivity. cbv zeta. rewrite IHc.
  rewrite prune_empty_dir. cbn [fs_names filt_dir].
  destruct ccs as [|c0 ccs]; [reflexivity|]. cbn [map].
  destruct (flat_map prune_empty_kid (c0 :: ccs)); reflexivity.
Qed.

Definition prune_named_kid (ns : list bytes) (cs0 : bool) (p : bytes * fsnode) : list (bytes * fsnode) :=
  match snd p with
  | FDir _ => if filt_dir (FNamed ns cs0) (fst p) [] then [(fst p, prune_named ns cs0 (snd p))] else []
  | _ => [p]
  end.

Lemma prune_named_dir : forall ns cs0 cs, prune_named ns cs0 (FDir cs) = FDir (flat_map (prune_named_kid ns cs0) cs).
Proof.
  intros ns cs0 cs. cbn [prune_named]. f_equal.
  induction cs as [|[n c] r IH]; [reflexivity|]. cbn [flat_map]. rewrite <- IH.
  unfold prune_named_kid. cbn [fst snd]. destruct c as [| | |ccs]; try reflexivity.
  destruct (filt_dir (FNamed ns cs0) n []); reflexivity.
Qed.

Lemma filt_named_any : forall ns cs0 n a b, filt_dir (FNamed ns cs0) n a = filt_dir (FNamed ns cs0) n b.
Proof. intros. destruct cs0; reflexivity. Qed.

Lemma prune_gen_named : forall ns cs0 t, prune_gen (FNamed ns cs0) t = prune_named ns cs0 t.
Proof.
  intros ns cs0. induction t as [d mo|x|mo|cs IH] using fsnode_ind'; try reflexivity.
  rewrite prune_gen_dir, prune_named_dir. f_equal.
  induction IH as [|[n c] r IHc _ IHr]; [reflexivity|]. cbn [flat_map]. rewrite IHr. f_equal.
  cbn [snd] in IHc. unfold prune_gen_kid, prune_named_kid. cbn [fst snd].
  destruct c as [| | |ccs]; try reflexivity. cbv zeta. rewrite IHc.
  rewrite (filt_named_any ns cs0 n (map fst ccs) []), (filt_named_any ns cs0 n (fs_names (prune_named ns cs0 (FDir ccs))) []).
  destruct (filt_dir (FNamed ns cs0) n []); reflexivity.
Qed.

(* pruning keeps a tree well-formed *)
Lemma prune_gen_kid_name : forall f p q, In q (prune_gen_kid (prune_gen f) f p) -> fst q = fst p.
Proof.
  intros f [n c] q. unfold prune_gen_kid. cbn [fst snd]. destruct c as [| | |ccs].
  1-3: intros [<-|[]]; reflexivity.
  destruct (filt_dir f n (map fst ccs)); [|intros []]. cbv zeta.
  destruct (filt_dir f n (fs_names (prune_gen f (FDir ccs)))); [|intros []]. intros [<-|[]]. reflexivity.
Qed.

Lemma prune_gen_kid_length : forall f p, (length (prune_gen_kid (prune_gen f) f p) <= 1)%nat.
Proof.
  intros f [n c]. unfold prune_gen_kid. cbn [fst snd]. destruct c as [| | |ccs]; cbn [length]; try lia.
  destruct (filt_dir f n (map fst ccs)); [|cbn; lia]. cbv zeta.
  destruct (filt_dir f n (fs_names (prune_gen f (FDir ccs)))); cbn; lia.
Qed.

Lemma NoDup_flat_map_names : forall {A} (g : bytes * A -> list (bytes * A)) l,
  (forall p q, In q (g p) -> fst q = fst p) -> (forall p, length (g p) <= 1)%nat ->
  NoDup (map fst l) -> NoDup (map fst (flat_map g l)).
Proof.
  intros A g l Hn Hl. induction l as [|p l IH]; intro ND; [constructor|].
  cbn [map flat_map] in *. inversion ND as [|? ? Hnot ND']; subst. rewrite map_app.
  specialize (IH ND'). pose proof (Hl p) as L. pose proof (Hn p) as N1.
  destruct (g p) as [|q [|q' g']]; [exact IH| |cbn [length] in L; lia].
  cbn [map app]. constructor; [|exact IH]. rewrite (N1 q (or_introl eq_refl)).
  intro Hin. apply Hnot. apply in_map_iff in Hin. destruct Hin as [z [Ez Hz]].
  apply in_flat_map in Hz. destruct Hz as [y [Hy Hz]]. apply Hn in Hz.
  apply in_map_iff. exists y. split; [congruence | exact Hy].
Qed.

Lemma prune_gen_wf : forall f t, wf_fs t = true -> wf_fs (prune_gen f t) = true.
Proof.
  intros f. induction t as [d mo|x|mo|cs IH] using fsnode_ind'; try (intros; reflexivity).
  intro W. rewrite prune_gen_dir. apply wf_fs_dir in W. destruct W as [ND F]. apply wf_fs_dir. split.
  - apply NoDup_flat_map_names; [apply prune_gen_kid_name | apply prune_gen_kid_length | exact ND].
  - apply Forall_forall. intros q Hq. apply in_flat_map in Hq. destruct Hq as [[n c] [Hp Hq]].
    rewrite Forall_forall in F, IH. destruct (F _ Hp) as [Wn Wc]. specialize (IH _ Hp). cbn [fst snd] in *.
    unfold prune_gen_kid in Hq. cbn [fst snd] in Hq. destruct c as [| | |ccs].
    1-3: destruct Hq as [<-|[]]; split; assumption.
    destruct (filt_dir f n (map fst ccs)); [|destruct Hq]. cbv zeta in Hq.
    destruct (filt_dir f n (fs_names (prune_gen f (FDir ccs)))); [|destruct Hq].
    destruct Hq as [<-|[]]. cbn [fst snd]. split; [exact Wn | apply IH; exact Wc].
Qed.

Lemma prune_empty_wf : forall t, wf_fs t = true -> wf_fs (prune_empty t) = true.
Proof. intros t. rewrite <- prune_gen_empty. apply prune_gen_wf. Qed.
Lemma prune_named_wf : forall ns cs0 t, wf_fs t = true -> wf_fs (prune_named ns cs0 t) = true.
Proof. intros ns cs0 t. rewrite <- prune_gen_named. apply prune_gen_wf. Qed.

(* ================================================================== 9. lookups by path *)
Fixpoint fs_get (path : list bytes) (t : fsnode) : option fsnode :=
  match path with
  | [] => Some t
  | n :: rest =>
      match t with
      | FDir cs => match find (fun p => beqb n (fst p)) cs with
                   | Some (_, c) => fs_get rest c
                   | None => None
                   end
      | _ => None
      end
  end.

Lemma find_name_unique : forall {A} (l : list (bytes * A)) p, NoDup (map fst l) -> In p l ->
  find (fun q => beqb (fst p) (fst q)) l = Some p.
Proof.
  intros A l p. induction l as [|q l IH]; intros ND Hin; [destruct Hin|].
  cbn [find map] in *. inversion ND as [|? ? Hnot ND']; subst.
  destruct (beqb (fst p) (fst q)) eqn:E.
  - apply beqb_eq in E. destruct Hin as [->|Hin]; [reflexivity|].
    exfalso. apply Hnot. rewrite <- E. apply in_map. exact Hin.
  - destruct Hin as [->|Hin]; [rewrite beqb_refl in E; discriminate|]. apply IH; assumption.
Qed.

Lemma find_name_perm : forall {A} (l l' : list (bytes * A)) n, NoDup (map fst l) -> Permutation l l' ->
  find (fun q => beqb n (fst q)) l = find (fun q => beqb n (fst q)) l'.
Proof.
  intros A l l' n ND P.
  assert (ND' : NoDup (map fst l')) by (apply (Permutation_NoDup (Permutation_map fst P)); exact ND).
  destruct (find (fun q => beqb n (fst q)) l) as [p|] eqn:F.
  - apply find_some in F. destruct F as [Hin E]. apply beqb_eq in E. subst n.
    symmetry. apply find_name_unique; [exact ND' | apply (Permutation_in _ P); exact Hin].
  - destruct (find (fun q => beqb n (fst q)) l') as [p|] eqn:F'; [|reflexivity].
    apply find_some in F'. destruct F' as [Hin E].
    pose proof (find_none _ _ F p (Permutation_in _ (Permutation_sym P) Hin)) as X. cbv beta in X. congruence.
Qed.

Lemma find_Forall2 : forall {A B} (R : A -> B -> Prop) (l : list (bytes * A)) (l' : list (bytes * B)) n,
  Forall2 (fun p q => fst p = fst q /\ R (snd p) (snd q)) l l' ->
  match find (fun q => beqb n (fst q)) l, find (fun q => beqb n (fst q)) l' with
  | Some p, Some q => R (snd p) (snd q)
  | None, None => True
  | _, _ => False
  end.
Proof.
  intros A B R l l' n F. induction F as [|p q l l' [E Rpq] _ IH]; cbn [find]; [exact I|].
  rewrite <- E. destruct (beqb n (fst p)); [exact Rpq | exact IH].
Qed.

Lemma wf_fs_child : forall cs p, wf_fs (FDir cs) = true -> In p cs -> wf_fs (snd p) = true.
Proof. intros cs p W Hp. apply wf_fs_dir in W. destruct W as [_ F]. rewrite Forall_forall in F. apply (F p Hp). Qed.

(* a representation has exactly the paths of the tree, and represents the sub-tree at each *)
Lemma Rep_get : forall limit path t m, wf_fs t = true -> Rep limit t m ->
  match fs_get path t, mt_get path m with
  | Some st, Some sm => Rep limit st sm /\ wf_fs st = true
  | None, None => True
  | _, _ => False
  end.
Proof.
  intros limit. induction path as [|n rest IH]; intros t m W R; cbn [fs_get mt_get]; [auto|].
  destruct R as [t ci E F|cs ks ks0 P F2].
  - destruct t; try exact I. discriminate.
  - assert (NDks0 : NoDup (map fst ks0)).
    { apply wf_fs_dir in W. destruct W as [ND _].
      replace (map fst ks0) with (map fst cs); [exact ND|].
      clear -F2. induction F2 as [|p q l l' [E _] _ IH]; [reflexivity|]. cbn [map]. congruence. }
    rewrite (find_name_perm ks ks0 n); [|apply (Permutation_NoDup (Permutation_map fst (Permutation_sym P))); exact NDks0|exact P].
    pose proof (find_Forall2 (Rep limit) cs ks0 n F2) as X.
    destruct (find (fun p => beqb n (fst p)) cs) as [[n1 c1]|] eqn:F1;
      destruct (find (fun p => beqb n (fst p)) ks0) as [[n2 c2]|] eqn:F0; try contradiction; [|exact I].
    cbn [snd] in X. apply IH; [|exact X]. apply find_some in F1. apply (wf_fs_child cs (n1, c1) W (proj1 F1)).
Qed.

(* ================================================================== 10. the walk *)
Section Walk.
  Variable H : bytes -> bytes.

  Lemma from_disk_Rep : forall ord f limit t m, perm_oracle ord ->
    from_disk ord f limit t = FdOk m -> Rep limit (prune_gen f t) m.
  Proof.
    intros ord f limit t m PO FD. unfold from_disk in FD.
    destruct (build ord f limit [] t) as [m0|] eqn:B; [|discriminate]. inversion FD; subst.
    apply (build_prune_Rep ord f limit PO t [] m0 B).
  Qed.

  (* every filter: the root id is the spec-level id of the pruned tree *)
  Theorem from_disk_refines_pruned : forall ord f limit t m, perm_oracle ord -> wf_fs t = true ->
    from_disk ord f limit t = FdOk m -> mt_id H m = node_id H (prune_gen f t).
  Proof.
    intros ord f limit t m PO W FD. apply (Rep_id H limit); [apply prune_gen_wf; exact W|].
    apply (from_disk_Rep ord f limit t m PO FD).
  Qed.

  Theorem from_disk_refines_pruned_paths : forall ord f limit t m path, perm_oracle ord -> wf_fs t = true ->
    from_disk ord f limit t = FdOk m ->
    option_map (mt_id H) (mt_get path m) = option_map (node_id H) (fs_get path (prune_gen f t)).
  Proof.
    intros ord f limit t m path PO W FD.
    pose proof (Rep_get limit path _ _ (prune_gen_wf f t W) (from_disk_Rep ord f limit t m PO FD)) as X.
    destruct (fs_get path (prune_gen f t)) as [st|]; destruct (mt_get path m) as [sm|]; try contradiction; [|reflexivity].
    destruct X as [R Ws]. cbn [option_map]. f_equal. apply (Rep_id H limit _ _ Ws R).
  Qed.

  (* C06 *)
  Theorem walk_refines : forall ord limit t m, perm_oracle ord -> wf_fs t = true ->
    from_disk ord FAll limit t = FdOk m -> mt_id H m = node_id H t.
  Proof.
    intros ord limit t m PO W FD. rewrite (from_disk_refines_pruned ord FAll limit t m PO W FD), prune_gen_all. reflexivity.
  Qed.

  Theorem walk_refines_paths : forall ord limit t m path, perm_oracle ord -> wf_fs t = true ->
    from_disk ord FAll limit t = FdOk m ->
    option_map (mt_id H) (mt_get path m) = option_map (node_id H) (fs_get path t).
  Proof.
    intros ord limit t m path PO W FD.
    rewrite (from_disk_refines_pruned_paths ord FAll limit t m path PO W FD), prune_gen_all. reflexivity.
  Qed.

  (* any two listing orders, any two size limits, any filter: same ids at the same paths *)
  Theorem listing_order_free : forall ord1 ord2 f l1 l2 t m1 m2, perm_oracle ord1 -> perm_oracle ord2 -> wf_fs t = true ->
    from_disk ord1 f l1 t = FdOk m1 -> from_disk ord2 f l2 t = FdOk m2 ->
    mt_id H m1 = mt_id H m2 /\
    forall path, option_map (mt_id H) (mt_get path m1) = option_map (mt_id H) (mt_get path m2).
  Proof.
    intros ord1 ord2 f l1 l2 t m1 m2 P1 P2 W F1 F2. split.
    - rewrite (from_disk_refines_pruned _ _ _ _ _ P1 W F1), (from_disk_refines_pruned _ _ _ _ _ P2 W F2). reflexivity.
    - intro path. rewrite (from_disk_refines_pruned_paths _ _ _ _ _ path P1 W F1),
        (from_disk_refines_pruned_paths _ _ _ _ _ path P2 W F2). reflexivity.
  Qed.

  (* the spec-level id is git's tree id *)
  Lemma fs_perms_git : forall t, fs_perms t = git_perms t.
  Proof. destruct t; reflexivity. Qed.

  Theorem node_id_is_git : forall t, wf_fs t = true -> node_id H t = git_node_id H t.
  Proof.
    induction t as [d mo|x|mo|cs IH] using fsnode_ind'; try reflexivity. intro W.
    rewrite node_id_dir, git_node_id_dir. f_equal.
    rewrite (dir_manifest_is_git_tree _ (fs_entries_wfnames H cs W)). f_equal.
    apply map_ext_in. intros p Hp. rewrite Forall_forall in IH.
    unfold fs_entry, git_entry. rewrite (IH p Hp (wf_fs_child cs p W Hp)), fs_perms_git. reflexivity.
  Qed.
End Walk.

(* ================================================================== 11. sub-nodes, symbolic links and the size limit *)
Inductive FsSub : fsnode -> fsnode -> Prop :=
| FsSubRefl : forall t, FsSub t t
| FsSubKid : forall t' n c cs, In (n, c) cs -> FsSub t' c -> FsSub t' (FDir cs).

(* the symbolic links pass 1 reaches: those not below a directory that the filter rejects on its listing *)
Definition reach_kid (rec : fsnode -> list bytes) (f : filt) (p : bytes * fsnode) : list bytes :=
  match snd p with
  | FDir ccs => if filt_dir f (fst p) (map fst ccs) then rec (snd p) else []
  | _ => rec (snd p)
  end.

Fixpoint reach_links (f : filt) (t : fsnode) : list bytes :=
  match t with
  | Lnk x => [x]
  | FDir cs =>
      (fix go (l : list (bytes * fsnode)) : list bytes :=
         match l with
         | [] => []
         | (n, c) :: r =>
             (match c with
              | FDir ccs => if filt_dir f n (map fst ccs) then reach_links f c else []
              | _ => reach_links f c
              end) ++ go r
         end) cs
  | _ => []
  end.

Lemma reach_links_dir : forall f cs, reach_links f (FDir cs) = flat_map (reach_kid (reach_links f) f) cs.
Proof.
  intros f cs. cbn [reach_links].
  induction cs as [|[n c] r IH]; [reflexivity|]. cbn [flat_map]. rewrite <- IH.
  unfold reach_kid. cbn [fst snd]. destruct c; reflexivity.
Qed.

Lemma pair_fail : forall {A B C} (a : fd_result A) (b : fd_result B) (g : A -> B -> C),
  match a, b with FdOk x, FdOk y => FdOk (g x y) | _, _ => FdSymlinkTooLarge end = FdSymlinkTooLarge
  <-> a = FdSymlinkTooLarge \/ b = FdSymlinkTooLarge.
Proof. intros A B C [x|] [y|] g; split; intro X; auto; try discriminate; destruct X; discriminate. Qed.

Definition some_too_large (limit : option N) (l : list bytes) : Prop :=
  exists x, In x l /\ too_large limit (lenN x) = true.

Lemma some_too_large_app : forall limit a b, some_too_large limit (a ++ b) <-> some_too_large limit a \/ some_too_large limit b.
Proof.
  intros limit a b. unfold some_too_large. split.
  - intros [x [Hin T]]. apply in_app_or in Hin. destruct Hin; [left|right]; eauto.
  - intros [[x [Hin T]]|[x [Hin T]]]; exists x; split; auto; apply in_or_app; auto.
Qed.

Lemma some_too_large_nil : forall limit, ~ some_too_large limit [].
Proof. intros limit [x [[] _]]. Qed.

(* from_disk raises exactly when a symbolic link that pass 1 reaches is longer than the limit *)
Theorem build_fails_iff : forall ord f limit t path,
  build ord f limit path t = FdSymlinkTooLarge <-> some_too_large limit (reach_links f t).
Proof.
  intros ord f limit. induction t as [d mo|x|mo|cs IH] using fsnode_ind'; intro path.
  1,3: rewrite build_file by reflexivity; cbn [from_file reach_links]; split;
       [discriminate | intro X; destruct (some_too_large_nil _ X)].
  - rewrite build_file by reflexivity. cbn [from_file reach_links]. unfold some_too_large.
    destruct (too_large limit (lenN x)) eqn:T; split; try discriminate.
    + intros _. exists x. split; [left; reflexivity | exact T].
    + reflexivity.
    + intros [y [[<-|[]] T']]. congruence.
  - rewrite build_dir, reach_links_dir.
    assert (K : build_kids ord f limit path cs = FdSymlinkTooLarge <->
                some_too_large limit (flat_map (reach_kid (reach_links f) f) cs)).
    { induction IH as [|[n c] r IHc _ IHr]; cbn [build_kids flat_map].
      - split; [discriminate | intro X; destruct (some_too_large_nil _ X)].
      - rewrite some_too_large_app, <- IHr. unfold reach_kid. cbn [fst snd] in *.
        destruct c as [d mo|x|mo|ccs].
        4: destruct (filt_dir f n (map fst ccs));
           [rewrite (pair_fail _ _ (fun m ks => (n, m) :: ks)), (IHc (path ++ [n])); reflexivity
           | split; [auto | intros [X|X]; [destruct (some_too_large_nil _ X) | exact X]]].
        all: rewrite (pair_fail _ _ (fun ci ks => (n, MLeaf ci) :: ks));
             rewrite <- (IHc path), build_file by reflexivity;
             match goal with |- context [from_file ?l ?t] => destruct (from_file l t) end;
             split; intros [X|X]; auto; discriminate. }
    rewrite <- K. destruct (build_kids ord f limit path cs); split; auto; discriminate.
Qed.

Lemma too_large_spec : forall limit len, too_large limit len = true <-> exists l, limit = Some l /\ l < len.
Proof.
  intros [l|] len; cbn [too_large].
  - rewrite N.ltb_lt. split; [intro; exists l; auto | intros [l' [E L]]; inversion E; subst; exact L].
  - split; [discriminate | intros [l [E _]]; discriminate].
Qed.

Theorem from_disk_fails_iff : forall ord f limit t,
  from_disk ord f limit t = FdSymlinkTooLarge <-> some_too_large limit (reach_links f t).
Proof.
  intros ord f limit t. rewrite <- (build_fails_iff ord f limit t []). unfold from_disk.
  destruct (build ord f limit [] t); split; auto; discriminate.
Qed.

(* without a limit the walk never fails *)
Theorem from_disk_total : forall ord f t, exists m, from_disk ord f None t = FdOk m.
Proof.
  intros ord f t. destruct (from_disk ord f None t) as [m|] eqn:E; [eauto|].
  apply from_disk_fails_iff in E. destruct E as [x [_ T]]. discriminate T.
Qed.

Lemma reach_links_sub : forall f t x, In x (reach_links f t) -> FsSub (Lnk x) t.
Proof.
  intros f. induction t as [d mo|y|mo|cs IH] using fsnode_ind'; intros x Hin; try (destruct Hin; fail).
  - destruct Hin as [<-|[]]. constructor.
  - rewrite reach_links_dir in Hin. apply in_flat_map in Hin. destruct Hin as [[n c] [Hp Hin]].
    rewrite Forall_forall in IH. specialize (IH _ Hp). cbn [snd] in IH.
    apply FsSubKid with (n := n) (c := c); [exact Hp|]. apply IH.
    unfold reach_kid in Hin. cbn [fst snd] in Hin. destruct c as [| | |ccs]; try exact Hin.
    destruct (filt_dir f n (map fst ccs)); [exact Hin | destruct Hin].
Qed.

Lemma reach_links_all : forall t x, In x (reach_links FAll t) <-> FsSub (Lnk x) t.
Proof.
  intros t x. split; [apply reach_links_sub|].
  induction t as [d mo|y|mo|cs IH] using fsnode_ind'; intro S.
  1-3: inversion S; subst; left; reflexivity.
  inversion S as [|? n c ? Hp S']; subst.
  rewrite reach_links_dir. apply in_flat_map. exists (n, c). split; [exact Hp|].
  rewrite Forall_forall in IH. specialize (IH _ Hp S'). cbn [snd] in IH.
  unfold reach_kid. cbn [fst snd]. destruct c; exact IH.
Qed.

(* the root is never filtered out *)
Theorem root_kept : forall ord f limit cs m, from_disk ord f limit (FDir cs) = FdOk m -> exists ks, m = MNode ks.
Proof.
  intros ord f limit cs m FD. unfold from_disk in FD.
  destruct (build ord f limit [] (FDir cs)) as [m0|] eqn:B; [|discriminate].
  destruct (build_dir_shape _ _ _ _ _ _ B) as [ks ->]. injection FD as <-. eauto.
Qed.

(* ================================================================== 12. small facts *)
Lemma exec_bit : forall mode,
  (file_perms mode = PERMS_executable_content <-> N.land mode 73 <> 0) /\
  (file_perms mode = PERMS_content <-> N.land mode 73 = 0).
Proof.
  intro mode. unfold file_perms. destruct (N.eqb_spec (N.land mode 73) 0) as [E|E]; split; split; intro X;
    try reflexivity; try assumption; try congruence; try discriminate X.
Qed.

Lemma perms_table :
  PERMS_directory = 16384 /\ PERMS_symlink = 40960 /\ PERMS_content = 33188 /\ PERMS_executable_content = 33261 /\
  map oct [PERMS_directory; PERMS_symlink; PERMS_content; PERMS_executable_content]
  = [bs "40000"; bs "120000"; bs "100644"; bs "100755"].
Proof. repeat split; vm_compute; reflexivity. Qed.

(* trailing slashes *)
Lemma repeat_snoc : forall {A} (x : A) k, repeat x (S k) = repeat x k ++ [x].
Proof. intros A x k. induction k as [|k IH]; [reflexivity|]. cbn [repeat app] in *. rewrite <- IH. reflexivity. Qed.

Lemma rev_repeat' : forall {A} (x : A) k, rev (repeat x k) = repeat x k.
Proof.
  intros A x k. induction k as [|k IH]; [reflexivity|]. rewrite repeat_snoc at 2. cbn [repeat rev]. rewrite IH. reflexivity.
Qed.

Lemma rstrip_rev_repeat : forall k r, rstrip_slash_rev (repeat SLASH k ++ r) = rstrip_slash_rev r.
Proof. induction k as [|k IH]; intro r; [reflexivity|]. cbn [repeat app rstrip_slash_rev]. rewrite N.eqb_refl. apply IH. Qed.

Lemma rstrip_slash_app_repeat : forall a k, rstrip_slash (a ++ repeat SLASH k) = rstrip_slash a.
Proof. intros a k. unfold rstrip_slash. rewrite rev_app_distr, rev_repeat', rstrip_rev_repeat. reflexivity. Qed.

Lemma rstrip_noslash : forall a, last a 0 <> SLASH -> rstrip_slash a = a.
Proof.
  intros a. destruct a as [|c a0]; [reflexivity|].
  destruct (@exists_last _ (c :: a0)) as [a' [z E]]; [discriminate|]. rewrite E, last_last. intro X.
  unfold rstrip_slash. rewrite rev_app_distr. cbn [rev app rstrip_slash_rev].
  destruct (N.eqb_spec z SLASH) as [Y|Y]; [contradiction|]. cbn [rev]. rewrite rev_involutive. reflexivity.
Qed.

Lemma norm_path_cons : forall c rest, rest <> [] ->
  norm_path (c :: rest) = if N.eqb (last (c :: rest) 0) SLASH then c :: rstrip_slash rest else c :: rest.
Proof. intros c [|d r] X; [congruence | reflexivity]. Qed.

Lemma last_cons_ne : forall (c : N) rest, rest <> [] -> last (c :: rest) 0 = last rest 0.
Proof. intros c [|d r] X; [congruence | reflexivity]. Qed.

(* "dir///" is read as "dir" *)
Theorem trailing_slash : forall p k, p <> [] -> last p 0 <> SLASH -> norm_path (p ++ repeat SLASH k) = p.
Proof.
  intros [|c rest] k NE L; [congruence|]. destruct k as [|k].
  - rewrite app_nil_r. destruct rest as [|d r]; [reflexivity|].
    rewrite norm_path_cons by discriminate. destruct (N.eqb_spec (last (c :: d :: r) 0) SLASH); [contradiction | reflexivity].
  - cbn [app]. rewrite norm_path_cons by (destruct rest; cbn [repeat app]; discriminate).
    replace (last (c :: rest ++ repeat SLASH (S k)) 0) with SLASH.
    2: { rewrite repeat_snoc, app_assoc, app_comm_cons, last_last. reflexivity. }
    rewrite N.eqb_refl, rstrip_slash_app_repeat. f_equal.
    destruct rest as [|d r]; [reflexivity|]. apply rstrip_noslash.
    rewrite <- (last_cons_ne c (d :: r)) by discriminate. exact L.
Qed.

(* "/" stays "/", and "//", "///", ... are read as "/" *)
Theorem trailing_slash_root : forall k, norm_path (SLASH :: repeat SLASH k) = [SLASH].
Proof.
  intros [|k]; [reflexivity|]. rewrite norm_path_cons by discriminate.
  replace (last (SLASH :: repeat SLASH (S k)) 0) with SLASH.
  2: { rewrite repeat_snoc, app_comm_cons, last_last. reflexivity. }
  rewrite N.eqb_refl. change (repeat SLASH (S k)) with ([] ++ repeat SLASH (S k)).
  rewrite rstrip_slash_app_repeat. reflexivity.
Qed.

(* ================================================================== 13. non-vacuity *)
(* root/
     a        regular 0644 "hi"
     a.b/     directory: x -> "../a" (symlink), run (0755)
     e/       directory holding only the empty directory e/f/   (empty only recursively)
     fifo     special file
     .git/    directory: HEAD                                          *)
Definition ex_tree : fsnode :=
  FDir [ (bs "a", Reg (bs "hi") 420);
         (bs "a.b", FDir [ (bs "x", Lnk (bs "../a")); (bs "run", Reg (bs "#!") 493) ]);
         (bs "e", FDir [ (bs "f", FDir []) ]);
         (bs "fifo", Special 420);
         (bs ".git", FDir [ (bs "HEAD", Reg (bs "hi") 420) ]) ].

Definition id_ord : list bytes -> list (bytes * mtree) -> list (bytes * mtree) := fun _ l => l.
Definition rev_ord : list bytes -> list (bytes * mtree) -> list (bytes * mtree) := fun _ l => rev l.

Lemma id_ord_perm : perm_oracle id_ord.
Proof. intros p ks. reflexivity. Qed.
Lemma rev_ord_perm : perm_oracle rev_ord.
Proof. intros p ks. apply Permutation_sym, Permutation_rev. Qed.

Example ex_tree_ok :
  wf_fs ex_tree = true /\ perm_oracle rev_ord /\
  (exists m, from_disk rev_ord FAll (Some 5) ex_tree = FdOk m /\ m <> MNode []) /\
  prune_empty ex_tree <> ex_tree /\ prune_named [bs ".GIT"] false ex_tree <> ex_tree /\
  prune_named [bs ".GIT"] true ex_tree = ex_tree.
Proof.
  split; [vm_compute; reflexivity|]. split; [exact rev_ord_perm|]. split.
  - eexists. split; [vm_compute; reflexivity | discriminate].
  - split; [vm_compute; discriminate|]. split; [vm_compute; discriminate|]. vm_compute. reflexivity.
Qed.

(* ================================================================== 14. norm_path only strips trailing slashes *)
Lemma rstrip_slash_rev_spec : forall r, exists k, r = repeat SLASH k ++ rstrip_slash_rev r.
Proof.
  induction r as [|c r [k IH]]; [exists 0%nat; reflexivity|]. cbn [rstrip_slash_rev].
  destruct (N.eqb_spec c SLASH) as [->|_]; [|exists 0%nat; reflexivity].
  exists (S k). cbn [repeat app]. rewrite <- IH. reflexivity.
Qed.

Lemma rstrip_slash_spec : forall l, exists k, l = rstrip_slash l ++ repeat SLASH k.
Proof.
  intro l. destruct (rstrip_slash_rev_spec (rev l)) as [k E]. exists k. unfold rstrip_slash.
  rewrite <- (rev_involutive l) at 1. rewrite E at 1. rewrite rev_app_distr, rev_repeat'. reflexivity.
Qed.

(* the path given to scandir is the given path minus some trailing '/' (never everything: "/" stays "/"): no
   component is removed, reordered or collapsed - which directory the path designates is left to the OS *)
Theorem norm_path_only_strips_slashes : forall p,
  (exists k, p = norm_path p ++ repeat SLASH k) /\ (p <> [] -> norm_path p <> []).
Proof.
  intro p. destruct p as [|c [|d r]].
  - split; [exists 0%nat; reflexivity | congruence].
  - split; [exists 0%nat; reflexivity | discriminate].
  - unfold norm_path. destruct (N.eqb (last (c :: d :: r) 0) SLASH).
    + destruct (rstrip_slash_spec (d :: r)) as [k E]. split; [|discriminate].
      exists k. cbn [app]. rewrite <- E. reflexivity.
    + split; [exists 0%nat; rewrite app_nil_r; reflexivity | discriminate].
Qed.

(* ================================================================== 15. depth: the model has no depth limit *)
Lemma fs_depth_chain : forall n name t, fs_depth (chain n name t) = (n + fs_depth t)%nat.
Proof.
  induction n as [|n IH]; intros name t; [reflexivity|]. cbn [chain fs_depth]. rewrite IH, Nat.max_0_r. reflexivity.
Qed.

Lemma is_fdir_chain : forall n name t, is_fdir t = true -> is_fdir (chain n name t) = true.
Proof. intros [|n] name t E; [exact E | reflexivity]. Qed.

(* the tree object of a directory holding the single sub-directory [name] whose id is i: "tree <len>\0" "40000 <name>\0<i>" *)
Definition single_dir_object (name i : bytes) : bytes :=
  git_object (bs "tree") (bs "40000" ++ [SP] ++ name ++ [NUL] ++ i).

Lemma dir_manifest_single : forall name i,
  dir_manifest [{| e_name := name; e_type := EDir; e_target := i; e_perms := PERMS_directory |}] = single_dir_object name i.
Proof.
  intros name i. rewrite dir_manifest_spec. unfold single_dir_object. cbn [sort insert map concat enc e_perms e_name e_target].
  rewrite app_nil_r. reflexivity.
Qed.

Section Depth.
  Variable H : bytes -> bytes.

  (* the id of a chain is computed by iterating the single-entry tree object n times from the bottom: the iterative
     reference of the correspondence check *)
  Theorem node_id_chain : forall n name t, is_fdir t = true ->
    node_id H (chain n name t) = Nat.iter n (fun i => H (single_dir_object name i)) (node_id H t).
  Proof.
    induction n as [|n IH]; intros name t E; [reflexivity|].
    cbn [chain]. change (Nat.iter (S n) ?f ?x) with (f (Nat.iter n f x)). rewrite node_id_dir. cbn [map]. unfold fs_entry. cbn [fst snd].
    rewrite (is_fdir_chain n name t E). rewrite <- (IH name t E).
    replace (fs_perms (chain n name t)) with PERMS_directory.
    - rewrite dir_manifest_single. reflexivity.
    - pose proof (is_fdir_chain n name t E) as D. destruct (chain n name t); try discriminate D. reflexivity.
  Qed.

  Lemma wf_chain : forall n name t, name_wf name -> wf_fs t = true -> wf_fs (chain n name t) = true.
  Proof.
    induction n as [|n IH]; intros name t Wn Wt; [exact Wt|]. cbn [chain]. apply wf_fs_dir. split.
    - cbn [map fst]. constructor; [intros [] | constructor].
    - constructor; [|constructor]. cbn [fst snd]. split; [exact Wn | apply IH; assumption].
  Qed.

  (* at every depth the walk succeeds (no limit) and computes the id of the chain *)
  Theorem no_depth_limit : forall n name t ord, is_fdir t = true -> name_wf name -> wf_fs t = true -> perm_oracle ord ->
    fs_depth (chain n name t) = (n + fs_depth t)%nat /\
    exists m, from_disk ord FAll None (chain n name t) = FdOk m /\
              mt_id H m = Nat.iter n (fun i => H (single_dir_object name i)) (node_id H t).
  Proof.
    intros n name t ord E Wn Wt PO. split; [apply fs_depth_chain|].
    destruct (from_disk_total ord FAll (chain n name t)) as [m FD]. exists m. split; [exact FD|].
    rewrite (walk_refines H ord None _ m PO (wf_chain n name t Wn Wt) FD). apply node_id_chain. exact E.
  Qed.
End Depth.
