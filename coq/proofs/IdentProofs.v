(* C07 - proofs about model/Ident.v.  Every statement quantifies over the hash
   H: nothing is assumed about it (no collision freedom, no output length,
   not even a non-empty output). *)
From Coq Require Import List NArith Bool Arith.
From SWH.lib Require Import Bytes.
From SWH Require Import Generated.
From SWH.model Require Import Ident.
From SWH.model Require Dir Snap Rel Rev.
Import ListNotations.

Section Generic.
  Variable H : bytes -> bytes.

  Lemma compute_hash_set_id : forall i o, compute_hash H (set_id i o) = compute_hash H o.
  Proof. intros i o. reflexivity. Qed.

  Lemma hash_from_attributes_set_id : forall i o, hash_from_attributes H (set_id i o) = hash_from_attributes H o.
  Proof. intros i o. reflexivity. Qed.

  Lemma set_id_same : forall o, set_id (h_id o) o = o.
  Proof. intros [k a r i]. reflexivity. Qed.

  Lemma set_id_set_id : forall i j o, set_id i (set_id j o) = set_id i o.
  Proof. intros i j o. reflexivity. Qed.

  Lemma compute_hash_some : forall o a, h_attrs o = Some a ->
    compute_hash H o = Ok (H (manifest_of a (h_raw o))).
  Proof.
    intros o a Ha. unfold compute_hash, hash_from_attributes, manifest_of. rewrite Ha.
    destruct (h_raw o); reflexivity.
  Qed.

  Lemma compute_hash_ok_inv : forall o h, compute_hash H o = Ok h ->
    (exists m, h_raw o = Some m /\ h = H m) \/ (h_raw o = None /\ exists a, h_attrs o = Some a /\ h = H a).
  Proof.
    intros o h. unfold compute_hash, hash_from_attributes.
    destruct (h_raw o) as [m|].
    - intro E. inversion E. left. exists m. split; reflexivity.
    - destruct (h_attrs o) as [a|]; intro E; inversion E. right. split; [reflexivity|].
      exists a. split; reflexivity.
  Qed.

  (* ------------------------------------------------------------ init *)
  Lemma init_empty : forall o a, h_id o = [] -> h_attrs o = Some a ->
    init H o = Ok (set_id (H (manifest_of a (h_raw o))) o).
  Proof.
    intros o a Hid Ha. unfold init. rewrite Hid, (compute_hash_some o a Ha). reflexivity.
  Qed.

  Lemma init_nonempty : forall o, h_id o <> [] -> init H o = Ok o.
  Proof. intros o Hne. unfold init. destruct (h_id o); [congruence | reflexivity]. Qed.

  (* init applied to an object whose id already is the recomputed one: unchanged,
     even when the hash happens to be the empty string *)
  Lemma init_fixed : forall o, compute_hash H o = Ok (h_id o) -> init H o = Ok o.
  Proof.
    intros o Hc. unfold init. destruct (h_id o) eqn:E; [|reflexivity].
    rewrite Hc. rewrite <- E. rewrite set_id_same. reflexivity.
  Qed.

  Theorem init_id : forall o a, h_id o = [] -> h_attrs o = Some a ->
    exists o', init H o = Ok o'
      /\ h_kind o' = h_kind o /\ h_attrs o' = h_attrs o /\ h_raw o' = h_raw o
      /\ h_id o' = H (manifest_of a (h_raw o))
      /\ compute_hash H o' = Ok (h_id o')
      /\ init H o' = Ok o'.
  Proof.
    intros o a Hid Ha. exists (set_id (H (manifest_of a (h_raw o))) o).
    split; [apply init_empty; assumption|].
    repeat split; try reflexivity.
    - rewrite compute_hash_set_id. apply compute_hash_some. exact Ha.
    - apply init_fixed. rewrite compute_hash_set_id. apply compute_hash_some. exact Ha.
  Qed.

  (* no manifest (a Release without target and without raw manifest): the
     object cannot be built without an id *)
  Lemma init_no_manifest : forall o, h_id o = [] -> h_attrs o = None -> h_raw o = None ->
    init H o = Err TypeError.
  Proof.
    intros o Hid Ha Hr. unfold init, compute_hash, hash_from_attributes. rewrite Hid, Hr, Ha. reflexivity.
  Qed.

  (* ------------------------------------------------------------ construct *)
  Definition raw_of_arg (raw_arg : option (option bytes)) : option bytes :=
    match raw_arg with Some r => r | None => None end.

  Definition raw_arg_allowed (k : kind) (raw_arg : option (option bytes)) : Prop :=
    raw_arg <> None -> has_raw_field k = true.

  Lemma construct_allowed : forall k attrs raw_arg i, raw_arg_allowed k raw_arg ->
    construct H k attrs raw_arg i
    = init H {| h_kind := k; h_attrs := attrs; h_raw := raw_of_arg raw_arg; h_id := i |}.
  Proof.
    intros k attrs raw_arg i Hal. unfold construct.
    destruct raw_arg as [r|]; cbn [is_some].
    - rewrite (Hal ltac:(discriminate)). reflexivity.
    - rewrite andb_false_r. reflexivity.
  Qed.

  Lemma construct_refused : forall k attrs r i, has_raw_field k = false ->
    construct H k attrs (Some r) i = Err TypeError.
  Proof. intros k attrs r i Hk. unfold construct. rewrite Hk. reflexivity. Qed.

  Lemma wf_mk : forall k attrs raw_arg i, raw_arg_allowed k raw_arg ->
    wf {| h_kind := k; h_attrs := attrs; h_raw := raw_of_arg raw_arg; h_id := i |}.
  Proof.
    intros k attrs raw_arg i Hal. unfold wf. cbn [h_raw h_kind]. intro Hr. apply Hal.
    destruct raw_arg; [discriminate | cbn in Hr; congruence].
  Qed.

  Lemma wf_set_id : forall i o, wf o -> wf (set_id i o).
  Proof. intros i o Hw. exact Hw. Qed.

  Theorem construct_id : forall k a raw_arg, raw_arg_allowed k raw_arg ->
    exists o', construct H k (Some a) raw_arg [] = Ok o'
      /\ h_kind o' = k /\ h_attrs o' = Some a /\ h_raw o' = raw_of_arg raw_arg
      /\ h_id o' = H (manifest_of a (raw_of_arg raw_arg))
      /\ compute_hash H o' = Ok (h_id o')
      /\ wf o'.
  Proof.
    intros k a raw_arg Hal. rewrite (construct_allowed _ _ _ _ Hal).
    set (o := {| h_kind := k; h_attrs := Some a; h_raw := raw_of_arg raw_arg; h_id := [] |}).
    destruct (init_id o a eq_refl eq_refl) as [o' [Hi [Hk [Ha [Hr [Hid [Hc _]]]]]]].
    exists o'. split; [exact Hi|]. repeat split; try assumption.
    unfold wf. rewrite Hr, Hk. apply (wf_mk k (Some a) raw_arg [] Hal).
  Qed.

  Theorem construct_explicit_id : forall k attrs raw_arg i, raw_arg_allowed k raw_arg -> i <> [] ->
    construct H k attrs raw_arg i
    = Ok {| h_kind := k; h_attrs := attrs; h_raw := raw_of_arg raw_arg; h_id := i |}.
  Proof.
    intros k attrs raw_arg i Hal Hne. rewrite (construct_allowed _ _ _ _ Hal).
    apply init_nonempty. exact Hne.
  Qed.

  (* ------------------------------------------------------------ check *)
  Lemma neg_beqb_false : forall a b, negb (beqb a b) = false <-> a = b.
  Proof. intros a b. rewrite negb_false_iff. apply beqb_eq. Qed.

  Theorem check_ok_iff : forall o,
    check H o = Ok tt <->
    exists a, h_attrs o = Some a
      /\ h_id o = H (manifest_of a (h_raw o))
      /\ ~ (h_raw o <> None /\ h_id o = H a).
  Proof.
    intro o. unfold check, compute_hash, hash_from_attributes, manifest_of.
    destruct (h_raw o) as [m|]; destruct (h_attrs o) as [a|].
    - (* raw, attrs *)
      destruct (negb (beqb (h_id o) (H m))) eqn:E1.
      + split; [discriminate|]. intros [a' [_ [Hid _]]].
        apply neg_beqb_false in Hid. congruence.
      + apply neg_beqb_false in E1.
        destruct (beqb (h_id o) (H a)) eqn:E2.
        * split; [discriminate|]. intros [a' [Ha' [_ Hn]]]. inversion Ha'; subst a'.
          exfalso. apply Hn. split; [discriminate|]. apply beqb_eq. exact E2.
        * split; [|reflexivity]. intros _. exists a. split; [reflexivity|]. split; [exact E1|].
          intros [_ K]. apply beqb_neq in E2. contradiction.
    - (* raw, no attrs *)
      destruct (negb (beqb (h_id o) (H m))); split; try discriminate; intros [a' [K _]]; discriminate.
    - (* no raw, attrs *)
      destruct (negb (beqb (h_id o) (H a))) eqn:E1.
      + split; [discriminate|]. intros [a' [Ha' [Hid _]]]. inversion Ha'; subst a'.
        apply neg_beqb_false in Hid. congruence.
      + apply neg_beqb_false in E1. split; [|reflexivity]. intros _.
        exists a. split; [reflexivity|]. split; [exact E1|]. intros [K _]. apply K. reflexivity.
    - split; [discriminate|]. intros [a' [K _]]. discriminate.
  Qed.

  (* the form of the design: for an object whose attributes have a manifest *)
  Theorem check_iff : forall o a, h_attrs o = Some a ->
    (check H o = Ok tt <->
     compute_hash H o = Ok (h_id o) /\ ~ (h_raw o <> None /\ h_id o = H a)).
  Proof.
    intros o a Ha. rewrite check_ok_iff. rewrite (compute_hash_some o a Ha). split.
    - intros [a' [Ha' [Hid Hn]]]. rewrite Ha in Ha'. inversion Ha'; subst a'.
      split; [congruence | exact Hn].
    - intros [Hc Hn]. exists a. split; [exact Ha|]. split; [congruence | exact Hn].
  Qed.

  (* every outcome of check: accepted, rejected (ValueError), or - only when
     the attributes have no manifest - the TypeError of the manifest function *)
  Theorem check_verdicts : forall o,
    check H o = Ok tt \/ check H o = Err ValueError \/ (h_attrs o = None /\ check H o = Err TypeError).
  Proof.
    intro o. unfold check, compute_hash, hash_from_attributes.
    destruct (h_raw o) as [m|]; destruct (h_attrs o) as [a|].
    - destruct (negb (beqb (h_id o) (H m))); [right; left; reflexivity|].
      destruct (beqb (h_id o) (H a)); [right; left; reflexivity | left; reflexivity].
    - destruct (negb (beqb (h_id o) (H m))); [right; left; reflexivity|].
      right; right. split; reflexivity.
    - destruct (negb (beqb (h_id o) (H a))); [right; left; reflexivity | left; reflexivity].
    - right; right. split; reflexivity.
  Qed.

  Theorem check_rejects_with_value_error : forall o a, h_attrs o = Some a ->
    check H o <> Ok tt -> check H o = Err ValueError.
  Proof.
    intros o a Ha Hn. destruct (check_verdicts o) as [K | [K | [K _]]]; [contradiction | exact K | congruence].
  Qed.

  Theorem wrong_id_rejected : forall o i, compute_hash H o <> Ok i -> check H (set_id i o) <> Ok tt.
  Proof.
    intros o i Hne Hok. apply check_ok_iff in Hok. destruct Hok as [a [Ha [Hid _]]].
    cbn [set_id h_attrs h_id h_raw] in Ha, Hid.
    apply Hne. rewrite (compute_hash_some o a Ha). congruence.
  Qed.

  Theorem wrong_id_value_error : forall o a i, h_attrs o = Some a ->
    i <> H (manifest_of a (h_raw o)) -> check H (set_id i o) = Err ValueError.
  Proof.
    intros o a i Ha Hne. apply (check_rejects_with_value_error _ a); [exact Ha|].
    apply wrong_id_rejected. rewrite (compute_hash_some o a Ha). congruence.
  Qed.

  Theorem right_id_accepted : forall o a, h_attrs o = Some a ->
    ~ unneeded_raw H a (h_raw o) ->
    check H (set_id (H (manifest_of a (h_raw o))) o) = Ok tt.
  Proof.
    intros o a Ha Hn. apply check_ok_iff. exists a. cbn [set_id h_attrs h_id h_raw].
    split; [exact Ha|]. split; [reflexivity|].
    intros [Hr K]. apply Hn. unfold unneeded_raw. destruct (h_raw o) as [m|]; [|congruence].
    exact K.
  Qed.

  (* a raw manifest that the attributes alone would reproduce (same bytes, or
     merely the same hash) is rejected whatever the id *)
  Theorem unneeded_raw_rejected : forall o a i, h_attrs o = Some a ->
    unneeded_raw H a (h_raw o) -> check H (set_id i o) = Err ValueError.
  Proof.
    intros o a i Ha Hu. apply (check_rejects_with_value_error _ a); [exact Ha|].
    intro Hok. apply check_ok_iff in Hok. destruct Hok as [a' [Ha' [Hid Hn]]].
    cbn [set_id h_attrs h_id h_raw] in Ha', Hid, Hn. rewrite Ha in Ha'. inversion Ha'; subst a'.
    unfold unneeded_raw in Hu. destruct (h_raw o) as [m|]; [|contradiction].
    apply Hn. split; [discriminate|]. cbn [manifest_of] in Hid. congruence.
  Qed.

  Corollary same_bytes_raw_rejected : forall k a i,
    check H {| h_kind := k; h_attrs := Some a; h_raw := Some a; h_id := i |} = Err ValueError.
  Proof.
    intros k a i.
    apply (unneeded_raw_rejected {| h_kind := k; h_attrs := Some a; h_raw := Some a; h_id := [] |} a i eq_refl).
    reflexivity.
  Qed.

  Theorem needed_raw_accepted : forall o a m, h_attrs o = Some a -> h_raw o = Some m ->
    H m <> H a -> check H (set_id (H m) o) = Ok tt.
  Proof.
    intros o a m Ha Hr Hne. pose proof (right_id_accepted o a Ha) as K. rewrite Hr in K.
    apply K. exact Hne.
  Qed.

  (* an object built without id passes check, unless its raw manifest is unneeded *)
  Theorem built_checks : forall k a raw_arg o', raw_arg_allowed k raw_arg ->
    construct H k (Some a) raw_arg [] = Ok o' ->
    (~ unneeded_raw H a (raw_of_arg raw_arg) -> check H o' = Ok tt)
    /\ (unneeded_raw H a (raw_of_arg raw_arg) -> check H o' = Err ValueError).
  Proof.
    intros k a raw_arg o' Hal Hc. rewrite (construct_allowed _ _ _ _ Hal) in Hc.
    set (o := {| h_kind := k; h_attrs := Some a; h_raw := raw_of_arg raw_arg; h_id := [] |}) in *.
    rewrite (init_empty o a eq_refl eq_refl) in Hc. inversion Hc; subst o'. split; intro Hu.
    - apply (right_id_accepted o a eq_refl Hu).
    - apply (unneeded_raw_rejected o a _ eq_refl Hu).
  Qed.

  (* ------------------------------------------------------------ evolve *)
  Definition new_attrs (o : hobj) (c : change) : option bytes :=
    match ch_attrs c with Some a => a | None => h_attrs o end.
  Definition new_raw (o : hobj) (c : change) : option bytes :=
    match ch_raw c with Some r => r | None => h_raw o end.
  (* the object attr.evolve builds before the id is recomputed: id kept *)
  Definition changed (o : hobj) (c : change) : hobj :=
    {| h_kind := h_kind o; h_attrs := new_attrs o c; h_raw := new_raw o c; h_id := h_id o |}.

  Lemma attr_evolve_arg_allowed : forall o raw', wf o -> (raw' <> None -> has_raw_field (h_kind o) = true) ->
    raw_arg_allowed (h_kind o)
      (match raw' with Some r => Some r | None => if has_raw_field (h_kind o) then Some (h_raw o) else None end).
  Proof.
    intros o raw' Hw Hal. unfold raw_arg_allowed. destruct raw' as [r|].
    - intros _. apply Hal. discriminate.
    - destruct (has_raw_field (h_kind o)); [reflexivity | congruence].
  Qed.

  Lemma attr_evolve_raw : forall o raw', wf o ->
    raw_of_arg (match raw' with Some r => Some r | None => if has_raw_field (h_kind o) then Some (h_raw o) else None end)
    = match raw' with Some r => r | None => h_raw o end.
  Proof.
    intros o raw' Hw. destruct raw' as [r|]; [reflexivity|].
    destruct (has_raw_field (h_kind o)) eqn:E; [reflexivity|]. cbn [raw_of_arg].
    unfold wf in Hw. destruct (h_raw o); [|reflexivity]. rewrite Hw in E; [discriminate | discriminate].
  Qed.

  Lemma attr_evolve_spec : forall o attrs' raw' i, wf o ->
    (raw' <> None -> has_raw_field (h_kind o) = true) ->
    attr_evolve H o attrs' raw' i
    = init H {| h_kind := h_kind o; h_attrs := match attrs' with Some a => a | None => h_attrs o end;
                h_raw := match raw' with Some r => r | None => h_raw o end; h_id := i |}.
  Proof.
    intros o attrs' raw' i Hw Hal. unfold attr_evolve.
    rewrite (construct_allowed _ _ _ _ (attr_evolve_arg_allowed o raw' Hw Hal)).
    rewrite (attr_evolve_raw o raw' Hw). reflexivity.
  Qed.

  Theorem evolve_id_refused : forall o c i, ch_id c = Some i -> evolve H o c = Err TypeError.
  Proof. intros o c i Hc. unfold evolve. rewrite Hc. reflexivity. Qed.

  Theorem evolve_raw_refused : forall o c r, has_raw_field (h_kind o) = false -> ch_raw c = Some r ->
    evolve H o c = Err TypeError.
  Proof.
    intros o c r Hk Hr. unfold evolve. destruct (ch_id c); [reflexivity|].
    unfold attr_evolve. rewrite Hr. rewrite (construct_refused _ _ _ _ Hk). reflexivity.
  Qed.

  Theorem evolve_spec : forall o c a', wf o -> ch_id c = None ->
    (ch_raw c <> None -> has_raw_field (h_kind o) = true) ->
    new_attrs o c = Some a' ->
    exists o', evolve H o c = Ok o'
      /\ o' = set_id (H (manifest_of a' (new_raw o c))) (changed o c)
      /\ compute_hash H (changed o c) = Ok (h_id o')
      /\ compute_hash H o' = Ok (h_id o')
      /\ (~ unneeded_raw H a' (new_raw o c) -> check H o' = Ok tt)
      /\ (unneeded_raw H a' (new_raw o c) -> check H o' = Err ValueError)
      /\ wf o'.
  Proof.
    intros o c a' Hw Hid Hal Ha.
    set (o1 := changed o c).
    assert (Hw1 : wf o1).
    { unfold wf, o1, changed, new_raw. cbn [h_raw h_kind]. destruct (ch_raw c) as [r|] eqn:E.
      - intros _. apply Hal. discriminate.
      - exact Hw. }
    assert (Hc1 : compute_hash H o1 = Ok (H (manifest_of a' (new_raw o c)))).
    { apply (compute_hash_some o1 a'). exact Ha. }
    exists (set_id (H (manifest_of a' (new_raw o c))) o1).
    assert (Hev : evolve H o c = Ok (set_id (H (manifest_of a' (new_raw o c))) o1)).
    { unfold evolve. rewrite Hid.
      rewrite (attr_evolve_spec o (ch_attrs c) (ch_raw c) (h_id o) Hw Hal).
      fold (new_attrs o c). fold (new_raw o c). fold (changed o c). fold o1.
      (* the first constructor call: id kept, or recomputed when it was empty *)
      assert (Hi : exists j, init H o1 = Ok (set_id j o1)).
      { unfold init. destruct (h_id o1) eqn:E.
        - rewrite Hc1. eexists. reflexivity.
        - exists (h_id o1). rewrite set_id_same. reflexivity. }
      destruct Hi as [j Hi]. rewrite Hi. rewrite compute_hash_set_id, Hc1.
      rewrite (attr_evolve_spec (set_id j o1) None None _ (wf_set_id j o1 Hw1) ltac:(congruence)).
      cbn [set_id h_kind h_attrs h_raw].
      change {| h_kind := h_kind o1; h_attrs := h_attrs o1; h_raw := h_raw o1;
                h_id := H (manifest_of a' (new_raw o c)) |}
        with (set_id (H (manifest_of a' (new_raw o c))) o1).
      apply init_fixed. rewrite compute_hash_set_id. exact Hc1. }
    split; [exact Hev|]. split; [reflexivity|]. split; [exact Hc1|].
    split; [rewrite compute_hash_set_id; exact Hc1|].
    split; [|split].
    - intro Hn. apply (right_id_accepted o1 a' Ha Hn).
    - intro Hu. apply (unneeded_raw_rejected o1 a' _ Ha Hu).
    - apply wf_set_id. exact Hw1.
  Qed.

  (* the new attributes have no manifest and no raw manifest stands in: TypeError *)
  Theorem evolve_no_manifest : forall o c, wf o -> ch_id c = None ->
    (ch_raw c <> None -> has_raw_field (h_kind o) = true) ->
    new_attrs o c = None -> new_raw o c = None -> evolve H o c = Err TypeError.
  Proof.
    intros o c Hw Hid Hal Ha Hr. unfold evolve. rewrite Hid.
    rewrite (attr_evolve_spec o (ch_attrs c) (ch_raw c) (h_id o) Hw Hal).
    fold (new_attrs o c). fold (new_raw o c). rewrite Ha, Hr.
    unfold init. cbn [h_id]. destruct (h_id o) eqn:E.
    - unfold compute_hash, hash_from_attributes. cbn [h_raw h_attrs]. reflexivity.
    - unfold compute_hash, hash_from_attributes. cbn [h_raw h_attrs]. reflexivity.
  Qed.

  (* ------------------------------------------------------------ swhid *)
  Theorem swhid_spec : forall o t, swhid_tag (h_kind o) = Some t ->
    swhid o = if Nat.eqb (length (h_id o)) 20 then Ok (t, h_id o) else Err ValidationError.
  Proof. intros o t Ht. unfold swhid. rewrite Ht. reflexivity. Qed.

  Theorem swhid_carries_id : forall o t, swhid_tag (h_kind o) = Some t -> length (h_id o) = 20%nat ->
    swhid o = Ok (t, h_id o).
  Proof. intros o t Ht Hl. rewrite (swhid_spec o t Ht), Hl. reflexivity. Qed.

  Theorem swhid_of_built : forall k a raw_arg o' t, raw_arg_allowed k raw_arg ->
    construct H k (Some a) raw_arg [] = Ok o' -> swhid_tag k = Some t ->
    length (H (manifest_of a (raw_of_arg raw_arg))) = 20%nat ->
    swhid o' = Ok (t, H (manifest_of a (raw_of_arg raw_arg))).
  Proof.
    intros k a raw_arg o' t Hal Hc Ht Hl.
    destruct (construct_id k a raw_arg Hal) as [o2 [Hc2 [Hk [_ [_ [Hid _]]]]]].
    rewrite Hc in Hc2. inversion Hc2; subst o2.
    rewrite <- Hid. apply swhid_carries_id; [rewrite Hk; exact Ht | rewrite Hid; exact Hl].
  Qed.

  Theorem swhid_extid_none : forall o, h_kind o = KExtID -> swhid o = Err AttributeError.
  Proof. intros o Hk. unfold swhid. rewrite Hk. reflexivity. Qed.
End Generic.

(* the kind -> SWHID type table, read through the tables regenerated from
   swhids.py: the six kinds that have a swhid() get the tags of the SWHID
   specification, pairwise distinct, all among EXTENDED_SWHID_TYPES, the
   four CoreSWHID ones among SWHID_TYPES; ExtID has none *)
Theorem swhid_table :
  map swhid_tag all_kinds
  = [Some (bs "ori"); Some (bs "snp"); Some (bs "rel"); Some (bs "rev"); Some (bs "dir"); Some (bs "emd"); None]
  /\ NoDup (map swhid_tag all_kinds)
  /\ (forall k t, swhid_tag k = Some t -> In t EXTENDED_SWHID_TYPES)
  /\ (forall k nm t, swhid_member k = Some (true, nm) -> swhid_tag k = Some t -> In t SWHID_TYPES).
Proof.
  assert (E : map swhid_tag all_kinds
    = [Some (bs "ori"); Some (bs "snp"); Some (bs "rel"); Some (bs "rev"); Some (bs "dir"); Some (bs "emd"); None])
    by (vm_compute; reflexivity).
  split; [exact E|]. split.
  - rewrite E. repeat constructor; cbn; intuition discriminate.
  - split.
    + intros k t Ht. assert (K : In (swhid_tag k) (map swhid_tag all_kinds)) by (destruct k; cbn; tauto).
      rewrite E, Ht in K. vm_compute. cbn in K.
      repeat (destruct K as [K | K]; [inversion K; subst t; tauto|]). contradiction.
    + intros k nm t Hm Ht. destruct k; cbn in Hm; try discriminate;
        vm_compute in Ht; inversion Ht; subst t; vm_compute; tauto.
Qed.

(* ---------------------------------------------------------------- the concrete kinds *)
Section Kinds.
  Variable H : bytes -> bytes.

  (* Directory: attrs manifest = Dir.dir_manifest (property C02) *)
  Theorem init_id_directory : forall (es : list Dir.entry) (raw : option bytes),
    exists o, construct H KDirectory (Some (Dir.dir_manifest es)) (Some raw) [] = Ok o
      /\ h_id o = H (manifest_of (Dir.dir_manifest es) raw)
      /\ h_id o = Dir.dir_compute_hash H {| Dir.d_entries := es; Dir.d_raw_manifest := raw |}
      /\ compute_hash H o = Ok (h_id o)
      /\ swhid_tag (h_kind o) = Some (bs "dir").
  Proof.
    intros es raw.
    destruct (construct_id H KDirectory (Dir.dir_manifest es) (Some raw) ltac:(intros _; reflexivity))
      as [o [Hc [Hk [_ [_ [Hid [Hch _]]]]]]].
    exists o. split; [exact Hc|]. split; [exact Hid|]. split; [|split; [exact Hch|]].
    - rewrite Hid. unfold Dir.dir_compute_hash, manifest_of. cbn. destruct raw; reflexivity.
    - rewrite Hk. vm_compute. reflexivity.
  Qed.

  (* Snapshot: attrs manifest = Snap.snap_manifest (property C05); no raw manifest *)
  Theorem init_id_snapshot : forall (br : Snap.branches),
    exists o, construct H KSnapshot (Some (Snap.snap_manifest br)) None [] = Ok o
      /\ h_id o = H (Snap.snap_manifest br)
      /\ h_id o = Snap.snap_id H br
      /\ compute_hash H o = Ok (h_id o)
      /\ check H o = Ok tt
      /\ swhid_tag (h_kind o) = Some (bs "snp").
  Proof.
    intro br.
    destruct (construct_id H KSnapshot (Snap.snap_manifest br) None ltac:(intro K; congruence))
      as [o [Hc [Hk [_ [_ [Hid [Hch _]]]]]]].
    exists o. split; [exact Hc|]. split; [exact Hid|]. split; [exact Hid|]. split; [exact Hch|]. split.
    - apply (proj1 (built_checks H KSnapshot _ None o ltac:(intro K; congruence) Hc)). intro K. exact K.
    - rewrite Hk. vm_compute. reflexivity.
  Qed.

  (* Release: attrs manifest = Rel.release_git_object (property C04), which
     raises TypeError when the target is None *)
  Definition release_attrs (r : Rel.release) : option bytes :=
    match Rel.release_git_object r with Rel.MOk m => Some m | _ => None end.

  Theorem init_id_release : forall (r : Rel.release) (m : bytes),
    Rel.release_git_object r = Rel.MOk m ->
    exists o, construct H KRelease (release_attrs r) (Some (Rel.r_raw_manifest r)) [] = Ok o
      /\ h_id o = H (manifest_of m (Rel.r_raw_manifest r))
      /\ Rel.rel_compute_hash H r = Some (h_id o)
      /\ compute_hash H o = Ok (h_id o)
      /\ swhid_tag (h_kind o) = Some (bs "rel").
  Proof.
    intros r m Hm. unfold release_attrs. rewrite Hm.
    destruct (construct_id H KRelease m (Some (Rel.r_raw_manifest r)) ltac:(intros _; reflexivity))
      as [o [Hc [Hk [_ [_ [Hid [Hch _]]]]]]].
    exists o. split; [exact Hc|]. split; [exact Hid|]. split; [|split; [exact Hch|]].
    - rewrite Hid. unfold Rel.rel_compute_hash, manifest_of. cbn [raw_of_arg]. rewrite Hm.
      destruct (Rel.r_raw_manifest r); reflexivity.
    - rewrite Hk. vm_compute. reflexivity.
  Qed.

  (* a Release without target and without raw manifest cannot be built
     without id; built with an explicit id, check raises TypeError *)
  Theorem release_no_target : forall (r : Rel.release), Rel.r_target r = None ->
    release_attrs r = None
    /\ construct H KRelease (release_attrs r) (Some None) [] = Err TypeError
    /\ forall raw i, check H {| h_kind := KRelease; h_attrs := release_attrs r; h_raw := raw; h_id := i |} <> Ok tt.
  Proof.
    intros r Ht. assert (E : release_attrs r = None).
    { unfold release_attrs, Rel.release_git_object. rewrite Ht. reflexivity. }
    split; [exact E|]. rewrite E. split; [reflexivity|].
    intros raw i Hok. apply check_ok_iff in Hok. destruct Hok as [a [Ha _]]. discriminate.
  Qed.

  (* Revision: attrs manifest = Rev.rev_manifest (property C03) *)
  Theorem init_id_revision : forall (r : Rev.revision),
    exists o, construct H KRevision (Some (Rev.rev_manifest r)) (Some (Rev.v_raw_manifest r)) [] = Ok o
      /\ h_id o = H (manifest_of (Rev.rev_manifest r) (Rev.v_raw_manifest r))
      /\ h_id o = Rev.rev_compute_hash H r
      /\ compute_hash H o = Ok (h_id o)
      /\ swhid_tag (h_kind o) = Some (bs "rev").
  Proof.
    intro r.
    destruct (construct_id H KRevision (Rev.rev_manifest r) (Some (Rev.v_raw_manifest r)) ltac:(intros _; reflexivity))
      as [o [Hc [Hk [_ [_ [Hid [Hch _]]]]]]].
    exists o. split; [exact Hc|]. split; [exact Hid|]. split; [|split; [exact Hch|]].
    - rewrite Hid. unfold Rev.rev_compute_hash, manifest_of. cbn [raw_of_arg].
      destruct (Rev.v_raw_manifest r); reflexivity.
    - rewrite Hk. vm_compute. reflexivity.
  Qed.

  (* Origin: the manifest is url.encode("utf-8"), taken here as the encoded bytes *)
  Theorem init_id_origin : forall (url_utf8 : bytes),
    exists o, construct H KOrigin (Some url_utf8) None [] = Ok o
      /\ h_id o = H url_utf8
      /\ compute_hash H o = Ok (h_id o)
      /\ check H o = Ok tt
      /\ swhid_tag (h_kind o) = Some (bs "ori").
  Proof.
    intro u.
    destruct (construct_id H KOrigin u None ltac:(intro K; congruence))
      as [o [Hc [Hk [_ [_ [Hid [Hch _]]]]]]].
    exists o. split; [exact Hc|]. split; [exact Hid|]. split; [exact Hch|]. split.
    - apply (proj1 (built_checks H KOrigin _ None o ltac:(intro K; congruence) Hc)). intro K. exact K.
    - rewrite Hk. vm_compute. reflexivity.
  Qed.
End Kinds.

(* ---------------------------------------------------------------- satisfiability *)
(* with the toy hash of the model file: [toyH m = length m :: m], injective, so
   that "needed" and "unneeded" raw manifests both exist *)
Definition ex_dir : hobj := {| h_kind := KDirectory; h_attrs := Some [1;2;3]; h_raw := None; h_id := [] |}.

Example ex_built_passes :
  exists o, construct toyH KDirectory (Some [1;2;3]) (Some None) [] = Ok o
    /\ h_id o = [3;1;2;3] /\ check toyH o = Ok tt /\ swhid_tag (h_kind o) = Some (bs "dir").
Proof. eexists. split; [vm_compute; reflexivity|]. vm_compute. repeat split; reflexivity. Qed.

(* an object with a NEEDED raw manifest (the attributes give another id) passes check *)
Example ex_needed_raw_passes :
  exists o, construct toyH KDirectory (Some [1;2;3]) (Some (Some [7;7])) [] = Ok o
    /\ h_id o = toyH [7;7] /\ ~ unneeded_raw toyH [1;2;3] (h_raw o) /\ check toyH o = Ok tt.
Proof.
  eexists. split; [vm_compute; reflexivity|]. split; [reflexivity|]. split; [|vm_compute; reflexivity].
  cbn. discriminate.
Qed.

(* an object whose raw manifest merely repeats what the attributes give fails check *)
Example ex_unneeded_raw_fails :
  exists o, construct toyH KDirectory (Some [1;2;3]) (Some (Some [1;2;3])) [] = Ok o
    /\ unneeded_raw toyH [1;2;3] (h_raw o) /\ check toyH o = Err ValueError.
Proof. eexists. split; [vm_compute; reflexivity|]. split; [reflexivity | vm_compute; reflexivity]. Qed.

(* a wrong id (one bit of the right one flipped) is rejected, the right one accepted *)
Example ex_wrong_id :
  check toyH (set_id [3;1;2;2] ex_dir) = Err ValueError /\ check toyH (set_id [3;1;2;3] ex_dir) = Ok tt
  /\ check toyH (set_id [3;1;2] ex_dir) = Err ValueError.
Proof. vm_compute. repeat split; reflexivity. Qed.

(* evolve: a field change that alters the manifest, on an object whose old id was wrong *)
Example ex_evolve :
  evolve toyH (set_id [9] ex_dir) {| ch_attrs := Some (Some [4;5]); ch_raw := None; ch_id := None |}
  = Ok {| h_kind := KDirectory; h_attrs := Some [4;5]; h_raw := None; h_id := [2;4;5] |}
  /\ evolve toyH ex_dir {| ch_attrs := None; ch_raw := None; ch_id := Some [1] |} = Err TypeError.
Proof. vm_compute. split; reflexivity. Qed.

Theorem hyps_satisfiable :
  (exists o a, h_id o = [] /\ h_attrs o = Some a /\ h_raw o <> None /\ wf o)
  /\ (exists o i, compute_hash toyH o <> Ok i)
  /\ (exists o a, h_attrs o = Some a /\ unneeded_raw toyH a (h_raw o))
  /\ (exists o a m, h_attrs o = Some a /\ h_raw o = Some m /\ toyH m <> toyH a)
  /\ (exists o c a', wf o /\ ch_id c = None /\ (ch_raw c <> None -> has_raw_field (h_kind o) = true)
        /\ new_attrs o c = Some a' /\ ch_attrs c <> None /\ ch_raw c <> None
        /\ ~ unneeded_raw toyH a' (new_raw o c)).
Proof.
  split; [|split; [|split; [|split]]].
  - exists {| h_kind := KRevision; h_attrs := Some [1]; h_raw := Some [2]; h_id := [] |}, [1].
    repeat split; try reflexivity; try discriminate.
  - exists ex_dir, [0]. vm_compute. discriminate.
  - exists {| h_kind := KRelease; h_attrs := Some [1]; h_raw := Some [1]; h_id := [] |}, [1].
    split; reflexivity.
  - exists {| h_kind := KRelease; h_attrs := Some [1]; h_raw := Some [2]; h_id := [] |}, [1], [2].
    repeat split; try reflexivity. vm_compute. discriminate.
  - exists ex_dir, {| ch_attrs := Some (Some [4]); ch_raw := Some (Some [5]); ch_id := None |}, [4].
    repeat split; try reflexivity; try discriminate.
    all: cbn; try congruence; try discriminate.
Qed.
